# Per-property configuration of bin/check: the Lean module holding the property
# theorems, the correspondence channels the property's model parts depend on, and notes
# that go into the evidence file.
GO_LIBS = "Go standard library and third-party behaviour modelled by hand (see DESIGN.md §6)"

PROPS = {
    "C20": dict(module="Iso8583.Props.C20", channels=["D"],
                claim="Lean theorems for all pad bytes, values and targets (pad_ge, pad_*_lt exact width and shape, no truncation, unpad_pad under the edge condition, unpad strips only the pad run on the padded side, no-op padder identity, caller memory untouched) about a model of padding/*.go; the model is tied to the code by channel D (pad/unpad on sentinel-backed slices, results and backing arrays diffed).",
                note="Trusted: Lean kernel; the hand-written model of padding/*.go and of bytes.Trim*Func for single-byte pads < 0x80, validated by differential runs; the non-aliasing theorem is about the model's explicit memory effect, the tie compares the real backing array.",
                trusted=["bytes.TrimLeftFunc/TrimRightFunc on a single-byte pad < 0x80 modelled as dropWhile", "Go slice/append semantics (GoSlice)"],
                assumptions=["pad characters are single bytes 0x00..0x7F (DESIGN §2.1)"]),
    "C06": dict(module="Iso8583.Props.C06", channels=["P"],
                claim="Lean theorems for every prefixer of the regenerated table (43 exported + None), every n and maxLen: exact width and alphabet, decode(encode n ++ tail) = (n, width), failure characterisation of EncodeLength, range of DecodeLength results, failure on short input; partial for the open finding KF1 (Hex.Fixed), which is excluded by an explicit hypothesis and witnessed by a proved counterexample.",
                note="Trusted: Lean kernel; hand models of strconv.Atoi/ParseUint, fmt %0*d/%0*s, math/big, encoding/binary; translator for the prefixer table; correspondence channel P.",
                trusted=["strconv.Atoi/ParseUint, fmt %0*d / %0*s, math/big Bytes/SetBytes, encoding/binary modelled by hand"],
                assumptions=["lengths n, maxLen >= 0 (Go ints); digit counts 1..6 as exported"]),
    "C07": dict(module="Iso8583.Props.C07", channels=["E"],
                claim="Lean theorems for each of the nine encoders: decode(encode x ++ tail, units x) = (canon x, |encode x|) for all in-domain x and all tails; BCD/LBCD/hex layouts equal independently written nibble layouts; negative lengths, short input and out-of-alphabet input give an error and an ok result is always in the alphabet with the exact read count; the EBCDIC tables regenerated from the source are bijections that agree with a CP500/CP1047 reference on letters, digits and common punctuation (decide over all 256 entries); BER tag continuation rule.",
                note="Trusted: Lean kernel; hand models of encoding/hex and yerden/go-util/bcd; the CP1047 table is dumped from x/text at run time, the EBCDIC tables are parsed from encoding/ebcdic.go on every run; correspondence channel E.",
                trusted=["encoding/hex, yerden/go-util/bcd modelled from source; x/text CodePage1047 dumped over all 256 bytes at run time"],
                assumptions=["EBCDIC1047 text is UTF-8 restricted to runes 0..255 (every other rune is unencodable)"]),
}

# properties not claimed (yet), with the reason; shrinks as checks are built
NOT_APPLICABLE = {
}
for _i in range(1, 21):
    _p = "C%02d" % _i
    if _p not in PROPS:
        NOT_APPLICABLE[_p] = "check under construction in this round: model and theorems not committed yet (see DESIGN.md §4 for the plan)"

# build-tag guarded hook commits in /repo (none are needed)
HOOK_COMMITS = []
