package impl

// Leak scenarios for property C18 (errors half): build a field / composite / message that
// carries high-entropy secrets, provoke every kind of failure (corrupted characters, wrong
// lengths, truncated and corrupted wire bytes, wrong Go types for Marshal/Unmarshal,
// malformed JSON) and record the text of every error. Scenario i of seed s is a pure
// function of (s, i), so `X errleak <s> <i>` replays exactly.
//
//   X errleak <seed> <index>        → clean <errors> | leak <n> site-text=<hex of the error text>
//   X errleak-bertag <hex value>    → the witness of KF-C18-1 (see KNOWN_FINDINGS.txt)

import (
	"encoding/hex"
	"encoding/json"
	"errors"
	"fmt"
	"reflect"
	"strconv"
	"strings"

	"github.com/moov-io/iso8583"
	"github.com/moov-io/iso8583/encoding"
	iso8583errors "github.com/moov-io/iso8583/errors"
	"github.com/moov-io/iso8583/field"
	"github.com/moov-io/iso8583/padding"
	"github.com/moov-io/iso8583/prefix"
	"github.com/moov-io/iso8583/sort"
	"github.com/moov-io/iso8583/specs"
)

// ---- deterministic randomness (splitmix64, as gen.Rng; impl can not import gen)

type LRng struct{ s uint64 }

func NewLRng(seed uint64) *LRng { return &LRng{s: seed*0x9E3779B97F4A7C15 + 0x7654321} }

func (r *LRng) U64() uint64 {
	r.s += 0x9E3779B97F4A7C15
	z := r.s
	z = (z ^ (z >> 30)) * 0xBF58476D1CE4E5B9
	z = (z ^ (z >> 27)) * 0x94D049BB133111EB
	return z ^ (z >> 31)
}

func (r *LRng) Intn(n int) int {
	if n <= 0 {
		return 0
	}
	return int(r.U64() % uint64(n))
}

func (r *LRng) From(alpha string, n int) []byte {
	b := make([]byte, n)
	for i := range b {
		b[i] = alpha[r.Intn(len(alpha))]
	}
	return b
}

func lpick[T any](r *LRng, xs []T) T { return xs[r.Intn(len(xs))] }

// ---- observations

type LeakObs struct {
	Op   string
	Text string
	// Accessors: text reachable only through dedicated accessors (RawMessage); never a violation
	Panic bool
}

type LeakCase struct {
	Desc    string
	Class   string // kind/encoding/prefix class for the distribution
	Secrets [][]byte
	Obs     []LeakObs
	Ops     int // operations attempted
}

func (c *LeakCase) try(op string, f func() error) {
	c.Ops++
	defer func() {
		if x := recover(); x != nil {
			c.Obs = append(c.Obs, LeakObs{Op: op, Text: fmt.Sprint(x), Panic: true})
		}
	}()
	if err := f(); err != nil {
		c.Obs = append(c.Obs, LeakObs{Op: op, Text: err.Error()})
		// every level reachable by Unwrap that is not a SafeError cause is also "an error returned"
		// only through errors.Unwrap, i.e. not message text of the returned error: not checked.
		var ue *iso8583errors.UnpackError
		if errors.As(err, &ue) {
			// the raw input is allowed in RawMessage only; FieldID names the element
			_ = ue.RawMessage
		}
	}
}

// FindLeak reports the longest piece of a secret (>= 8 units) found in text: verbatim, or as
// lower/upper-case hex (a unit = one byte = two hex digits).
func FindLeak(text string, secrets [][]byte) (int, string) {
	best, how := 0, ""
	up := strings.ToUpper(text)
	for _, s := range secrets {
		if len(s) < 8 {
			continue
		}
		for w := len(s); w >= 8 && w > best; w-- {
			found := false
			for i := 0; i+w <= len(s); i++ {
				piece := s[i : i+w]
				if strings.Contains(text, string(piece)) {
					best, how, found = w, "verbatim "+strconv.Quote(string(piece)), true
					break
				}
				hx := strings.ToUpper(hex.EncodeToString(piece))
				if strings.Contains(up, hx) {
					best, how, found = w, "hex "+hx, true
					break
				}
			}
			if found {
				break
			}
		}
	}
	return best, how
}

// ---- specs

type encInfo struct {
	name  string
	enc   encoding.Encoder
	alpha string // "digits", "text", "bytes", "hexdigits"
}

var leakEncs = []encInfo{
	{"ASCII", encoding.ASCII, "text"}, {"EBCDIC", encoding.EBCDIC, "text"}, {"EBCDIC1047", encoding.EBCDIC1047, "text"},
	{"Binary", encoding.Binary, "bytes"}, {"BCD", encoding.BCD, "digits"}, {"LBCD", encoding.LBCD, "digits"},
	{"BytesToASCIIHex", encoding.BytesToASCIIHex, "bytes"},
}

type prefInfo struct {
	name string
	p    prefix.Prefixer
	fix  bool
}

func leakPrefs() []prefInfo {
	var out []prefInfo
	for _, fam := range []struct {
		n string
		f prefix.Prefixers
	}{{"ASCII", prefix.ASCII}, {"BCD", prefix.BCD}, {"Binary", prefix.Binary}, {"Hex", prefix.Hex}, {"EBCDIC", prefix.EBCDIC}, {"EBCDIC1047", prefix.EBCDIC1047}} {
		out = append(out, prefInfo{fam.n + ".Fixed", fam.f.Fixed, true}, prefInfo{fam.n + ".L", fam.f.L, false}, prefInfo{fam.n + ".LL", fam.f.LL, false},
			prefInfo{fam.n + ".LLL", fam.f.LLL, false}, prefInfo{fam.n + ".LLLL", fam.f.LLLL, false}, prefInfo{fam.n + ".LLLLLL", fam.f.LLLLLL, false})
	}
	return out
}

var leakPrefList = leakPrefs()

const textAlpha = "ABCDEFGHJKLMNPQRSTUVWXYZabcdefghijkmnopqrstuvwxyz23456789"
const digitAlpha = "0123456789"
const hexAlpha = "0123456789ABCDEF"

func secretFor(r *LRng, alpha string, n int) []byte {
	switch alpha {
	case "digits":
		s := r.From(digitAlpha, n)
		s[0] = "123456789"[r.Intn(9)]
		return s
	case "hexdigits":
		if n%2 == 1 {
			n++
		}
		return r.From(hexAlpha, n)
	case "bytes":
		b := make([]byte, n)
		for i := range b {
			b[i] = byte(r.U64())
		}
		if r.Intn(3) == 0 {
			// a value that has the shape of a BER-TLV tag (first byte xxx11111, continuation bytes with
			// the top bit set, last byte without): still n*7 bits of entropy
			b[0] |= 0x1F
			for i := 1; i < n-1; i++ {
				b[i] |= 0x80
			}
			b[n-1] &= 0x7F
		}
		return b
	}
	return r.From(textAlpha, n)
}

func mkPrim(kind string, spec *field.Spec) field.Field {
	switch kind {
	case "String":
		return field.NewString(spec)
	case "Numeric":
		return field.NewNumeric(spec)
	case "Binary":
		return field.NewBinary(spec)
	case "Hex":
		return field.NewHex(spec)
	case "Track1":
		return field.NewTrack1(spec)
	case "Track2":
		return field.NewTrack2(spec)
	case "Track3":
		return field.NewTrack3(spec)
	}
	return nil
}

type primCase struct {
	kind   string
	enc    encInfo
	pref   prefInfo
	pad    padding.Padder
	padN   string
	length int
	secret []byte // the sensitive part (PAN inside a track)
	value  []byte // what SetBytes receives
}

func (p primCase) spec() *field.Spec {
	return &field.Spec{Length: p.length, Description: "Secret " + p.kind, Enc: p.enc.enc, Pref: p.pref.p, Pad: p.pad}
}

func (p primCase) String() string {
	return fmt.Sprintf("%s/%s/%s/pad=%s/len=%d", p.kind, p.enc.name, p.pref.name, p.padN, p.length)
}

func trackText(r *LRng, kind string, pan []byte) []byte {
	exp := fmt.Sprintf("%02d%02d", r.Intn(100), 1+r.Intn(12))
	switch kind {
	case "Track1":
		return []byte(fmt.Sprintf("B%s^%s^%s%s%s", pan, "DOE/JANE", exp, "101", string(r.From(digitAlpha, 6))))
	case "Track2":
		return []byte(fmt.Sprintf("%s%s%s%s%s", pan, lpick(r, []string{"=", "D"}), exp, "101", string(r.From(digitAlpha, 6))))
	}
	return []byte(fmt.Sprintf("%s%s=%s", "01", pan, string(r.From(digitAlpha, 10))))
}

func randomPrim(r *LRng) primCase {
	kind := lpick(r, []string{"String", "String", "Numeric", "Numeric", "Binary", "Hex", "Track1", "Track2", "Track3"})
	var p primCase
	p.kind = kind
	n := 12 + r.Intn(8) // 12..19
	switch kind {
	case "Numeric":
		p.enc = lpick(r, []encInfo{leakEncs[0], leakEncs[1], leakEncs[2], leakEncs[4], leakEncs[5], leakEncs[3]})
		if n > 18 {
			n = 18
		}
		p.secret = secretFor(r, "digits", n)
		p.value = p.secret
	case "String":
		p.enc = lpick(r, leakEncs)
		al := p.enc.alpha
		if al == "bytes" {
			al = lpick(r, []string{"text", "digits", "bytes"})
		}
		p.secret = secretFor(r, al, n)
		p.value = p.secret
	case "Binary":
		p.enc = lpick(r, []encInfo{leakEncs[3], leakEncs[6], leakEncs[0]})
		al := "bytes"
		if p.enc.alpha == "text" {
			al = "text"
		}
		p.secret = secretFor(r, al, n)
		p.value = p.secret
	case "Hex":
		p.enc = lpick(r, []encInfo{leakEncs[3], leakEncs[6]})
		raw := secretFor(r, "bytes", n)
		p.secret = raw
		p.value = raw // SetBytes takes the bytes; Value() is their upper-case hex
	default:
		p.enc = lpick(r, []encInfo{leakEncs[0], leakEncs[1], leakEncs[2], leakEncs[3]})
		p.secret = secretFor(r, "digits", n)
		p.value = trackText(r, kind, p.secret)
	}
	p.pref = lpick(r, leakPrefList)
	unit := len(p.value)
	if p.pref.fix {
		p.length = unit
		if r.Intn(4) == 0 { // fixed with padding
			p.length = unit + 1 + r.Intn(4)
			if kind == "Numeric" || p.enc.alpha == "digits" {
				p.pad, p.padN = padding.Left('0'), "L0"
			} else {
				p.pad, p.padN = padding.Right(' '), "R "
			}
		}
	} else {
		p.length = unit + r.Intn(20)
	}
	if p.padN == "" {
		p.padN = "nil"
	}
	return p
}

// corrupt one character of v with something outside the alphabet of the context
func corruptOne(r *LRng, v []byte) []byte {
	out := append([]byte{}, v...)
	if len(out) == 0 {
		return out
	}
	i := r.Intn(len(out))
	out[i] = lpick(r, []byte{'X', ' ', 0xFF, 0x80, '?', '-', 'g', 0x00, '"', '\\'})
	return out
}

func wireMutations(r *LRng, wire []byte, budget int) [][]byte {
	var out [][]byte
	// truncations
	for k := 0; k < budget && len(wire) > 0; k++ {
		out = append(out, append([]byte{}, wire[:r.Intn(len(wire))]...))
	}
	// single byte substitutions (first bytes = prefix / tag / bitmap region more often)
	for k := 0; k < 2*budget && len(wire) > 0; k++ {
		m := append([]byte{}, wire...)
		i := r.Intn(len(m))
		if r.Intn(2) == 0 && len(m) > 8 {
			i = r.Intn(8)
		}
		m[i] = lpick(r, []byte{0x00, 0xFF, 0x80, '9', 'X', ' ', m[i] ^ 0x01, m[i] + 1, 0x7F, 0x3F})
		out = append(out, m)
	}
	// one byte removed / inserted (shifts everything after it)
	for k := 0; k < budget && len(wire) > 1; k++ {
		i := r.Intn(len(wire))
		out = append(out, append(append([]byte{}, wire[:i]...), wire[i+1:]...))
		ins := append(append([]byte{}, wire[:i]...), lpick(r, []byte{'0', 0x00, 0xFF, 'Z'}))
		out = append(out, append(ins, wire[i:]...))
	}
	return out
}

func unmarshalTargets() []struct {
	name string
	mk   func() interface{}
} {
	type other struct{ A int }
	return []struct {
		name string
		mk   func() interface{}
	}{
		{"int", func() interface{} { return 0 }},
		{"*int", func() interface{} { return new(int) }},
		{"int64", func() interface{} { return int64(0) }},
		{"*int64", func() interface{} { return new(int64) }},
		{"*int32", func() interface{} { return new(int32) }},
		{"*uint", func() interface{} { return new(uint) }},
		{"*float64", func() interface{} { return new(float64) }},
		{"string", func() interface{} { return "" }},
		{"*string", func() interface{} { return new(string) }},
		{"[]byte", func() interface{} { return []byte{} }},
		{"*[]byte", func() interface{} { return new([]byte) }},
		{"*bool", func() interface{} { return new(bool) }},
		{"*struct", func() interface{} { return &other{} }},
		{"nil", func() interface{} { return nil }},
		{"*field.String", func() interface{} { return &field.String{} }},
		{"*field.Numeric", func() interface{} { return &field.Numeric{} }},
		{"*field.Binary", func() interface{} { return &field.Binary{} }},
		{"*field.Hex", func() interface{} { return &field.Hex{} }},
		{"*field.Track2", func() interface{} { return &field.Track2{} }},
		{"reflect(int)", func() interface{} { return reflect.ValueOf(&struct{ A int }{}).Elem().Field(0) }},
		{"reflect(int64)", func() interface{} { return reflect.ValueOf(&struct{ A int64 }{}).Elem().Field(0) }},
		{"reflect(int8)", func() interface{} { return reflect.ValueOf(&struct{ A int8 }{}).Elem().Field(0) }},
		{"reflect(int16)", func() interface{} { return reflect.ValueOf(&struct{ A int16 }{}).Elem().Field(0) }},
		{"reflect(int32)", func() interface{} { return reflect.ValueOf(&struct{ A int32 }{}).Elem().Field(0) }},
		{"reflect(uint64)", func() interface{} { return reflect.ValueOf(&struct{ A uint64 }{}).Elem().Field(0) }},
		{"reflect(string)", func() interface{} { return reflect.ValueOf(&struct{ A string }{}).Elem().Field(0) }},
		{"reflect([]byte)", func() interface{} { return reflect.ValueOf(&struct{ A []byte }{}).Elem().Field(0) }},
		{"reflect(float)", func() interface{} { return reflect.ValueOf(&struct{ A float64 }{}).Elem().Field(0) }},
		{"reflect(unsettable)", func() interface{} { return reflect.ValueOf(struct{ A int }{}).Field(0) }},
	}
}

func marshalSources(v []byte) []struct {
	name string
	val  interface{}
} {
	s := string(v)
	bs := append([]byte{}, v...)
	i64, _ := strconv.ParseInt(s, 10, 64)
	// the secret followed by more digits: a numeral that does not fit into an int64 when the secret is digits
	long := s + "99999999"
	return []struct {
		name string
		val  interface{}
	}{
		{"string(longer)", long}, {"*string(longer)", &long},
		{"string", s}, {"*string", &s}, {"[]byte", bs}, {"*[]byte", &bs}, {"int64", i64}, {"*int64", &i64}, {"int", int(i64)},
		{"float64", 1.5}, {"struct", struct{ A string }{s}}, {"*struct", &struct{ A string }{s}}, {"[]string", []string{s}},
		{"map", map[string]string{"v": s}}, {"field.String", field.NewStringValue(s)}, {"field.Hex", field.NewHexValue(s)},
		{"field.Binary", field.NewBinaryValue(bs)}, {"field.Numeric", field.NewNumericValue(i64)},
		{"field.Track2", &field.Track2{PrimaryAccountNumber: s}},
	}
}

func jsonDocs(r *LRng, v []byte) [][]byte {
	q, _ := json.Marshal(string(v))
	hx := strings.ToUpper(hex.EncodeToString(v))
	docs := [][]byte{
		q,
		q[:len(q)-1],           // unterminated string
		v,                      // bare text
		[]byte(`"` + hx + `"`), // hex text
		[]byte(`"` + hx[:len(hx)-1] + `"`),
		[]byte(`"` + hx[:len(hx)-2] + `ZZ"`),
		[]byte(`{"v":` + string(q) + `}`),
		[]byte(`[` + string(q) + `]`),
		[]byte(`{"1":` + string(q) + `,"2":` + string(q)),
		append(append([]byte{}, q...), 'x'),
		[]byte(`"` + string(corruptOne(r, []byte(strings.Trim(string(q), `"`)))) + `"`),
		[]byte(string(v) + "1234567890123456789012345"), // a number too large for int when v is digits
		[]byte(string(v) + ".5"),
		[]byte(`"\u00` + string(v) + `"`),
		[]byte(`null`), []byte(`true`), []byte(``),
	}
	return docs
}

// scenario family 0: one primitive field, every operation
func leakPrimitive(r *LRng, c *LeakCase) {
	p := randomPrim(r)
	c.Desc = "primitive " + p.String()
	c.Class = p.kind + "/" + p.enc.name + "/" + strings.SplitN(p.pref.name, ".", 2)[0]
	c.Secrets = [][]byte{p.secret}
	if p.kind == "Hex" || p.kind == "Binary" {
		c.Secrets = append(c.Secrets, []byte(strings.ToUpper(hex.EncodeToString(p.secret))))
	}
	fresh := func() field.Field { return mkPrim(p.kind, p.spec()) }

	// valid value → wire
	var wire []byte
	f := fresh()
	c.try("SetBytes(valid)", func() error { return f.SetBytes(p.value) })
	c.try("Pack(valid)", func() error {
		w, err := f.Pack()
		wire = w
		return err
	})
	for i, m := range wireMutations(r, wire, 4) {
		g := fresh()
		m := m
		c.try(fmt.Sprintf("Unpack(mutation %d)", i), func() error { _, err := g.Unpack(m); return err })
	}
	// corrupted values
	for k := 0; k < 4; k++ {
		cv := corruptOne(r, p.value)
		g := fresh()
		c.try("SetBytes(corrupted)", func() error { return g.SetBytes(cv) })
		c.try("Pack(after corrupted SetBytes)", func() error { _, err := g.Pack(); return err })
		c.try("String(after corrupted)", func() error { _, err := g.String(); return err })
		c.try("Bytes(after corrupted)", func() error { _, err := g.Bytes(); return err })
		for _, src := range marshalSources(cv) {
			g2 := fresh()
			src := src
			c.try("Marshal("+src.name+" corrupted)", func() error { return g2.Marshal(src.val) })
			c.try("Pack(after Marshal "+src.name+")", func() error { _, err := g2.Pack(); return err })
		}
		for _, tgt := range unmarshalTargets() {
			tgt := tgt
			c.try("Unmarshal(corrupted value → "+tgt.name+")", func() error { return g.Unmarshal(tgt.mk()) })
		}
		if hg, ok := g.(*field.Hex); ok {
			hg.SetValue(string(cv)) // a Hex field holding non-hex text
			c.try("Hex.Pack(non-hex value)", func() error { _, err := hg.Pack(); return err })
			c.try("Hex.Bytes(non-hex value)", func() error { _, err := hg.Bytes(); return err })
			c.try("json.Marshal(Hex non-hex)", func() error { _, err := json.Marshal(hg); return err })
		}
		if sg, ok := g.(*field.String); ok {
			sg.SetValue(string(cv))
			for _, tgt := range unmarshalTargets() {
				tgt := tgt
				c.try("String.Unmarshal(corrupted → "+tgt.name+")", func() error { return sg.Unmarshal(tgt.mk()) })
			}
			c.try("Pack(String corrupted)", func() error { _, err := sg.Pack(); return err })
		}
	}
	// wrong lengths
	for _, d := range []int{1, 2, 7} {
		long := append(append([]byte{}, p.value...), p.value[:d]...)
		g := fresh()
		c.try("SetBytes(too long)", func() error { return g.SetBytes(long) })
		c.try("Pack(too long)", func() error { _, err := g.Pack(); return err })
		g2 := fresh()
		short := p.value[:len(p.value)-d]
		c.try("SetBytes(short)", func() error { return g2.SetBytes(short) })
		c.try("Pack(short)", func() error { _, err := g2.Pack(); return err })
	}
	// valid value, wrong targets / sources
	f2 := fresh()
	c.try("SetBytes(valid)#2", func() error { return f2.SetBytes(p.value) })
	for _, tgt := range unmarshalTargets() {
		tgt := tgt
		c.try("Unmarshal(valid → "+tgt.name+")", func() error { return f2.Unmarshal(tgt.mk()) })
	}
	for _, src := range marshalSources(p.value) {
		g := fresh()
		src := src
		c.try("Marshal("+src.name+")", func() error { return g.Marshal(src.val) })
		c.try("Pack(after Marshal "+src.name+")#2", func() error { _, err := g.Pack(); return err })
	}
	// JSON
	c.try("json.Marshal(valid)", func() error { _, err := json.Marshal(f2); return err })
	for i, doc := range jsonDocs(r, p.value) {
		g := fresh()
		doc := doc
		c.try(fmt.Sprintf("json.Unmarshal(doc %d)", i), func() error { return json.Unmarshal(doc, g) })
		c.try(fmt.Sprintf("Pack(after json doc %d)", i), func() error { _, err := g.Pack(); return err })
	}
}

// ---- composites

type subSecret struct {
	tag    string
	kind   string
	secret []byte
}

func compositeSpec(r *LRng, mode string) (*field.Spec, []subSecret, func() interface{}) {
	pref := lpick(r, []prefix.Prefixer{prefix.ASCII.LLL, prefix.ASCII.LL, prefix.Binary.LL, prefix.BCD.LLL, prefix.EBCDIC.LLL, prefix.Hex.LL})
	var subs []subSecret
	spec := &field.Spec{Length: 255, Description: "Composite " + mode, Pref: pref}
	switch mode {
	case "ber":
		spec.Tag = &field.TagSpec{Enc: encoding.BerTLVTag, Sort: sort.StringsByHex, SkipUnknownTLVTags: r.Intn(3) == 0}
		spec.Subfields = map[string]field.Field{
			"9A":   field.NewHex(&field.Spec{Description: "date", Enc: encoding.Binary, Pref: prefix.BerTLV}),
			"9F02": field.NewHex(&field.Spec{Description: "secret hex", Enc: encoding.Binary, Pref: prefix.BerTLV}),
			"5A":   field.NewBinary(&field.Spec{Description: "secret pan", Enc: encoding.Binary, Pref: prefix.BerTLV}),
			"5F20": field.NewString(&field.Spec{Description: "secret name", Enc: encoding.ASCII, Pref: prefix.BerTLV}),
		}
		subs = []subSecret{{"9F02", "Hex", secretFor(r, "bytes", 8+r.Intn(8))}, {"5A", "Binary", secretFor(r, "bytes", 8+r.Intn(3))}, {"5F20", "String", secretFor(r, "text", 12+r.Intn(8))}}
	case "tagged":
		tl := lpick(r, []int{2, 2, 3, 8})
		tenc := lpick(r, []encoding.Encoder{encoding.ASCII, encoding.EBCDIC})
		mk := func(i int) string { return fmt.Sprintf("%0*d", tl, i) }
		spec.Tag = &field.TagSpec{Length: tl, Enc: tenc, Sort: sort.StringsByInt}
		if tl == 3 && r.Intn(2) == 0 {
			spec.Tag.Pad = padding.Left('0')
			mk = func(i int) string { return strconv.Itoa(i) }
		}
		spec.Subfields = map[string]field.Field{
			mk(1): field.NewString(&field.Spec{Length: 40, Description: "secret text", Enc: encoding.ASCII, Pref: prefix.ASCII.LL}),
			mk(2): field.NewNumeric(&field.Spec{Length: 19, Description: "secret number", Enc: lpick(r, []encoding.Encoder{encoding.ASCII, encoding.BCD}), Pref: prefix.ASCII.LL}),
			mk(3): field.NewString(&field.Spec{Length: 6, Description: "plain", Enc: encoding.ASCII, Pref: prefix.ASCII.Fixed}),
		}
		subs = []subSecret{{mk(1), "String", secretFor(r, "text", 12+r.Intn(8))}, {mk(2), "Numeric", secretFor(r, "digits", 12+r.Intn(7))}}
	case "bitmap":
		spec.Bitmap = field.NewBitmap(&field.Spec{Length: 2, Description: "bm", Enc: encoding.BytesToASCIIHex, Pref: prefix.Hex.Fixed, DisableAutoExpand: true})
		spec.Subfields = map[string]field.Field{
			"1": field.NewString(&field.Spec{Length: 40, Description: "secret text", Enc: encoding.ASCII, Pref: prefix.ASCII.LL}),
			"2": field.NewNumeric(&field.Spec{Length: 19, Description: "secret number", Enc: encoding.ASCII, Pref: prefix.ASCII.LL}),
			"9": field.NewBinary(&field.Spec{Length: 16, Description: "secret bytes", Enc: encoding.BytesToASCIIHex, Pref: prefix.ASCII.LL}),
		}
		subs = []subSecret{{"1", "String", secretFor(r, "text", 12+r.Intn(8))}, {"2", "Numeric", secretFor(r, "digits", 12+r.Intn(7))}, {"9", "Binary", secretFor(r, "bytes", 8+r.Intn(8))}}
	default: // positional
		spec.Tag = &field.TagSpec{Sort: sort.StringsByInt}
		spec.Subfields = map[string]field.Field{
			"1": field.NewString(&field.Spec{Length: 2, Description: "plain", Enc: encoding.ASCII, Pref: prefix.ASCII.Fixed}),
			"2": field.NewString(&field.Spec{Length: 30, Description: "secret text", Enc: lpick(r, []encoding.Encoder{encoding.ASCII, encoding.EBCDIC}), Pref: prefix.ASCII.LL}),
			"3": field.NewNumeric(&field.Spec{Length: 19, Description: "secret number", Enc: lpick(r, []encoding.Encoder{encoding.ASCII, encoding.BCD}), Pref: prefix.ASCII.LL}),
			"4": field.NewTrack2(&field.Spec{Length: 37, Description: "secret track", Enc: encoding.ASCII, Pref: prefix.ASCII.LL}),
		}
		subs = []subSecret{{"2", "String", secretFor(r, "text", 12+r.Intn(8))}, {"3", "Numeric", secretFor(r, "digits", 12+r.Intn(7))}, {"4", "Track2", secretFor(r, "digits", 16)}}
	}
	return spec, subs, nil
}

func fillComposite(r *LRng, c *LeakCase, comp *field.Composite, spec *field.Spec, subs []subSecret, mode string) {
	// set subfields through JSON-free API: Marshal of a struct built with reflect
	var sfs []reflect.StructField
	var vals []reflect.Value
	add := func(tag string, v interface{}) {
		sfs = append(sfs, reflect.StructField{Name: fmt.Sprintf("F%d", len(sfs)), Type: reflect.TypeOf(v), Tag: reflect.StructTag(`index:"` + tag + `"`)})
		vals = append(vals, reflect.ValueOf(v))
	}
	for _, s := range subs {
		switch s.kind {
		case "Hex":
			add(s.tag, field.NewHexValue(strings.ToUpper(hex.EncodeToString(s.secret))))
		case "Binary":
			add(s.tag, field.NewBinaryValue(s.secret))
		case "Numeric":
			n, _ := strconv.ParseInt(string(s.secret), 10, 64)
			add(s.tag, field.NewNumericValue(n))
		case "Track2":
			t := &field.Track2{}
			add(s.tag, t)
			tt := field.NewTrack2(&field.Spec{})
			_ = tt.SetBytes(trackText(r, "Track2", s.secret))
			*t = *tt
		default:
			add(s.tag, field.NewStringValue(string(s.secret)))
		}
	}
	if mode == "ber" {
		add("9A", field.NewHexValue("210131"))
	}
	if mode == "positional" {
		add("1", field.NewStringValue("AB"))
	}
	if mode == "tagged" {
		for tag := range spec.Subfields {
			if _, ok := spec.Subfields[tag].(*field.String); ok && spec.Subfields[tag].Spec().Description == "plain" {
				add(tag, field.NewStringValue("PLAIN1"))
			}
		}
	}
	st := reflect.New(reflect.StructOf(sfs))
	for i, v := range vals {
		st.Elem().Field(i).Set(v)
	}
	c.try("Composite.Marshal(valid)", func() error { return comp.Marshal(st.Interface()) })
}

func leakComposite(r *LRng, c *LeakCase) {
	mode := lpick(r, []string{"ber", "ber", "tagged", "bitmap", "positional"})
	spec, subs, _ := compositeSpec(r, mode)
	c.Desc = "composite " + mode
	c.Class = "Composite/" + mode
	for _, s := range subs {
		c.Secrets = append(c.Secrets, s.secret)
	}
	var comp *field.Composite
	func() {
		defer func() { recover() }() // a spec the constructor rejects (by panicking) is not an error text
		comp = field.NewComposite(spec)
	}()
	if comp == nil {
		return
	}
	fillComposite(r, c, comp, spec, subs, mode)
	var wire []byte
	c.try("Composite.Pack", func() error { w, err := comp.Pack(); wire = w; return err })
	muts := wireMutations(r, wire, 6)
	// TLV length bytes set to 0 / small values: what follows is then read as the next tag
	for i := range wire {
		if i > 0 && (wire[i] >= 8 && wire[i] <= 20) {
			for _, nv := range []byte{0, 1, 2} {
				m := append([]byte{}, wire...)
				m[i] = nv
				muts = append(muts, m)
			}
		}
	}
	for i, m := range muts {
		g := field.NewComposite(spec)
		m := m
		c.try(fmt.Sprintf("Composite.Unpack(mutation %d)", i), func() error { _, err := g.Unpack(m); return err })
		if len(m) > 3 {
			g2 := field.NewComposite(spec)
			c.try(fmt.Sprintf("Composite.SetBytes(mutation %d)", i), func() error { return g2.SetBytes(m[3:]) })
		}
	}
	// JSON
	var js []byte
	c.try("json.Marshal(composite)", func() error { b, err := json.Marshal(comp); js = b; return err })
	for i := 0; i < 12 && len(js) > 2; i++ {
		m := append([]byte{}, js...)
		switch i % 4 {
		case 0:
			m = m[:r.Intn(len(m))]
		case 1:
			m[r.Intn(len(m))] = lpick(r, []byte{'"', '{', 'x', ',', ':', '\\'})
		case 2:
			k := r.Intn(len(m))
			m = append(append(append([]byte{}, m[:k]...), '"'), m[k:]...)
		case 3:
			m = []byte(strings.Replace(string(m), `":"`, `":`, 1))
		}
		g := field.NewComposite(spec)
		c.try(fmt.Sprintf("json.Unmarshal(composite, mutation %d)", i), func() error { return json.Unmarshal(m, g) })
	}
	// struct targets of the wrong types
	type wrong struct {
		A *int           `index:"1"`
		B int            `index:"2"`
		C *field.Numeric `index:"1"`
		D *field.Binary  `index:"2"`
		E []byte         `index:"9"`
		F *field.String  `index:"9F02"`
		G *int           `index:"5F20"`
		H *field.Numeric `index:"5A"`
		I int64          `index:"01"`
		J *int           `index:"02"`
		K int            `index:"001"`
		L *field.Track2  `index:"3"`
		M *int           `index:"4"`
	}
	c.try("Composite.Unmarshal(wrong types)", func() error { return comp.Unmarshal(&wrong{}) })
	for _, tgt := range unmarshalTargets() {
		tgt := tgt
		c.try("Composite.Unmarshal("+tgt.name+")", func() error { return comp.Unmarshal(tgt.mk()) })
	}
	sec := string(subs[0].secret)
	n := 7
	w := &wrong{A: &n, B: 9, I: 5, J: &n, K: 3, E: []byte(sec), F: field.NewStringValue(sec + "X"), G: &n, M: &n}
	g := field.NewComposite(spec)
	c.try("Composite.Marshal(wrong types)", func() error { return g.Marshal(w) })
	c.try("Composite.Pack(after wrong Marshal)", func() error { _, err := g.Pack(); return err })
}

// ---- messages

func leakMessage(r *LRng, c *LeakCase) {
	a, b := randomPrim(r), randomPrim(r)
	mode := lpick(r, []string{"ber", "tagged", "bitmap", "positional"})
	cspec, subs, _ := compositeSpec(r, mode)
	var bmEnc encoding.Encoder = encoding.Binary
	var bmPref prefix.Prefixer = prefix.Binary.Fixed
	if r.Intn(2) == 0 {
		bmEnc, bmPref = encoding.BytesToASCIIHex, prefix.Hex.Fixed
	}
	c.Desc = fmt.Sprintf("message F2=%s F3=%s F4=composite %s", a, b, mode)
	c.Class = "Message/" + a.kind + "+" + b.kind + "+" + mode
	c.Secrets = [][]byte{a.secret, b.secret}
	for _, s := range subs {
		c.Secrets = append(c.Secrets, s.secret)
	}
	var spec *iso8583.MessageSpec
	newSpec := func() *iso8583.MessageSpec {
		return &iso8583.MessageSpec{Name: "leak", Fields: map[int]field.Field{
			0: field.NewString(&field.Spec{Length: 4, Description: "MTI", Enc: encoding.ASCII, Pref: prefix.ASCII.Fixed}),
			1: field.NewBitmap(&field.Spec{Length: 8, Description: "Bitmap", Enc: bmEnc, Pref: bmPref}),
			2: mkPrim(a.kind, a.spec()),
			3: mkPrim(b.kind, b.spec()),
			4: field.NewComposite(cspec),
			5: field.NewString(&field.Spec{Length: 3, Description: "plain", Enc: encoding.ASCII, Pref: prefix.ASCII.Fixed}),
		}}
	}
	func() {
		defer func() { recover() }()
		spec = newSpec()
	}()
	if spec == nil {
		return
	}
	m := iso8583.NewMessage(spec)
	m.MTI("0100")
	c.try("BinaryField(2)", func() error { return m.BinaryField(2, a.value) })
	c.try("BinaryField(3)", func() error { return m.BinaryField(3, b.value) })
	c.try("Field(5)", func() error { return m.Field(5, "abc") })
	if comp, ok := m.GetField(4).(*field.Composite); ok {
		fillComposite(r, c, comp, cspec, subs, mode)
	}
	var wire []byte
	c.try("Message.Pack", func() error { w, err := m.Pack(); wire = w; return err })
	for i, mw := range wireMutations(r, wire, 8) {
		g := iso8583.NewMessage(spec)
		mw := mw
		c.try(fmt.Sprintf("Message.Unpack(mutation %d)", i), func() error { return g.Unpack(mw) })
	}
	// corrupted values through the message API
	for k := 0; k < 3; k++ {
		g := iso8583.NewMessage(spec)
		g.MTI("0100")
		cv := corruptOne(r, a.value)
		c.try("Message.BinaryField(corrupted)", func() error { return g.BinaryField(2, cv) })
		c.try("Message.Field(corrupted)", func() error { return g.Field(3, string(corruptOne(r, b.value))) })
		c.try("Message.Pack(corrupted)", func() error { _, err := g.Pack(); return err })
		c.try("json.Marshal(message corrupted)", func() error { _, err := json.Marshal(g); return err })
		c.try("GetString", func() error { _, err := g.GetString(2); return err })
		c.try("GetBytes", func() error { _, err := g.GetBytes(3); return err })
	}
	// struct marshal / unmarshal with wrong types
	type wrongA struct {
		F2 *int           `iso8583:"2"`
		F3 int            `iso8583:"3"`
		F4 *field.Numeric `iso8583:"4"`
	}
	type wrongB struct {
		F2 *field.Numeric `iso8583:"2"`
		F3 *field.Binary  `iso8583:"3"`
		F5 *int           `iso8583:"5"`
	}
	type wrongC struct {
		F2 *field.Track2 `index:"2"`
		F3 []byte        `index:"3"`
		F4 *struct {
			A *int `index:"1"`
			B *int `index:"9F02"`
			C *int `index:"01"`
			D *int `index:"2"`
		} `index:"4"`
	}
	type wrongD struct {
		F2 *int64  `iso8583:"2"`
		F3 *string `iso8583:"3"`
		F5 int     `iso8583:"5"`
	}
	for _, tgt := range []interface{}{&wrongA{}, &wrongB{}, &wrongC{}, &wrongD{}, wrongA{}, nil, new(int)} {
		tgt := tgt
		c.try(fmt.Sprintf("Message.Unmarshal(%T)", tgt), func() error { return m.Unmarshal(tgt) })
	}
	sa := string(corruptOne(r, a.value))
	n := 5
	for _, src := range []interface{}{&wrongD{F3: &sa}, &wrongA{F2: &n, F3: 7}, &wrongB{F2: field.NewNumericValue(1), F3: field.NewBinaryValue(a.value)},
		&struct {
			F2 string `iso8583:"2"`
			F3 string `iso8583:"3"`
		}{sa, string(corruptOne(r, b.value))},
		&struct {
			F2 []byte `iso8583:"2"`
			F9 string `iso8583:"9"`
		}{a.value, "x"}} {
		g := iso8583.NewMessage(spec)
		src := src
		c.try(fmt.Sprintf("Message.Marshal(%T)", src), func() error { return g.Marshal(src) })
		c.try("Message.Pack(after Marshal)", func() error { g.MTI("0100"); _, err := g.Pack(); return err })
	}
	// JSON
	var js []byte
	c.try("json.Marshal(message)", func() error { bts, err := json.Marshal(m); js = bts; return err })
	for i := 0; i < 16 && len(js) > 2; i++ {
		mj := append([]byte{}, js...)
		switch i % 5 {
		case 0:
			mj = mj[:r.Intn(len(mj))]
		case 1:
			mj[r.Intn(len(mj))] = lpick(r, []byte{'"', '{', 'x', ',', ':', '\\', '}'})
		case 2:
			mj = []byte(strings.Replace(string(mj), `":"`, `":`, 1+r.Intn(2)))
		case 3:
			mj = []byte(strings.Replace(string(mj), `"2":`, `"2x":`, 1))
		case 4:
			mj = []byte(strings.Replace(string(mj), `"3":"`, `"3":{"a":"`, 1))
		}
		g := iso8583.NewMessage(spec)
		c.try(fmt.Sprintf("json.Unmarshal(message, mutation %d)", i), func() error { return json.Unmarshal(mj, g) })
	}
	c.try("Describe", func() error { var sb strings.Builder; return iso8583.Describe(m, &sb, iso8583.DoNotFilterFields()...) })
}

// scenario family: shipped specs
func leakShipped(r *LRng, c *LeakCase) {
	name := lpick(r, []string{"Spec87", "Spec87ASCII", "Spec87Hex"})
	spec := map[string]*iso8583.MessageSpec{"Spec87": iso8583.Spec87, "Spec87ASCII": specs.Spec87ASCII, "Spec87Hex": specs.Spec87Hex}[name]
	pan := secretFor(r, "digits", 12+r.Intn(8))
	track2 := trackText(r, "Track2", secretFor(r, "digits", 16))
	amount := secretFor(r, "digits", 12)
	rrn := secretFor(r, "text", 12)
	addl := secretFor(r, "text", 19)
	c.Desc = "shipped " + name
	c.Class = "Shipped/" + name
	c.Secrets = [][]byte{pan, track2[:16], amount, rrn, addl}
	m := iso8583.NewMessage(spec)
	m.MTI("0200")
	c.try("Field(2)", func() error { return m.Field(2, string(pan)) })
	c.try("Field(4)", func() error { return m.Field(4, string(amount)) })
	c.try("Field(35)", func() error { return m.Field(35, string(track2)) })
	c.try("Field(37)", func() error { return m.Field(37, string(rrn)) })
	c.try("Field(48)", func() error { return m.Field(48, string(addl)) })
	var wire []byte
	c.try("Pack", func() error { w, err := m.Pack(); wire = w; return err })
	for i, mw := range wireMutations(r, wire, 10) {
		g := iso8583.NewMessage(spec)
		mw := mw
		c.try(fmt.Sprintf("Unpack(mutation %d)", i), func() error { return g.Unpack(mw) })
	}
	g := iso8583.NewMessage(spec)
	g.MTI("0200")
	c.try("Field(4, corrupted)", func() error { return g.Field(4, string(corruptOne(r, amount))) })
	c.try("Field(2, too long)", func() error { return g.Field(2, string(pan)+string(pan)) })
	c.try("Field(3, text)", func() error { return g.Field(3, string(rrn)) })
	c.try("Pack(bad)", func() error { _, err := g.Pack(); return err })
	c.try("json.Marshal(bad)", func() error { _, err := json.Marshal(g); return err })
	type T struct {
		F2  *int           `iso8583:"2"`
		F4  *string        `iso8583:"4"`
		F35 *field.Numeric `iso8583:"35"`
		F37 int            `iso8583:"37"`
	}
	c.try("Unmarshal(wrong types)", func() error { return m.Unmarshal(&T{}) })
	var js []byte
	c.try("json.Marshal", func() error { bts, err := json.Marshal(m); js = bts; return err })
	for i := 0; i < 10 && len(js) > 2; i++ {
		mj := append([]byte{}, js...)
		switch i % 3 {
		case 0:
			mj = mj[:r.Intn(len(mj))]
		case 1:
			mj[r.Intn(len(mj))] = lpick(r, []byte{'"', '{', 'x', ',', ':', '\\', '}'})
		case 2:
			mj = []byte(strings.Replace(string(mj), `":"`, `":`, 1+r.Intn(3)))
		}
		g2 := iso8583.NewMessage(spec)
		c.try(fmt.Sprintf("json.Unmarshal(mutation %d)", i), func() error { return json.Unmarshal(mj, g2) })
	}
}

const LeakFamilies = 4

// LeakScenario runs scenario idx of the given seed.
func LeakScenario(seed uint64, idx int) *LeakCase {
	r := NewLRng(seed*1000003 + uint64(idx))
	c := &LeakCase{}
	switch idx % 8 {
	case 0, 1, 2:
		if idx%24 == 8 {
			leakTrackJSON(r, c)
			break
		}
		leakPrimitive(r, c)
	case 3, 4:
		leakComposite(r, c)
	case 5, 6:
		leakMessage(r, c)
	default:
		leakShipped(r, c)
	}
	return c
}

// leakTrackJSON: JSON documents decoded into a message whose data elements 35 / 36 / 45 are
// Track2 / Track3 / Track1 FIELDS (TrackMsgSpec). Track fields have no UnmarshalJSON of their own:
// encoding/json fills the struct by reflection, and what a producer put into a component (a
// date with one wrong character, the card form of the track where the date belongs, a number
// where text is expected) must not come back in the error text.
func leakTrackJSON(r *LRng, c *LeakCase) {
	digits := func(n int) string {
		b := make([]byte, n)
		for i := range b {
			b[i] = byte('0' + r.Intn(10))
		}
		return string(b)
	}
	pan := digits(13 + r.Intn(7))
	track := pan + "=" + digits(4) + "101" + digits(1+r.Intn(8))
	c.Desc = "message with Track1/2/3 fields / UnmarshalJSON"
	c.Class = "track-json"
	c.Secrets = [][]byte{[]byte(pan), []byte(track)}
	docs := []string{
		`{"0":"0200","35":{"primary_account_number":"` + pan + `","separator":"=","expiration_date":"` + track + `"}}`,
		`{"0":"0200","35":{"primary_account_number":"` + pan + `","expiration_date":"2031-07-19T08:43:5XZ` + pan + `"}}`,
		`{"0":"0200","45":{"format_code":"B","primary_account_number":"` + pan + `","name":"DOE/JOHN","expiration_date":"` + pan + `"}}`,
		`{"0":"0200","35":{"primary_account_number":` + pan + `}}`,
		`{"0":"0200","36":{"format_code":"01","primary_account_number":"` + pan + `","discretionary_data":[` + pan + `]}}`,
		`{"0":"0200","35":"` + track + `"}`,
		`{"0":"0200","2":"` + pan + `","35":{"primary_account_number":"` + pan + `","expiration_date":"` + pan + `","service_code":101}}`,
	}
	for i, d := range docs {
		d := d
		c.try(fmt.Sprintf("json.Unmarshal(doc %d, message)", i), func() error {
			return json.Unmarshal([]byte(d), iso8583.NewMessage(TrackMsgSpec))
		})
	}
	// the same through a composite whose subfield is a track field
	cs := &field.Spec{Length: 999, Description: "c", Pref: prefix.ASCII.LLL,
		Tag: &field.TagSpec{Length: 2, Enc: encoding.ASCII, Sort: sort.StringsByInt},
		Subfields: map[string]field.Field{
			"01": field.NewTrack2(&field.Spec{Length: 40, Description: "t2", Enc: encoding.ASCII, Pref: prefix.ASCII.LL}),
			"02": field.NewString(&field.Spec{Length: 19, Description: "pan", Enc: encoding.ASCII, Pref: prefix.ASCII.LL}),
		}}
	c.try("json.Unmarshal(doc, composite with a Track2 subfield)", func() error {
		return json.Unmarshal([]byte(`{"02":"`+pan+`","01":{"primary_account_number":"`+pan+`","expiration_date":"`+track+`"}}`), field.NewComposite(cs))
	})
}

// BerTagWitness: the recipe of KF-C18-1. A BER-TLV composite with Hex subfield 9F02 holding
// `value`; the length byte of that element is overwritten with 0 on the wire; Unpack then
// reads the value as the next tag.
func BerTagWitness(value []byte) (text string, leak int) {
	spec := &field.Spec{
		Length: 999, Description: "ICC", Pref: prefix.ASCII.LLL,
		Tag: &field.TagSpec{Enc: encoding.BerTLVTag, Sort: sort.StringsByHex},
		Subfields: map[string]field.Field{
			"9A":   field.NewHex(&field.Spec{Description: "date", Enc: encoding.Binary, Pref: prefix.BerTLV}),
			"9F02": field.NewHex(&field.Spec{Description: "secret", Enc: encoding.Binary, Pref: prefix.BerTLV}),
		},
	}
	c := field.NewComposite(spec)
	type D struct {
		A *field.Hex `index:"9A"`
		B *field.Hex `index:"9F02"`
	}
	if err := c.Marshal(&D{A: field.NewHexValue("210131"), B: field.NewHexValue(strings.ToUpper(hex.EncodeToString(value)))}); err != nil {
		return "marshal: " + err.Error(), 0
	}
	w, err := c.Pack()
	if err != nil {
		return "pack: " + err.Error(), 0
	}
	for i := 0; i+2 < len(w); i++ {
		if w[i] == 0x9F && w[i+1] == 0x02 {
			w[i+2] = 0
		}
	}
	_, err = field.NewComposite(spec).Unpack(w)
	if err == nil {
		return "", 0
	}
	n, _ := FindLeak(err.Error(), [][]byte{value})
	return err.Error(), n
}

// HexPrefixWitness: the recipe of KF-C18-2. Field 2 is a fixed 12-character String holding
// `secret`; field 3 has a Hex.LLLLLL length prefix. Clearing the bit of field 2 in the bitmap
// (one corrupted wire byte) makes Unpack read field 3's prefix where field 2's contents are.
func HexPrefixWitness(secret []byte) (text string, leak int) {
	spec := &iso8583.MessageSpec{Name: "kf2", Fields: map[int]field.Field{
		0: field.NewString(&field.Spec{Length: 4, Description: "MTI", Enc: encoding.ASCII, Pref: prefix.ASCII.Fixed}),
		1: field.NewBitmap(&field.Spec{Length: 8, Description: "Bitmap", Enc: encoding.Binary, Pref: prefix.Binary.Fixed}),
		2: field.NewString(&field.Spec{Length: len(secret), Description: "Secret", Enc: encoding.ASCII, Pref: prefix.ASCII.Fixed}),
		3: field.NewString(&field.Spec{Length: 99, Description: "Other", Enc: encoding.ASCII, Pref: prefix.Hex.LLLLLL}),
	}}
	m := iso8583.NewMessage(spec)
	m.MTI("0100")
	if err := m.Field(2, string(secret)); err != nil {
		return "field: " + err.Error(), 0
	}
	if err := m.Field(3, "abc"); err != nil {
		return "field: " + err.Error(), 0
	}
	w, err := m.Pack()
	if err != nil {
		return "pack: " + err.Error(), 0
	}
	w[4] &^= 0x40 // bit 2 of the bitmap
	err = iso8583.NewMessage(spec).Unpack(w)
	if err == nil {
		return "", 0
	}
	n, _ := FindLeak(err.Error(), [][]byte{secret})
	return err.Error(), n
}

func runLeakLine(t []string) string {
	switch t[1] {
	case "errleak":
		if len(t) < 4 {
			return "bad-op"
		}
		seed, err1 := strconv.ParseUint(t[2], 10, 64)
		idx, err2 := strconv.Atoi(t[3])
		if err1 != nil || err2 != nil {
			return "bad-op"
		}
		c := LeakScenario(seed, idx)
		for _, o := range c.Obs {
			if o.Panic {
				continue
			}
			if n, _ := FindLeak(o.Text, c.Secrets); n >= 8 {
				return fmt.Sprintf("leak %d text=%s", n, Hex([]byte(o.Text)))
			}
		}
		return fmt.Sprintf("clean %d", len(c.Obs))
	case "errleak-bertag", "errleak-hexprefix":
		if len(t) < 3 {
			return "bad-op"
		}
		v, ok := UnHex(t[2])
		if !ok {
			return "bad-op"
		}
		var n int
		if t[1] == "errleak-bertag" {
			_, n = BerTagWitness(v)
		} else {
			_, n = HexPrefixWitness(v)
		}
		if n >= 8 {
			return fmt.Sprintf("leak %d", n)
		}
		return "clean"
	}
	return "bad-op"
}
