package impl

// The message specs that ship with the library (iso8583.Spec87, specs.Spec87ASCII,
// specs.Spec87Hex, examples.Spec, exp/emv) read back from the LIVE Go values into the tree
// syntax of the field / message channels (m(mti,bm(..),f(id,field)…)), so that
//   - channel MS runs the real shipped specs through implementation and model (the spec text
//     of every line is what the library defines now, not a copy), and
//   - the translator writes them as Lean terms (Gen/Shipped.lean), over which
//     Props/Shipped.lean instantiates the general theorems.
// Encoders, prefixers, padders and sort functions are recognised by identity with the
// library's exported values (never by type name: two exported encoders may share a type).

import (
	"fmt"
	"reflect"
	"sort"
	"strconv"
	"strings"

	"github.com/moov-io/iso8583"
	"github.com/moov-io/iso8583/encoding"
	"github.com/moov-io/iso8583/field"
	"github.com/moov-io/iso8583/padding"
	"github.com/moov-io/iso8583/prefix"
)

func sameIface(a, b interface{}) (eq bool) {
	defer func() {
		if recover() != nil { // uncomparable dynamic types
			eq = false
		}
	}()
	return a == b
}

func encName(e encoding.Encoder) (string, bool) {
	if e == nil {
		return "", false
	}
	names := make([]string, 0, len(Encoders))
	for n := range Encoders {
		names = append(names, n)
	}
	sort.Strings(names)
	for _, n := range names {
		if sameIface(Encoders[n], e) {
			return n, true
		}
	}
	return "", false
}

var prefNames = func() []string {
	out := []string{"ber", "none"}
	for _, fam := range []string{"ascii", "bcd", "binary", "hex", "ebcdic", "ebcdic1047"} {
		for _, w := range []string{"F", "1", "2", "3", "4", "5", "6"} {
			out = append(out, fam+"."+w)
		}
	}
	return out
}()

func prefName(p prefix.Prefixer) (string, bool) {
	if p == nil {
		return "", false
	}
	for _, n := range prefNames {
		if sameIface(Prefixer(n), p) {
			return n, true
		}
	}
	return "", false
}

func padName(p padding.Padder) (string, bool) {
	if p == nil || (reflect.ValueOf(p).Kind() == reflect.Ptr && reflect.ValueOf(p).IsNil()) {
		return "nil", true
	}
	if sameIface(p, padding.None) {
		return "none", true
	}
	c := p.Inspect()
	if len(c) != 1 {
		return "", false
	}
	switch typeName(p) {
	case "leftPadder":
		return fmt.Sprintf("L%02x", c[0]), true
	case "rightPadder":
		return fmt.Sprintf("R%02x", c[0]), true
	}
	return "", false
}

func sortName(s interface{}) (string, bool) {
	if s == nil || reflect.ValueOf(s).IsNil() {
		return "", false
	}
	switch funcName(s) {
	case "Strings":
		return "str", true
	case "StringsByInt":
		return "int", true
	case "StringsByHex":
		return "hex", true
	}
	return "", false
}

// TreeOfField renders a live field definition in the tree syntax; an error names what the
// syntax can not express (track kinds, custom packers, unknown encoders).
func TreeOfField(f field.Field) (*Tree, error) {
	s := f.Spec()
	if s == nil {
		return nil, fmt.Errorf("no spec")
	}
	kind := ""
	switch f.(type) {
	case *field.String:
		kind = "s"
	case *field.Numeric:
		kind = "n"
	case *field.Binary:
		kind = "b"
	case *field.Hex:
		kind = "h"
	case *field.Composite:
		kind = "c"
	default:
		return nil, fmt.Errorf("field type %T outside the grammar", f)
	}
	pref, ok := prefName(s.Pref)
	if !ok {
		return nil, fmt.Errorf("prefixer %v not recognised", s.Pref)
	}
	if kind != "c" {
		enc, ok := encName(s.Enc)
		if !ok {
			return nil, fmt.Errorf("encoder %T not recognised", s.Enc)
		}
		pad, ok := padName(s.Pad)
		if !ok {
			return nil, fmt.Errorf("padder %T not recognised", s.Pad)
		}
		packer := "d"
		switch {
		case s.Packer == nil && s.Unpacker == nil:
		default:
			_, p2 := s.Packer.(field.Track2Packer)
			_, u2 := s.Unpacker.(field.Track2Unpacker)
			if p2 && u2 {
				packer = "t2"
			} else if typeName(s.Packer) != "defaultPacker" || typeName(s.Unpacker) != "defaultUnpacker" {
				return nil, fmt.Errorf("custom packer %T / %T", s.Packer, s.Unpacker)
			}
		}
		return N("p", A(kind), A(strconv.Itoa(s.Length)), A(enc), A(pref), A(pad), A(packer)), nil
	}
	if s.Pad != nil && !sameIface(s.Pad, padding.None) {
		return nil, fmt.Errorf("composite with a padder")
	}
	var mode *Tree
	switch {
	case s.Bitmap != nil:
		bs := s.Bitmap.Spec()
		be, ok1 := encName(bs.Enc)
		bp, ok2 := prefName(bs.Pref)
		if !ok1 || !ok2 || !bs.DisableAutoExpand {
			return nil, fmt.Errorf("composite bitmap definition outside the grammar")
		}
		mode = N("b", A(strconv.Itoa(bs.Length)), A(be), A(bp))
	case s.Tag != nil:
		te := "-"
		if s.Tag.Enc != nil {
			n, ok := encName(s.Tag.Enc)
			if !ok {
				return nil, fmt.Errorf("tag encoder %T not recognised", s.Tag.Enc)
			}
			te = n
		}
		tp, ok := padName(s.Tag.Pad)
		if !ok {
			return nil, fmt.Errorf("tag padder not recognised")
		}
		so, ok := sortName(s.Tag.Sort)
		if !ok {
			return nil, fmt.Errorf("tag sort not recognised")
		}
		skip := "0"
		if s.Tag.SkipUnknownTLVTags {
			skip = "1"
		}
		pu := "-"
		if s.Tag.PrefUnknownTLV != nil {
			n, ok := prefName(s.Tag.PrefUnknownTLV)
			if !ok {
				return nil, fmt.Errorf("PrefUnknownTLV not recognised")
			}
			pu = n
		}
		mode = N("t", A(strconv.Itoa(s.Tag.Length)), A(te), A(tp), A(so), A(skip), A(pu))
	default:
		return nil, fmt.Errorf("composite without Tag and Bitmap")
	}
	t := N("c", A(strconv.Itoa(s.Length)), A(pref), mode)
	keys := make([]string, 0, len(s.Subfields))
	for k := range s.Subfields {
		if k == "" || strings.ContainsAny(k, "(), \t") {
			return nil, fmt.Errorf("subfield key %q not expressible", k)
		}
		keys = append(keys, k)
	}
	sort.Strings(keys)
	for _, k := range keys {
		st, err := TreeOfField(s.Subfields[k])
		if err != nil {
			return nil, fmt.Errorf("subfield %s: %w", k, err)
		}
		t.Kids = append(t.Kids, N("sub", A(k), st))
	}
	return t, nil
}

// TreeOfMsgSpec renders a live message spec; fields the grammar can not express are listed in
// `skipped` (and left out of the tree).
func TreeOfMsgSpec(spec *iso8583.MessageSpec) (t *Tree, skipped []string, err error) {
	mti, ok := spec.Fields[0]
	if !ok {
		return nil, nil, fmt.Errorf("no MTI field")
	}
	mt, err := TreeOfField(mti)
	if err != nil {
		return nil, nil, fmt.Errorf("MTI: %w", err)
	}
	bmf, ok := spec.Fields[1].(*field.Bitmap)
	if !ok {
		return nil, nil, fmt.Errorf("field 1 is not a bitmap")
	}
	bs := bmf.Spec()
	be, ok1 := encName(bs.Enc)
	bp, ok2 := prefName(bs.Pref)
	if !ok1 || !ok2 {
		return nil, nil, fmt.Errorf("bitmap encoder / prefixer not recognised")
	}
	auto := "1"
	if bs.DisableAutoExpand {
		auto = "0"
	}
	t = N("m", mt, N("bm", A(strconv.Itoa(bs.Length)), A(be), A(bp), A(auto)))
	ids := make([]int, 0, len(spec.Fields))
	for id := range spec.Fields {
		if id >= 2 {
			ids = append(ids, id)
		}
	}
	sort.Ints(ids)
	for _, id := range ids {
		ft, err := TreeOfField(spec.Fields[id])
		if err != nil {
			skipped = append(skipped, fmt.Sprintf("%d: %v", id, err))
			continue
		}
		t.Kids = append(t.Kids, N("f", A(strconv.Itoa(id)), ft))
	}
	return t, skipped, nil
}
