package impl

// Channel YM: messages whose spec declares track fields (field.Track1 / Track2 / Track3)
// next to ordinary fields - the implementation side of lean/Iso8583/Model/TrackMessage.lean.
//
//	YM <tmsgspec> pack <tcontent>   -> ok <hex> | err | panic
//	YM <tmsgspec> unpack <hex>      -> ok <tcontent> <bytes read> | err <path as channel M prints it> | panic
//	YM <tmsgspec> dom <tcontent>    -> 1          (the generator claims: coherent spec, in-domain content)
//
//	tmsgspec ::= m(<mti field>,bm(<len>,<enc>,<pref>,<auto>),f(<id>,<field | trackspec>)...)
//	tcontent ::= msg(<mti value | ->,f(<id>,<value | v1(...) | v2(...) | v3(...)>)...)
//
// <field>/<value> are the trees of channels F/M (tree.go), <trackspec> and the component
// trees v1|v2|v3 those of channel Y (track.go).
//
// Message.Unpack does not report how many bytes it consumed. <bytes read> is obtained by
// letting fresh field objects of the same spec (MessageSpec.CreateMessageFields) unpack, in
// the order Message.unpack uses (MTI, bitmap, the present data elements ascending), the
// bytes the message was unpacked from, and adding up what their Unpack methods return.

import (
	"fmt"
	"reflect"
	"sort"
	"strconv"
	"strings"

	"github.com/moov-io/iso8583"
	"github.com/moov-io/iso8583/field"
)

func init() { extra["YM"] = runYM }

// TMsgSpecOfTree builds a real MessageSpec in which a data element may be a track field.
func TMsgSpecOfTree(t *Tree) (*iso8583.MessageSpec, bool) {
	if t.Name != "m" || len(t.Kids) < 2 {
		return nil, false
	}
	// MTI and bitmap exactly as MsgSpecOfTree builds them
	spec, ok := MsgSpecOfTree(N("m", t.Kids[0], t.Kids[1]))
	if !ok {
		return nil, false
	}
	for _, k := range t.Kids[2:] {
		if k.Name != "f" || len(k.Kids) != 2 {
			return nil, false
		}
		id, err := strconv.Atoi(k.Kids[0].Name)
		if err != nil {
			return nil, false
		}
		var f field.Field
		if k.Kids[1].Name == "t" {
			kind, ts, ok := TrackSpecOfTree(k.Kids[1])
			if !ok {
				return nil, false
			}
			f = NewTrack(kind, ts)
		} else {
			f, ok = FieldOfTree(k.Kids[1])
			if !ok {
				return nil, false
			}
		}
		spec.Fields[id] = f
	}
	return spec, true
}

func trackKindOf(f field.Field) int {
	switch f.(type) {
	case *field.Track1:
		return 1
	case *field.Track2:
		return 2
	case *field.Track3:
		return 3
	}
	return 0
}

// SetTMsg populates a fresh message from `msg(mti|-, f(id,val)...)` through Message.Marshal
// with a run-time struct: ordinary values as SetMsg does, a track value as a pointer to the
// library's own *field.Track1 / Track2 / Track3 struct.
func SetTMsg(m *iso8583.Message, t *Tree) bool {
	if t.Name != "msg" || len(t.Kids) < 1 {
		return false
	}
	specs := m.GetSpec().Fields
	var kvs []*Tree
	if t.Kids[0].Name != "-" {
		kvs = append(kvs, N("f", A("0"), t.Kids[0]))
	}
	kvs = append(kvs, t.Kids[1:]...)
	var sfs []reflect.StructField
	var vals []reflect.Value
	for i, kv := range kvs {
		if kv.Name != "f" || len(kv.Kids) != 2 {
			return false
		}
		id, err := strconv.Atoi(kv.Kids[0].Name)
		if err != nil {
			return false
		}
		sf, ok := specs[id]
		if !ok {
			return false
		}
		var val reflect.Value
		v := kv.Kids[1]
		kind := trackKindOf(sf)
		switch {
		case v.Name == "v1" || v.Name == "v2" || v.Name == "v3":
			if kind == 0 {
				return false
			}
			tv, ok := TrackValue(kind, v)
			if !ok {
				return false
			}
			val = reflect.ValueOf(tv)
		case kind != 0:
			return false
		default:
			val, ok = goValueFor(sf, v)
			if !ok {
				return false
			}
		}
		sfs = append(sfs, reflect.StructField{Name: fmt.Sprintf("X%d", i), Type: val.Type(), Tag: reflect.StructTag(fmt.Sprintf(`index:"%d"`, id))})
		vals = append(vals, val)
	}
	st := reflect.New(reflect.StructOf(sfs))
	for i, val := range vals {
		st.Elem().Field(i).Set(val)
	}
	return m.Marshal(st.Interface()) == nil
}

// TMsgTree renders the content of a message after Unpack (cf. MsgTree).
func TMsgTree(m *iso8583.Message) *Tree {
	fields := m.GetFields()
	ids := make([]int, 0, len(fields))
	for id := range fields {
		ids = append(ids, id)
	}
	sort.Ints(ids)
	t := N("msg")
	if f, ok := fields[0]; ok {
		t.Kids = append(t.Kids, ValueTree(f))
	} else {
		t.Kids = append(t.Kids, A("-"))
	}
	for _, id := range ids {
		if id < 2 {
			continue
		}
		f := fields[id]
		if trackKindOf(f) != 0 {
			t.Kids = append(t.Kids, N("f", A(strconv.Itoa(id)), TrackTree(f)))
		} else {
			t.Kids = append(t.Kids, N("f", A(strconv.Itoa(id)), ValueTree(f)))
		}
	}
	return t
}

// bytesConsumed: see the head of the file.
func bytesConsumed(spec *iso8583.MessageSpec, m *iso8583.Message, data []byte) string {
	present := m.GetFields()
	ids := []int{0, 1}
	for id := range present {
		if id >= 2 {
			ids = append(ids, id)
		}
	}
	sort.Ints(ids)
	fresh := spec.CreateMessageFields()
	if bm, ok := fresh[1].(*field.Bitmap); ok {
		bm.Reset() // as Message.unpack does before it unpacks anything
	}
	off := 0
	for _, id := range ids {
		f, ok := fresh[id]
		if !ok || off > len(data) {
			return "?"
		}
		n, err := f.Unpack(data[off:])
		if err != nil {
			return "?"
		}
		off += n
	}
	return strconv.Itoa(off)
}

func runYM(t []string) string {
	if len(t) != 4 {
		return "bad-op"
	}
	st, ok := ParseTree(t[1])
	if !ok {
		return "bad-op"
	}
	spec, ok := TMsgSpecOfTree(st)
	if !ok {
		return "bad-op"
	}
	m := iso8583.NewMessage(spec)
	switch t[2] {
	case "pack":
		mt, ok := ParseTree(t[3])
		if !ok || !SetTMsg(m, mt) {
			return "bad-op"
		}
		out, err := m.Pack()
		if err != nil {
			return "err"
		}
		return "ok " + Hex(out)
	case "unpack":
		data, ok := UnHex(t[3])
		if !ok {
			return "bad-op"
		}
		if err := m.Unpack(data); err != nil {
			return strings.TrimSpace("err " + pathOf(err))
		}
		return "ok " + TMsgTree(m).String() + " " + bytesConsumed(spec, m, data)
	case "dom":
		return "1"
	}
	return "bad-op"
}
