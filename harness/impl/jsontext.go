package impl

// Channel JS: what encoding/json does to string literals (the `StrCodec` of the JSON model,
// lean/Iso8583/Model/JsonText.lean `goEmit` / `goParse`).
//
//	JS emit <hex>                 -> <hex of json.Marshal(string(bytes))>        (never fails)
//	JS parse <hex of a literal>   -> ok <hex of the Go string> | err
//
// `emit` is the call every MarshalJSON of the library makes for text (field/string.go,
// hex.go, binary.go, bitmap.go, … : `json.Marshal(str)`), `parse` the call every
// UnmarshalJSON makes (`var v string; json.Unmarshal(b, &v)`); object keys go through the
// same decoder.

import "encoding/json"

func init() { extra["JS"] = runJS }

func runJS(t []string) string {
	if len(t) != 3 {
		return "bad-op"
	}
	in, ok := UnHex(t[2])
	if !ok {
		return "bad-op"
	}
	switch t[1] {
	case "emit":
		out, err := json.Marshal(string(in))
		if err != nil {
			return "err"
		}
		return Hex(out)
	case "parse":
		var s string
		if err := json.Unmarshal(in, &s); err != nil {
			return "err"
		}
		return "ok " + Hex([]byte(s))
	}
	return "bad-op"
}
