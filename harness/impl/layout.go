package impl

import (
	"github.com/moov-io/iso8583"
)

// Channel R (C03): the bytes of the real Pack, to be compared with the bytes the
// reference codec of lean/Iso8583/Spec/Layout.lean assigns to the same content.
//
//	R <msgspec-tree> <msg-tree>        Message.Pack     -> ok <hex> | none
//	R f <fieldspec-tree> <value-tree>  Field.Pack       -> ok <hex> | none
func init() {
	extra["R"] = runR
}

func runR(t []string) string {
	switch {
	case len(t) == 4 && t[1] == "f":
		st, ok := ParseTree(t[2])
		if !ok {
			return "bad-op"
		}
		f, ok := FieldOfTree(st)
		if !ok {
			return "bad-op"
		}
		vt, ok := ParseTree(t[3])
		if !ok || !SetValue(f, vt) {
			return "bad-op"
		}
		out, err := f.Pack()
		if err != nil {
			return "none"
		}
		return "ok " + Hex(out)
	case len(t) == 3:
		st, ok := ParseTree(t[1])
		if !ok {
			return "bad-op"
		}
		spec, ok := MsgSpecOfTree(st)
		if !ok {
			return "bad-op"
		}
		m := iso8583.NewMessage(spec)
		mt, ok := ParseTree(t[2])
		if !ok || !SetMsg(m, mt) {
			return "bad-op"
		}
		out, err := m.Pack()
		if err != nil {
			return "none"
		}
		return "ok " + Hex(out)
	}
	return "bad-op"
}
