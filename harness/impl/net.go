package impl

// Channel N: network length headers (property C16).
//
//	N <hdr> write <int>            -> ok <hex> | err | panic
//	N <hdr> read <chunk|chunk|…>   -> ok <length> <consumed> [<flag>] | err | panic
//
// hdr ∈ binary2, ascii4, bcd2, vmlh. Chunks are hex, "-" is an empty chunk.

import (
	"bytes"
	"fmt"
	"io"
	"strconv"
	"strings"

	"github.com/moov-io/iso8583/network"
)

func init() { extra["N"] = runN }

// NetHeaders lists the header names of channel N.
var NetHeaders = []string{"binary2", "ascii4", "bcd2", "vmlh"}

// NetSize is the documented fixed width of each header on the wire.
var NetSize = map[string]int{"binary2": 2, "ascii4": 4, "bcd2": 2, "vmlh": 4}

// ChunkReader is an io.Reader that hands out one chunk per Read call (or as much of the
// chunk as fits; the rest stays for the next call), reports (0, nil) for an empty chunk,
// io.EOF once all chunks are gone, and counts the bytes it handed out.
type ChunkReader struct {
	Chunks [][]byte
	Handed int
	Calls  int
}

func NewChunkReader(chunks [][]byte) *ChunkReader {
	cp := make([][]byte, len(chunks))
	for i, c := range chunks {
		cp[i] = append([]byte{}, c...)
	}
	return &ChunkReader{Chunks: cp}
}

func (c *ChunkReader) Read(p []byte) (int, error) {
	c.Calls++
	if len(c.Chunks) == 0 {
		return 0, io.EOF
	}
	if len(p) == 0 {
		return 0, nil
	}
	ch := c.Chunks[0]
	n := copy(p, ch)
	if n < len(ch) {
		c.Chunks[0] = ch[n:]
	} else {
		c.Chunks = c.Chunks[1:]
	}
	c.Handed += n
	return n, nil
}

// NetWrite: fresh header, SetLength(n), WriteTo(buffer). It returns the bytes that
// reached the writer, the count WriteTo returned, Length() afterwards, and the first error
// of SetLength / WriteTo.
func NetWrite(hdr string, n int) (written []byte, ret int, length int, err error, known bool) {
	var buf bytes.Buffer
	known = true
	switch hdr {
	case "binary2":
		h := network.NewBinary2BytesHeader()
		if err = h.SetLength(n); err != nil {
			return nil, 0, h.Length(), err, true
		}
		ret, err = h.WriteTo(&buf)
		length = h.Length()
	case "ascii4":
		h := network.NewASCII4BytesHeader()
		h.SetLength(n)
		ret, err = h.WriteTo(&buf)
		length = h.Length()
	case "bcd2":
		h := network.NewBCD2BytesHeader()
		h.SetLength(n)
		ret, err = h.WriteTo(&buf)
		length = h.Length()
	case "vmlh":
		h := network.NewVMLHeader()
		if err = h.SetLength(n); err != nil {
			return nil, 0, h.Length(), err, true
		}
		ret, err = h.WriteTo(&buf)
		length = h.Length()
	default:
		return nil, 0, 0, nil, false
	}
	return buf.Bytes(), ret, length, err, true
}

// NetRead: fresh header, ReadFrom(chunked reader). It returns Length(), the count
// ReadFrom returned, the bytes the reader handed out, the session-control flag (vmlh)
// and the error.
func NetRead(hdr string, chunks [][]byte) (length, ret, handed int, flag bool, err error, known bool) {
	r := NewChunkReader(chunks)
	known = true
	switch hdr {
	case "binary2":
		h := network.NewBinary2BytesHeader()
		ret, err = h.ReadFrom(r)
		length = h.Length()
	case "ascii4":
		h := network.NewASCII4BytesHeader()
		ret, err = h.ReadFrom(r)
		length = h.Length()
	case "bcd2":
		h := network.NewBCD2BytesHeader()
		ret, err = h.ReadFrom(r)
		length = h.Length()
	case "vmlh":
		h := network.NewVMLHeader()
		ret, err = h.ReadFrom(r)
		length = h.Length()
		flag = h.IsSessionControl
	default:
		known = false
	}
	return length, ret, r.Handed, flag, err, known
}

// NetReadReused: ONE header object reads the stream `before` (whatever comes of it) and then the
// stream `chunks`; the results of the second read.
func NetReadReused(hdr string, before, chunks [][]byte) (length, ret, handed int, err error, known bool) {
	var h interface {
		ReadFrom(r io.Reader) (int, error)
		Length() int
	}
	switch hdr {
	case "binary2":
		h = network.NewBinary2BytesHeader()
	case "ascii4":
		h = network.NewASCII4BytesHeader()
	case "bcd2":
		h = network.NewBCD2BytesHeader()
	case "vmlh":
		h = network.NewVMLHeader()
	default:
		return 0, 0, 0, nil, false
	}
	_, _ = h.ReadFrom(NewChunkReader(before))
	r := NewChunkReader(chunks)
	ret, err = h.ReadFrom(r)
	return h.Length(), ret, r.Handed, err, true
}

// ParseChunks decodes `hex|hex|-|…`.
func ParseChunks(s string) ([][]byte, bool) {
	var out [][]byte
	for _, p := range strings.Split(s, "|") {
		b, ok := UnHex(p)
		if !ok {
			return nil, false
		}
		out = append(out, b)
	}
	return out, true
}

// failWriter accepts `left` bytes and then fails
type failWriter struct {
	left int
	got  []byte
}

var errFailWriter = fmt.Errorf("writer failed")

func (w *failWriter) Write(p []byte) (int, error) {
	if len(p) <= w.left {
		w.left -= len(p)
		w.got = append(w.got, p...)
		return len(p), nil
	}
	n := w.left
	w.got = append(w.got, p[:n]...)
	w.left = 0
	return n, errFailWriter
}

// netWriteTo: fresh header of the kind, SetLength(n), WriteTo(w)
func netWriteTo(hdr string, n int, w io.Writer) (err error, known bool) {
	switch hdr {
	case "binary2":
		h := network.NewBinary2BytesHeader()
		if err = h.SetLength(n); err == nil {
			_, err = h.WriteTo(w)
		}
	case "ascii4":
		h := network.NewASCII4BytesHeader()
		h.SetLength(n)
		_, err = h.WriteTo(w)
	case "bcd2":
		h := network.NewBCD2BytesHeader()
		h.SetLength(n)
		_, err = h.WriteTo(w)
	case "vmlh":
		h := network.NewVMLHeader()
		if err = h.SetLength(n); err == nil {
			_, err = h.WriteTo(w)
		}
	default:
		return nil, false
	}
	return err, true
}

// runNSeq: `N <hdr> writeseq <op>,<op>,…` with op = w<int> (write to a buffer) or f<k>:<int> (write to
// a writer that fails after k bytes): a sequence of header writes in one process, each on a new
// header object; a write that failed on its writer must not influence the next one.
func runNSeq(hdr string, ops string) string {
	var out []string
	for _, op := range strings.Split(ops, ",") {
		if len(op) < 2 {
			return "bad-op"
		}
		switch op[0] {
		case 'w':
			n, err := strconv.Atoi(op[1:])
			if err != nil {
				return "bad-op"
			}
			var buf bytes.Buffer
			werr, known := netWriteTo(hdr, n, &buf)
			if !known {
				return "bad-op"
			}
			if werr != nil {
				out = append(out, "err")
			} else {
				out = append(out, "ok "+Hex(buf.Bytes()))
			}
		case 'f':
			kn := strings.SplitN(op[1:], ":", 2)
			if len(kn) != 2 {
				return "bad-op"
			}
			k, err1 := strconv.Atoi(kn[0])
			n, err2 := strconv.Atoi(kn[1])
			if err1 != nil || err2 != nil || k < 0 {
				return "bad-op"
			}
			fw := &failWriter{left: k}
			werr, known := netWriteTo(hdr, n, fw)
			if !known {
				return "bad-op"
			}
			switch {
			case werr == nil:
				out = append(out, "ok "+Hex(fw.got))
			case strings.Contains(werr.Error(), errFailWriter.Error()):
				out = append(out, "fail")
			default:
				out = append(out, "err")
			}
		default:
			return "bad-op"
		}
	}
	return strings.Join(out, " | ")
}

func runN(t []string) (res string) {
	defer func() {
		if r := recover(); r != nil {
			res = "panic"
		}
	}()
	if len(t) != 4 {
		return "bad-op"
	}
	switch t[2] {
	case "writeseq":
		return runNSeq(t[1], t[3])
	case "write":
		n, err := strconv.Atoi(t[3])
		if err != nil {
			return "bad-op"
		}
		out, _, _, werr, known := NetWrite(t[1], n)
		if !known {
			return "bad-op"
		}
		if werr != nil {
			return "err"
		}
		return "ok " + Hex(out)
	case "read":
		chunks, ok := ParseChunks(t[3])
		if !ok {
			return "bad-op"
		}
		length, _, handed, flag, rerr, known := NetRead(t[1], chunks)
		if !known {
			return "bad-op"
		}
		if rerr != nil {
			return "err"
		}
		if t[1] == "vmlh" {
			return fmt.Sprintf("ok %d %d %s", length, handed, b01(flag))
		}
		return fmt.Sprintf("ok %d %d", length, handed)
	}
	return "bad-op"
}
