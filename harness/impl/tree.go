package impl

import (
	"encoding/hex"
	"fmt"
	"reflect"
	"sort"
	"strconv"
	"strings"
	"sync"

	"github.com/moov-io/iso8583"
	"github.com/moov-io/iso8583/encoding"
	"github.com/moov-io/iso8583/field"
	"github.com/moov-io/iso8583/padding"
	"github.com/moov-io/iso8583/prefix"
	moovsort "github.com/moov-io/iso8583/sort"
)

// Tree is the generic one-line syntax shared with lean/Iso8583/Drivers/Tree.lean:
//
//	tree ::= atom | atom '(' tree (',' tree)* ')' | atom '()'
type Tree struct {
	Name string
	Kids []*Tree
}

func A(name string) *Tree                { return &Tree{Name: name} }
func N(name string, kids ...*Tree) *Tree { return &Tree{Name: name, Kids: kids} }

func (t *Tree) String() string {
	if len(t.Kids) == 0 {
		return t.Name
	}
	parts := make([]string, len(t.Kids))
	for i, k := range t.Kids {
		parts[i] = k.String()
	}
	return t.Name + "(" + strings.Join(parts, ",") + ")"
}

func ParseTree(s string) (*Tree, bool) {
	t, rest, ok := parseTree(s)
	if !ok || rest != "" {
		return nil, false
	}
	return t, true
}

func parseTree(s string) (*Tree, string, bool) {
	i := 0
	for i < len(s) && s[i] != '(' && s[i] != ')' && s[i] != ',' {
		i++
	}
	t := &Tree{Name: s[:i]}
	s = s[i:]
	if strings.HasPrefix(s, "()") {
		return t, s[2:], true
	}
	if !strings.HasPrefix(s, "(") {
		return t, s, true
	}
	s = s[1:]
	for {
		k, rest, ok := parseTree(s)
		if !ok {
			return nil, "", false
		}
		t.Kids = append(t.Kids, k)
		if strings.HasPrefix(rest, ",") {
			s = rest[1:]
			continue
		}
		if strings.HasPrefix(rest, ")") {
			return t, rest[1:], true
		}
		return nil, "", false
	}
}

func atoms(t *Tree, n int) ([]string, bool) {
	if len(t.Kids) != n {
		return nil, false
	}
	out := make([]string, n)
	for i, k := range t.Kids {
		if len(k.Kids) != 0 {
			return nil, false
		}
		out[i] = k.Name
	}
	return out, true
}

// Definition objects are shared the way applications share them: one padder object per
// (side, pad byte) for the whole process, and one definition object (field template with its
// *field.Spec, sub-definitions and bitmap definition) per distinct definition text. The library
// only reads them (instances are created from them by reflection), so sharing changes nothing on
// code where the definitions are immutable - and exposes a change that makes a padder, a spec or a
// definition carry state from one use to the next or from one object to another.
var (
	shareMu  sync.Mutex
	padCache = map[string]padding.Padder{}
	defCache = map[string]field.Field{}
)

func padOf(s string) (padding.Padder, bool) {
	shareMu.Lock()
	defer shareMu.Unlock()
	if p, ok := padCache[s]; ok {
		return p, true
	}
	p, ok := newPadOf(s)
	if ok && p != nil {
		padCache[s] = p
	}
	return p, ok
}

// defOfTree: the (shared) definition object of a subfield
func defOfTree(t *Tree) (field.Field, bool) {
	key := t.String()
	shareMu.Lock()
	f, ok := defCache[key]
	if len(defCache) > 200000 {
		defCache = map[string]field.Field{}
	}
	shareMu.Unlock()
	if ok {
		return f, true
	}
	f, ok = FieldOfTree(t)
	if ok {
		shareMu.Lock()
		defCache[key] = f
		shareMu.Unlock()
	}
	return f, ok
}

func newPadOf(s string) (padding.Padder, bool) {
	switch s {
	case "nil":
		return nil, true
	case "none":
		return padding.None, true
	}
	if len(s) == 3 {
		b, err := hex.DecodeString(s[1:])
		if err != nil {
			return nil, false
		}
		switch s[0] {
		case 'L':
			return padding.Left(rune(b[0])), true
		case 'R':
			return padding.Right(rune(b[0])), true
		}
	}
	return nil, false
}

// Descriptions are free text of the spec author; the library interpolates them into error texts
// and Describe. They carry what a format string would trip over.
const (
	descPrim = "f 100% (%d) %s"
	descComp = "c rate (%) %w %v"
)

var sorts = map[string]moovsort.StringSlice{"str": moovsort.Strings, "int": moovsort.StringsByInt, "hex": moovsort.StringsByHex}

// FieldOfTree builds a real field (with its spec) from the tree form.
func FieldOfTree(t *Tree) (field.Field, bool) {
	switch t.Name {
	case "p":
		a, ok := atoms(t, 6)
		if !ok {
			return nil, false
		}
		length, err := strconv.Atoi(a[1])
		enc, ok1 := Encoders[a[2]]
		pref := Prefixer(a[3])
		pad, ok2 := padOf(a[4])
		if err != nil || !ok1 || pref == nil || !ok2 {
			return nil, false
		}
		spec := &field.Spec{Length: length, Description: descPrim, Enc: enc, Pref: pref, Pad: pad}
		if a[5] == "t2" {
			spec.Packer = field.Track2Packer{}
			spec.Unpacker = field.Track2Unpacker{}
		}
		switch a[0] {
		case "s":
			return field.NewString(spec), true
		case "n":
			return field.NewNumeric(spec), true
		case "b":
			return field.NewBinary(spec), true
		case "h":
			return field.NewHex(spec), true
		}
		return nil, false
	case "c":
		if len(t.Kids) < 3 {
			return nil, false
		}
		length, err := strconv.Atoi(t.Kids[0].Name)
		pref := Prefixer(t.Kids[1].Name)
		if err != nil || pref == nil {
			return nil, false
		}
		spec := &field.Spec{Length: length, Description: descComp, Pref: pref, Subfields: map[string]field.Field{}}
		mode := t.Kids[2]
		switch mode.Name {
		case "t":
			a, ok := atoms(mode, 6)
			if !ok {
				return nil, false
			}
			tl, err := strconv.Atoi(a[0])
			if err != nil {
				return nil, false
			}
			ts := &field.TagSpec{Length: tl, Sort: sorts[a[3]], SkipUnknownTLVTags: a[4] == "1"}
			if ts.Sort == nil {
				return nil, false
			}
			if a[1] != "-" {
				e, ok := Encoders[a[1]]
				if !ok {
					return nil, false
				}
				ts.Enc = e
			}
			p, ok := padOf(a[2])
			if !ok {
				return nil, false
			}
			ts.Pad = p
			if a[5] != "-" {
				ts.PrefUnknownTLV = Prefixer(a[5])
				if ts.PrefUnknownTLV == nil {
					return nil, false
				}
			}
			spec.Tag = ts
		case "b":
			a, ok := atoms(mode, 3)
			if !ok {
				return nil, false
			}
			bl, err := strconv.Atoi(a[0])
			enc, ok1 := Encoders[a[1]]
			bp := Prefixer(a[2])
			if err != nil || !ok1 || bp == nil {
				return nil, false
			}
			shareMu.Lock()
			bmDef, have := defCache["bitmap-def "+mode.String()]
			if !have {
				bmDef = field.NewBitmap(&field.Spec{Length: bl, Description: "bm", Enc: enc, Pref: bp, DisableAutoExpand: true})
				defCache["bitmap-def "+mode.String()] = bmDef
			}
			shareMu.Unlock()
			spec.Bitmap = bmDef.(*field.Bitmap)
		default:
			return nil, false
		}
		for i, k := range t.Kids[3:] {
			if k.Name != "sub" || len(k.Kids) != 2 {
				return nil, false
			}
			sf, ok := defOfTree(k.Kids[1])
			if !ok {
				return nil, false
			}
			spec.Subfields[k.Kids[0].Name] = sf
			if i == 0 && len(t.Kids) > 4 {
				// specs are also built bottom-up: a prototype made from the spec (as when it is placed
				// into an outer spec) before the remaining subfields are added to its map. Nothing
				// derived from the spec at that moment may stick to the spec.
				earlyPrototype(spec)
			}
		}
		return field.NewComposite(spec), true
	}
	return nil, false
}

func earlyPrototype(spec *field.Spec) {
	defer func() { _ = recover() }()
	_ = field.NewComposite(spec)
}

// SetValue populates a (fresh) field from the tree form of a value.
func SetValue(f field.Field, v *Tree) bool {
	switch v.Name {
	case "s":
		b, ok := UnHex(v.Kids[0].Name)
		fs, ok2 := f.(*field.String)
		if !ok || !ok2 {
			return false
		}
		fs.SetValue(string(b))
	case "b":
		b, ok := UnHex(v.Kids[0].Name)
		fb, ok2 := f.(*field.Binary)
		if !ok || !ok2 {
			return false
		}
		fb.SetValue(b)
	case "h":
		b, ok := UnHex(v.Kids[0].Name)
		fh, ok2 := f.(*field.Hex)
		if !ok || !ok2 {
			return false
		}
		fh.SetValue(string(b))
	case "n":
		i, err := strconv.ParseInt(v.Kids[0].Name, 10, 64)
		fn, ok2 := f.(*field.Numeric)
		if err != nil || !ok2 {
			return false
		}
		fn.SetValue(i)
	case "c":
		fc, ok := f.(*field.Composite)
		if !ok {
			return false
		}
		return setComposite(fc, v)
	default:
		return false
	}
	return true
}

// setComposite populates a composite through Composite.Marshal with a struct built at
// run time (reflect.StructOf): one exported field per subfield value, tagged `index:"<tag>"`,
// holding the library's own field types (or a pointer to a nested struct).
func setComposite(fc *field.Composite, v *Tree) bool {
	ptr, ok := structFor(fc.Spec().Subfields, v.Kids, "kv")
	if !ok {
		return false
	}
	return fc.Marshal(ptr.Interface()) == nil
}

// structFor builds *struct{ X0 T0 `index:"k0"`; … } for the given (key,value) trees.
func structFor(specs map[string]field.Field, kvs []*Tree, kvName string) (reflect.Value, bool) {
	var sfs []reflect.StructField
	var vals []reflect.Value
	for i, kv := range kvs {
		if kv.Name != kvName || len(kv.Kids) != 2 {
			return reflect.Value{}, false
		}
		key := kv.Kids[0].Name
		sf, ok := specs[key]
		if !ok {
			return reflect.Value{}, false
		}
		val, ok := goValueFor(sf, kv.Kids[1])
		if !ok {
			return reflect.Value{}, false
		}
		sfs = append(sfs, reflect.StructField{Name: fmt.Sprintf("X%d", i), Type: val.Type(), Tag: reflect.StructTag(fmt.Sprintf(`index:"%s"`, key))})
		vals = append(vals, val)
	}
	st := reflect.New(reflect.StructOf(sfs))
	for i, val := range vals {
		st.Elem().Field(i).Set(val)
	}
	return st, true
}

func goValueFor(sf field.Field, v *Tree) (reflect.Value, bool) {
	switch v.Name {
	case "s":
		b, ok := UnHex(v.Kids[0].Name)
		if _, isS := sf.(*field.String); !ok || !isS {
			return reflect.Value{}, false
		}
		return reflect.ValueOf(field.NewStringValue(string(b))), true
	case "b":
		b, ok := UnHex(v.Kids[0].Name)
		if _, isB := sf.(*field.Binary); !ok || !isB {
			return reflect.Value{}, false
		}
		return reflect.ValueOf(field.NewBinaryValue(b)), true
	case "h":
		b, ok := UnHex(v.Kids[0].Name)
		if _, isH := sf.(*field.Hex); !ok || !isH {
			return reflect.Value{}, false
		}
		return reflect.ValueOf(field.NewHexValue(string(b))), true
	case "n":
		i, err := strconv.ParseInt(v.Kids[0].Name, 10, 64)
		if _, isN := sf.(*field.Numeric); err != nil || !isN {
			return reflect.Value{}, false
		}
		return reflect.ValueOf(field.NewNumericValue(i)), true
	case "c", "c()":
		fc, ok := sf.(*field.Composite)
		if !ok {
			return reflect.Value{}, false
		}
		return structFor(fc.Spec().Subfields, v.Kids, "kv")
	}
	return reflect.Value{}, false
}

// ValueTree renders the canonical value of a field after Unpack.
func ValueTree(f field.Field) *Tree {
	switch x := f.(type) {
	case *field.String:
		return N("s", A(Hex([]byte(x.Value()))))
	case *field.Numeric:
		return N("n", A(strconv.FormatInt(x.Value(), 10)))
	case *field.Binary:
		return N("b", A(Hex(x.Value())))
	case *field.Hex:
		return N("h", A(Hex([]byte(x.Value()))))
	case *field.Composite:
		subs := x.GetSubfields()
		// canonical order: the composite's own spec order
		keys := make([]string, 0, len(x.Spec().Subfields))
		for k := range x.Spec().Subfields {
			keys = append(keys, k)
		}
		if x.Spec().Bitmap != nil {
			moovsort.StringsByInt(keys)
		} else {
			x.Spec().Tag.Sort(keys)
		}
		t := N("c")
		for _, k := range keys {
			if sf, ok := subs[k]; ok {
				t.Kids = append(t.Kids, N("kv", A(k), ValueTree(sf)))
			}
		}
		if len(t.Kids) == 0 {
			return &Tree{Name: "c()"}
		}
		return t
	}
	return A("?")
}

// MsgSpecOfTree builds a real MessageSpec.
func MsgSpecOfTree(t *Tree) (*iso8583.MessageSpec, bool) {
	if t.Name != "m" || len(t.Kids) < 2 {
		return nil, false
	}
	mti, ok := FieldOfTree(t.Kids[0])
	if !ok {
		return nil, false
	}
	bm := t.Kids[1]
	a, ok := atoms(bm, 4)
	if !ok || bm.Name != "bm" {
		return nil, false
	}
	bl, err := strconv.Atoi(a[0])
	enc, ok1 := Encoders[a[1]]
	bp := Prefixer(a[2])
	if err != nil || !ok1 || bp == nil {
		return nil, false
	}
	spec := &iso8583.MessageSpec{Name: "gen", Fields: map[int]field.Field{
		0: mti,
		1: field.NewBitmap(&field.Spec{Length: bl, Description: "Bitmap", Enc: enc, Pref: bp, DisableAutoExpand: a[3] != "1"}),
	}}
	for _, k := range t.Kids[2:] {
		if k.Name != "f" || len(k.Kids) != 2 {
			return nil, false
		}
		id, err := strconv.Atoi(k.Kids[0].Name)
		f, ok := FieldOfTree(k.Kids[1])
		if err != nil || !ok {
			return nil, false
		}
		spec.Fields[id] = f
	}
	return spec, true
}

// SetMsg populates a fresh message from `msg(mti|-, f(id,val)…)` through Message.Marshal
// with a run-time struct (see structFor).
func SetMsg(m *iso8583.Message, t *Tree) bool {
	if t.Name != "msg" || len(t.Kids) < 1 {
		return false
	}
	specs := map[string]field.Field{}
	for id, f := range m.GetSpec().Fields {
		specs[strconv.Itoa(id)] = f
	}
	var kvs []*Tree
	if t.Kids[0].Name != "-" {
		kvs = append(kvs, N("f", A("0"), t.Kids[0]))
	}
	kvs = append(kvs, t.Kids[1:]...)
	ptr, ok := structFor(specs, kvs, "f")
	if !ok {
		return false
	}
	return m.Marshal(ptr.Interface()) == nil
}

// MsgTree renders the canonical content of a message after Unpack.
func MsgTree(m *iso8583.Message) *Tree {
	fields := m.GetFields()
	ids := make([]int, 0, len(fields))
	for id := range fields {
		ids = append(ids, id)
	}
	sort.Ints(ids)
	t := N("msg")
	if f, ok := fields[0]; ok {
		t.Kids = append(t.Kids, ValueTree(f))
	} else {
		t.Kids = append(t.Kids, A("-"))
	}
	for _, id := range ids {
		if id < 2 {
			continue
		}
		t.Kids = append(t.Kids, N("f", A(strconv.Itoa(id)), ValueTree(fields[id])))
	}
	return t
}

var _ = encoding.ASCII
var _ = prefix.ASCII
