package impl

// Channel X: the Describe filters of /repo/field_filter.go.
//   X filter <GoFilterName> <hex in>   → ok <hex out> | panic
//   X default <field id>               → name of the filter DefaultFilters() installs, or none

import (
	"reflect"
	"runtime"
	"strings"

	"github.com/moov-io/iso8583"
	"github.com/moov-io/iso8583/encoding"
	"github.com/moov-io/iso8583/field"
	"github.com/moov-io/iso8583/prefix"
)

func init() { extra["X"] = runX }

var FilterFuncs = map[string]iso8583.FilterFunc{
	"PANFilter": iso8583.PANFilter, "PINFilter": iso8583.PINFilter, "EMVFilter": iso8583.EMVFilter,
	"NoOpFilter": iso8583.NoOpFilter, "Track1Filter": iso8583.Track1Filter,
	"Track2Filter": iso8583.Track2Filter, "Track3Filter": iso8583.Track3Filter,
}

// CarrierField holds text as a String field (Binary encoding, LLL prefix). The filters take a
// `data field.Field` argument; since newTrackData parses the text itself it is no longer used
// by them, a field holding the same text is passed for completeness.
func CarrierField(in string) field.Field {
	f := field.NewString(&field.Spec{Length: 999, Description: "carrier", Enc: encoding.Binary, Pref: prefix.ASCII.LLL})
	f.SetValue(in)
	return f
}

func filterName(fn iso8583.FilterFunc) string {
	p := reflect.ValueOf(fn).Pointer()
	for name, f := range FilterFuncs {
		if reflect.ValueOf(f).Pointer() == p {
			return name
		}
	}
	n := runtime.FuncForPC(p).Name()
	return n[strings.LastIndex(n, ".")+1:]
}

func runX(t []string) string {
	if len(t) >= 2 && strings.HasPrefix(t[1], "errleak") {
		return runLeakLine(t)
	}
	switch {
	case len(t) == 4 && t[1] == "filter":
		fn, ok := FilterFuncs[t[2]]
		in, ok2 := UnHex(t[3])
		if !ok || !ok2 {
			return "bad-op"
		}
		out := fn(string(in), CarrierField(string(in)))
		return "ok " + Hex([]byte(out))
	case len(t) == 3 && t[1] == "default":
		m := map[string]iso8583.FilterFunc{}
		for _, ff := range iso8583.DefaultFilters() {
			ff(m)
		}
		if fn, ok := m[t[2]]; ok {
			return filterName(fn)
		}
		return "none"
	}
	return "bad-op"
}
