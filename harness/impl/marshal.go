package impl

import (
	"fmt"
	"reflect"
	"strconv"

	"github.com/moov-io/iso8583"
	"github.com/moov-io/iso8583/field"
)

// Channel G: Go struct Marshal / Unmarshal (property C11). Line syntax in
// lean/Iso8583/Drivers/Marshal.lean. Structs are built at run time with reflect.StructOf
// from the textual description the model reads.

func init() {
	extra["G"] = runG
}

var (
	tString  = reflect.TypeOf("")
	tInt     = reflect.TypeOf(int(0))
	tInt64   = reflect.TypeOf(int64(0))
	tBytes   = reflect.TypeOf([]byte(nil))
	tLString = reflect.TypeOf((*field.String)(nil))
	tLNum    = reflect.TypeOf((*field.Numeric)(nil))
	tLBin    = reflect.TypeOf((*field.Binary)(nil))
	tLHex    = reflect.TypeOf((*field.Hex)(nil))
)

func tagText(hexs string) (string, bool) {
	b, ok := UnHex(hexs)
	return string(b), ok
}

// StructTagFor renders the conventional struct tag for the two raw tag values.
func StructTagFor(idx, iso string) reflect.StructTag {
	s := ""
	if idx != "" {
		s += "index:" + strconv.Quote(idx)
	}
	if iso != "" {
		if s != "" {
			s += " "
		}
		s += "iso8583:" + strconv.Quote(iso)
	}
	return reflect.StructTag(s)
}

// GoStructType builds struct{…} from the fd(…) children.
func GoStructType(fds []*Tree) (reflect.Type, bool) {
	var sfs []reflect.StructField
	for _, fd := range fds {
		if fd.Name != "fd" || len(fd.Kids) != 4 {
			return nil, false
		}
		idx, ok1 := tagText(fd.Kids[1].Name)
		iso, ok2 := tagText(fd.Kids[2].Name)
		ty, ok3 := GoTypeOf(fd.Kids[3])
		if !ok1 || !ok2 || !ok3 {
			return nil, false
		}
		sfs = append(sfs, reflect.StructField{Name: fd.Kids[0].Name, Type: ty, Tag: StructTagFor(idx, iso)})
	}
	return reflect.StructOf(sfs), true
}

func kidsOf(t *Tree) []*Tree {
	if t.Name == "sp()" || t.Name == "nilsp()" || t.Name == "st()" {
		return nil
	}
	return t.Kids
}

func baseName(t *Tree) string {
	switch t.Name {
	case "sp()":
		return "sp"
	case "nilsp()":
		return "nilsp"
	case "st()":
		return "st"
	}
	return t.Name
}

// GoTypeOf is the Go type described by a <goval> tree.
func GoTypeOf(t *Tree) (reflect.Type, bool) {
	switch baseName(t) {
	case "str":
		return tString, true
	case "int":
		return tInt, true
	case "i64":
		return tInt64, true
	case "bytes", "nilbytes":
		return tBytes, true
	case "ptr", "nilptr":
		if len(t.Kids) != 1 {
			return nil, false
		}
		e, ok := GoTypeOf(t.Kids[0])
		if !ok {
			return nil, false
		}
		return reflect.PointerTo(e), true
	case "ls", "nills":
		return tLString, true
	case "ln", "nilln":
		return tLNum, true
	case "lb", "nillb":
		return tLBin, true
	case "lh", "nillh":
		return tLHex, true
	case "sp", "nilsp":
		st, ok := GoStructType(kidsOf(t))
		if !ok {
			return nil, false
		}
		return reflect.PointerTo(st), true
	}
	return nil, false
}

// GoValueOf builds the Go value described by a <goval> tree.
func GoValueOf(t *Tree) (reflect.Value, bool) {
	ty, ok := GoTypeOf(t)
	if !ok {
		return reflect.Value{}, false
	}
	bad := reflect.Value{}
	atom := func() (string, bool) {
		if len(t.Kids) != 1 || len(t.Kids[0].Kids) != 0 {
			return "", false
		}
		return t.Kids[0].Name, true
	}
	switch baseName(t) {
	case "str":
		a, ok := atom()
		b, ok2 := UnHex(a)
		if !ok || !ok2 {
			return bad, false
		}
		return reflect.ValueOf(string(b)), true
	case "int":
		a, ok := atom()
		i, err := strconv.ParseInt(a, 10, 64)
		if !ok || err != nil {
			return bad, false
		}
		return reflect.ValueOf(int(i)), true
	case "i64":
		a, ok := atom()
		i, err := strconv.ParseInt(a, 10, 64)
		if !ok || err != nil {
			return bad, false
		}
		return reflect.ValueOf(i), true
	case "bytes":
		a, ok := atom()
		b, ok2 := UnHex(a)
		if !ok || !ok2 {
			return bad, false
		}
		if b == nil {
			b = []byte{}
		}
		return reflect.ValueOf(b), true
	case "nilbytes", "nilptr", "nills", "nilln", "nillb", "nillh", "nilsp":
		return reflect.Zero(ty), true
	case "ptr":
		e, ok := GoValueOf(t.Kids[0])
		if !ok {
			return bad, false
		}
		p := reflect.New(ty.Elem())
		p.Elem().Set(e)
		return p, true
	case "ls":
		a, ok := atom()
		b, ok2 := UnHex(a)
		if !ok || !ok2 {
			return bad, false
		}
		return reflect.ValueOf(field.NewStringValue(string(b))), true
	case "ln":
		a, ok := atom()
		i, err := strconv.ParseInt(a, 10, 64)
		if !ok || err != nil {
			return bad, false
		}
		return reflect.ValueOf(field.NewNumericValue(i)), true
	case "lb":
		a, ok := atom()
		b, ok2 := UnHex(a)
		if !ok || !ok2 {
			return bad, false
		}
		return reflect.ValueOf(field.NewBinaryValue(b)), true
	case "lh":
		a, ok := atom()
		b, ok2 := UnHex(a)
		if !ok || !ok2 {
			return bad, false
		}
		return reflect.ValueOf(field.NewHexValue(string(b))), true
	case "sp":
		p := reflect.New(ty.Elem())
		for i, fd := range kidsOf(t) {
			v, ok := GoValueOf(fd.Kids[3])
			if !ok {
				return bad, false
			}
			p.Elem().Field(i).Set(v)
		}
		return p, true
	}
	return bad, false
}

// GoStructOf builds *struct{…} (non-nil) for an st(…) tree.
func GoStructOf(t *Tree) (reflect.Value, bool) {
	if baseName(t) != "st" {
		return reflect.Value{}, false
	}
	return GoValueOf(&Tree{Name: "sp", Kids: kidsOf(t)})
}

func zeroTemplate(ty reflect.Type) *Tree {
	return GoValTree(reflect.Zero(ty))
}

func fieldsTree(name string, st reflect.Value) *Tree {
	ty := st.Type()
	if ty.NumField() == 0 {
		return A(name + "()")
	}
	t := N(name)
	for i := 0; i < ty.NumField(); i++ {
		sf := ty.Field(i)
		t.Kids = append(t.Kids, N("fd", A(sf.Name), A(Hex([]byte(sf.Tag.Get("index")))), A(Hex([]byte(sf.Tag.Get("iso8583")))), GoValTree(st.Field(i))))
	}
	return t
}

// GoValTree renders a Go value in the <goval> syntax (canonical: empty slices print
// `bytes(-)`, nil pointers print the zero value of the pointee).
func GoValTree(v reflect.Value) *Tree {
	ty := v.Type()
	switch ty {
	case tString:
		return N("str", A(Hex([]byte(v.String()))))
	case tInt:
		return N("int", A(strconv.FormatInt(v.Int(), 10)))
	case tInt64:
		return N("i64", A(strconv.FormatInt(v.Int(), 10)))
	case tBytes:
		return N("bytes", A(Hex(v.Bytes())))
	case tLString:
		if v.IsNil() {
			return A("nills")
		}
		return N("ls", A(Hex([]byte(v.Interface().(*field.String).Value()))))
	case tLNum:
		if v.IsNil() {
			return A("nilln")
		}
		return N("ln", A(strconv.FormatInt(v.Interface().(*field.Numeric).Value(), 10)))
	case tLBin:
		if v.IsNil() {
			return A("nillb")
		}
		return N("lb", A(Hex(v.Interface().(*field.Binary).Value())))
	case tLHex:
		if v.IsNil() {
			return A("nillh")
		}
		return N("lh", A(Hex([]byte(v.Interface().(*field.Hex).Value()))))
	}
	if ty.Kind() == reflect.Pointer {
		if ty.Elem().Kind() == reflect.Struct {
			if v.IsNil() {
				return fieldsTree("nilsp", reflect.Zero(ty.Elem()))
			}
			return fieldsTree("sp", v.Elem())
		}
		if v.IsNil() {
			return N("nilptr", GoValTree(reflect.Zero(ty.Elem())))
		}
		return N("ptr", GoValTree(v.Elem()))
	}
	return A("?")
}

// StructTree renders *struct{…} as st(…).
func StructTree(p reflect.Value) *Tree {
	return fieldsTree("st", p.Elem())
}

// MarshalRT runs the round trip of `rt` / `rtw`; stage names the failing step.
func MarshalRT(spec *iso8583.MessageSpec, st *Tree, wire bool) (out reflect.Value, m1, m2 *iso8583.Message, stage string) {
	ptr, ok := GoStructOf(st)
	if !ok {
		return reflect.Value{}, nil, nil, "bad-op"
	}
	m1 = iso8583.NewMessage(spec)
	if err := m1.Marshal(ptr.Interface()); err != nil {
		return reflect.Value{}, m1, nil, "marshal"
	}
	src := m1
	if wire {
		packed, err := m1.Pack()
		if err != nil {
			return reflect.Value{}, m1, nil, "pack"
		}
		m2 = iso8583.NewMessage(spec)
		if err := m2.Unpack(packed); err != nil {
			return reflect.Value{}, m1, m2, "unpack"
		}
		src = m2
	}
	fresh := reflect.New(ptr.Type().Elem())
	if err := src.Unmarshal(fresh.Interface()); err != nil {
		return fresh, m1, m2, "unmarshal"
	}
	return fresh, m1, m2, ""
}

func runG(t []string) string {
	if len(t) < 4 {
		return "bad-op"
	}
	st, ok := ParseTree(t[1])
	if !ok {
		return "bad-op"
	}
	spec, ok := MsgSpecOfTree(st)
	if !ok {
		return "bad-op"
	}
	switch t[2] {
	case "marshal":
		if len(t) != 4 {
			return "bad-op"
		}
		sd, ok := ParseTree(t[3])
		if !ok {
			return "bad-op"
		}
		ptr, ok := GoStructOf(sd)
		if !ok {
			return "bad-op"
		}
		m := iso8583.NewMessage(spec)
		if err := m.Marshal(ptr.Interface()); err != nil {
			return "err"
		}
		return "ok " + MsgTree(m).String()
	case "unmarshal":
		if len(t) != 5 {
			return "bad-op"
		}
		mt, ok1 := ParseTree(t[3])
		sd, ok2 := ParseTree(t[4])
		if !ok1 || !ok2 {
			return "bad-op"
		}
		ptr, ok := GoStructOf(sd)
		if !ok {
			return "bad-op"
		}
		m := iso8583.NewMessage(spec)
		if !SetMsg(m, mt) {
			return "bad-op"
		}
		if err := m.Unmarshal(ptr.Interface()); err != nil {
			return "err"
		}
		return "ok " + StructTree(ptr).String()
	case "rt", "rtw", "rtv", "rtwv": // rtv / rtwv: the same operations (replay lines of value mismatches)
		if len(t) != 4 {
			return "bad-op"
		}
		sd, ok := ParseTree(t[3])
		if !ok {
			return "bad-op"
		}
		out, _, _, stage := MarshalRT(spec, sd, t[2] == "rtw" || t[2] == "rtwv")
		switch stage {
		case "":
			return "ok " + StructTree(out).String()
		case "bad-op":
			return "bad-op"
		}
		return "err " + stage
	}
	return "bad-op"
}

var _ = fmt.Sprint
