// Package impl executes one protocol line (DESIGN.md §3.3) against the real
// moov-io/iso8583 code, in-process, and returns the canonical result string.
package impl

import (
	"bytes"
	"encoding/hex"
	"fmt"
	"runtime"
	"strconv"
	"strings"
	"sync/atomic"
	"time"

	"github.com/moov-io/iso8583/encoding"
	"github.com/moov-io/iso8583/field"
	"github.com/moov-io/iso8583/padding"
	"github.com/moov-io/iso8583/prefix"
)

func Hex(b []byte) string {
	if len(b) == 0 {
		return "-"
	}
	return hex.EncodeToString(b)
}

func UnHex(s string) ([]byte, bool) {
	if s == "-" {
		return []byte{}, true
	}
	b, err := hex.DecodeString(s)
	return b, err == nil
}

var Encoders = map[string]encoding.Encoder{
	"ascii": encoding.ASCII, "ebcdic": encoding.EBCDIC, "ebcdic1047": encoding.EBCDIC1047,
	"binary": encoding.Binary, "bcd": encoding.BCD, "lbcd": encoding.LBCD,
	"bytesToHex": encoding.BytesToASCIIHex, "hexToBytes": encoding.ASCIIHexToBytes,
	"berTag": encoding.BerTLVTag,
}

var families = map[string]prefix.Prefixers{
	"ascii": prefix.ASCII, "bcd": prefix.BCD, "binary": prefix.Binary, "hex": prefix.Hex,
	"ebcdic": prefix.EBCDIC, "ebcdic1047": prefix.EBCDIC1047,
}

func Prefixer(name string) prefix.Prefixer {
	switch name {
	case "ber":
		return prefix.BerTLV
	case "none":
		return prefix.None.Fixed
	}
	parts := strings.Split(name, ".")
	if len(parts) != 2 {
		return nil
	}
	fam, ok := families[parts[0]]
	if !ok {
		return nil
	}
	switch parts[1] {
	case "F":
		return fam.Fixed
	case "1":
		return fam.L
	case "2":
		return fam.LL
	case "3":
		return fam.LLL
	case "4":
		return fam.LLLL
	case "5":
		return fam.LLLLL
	case "6":
		return fam.LLLLLL
	}
	return nil
}

func Padder(kind, c string) (padding.Padder, bool) {
	switch kind {
	case "nil":
		return nil, true
	case "none":
		return padding.None, true
	}
	b, ok := UnHex(c)
	if !ok || len(b) != 1 {
		return nil, false
	}
	switch kind {
	case "L":
		return padding.Left(rune(b[0])), true
	case "R":
		return padding.Right(rune(b[0])), true
	}
	return nil, false
}

// hangs counts the calls that did not return within their limit (a deadlock in the implementation,
// an endless loop): each leaves a goroutine behind, and after a few of them the limits shrink so that
// a stream of thousands of lines that all hang still ends in minutes.
var hangs atomic.Int32

// RunLimit: how long one protocol line may take before its result is "hang"
func RunLimit() time.Duration {
	if hangs.Load() >= 5 {
		return 150 * time.Millisecond
	}
	return 20 * time.Second
}

// Run executes a line; panics are caught and reported as "panic", a call that does not return as "hang".
// Channel W lines carry their own (shorter) limit; the fast channels of the layers (E, P, D, B) run
// straight, everything that goes through fields, messages or specs under the watchdog.
func Run(line string) (res string) {
	if len(line) > 1 && line[1] == ' ' {
		switch line[0] {
		case 'E', 'P', 'D', 'B', 'O', 'N':
			return runDirect(line)
		}
	}
	done := make(chan string, 1)
	go func() { done <- runDirect(line) }()
	timer := time.NewTimer(RunLimit())
	defer timer.Stop()
	select {
	case r := <-done:
		return r
	case <-timer.C:
		hangs.Add(1)
		return "hang"
	}
}

func runDirect(line string) (res string) {
	defer func() {
		if r := recover(); r != nil {
			res = "panic"
		}
	}()
	t := strings.Split(line, " ")
	switch t[0] {
	case "E":
		return runE(t)
	case "P":
		return runP(t)
	case "D":
		return runD(t)
	case "B":
		return runB(t)
	}
	if f, ok := extra[t[0]]; ok {
		return f(t)
	}
	return "bad-op"
}

// extra channels are registered by other files of this package.
var extra = map[string]func([]string) string{}

func runE(t []string) string {
	enc, ok := Encoders[t[1]]
	if !ok {
		return "bad-op"
	}
	switch {
	case len(t) == 4 && t[2] == "enc":
		in, ok := UnHex(t[3])
		if !ok {
			return "bad-op"
		}
		out, err := enc.Encode(in)
		if err != nil {
			return "err"
		}
		return "ok " + Hex(out)
	case len(t) == 5 && t[2] == "dec":
		n, err := strconv.Atoi(t[3])
		in, ok := UnHex(t[4])
		if err != nil || !ok {
			return "bad-op"
		}
		given := append([]byte{}, in...)
		out, read, err := enc.Decode(in, n)
		mod := ""
		if !bytes.Equal(given, in) {
			mod = " INPUT-MODIFIED"
		}
		if err != nil {
			return "err" + mod
		}
		return fmt.Sprintf("ok %s %d", Hex(out), read) + mod
	}
	return "bad-op"
}

func runP(t []string) string {
	p := Prefixer(t[1])
	if p == nil || len(t) != 5 {
		return "bad-op"
	}
	maxLen, err := strconv.Atoi(t[3])
	if err != nil {
		return "bad-op"
	}
	switch t[2] {
	case "enc":
		n, err := strconv.Atoi(t[4])
		if err != nil {
			return "bad-op"
		}
		out, err := p.EncodeLength(maxLen, n)
		if err != nil {
			return "err"
		}
		return "ok " + Hex(out)
	case "dec":
		in, ok := UnHex(t[4])
		if !ok {
			return "bad-op"
		}
		given := append([]byte{}, in...)
		n, read, err := p.DecodeLength(maxLen, in)
		mod := ""
		if !bytes.Equal(given, in) {
			mod = " INPUT-MODIFIED"
		}
		if err != nil {
			return "err" + mod
		}
		return fmt.Sprintf("ok %d %d", n, read) + mod
	}
	return "bad-op"
}

func runD(t []string) string {
	if len(t) < 5 {
		return "bad-op"
	}
	p, ok := Padder(t[1], t[2])
	if !ok {
		return "bad-op"
	}
	switch t[3] {
	case "pad":
		if len(t) != 7 {
			return "bad-op"
		}
		n, err := strconv.Atoi(t[4])
		data, ok1 := UnHex(t[5])
		spare, ok2 := UnHex(t[6])
		if err != nil || !ok1 || !ok2 {
			return "bad-op"
		}
		// the caller's slice: len(data) bytes in use, spare capacity behind it
		backing := make([]byte, 0, len(data)+len(spare))
		backing = append(backing, data...)
		backing = append(backing, spare...)
		in := backing[:len(data)]
		var out []byte
		if p == nil {
			out = in
		} else {
			out = p.Pad(in, n)
		}
		res := Hex(out) // read before looking at the backing array
		return res + " " + Hex(backing[:cap(backing)][:len(data)+len(spare)])
	case "unpad":
		if len(t) != 5 {
			return "bad-op"
		}
		data, ok := UnHex(t[4])
		if !ok {
			return "bad-op"
		}
		if p == nil {
			return Hex(data)
		}
		return Hex(p.Unpad(data))
	}
	return "bad-op"
}

func bitmapSpec(specLen int, auto bool, enc encoding.Encoder, pref prefix.Prefixer) *field.Spec {
	return &field.Spec{Length: specLen, Description: "Bitmap", Enc: enc, Pref: pref, DisableAutoExpand: !auto}
}

func runB(t []string) string {
	switch t[1] {
	case "ops":
		if len(t) != 5 {
			return "bad-op"
		}
		specLen, err := strconv.Atoi(t[2])
		if err != nil {
			return "bad-op"
		}
		auto := t[3] == "1"
		bm := field.NewBitmap(bitmapSpec(specLen, auto, encoding.Binary, prefix.Binary.Fixed))
		var out []string
		for _, op := range strings.Split(t[4], ",") {
			parts := strings.Split(op, ":")
			arg := 0
			if len(parts) == 2 {
				arg, _ = strconv.Atoi(parts[1])
			}
			switch parts[0] {
			case "set":
				bm.Set(arg)
			case "isset":
				out = append(out, b01(bm.IsSet(arg)))
			case "pres":
				out = append(out, b01(bm.IsBitmapPresenceBit(arg)))
			case "len":
				out = append(out, strconv.Itoa(bm.Len()))
			case "bytes":
				bs, _ := bm.Bytes()
				out = append(out, Hex(bs))
			case "reset":
				bm.Reset()
			default:
				out = append(out, "bad-op")
			}
		}
		return strings.Join(out, " ")
	case "unpack":
		if len(t) != 7 {
			return "bad-op"
		}
		enc, ok := Encoders[t[2]]
		pref := Prefixer(t[3])
		specLen, err := strconv.Atoi(t[4])
		data, ok2 := UnHex(t[6])
		if !ok || pref == nil || err != nil || !ok2 {
			return "bad-op"
		}
		bm := field.NewBitmap(bitmapSpec(specLen, t[5] == "1", enc, pref))
		read, err := bm.Unpack(data)
		if err != nil {
			return "err"
		}
		bs, _ := bm.Bytes()
		return fmt.Sprintf("ok %s %d", Hex(bs), read)
	}
	return "bad-op"
}

func b01(x bool) string {
	if x {
		return "1"
	}
	return "0"
}

// HeapInUse: bytes of live heap objects after two garbage collections
func HeapInUse() uint64 {
	runtime.GC()
	runtime.GC()
	var ms runtime.MemStats
	runtime.ReadMemStats(&ms)
	return ms.HeapAlloc
}
