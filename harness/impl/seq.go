package impl

import (
	"fmt"
	"strconv"
	"strings"

	"github.com/moov-io/iso8583/padding"
)

// Channel Q: a sequence of layer operations (channels D, E, P) executed on SHARED objects — one
// padder object per (kind, pad byte) for the whole line, the package-level encoder and prefixer
// singletons — whose byte results are kept and rendered only after the last operation:
//
//	Q <sub>|<sub>|…      sub = the tokens of a D / E / P line joined by ","
//
// The model evaluates every sub-line independently (padders, encoders and prefixers are
// functions); an implementation that caches or re-uses a buffer between calls, or hands out
// results that alias each other, gives different text for an earlier result once a later call ran.
func init() { extra["Q"] = runQ }

func runQ(t []string) string {
	if len(t) != 2 {
		return "bad-op"
	}
	padders := map[string]padding.Padder{}
	var render []func() string
	for _, sub := range strings.Split(t[1], "|") {
		s := strings.Split(sub, ",")
		r := seqStep(s, padders)
		if r == nil {
			return "bad-op"
		}
		render = append(render, r)
	}
	out := make([]string, len(render))
	for i, r := range render {
		out[i] = r()
	}
	return strings.Join(out, " | ")
}

func constant(s string) func() string { return func() string { return s } }

// seqStep executes one sub-operation now and returns the renderer of its result.
func seqStep(s []string, padders map[string]padding.Padder) (r func() string) {
	defer func() {
		if rec := recover(); rec != nil {
			r = constant("panic")
		}
	}()
	if len(s) < 3 {
		return nil
	}
	switch s[0] {
	case "D":
		if len(s) < 5 {
			return nil
		}
		key := s[1] + "/" + s[2]
		p, have := padders[key]
		if !have {
			var ok bool
			p, ok = Padder(s[1], s[2])
			if !ok {
				return nil
			}
			padders[key] = p
		}
		switch {
		case s[3] == "pad" && len(s) == 7:
			n, err := strconv.Atoi(s[4])
			data, ok1 := UnHex(s[5])
			spare, ok2 := UnHex(s[6])
			if err != nil || !ok1 || !ok2 {
				return nil
			}
			backing := make([]byte, 0, len(data)+len(spare))
			backing = append(append(backing, data...), spare...)
			in := backing[:len(data)]
			out := in
			if p != nil {
				out = p.Pad(in, n)
			}
			return func() string { return Hex(out) + " " + Hex(backing[:len(data)+len(spare)]) }
		case s[3] == "unpad" && len(s) == 5:
			data, ok := UnHex(s[4])
			if !ok {
				return nil
			}
			out := data
			if p != nil {
				out = p.Unpad(data)
			}
			return func() string { return Hex(out) }
		}
	case "E":
		enc, ok := Encoders[s[1]]
		if !ok {
			return nil
		}
		switch {
		case s[2] == "enc" && len(s) == 4:
			in, ok := UnHex(s[3])
			if !ok {
				return nil
			}
			out, err := enc.Encode(in)
			if err != nil {
				return constant("err")
			}
			return func() string { return "ok " + Hex(out) }
		case s[2] == "dec" && len(s) == 5:
			n, err := strconv.Atoi(s[3])
			in, ok := UnHex(s[4])
			if err != nil || !ok {
				return nil
			}
			out, read, err := enc.Decode(in, n)
			if err != nil {
				return constant("err")
			}
			return func() string { return fmt.Sprintf("ok %s %d", Hex(out), read) }
		}
	case "P":
		p := Prefixer(s[1])
		if p == nil || len(s) != 5 {
			return nil
		}
		maxLen, err := strconv.Atoi(s[3])
		if err != nil {
			return nil
		}
		switch s[2] {
		case "enc":
			n, err := strconv.Atoi(s[4])
			if err != nil {
				return nil
			}
			out, err := p.EncodeLength(maxLen, n)
			if err != nil {
				return constant("err")
			}
			// what the library's own packers do with a prefix: append the value to it. Spare capacity
			// behind the prefix must be the prefix's own, not a table or a buffer other calls read.
			_ = append(out, 0xEE, 0xEE, 0xEE, 0xEE, 0xEE, 0xEE, 0xEE, 0xEE)
			return func() string { return "ok " + Hex(out) }
		case "dec":
			in, ok := UnHex(s[4])
			if !ok {
				return nil
			}
			n, read, err := p.DecodeLength(maxLen, in)
			if err != nil {
				return constant("err")
			}
			return constant(fmt.Sprintf("ok %d %d", n, read))
		}
	}
	return nil
}
