package impl

// Channel Y: the three track field kinds (field.Track1, Track2, Track3).
//
//	Y <trackspec> pack <components>            -> ok <hex> | err
//	Y <trackspec> unpack <hex>                 -> ok <components> <read> | err
//	Y <trackspec> unpack2 <hex1> <hex2>        -> <ok|err of the first Unpack>; <result of the second Unpack into the SAME object>
//	Y <trackspec> setunpack <components> <hex> -> result of Unpack into an object populated through Marshal first
//	Y <trackspec> repack <hex>                 -> unpack-err | ok <hex> | err          (Unpack, then Pack of the same object)
//	Y <trackspec> cycle <hex>                  -> unpack-err | pack-err | ok <hex> -> <result of Unpack of the re-packed bytes into a fresh object>
//	Y <trackspec> rt <components>              -> holds | vacuous | FAILS          (round-trip statement evaluated here)
//	Y <trackspec> dom <components>             -> 1                                (the generator claims: coherent and in-domain)
//
//	Y msg pack <v1|-> <v2|-> <v3|->            -> ok <hex> | err      (TrackMsgSpec: Spec87 with 45/35/36 as Track1/2/3)
//	Y msg unpack <hex>                         -> ok msg(<v1|->,<v2|->,<v3|->) | err
//	Y msg unpack2 <hex1> <hex2>                -> <ok|err>; <result of the second Unpack into the SAME message>
//	(the `msg` lines are replay lines of the oracles; the Lean model of messages has no track fields)
//
//	trackspec  ::= t(<1|2|3>,<len>,<enc>,<pref>,<pad>,<d|t2>)
//	components ::= v1(<fixedLength 0|1>,<formatCode>,<pan>,<name>,<expiry>,<serviceCode>,<data>)
//	             | v2(<pan>,<separator>,<expiry>,<serviceCode>,<data>)
//	             | v3(<formatCode>,<pan>,<data>)
//	strings in hex ("-" = empty); expiry = "-" (nil) or year*100+month in decimal

import (
	"encoding/json"
	"bytes"
	"fmt"
	"strconv"
	"time"

	"github.com/moov-io/iso8583"
	"github.com/moov-io/iso8583/field"
)

func init() { extra["Y"] = runY }

// TrackSpecOfTree builds the real field.Spec of a track field.
func TrackSpecOfTree(t *Tree) (kind int, spec *field.Spec, ok bool) {
	if t.Name != "t" {
		return 0, nil, false
	}
	a, ok := atoms(t, 6)
	if !ok {
		return 0, nil, false
	}
	kind, err := strconv.Atoi(a[0])
	length, err2 := strconv.Atoi(a[1])
	enc, ok1 := Encoders[a[2]]
	pref := Prefixer(a[3])
	pad, ok2 := padOf(a[4])
	if err != nil || err2 != nil || kind < 1 || kind > 3 || !ok1 || pref == nil || !ok2 {
		return 0, nil, false
	}
	spec = &field.Spec{Length: length, Description: "track", Enc: enc, Pref: pref, Pad: pad}
	switch a[5] {
	case "d":
	case "t2":
		spec.Packer = field.Track2Packer{}
		spec.Unpacker = field.Track2Unpacker{}
	default:
		return 0, nil, false
	}
	return kind, spec, true
}

// NewTrack creates a fresh track field object of the given kind.
func NewTrack(kind int, spec *field.Spec) field.Field {
	switch kind {
	case 1:
		return field.NewTrack1(spec)
	case 2:
		return field.NewTrack2(spec)
	}
	return field.NewTrack3(spec)
}

func expiryOf(s string) (*time.Time, bool) {
	if s == "-" {
		return nil, true
	}
	n, err := strconv.Atoi(s)
	if err != nil || n < 0 || n%100 < 1 || n%100 > 12 || n/100 > 9999 {
		return nil, false
	}
	t := time.Date(n/100, time.Month(n%100), 1, 0, 0, 0, 0, time.UTC)
	return &t, true
}

func expiryStr(t *time.Time) string {
	if t == nil {
		return "-"
	}
	if t.Day() != 1 || t.Hour() != 0 || t.Minute() != 0 || t.Second() != 0 || t.Nanosecond() != 0 || t.Location() != time.UTC || t.Year() < 0 {
		return "?" + t.Format(time.RFC3339Nano)
	}
	return strconv.Itoa(t.Year()*100 + int(t.Month()))
}

func unhexAll(a []string, idx ...int) ([]string, bool) {
	out := make([]string, len(a))
	copy(out, a)
	for _, i := range idx {
		b, ok := UnHex(a[i])
		if !ok {
			return nil, false
		}
		out[i] = string(b)
	}
	return out, true
}

// TrackValue builds the library's own value struct (*field.Track1 / 2 / 3) from the tree form.
func TrackValue(kind int, v *Tree) (interface{}, bool) {
	switch {
	case kind == 1 && v.Name == "v1":
		a, ok := atoms(v, 7)
		if !ok {
			return nil, false
		}
		s, ok := unhexAll(a, 1, 2, 3, 5, 6)
		exp, ok2 := expiryOf(a[4])
		if !ok || !ok2 || (a[0] != "0" && a[0] != "1") {
			return nil, false
		}
		return &field.Track1{FixedLength: a[0] == "1", FormatCode: s[1], PrimaryAccountNumber: s[2], Name: s[3],
			ExpirationDate: exp, ServiceCode: s[5], DiscretionaryData: s[6]}, true
	case kind == 2 && v.Name == "v2":
		a, ok := atoms(v, 5)
		if !ok {
			return nil, false
		}
		s, ok := unhexAll(a, 0, 1, 3, 4)
		exp, ok2 := expiryOf(a[2])
		if !ok || !ok2 {
			return nil, false
		}
		return &field.Track2{PrimaryAccountNumber: s[0], Separator: s[1], ExpirationDate: exp, ServiceCode: s[3], DiscretionaryData: s[4]}, true
	case kind == 3 && v.Name == "v3":
		a, ok := atoms(v, 3)
		if !ok {
			return nil, false
		}
		s, ok := unhexAll(a, 0, 1, 2)
		if !ok {
			return nil, false
		}
		return &field.Track3{FormatCode: s[0], PrimaryAccountNumber: s[1], DiscretionaryData: s[2]}, true
	}
	return nil, false
}

// SetTrack populates a track field through Marshal.
func SetTrack(f field.Field, kind int, v *Tree) bool {
	val, ok := TrackValue(kind, v)
	if !ok {
		return false
	}
	return f.Marshal(val) == nil
}

func hs(s string) *Tree { return A(Hex([]byte(s))) }

// TrackTree renders the components a track field object holds.
func TrackTree(f field.Field) *Tree {
	switch x := f.(type) {
	case *field.Track1:
		return N("v1", A(b01(x.FixedLength)), hs(x.FormatCode), hs(x.PrimaryAccountNumber), hs(x.Name),
			A(expiryStr(x.ExpirationDate)), hs(x.ServiceCode), hs(x.DiscretionaryData))
	case *field.Track2:
		return N("v2", hs(x.PrimaryAccountNumber), hs(x.Separator), A(expiryStr(x.ExpirationDate)), hs(x.ServiceCode), hs(x.DiscretionaryData))
	case *field.Track3:
		return N("v3", hs(x.FormatCode), hs(x.PrimaryAccountNumber), hs(x.DiscretionaryData))
	}
	return A("?")
}

func unpackRes(f field.Field, data []byte) string {
	read, err := f.Unpack(data)
	if err != nil {
		return "err"
	}
	res := fmt.Sprintf("ok %s %d", TrackTree(f).String(), read)
	// the same components read out through Unmarshal into a new track value (and written back
	// through Marshal into another) - the copying accessors must agree with the fields
	var out, back field.Field
	switch f.(type) {
	case *field.Track1:
		out, back = &field.Track1{}, &field.Track1{}
	case *field.Track2:
		out, back = &field.Track2{}, &field.Track2{}
	case *field.Track3:
		out, back = &field.Track3{}, &field.Track3{}
	}
	if out != nil {
		if err := f.Unmarshal(out); err != nil || TrackTree(out).String() != TrackTree(f).String() {
			return res + " UNMARSHAL-DIFFERS " + TrackTree(out).String()
		}
		if err := back.Marshal(out); err != nil || TrackTree(back).String() != TrackTree(f).String() {
			return res + " MARSHAL-DIFFERS " + TrackTree(back).String()
		}
	}
	return res
}

// TrackRoundTrip evaluates the C01 statement for one track value on the implementation:
// Pack ok => Unpack(packed ++ tail) into a fresh object ok, consumes |packed|, the
// components equal `want` and packing the unpacked object gives the identical bytes.
// The expected components are the value itself with the Track2 separator defaulted.
func TrackRoundTrip(kind int, spec *field.Spec, v *Tree, tail []byte) (verdict string, detail string) {
	f := NewTrack(kind, spec)
	if !SetTrack(f, kind, v) {
		return "bad-op", ""
	}
	packed, err := f.Pack()
	if err != nil {
		return "vacuous", ""
	}
	want := v.String()
	if kind == 2 && v.Kids[1].Name == "-" {
		c := *v
		c.Kids = append([]*Tree{}, v.Kids...)
		c.Kids[1] = A("3d")
		want = c.String()
	}
	g := NewTrack(kind, spec)
	if kind == 1 {
		g.(*field.Track1).FixedLength = v.Kids[0].Name == "1"
	}
	read, err := g.Unpack(append(append([]byte{}, packed...), tail...))
	if err != nil {
		return "FAILS", fmt.Sprintf("packed %x is rejected: %v", packed, err)
	}
	if read != len(packed) {
		return "FAILS", fmt.Sprintf("packed %d bytes, Unpack consumed %d", len(packed), read)
	}
	if got := TrackTree(g).String(); got != want {
		return "FAILS", fmt.Sprintf("packed %x, unpacked %s, want %s", packed, got, want)
	}
	again, err := g.Pack()
	if err != nil || !bytes.Equal(again, packed) {
		return "FAILS", fmt.Sprintf("packed %x, re-packed %x (%v)", packed, again, err)
	}
	return "holds", ""
}

// RoundTripTail: the bytes that follow the packed field in a round-trip check (none for the
// None prefix, which takes everything that is left).
func RoundTripTail(specT *Tree) []byte {
	if len(specT.Kids) == 6 && specT.Kids[3].Name == "none" {
		return nil
	}
	return []byte{0x31, 0xFF}
}

// TrackMsgSpec is iso8583.Spec87 with the three track data elements (45, 35, 36) declared
// as Track1 / Track2 / Track3 fields over Spec87's own field specs.
var TrackMsgSpec = func() *iso8583.MessageSpec {
	s := &iso8583.MessageSpec{Name: "Spec87 with track fields", Fields: map[int]field.Field{}}
	for id, f := range iso8583.Spec87.Fields {
		s.Fields[id] = f
	}
	s.Fields[45] = field.NewTrack1(iso8583.Spec87.Fields[45].Spec())
	s.Fields[35] = field.NewTrack2(iso8583.Spec87.Fields[35].Spec())
	s.Fields[36] = field.NewTrack3(iso8583.Spec87.Fields[36].Spec())
	return s
}()

// TrackMsgIDs: data element of track kind k is TrackMsgIDs[k-1].
var TrackMsgIDs = [3]int{45, 35, 36}

type trackMsgData struct {
	MTI *field.String `index:"0"`
	F2  *field.String `index:"2"`
	F11 *field.String `index:"11"`
	F35 *field.Track2 `index:"35"`
	F36 *field.Track3 `index:"36"`
	F45 *field.Track1 `index:"45"`
	F70 *field.String `index:"70"`
}

// TrackMsgSet populates a message of TrackMsgSpec: MTI, fields 2, 11, 70 and the given
// track values (vs[k-1] for kind k; nil or "-" = absent).
func TrackMsgSet(m *iso8583.Message, vs [3]*Tree) bool {
	d := &trackMsgData{MTI: field.NewStringValue("0100"), F2: field.NewStringValue("4242424242424242"),
		F11: field.NewStringValue("123456"), F70: field.NewStringValue("301")}
	for k := 1; k <= 3; k++ {
		v := vs[k-1]
		if v == nil || v.Name == "-" {
			continue
		}
		val, ok := TrackValue(k, v)
		if !ok {
			return false
		}
		switch x := val.(type) {
		case *field.Track1:
			d.F45 = x
		case *field.Track2:
			d.F35 = x
		case *field.Track3:
			d.F36 = x
		}
	}
	return m.Marshal(d) == nil
}

// TrackMsgTree renders which track elements a message holds and their components,
// together with the other present ids.
func TrackMsgTree(m *iso8583.Message) *Tree {
	fields := m.GetFields()
	t := N("msg")
	for k := 1; k <= 3; k++ {
		if f, ok := fields[TrackMsgIDs[k-1]]; ok {
			t.Kids = append(t.Kids, TrackTree(f))
		} else {
			t.Kids = append(t.Kids, A("-"))
		}
	}
	other := ""
	for id := 0; id <= 128; id++ {
		if _, ok := fields[id]; ok && id != 35 && id != 36 && id != 45 {
			s, _ := m.GetString(id)
			other += fmt.Sprintf("%d=%s;", id, Hex([]byte(s)))
		}
	}
	t.Kids = append(t.Kids, A(other))
	return t
}

func msgUnpackRes(m *iso8583.Message, data []byte) string {
	if err := m.Unpack(data); err != nil {
		return "err"
	}
	return "ok " + TrackMsgTree(m).String()
}

func runYMsg(t []string) string {
	m := iso8583.NewMessage(TrackMsgSpec)
	switch {
	case t[2] == "pack" && len(t) == 6:
		var vs [3]*Tree
		for i := 0; i < 3; i++ {
			v, ok := ParseTree(t[3+i])
			if !ok {
				return "bad-op"
			}
			vs[i] = v
		}
		if !TrackMsgSet(m, vs) {
			return "bad-op"
		}
		out, err := m.Pack()
		if err != nil {
			return "err"
		}
		return "ok " + Hex(out)
	case t[2] == "unpack" && len(t) == 4:
		data, ok := UnHex(t[3])
		if !ok {
			return "bad-op"
		}
		return msgUnpackRes(m, data)
	case t[2] == "unpack2" && len(t) == 5:
		d1, ok1 := UnHex(t[3])
		d2, ok2 := UnHex(t[4])
		if !ok1 || !ok2 {
			return "bad-op"
		}
		first := "ok"
		if err := m.Unpack(d1); err != nil {
			first = "err"
		}
		return first + "; " + msgUnpackRes(m, d2)
	}
	return "bad-op"
}

func runY(t []string) string {
	if len(t) < 4 {
		return "bad-op"
	}
	if t[1] == "msg" {
		return runYMsg(t)
	}
	st, ok := ParseTree(t[1])
	if !ok {
		return "bad-op"
	}
	kind, spec, ok := TrackSpecOfTree(st)
	if !ok {
		return "bad-op"
	}
	f := NewTrack(kind, spec)
	switch {
	case t[2] == "pack" && len(t) == 4:
		vt, ok := ParseTree(t[3])
		if !ok || !SetTrack(f, kind, vt) {
			return "bad-op"
		}
		out, err := f.Pack()
		if err != nil {
			return "err"
		}
		return "ok " + Hex(out)
	case t[2] == "packobs" && len(t) == 4:
		// the read-only operations (Pack, String, Bytes, JSON encoding) leave the components alone
		vt, ok := ParseTree(t[3])
		if !ok || !SetTrack(f, kind, vt) {
			return "bad-op"
		}
		out, err := f.Pack()
		_, _ = f.String()
		_, _ = f.Bytes()
		_, _ = json.Marshal(f)
		res := "err"
		if err == nil {
			res = "ok " + Hex(out)
		}
		return res + " " + TrackTree(f).String()
	case t[2] == "unpack" && len(t) == 4:
		data, ok := UnHex(t[3])
		if !ok {
			return "bad-op"
		}
		return unpackRes(f, data)
	case t[2] == "unpack2" && len(t) == 5:
		d1, ok1 := UnHex(t[3])
		d2, ok2 := UnHex(t[4])
		if !ok1 || !ok2 {
			return "bad-op"
		}
		first := "ok"
		if _, err := f.Unpack(d1); err != nil {
			first = "err"
		}
		return first + "; " + unpackRes(f, d2)
	case t[2] == "setunpack" && len(t) == 5:
		vt, ok := ParseTree(t[3])
		data, ok2 := UnHex(t[4])
		if !ok || !ok2 || !SetTrack(f, kind, vt) {
			return "bad-op"
		}
		return unpackRes(f, data)
	case t[2] == "repack" && len(t) == 4:
		data, ok := UnHex(t[3])
		if !ok {
			return "bad-op"
		}
		if _, err := f.Unpack(data); err != nil {
			return "unpack-err"
		}
		out, err := f.Pack()
		if err != nil {
			return "err"
		}
		return "ok " + Hex(out)
	case t[2] == "cycle" && len(t) == 4:
		data, ok := UnHex(t[3])
		if !ok {
			return "bad-op"
		}
		if _, err := f.Unpack(data); err != nil {
			return "unpack-err"
		}
		out, err := f.Pack()
		if err != nil {
			return "pack-err"
		}
		return "ok " + Hex(out) + " -> " + unpackRes(NewTrack(kind, spec), out)
	case t[2] == "rt" && len(t) == 4:
		vt, ok := ParseTree(t[3])
		if !ok {
			return "bad-op"
		}
		verdict, _ := TrackRoundTrip(kind, spec, vt, RoundTripTail(st))
		return verdict
	case t[2] == "dom" && len(t) == 4:
		return "1"
	}
	return "bad-op"
}
