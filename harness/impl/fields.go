package impl

import (
	"bytes"
	"encoding/json"
	"fmt"
	"strconv"
	"strings"

	"errors"
	"github.com/moov-io/iso8583"
	iso8583errors "github.com/moov-io/iso8583/errors"
	"github.com/moov-io/iso8583/field"
)

func init() {
	extra["F"] = runF
	extra["M"] = runM
	extra["O"] = runO
	// K lines ask the Lean side whether a generated spec / value satisfies the Coherent /
	// InDomain predicates of Spec/Coherent.lean; the generators are coherent by
	// construction, so the expected answer is the constant "1"
	extra["K"] = func(t []string) string { return "1" }
}

func pathOf(err error) string {
	var ue *iso8583errors.UnpackError
	if !errors.As(err, &ue) {
		return ""
	}
	ids := ue.FieldIDs()
	for i, id := range ids {
		if id == "" {
			ids[i] = "~"
		} else {
			ids[i] = Hex([]byte(id))
		}
	}
	return strings.Join(ids, "/")
}

func runF(t []string) string {
	if len(t) == 5 && t[2] == "history" {
		st, ok := ParseTree(t[1])
		if !ok {
			return "bad-op"
		}
		return fieldHistory(st, t[3], t[4])
	}
	if len(t) != 4 {
		return "bad-op"
	}
	st, ok := ParseTree(t[1])
	if !ok {
		return "bad-op"
	}
	f, ok := FieldOfTree(st)
	if !ok {
		return "bad-op"
	}
	switch t[2] {
	case "unpack-many", "unpack-concurrently":
		// replay of the C04 oracle's S8 phases: a BER-TLV composite fed inputs with fresh tags
		return unpackMany(st, t[2], t[3])
	case "pack":
		vt, ok := ParseTree(t[3])
		if !ok || !SetValue(f, vt) {
			return "bad-op"
		}
		out, err := f.Pack()
		if err != nil {
			return "err"
		}
		return "ok " + Hex(out)
	case "unpack":
		data, ok := UnHex(t[3])
		if !ok {
			return "bad-op"
		}
		given := append([]byte{}, data...)
		read, err := f.Unpack(data)
		mod := ""
		if !bytes.Equal(given, data) {
			mod = " INPUT-MODIFIED" // the bytes belong to the caller; the model has no such outcome
		}
		if err != nil {
			return strings.TrimSpace("err "+pathOf(err)) + mod
		}
		return fmt.Sprintf("ok %s %d", ValueTree(f).String(), read) + mod
	}
	return "bad-op"
}

func runM(t []string) string {
	if len(t) != 4 {
		return "bad-op"
	}
	st, ok := ParseTree(t[1])
	if !ok {
		return "bad-op"
	}
	spec, ok := MsgSpecOfTree(st)
	if !ok {
		return "bad-op"
	}
	m := iso8583.NewMessage(spec)
	switch t[2] {
	case "pack":
		mt, ok := ParseTree(t[3])
		if !ok || !SetMsg(m, mt) {
			return "bad-op"
		}
		out, err := m.Pack()
		if err != nil {
			return "err"
		}
		return "ok " + Hex(out)
	case "unpack":
		data, ok := UnHex(t[3])
		if !ok {
			return "bad-op"
		}
		given := append([]byte{}, data...)
		err := m.Unpack(data)
		mod := ""
		if !bytes.Equal(given, data) {
			mod = " INPUT-MODIFIED"
		}
		if err != nil {
			return strings.TrimSpace("err "+pathOf(err)) + mod
		}
		return "ok " + MsgTree(m).String() + mod
	}
	return "bad-op"
}

func runO(t []string) string {
	if len(t) != 3 {
		return "bad-op"
	}
	s, ok := sorts[t[1]]
	if !ok {
		return "bad-op"
	}
	tags := strings.Split(t[2], ",")
	s(tags)
	return strings.Join(tags, ",")
}

var _ field.Field

// ManyBody: the k-th input of the C04 oracle's S8 phases: three unknown BER tags derived from k
// (3- and 4-byte tags), then the known tag 9A, behind a four-digit ASCII length
func ManyBody(k int) []byte {
	a, b, d := byte(1+k%127), byte((k/127)%128), byte((k/16129)%128)
	body := []byte{0xDF, 0x80 | a, b, 0x01, 0x11, 0xDF, 0x80 | a, 0x80 | b, d, 0x01, 0x22, 0xFF, 0x80 | b, a, 0x00, 0x9A, 0x03, 1, 2, 3}
	return append([]byte(fmt.Sprintf("%04d", len(body))), body...)
}

func unpackMany(st *Tree, op, arg string) string {
	if op == "unpack-many" {
		n, err := strconv.Atoi(arg)
		if err != nil || n < 0 || n > 2000000 {
			return "bad-op"
		}
		h0 := HeapInUse()
		for k := 0; k < n; k++ {
			f, _ := FieldOfTree(st)
			if _, err := f.Unpack(ManyBody(k)); err != nil {
				return "err"
			}
		}
		if grew := int64(HeapInUse()) - int64(h0); grew > 1<<20 {
			return fmt.Sprintf("ok retained-heap-grows %d", grew)
		}
		return "ok"
	}
	var workers, per int
	if _, err := fmt.Sscanf(arg, "%dx%d", &workers, &per); err != nil || workers < 1 || workers > 64 || per < 0 || per > 1000000 {
		return "bad-op"
	}
	done := make(chan string, workers)
	for w := 0; w < workers; w++ {
		go func(w int) {
			res := "ok"
			defer func() {
				if r := recover(); r != nil {
					res = "panic"
				}
				done <- res
			}()
			for k := 0; k < per; k++ {
				f, _ := FieldOfTree(st)
				if _, err := f.Unpack(ManyBody(1000000 + w*per + k)); err != nil {
					res = "err"
					return
				}
			}
		}(w)
	}
	out := "ok"
	for w := 0; w < workers; w++ {
		if r := <-done; r != "ok" {
			out = r
		}
	}
	return out
}

// FieldWriters: the ways a value gets into a primitive field (the last one is a no-op zero value)
var FieldWriters = []string{"setvalue", "setbytes", "unpack", "json", "marshal-field", "marshal-string", "marshal-bytes", "marshal-zero"}

// WriteThrough puts the value of src (which holds v) into f through the named writer; false = not applicable / refused
func WriteThrough(f, src field.Field, v *Tree, how string) bool {
	switch how {
	case "setvalue":
		return SetValue(f, v)
	case "setbytes":
		b, err := src.Bytes()
		return err == nil && f.SetBytes(b) == nil
	case "unpack":
		w, err := src.Pack()
		if err != nil {
			return false
		}
		_, err = f.Unpack(w)
		return err == nil
	case "json":
		js, err := json.Marshal(src)
		return err == nil && json.Unmarshal(js, f) == nil
	case "marshal-field":
		return f.Marshal(src) == nil
	case "marshal-string":
		s, err := src.String()
		return err == nil && f.Marshal(s) == nil
	case "marshal-bytes":
		b, err := src.Bytes()
		return err == nil && f.Marshal(b) == nil
	case "marshal-zero":
		var zs string
		return f.Marshal(zs) == nil || f.Marshal(&zs) == nil
	}
	return false
}

// fieldHistory: `F <spec> history <w1>:<v1> <w2>:<v2>` — two writes to one field object with a look at it
// in between, then Pack. "n/a" when a writer does not apply to the field kind.
func fieldHistory(st *Tree, a1, a2 string) string {
	parse := func(a string) (string, *Tree, bool) {
		w, vs, ok := strings.Cut(a, ":")
		if !ok {
			return "", nil, false
		}
		v, ok := ParseTree(vs)
		return w, v, ok
	}
	w1, v1, ok1 := parse(a1)
	w2, v2, ok2 := parse(a2)
	if !ok1 || !ok2 {
		return "bad-op"
	}
	s1, o1 := FieldOfTree(st)
	s2, o2 := FieldOfTree(st)
	f, o3 := FieldOfTree(st)
	if !o1 || !o2 || !o3 || !SetValue(s1, v1) || !SetValue(s2, v2) {
		return "bad-op"
	}
	if !WriteThrough(f, s1, v1, w1) {
		return "n/a"
	}
	_, _ = f.String()
	_, _ = f.Bytes()
	_, _ = json.Marshal(f)
	_, _ = f.Pack()
	if !WriteThrough(f, s2, v2, w2) {
		return "n/a"
	}
	out, err := f.Pack()
	if err != nil {
		return "err"
	}
	return "ok " + Hex(out)
}
