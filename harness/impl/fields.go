package impl

import (
	"bytes"
	"fmt"
	"strings"

	"errors"
	"github.com/moov-io/iso8583"
	iso8583errors "github.com/moov-io/iso8583/errors"
	"github.com/moov-io/iso8583/field"
)

func init() {
	extra["F"] = runF
	extra["M"] = runM
	extra["O"] = runO
	// K lines ask the Lean side whether a generated spec / value satisfies the Coherent /
	// InDomain predicates of Spec/Coherent.lean; the generators are coherent by
	// construction, so the expected answer is the constant "1"
	extra["K"] = func(t []string) string { return "1" }
}

func pathOf(err error) string {
	var ue *iso8583errors.UnpackError
	if !errors.As(err, &ue) {
		return ""
	}
	ids := ue.FieldIDs()
	for i, id := range ids {
		if id == "" {
			ids[i] = "~"
		} else {
			ids[i] = Hex([]byte(id))
		}
	}
	return strings.Join(ids, "/")
}

func runF(t []string) string {
	if len(t) != 4 {
		return "bad-op"
	}
	st, ok := ParseTree(t[1])
	if !ok {
		return "bad-op"
	}
	f, ok := FieldOfTree(st)
	if !ok {
		return "bad-op"
	}
	switch t[2] {
	case "pack":
		vt, ok := ParseTree(t[3])
		if !ok || !SetValue(f, vt) {
			return "bad-op"
		}
		out, err := f.Pack()
		if err != nil {
			return "err"
		}
		return "ok " + Hex(out)
	case "unpack":
		data, ok := UnHex(t[3])
		if !ok {
			return "bad-op"
		}
		given := append([]byte{}, data...)
		read, err := f.Unpack(data)
		mod := ""
		if !bytes.Equal(given, data) {
			mod = " INPUT-MODIFIED" // the bytes belong to the caller; the model has no such outcome
		}
		if err != nil {
			return strings.TrimSpace("err "+pathOf(err)) + mod
		}
		return fmt.Sprintf("ok %s %d", ValueTree(f).String(), read) + mod
	}
	return "bad-op"
}

func runM(t []string) string {
	if len(t) != 4 {
		return "bad-op"
	}
	st, ok := ParseTree(t[1])
	if !ok {
		return "bad-op"
	}
	spec, ok := MsgSpecOfTree(st)
	if !ok {
		return "bad-op"
	}
	m := iso8583.NewMessage(spec)
	switch t[2] {
	case "pack":
		mt, ok := ParseTree(t[3])
		if !ok || !SetMsg(m, mt) {
			return "bad-op"
		}
		out, err := m.Pack()
		if err != nil {
			return "err"
		}
		return "ok " + Hex(out)
	case "unpack":
		data, ok := UnHex(t[3])
		if !ok {
			return "bad-op"
		}
		given := append([]byte{}, data...)
		err := m.Unpack(data)
		mod := ""
		if !bytes.Equal(given, data) {
			mod = " INPUT-MODIFIED"
		}
		if err != nil {
			return strings.TrimSpace("err "+pathOf(err)) + mod
		}
		return "ok " + MsgTree(m).String() + mod
	}
	return "bad-op"
}

func runO(t []string) string {
	if len(t) != 3 {
		return "bad-op"
	}
	s, ok := sorts[t[1]]
	if !ok {
		return "bad-op"
	}
	tags := strings.Split(t[2], ",")
	s(tags)
	return strings.Join(tags, ",")
}

var _ field.Field
