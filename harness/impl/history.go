package impl

import (
	"bytes"
	"encoding/json"
	"fmt"
	"hash/fnv"
	"sort"
	"strconv"
	"strings"

	"github.com/moov-io/iso8583"
	"github.com/moov-io/iso8583/encoding"
	"github.com/moov-io/iso8583/field"
	"github.com/moov-io/iso8583/prefix"
)

// Channel H: operation histories on one message object (and on its clone).
//
//	H  <msgspec> <op;op;…>   result and observation after every op
//	Hl <msgspec> <op;op;…>   result and observation after the last op only
//
// See lean/Iso8583/Drivers/History.lean for the op syntax. The observation (GetFields
// keys, values, Pack, JSON) is taken on a *replay* of the history prefix, because Pack and
// MarshalJSON themselves change the message (they mark the bitmap field as set).

func init() {
	extra["H"] = func(t []string) string { return runH(t, false) }
	extra["Hl"] = func(t []string) string { return runH(t, true) }
	// Hh: like Hl, reported as the FNV-1a hash of the text (big exhaustive sweeps)
	extra["Hh"] = func(t []string) string {
		r := runH(t, true)
		if r == "bad-op" {
			return r
		}
		h := fnv.New64a()
		h.Write([]byte(r))
		return fmt.Sprintf("h=%016x", h.Sum64())
	}
	extra["TK"] = runTK
}

// TK <Track1|Track2|Track3> <wire1> <wire2> [#note]: a track field (ASCII, LL prefix) unpacks
// wire1 and then wire2; the result says whether it then equals a new field that unpacked
// wire2 only (tracks are not part of the Lean model; this channel serves the C10 oracle).
func runTK(t []string) string {
	if len(t) < 4 {
		return "bad-op"
	}
	spec := func() *field.Spec {
		return &field.Spec{Length: 99, Description: "t", Enc: encoding.ASCII, Pref: prefix.ASCII.LL}
	}
	mk := func() field.Field {
		switch t[1] {
		case "Track1":
			return field.NewTrack1(spec())
		case "Track2":
			return field.NewTrack2(spec())
		case "Track3":
			return field.NewTrack3(spec())
		}
		return nil
	}
	w1, ok1 := UnHex(t[2])
	w2, ok2 := UnHex(t[3])
	used, fresh := mk(), mk()
	if !ok1 || !ok2 || used == nil {
		return "bad-op"
	}
	if _, err := used.Unpack(w1); err != nil {
		return "err"
	}
	n1, e1 := used.Unpack(w2)
	n2, e2 := fresh.Unpack(w2)
	if (e1 == nil) != (e2 == nil) || n1 != n2 {
		return fmt.Sprintf("differs used=%d,%v new=%d,%v", n1, e1 == nil, n2, e2 == nil)
	}
	if e1 != nil {
		return "err"
	}
	j1, _ := json.Marshal(used)
	j2, _ := json.Marshal(fresh)
	if string(j1) != string(j2) {
		return "differs used=" + strings.ReplaceAll(string(j1), " ", "") + " new=" + strings.ReplaceAll(string(j2), " ", "")
	}
	return "same"
}

// HFixedSpec is the spec of the exhaustive sweeps (String 2, Numeric 3, composite 55 {0a,0b},
// composite 60 {n1 {x, y, d {u, v}}, p1}: three composites nested in each other, String 66); protocol lines may write it as "@".
const HFixedSpec = "m(p(s,4,ascii,ascii.F,nil,d),bm(8,binary,binary.F,1)," +
	"f(2,p(s,19,ascii,ascii.2,nil,d))," +
	"f(3,p(n,6,ascii,ascii.F,L30,d))," +
	"f(55,c(99,ascii.2,t(2,ascii,nil,str,0,-),sub(0a,p(s,9,ascii,ascii.2,nil,d)),sub(0b,p(n,4,ascii,ascii.1,nil,d))))," +
	"f(60,c(99,ascii.3,t(2,ascii,nil,str,0,-),sub(n1,c(60,ascii.2,t(1,ascii,nil,str,0,-),sub(x,p(s,9,ascii,ascii.1,nil,d)),sub(y,p(s,9,ascii,ascii.1,nil,d)),sub(d,c(30,ascii.2,t(1,ascii,nil,str,0,-),sub(u,p(s,9,ascii,ascii.1,nil,d)),sub(v,p(s,9,ascii,ascii.1,nil,d)))))),sub(p1,p(s,5,ascii,ascii.1,nil,d))))," +
	"f(66,p(s,5,ascii,ascii.1,nil,d)))"

// HState is the pair of messages a history works on.
type HState struct {
	Cur   *iso8583.Message
	Other *iso8583.Message
	// byte slices the library handed out (Pack results) and what they held at that moment: once
	// returned they belong to the caller, no later operation may change them
	handed [][]byte
	copies [][]byte
}

func (st *HState) keep(b []byte) {
	st.handed = append(st.handed, b)
	st.copies = append(st.copies, append([]byte{}, b...))
}

// Changed reports the first handed-out slice whose content differs from what it was when it was
// returned (-1: none).
func (st *HState) Changed() int {
	for i := range st.handed {
		if !bytes.Equal(st.handed[i], st.copies[i]) {
			return i
		}
	}
	return -1
}

func guard(f func() string) (res string) {
	defer func() {
		if r := recover(); r != nil {
			res = "panic"
		}
	}()
	return f()
}

func errStr(err error) string {
	if err != nil {
		return "err"
	}
	return "ok"
}

// ShapeOK mirrors Field.shapeOK of the model: kinds match, tags are spec tags, no tag twice.
func ShapeOK(f field.Field, v *Tree) bool {
	switch x := f.(type) {
	case *field.String:
		return v.Name == "s" && len(v.Kids) == 1
	case *field.Numeric:
		return v.Name == "n" && len(v.Kids) == 1
	case *field.Binary:
		return v.Name == "b" && len(v.Kids) == 1
	case *field.Hex:
		return v.Name == "h" && len(v.Kids) == 1
	case *field.Composite:
		if v.Name != "c" && v.Name != "c()" {
			return false
		}
		seen := map[string]bool{}
		for _, kv := range v.Kids {
			if kv.Name != "kv" || len(kv.Kids) != 2 {
				return false
			}
			tag := kv.Kids[0].Name
			sf, ok := x.Spec().Subfields[tag]
			if !ok || seen[tag] {
				return false
			}
			seen[tag] = true
			if !ShapeOK(sf, kv.Kids[1]) {
				return false
			}
		}
		return true
	}
	return false
}

// JSONOfValue renders a value tree as the JSON text MarshalJSON would produce for it.
func JSONOfValue(v *Tree) (string, bool) {
	switch v.Name {
	case "s", "h":
		b, ok := UnHex(v.Kids[0].Name)
		if !ok {
			return "", false
		}
		out, err := json.Marshal(string(b))
		return string(out), err == nil
	case "b":
		b, ok := UnHex(v.Kids[0].Name)
		if !ok {
			return "", false
		}
		return `"` + strings.ToUpper(fmt.Sprintf("%x", b)) + `"`, true
	case "n":
		// the canonical literal of the integer ("-012" is not JSON)
		i, err := strconv.ParseInt(v.Kids[0].Name, 10, 64)
		if err != nil {
			return "", false
		}
		return strconv.FormatInt(i, 10), true
	case "c", "c()":
		parts := []string{}
		for _, kv := range v.Kids {
			if kv.Name != "kv" || len(kv.Kids) != 2 {
				return "", false
			}
			s, ok := JSONOfValue(kv.Kids[1])
			if !ok {
				return "", false
			}
			parts = append(parts, fmt.Sprintf("%q:%s", kv.Kids[0].Name, s))
		}
		return "{" + strings.Join(parts, ",") + "}", true
	}
	return "", false
}

// MarshalOne calls Message.Marshal with a struct holding the single field `id`.
func MarshalOne(m *iso8583.Message, id int, v *Tree) string {
	f, ok := m.GetSpec().Fields[id]
	if !ok || !ShapeOK(f, v) {
		return "err" // not expressible as a Go struct for this spec
	}
	specs := map[string]field.Field{strconv.Itoa(id): f}
	ptr, ok := structFor(specs, []*Tree{N("f", A(strconv.Itoa(id)), v)}, "f")
	if !ok {
		return "err"
	}
	return errStr(m.Marshal(ptr.Interface()))
}

func jsonDecode(m *iso8583.Message, doc *Tree) string {
	if doc.Name != "doc" {
		return "bad-op"
	}
	parts := []string{}
	for _, kv := range doc.Kids {
		if kv.Name != "f" || len(kv.Kids) != 2 {
			return "bad-op"
		}
		id, err := strconv.Atoi(kv.Kids[0].Name)
		if err != nil {
			return "bad-op"
		}
		if f, ok := m.GetSpec().Fields[id]; ok && id != 1 && !ShapeOK(f, kv.Kids[1]) {
			return "err"
		}
		if id == 1 && kv.Kids[1].Name != "b" {
			return "err"
		}
		s, ok := JSONOfValue(kv.Kids[1])
		if !ok {
			return "bad-op"
		}
		parts = append(parts, fmt.Sprintf("%q:%s", kv.Kids[0].Name, s))
	}
	return errStr(m.UnmarshalJSON([]byte("{" + strings.Join(parts, ",") + "}")))
}

// CanonJSON re-serialises JSON text in the tree form of the model (document order kept).
func CanonJSON(text []byte) string {
	dec := json.NewDecoder(bytes.NewReader(text))
	dec.UseNumber()
	nonASCII := false
	var val func() (string, bool)
	val = func() (string, bool) {
		tok, err := dec.Token()
		if err != nil {
			return "", false
		}
		switch x := tok.(type) {
		case json.Delim:
			if x != '{' {
				return "", false
			}
			var kids []string
			for dec.More() {
				kt, err := dec.Token()
				if err != nil {
					return "", false
				}
				k, ok := kt.(string)
				if !ok {
					return "", false
				}
				v, ok := val()
				if !ok {
					return "", false
				}
				kids = append(kids, "k("+Hex([]byte(k))+","+v+")")
			}
			if _, err := dec.Token(); err != nil {
				return "", false
			}
			if len(kids) == 0 {
				return "j()", true
			}
			return "j(" + strings.Join(kids, ",") + ")", true
		case string:
			for _, r := range x {
				if r >= 0x80 {
					nonASCII = true
				}
			}
			return "s(" + Hex([]byte(x)) + ")", true
		case json.Number:
			return "n(" + x.String() + ")", true
		}
		return "", false
	}
	s, ok := val()
	if !ok {
		return "unparsable"
	}
	if nonASCII {
		return "nonascii"
	}
	return s
}

func idsOf(m *iso8583.Message) string {
	fs := m.GetFields()
	ids := make([]int, 0, len(fs))
	for id := range fs {
		ids = append(ids, id)
	}
	sort.Ints(ids)
	if len(ids) == 0 {
		return "-"
	}
	parts := make([]string, len(ids))
	for i, id := range ids {
		parts[i] = strconv.Itoa(id)
	}
	return strings.Join(parts, ",")
}

// Observe reads the four observables of a message. It disturbs the message (Pack and
// MarshalJSON mark the bitmap field), so callers observe a replayed copy.
func Observe(m *iso8583.Message) string {
	ids := guard(func() string { return idsOf(m) })
	vals := guard(func() string { return MsgTree(m).String() })
	pack := guard(func() string {
		b, err := m.Pack()
		if err != nil {
			return "err"
		}
		return "ok:" + Hex(b)
	})
	js := guard(func() string {
		b, err := json.Marshal(m)
		if err != nil {
			return "err"
		}
		return CanonJSON(b)
	})
	return "I=" + ids + " V=" + vals + " P=" + pack + " J=" + js
}

// DescribeSummary extracts the bitmap line and the top-level field ids from Describe's text.
func DescribeSummary(m *iso8583.Message, bitmapOnly bool) string {
	var buf bytes.Buffer
	if err := iso8583.Describe(m, &buf, iso8583.DoNotFilterFields()...); err != nil {
		return "err"
	}
	bm := "?"
	var ids []string
	depth := 0
	for _, l := range strings.Split(buf.String(), "\n") {
		switch {
		case strings.HasPrefix(l, "Bitmap HEX") && bm == "?" && depth == 0:
			if i := strings.LastIndex(l, ": "); i >= 0 {
				bm = strings.ToLower(l[i+2:])
				if bm == "" {
					bm = "-"
				}
			}
		case l == strings.Repeat("-", 43):
			depth++
		case l == strings.Repeat("-", 42):
			depth--
		case depth == 0 && strings.HasPrefix(l, "F"):
			f := strings.Fields(l[1:])
			if len(f) > 0 {
				ids = append(ids, f[0])
			}
		}
	}
	if bitmapOnly {
		return "bm=" + bm
	}
	if len(ids) == 0 {
		return "bm=" + bm + ",F=-"
	}
	return "bm=" + bm + ",F=" + strings.Join(ids, ".")
}

// ApplyOp executes one op token on the state and returns the op's canonical result.
func ApplyOp(st *HState, op string) string {
	p := strings.SplitN(op, ":", 3)
	m := st.Cur
	num := func(s string) (int, bool) {
		n, err := strconv.Atoi(s)
		return n, err == nil && n >= 0
	}
	switch {
	case op == "pack":
		return guard(func() string {
			b, err := m.Pack()
			if err != nil {
				return "err"
			}
			st.keep(b)
			return "ok:" + Hex(b)
		})
	case op == "ids":
		return guard(func() string { return "ids=" + idsOf(m) })
	case op == "json":
		return guard(func() string {
			b, err := json.Marshal(m)
			if err != nil {
				return "err"
			}
			return CanonJSON(b)
		})
	case op == "clone":
		return guard(func() string {
			c, err := m.Clone()
			if err != nil {
				return "err"
			}
			st.Other, st.Cur = m, c
			return "ok"
		})
	case op == "swap":
		if st.Other == nil {
			return "noswap"
		}
		st.Cur, st.Other = st.Other, st.Cur
		return "-"
	case op == "desc":
		return guard(func() string { return DescribeSummary(m, false) })
	case op == "descb":
		return guard(func() string { return DescribeSummary(m, true) })
	case p[0] == "mti" && len(p) == 2:
		b, ok := UnHex(p[1])
		if !ok {
			return "bad-op"
		}
		return guard(func() string { m.MTI(string(b)); return "-" })
	case p[0] == "upk" && len(p) == 2:
		b, ok := UnHex(p[1])
		if !ok {
			return "bad-op"
		}
		return guard(func() string { return errStr(m.Unpack(b)) })
	case p[0] == "unf" && len(p) == 2:
		id, ok := num(p[1])
		if !ok {
			return "bad-op"
		}
		return guard(func() string { m.UnsetField(id); return "-" })
	case p[0] == "set" && len(p) == 3:
		id, ok := num(p[1])
		b, ok2 := UnHex(p[2])
		if !ok || !ok2 {
			return "bad-op"
		}
		return guard(func() string {
			if len(b)%2 == 0 {
				return errStr(m.BinaryField(id, b))
			}
			return errStr(m.Field(id, string(b)))
		})
	case p[0] == "ups" && len(p) == 3:
		id, ok := num(p[1])
		b, ok2 := UnHex(p[2])
		if !ok || !ok2 {
			return "bad-op"
		}
		path := strconv.Itoa(id)
		if len(b) > 0 {
			path += "." + string(b)
		}
		return guard(func() string { return errStr(m.UnsetFields(path)) })
	case p[0] == "upm" && strings.Count(op, ":") >= 2 && strings.Count(op, ":")%2 == 0:
		// one UnsetFields call with several paths: upm:<id>:<hex path below id>:<id>:<hex>…
		var paths []string
		q := strings.Split(op, ":")
		for k := 1; k+1 < len(q); k += 2 {
			id, ok := num(q[k])
			b, ok2 := UnHex(q[k+1])
			if !ok || !ok2 {
				return "bad-op"
			}
			path := strconv.Itoa(id)
			if len(b) > 0 {
				path += "." + string(b)
			}
			paths = append(paths, path)
		}
		return guard(func() string { return errStr(m.UnsetFields(paths...)) })
	case p[0] == "usb" && len(p) == 3:
		// the caller unsets a subfield on the composite object itself
		id, ok := num(p[1])
		b, ok2 := UnHex(p[2])
		if !ok || !ok2 {
			return "bad-op"
		}
		return guard(func() string {
			c, isComp := m.GetField(id).(*field.Composite)
			if !isComp {
				return "err"
			}
			c.UnsetSubfield(string(b))
			return "ok"
		})
	case p[0] == "mar" && len(p) == 3:
		id, ok := num(p[1])
		v, ok2 := ParseTree(p[2])
		if !ok || !ok2 {
			return "bad-op"
		}
		return guard(func() string { return MarshalOne(m, id, v) })
	case p[0] == "jd" && len(p) == 2:
		d, ok := ParseTree(p[1])
		if !ok {
			return "bad-op"
		}
		return guard(func() string { return jsonDecode(m, d) })
	}
	return "bad-op"
}

// Replay runs ops on a new message of the spec.
func Replay(spec *iso8583.MessageSpec, ops []string) (*HState, string) {
	st := &HState{Cur: iso8583.NewMessage(spec)}
	last := ""
	for _, op := range ops {
		last = ApplyOp(st, op)
	}
	return st, last
}

func runH(t []string, lastOnly bool) string {
	// an optional 4th token (#note) is a comment
	if len(t) != 3 && !(len(t) == 4 && strings.HasPrefix(t[3], "#")) {
		return "bad-op"
	}
	specS := t[1]
	if specS == "@" {
		specS = HFixedSpec
	}
	st, ok := ParseTree(specS)
	if !ok {
		return "bad-op"
	}
	spec, ok := MsgSpecOfTree(st)
	if !ok {
		return "bad-op"
	}
	ops := strings.Split(t[2], ";")
	var out []string
	for k := 1; k <= len(ops); k++ {
		if lastOnly && k != len(ops) {
			continue
		}
		s, last := Replay(spec, ops[:k])
		if last == "bad-op" {
			return "bad-op"
		}
		line := last + " " + Observe(s.Cur)
		if s.Other != nil {
			line += " || " + Observe(s.Other)
		}
		if i := s.Changed(); i >= 0 {
			// the model has no such outcome: results are values there
			line += fmt.Sprintf(" RESULT-%d-OF-AN-EARLIER-PACK-CHANGED", i)
		}
		out = append(out, line)
	}
	return strings.Join(out, " ; ")
}
