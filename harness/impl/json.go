package impl

import (
	"bytes"
	"encoding/json"
	"regexp"

	"github.com/moov-io/iso8583"
)

// Channel J: JSON encoding of messages (property C12). Line syntax in
// lean/Iso8583/Drivers/Json.lean.

func init() {
	extra["J"] = runJ
}

var intRe = regexp.MustCompile(`^-?(0|[1-9][0-9]*)$`)

// JSONTree parses a document with encoding/json into the ordered tree form
// o(kv(<hex key>,<json>)…) | s(<hex>) | n(<int>) | x. Member order is preserved.
func JSONTree(doc []byte) (*Tree, bool) {
	dec := json.NewDecoder(bytes.NewReader(doc))
	dec.UseNumber()
	t, ok := readJSONValue(dec)
	if !ok {
		return nil, false
	}
	if _, err := dec.Token(); err == nil { // trailing data
		return nil, false
	}
	return t, true
}

func readJSONValue(dec *json.Decoder) (*Tree, bool) {
	tok, err := dec.Token()
	if err != nil {
		return nil, false
	}
	switch v := tok.(type) {
	case json.Delim:
		switch v {
		case '{':
			t := N("o")
			for dec.More() {
				kt, err := dec.Token()
				if err != nil {
					return nil, false
				}
				k, isStr := kt.(string)
				if !isStr {
					return nil, false
				}
				val, ok := readJSONValue(dec)
				if !ok {
					return nil, false
				}
				t.Kids = append(t.Kids, N("kv", A(Hex([]byte(k))), val))
			}
			if _, err := dec.Token(); err != nil {
				return nil, false
			}
			if len(t.Kids) == 0 {
				return A("o()"), true
			}
			return t, true
		case '[':
			for dec.More() {
				if _, ok := readJSONValue(dec); !ok {
					return nil, false
				}
			}
			if _, err := dec.Token(); err != nil {
				return nil, false
			}
			return A("x"), true
		}
		return nil, false
	case string:
		return N("s", A(Hex([]byte(v)))), true
	case json.Number:
		if intRe.MatchString(v.String()) {
			return N("n", A(v.String())), true
		}
		return A("x"), true
	}
	return A("x"), true
}

// JSONText renders a tree as a JSON document (strings and keys through encoding/json).
func JSONText(t *Tree) ([]byte, bool) {
	var buf bytes.Buffer
	if !writeJSON(&buf, t) {
		return nil, false
	}
	return buf.Bytes(), true
}

func writeJSON(buf *bytes.Buffer, t *Tree) bool {
	switch t.Name {
	case "s":
		if len(t.Kids) != 1 {
			return false
		}
		b, ok := UnHex(t.Kids[0].Name)
		if !ok {
			return false
		}
		lit, err := json.Marshal(string(b))
		if err != nil {
			return false
		}
		buf.Write(lit)
	case "n":
		if len(t.Kids) != 1 || !intRe.MatchString(t.Kids[0].Name) {
			return false
		}
		buf.WriteString(t.Kids[0].Name)
	case "x":
		buf.WriteString("true")
	case "o", "o()":
		buf.WriteByte('{')
		for i, kv := range t.Kids {
			if kv.Name != "kv" || len(kv.Kids) != 2 {
				return false
			}
			k, ok := UnHex(kv.Kids[0].Name)
			if !ok {
				return false
			}
			lit, err := json.Marshal(string(k))
			if err != nil {
				return false
			}
			if i > 0 {
				buf.WriteByte(',')
			}
			buf.Write(lit)
			buf.WriteByte(':')
			if !writeJSON(buf, kv.Kids[1]) {
				return false
			}
		}
		buf.WriteByte('}')
	default:
		return false
	}
	return true
}

func bitmapFlag(m *iso8583.Message) string {
	if _, ok := m.GetFields()[1]; ok {
		return " b1"
	}
	return " b0"
}

func runJ(t []string) string {
	if len(t) != 4 {
		return "bad-op"
	}
	st, ok := ParseTree(t[1])
	if !ok {
		return "bad-op"
	}
	spec, ok := MsgSpecOfTree(st)
	if !ok {
		return "bad-op"
	}
	arg, ok := ParseTree(t[3])
	if !ok {
		return "bad-op"
	}
	switch t[2] {
	case "dom":
		// the generator claims that the message is in the domain of the JSON theorems
		// (Spec/JsonDomain.lean); the Lean side evaluates the predicate
		return "1"
	case "marshal", "rt":
		m := iso8583.NewMessage(spec)
		if !SetMsg(m, arg) {
			return "bad-op"
		}
		doc, err := json.Marshal(m)
		if err != nil {
			if t[2] == "rt" {
				return "err marshal"
			}
			return "err"
		}
		if t[2] == "marshal" {
			tree, ok := JSONTree(doc)
			if !ok || !json.Valid(doc) {
				return "invalid-json " + Hex(doc)
			}
			return "ok " + tree.String()
		}
		m2 := iso8583.NewMessage(spec)
		if err := json.Unmarshal(doc, m2); err != nil {
			return "err unmarshal"
		}
		res := "ok " + MsgTree(m2).String() + bitmapFlag(m2) + " "
		packed, err := m2.Pack()
		if err != nil {
			return res + "err"
		}
		return res + Hex(packed)
	case "unmarshal":
		doc, ok := JSONText(arg)
		if !ok {
			return "bad-op"
		}
		m := iso8583.NewMessage(spec)
		if err := json.Unmarshal(doc, m); err != nil {
			return "err"
		}
		return "ok " + MsgTree(m).String() + bitmapFlag(m)
	}
	return "bad-op"
}
