package impl

// Channel W (property C04): any protocol line run under a watchdog, plus the decoding
// entry points the other channels do not have (SetBytes, JSON decoding, shipped specs).
//
//	W <ms> <any protocol line>                → that line's result | hang
//	W <ms> F <field-spec> setbytes <hex>      → ok <canon value> | err [<path>] | panic | hang
//	W <ms> F <field-spec> bytes <value>       → ok <hex> | err          (Composite.Bytes / Field.Bytes)
//	W <ms> F <field-spec> json <hex of doc>   → ok <canon value> | err | panic | hang
//	W <ms> M <msg-spec> json <hex of doc>     → ok <canon content> | err | panic | hang
//	W <ms> X <shipped> unpack <hex>           → ok | err [<path>] | panic | hang
//	W <ms> X <shipped> json <hex of doc>      → ok | err | panic | hang
//	W <ms> A <MiB> <any of the above>         → under | over  (heap bytes allocated by the call vs. the limit) | panic | hang
//
// A hanging call keeps its goroutine (it can not be killed); the caller only learns
// "hang" and goes on.

import (
	"encoding/json"
	"fmt"
	"runtime/metrics"
	"strconv"
	"strings"
	"time"

	"github.com/moov-io/iso8583"
	"github.com/moov-io/iso8583/encoding"
	"github.com/moov-io/iso8583/examples"
	"github.com/moov-io/iso8583/exp/emv"
	"github.com/moov-io/iso8583/field"
	"github.com/moov-io/iso8583/prefix"
	"github.com/moov-io/iso8583/sort"
	"github.com/moov-io/iso8583/specs"
)

func init() { extra["W"] = runW }

// ShippedNames lists the message specs that ship with the library.
var ShippedNames = []string{"spec87", "spec87ascii", "spec87hex", "examples", "emv"}

func Shipped(name string) *iso8583.MessageSpec {
	switch name {
	case "spec87":
		return iso8583.Spec87
	case "spec87ascii":
		return specs.Spec87ASCII
	case "spec87hex":
		return specs.Spec87Hex
	case "examples":
		return examples.Spec
	case "emv":
		return emv.MessageSpec
	}
	return nil
}

// Watch runs f in its own goroutine under recover and a wall-clock limit.
// outcome: "" (returned), "panic" (+ message), "hang".
func Watch(limit time.Duration, f func() string) (res string, outcome string, msg string) {
	type out struct{ res, outcome, msg string }
	done := make(chan out, 1)
	go func() {
		defer func() {
			if x := recover(); x != nil {
				done <- out{"", "panic", fmt.Sprint(x)}
			}
		}()
		done <- out{f(), "", ""}
	}()
	timer := time.NewTimer(limit)
	defer timer.Stop()
	select {
	case o := <-done:
		return o.res, o.outcome, o.msg
	case <-timer.C:
		return "", "hang", ""
	}
}

func runW(t []string) string {
	if len(t) < 4 {
		return "bad-op"
	}
	ms, err := strconv.Atoi(t[1])
	if err != nil || ms <= 0 {
		return "bad-op"
	}
	limit := time.Duration(ms) * time.Millisecond
	if l := RunLimit(); l < limit {
		limit = l // several calls hang already: do not wait the full limit for every further one
	}
	res, outcome, _ := Watch(limit, func() string { return RunInner(t[2:]) })
	if outcome == "hang" {
		hangs.Add(1)
	}
	if outcome != "" {
		return outcome
	}
	return res
}

var allocSample = []metrics.Sample{{Name: "/gc/heap/allocs:bytes"}}

// AllocatedBytes: cumulative heap bytes allocated by the process (the runtime/metrics
// form of MemStats.TotalAlloc, read without stopping the world).
func AllocatedBytes() uint64 {
	metrics.Read(allocSample)
	if allocSample[0].Value.Kind() != metrics.KindUint64 {
		return 0
	}
	return allocSample[0].Value.Uint64()
}

// RunInner executes the line behind `W <ms>`; panics propagate to the caller.
func RunInner(t []string) string {
	switch {
	case t[0] == "A" && len(t) > 3:
		mib, err := strconv.Atoi(t[1])
		if err != nil || mib <= 0 {
			return "bad-op"
		}
		a0 := AllocatedBytes()
		if RunInner(t[2:]) == "bad-op" {
			return "bad-op"
		}
		if AllocatedBytes()-a0 > uint64(mib)<<20 {
			return "over"
		}
		return "under"
	case t[0] == "F" && len(t) == 4 && (t[2] == "setbytes" || t[2] == "json" || t[2] == "bytes"):
		st, ok := ParseTree(t[1])
		if !ok {
			return "bad-op"
		}
		f, ok := FieldOfTree(st)
		if !ok {
			return "bad-op"
		}
		if t[2] == "bytes" {
			vt, ok := ParseTree(t[3])
			if !ok || !SetValue(f, vt) {
				return "bad-op"
			}
			out, err := f.Bytes()
			if err != nil {
				return "err"
			}
			return "ok " + Hex(out)
		}
		data, ok := UnHex(t[3])
		if !ok {
			return "bad-op"
		}
		if t[2] == "setbytes" {
			if err := f.SetBytes(data); err != nil {
				return strings.TrimSpace("err " + pathOf(err))
			}
			return "ok " + ValueTree(f).String()
		}
		if err := json.Unmarshal(data, f); err != nil {
			return "err"
		}
		return "ok " + ValueTree(f).String()
	case t[0] == "U" && len(t) == 4 && t[2] == "ujson":
		// UnmarshalJSON of a field object called DIRECTLY (not through encoding/json, which validates the
		// document first): U <kind> ujson <hex>
		f := DirectJSONTarget(t[1])
		data, ok := UnHex(t[3])
		if f == nil || !ok {
			return "bad-op"
		}
		if err := f.UnmarshalJSON(data); err != nil {
			return "err"
		}
		return "ok"
	case t[0] == "M" && len(t) == 4 && t[2] == "json":
		st, ok := ParseTree(t[1])
		if !ok {
			return "bad-op"
		}
		spec, ok := MsgSpecOfTree(st)
		data, ok2 := UnHex(t[3])
		if !ok || !ok2 {
			return "bad-op"
		}
		m := iso8583.NewMessage(spec)
		if err := json.Unmarshal(data, m); err != nil {
			return "err"
		}
		return "ok " + MsgTree(m).String()
	case t[0] == "M" && len(t) == 4 && t[2] == "seq":
		// several decoding calls on ONE message object: u:<hex> = Unpack, j:<hex of doc> = JSON
		// decode, p = Pack (between decodes, as an application that forwards a message does)
		st, ok := ParseTree(t[1])
		if !ok {
			return "bad-op"
		}
		spec, ok := MsgSpecOfTree(st)
		if !ok {
			return "bad-op"
		}
		m := iso8583.NewMessage(spec)
		var outs []string
		for _, step := range strings.Split(t[3], ";") {
			switch {
			case step == "p":
				if _, err := m.Pack(); err != nil {
					outs = append(outs, "err")
				} else {
					outs = append(outs, "ok")
				}
			case strings.HasPrefix(step, "u:") || strings.HasPrefix(step, "j:"):
				data, ok := UnHex(step[2:])
				if !ok {
					return "bad-op"
				}
				var err error
				if step[0] == 'u' {
					err = m.Unpack(data)
				} else {
					err = json.Unmarshal(data, m)
				}
				if err != nil {
					outs = append(outs, "err")
				} else {
					outs = append(outs, "ok")
				}
			default:
				return "bad-op"
			}
		}
		return "ok " + strings.Join(outs, ",")
	case t[0] == "X" && len(t) == 4:
		spec := Shipped(t[1])
		data, ok := UnHex(t[3])
		if spec == nil || !ok {
			return "bad-op"
		}
		m := iso8583.NewMessage(spec)
		switch t[2] {
		case "unpack":
			if err := m.Unpack(data); err != nil {
				return strings.TrimSpace("err " + pathOf(err))
			}
			return "ok"
		case "json":
			if err := json.Unmarshal(data, m); err != nil {
				return "err"
			}
			return "ok"
		}
		return "bad-op"
	}
	// any other protocol line: let its panic reach the watchdog's recover
	line := strings.Join(t, " ")
	switch t[0] {
	case "E":
		return runE(t)
	case "P":
		return runP(t)
	case "D":
		return runD(t)
	case "B":
		return runB(t)
	}
	if f, ok := extra[t[0]]; ok && t[0] != "W" {
		return f(t)
	}
	_ = line
	return "bad-op"
}

var _ field.Field

// DirectJSONKinds: the field kinds whose UnmarshalJSON the C04 oracle calls directly
var DirectJSONKinds = []string{"String", "Numeric", "Binary", "Hex", "Bitmap", "Composite"}

// DirectJSONTarget: a new field object of the kind, over a small spec
func DirectJSONTarget(kind string) json.Unmarshaler {
	sp := func() *field.Spec {
		return &field.Spec{Length: 40, Description: "x", Enc: encoding.ASCII, Pref: prefix.ASCII.LL}
	}
	switch kind {
	case "String":
		return field.NewString(sp())
	case "Numeric":
		return field.NewNumeric(sp())
	case "Binary":
		return field.NewBinary(&field.Spec{Length: 40, Description: "x", Enc: encoding.Binary, Pref: prefix.Binary.L})
	case "Hex":
		return field.NewHex(&field.Spec{Length: 40, Description: "x", Enc: encoding.Binary, Pref: prefix.Binary.L})
	case "Bitmap":
		return field.NewBitmap(&field.Spec{Length: 8, Description: "x", Enc: encoding.Binary, Pref: prefix.Binary.Fixed})
	case "Composite":
		return field.NewComposite(&field.Spec{Length: 99, Description: "x", Pref: prefix.ASCII.LL,
			Tag:       &field.TagSpec{Length: 2, Enc: encoding.ASCII, Sort: sort.StringsByInt},
			Subfields: map[string]field.Field{"01": field.NewString(sp()), "02": field.NewNumeric(sp())}})
	}
	return nil
}
