package impl

// Channel S: the spec builder (specs/builder.go).
//
//	S import <doc>   → ok <canonical spec tree> | err | panic
//	S export <spec>  → ok <canonical doc> | err          (bad-op when the spec does not construct)
//
// The one-token textual forms are described in lean/Iso8583/Drivers/Spec.lean. `S import`
// renders the document tree to real JSON text, calls specs.Builder.ImportJSON and
// canonicalises the returned *MessageSpec by reflection; `S export` builds a real
// MessageSpec with the library's constructors, calls ExportJSON and canonicalises the JSON.

import (
	"bytes"
	"encoding/hex"
	"encoding/json"
	"fmt"
	"path"
	"reflect"
	"regexp"
	"runtime"
	"sort"
	"strconv"
	"strings"
	"unicode/utf8"

	"github.com/moov-io/iso8583"
	"github.com/moov-io/iso8583/encoding"
	"github.com/moov-io/iso8583/field"
	"github.com/moov-io/iso8583/padding"
	"github.com/moov-io/iso8583/prefix"
	moovsort "github.com/moov-io/iso8583/sort"
	"github.com/moov-io/iso8583/specs"
)

func init() { extra["S"] = runS }

// ---------------------------------------------------------------- generic terms

type Sx struct {
	Kind byte // 'a' atom, 'n' node, 'k' key=value
	Atom string
	Head string
	Args []*Sx
	Key  string
	Val  *Sx
}

func isDelim(c byte) bool { return c == '(' || c == ')' || c == ',' || c == '=' }

func parseTerm(s string, i int) (*Sx, int, bool) {
	j := i
	for j < len(s) && !isDelim(s[j]) {
		j++
	}
	tok := s[i:j]
	if j < len(s) && s[j] == '(' {
		if utf8.RuneCountInString(tok) != 1 {
			return nil, 0, false
		}
		j++
		if j < len(s) && s[j] == ')' {
			return &Sx{Kind: 'n', Head: tok}, j + 1, true
		}
		var args []*Sx
		for {
			t, k, ok := parseTerm(s, j)
			if !ok {
				return nil, 0, false
			}
			args = append(args, t)
			if k < len(s) && s[k] == ',' {
				j = k + 1
				continue
			}
			if k < len(s) && s[k] == ')' {
				return &Sx{Kind: 'n', Head: tok, Args: args}, k + 1, true
			}
			return nil, 0, false
		}
	}
	if j < len(s) && s[j] == '=' {
		v, k, ok := parseTerm(s, j+1)
		if !ok {
			return nil, 0, false
		}
		return &Sx{Kind: 'k', Key: tok, Val: v}, k, true
	}
	if tok == "" {
		return nil, 0, false
	}
	return &Sx{Kind: 'a', Atom: tok}, j, true
}

func ParseSx(s string) (*Sx, bool) {
	t, k, ok := parseTerm(s, 0)
	if !ok || k != len(s) {
		return nil, false
	}
	return t, true
}

func (t *Sx) isAtom(a string) bool { return t != nil && t.Kind == 'a' && t.Atom == a }
func (t *Sx) node(h string, n int) bool {
	return t != nil && t.Kind == 'n' && t.Head == h && (n < 0 || len(t.Args) == n)
}

// ---------------------------------------------------------------- atoms

func safeChar(c rune) bool {
	return (c >= '0' && c <= '9') || (c >= 'a' && c <= 'z') || (c >= 'A' && c <= 'Z') || c == '.' || c == '_' || c == '-'
}

func ShowStr(s string) string {
	for _, c := range s {
		if !safeChar(c) {
			return "x" + hex.EncodeToString([]byte(s))
		}
	}
	if !utf8.ValidString(s) {
		return "x" + hex.EncodeToString([]byte(s))
	}
	return "'" + s
}

var lowerHexRe = regexp.MustCompile(`^[0-9a-f]*$`)
var canonIntRe = regexp.MustCompile(`^(0|-?[1-9][0-9]*)$`)

func ParseStr(a string) (string, bool) {
	if strings.HasPrefix(a, "'") {
		for _, c := range a[1:] {
			if !safeChar(c) {
				return "", false
			}
		}
		return a[1:], true
	}
	if strings.HasPrefix(a, "x") && lowerHexRe.MatchString(a[1:]) {
		b, err := hex.DecodeString(a[1:])
		if err != nil || !utf8.Valid(b) {
			return "", false
		}
		if ShowStr(string(b)) != a {
			return "", false
		}
		return string(b), true
	}
	return "", false
}

func showBool(b bool) string {
	if b {
		return "T"
	}
	return "F"
}

// ---------------------------------------------------------------- documents

// Slot is one member of a JSON object: K = '_' absent, '~' null, '!' wrong type, 'v' value.
type Slot[T any] struct {
	K byte
	V T
}

func Val[T any](v T) Slot[T] { return Slot[T]{K: 'v', V: v} }
func Absent[T any]() Slot[T]  { return Slot[T]{K: '_'} }
func Null[T any]() Slot[T]    { return Slot[T]{K: '~'} }
func Bad[T any]() Slot[T]     { return Slot[T]{K: '!'} }

type PadDoc struct{ Type, Pad Slot[string] }

type TagDoc struct {
	Length  Slot[string] // canonical decimal
	Enc     Slot[string]
	Padding Slot[*PadDoc]
	Sort    Slot[string]
}

type DocEntry struct {
	Key string
	F   *FieldDoc
}

type FieldDoc struct {
	Kind    byte // '~' null, '!' wrong type, 'f' object
	Type    Slot[string]
	Length  Slot[string]
	Desc    Slot[string]
	Enc     Slot[string]
	Prefix  Slot[string]
	Padding Slot[*PadDoc]
	Tag     Slot[*TagDoc]
	Subs    []DocEntry
	Bitmap  *FieldDoc
	DAE     Slot[bool]
}

type SpecDoc struct {
	Name   Slot[string]
	Fields Slot[[]DocEntry]
}

func parseSlot[T any](t *Sx, f func(*Sx) (T, bool)) (Slot[T], bool) {
	switch {
	case t.isAtom("_"):
		return Absent[T](), true
	case t.isAtom("~"):
		return Null[T](), true
	case t.isAtom("!"):
		return Bad[T](), true
	}
	v, ok := f(t)
	if !ok {
		return Slot[T]{}, false
	}
	return Val(v), true
}

func sxStr(t *Sx) (string, bool) {
	if t.Kind != 'a' {
		return "", false
	}
	return ParseStr(t.Atom)
}
func sxInt(t *Sx) (string, bool) {
	if t.Kind != 'a' || !canonIntRe.MatchString(t.Atom) {
		return "", false
	}
	return t.Atom, true
}
func sxBool(t *Sx) (bool, bool) {
	if t.isAtom("T") {
		return true, true
	}
	if t.isAtom("F") {
		return false, true
	}
	return false, false
}

func sxPadDoc(t *Sx) (*PadDoc, bool) {
	if !t.node("p", 2) {
		return nil, false
	}
	a, ok1 := parseSlot(t.Args[0], sxStr)
	b, ok2 := parseSlot(t.Args[1], sxStr)
	return &PadDoc{a, b}, ok1 && ok2
}

func sxTagDoc(t *Sx) (*TagDoc, bool) {
	if !t.node("t", 4) {
		return nil, false
	}
	l, ok1 := parseSlot(t.Args[0], sxInt)
	e, ok2 := parseSlot(t.Args[1], sxStr)
	p, ok3 := parseSlot(t.Args[2], sxPadDoc)
	s, ok4 := parseSlot(t.Args[3], sxStr)
	return &TagDoc{l, e, p, s}, ok1 && ok2 && ok3 && ok4
}

func sxFieldDoc(t *Sx) (*FieldDoc, bool) {
	if t.isAtom("~") {
		return &FieldDoc{Kind: '~'}, true
	}
	if t.isAtom("!") {
		return &FieldDoc{Kind: '!'}, true
	}
	if !t.node("f", 10) {
		return nil, false
	}
	d := &FieldDoc{Kind: 'f'}
	ok := make([]bool, 10)
	d.Type, ok[0] = parseSlot(t.Args[0], sxStr)
	d.Length, ok[1] = parseSlot(t.Args[1], sxInt)
	d.Desc, ok[2] = parseSlot(t.Args[2], sxStr)
	d.Enc, ok[3] = parseSlot(t.Args[3], sxStr)
	d.Prefix, ok[4] = parseSlot(t.Args[4], sxStr)
	d.Padding, ok[5] = parseSlot(t.Args[5], sxPadDoc)
	d.Tag, ok[6] = parseSlot(t.Args[6], sxTagDoc)
	d.Subs, ok[7] = sxDocMap(t.Args[7])
	if t.Args[8].isAtom("_") {
		ok[8] = true
	} else {
		d.Bitmap, ok[8] = sxFieldDoc(t.Args[8])
	}
	d.DAE, ok[9] = parseSlot(t.Args[9], sxBool)
	for _, o := range ok {
		if !o {
			return nil, false
		}
	}
	return d, true
}

func sxDocMap(t *Sx) ([]DocEntry, bool) {
	if !t.node("m", -1) {
		return nil, false
	}
	var out []DocEntry
	for _, e := range t.Args {
		if e.Kind != 'k' {
			return nil, false
		}
		k, ok := ParseStr(e.Key)
		if !ok {
			return nil, false
		}
		f, ok := sxFieldDoc(e.Val)
		if !ok {
			return nil, false
		}
		out = append(out, DocEntry{k, f})
	}
	return out, true
}

func ParseSpecDoc(s string) (*SpecDoc, bool) {
	t, ok := ParseSx(s)
	if !ok || !t.node("d", 2) {
		return nil, false
	}
	n, ok1 := parseSlot(t.Args[0], sxStr)
	f, ok2 := parseSlot(t.Args[1], sxDocMap)
	return &SpecDoc{n, f}, ok1 && ok2
}

func showSlot[T any](s Slot[T], f func(T) string) string {
	switch s.K {
	case 'v':
		return f(s.V)
	case '~':
		return "~"
	case '!':
		return "!"
	}
	return "_"
}

func ident(s string) string { return s }

func (p *PadDoc) Text() string {
	return "p(" + showSlot(p.Type, ShowStr) + "," + showSlot(p.Pad, ShowStr) + ")"
}

func (t *TagDoc) Text() string {
	return "t(" + showSlot(t.Length, ident) + "," + showSlot(t.Enc, ShowStr) + "," +
		showSlot(t.Padding, (*PadDoc).Text) + "," + showSlot(t.Sort, ShowStr) + ")"
}

// Text prints the document; with canon the map entries are sorted (subfields by key).
func (d *FieldDoc) Text(canon bool) string {
	switch d.Kind {
	case '~':
		return "~"
	case '!':
		return "!"
	}
	bm := "_"
	if d.Bitmap != nil {
		bm = d.Bitmap.Text(canon)
	}
	return "f(" + showSlot(d.Type, ShowStr) + "," + showSlot(d.Length, ident) + "," + showSlot(d.Desc, ShowStr) + "," +
		showSlot(d.Enc, ShowStr) + "," + showSlot(d.Prefix, ShowStr) + "," + showSlot(d.Padding, (*PadDoc).Text) + "," +
		showSlot(d.Tag, (*TagDoc).Text) + "," + docMapText(d.Subs, canon, false) + "," + bm + "," + showSlot(d.DAE, showBool) + ")"
}

func docMapText(m []DocEntry, canon, top bool) string {
	es := append([]DocEntry(nil), m...)
	if canon {
		sort.SliceStable(es, func(i, j int) bool {
			if top {
				return topLess(es[i].Key, es[j].Key)
			}
			return es[i].Key < es[j].Key
		})
	}
	parts := make([]string, len(es))
	for i, e := range es {
		parts[i] = ShowStr(e.Key) + "=" + e.F.Text(canon)
	}
	return "m(" + strings.Join(parts, ",") + ")"
}

func topLess(a, b string) bool {
	x, e1 := strconv.Atoi(a)
	y, e2 := strconv.Atoi(b)
	switch {
	case e1 == nil && e2 == nil:
		return x < y || (x == y && a < b)
	case e1 == nil:
		return true
	case e2 == nil:
		return false
	}
	return a < b
}

func (d *SpecDoc) Text(canon bool) string {
	return "d(" + showSlot(d.Name, ShowStr) + "," + showSlot(d.Fields, func(m []DocEntry) string { return docMapText(m, canon, true) }) + ")"
}

// ---- rendering to JSON text

func jstr(s string) string {
	b, _ := json.Marshal(s)
	return string(b)
}

func member[T any](sb *[]string, key string, s Slot[T], f func(T) string) {
	switch s.K {
	case 'v':
		*sb = append(*sb, jstr(key)+":"+f(s.V))
	case '~':
		*sb = append(*sb, jstr(key)+":null")
	case '!':
		*sb = append(*sb, jstr(key)+":[1]")
	}
}

func (p *PadDoc) JSON() string {
	var m []string
	member(&m, "type", p.Type, jstr)
	member(&m, "pad", p.Pad, jstr)
	return "{" + strings.Join(m, ",") + "}"
}

func (t *TagDoc) JSON() string {
	var m []string
	member(&m, "length", t.Length, ident)
	member(&m, "enc", t.Enc, jstr)
	member(&m, "padding", t.Padding, (*PadDoc).JSON)
	member(&m, "sort", t.Sort, jstr)
	return "{" + strings.Join(m, ",") + "}"
}

func (d *FieldDoc) JSON() string {
	switch d.Kind {
	case '~':
		return "null"
	case '!':
		return "[1]"
	}
	var m []string
	member(&m, "type", d.Type, jstr)
	member(&m, "length", d.Length, ident)
	member(&m, "description", d.Desc, jstr)
	member(&m, "enc", d.Enc, jstr)
	member(&m, "prefix", d.Prefix, jstr)
	member(&m, "padding", d.Padding, (*PadDoc).JSON)
	member(&m, "tag", d.Tag, (*TagDoc).JSON)
	if len(d.Subs) > 0 {
		m = append(m, `"subfields":`+docMapJSON(d.Subs))
	}
	if d.Bitmap != nil {
		m = append(m, `"bitmap":`+d.Bitmap.JSON())
	}
	member(&m, "disableAutoExpand", d.DAE, func(b bool) string { return strconv.FormatBool(b) })
	return "{" + strings.Join(m, ",") + "}"
}

func docMapJSON(es []DocEntry) string {
	parts := make([]string, len(es))
	for i, e := range es {
		parts[i] = jstr(e.Key) + ":" + e.F.JSON()
	}
	return "{" + strings.Join(parts, ",") + "}"
}

func (d *SpecDoc) JSON() string {
	var m []string
	member(&m, "name", d.Name, jstr)
	member(&m, "fields", d.Fields, docMapJSON)
	return "{" + strings.Join(m, ",") + "}"
}

// ---- JSON text (as written by ExportJSON) back to a document tree

func slotOf[T any](obj map[string]interface{}, key string, conv func(interface{}) (T, bool)) Slot[T] {
	v, present := obj[key]
	if !present {
		return Absent[T]()
	}
	if v == nil {
		return Null[T]()
	}
	x, ok := conv(v)
	if !ok {
		return Bad[T]()
	}
	return Val(x)
}

func jString(v interface{}) (string, bool) { s, ok := v.(string); return s, ok }
func jBool(v interface{}) (bool, bool)     { b, ok := v.(bool); return b, ok }
func jInt(v interface{}) (string, bool) {
	n, ok := v.(json.Number)
	if !ok || !canonIntRe.MatchString(n.String()) {
		return "", false
	}
	return n.String(), true
}
func jPad(v interface{}) (*PadDoc, bool) {
	o, ok := v.(map[string]interface{})
	if !ok || !onlyKeys(o, "type", "pad") {
		return nil, false
	}
	return &PadDoc{slotOf(o, "type", jString), slotOf(o, "pad", jString)}, true
}
func jTag(v interface{}) (*TagDoc, bool) {
	o, ok := v.(map[string]interface{})
	if !ok || !onlyKeys(o, "length", "enc", "padding", "sort") {
		return nil, false
	}
	return &TagDoc{slotOf(o, "length", jInt), slotOf(o, "enc", jString), slotOf(o, "padding", jPad), slotOf(o, "sort", jString)}, true
}

func onlyKeys(o map[string]interface{}, keys ...string) bool {
	for k := range o {
		found := false
		for _, a := range keys {
			if a == k {
				found = true
			}
		}
		if !found {
			return false
		}
	}
	return true
}

func jField(v interface{}) *FieldDoc {
	if v == nil {
		return &FieldDoc{Kind: '~'}
	}
	o, ok := v.(map[string]interface{})
	if !ok || !onlyKeys(o, "type", "length", "description", "enc", "prefix", "padding", "tag", "subfields", "bitmap", "disableAutoExpand") {
		return &FieldDoc{Kind: '!'}
	}
	d := &FieldDoc{Kind: 'f'}
	d.Type = slotOf(o, "type", jString)
	d.Length = slotOf(o, "length", jInt)
	d.Desc = slotOf(o, "description", jString)
	d.Enc = slotOf(o, "enc", jString)
	d.Prefix = slotOf(o, "prefix", jString)
	d.Padding = slotOf(o, "padding", jPad)
	d.Tag = slotOf(o, "tag", jTag)
	if s, present := o["subfields"]; present && s != nil {
		m, ok := jMap(s)
		if !ok {
			return &FieldDoc{Kind: '!'}
		}
		d.Subs = m
	}
	if b, present := o["bitmap"]; present {
		d.Bitmap = jField(b)
	}
	d.DAE = slotOf(o, "disableAutoExpand", jBool)
	return d
}

func jMap(v interface{}) ([]DocEntry, bool) {
	o, ok := v.(map[string]interface{})
	if !ok {
		return nil, false
	}
	keys := make([]string, 0, len(o))
	for k := range o {
		keys = append(keys, k)
	}
	sort.Strings(keys)
	out := make([]DocEntry, 0, len(keys))
	for _, k := range keys {
		out = append(out, DocEntry{k, jField(o[k])})
	}
	return out, true
}

// DocOfJSON parses a JSON spec document (generic decoding, independent of specs/builder.go).
func DocOfJSON(raw []byte) (*SpecDoc, error) {
	dec := json.NewDecoder(bytes.NewReader(raw))
	dec.UseNumber()
	var v interface{}
	if err := dec.Decode(&v); err != nil {
		return nil, err
	}
	o, ok := v.(map[string]interface{})
	if !ok || !onlyKeys(o, "name", "fields") {
		return nil, fmt.Errorf("not a spec document")
	}
	return &SpecDoc{slotOf(o, "name", jString), slotOf(o, "fields", jMap)}, nil
}

// ---------------------------------------------------------------- spec trees

type TPad struct{ Type, Pad string }

type TTag struct {
	Length int
	Enc    string // "" = nil
	Pad    *TPad
	Sort   string // "" = nil
}

type TEntry struct {
	Key string
	F   *TField
}

type TField struct {
	Type   string
	Length int
	Desc   string
	Pref   string // Inspect()
	Enc    string // implementation type name, "" = nil
	Pad    *TPad
	Tag    *TTag
	Subs   []TEntry
	Bitmap *TField
	DAE    bool
}

type TMsgEntry struct {
	Idx int
	F   *TField
}

type TMsg struct {
	Name   string
	Fields []TMsgEntry
}

func showOptStr(s string) string {
	if s == "" {
		return "_"
	}
	return ShowStr(s)
}

func (p *TPad) Text() string {
	if p == nil {
		return "_"
	}
	return "P(" + ShowStr(p.Type) + "," + ShowStr(p.Pad) + ")"
}

func (t *TTag) Text() string {
	if t == nil {
		return "_"
	}
	return "T(" + strconv.Itoa(t.Length) + "," + showOptStr(t.Enc) + "," + t.Pad.Text() + "," + showOptStr(t.Sort) + ")"
}

func (f *TField) Text() string {
	if f == nil {
		return "_"
	}
	es := append([]TEntry(nil), f.Subs...)
	sort.SliceStable(es, func(i, j int) bool { return es[i].Key < es[j].Key })
	parts := make([]string, len(es))
	for i, e := range es {
		parts[i] = ShowStr(e.Key) + "=" + e.F.Text()
	}
	pref := "_"
	if f.Pref != "" {
		pref = ShowStr(f.Pref)
	}
	return "F(" + ShowStr(f.Type) + "," + strconv.Itoa(f.Length) + "," + ShowStr(f.Desc) + "," + pref + "," +
		showOptStr(f.Enc) + "," + f.Pad.Text() + "," + f.Tag.Text() + ",M(" + strings.Join(parts, ",") + ")," +
		f.Bitmap.Text() + "," + showBool(f.DAE) + ")"
}

func (m *TMsg) Text() string {
	es := append([]TMsgEntry(nil), m.Fields...)
	sort.SliceStable(es, func(i, j int) bool { return es[i].Idx < es[j].Idx })
	parts := make([]string, len(es))
	for i, e := range es {
		parts[i] = strconv.Itoa(e.Idx) + "=" + e.F.Text()
	}
	return "S(" + ShowStr(m.Name) + ",M(" + strings.Join(parts, ",") + "))"
}

func sxInt64(t *Sx) (int, bool) {
	if t.Kind != 'a' || !canonIntRe.MatchString(t.Atom) {
		return 0, false
	}
	n, err := strconv.ParseInt(t.Atom, 10, 64)
	return int(n), err == nil
}

func sxOptStr(t *Sx) (string, bool) {
	if t.isAtom("_") {
		return "", true
	}
	s, ok := sxStr(t)
	return s, ok && s != ""
}

func sxTPad(t *Sx) (*TPad, bool) {
	if t.isAtom("_") {
		return nil, true
	}
	if !t.node("P", 2) {
		return nil, false
	}
	ty, ok1 := sxStr(t.Args[0])
	pad, ok2 := sxStr(t.Args[1])
	if !ok1 || !ok2 {
		return nil, false
	}
	switch ty {
	case "nonePadder":
		if pad != "" {
			return nil, false
		}
	case "leftPadder", "rightPadder":
		if utf8.RuneCountInString(pad) != 1 {
			return nil, false
		}
	default:
		return nil, false
	}
	return &TPad{ty, pad}, true
}

func sxTTag(t *Sx) (*TTag, bool) {
	if t.isAtom("_") {
		return nil, true
	}
	if !t.node("T", 4) {
		return nil, false
	}
	l, ok1 := sxInt64(t.Args[0])
	e, ok2 := sxOptStr(t.Args[1])
	p, ok3 := sxTPad(t.Args[2])
	s, ok4 := sxOptStr(t.Args[3])
	if !(ok1 && ok2 && ok3 && ok4) {
		return nil, false
	}
	if e != "" && EncoderByType(e) == nil {
		return nil, false
	}
	if s != "" && sortByName(s) == nil {
		return nil, false
	}
	return &TTag{l, e, p, s}, true
}

func sxTField(t *Sx) (*TField, bool) {
	if !t.node("F", 10) {
		return nil, false
	}
	f := &TField{}
	var ok [10]bool
	f.Type, ok[0] = sxStr(t.Args[0])
	f.Length, ok[1] = sxInt64(t.Args[1])
	f.Desc, ok[2] = sxStr(t.Args[2])
	f.Pref, ok[3] = sxStr(t.Args[3])
	f.Enc, ok[4] = sxOptStr(t.Args[4])
	f.Pad, ok[5] = sxTPad(t.Args[5])
	f.Tag, ok[6] = sxTTag(t.Args[6])
	if t.Args[7].node("M", -1) {
		ok[7] = true
		seen := map[string]bool{}
		for _, e := range t.Args[7].Args {
			if e.Kind != 'k' {
				return nil, false
			}
			k, okk := ParseStr(e.Key)
			sub, oks := sxTField(e.Val)
			if !okk || !oks || seen[k] {
				return nil, false
			}
			seen[k] = true
			f.Subs = append(f.Subs, TEntry{k, sub})
		}
	}
	if t.Args[8].isAtom("_") {
		ok[8] = true
	} else {
		f.Bitmap, ok[8] = sxTField(t.Args[8])
		if ok[8] && f.Bitmap.Type != "Bitmap" {
			return nil, false
		}
	}
	f.DAE, ok[9] = sxBool(t.Args[9])
	for _, o := range ok {
		if !o {
			return nil, false
		}
	}
	if _, known := fieldCtors[f.Type]; !known {
		return nil, false
	}
	if PrefixerByInspect(f.Pref) == nil {
		return nil, false
	}
	if f.Enc != "" && EncoderByType(f.Enc) == nil {
		return nil, false
	}
	return f, true
}

func ParseTMsg(s string) (*TMsg, bool) {
	t, ok := ParseSx(s)
	if !ok || !t.node("S", 2) || !t.Args[1].node("M", -1) {
		return nil, false
	}
	name, ok := sxStr(t.Args[0])
	if !ok {
		return nil, false
	}
	m := &TMsg{Name: name}
	seen := map[int]bool{}
	for _, e := range t.Args[1].Args {
		if e.Kind != 'k' || !canonIntRe.MatchString(e.Key) {
			return nil, false
		}
		idx, err := strconv.ParseInt(e.Key, 10, 64)
		f, okf := sxTField(e.Val)
		if err != nil || !okf || seen[int(idx)] {
			return nil, false
		}
		seen[int(idx)] = true
		m.Fields = append(m.Fields, TMsgEntry{int(idx), f})
	}
	return m, true
}

// ---- the library's values by name

var fieldCtors = map[string]func(*field.Spec) field.Field{
	"String":    func(s *field.Spec) field.Field { return field.NewString(s) },
	"Track2":    func(s *field.Spec) field.Field { return field.NewTrack2(s) },
	"Numeric":   func(s *field.Spec) field.Field { return field.NewNumeric(s) },
	"Binary":    func(s *field.Spec) field.Field { return field.NewBinary(s) },
	"Bitmap":    func(s *field.Spec) field.Field { return field.NewBitmap(s) },
	"Composite": func(s *field.Spec) field.Field { return field.NewComposite(s) },
}

var prefByInspect = func() map[string]prefix.Prefixer {
	m := map[string]prefix.Prefixer{}
	for _, fam := range []prefix.Prefixers{prefix.ASCII, prefix.BCD, prefix.Binary, prefix.Hex, prefix.EBCDIC, prefix.EBCDIC1047} {
		for _, p := range []prefix.Prefixer{fam.Fixed, fam.L, fam.LL, fam.LLL, fam.LLLL, fam.LLLLL, fam.LLLLLL} {
			if p != nil {
				m[p.Inspect()] = p
			}
		}
	}
	m[prefix.BerTLV.Inspect()] = prefix.BerTLV
	m[prefix.None.Fixed.Inspect()] = prefix.None.Fixed
	return m
}()

func PrefixerByInspect(name string) prefix.Prefixer { return prefByInspect[name] }

func typeName(v interface{}) string {
	t := reflect.TypeOf(v)
	for t.Kind() == reflect.Ptr {
		t = t.Elem()
	}
	return t.Name()
}

var encByType = func() map[string]encoding.Encoder {
	m := map[string]encoding.Encoder{}
	for _, e := range Encoders {
		m[typeName(e)] = e
	}
	return m
}()

func EncoderByType(name string) encoding.Encoder { return encByType[name] }

func sortByName(name string) moovsort.StringSlice {
	switch name {
	case "Strings":
		return moovsort.Strings
	case "StringsByInt":
		return moovsort.StringsByInt
	case "StringsByHex":
		return moovsort.StringsByHex
	}
	return nil
}

func (p *TPad) padder() padding.Padder {
	if p == nil {
		return nil
	}
	switch p.Type {
	case "nonePadder":
		return padding.None
	case "leftPadder":
		r, _ := utf8.DecodeRuneInString(p.Pad)
		return padding.Left(r)
	case "rightPadder":
		r, _ := utf8.DecodeRuneInString(p.Pad)
		return padding.Right(r)
	}
	return nil
}

func (f *TField) spec() *field.Spec {
	s := &field.Spec{Length: f.Length, Description: f.Desc, Pref: PrefixerByInspect(f.Pref), DisableAutoExpand: f.DAE}
	if f.Enc != "" {
		s.Enc = EncoderByType(f.Enc)
	}
	if p := f.Pad.padder(); p != nil {
		s.Pad = p
	}
	if f.Tag != nil {
		s.Tag = &field.TagSpec{Length: f.Tag.Length}
		if f.Tag.Enc != "" {
			s.Tag.Enc = EncoderByType(f.Tag.Enc)
		}
		if p := f.Tag.Pad.padder(); p != nil {
			s.Tag.Pad = p
		}
		if f.Tag.Sort != "" {
			s.Tag.Sort = sortByName(f.Tag.Sort)
		}
	}
	if len(f.Subs) > 0 {
		s.Subfields = map[string]field.Field{}
		for _, e := range f.Subs {
			s.Subfields[e.Key] = e.F.Build()
		}
	}
	if f.Bitmap != nil {
		bs := f.Bitmap.spec()
		checkBitmapLen(bs.Length)
		s.Bitmap = field.NewBitmap(bs)
	}
	return s
}

// lengths that `make` would actually try to allocate are not sent to the library
func checkBitmapLen(n int) {
	if n > 1<<24 && n <= 1<<48 {
		panic("bitmap length not exercised (would allocate)")
	}
}

// Build constructs the real field with the library's constructor (panics like the library).
func (f *TField) Build() field.Field {
	s := f.spec()
	if f.Type == "Bitmap" {
		checkBitmapLen(s.Length)
	}
	return fieldCtors[f.Type](s)
}

// Build constructs the real MessageSpec; ok=false when a constructor panics.
func (m *TMsg) Build() (spec *iso8583.MessageSpec, ok bool) {
	defer func() {
		if recover() != nil {
			spec, ok = nil, false
		}
	}()
	spec = &iso8583.MessageSpec{Name: m.Name, Fields: map[int]field.Field{}}
	for _, e := range m.Fields {
		spec.Fields[e.Idx] = e.F.Build()
	}
	return spec, true
}

// ---- canonicalising a real spec by reflection

func funcName(f interface{}) string {
	n := runtime.FuncForPC(reflect.ValueOf(f).Pointer()).Name()
	ext := path.Ext(n)
	if len(ext) > 1 {
		return ext[1:]
	}
	return n
}

func tpadOf(p padding.Padder) *TPad {
	if p == nil || reflect.ValueOf(p).IsNil() {
		return nil
	}
	return &TPad{typeName(p), string(p.Inspect())}
}

func TFieldOf(f field.Field) *TField {
	s := f.Spec()
	t := &TField{Type: typeName(f), Length: s.Length, Desc: s.Description, DAE: s.DisableAutoExpand}
	if s.Pref != nil {
		t.Pref = s.Pref.Inspect()
	}
	if s.Enc != nil {
		t.Enc = typeName(s.Enc)
	}
	t.Pad = tpadOf(s.Pad)
	if s.Tag != nil {
		t.Tag = &TTag{Length: s.Tag.Length, Pad: tpadOf(s.Tag.Pad)}
		if s.Tag.Enc != nil {
			t.Tag.Enc = typeName(s.Tag.Enc)
		}
		if s.Tag.Sort != nil {
			t.Tag.Sort = funcName(s.Tag.Sort)
		}
	}
	keys := make([]string, 0, len(s.Subfields))
	for k := range s.Subfields {
		keys = append(keys, k)
	}
	sort.Strings(keys)
	for _, k := range keys {
		t.Subs = append(t.Subs, TEntry{k, TFieldOf(s.Subfields[k])})
	}
	if s.Bitmap != nil {
		t.Bitmap = TFieldOf(s.Bitmap)
	}
	return t
}

func TMsgOf(spec *iso8583.MessageSpec) *TMsg {
	m := &TMsg{Name: spec.Name}
	keys := make([]int, 0, len(spec.Fields))
	for k := range spec.Fields {
		keys = append(keys, k)
	}
	sort.Ints(keys)
	for _, k := range keys {
		m.Fields = append(m.Fields, TMsgEntry{k, TFieldOf(spec.Fields[k])})
	}
	return m
}

// ---------------------------------------------------------------- the channel

func runS(t []string) string {
	if len(t) != 3 {
		return "bad-op"
	}
	switch t[1] {
	case "import":
		d, ok := ParseSpecDoc(t[2])
		if !ok {
			return "bad-op"
		}
		spec, err := specs.Builder.ImportJSON([]byte(d.JSON()))
		if err != nil {
			return "err"
		}
		return "ok " + TMsgOf(spec).Text()
	case "export":
		m, ok := ParseTMsg(t[2])
		if !ok {
			return "bad-op"
		}
		spec, ok := m.Build()
		if !ok {
			return "bad-op"
		}
		raw, err := specs.Builder.ExportJSON(spec)
		if err != nil {
			return "err"
		}
		d, err := DocOfJSON(raw)
		if err != nil {
			return "ok ?" + err.Error()
		}
		return "ok " + d.Text(true)
	}
	return "bad-op"
}
