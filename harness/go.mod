module verif/harness

go 1.23.0

require github.com/moov-io/iso8583 v0.0.0

require (
	github.com/yerden/go-util v1.1.4 // indirect
	golang.org/x/text v0.23.0 // indirect
)

replace github.com/moov-io/iso8583 => /repo

require github.com/anishathalye/porcupine v1.3.0
