//go:build cover

// Development aid (bin/coverage): runs every channel generator and every oracle once inside
// `go test -coverpkg=github.com/moov-io/iso8583/...` so that the statements of the library that
// the correspondence harness executes can be listed. Not part of any check.
package main

import (
	"io"
	"os"
	"strings"
	"testing"

	"verif/harness/gen"
	"verif/harness/impl"
	"verif/harness/oracle"
)

func TestCover(t *testing.T) {
	tier := gen.Tier{Thorough: os.Getenv("COVER_TIER") == "thorough"}
	for _, ch := range strings.Fields(os.Getenv("COVER_CHANNELS")) {
		gen.Dispatch(ch, tier, gen.NewRng(1), func(line string) { impl.Run(line) })
	}
	for _, id := range strings.Fields(os.Getenv("COVER_ORACLES")) {
		if o, ok := oracle.Registry[id]; ok && o.Run != nil {
			rep := oracle.NewReporter(io.Discard)
			o.Run(tier, gen.NewRng(1^0x5EED), rep)
			rep.Close()
		}
	}
}
