// Command drive generates protocol lines for a channel, executes each against the real
// moov-io/iso8583 code and prints "line<TAB>result". `drive run` executes lines from stdin.
package main

import (
	"bufio"
	"fmt"
	"os"
	"strconv"

	"verif/harness/gen"
	"verif/harness/impl"
	"verif/harness/oracle"
)

func main() {
	if len(os.Args) < 2 {
		fmt.Fprintln(os.Stderr, "usage: drive gen <channel> <quick|thorough> <seed> | drive run")
		os.Exit(2)
	}
	w := bufio.NewWriterSize(os.Stdout, 1<<20)
	defer w.Flush()
	switch os.Args[1] {
	case "run":
		sc := bufio.NewScanner(os.Stdin)
		sc.Buffer(make([]byte, 1<<20), 1<<26)
		for sc.Scan() {
			fmt.Fprintf(w, "%s\t%s\n", sc.Text(), impl.Run(sc.Text()))
		}
	case "gen":
		if len(os.Args) != 5 {
			fmt.Fprintln(os.Stderr, "usage: drive gen <channel> <quick|thorough> <seed>")
			os.Exit(2)
		}
		tier := gen.Tier{Thorough: os.Args[3] == "thorough"}
		seed, _ := strconv.ParseUint(os.Args[4], 10, 64)
		r := gen.NewRng(seed)
		emit := func(line string) {
			fmt.Fprintf(w, "%s\t%s\n", line, impl.Run(line))
		}
		if !gen.Dispatch(os.Args[2], tier, r, emit) {
			fmt.Fprintln(os.Stderr, "unknown channel", os.Args[2])
			os.Exit(2)
		}
	case "oracle":
		if len(os.Args) != 5 {
			os.Exit(2)
		}
		o, ok := oracle.Registry[os.Args[2]]
		rep := oracle.NewReporter(w)
		if ok && o.Run != nil {
			seed, _ := strconv.ParseUint(os.Args[4], 10, 64)
			o.Run(gen.Tier{Thorough: os.Args[3] == "thorough"}, gen.NewRng(seed^0x5EED), rep)
		}
		rep.Close()
	case "oracle-lines":
		o, ok := oracle.Registry[os.Args[2]]
		rep := oracle.NewReporter(w)
		if ok && o.Lines != nil {
			var lines []string
			sc := bufio.NewScanner(os.Stdin)
			sc.Buffer(make([]byte, 1<<20), 1<<26)
			for sc.Scan() {
				lines = append(lines, sc.Text())
			}
			o.Lines(lines, rep)
		}
		rep.Close()
	case "shipped":
		// the shipped message specs read back from the live Go values, in tree syntax
		for _, name := range impl.ShippedNames {
			t, skipped, err := impl.TreeOfMsgSpec(impl.Shipped(name))
			if err != nil {
				fmt.Fprintf(w, "%s\tERROR %v\n", name, err)
				continue
			}
			fmt.Fprintf(w, "%s\t%s\t%v\n", name, t.String(), skipped)
		}
	default:
		os.Exit(2)
	}
}
