package main

// Normal form of a function body for the source texts that theorems pin (filter functions):
// the pinned text should change when the code's meaning may have changed, not when a
// maintainer renames a local variable or a constant, or writes `if c { return a } else
// { return b }` as an early return. normSrc
//   1. hoists the init statement of an `if` in front of it and, when the `if` body ends in a
//      return, moves the else branch behind the `if`;
//   2. renames parameters and local variables (resolved by go/parser, so fields and package
//      names are not touched) to p1, p2, … / v1, v2, … in order of declaration;
//   3. replaces the package's integer and string constants by their values.

import (
	"fmt"
	"go/ast"
	"go/token"
	"regexp"
	"strconv"
)

func endsInReturn(b *ast.BlockStmt) bool {
	if b == nil || len(b.List) == 0 {
		return false
	}
	_, ok := b.List[len(b.List)-1].(*ast.ReturnStmt)
	return ok
}

func flattenBlock(b *ast.BlockStmt) {
	if b == nil {
		return
	}
	var out []ast.Stmt
	for _, st := range b.List {
		switch s := st.(type) {
		case *ast.IfStmt:
			if s.Init != nil {
				out = append(out, s.Init)
				s.Init = nil
			}
			flattenBlock(s.Body)
			if eb, ok := s.Else.(*ast.BlockStmt); ok && endsInReturn(s.Body) {
				flattenBlock(eb)
				s.Else = nil
				out = append(out, s)
				out = append(out, eb.List...)
				continue
			}
			if eb, ok := s.Else.(*ast.BlockStmt); ok {
				flattenBlock(eb)
			}
			out = append(out, s)
		case *ast.BlockStmt:
			flattenBlock(s)
			out = append(out, s)
		case *ast.ForStmt:
			flattenBlock(s.Body)
			out = append(out, s)
		case *ast.RangeStmt:
			flattenBlock(s.Body)
			out = append(out, s)
		default:
			out = append(out, st)
		}
	}
	b.List = out
}

// normSrc: normal-form text of a function (declaration or literal) of file f.
func normSrc(fset *token.FileSet, f *ast.File, fn ast.Node) string {
	var typ *ast.FuncType
	var body *ast.BlockStmt
	switch x := fn.(type) {
	case *ast.FuncDecl:
		typ, body = x.Type, x.Body
		x.Doc = nil
	case *ast.FuncLit:
		typ, body = x.Type, x.Body
	default:
		return srcOf(fset, fn)
	}
	flattenBlock(body)
	names := map[*ast.Object]string{}
	np, nv := 0, 0
	if typ.Params != nil {
		for _, fl := range typ.Params.List {
			for _, id := range fl.Names {
				if id.Obj != nil {
					np++
					names[id.Obj] = fmt.Sprintf("p%d", np)
				}
			}
		}
	}
	ast.Inspect(body, func(n ast.Node) bool {
		if id, ok := n.(*ast.Ident); ok && id.Obj != nil && id.Obj.Kind == ast.Var {
			if _, seen := names[id.Obj]; !seen {
				// declared inside this function? (package-level variables keep their names)
				if pos := id.Obj.Pos(); pos >= body.Pos() && pos <= body.End() {
					nv++
					names[id.Obj] = fmt.Sprintf("v%d", nv)
				}
			}
		}
		return true
	})
	ast.Inspect(fn, func(n ast.Node) bool {
		if id, ok := n.(*ast.Ident); ok && id.Obj != nil {
			if nn, ok := names[id.Obj]; ok {
				id.Name = nn
			}
		}
		return true
	})
	txt := srcOf(fset, fn)
	// package-level constants by value
	for _, d := range f.Decls {
		gd, ok := d.(*ast.GenDecl)
		if !ok || gd.Tok != token.CONST {
			continue
		}
		for _, sp := range gd.Specs {
			vs, ok := sp.(*ast.ValueSpec)
			if !ok || len(vs.Names) != len(vs.Values) {
				continue
			}
			for i, n := range vs.Names {
				bl, ok := vs.Values[i].(*ast.BasicLit)
				if !ok {
					continue
				}
				val := bl.Value
				if bl.Kind == token.STRING {
					if s, err := strconv.Unquote(bl.Value); err == nil {
						val = strconv.Quote(s)
					}
				}
				re := regexp.MustCompile(`\b` + regexp.QuoteMeta(n.Name) + `\b`)
				txt = re.ReplaceAllLiteralString(txt, val)
			}
		}
	}
	return txt
}
