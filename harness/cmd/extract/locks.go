package main

// Lock facts (tie T for C13): for every method of a struct type that owns a sync.Mutex
// (today *Message in message.go and *field.Composite in field/composite.go) a list of
// micro-steps in source order:
//
//	lock | deferUnlock | unlock            <recv>.mu.Lock() / defer <recv>.mu.Unlock() / <recv>.mu.Unlock()
//	read f | write f                       use of the struct field <recv>.f (write: assignment to the field,
//	                                       to an element of it, delete(<recv>.f, k), ++/--)
//	call m                                 call of a method of the same receiver
//	callOther origin T m                   call of a method of another object whose type owns a mutex, or of an
//	                                       interface such a type implements; origin says where the object came from:
//	                                       child (derived from the receiver's own state), fresh (result of a
//	                                       function call in this method), param, global, unknown
//	unknown why                            anything that defeats the classification (lock inside a branch, the mutex
//	                                       or the receiver or a guarded map escaping, go statements, method values)
//
// Facts only, no semantics: the discipline is decided in Lean (Model/Locks.lean, Props/C13.lean).

import (
	"fmt"
	"go/ast"
	"go/importer"
	"go/parser"
	"go/token"
	"go/types"
	"os"
	"path/filepath"
	"sort"
	"strings"
)

type lockStep struct{ kind, a, b, c string }

type lockMethod struct {
	recv, name string
	exported   bool
	pos        string
	steps      []lockStep
}

type lockCtx struct {
	info    *types.Info
	locking map[*types.TypeName]bool // struct types owning a mutex (this package and its imports)
	recv    *types.Var
	strct   *types.Struct
	origin  map[types.Object]string
	params  map[types.Object]bool
	steps   []lockStep
}

func ownsMutex(t types.Type) (*types.Struct, bool) {
	st, ok := t.Underlying().(*types.Struct)
	if !ok {
		return nil, false
	}
	for i := 0; i < st.NumFields(); i++ {
		if s := st.Field(i).Type().String(); s == "sync.Mutex" || s == "sync.RWMutex" {
			return st, true
		}
	}
	return st, false
}

func (c *lockCtx) emit(kind, a, b string) { c.steps = append(c.steps, lockStep{kind, a, b, ""}) }

func (c *lockCtx) isRecv(e ast.Expr) bool {
	id, ok := ast.Unparen(e).(*ast.Ident)
	return ok && c.recv != nil && c.info.Uses[id] == c.recv
}

// recvField: e is <recv>.f for a struct field f
func (c *lockCtx) recvField(e ast.Expr) (string, bool) {
	se, ok := ast.Unparen(e).(*ast.SelectorExpr)
	if !ok || !c.isRecv(se.X) {
		return "", false
	}
	if s := c.info.Selections[se]; s != nil && s.Kind() == types.FieldVal {
		return se.Sel.Name, true
	}
	return "", false
}

func (c *lockCtx) isMutexField(name string) bool {
	for i := 0; i < c.strct.NumFields(); i++ {
		if f := c.strct.Field(i); f.Name() == name {
			s := f.Type().String()
			return s == "sync.Mutex" || s == "sync.RWMutex"
		}
	}
	return false
}

// muCall: call is <recv>.<mutex>.<Method>()
func (c *lockCtx) muCall(call *ast.CallExpr) (string, *ast.SelectorExpr, bool) {
	se, ok := call.Fun.(*ast.SelectorExpr)
	if !ok {
		return "", nil, false
	}
	inner, ok := ast.Unparen(se.X).(*ast.SelectorExpr)
	if !ok {
		return "", nil, false
	}
	if f, ok := c.recvField(inner); ok && c.isMutexField(f) {
		return se.Sel.Name, inner, true
	}
	return "", nil, false
}

// lockingTarget: the static receiver type of a method call can own a mutex
func (c *lockCtx) lockingTarget(t types.Type) (string, bool) {
	if p, ok := t.(*types.Pointer); ok {
		t = p.Elem()
	}
	if n, ok := t.(*types.Named); ok {
		if c.locking[n.Obj()] {
			return n.Obj().Name(), true
		}
	}
	if it, ok := t.Underlying().(*types.Interface); ok {
		for tn := range c.locking {
			if types.Implements(types.NewPointer(tn.Type()), it) || types.Implements(tn.Type(), it) {
				if n, ok := t.(*types.Named); ok {
					return n.Obj().Name(), true
				}
				return "interface", true
			}
		}
	}
	return "", false
}

// originOf: where does the object denoted by e come from
func (c *lockCtx) originOf(e ast.Expr) string {
	switch x := ast.Unparen(e).(type) {
	case *ast.Ident:
		obj := c.info.Uses[x]
		if obj == nil {
			obj = c.info.Defs[x]
		}
		if obj == c.recv {
			return "self"
		}
		if o, ok := c.origin[obj]; ok {
			return o
		}
		if c.params[obj] {
			return "param"
		}
		if v, ok := obj.(*types.Var); ok && v.Parent() == v.Pkg().Scope() {
			return "global"
		}
		return "unknown"
	case *ast.SelectorExpr:
		if c.isRecv(x.X) {
			return "child" // own state (guarded containers, cached children, spec)
		}
		if s := c.info.Selections[x]; s == nil {
			return "global" // pkg.Name
		}
		return c.originOf(x.X)
	case *ast.IndexExpr:
		return c.originOf(x.X)
	case *ast.TypeAssertExpr:
		return c.originOf(x.X)
	case *ast.StarExpr:
		return c.originOf(x.X)
	case *ast.UnaryExpr:
		return c.originOf(x.X)
	case *ast.CallExpr:
		if se, ok := x.Fun.(*ast.SelectorExpr); ok {
			if s := c.info.Selections[se]; s != nil && s.Kind() == types.MethodVal {
				if o := c.originOf(se.X); o == "self" {
					return "child"
				} else {
					return o
				}
			}
		}
		return "fresh" // result of a function (constructor) call
	case *ast.CompositeLit:
		return "fresh"
	}
	return "unknown"
}

func (c *lockCtx) bind(lhs ast.Expr, o string) {
	if id, ok := lhs.(*ast.Ident); ok && id.Name != "_" {
		obj := c.info.Defs[id]
		if obj == nil {
			obj = c.info.Uses[id]
		}
		if obj != nil && obj != c.recv {
			if old, ok := c.origin[obj]; ok && old != o {
				o = "unknown" // re-bound to something of a different origin
			}
			c.origin[obj] = o
		}
	}
}

func (c *lockCtx) walkBody(body *ast.BlockStmt) {
	topLevel := map[*ast.CallExpr]string{}
	for _, st := range body.List {
		switch s := st.(type) {
		case *ast.ExprStmt:
			if call, ok := s.X.(*ast.CallExpr); ok {
				if m, _, ok := c.muCall(call); ok && m == "Lock" {
					topLevel[call] = "lock"
				} else if ok && m == "Unlock" {
					topLevel[call] = "unlock"
				}
			}
		case *ast.DeferStmt:
			if m, _, ok := c.muCall(s.Call); ok && m == "Unlock" {
				topLevel[s.Call] = "deferUnlock"
			}
		}
	}
	written := map[ast.Expr]bool{}
	markWrite := func(e ast.Expr) {
		for {
			e = ast.Unparen(e)
			if ix, ok := e.(*ast.IndexExpr); ok {
				e = ix.X
				continue
			}
			break
		}
		if _, ok := c.recvField(e); ok {
			written[e] = true
		}
	}
	handled := map[ast.Node]bool{} // selectors already accounted for by their parent
	var post []func()
	ast.Inspect(body, func(n ast.Node) bool {
		if n == nil {
			f := post[len(post)-1]
			post = post[:len(post)-1]
			if f != nil {
				f()
			}
			return true
		}
		var after func()
		switch x := n.(type) {
		case *ast.GoStmt:
			c.emit("unknown", "go statement", "")
		case *ast.AssignStmt:
			for _, l := range x.Lhs {
				markWrite(l)
			}
			for i, l := range x.Lhs {
				if len(x.Rhs) == len(x.Lhs) {
					c.bind(l, c.originOf(x.Rhs[i]))
				} else if len(x.Rhs) == 1 && i == 0 {
					c.bind(l, c.originOf(x.Rhs[0]))
				}
			}
		case *ast.ValueSpec:
			for i, id := range x.Names {
				if i < len(x.Values) {
					c.bind(id, c.originOf(x.Values[i]))
				}
			}
		case *ast.RangeStmt:
			o := c.originOf(x.X)
			if x.Key != nil {
				c.bind(x.Key, "fresh") // keys are values, not objects
			}
			if x.Value != nil {
				c.bind(x.Value, o)
			}
		case *ast.IncDecStmt:
			markWrite(x.X)
		case *ast.UnaryExpr:
			if x.Op == token.AND {
				if f, ok := c.recvField(x.X); ok {
					c.emit("unknown", "address of "+f+" taken", "")
				}
			}
		case *ast.CallExpr:
			if m, inner, ok := c.muCall(x); ok {
				handled[inner] = true
				handled[x.Fun] = true
				switch {
				case topLevel[x] != "":
					c.emit(topLevel[x], "", "")
				case m == "Lock" || m == "Unlock":
					c.emit("unknown", "mutex "+m+" not at the top level of the method body", "")
				default:
					c.emit("unknown", "mutex method "+m, "")
				}
				return push(&post, nil)
			}
			if id, ok := x.Fun.(*ast.Ident); ok && id.Name == "delete" && len(x.Args) > 0 {
				if _, isBuiltin := c.info.Uses[id].(*types.Builtin); isBuiltin {
					markWrite(x.Args[0])
				}
			}
			// a guarded map handed to another function escapes the lock
			for _, a := range x.Args {
				if f, ok := c.recvField(a); ok {
					if _, isMap := c.info.TypeOf(a).Underlying().(*types.Map); isMap {
						if id, ok := x.Fun.(*ast.Ident); !ok || (id.Name != "delete" && id.Name != "len") {
							c.emit("unknown", "map "+f+" passed to a call", "")
						}
					}
				}
			}
			if se, ok := x.Fun.(*ast.SelectorExpr); ok {
				if s := c.info.Selections[se]; s != nil && s.Kind() == types.MethodVal {
					handled[se] = true
					if c.isRecv(se.X) {
						name := se.Sel.Name
						after = func() { c.emit("call", name, "") }
					} else if tn, ok := c.lockingTarget(s.Recv()); ok {
						o, name := c.originOf(se.X), se.Sel.Name
						after = func() { c.steps = append(c.steps, lockStep{"callOther", o, tn, name}) }
					}
				}
			}
		case *ast.ReturnStmt:
			for _, r := range x.Results {
				if f, ok := c.recvField(r); ok {
					if _, isMap := c.info.TypeOf(r).Underlying().(*types.Map); isMap {
						c.emit("unknown", "map "+f+" returned", "")
					}
				}
			}
		case *ast.SelectorExpr:
			if c.isRecv(x.X) {
				handled[ast.Unparen(x.X)] = true // the receiver is used to select, it does not escape
			}
			if handled[x] {
				break
			}
			if f, ok := c.recvField(x); ok {
				switch {
				case c.isMutexField(f):
					c.emit("unknown", "mutex used other than by Lock/Unlock", "")
				case written[x]:
					c.emit("write", f, "")
				default:
					c.emit("read", f, "")
				}
			} else if s := c.info.Selections[x]; s != nil && s.Kind() == types.MethodVal && c.isRecv(x.X) {
				c.emit("unknown", "method value "+x.Sel.Name, "")
			}
		case *ast.Ident:
			if c.recv != nil && c.info.Uses[x] == c.recv && !handled[x] {
				c.emit("unknown", "receiver escapes", "")
			}
		}
		post = append(post, after)
		return true
	})
}

func push(post *[]func(), f func()) bool { *post = append(*post, f); return true }

func lockFactsForPackage(fset *token.FileSet, imp types.Importer, dir, path string) ([]lockMethod, [][3]string) {
	pkgs, err := parser.ParseDir(fset, filepath.Join(repo, dir), func(fi os.FileInfo) bool {
		return !strings.HasSuffix(fi.Name(), "_test.go")
	}, parser.ParseComments)
	must(err)
	var files []*ast.File
	var names []string
	for _, p := range pkgs {
		if strings.HasSuffix(p.Name, "_test") {
			continue
		}
		for n := range p.Files {
			names = append(names, n)
		}
		sort.Strings(names)
		for _, n := range names {
			files = append(files, p.Files[n])
		}
	}
	info := &types.Info{Selections: map[*ast.SelectorExpr]*types.Selection{}, Uses: map[*ast.Ident]types.Object{},
		Defs: map[*ast.Ident]types.Object{}, Types: map[ast.Expr]types.TypeAndValue{}}
	var terr []string
	conf := types.Config{Importer: imp, Error: func(err error) { terr = append(terr, err.Error()) }}
	pkg, _ := conf.Check(path, fset, files, info)
	if len(terr) > 0 {
		must(fmt.Errorf("lock facts: %s does not type-check: %s", path, strings.Join(terr, "; ")))
	}
	locking := map[*types.TypeName]bool{}
	var structs [][3]string
	scan := func(p *types.Package, own bool) {
		for _, n := range p.Scope().Names() {
			if tn, ok := p.Scope().Lookup(n).(*types.TypeName); ok {
				if st, ok := ownsMutex(tn.Type()); ok {
					locking[tn] = true
					if own {
						for i := 0; i < st.NumFields(); i++ {
							structs = append(structs, [3]string{tn.Name(), st.Field(i).Name(),
								types.TypeString(st.Field(i).Type(), func(q *types.Package) string { return q.Name() })})
						}
					}
				}
			}
		}
	}
	scan(pkg, true)
	for _, ip := range pkg.Imports() {
		scan(ip, false)
	}
	var out []lockMethod
	for _, f := range files {
		for _, d := range f.Decls {
			fd, ok := d.(*ast.FuncDecl)
			if !ok || fd.Recv == nil || len(fd.Recv.List) != 1 || fd.Body == nil {
				continue
			}
			fn, _ := info.Defs[fd.Name].(*types.Func)
			if fn == nil {
				continue
			}
			rt := fn.Type().(*types.Signature).Recv().Type()
			ptr := false
			if p, ok := rt.(*types.Pointer); ok {
				rt, ptr = p.Elem(), true
			}
			named, ok := rt.(*types.Named)
			if !ok || !locking[named.Obj()] || named.Obj().Pkg() != pkg {
				continue
			}
			st, _ := ownsMutex(named)
			c := &lockCtx{info: info, locking: locking, strct: st, origin: map[types.Object]string{}, params: map[types.Object]bool{}}
			if len(fd.Recv.List[0].Names) == 1 {
				c.recv, _ = info.Defs[fd.Recv.List[0].Names[0]].(*types.Var)
			}
			if fd.Type.Params != nil {
				for _, p := range fd.Type.Params.List {
					for _, id := range p.Names {
						c.params[info.Defs[id]] = true
					}
				}
			}
			if !ptr {
				c.emit("unknown", "value receiver copies the mutex", "")
			}
			c.walkBody(fd.Body)
			pos := fset.Position(fd.Pos())
			rel, _ := filepath.Rel(repo, pos.Filename)
			out = append(out, lockMethod{named.Obj().Name(), fd.Name.Name, fd.Name.IsExported(), fmt.Sprintf("%s:%d", rel, pos.Line), c.steps})
		}
	}
	return out, structs
}

func genLockFacts() {
	cwd, _ := os.Getwd()
	must(os.Chdir(repo)) // the source importer resolves module paths from the working directory
	defer os.Chdir(cwd)
	fset := token.NewFileSet()
	imp := importer.ForCompiler(fset, "source", nil)
	var methods []lockMethod
	var structs [][3]string
	for _, p := range [][2]string{{"", "github.com/moov-io/iso8583"}, {"field", "github.com/moov-io/iso8583/field"}} {
		m, s := lockFactsForPackage(fset, imp, p[0], p[1])
		methods = append(methods, m...)
		structs = append(structs, s...)
	}
	var sb strings.Builder
	sb.WriteString("-- GENERATED by harness/cmd/extract (locks.go) from /repo/*.go and /repo/field/*.go. Do not edit.\nnamespace Iso8583.Gen\n\n")
	sb.WriteString("/-- (struct type owning a mutex, field, field type) -/\ndef lockStructs : List (String × String × String) := [\n")
	for i, s := range structs {
		fmt.Fprintf(&sb, "  (%q, %q, %q)%s\n", s[0], s[1], s[2], sepAt(i, len(structs)))
	}
	sb.WriteString("]\n\n/-- (receiver type, method, exported, micro-steps in source order); a micro-step is (kind, a, b, c) -/\n")
	sb.WriteString("def lockFacts : List (String × String × Bool × List (String × String × String × String)) := [\n")
	for i, m := range methods {
		fmt.Fprintf(&sb, "  -- %s\n  (%q, %q, %v, [", m.pos, m.recv, m.name, m.exported)
		for j, s := range m.steps {
			if j > 0 && j%4 == 0 {
				sb.WriteString(",\n      ")
			} else if j > 0 {
				sb.WriteString(", ")
			}
			fmt.Fprintf(&sb, "(%q, %q, %q, %q)", s.kind, s.a, s.b, s.c)
		}
		fmt.Fprintf(&sb, "])%s\n", sepAt(i, len(methods)))
	}
	sb.WriteString("]\n\nend Iso8583.Gen\n")
	writeIfChanged("LockFacts.lean", sb.String())
}

func sepAt(i, n int) string {
	if i == n-1 {
		return ""
	}
	return ","
}
