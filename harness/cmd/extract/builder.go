package main

// genBuilderTables regenerates lean/Iso8583/Gen/BuilderTables.lean from
// /repo/specs/builder.go (and the few declarations in encoding/, padding/, prefix/,
// field/ and sort/ that the builder's tables refer to): the key sets of the name
// tables with the Go expression each key maps to, the reverse tables used by the
// export side, the expressions through which exportField/exportTag/exportEnc/exportPad
// turn a value back into a name, and three structural facts about importField /
// constructField (nil check, recover, how a composite's bitmap is constructed).
// Facts only: whatever is not recognised is emitted as "unknown", so that the Lean
// `decide`s over the tables fail instead of passing.

import (
	"bytes"
	"fmt"
	"go/ast"
	"go/parser"
	"go/printer"
	"go/token"
	"path/filepath"
	"regexp"
	"sort"
	"strconv"
	"strings"
)

var wsRe = regexp.MustCompile(`\s+`)

func exprText(fset *token.FileSet, n ast.Node) string {
	if n == nil {
		return "unknown"
	}
	var buf bytes.Buffer
	if err := printer.Fprint(&buf, fset, n); err != nil {
		return "unknown"
	}
	return strings.TrimSpace(wsRe.ReplaceAllString(buf.String(), " "))
}

type pair struct{ k, v string }

// leanRows emits a list of string tuples (all rows of the same width).
func leanRows(name, doc string, width int, rows [][]string) string {
	var sb strings.Builder
	fmt.Fprintf(&sb, "/-- %s -/\ndef %s : List (%s) := [", doc, name, strings.Join(strings.Split(strings.Repeat("String ", width), " ")[:width], " × "))
	for i, r := range rows {
		if i > 0 {
			sb.WriteString(",")
		}
		var cells []string
		for _, c := range r {
			cells = append(cells, leanStr(c))
		}
		for len(cells) < width {
			cells = append(cells, leanStr("unknown"))
		}
		fmt.Fprintf(&sb, "\n  (%s)", strings.Join(cells, ", "))
	}
	sb.WriteString("]\n\n")
	return sb.String()
}

// split a classified table into rows: key, expression, then the expression's components
func rowsOf(ps []pair, parts func(v string) []string) [][]string {
	var out [][]string
	for _, p := range ps {
		out = append(out, append([]string{p.k, p.v}, parts(p.v)...))
	}
	return out
}

func leanPairs(name, doc string, ps []pair) string {
	var sb strings.Builder
	fmt.Fprintf(&sb, "/-- %s -/\ndef %s : List (String × String) := [", doc, name)
	for i, p := range ps {
		if i > 0 {
			sb.WriteString(",")
		}
		fmt.Fprintf(&sb, "\n  (%s, %s)", leanStr(p.k), leanStr(p.v))
	}
	sb.WriteString("]\n\n")
	return sb.String()
}


func leanBool(b bool) string {
	if b {
		return "true"
	}
	return "false"
}

func stringLit(e ast.Expr) (string, bool) {
	bl, ok := e.(*ast.BasicLit)
	if !ok || bl.Kind != token.STRING {
		return "", false
	}
	s, err := strconv.Unquote(bl.Value)
	return s, err == nil
}

// mapLiteral returns the (key, classified value) pairs of `var name = map[..]..{...}` in source order.
func mapLiteral(fset *token.FileSet, f *ast.File, name string, classify func(ast.Expr) string) []pair {
	e := findVar(f, name)
	cl, ok := e.(*ast.CompositeLit)
	if !ok {
		return []pair{{"unknown", "unknown"}}
	}
	var out []pair
	for _, el := range cl.Elts {
		kv, ok := el.(*ast.KeyValueExpr)
		if !ok {
			out = append(out, pair{"unknown", "unknown"})
			continue
		}
		k, ok := stringLit(kv.Key)
		if !ok {
			k = "unknown"
		}
		out = append(out, pair{k, classify(kv.Value)})
	}
	return out
}

var padderFuncRe = regexp.MustCompile(`^func\(pad string\) padding\.Padder \{ if runes := \[\]rune\(pad\); len\(runes\) == 1 \{ return (padding\.\w+)\(runes\[0\]\) \} return nil \}$`)
var padderConstRe = regexp.MustCompile(`^func\(pad string\) padding\.Padder \{ return (padding\.\w+) \}$`)
var ctorFuncRe = regexp.MustCompile(`^func\(spec \*field\.Spec\) field\.Field \{ return (field\.\w+)\(spec\) \}$`)
var selectorRe = regexp.MustCompile(`^\w+(\.\w+)+$`)

func findFunc(f *ast.File, name string) *ast.FuncDecl {
	for _, d := range f.Decls {
		if fd, ok := d.(*ast.FuncDecl); ok && fd.Recv == nil && fd.Name.Name == name {
			return fd
		}
	}
	return nil
}

// hasDeferredRecover: the function body contains `defer func() { ... recover() ... }()` at top level.
func hasDeferredRecover(fd *ast.FuncDecl) bool {
	if fd == nil || fd.Body == nil {
		return false
	}
	for _, st := range fd.Body.List {
		ds, ok := st.(*ast.DeferStmt)
		if !ok {
			continue
		}
		fl, ok := ds.Call.Fun.(*ast.FuncLit)
		if !ok {
			continue
		}
		found := false
		ast.Inspect(fl.Body, func(n ast.Node) bool {
			if c, ok := n.(*ast.CallExpr); ok {
				if id, ok := c.Fun.(*ast.Ident); ok && id.Name == "recover" && len(c.Args) == 0 {
					found = true
				}
			}
			return true
		})
		if found {
			return true
		}
	}
	return false
}

// assignedExpr: text of the right-hand side of the unique assignment `lhs = rhs` / `lhs := rhs`
// (first left-hand side, single right-hand side or the first of a call's results) inside fd.
func assignedExpr(fset *token.FileSet, fd *ast.FuncDecl, lhs string) string {
	if fd == nil {
		return "unknown"
	}
	var found []string
	ast.Inspect(fd.Body, func(n ast.Node) bool {
		switch as := n.(type) {
		case *ast.AssignStmt:
			if len(as.Lhs) >= 1 && len(as.Rhs) == 1 && exprText(fset, as.Lhs[0]) == lhs {
				found = append(found, exprText(fset, as.Rhs[0]))
			}
		case *ast.KeyValueExpr: // member of a composite literal: `Lhs: rhs`
			if id, ok := as.Key.(*ast.Ident); ok && id.Name == lhs {
				found = append(found, exprText(fset, as.Value))
			}
		}
		return true
	})
	if len(found) != 1 {
		return "unknown"
	}
	return found[0]
}

func genBuilderTables() {
	fset, f := parseFile("specs/builder.go")
	text := func(e ast.Expr) string { return exprText(fset, e) }

	ctor := mapLiteral(fset, f, "FieldConstructor", func(e ast.Expr) string {
		if m := ctorFuncRe.FindStringSubmatch(text(e)); m != nil {
			return m[1]
		}
		return "unknown"
	})
	sel := func(e ast.Expr) string {
		if t := text(e); selectorRe.MatchString(t) {
			return t
		}
		return "unknown"
	}
	strv := func(e ast.Expr) string {
		if s, ok := stringLit(e); ok {
			return s
		}
		return "unknown"
	}
	prefixes := mapLiteral(fset, f, "PrefixesExtToInt", sel)
	encs := mapLiteral(fset, f, "EncodingsExtToInt", sel)
	encsRev := mapLiteral(fset, f, "EncodingsIntToExt", strv)
	padsRev := mapLiteral(fset, f, "PaddersIntToExt", strv)
	pads := mapLiteral(fset, f, "PaddersExtToInt", func(e ast.Expr) string {
		t := text(e)
		if m := padderFuncRe.FindStringSubmatch(t); m != nil {
			return "rune1:" + m[1]
		}
		if m := padderConstRe.FindStringSubmatch(t); m != nil {
			return "const:" + m[1]
		}
		return "unknown"
	})
	sorts := mapLiteral(fset, f, "SortExtToInt", sel)

	// the export side: through which expression each name is produced
	exportVia := []pair{
		{"type", assignedExpr(fset, findFunc(f, "exportField"), "fieldType")},
		{"prefix", assignedExpr(fset, findFunc(f, "exportField"), "dummyField.Prefix")},
		{"enc.key", assignedExpr(fset, findFunc(f, "exportEnc"), "encType")},
		{"enc.name", lookupExpr(fset, findFunc(f, "exportEnc"))},
		{"pad.key", assignedExpr(fset, findFunc(f, "exportPad"), "paddingType")},
		{"pad.name", lookupExpr(fset, findFunc(f, "exportPad"))},
		{"pad.pad", assignedExpr(fset, findFunc(f, "exportPad"), "Pad")},
		{"sort", assignedExpr(fset, findFunc(f, "exportTag"), "dummy.Sort")},
		{"sort.name", returnExpr(fset, findFunc(f, "getFunctionName"))},
	}

	// structural facts about the import side
	imp := findFunc(f, "importField")
	nilCheck := false
	if imp != nil && imp.Body != nil && len(imp.Body.List) > 0 {
		if is, ok := imp.Body.List[0].(*ast.IfStmt); ok && is.Init == nil && text(is.Cond) == "dummyField == nil" && len(is.Body.List) == 1 {
			if rs, ok := is.Body.List[0].(*ast.ReturnStmt); ok && len(rs.Results) == 2 && text(rs.Results[0]) == "nil" && text(rs.Results[1]) != "nil" {
				nilCheck = true
			}
		}
	}
	cf := findFunc(f, "constructField")
	recovers := hasDeferredRecover(cf)
	// the table lookup and the call of the looked-up constructor both happen inside constructField
	cfShape := "unknown"
	if cf != nil {
		direct := returnExpr(fset, cf) == "constructor(spec), nil"
		viaF := topLevelAssign(fset, cf, "f") == "constructor(spec)" && returnExpr(fset, cf) == "f, nil"
		if assignedExpr(fset, cf, "constructor") == "FieldConstructor[fieldType]" && (direct || viaF) {
			cfShape = "FieldConstructor[fieldType](spec)"
		}
	}
	// constructField rejects a constructed non-composite field that has no encoder:
	//   if _, ok := f.(*field.Composite); !ok && spec.Enc == nil { return nil, <error> }
	requiresEnc := false
	if cf != nil && cf.Body != nil {
		for _, st := range cf.Body.List {
			is, ok := st.(*ast.IfStmt)
			if !ok || is.Init == nil || is.Else != nil || len(is.Body.List) != 1 {
				continue
			}
			if text(is.Cond) != "!ok && spec.Enc == nil" || exprText(fset, is.Init) != "_, ok := f.(*field.Composite)" {
				continue
			}
			if rs, ok := is.Body.List[0].(*ast.ReturnStmt); ok && len(rs.Results) == 2 && text(rs.Results[0]) == "nil" && text(rs.Results[1]) != "nil" {
				requiresEnc = true
			}
		}
	}
	// every direct call of a field constructor (field.NewX) outside the FieldConstructor table,
	// with the enclosing function and whether that function recovers
	var directCalls []pair
	for _, d := range f.Decls {
		fd, ok := d.(*ast.FuncDecl)
		if !ok || fd.Body == nil {
			continue
		}
		rec := hasDeferredRecover(fd)
		ast.Inspect(fd.Body, func(n ast.Node) bool {
			c, ok := n.(*ast.CallExpr)
			if !ok {
				return true
			}
			if t := text(c.Fun); strings.HasPrefix(t, "field.New") {
				g := "unguarded"
				if rec {
					g = "recovered"
				}
				directCalls = append(directCalls, pair{fd.Name.Name + ":" + t, g})
			}
			return true
		})
	}
	// how importField obtains the composite's bitmap field
	bitmapVia := "unknown"
	if imp != nil {
		rhs := assignedExpr(fset, imp, "bitmapField")
		if m := regexp.MustCompile(`^constructField\("(\w+)", bitmapSpec, index\)$`).FindStringSubmatch(rhs); m != nil {
			// … followed by the checked type assertion to *field.Bitmap
			if assignedExpr(fset, imp, "bitmap") == "bitmapField.(*field.Bitmap)" && assignedExpr(fset, imp, "fieldSpec.Bitmap") == "bitmap" {
				bitmapVia = "constructField:" + m[1]
			}
		} else if d := assignedExpr(fset, imp, "fieldSpec.Bitmap"); d == "field.NewBitmap(bitmapSpec)" {
			bitmapVia = "direct:field.NewBitmap"
		}
	}

	var sb strings.Builder
	sb.WriteString("-- GENERATED by harness/cmd/extract from /repo/specs/builder.go (+ encoding/, padding/, prefix/, field/, sort/). Do not edit.\nnamespace Iso8583.Gen\n\n")
	afterDot := func(pkg string, n int) func(string) []string {
		return func(v string) []string {
			t := strings.Split(v, ".")
			out := make([]string, n)
			if len(t) < 2 || len(t) > n+1 || t[0] != pkg {
				for i := range out {
					out[i] = "unknown"
				}
				return out
			}
			copy(out, t[1:]) // missing trailing components stay ""
			return out
		}
	}
	sb.WriteString(leanRows("fieldConstructor", "FieldConstructor: (type name, constructor called by the function literal, its name in package field)", 3, rowsOf(ctor, afterDot("field", 1))))
	sb.WriteString(leanRows("prefixesExtToInt", "PrefixesExtToInt: (name, Go expression, exported variable of package prefix, Prefixers slot or \"\")", 4, rowsOf(prefixes, afterDot("prefix", 2))))
	sb.WriteString(leanRows("encodingsExtToInt", "EncodingsExtToInt: (name, Go expression, exported variable of package encoding)", 3, rowsOf(encs, afterDot("encoding", 1))))
	sb.WriteString(leanPairs("encodingsIntToExt", "EncodingsIntToExt: implementation type name ↦ name (export side)", encsRev))
	sb.WriteString(leanRows("paddersExtToInt", "PaddersExtToInt: (name, `rune1:<ctor>` = constructor applied iff the pad string is a single rune else nil | `const:<value>`, kind, name in package padding)", 4, rowsOf(pads, func(v string) []string {
		t := strings.SplitN(v, ":", 2)
		if len(t) != 2 || !strings.HasPrefix(t[1], "padding.") || strings.Count(t[1], ".") != 1 {
			return []string{"unknown", "unknown"}
		}
		return []string{t[0], strings.TrimPrefix(t[1], "padding.")}
	})))
	sb.WriteString(leanPairs("paddersIntToExt", "PaddersIntToExt: implementation type name ↦ name (export side)", padsRev))
	sb.WriteString(leanRows("sortExtToInt", "SortExtToInt: (name, Go expression, exported name in package sort)", 3, rowsOf(sorts, afterDot("moovsort", 1))))
	sb.WriteString(leanPairs("exportVia", "expressions through which the export side produces each name", exportVia))
	sb.WriteString(leanPairs("encoderVars", "encoding/*.go: exported variable ↦ implementation type", scanValueVars("encoding")))
	sb.WriteString(leanPairs("padderCtors", "padding/*.go: exported constructor / variable ↦ implementation type", scanValueVars("padding")))
	sb.WriteString(leanPairs("fieldCtorTypes", "field/*.go: constructor `func NewX(spec *Spec) *T` ↦ T", scanFieldCtors()))
	sb.WriteString(leanPairs("sortDecls", "sort/*.go: exported name ↦ `func` (its runtime name is its own) | `var:<expr>`", scanSortDecls()))
	sb.WriteString("/-- prefix/*.go: implementation type ↦ (literal returned by Inspect | prefix of the Sprintf format, whether `strings.Repeat(\"L\", digits)` follows) -/\ndef prefixInspect : List (String × String × Bool) := [")
	for i, r := range scanInspect() {
		if i > 0 {
			sb.WriteString(",")
		}
		fmt.Fprintf(&sb, "\n  (%s, %s, %s)", leanStr(r.typ), leanStr(r.lit), leanBool(r.rep))
	}
	sb.WriteString("]\n\n")
	fmt.Fprintf(&sb, "/-- importField starts with `if dummyField == nil { return nil, <error> }` -/\ndef importFieldChecksNil : Bool := %s\n\n", leanBool(nilCheck))
	fmt.Fprintf(&sb, "/-- constructField has a deferred recover -/\ndef constructFieldRecovers : Bool := %s\n\n", leanBool(recovers))
	fmt.Fprintf(&sb, "/-- constructField returns an error for a constructed non-composite field whose spec has no encoder -/\ndef constructFieldRequiresEnc : Bool := %s\n\n", leanBool(requiresEnc))
	fmt.Fprintf(&sb, "/-- what constructField calls -/\ndef constructFieldCalls : String := %s\n\n", leanStr(cfShape))
	fmt.Fprintf(&sb, "/-- how importField constructs a composite's bitmap -/\ndef compositeBitmapVia : String := %s\n\n", leanStr(bitmapVia))
	sb.WriteString(leanPairs("directCtorCalls", "direct calls of field constructors: `function:callee` ↦ recovered | unguarded", directCalls))
	sb.WriteString("end Iso8583.Gen\n")
	writeIfChanged("BuilderTables.lean", sb.String())
}

// topLevelAssign: right-hand side of the unique top-level statement `lhs = rhs` of fd's body.
func topLevelAssign(fset *token.FileSet, fd *ast.FuncDecl, lhs string) string {
	if fd == nil || fd.Body == nil {
		return "unknown"
	}
	var found []string
	for _, st := range fd.Body.List {
		if as, ok := st.(*ast.AssignStmt); ok && len(as.Lhs) == 1 && len(as.Rhs) == 1 && exprText(fset, as.Lhs[0]) == lhs {
			found = append(found, exprText(fset, as.Rhs[0]))
		}
	}
	if len(found) != 1 {
		return "unknown"
	}
	return found[0]
}

// lookupExpr: the `M[k]` of the (unique) `v, found := M[k]` in fd.
func lookupExpr(fset *token.FileSet, fd *ast.FuncDecl) string {
	if fd == nil {
		return "unknown"
	}
	var found []string
	ast.Inspect(fd.Body, func(n ast.Node) bool {
		if as, ok := n.(*ast.AssignStmt); ok && len(as.Lhs) == 2 && len(as.Rhs) == 1 {
			if ix, ok := as.Rhs[0].(*ast.IndexExpr); ok && exprText(fset, as.Lhs[1]) == "found" {
				found = append(found, exprText(fset, ix)) // the variable's name is immaterial
			}
		}
		return true
	})
	if len(found) != 1 {
		return "unknown"
	}
	// the looked-up value must be what is returned / stored
	return found[0]
}

// returnExpr: text of the results of the last top-level return statement of fd.
func returnExpr(fset *token.FileSet, fd *ast.FuncDecl) string {
	if fd == nil || fd.Body == nil || len(fd.Body.List) == 0 {
		return "unknown"
	}
	rs, ok := fd.Body.List[len(fd.Body.List)-1].(*ast.ReturnStmt)
	if !ok {
		return "unknown"
	}
	var parts []string
	for _, r := range rs.Results {
		parts = append(parts, exprText(fset, r))
	}
	return strings.Join(parts, ", ")
}

func pkgFiles(dir string) []string {
	files, err := filepath.Glob(filepath.Join(repo, dir, "*.go"))
	must(err)
	sort.Strings(files)
	var out []string
	for _, p := range files {
		if !strings.HasSuffix(p, "_test.go") {
			out = append(out, p)
		}
	}
	return out
}

// addrType: T of `&T{...}`.
func addrType(e ast.Expr) (string, bool) {
	ue, ok := e.(*ast.UnaryExpr)
	if !ok || ue.Op != token.AND {
		return "", false
	}
	cl, ok := ue.X.(*ast.CompositeLit)
	if !ok {
		return "", false
	}
	id, ok := cl.Type.(*ast.Ident)
	if !ok {
		return "", false
	}
	return id.Name, true
}

// scanValueVars: exported `var X = &T{…}`, exported `func X(..) I { …; return &T{…} }` and
// `var X … = OtherFunc` (followed to that function) in a package directory.
func scanValueVars(dir string) []pair {
	funcsRet := map[string]string{}
	type decl struct {
		name string
		val  ast.Expr
	}
	var vars []decl
	for _, p := range pkgFiles(dir) {
		fset := token.NewFileSet()
		f, err := parser.ParseFile(fset, p, nil, 0)
		must(err)
		for _, d := range f.Decls {
			switch d := d.(type) {
			case *ast.FuncDecl:
				if d.Recv != nil || d.Body == nil || len(d.Body.List) == 0 {
					continue
				}
				if rs, ok := d.Body.List[len(d.Body.List)-1].(*ast.ReturnStmt); ok && len(rs.Results) == 1 {
					if t, ok := addrType(rs.Results[0]); ok {
						funcsRet[d.Name.Name] = t
					}
				}
			case *ast.GenDecl:
				if d.Tok != token.VAR {
					continue
				}
				for _, s := range d.Specs {
					vs := s.(*ast.ValueSpec)
					for i, id := range vs.Names {
						if i < len(vs.Values) && id.IsExported() {
							vars = append(vars, decl{id.Name, vs.Values[i]})
						}
					}
				}
			}
		}
	}
	var out []pair
	seen := map[string]bool{}
	for _, v := range vars {
		if t, ok := addrType(v.val); ok {
			out = append(out, pair{v.name, t})
			seen[v.name] = true
		} else if id, ok := v.val.(*ast.Ident); ok {
			if t, ok := funcsRet[id.Name]; ok {
				out = append(out, pair{v.name, t})
				seen[v.name] = true
			}
		}
	}
	for name, t := range funcsRet {
		if ast.IsExported(name) && !seen[name] {
			out = append(out, pair{name, t})
		}
	}
	sort.Slice(out, func(i, j int) bool { return out[i].k < out[j].k })
	return out
}

func scanFieldCtors() []pair {
	var out []pair
	for _, p := range pkgFiles("field") {
		fset := token.NewFileSet()
		f, err := parser.ParseFile(fset, p, nil, 0)
		must(err)
		for _, d := range f.Decls {
			fd, ok := d.(*ast.FuncDecl)
			if !ok || fd.Recv != nil || !strings.HasPrefix(fd.Name.Name, "New") || fd.Type.Results == nil {
				continue
			}
			ps := fd.Type.Params.List
			if len(ps) != 1 || exprText(fset, ps[0].Type) != "*Spec" || len(fd.Type.Results.List) != 1 {
				continue
			}
			rt := exprText(fset, fd.Type.Results.List[0].Type)
			if strings.HasPrefix(rt, "*") {
				out = append(out, pair{fd.Name.Name, rt[1:]})
			} else {
				out = append(out, pair{fd.Name.Name, "unknown"})
			}
		}
	}
	sort.Slice(out, func(i, j int) bool { return out[i].k < out[j].k })
	return out
}

func scanSortDecls() []pair {
	var out []pair
	for _, p := range pkgFiles("sort") {
		fset := token.NewFileSet()
		f, err := parser.ParseFile(fset, p, nil, 0)
		must(err)
		for _, d := range f.Decls {
			switch d := d.(type) {
			case *ast.FuncDecl:
				if d.Recv == nil && d.Name.IsExported() {
					out = append(out, pair{d.Name.Name, "func"})
				}
			case *ast.GenDecl:
				if d.Tok != token.VAR {
					continue
				}
				for _, s := range d.Specs {
					vs := s.(*ast.ValueSpec)
					for i, id := range vs.Names {
						if i < len(vs.Values) && id.IsExported() {
							out = append(out, pair{id.Name, "var:" + exprText(fset, vs.Values[i])})
						}
					}
				}
			}
		}
	}
	sort.Slice(out, func(i, j int) bool { return out[i].k < out[j].k })
	return out
}

type inspectRow struct {
	typ, lit string
	rep      bool
}

var sprintfRe = regexp.MustCompile(`^fmt\.Sprintf\("([^"%]*)%s", strings\.Repeat\("L", p\.[dD]igits\)\)$`)

func scanInspect() []inspectRow {
	var out []inspectRow
	for _, p := range pkgFiles("prefix") {
		fset := token.NewFileSet()
		f, err := parser.ParseFile(fset, p, nil, 0)
		must(err)
		for _, d := range f.Decls {
			fd, ok := d.(*ast.FuncDecl)
			if !ok || fd.Recv == nil || fd.Name.Name != "Inspect" || len(fd.Recv.List) != 1 {
				continue
			}
			typ := strings.TrimPrefix(exprText(fset, fd.Recv.List[0].Type), "*")
			row := inspectRow{typ, "unknown", false}
			if fd.Body != nil && len(fd.Body.List) == 1 {
				if rs, ok := fd.Body.List[0].(*ast.ReturnStmt); ok && len(rs.Results) == 1 {
					if s, ok := stringLit(rs.Results[0]); ok {
						row.lit = s
					} else if m := sprintfRe.FindStringSubmatch(exprText(fset, rs.Results[0])); m != nil {
						row.lit, row.rep = m[1], true
					}
				}
			}
			out = append(out, row)
		}
	}
	sort.Slice(out, func(i, j int) bool { return out[i].typ < out[j].typ })
	return out
}
