package main

// Map ranges (tie T for C15): every place where non-test code of the module iterates a Go
// map, and what the loop does with the (randomised) iteration order.
//
// Scanned: every directory of the module holding non-test .go files, except `test/` (fuzz
// tooling), `testdata`, `docs`, `vendor` and hidden directories. Scope column: `cmd` for
// package main under cmd/, `example` for examples/, `lib` for everything else (root, field,
// encoding, prefix, padding, sort, specs, network, utils, errors, exp/emv, ...).
//
// One row per `for … range X` with X of map type. Fail-closed extras (always `unknown`):
// range over an untyped / type-parameter / iterator-function operand, and every call of
// maps.Keys / maps.Values / maps.All or reflect's MapKeys / MapRange (map order in disguise).
//
// Classes (syntactic rules over the loop body and the statements following the loop in the
// same block; anything no rule covers is `unknown`):
//
//	collect-then-sort    body only does S = append(S, e…) (locals, `if … { continue }` filters allowed),
//	                     S is used nowhere else in the body, and the FIRST later statement of the
//	                     enclosing block that mentions S is a call sorting exactly S
//	build-map-or-set     body only does M[i] = e / delete(M, i) on a map M other than X, with i the
//	                     loop key or a body-local derived from it (note `derived-key` then)
//	per-key-independent  body only defines locals, assigns through them and calls functions; no
//	                     accumulation, no return/break/goto, nothing writer-typed
//	first-error-wins     one of the above (column `base`) plus `return <zero…>, <non-nil error>`
//	order-visible        append to a slice that is not sorted next, a write to an outer variable,
//	                     string building, a writer-typed call, break, return of a non-error value
//	unknown              nested loops / switches / closures / anything else
//
// Calls made in the body are NOT analysed (facts only): a call is held to be order-neutral
// unless its receiver or an argument is an io.Writer, or it is an expression statement with
// no operand rooted in a loop-local variable.

import (
	"fmt"
	"go/ast"
	"go/importer"
	"go/token"
	"go/types"
	"io/fs"
	"os"
	"path/filepath"
	"sort"
	"strings"
)

type mapRangeRow struct {
	pkg, scope, file, fn string
	line                 int
	expr, cls, base      string
	sink, sorter, note   string
}

type mrCtx struct {
	info    *types.Info
	modPath string
	writer  *types.Interface
	locals  map[types.Object]bool // loop key/value and variables defined in the body
	derived map[types.Object]bool // loop key and body-locals computed from it
	key     types.Object
	rangeX  string
	appends map[types.Object]int // outer slice -> number of `S = append(S, …)` statements
	maps    []string             // written map expressions
	dkey    bool
	early   bool
	calls   bool
	bad     string // reason for order-visible
	unk     string // reason for unknown
}

func (c *mrCtx) obj(e ast.Expr) types.Object {
	if id, ok := ast.Unparen(e).(*ast.Ident); ok {
		if o := c.info.Defs[id]; o != nil {
			return o
		}
		return c.info.Uses[id]
	}
	return nil
}

func (c *mrCtx) mentions(n ast.Node, set map[types.Object]bool) bool {
	found := false
	ast.Inspect(n, func(x ast.Node) bool {
		if id, ok := x.(*ast.Ident); ok && set[c.info.Uses[id]] {
			found = true
		}
		return !found
	})
	return found
}

func (c *mrCtx) isWriter(t types.Type) bool {
	if t == nil {
		return false
	}
	if types.Implements(t, c.writer) {
		return true
	}
	if _, ok := t.Underlying().(*types.Pointer); !ok {
		return types.Implements(types.NewPointer(t), c.writer)
	}
	return false
}

// exprs: scan an expression for calls (writer-typed operands, closures)
func (c *mrCtx) expr(e ast.Node) {
	if e == nil {
		return
	}
	ast.Inspect(e, func(n ast.Node) bool {
		switch x := n.(type) {
		case *ast.FuncLit:
			c.unk = "closure in body"
			return false
		case *ast.CallExpr:
			ops := append([]ast.Expr{}, x.Args...)
			if se, ok := x.Fun.(*ast.SelectorExpr); ok && c.info.Selections[se] != nil {
				ops = append(ops, se.X)
			}
			for _, o := range ops {
				if tv, ok := c.info.Types[o]; ok && c.isWriter(tv.Type) {
					c.bad = "writer-typed call " + types.ExprString(x.Fun)
				}
			}
		}
		return true
	})
}

func isZeroish(e ast.Expr) bool {
	switch x := ast.Unparen(e).(type) {
	case *ast.BasicLit:
		return true
	case *ast.Ident:
		return x.Name == "nil" || x.Name == "false" || x.Name == "true"
	case *ast.CompositeLit:
		return len(x.Elts) == 0
	}
	return false
}

func (c *mrCtx) define(lhs []ast.Expr, fromKey bool) {
	for _, l := range lhs {
		if o := c.obj(l); o != nil {
			c.locals[o] = true
			if fromKey {
				c.derived[o] = true
			}
		}
	}
}

func (c *mrCtx) stmts(list []ast.Stmt) {
	for _, s := range list {
		c.stmt(s)
	}
}

func (c *mrCtx) stmt(s ast.Stmt) {
	switch x := s.(type) {
	case nil, *ast.EmptyStmt:
	case *ast.BlockStmt:
		c.stmts(x.List)
	case *ast.DeclStmt:
		gd, ok := x.Decl.(*ast.GenDecl)
		if !ok || gd.Tok != token.VAR {
			c.unk = "declaration in body"
			return
		}
		for _, sp := range gd.Specs {
			vs := sp.(*ast.ValueSpec)
			fromKey := false
			for _, v := range vs.Values {
				c.expr(v)
				fromKey = fromKey || c.mentions(v, c.derived)
			}
			for _, id := range vs.Names {
				c.define([]ast.Expr{id}, fromKey)
			}
		}
	case *ast.ExprStmt:
		call, ok := x.X.(*ast.CallExpr)
		if !ok {
			c.unk = "expression statement"
			return
		}
		c.expr(call)
		if id, ok := call.Fun.(*ast.Ident); ok && id.Name == "delete" && len(call.Args) == 2 && c.info.Uses[id] == types.Universe.Lookup("delete") {
			c.mapWrite(call.Args[0], call.Args[1])
			return
		}
		if !c.mentions(call, c.locals) {
			c.bad = "call for effect on outer state only: " + types.ExprString(call.Fun)
		}
		c.calls = true
	case *ast.IncDecStmt:
		if o := c.obj(x.X); o != nil && c.locals[o] {
			return
		}
		c.bad = "counter " + types.ExprString(x.X)
	case *ast.AssignStmt:
		for _, r := range x.Rhs {
			c.expr(r)
		}
		fromKey := false
		for _, r := range x.Rhs {
			fromKey = fromKey || c.mentions(r, c.derived)
		}
		if x.Tok == token.DEFINE {
			c.define(x.Lhs, fromKey)
			return
		}
		// S = append(S, …)
		if len(x.Lhs) == 1 && len(x.Rhs) == 1 && x.Tok == token.ASSIGN {
			if call, ok := x.Rhs[0].(*ast.CallExpr); ok && len(call.Args) >= 1 && call.Ellipsis == token.NoPos {
				if id, ok := call.Fun.(*ast.Ident); ok && id.Name == "append" && c.info.Uses[id] == types.Universe.Lookup("append") {
					lo, ao := c.obj(x.Lhs[0]), c.obj(call.Args[0])
					if lo != nil && lo == ao && !c.locals[lo] {
						c.appends[lo]++
						return
					}
					c.bad = "append into " + types.ExprString(x.Lhs[0])
					return
				}
			}
		}
		for _, l := range x.Lhs {
			l = ast.Unparen(l)
			if id, ok := l.(*ast.Ident); ok && id.Name == "_" {
				continue
			}
			if o := c.obj(l); o != nil && c.locals[o] {
				if x.Tok != token.ASSIGN {
					continue
				}
				if fromKey {
					c.derived[o] = true
				}
				continue
			}
			if ix, ok := l.(*ast.IndexExpr); ok && x.Tok == token.ASSIGN {
				if tv, ok := c.info.Types[ix.X]; ok && tv.Type != nil {
					if _, isMap := tv.Type.Underlying().(*types.Map); isMap {
						c.mapWrite(ix.X, ix.Index)
						continue
					}
				}
			}
			// field of / element of a loop-local: per-key write
			if root := rootIdent(l); root != nil && l != ast.Expr(root) && c.locals[c.obj(root)] {
				c.calls = true
				continue
			}
			c.bad = "write to outer " + types.ExprString(l)
		}
	case *ast.IfStmt:
		c.stmt(x.Init)
		c.expr(x.Cond)
		c.stmt(x.Body)
		c.stmt(x.Else)
	case *ast.BranchStmt:
		if x.Tok != token.CONTINUE || x.Label != nil {
			c.bad = x.Tok.String() + " leaves the loop at the first key seen"
		}
	case *ast.ReturnStmt:
		n := len(x.Results)
		if n == 0 {
			c.bad = "bare return inside the loop"
			return
		}
		last := x.Results[n-1]
		tv, ok := c.info.Types[last]
		errT := types.Universe.Lookup("error").Type()
		if !ok || tv.Type == nil || tv.IsNil() || !types.Implements(tv.Type, errT.Underlying().(*types.Interface)) {
			c.bad = "return of a non-error value inside the loop"
			return
		}
		for _, r := range x.Results[:n-1] {
			if !isZeroish(r) {
				c.bad = "return of a key-dependent value inside the loop"
				return
			}
		}
		c.expr(last)
		c.early = true
	default:
		c.unk = fmt.Sprintf("%T in body", s)
	}
}

func rootIdent(e ast.Expr) *ast.Ident {
	for {
		switch x := ast.Unparen(e).(type) {
		case *ast.Ident:
			return x
		case *ast.SelectorExpr:
			e = x.X
		case *ast.IndexExpr:
			e = x.X
		case *ast.StarExpr:
			e = x.X
		default:
			return nil
		}
	}
}

func (c *mrCtx) mapWrite(m, idx ast.Expr) {
	txt := types.ExprString(m)
	if txt == c.rangeX {
		c.unk = "writes to the map being ranged"
		return
	}
	if !c.mentions(idx, c.derived) {
		c.bad = "map write not keyed by the loop key: " + txt + "[" + types.ExprString(idx) + "]"
		return
	}
	if o := c.obj(idx); o == nil || o != c.key {
		c.dkey = true
	}
	for _, t := range c.maps {
		if t == txt {
			return
		}
	}
	c.maps = append(c.maps, txt)
}

// sorterName: call sorts exactly the slice variable s (first argument)
func (c *mrCtx) sorterName(call *ast.CallExpr, s types.Object) (string, bool) {
	if len(call.Args) == 0 || c.obj(call.Args[0]) != s {
		return "", false
	}
	var fo types.Object
	switch f := ast.Unparen(call.Fun).(type) {
	case *ast.Ident:
		fo = c.obj(f)
	case *ast.SelectorExpr:
		fo = c.info.Uses[f.Sel]
	}
	if fo == nil {
		return "", false
	}
	repoSort := c.modPath + "/sort"
	if fn, ok := fo.(*types.Func); ok && fn.Pkg() != nil {
		p, n := fn.Pkg().Path(), fn.Name()
		std := map[string]bool{"sort.Ints": true, "sort.Strings": true, "sort.Float64s": true, "sort.Slice": true,
			"sort.SliceStable": true, "sort.Sort": true, "sort.Stable": true, "slices.Sort": true,
			"slices.SortFunc": true, "slices.SortStableFunc": true}
		if std[p+"."+n] || (p == repoSort && fn.Type().(*types.Signature).Recv() == nil && fn.Exported()) {
			return p + "." + n, true
		}
		return "", false
	}
	// a function value whose type is the repo's sort.StringSlice
	if v, ok := fo.(*types.Var); ok {
		if nt, ok := v.Type().(*types.Named); ok && nt.Obj().Pkg() != nil && nt.Obj().Pkg().Path() == repoSort {
			return "value " + v.Name() + " of type " + repoSort + "." + nt.Obj().Name(), true
		}
	}
	return "", false
}

func countUses(info *types.Info, n ast.Node, o types.Object) int {
	k := 0
	ast.Inspect(n, func(x ast.Node) bool {
		if id, ok := x.(*ast.Ident); ok && (info.Uses[id] == o || info.Defs[id] == o) {
			k++
		}
		return true
	})
	return k
}

func (c *mrCtx) classify(rs *ast.RangeStmt, following []ast.Stmt) (cls, base, sink, sorter, note string) {
	c.stmts(rs.Body.List)
	var notes []string
	if c.dkey {
		notes = append(notes, "derived-key")
	}
	fin := func(b string) (string, string, string, string, string) {
		cl := b
		if c.early {
			cl = "first-error-wins"
		}
		return cl, b, sink, sorter, strings.Join(notes, "; ")
	}
	switch {
	case c.unk != "":
		return "unknown", "unknown", "", "", c.unk
	case c.bad != "":
		return "order-visible", "order-visible", "", "", c.bad
	case len(c.appends) > 0:
		if len(c.maps) > 0 {
			return "unknown", "unknown", "", "", "appends and map writes mixed"
		}
		var sinks, sorters []string
		for s, n := range c.appends {
			if countUses(c.info, rs.Body, s) != 2*n {
				return "order-visible", "order-visible", "", "", "slice " + s.Name() + " is read inside the loop"
			}
			var first ast.Stmt
			for _, st := range following {
				if countUses(c.info, st, s) > 0 {
					first = st
					break
				}
			}
			es, _ := first.(*ast.ExprStmt)
			var call *ast.CallExpr
			if es != nil {
				call, _ = es.X.(*ast.CallExpr)
			}
			if call == nil {
				return "order-visible", "order-visible", "", "", "slice " + s.Name() + " is not sorted before its next use"
			}
			name, ok := c.sorterName(call, s)
			if !ok {
				return "order-visible", "order-visible", "", "", "slice " + s.Name() + " is next used by " + types.ExprString(call.Fun) + ", not a sort of the whole slice"
			}
			sinks = append(sinks, s.Name())
			sorters = append(sorters, name)
		}
		sort.Strings(sinks)
		sort.Strings(sorters)
		sink, sorter = strings.Join(sinks, "; "), strings.Join(sorters, "; ")
		return fin("collect-then-sort")
	case len(c.maps) > 0:
		sink = strings.Join(c.maps, "; ")
		return fin("build-map-or-set")
	default:
		return fin("per-key-independent")
	}
}

func funcName(fd *ast.FuncDecl) string {
	if fd.Recv == nil || len(fd.Recv.List) == 0 {
		return fd.Name.Name
	}
	return "(" + types.ExprString(fd.Recv.List[0].Type) + ")." + fd.Name.Name
}

func (p *pkgInfo) mapRanges(fset *token.FileSet, modPath, scope string, writer *types.Interface) []mapRangeRow {
	var rows []mapRangeRow
	for fi, f := range p.files {
		file := p.names[fi]
		for _, d := range f.Decls {
			fn := "(package level)"
			if fd, ok := d.(*ast.FuncDecl); ok {
				fn = funcName(fd)
			}
			var stack []ast.Node
			ast.Inspect(d, func(n ast.Node) bool {
				if n == nil {
					stack = stack[:len(stack)-1]
					return true
				}
				stack = append(stack, n)
				row := func(pos token.Pos, expr, cls, base, sink, sorter, note string) {
					name := fn
					for _, a := range stack {
						if _, ok := a.(*ast.FuncLit); ok {
							name = fn + " (closure)"
						}
					}
					rows = append(rows, mapRangeRow{p.rel, scope, file, name, fset.Position(pos).Line, expr, cls, base, sink, sorter, note})
				}
				switch x := n.(type) {
				case *ast.CallExpr:
					if se, ok := x.Fun.(*ast.SelectorExpr); ok {
						if fo, ok := p.info.Uses[se.Sel].(*types.Func); ok && fo.Pkg() != nil {
							q := fo.Pkg().Path() + "." + fo.Name()
							switch q {
							case "maps.Keys", "maps.Values", "maps.All", "golang.org/x/exp/maps.Keys", "golang.org/x/exp/maps.Values",
								"reflect.MapKeys", "reflect.MapRange":
								row(x.Pos(), types.ExprString(x), "unknown", "unknown", "", "", "map order through "+q)
							}
						}
					}
				case *ast.RangeStmt:
					tv, ok := p.info.Types[x.X]
					xs := types.ExprString(x.X)
					if !ok || tv.Type == nil || tv.Type == types.Typ[types.Invalid] {
						row(x.Pos(), xs, "unknown", "unknown", "", "", "range operand has no type (package does not type-check)")
						return true
					}
					switch tv.Type.Underlying().(type) {
					case *types.Map:
					case *types.Signature:
						row(x.Pos(), xs, "unknown", "unknown", "", "", "range over an iterator function")
						return true
					case *types.Interface:
						row(x.Pos(), xs, "unknown", "unknown", "", "", "range over a type parameter")
						return true
					default:
						return true // slice, array, pointer to array, string, channel, integer
					}
					c := &mrCtx{info: p.info, modPath: modPath, writer: writer, rangeX: xs,
						locals: map[types.Object]bool{}, derived: map[types.Object]bool{},
						appends: map[types.Object]int{}}
					if x.Key != nil {
						if o := c.obj(x.Key); o != nil {
							c.key = o
							c.locals[o], c.derived[o] = true, true
						}
					}
					if x.Value != nil {
						if o := c.obj(x.Value); o != nil {
							c.locals[o] = true
						}
					}
					var following []ast.Stmt
					found := false
					if len(stack) >= 2 {
						if blk, ok := stack[len(stack)-2].(*ast.BlockStmt); ok {
							for i, st := range blk.List {
								if st == ast.Stmt(x) {
									following, found = blk.List[i+1:], true
								}
							}
						}
					}
					var cls, base, sink, sorter, note string
					if x.Tok != token.DEFINE && (x.Key != nil || x.Value != nil) {
						cls, base, note = "unknown", "unknown", "loop variables assigned, not defined"
					} else if !found {
						cls, base, note = "unknown", "unknown", "loop is not a statement of a plain block"
					} else {
						cls, base, sink, sorter, note = c.classify(x, following)
					}
					row(x.Pos(), xs, cls, base, sink, sorter, note)
				}
				return true
			})
		}
	}
	return rows
}

func genMapRanges() {
	fset := token.NewFileSet()
	modPath := "github.com/moov-io/iso8583"
	if b, err := os.ReadFile(filepath.Join(repo, "go.mod")); err == nil {
		for _, ln := range strings.Split(string(b), "\n") {
			if strings.HasPrefix(ln, "module ") {
				modPath = strings.TrimSpace(strings.TrimPrefix(ln, "module "))
			}
		}
	}
	os.Setenv("GOFLAGS", "-mod=mod")
	os.Setenv("GOPROXY", "off")
	if os.Getenv("GOTOOLCHAIN") == "" {
		os.Setenv("GOTOOLCHAIN", "local")
	}
	cwd, _ := os.Getwd()
	must(os.Chdir(repo))
	defer os.Chdir(cwd)
	def, ok := importer.ForCompiler(fset, "source", nil).(types.ImporterFrom)
	if !ok {
		must(fmt.Errorf("source importer is not an ImporterFrom"))
	}
	l := &loader{fset: fset, modPath: modPath, pkgs: map[string]*pkgInfo{}, def: def, loading: map[string]bool{}}
	iop, err := def.ImportFrom("io", repo, 0)
	must(err)
	writer := iop.Scope().Lookup("Writer").Type().Underlying().(*types.Interface)

	skipped := []string{}
	var dirs []string
	must(filepath.WalkDir(repo, func(p string, d fs.DirEntry, err error) error {
		if err != nil {
			return err
		}
		rel, _ := filepath.Rel(repo, p)
		rel = filepath.ToSlash(rel)
		if d.IsDir() {
			n := d.Name()
			if rel != "." && (strings.HasPrefix(n, ".") || strings.HasPrefix(n, "_") || n == "testdata" || n == "vendor" || rel == "test" || rel == "docs") {
				skipped = append(skipped, rel)
				return filepath.SkipDir
			}
			return nil
		}
		if strings.HasSuffix(p, ".go") && !strings.HasSuffix(p, "_test.go") {
			dir := filepath.ToSlash(filepath.Dir(rel))
			if len(dirs) == 0 || dirs[len(dirs)-1] != dir {
				dirs = append(dirs, dir)
			}
		}
		return nil
	}))
	sort.Strings(dirs)
	var rows []mapRangeRow
	var scanned []string
	for i, dir := range dirs {
		if i > 0 && dirs[i-1] == dir {
			continue
		}
		path, scope := modPath, "lib"
		if dir != "." {
			path = modPath + "/" + dir
		}
		if dir == "cmd" || strings.HasPrefix(dir, "cmd/") {
			scope = "cmd"
		} else if dir == "examples" || strings.HasPrefix(dir, "examples/") {
			scope = "example"
		}
		p, err := l.load(path)
		must(err)
		scanned = append(scanned, dir)
		rows = append(rows, p.mapRanges(fset, modPath, scope, writer)...)
	}
	sort.SliceStable(rows, func(i, j int) bool {
		if rows[i].file != rows[j].file {
			return rows[i].file < rows[j].file
		}
		return rows[i].line < rows[j].line
	})

	var sb, tsv strings.Builder
	sb.WriteString("-- GENERATED by harness/cmd/extract (mapranges.go) from the non-test sources of every package of /repo's module. Do not edit.\n")
	sb.WriteString("namespace Iso8583.Gen\n\n")
	sb.WriteString("/-- one `for … range X` over a Go map (or a disguised source of map order). `cls`: collect-then-sort |\n")
	sb.WriteString("build-map-or-set | per-key-independent | first-error-wins | order-visible | unknown; `base`: the class\n")
	sb.WriteString("without regard to early `return err`; `sink`: the slice collected into, or the maps written; `sorter`: the\n")
	sb.WriteString("function that sorts `sink` as the first statement using it after the loop. -/\n")
	sb.WriteString("structure MapRange where\n  pkg : String\n  scope : String\n  file : String\n  fn : String\n  line : Nat\n  expr : String\n  cls : String\n  base : String\n  sink : String\n  sorter : String\n  note : String\n  deriving DecidableEq, Repr\n\n")
	fmt.Fprintf(&sb, "/-- package directories scanned -/\ndef mapRangePackages : List String := [%s]\n\n", quoteList(scanned))
	fmt.Fprintf(&sb, "/-- directories not scanned (tooling, data, docs) -/\ndef mapRangeSkipped : List String := [%s]\n\n", quoteList(skipped))
	sb.WriteString("def mapRanges : List MapRange := [\n")
	tsv.WriteString("pkg\tscope\tfile\tfunc\tline\texpr\tclass\tbase\tsink\tsorter\tnote\n")
	for i, r := range rows {
		fmt.Fprintf(&sb, "  ⟨%q, %q, %q, %q, %d, %q,\n    %q, %q, %q, %q, %q⟩%s\n", r.pkg, r.scope, r.file, r.fn, r.line, r.expr, r.cls, r.base, r.sink, r.sorter, r.note, sepAt(i, len(rows)))
		fmt.Fprintf(&tsv, "%s\t%s\t%s\t%s\t%d\t%s\t%s\t%s\t%s\t%s\t%s\n", r.pkg, r.scope, r.file, r.fn, r.line, r.expr, r.cls, r.base, r.sink, r.sorter, r.note)
	}
	sb.WriteString("]\n\nend Iso8583.Gen\n")
	writeIfChanged("MapRanges.lean", sb.String())
	writeIfChanged("MapRanges.tsv", tsv.String())
}

func quoteList(xs []string) string {
	q := make([]string, len(xs))
	for i, x := range xs {
		q[i] = fmt.Sprintf("%q", x)
	}
	return strings.Join(q, ", ")
}
