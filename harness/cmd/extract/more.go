package main

// genMore is extended as further fact tables are added (builder tables, filters,
// error sites, map ranges, lock facts).
func genMore() {
	genLockFacts()
	genFilters()
	genErrorSites()
	genBuilderTables()
	genTrackConsts()
	genMapRanges()
	genShipped()
	genGuards()
	genTypeSwitches()
}
