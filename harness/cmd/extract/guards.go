package main

// Gen/Guards*.lean: the DECISION LOGIC of selected functions, translated from the source.
// For every site (a function of the library) the translator walks the function body and writes,
// as Lean Boolean expressions over `Int` parameters,
//   - the conditions under which the function returns an error (`if c { …; return …, err }`,
//     in order, each under the path condition of the branches around it),
//   - the conditions of its `for` loops, and
//   - for functions that are one `return <bool expr>`, that expression.
// Local variables defined once by a translatable expression are inlined; every other
// identifier must be declared by the site (a parameter of the generated definition, given by
// its Go source text, e.g. `len(data)` ↦ dlen, `p.Digits` ↦ digits), otherwise the translator
// writes an undefined identifier and the Lean file does not compile (fail closed).
// Props/Guards*.lean prove, for all values of the parameters, that the hand-written model takes
// the same decisions. A changed comparison (`<=` for `<`, a dropped guard, a widened bound) then
// breaks a proof obligation even when no generated input happens to sit on the boundary.
//
// Not translated (by design): conditions on errors of calls (`err != nil`) — counted, not
// rendered; what the function computes besides deciding (that is the model's business, tied by
// the correspondence channels).

import (
	"fmt"
	"go/ast"
	"go/parser"
	"go/token"
	"path/filepath"
	"regexp"
	"sort"
	"strconv"
	"strings"
)

type guardSite struct {
	Name   string            // Lean definition name
	File   string            // path relative to the repository root
	Recv   string            // receiver type name ("" for a plain function)
	Func   string            // function name
	Params []string          // Lean parameter names, in order
	Map    map[string]string // Go expression text (spaces removed) -> Lean term
	// Sig: the names the keys of Map assume for the receiver and the parameters of the function,
	// in order (receiver first; "" = do not care). When the source names them differently the
	// translator reads the source's names as these (a renamed parameter is the same parameter).
	Sig []string
	// DefBy: a local variable defined as the first result of a call to this function (source text of
	// the callee) stands for this Lean parameter, whatever the variable is called
	DefBy map[string]string
	// DefName: a local variable defined as the first result of a call to this function is read under
	// this (canonical) name, the one the keys of Map use
	DefName map[string]string
	// Arith: also render every slice / array index and every shift count of the function
	Arith bool
	// Rets: positions of the integer results rendered at every return that is not an error return
	// (Gen/GuardsReturns.lean: condition of the return -> values)
	Rets []int
	// DefAll: the integer results of a call to this function (source text of the callee), by
	// position, stand for these Lean parameters ("" = not an integer / not used)
	DefAll map[string][]string
	// Args: for a call to this function (source text of the callee), the positions of the integer
	// arguments to render (the value each has where the call is made)
	Args map[string][]int
	// Slices: render the bounds of every slice expression `x[lo:hi]` of the function (an absent bound is -1)
	Slices bool
	// Updates: for each of these local variables, every assignment to it in source order as
	// (keep, delta): `x = e` is (0, e), `x += e` is (1, e), `x++` is (1, 1) — the new value is keep*old + delta
	Updates []string
	// DefBySel: a local defined OR assigned as the first result of a call of a method with this name
	// (`n, err := fl.Unpack(rest)`, `read, err = m.fields[i].Unpack(..)`) stands for this Lean parameter
	DefBySel map[string]string
	// FirstInt: the first local of the function body that is defined as an integer (`var off int`,
	// `offset := 0`) is read under this name (the running offset, whatever the source calls it)
	FirstInt string
	// LenVers: a []byte parameter / local that the function re-assigns (`value = pad(value, n)`): its
	// length is the Lean parameter <base>0 before the first re-assignment, <base>1 after it, …
	LenVers map[string]string
	// Makes: every `make(T, n, …)` of the function: how many error conditions precede it in the source,
	// the condition of the branch it sits in, and its length (and capacity) arguments
	Makes bool
	// OnlyRets: write only the `_returns` / `_args` definitions (the site's conditions are written elsewhere)
	OnlyRets bool
}

type retCase struct {
	cond string
	vals []string
}

type valueCase struct{ cond, val string }

type guardTr struct {
	fset     *token.FileSet
	site     *guardSite
	rename   map[string]string // actual receiver / parameter name -> the name the site assumes
	file     *ast.File
	consts   map[string]string // integer constants of the package
	inlining int
	scopes   []map[string]string // inlined local definitions, innermost last ("" = not inlinable)
	unknown  int
	guards   []string    // conditions of error returns
	exits    []string    // conditions of early returns that are not errors
	skips    []string    // conditions under which a loop iteration is skipped (`continue`)
	breaks   []string    // conditions under which a loop is left (`break`)
	flagSets map[string][2][]string // Boolean local -> conditions under which it is assigned false / true
	indices  []string               // every index expression x[i], in source order
	shifts   []string               // every shift count a << k
	loopInit []string               // initial value of the loop variable of every `for i := e; …`
	loops    []string    // loop conditions
	updates  map[string][]string   // Updates: variable -> "(keep, delta)" per assignment
	inits    map[string][]string   // Updates: variable -> the value of each defining statement (`x := e`, `var x int`)
	makes    []string              // Makes: "(k, cond, [sizes])"
	slices   []string              // Slices: "[lo, hi]" per slice expression, in source order
	rets     []retCase             // Rets: condition of a success return -> rendered results
	args     map[string][]retCase  // Args: callee -> (path condition, rendered arguments) per call
	entry    []string              // per scope: the condition under which it is entered ("" = the scope of the function body, "<opaque>" = a loop / switch body)
	lenVer   map[string]int        // LenVers: re-assignments seen so far
	next     string                // the entry condition of the scope the next walk() opens
	cases    []valueCase // Boolean functions: condition -> returned literal, in source order
	deflt    string      // Boolean functions: the final return
	errChk   int
	boolFunc bool
	hasErr   bool
}

func (tr *guardTr) lookup(name string) (string, bool) {
	for i := len(tr.scopes) - 1; i >= 0; i-- {
		if v, ok := tr.scopes[i][name]; ok {
			return v, v != ""
		}
	}
	return "", false
}

// setOpaque: the name is (re)assigned in a way the translator does not follow
func (tr *guardTr) setOpaque(name string) {
	for i := len(tr.scopes) - 1; i >= 0; i-- {
		if _, ok := tr.scopes[i][name]; ok {
			tr.scopes[i][name] = ""
			return
		}
	}
	tr.scopes[len(tr.scopes)-1][name] = ""
}

var goConsts = map[string]string{
	"math.MaxUint16": "65535", "math.MaxInt": "9223372036854775807", "math.MaxInt64": "9223372036854775807",
	"math.MaxInt32": "2147483647", "math.MaxUint32": "4294967295", "math.MaxUint8": "255", "math.MaxInt8": "127",
	"math.MaxInt16": "32767",
}

func nospace(s string) string {
	return strings.Join(strings.Fields(s), "")
}

var identRe = regexp.MustCompile(`[A-Za-z_][A-Za-z0-9_]*`)

// text: the expression as the site's Map spells it (receiver and parameters under the names the
// site assumes; a selector's field name after a dot is left alone)
func (tr *guardTr) text(e ast.Node) string {
	t := nospace(exprText(tr.fset, e))
	if len(tr.rename) == 0 {
		return t
	}
	return identRe.ReplaceAllStringFunc(t, func(w string) string {
		if n, ok := tr.rename[w]; ok {
			return n
		}
		return w
	})
}

func (tr *guardTr) bad(e ast.Node) (string, bool) {
	tr.unknown++
	return fmt.Sprintf("untranslated_%d /- %s -/", tr.unknown, strings.ReplaceAll(exprText(tr.fset, e), "-/", "- /")), false
}

// intExpr translates an integer-valued Go expression.
func (tr *guardTr) intExpr(e ast.Expr) (string, bool) {
	if m, ok := tr.site.Map[tr.text(e)]; ok {
		return m, true
	}
	switch x := e.(type) {
	case *ast.ParenExpr:
		return tr.intExpr(x.X)
	case *ast.BasicLit:
		if x.Kind == token.INT {
			v, err := strconv.ParseInt(x.Value, 0, 64)
			if err == nil {
				return fmt.Sprint(v), true
			}
		}
		if x.Kind == token.CHAR {
			if r, _, _, err := strconv.UnquoteChar(x.Value[1:len(x.Value)-1], '\''); err == nil {
				return fmt.Sprint(int(r)), true
			}
		}
	case *ast.Ident:
		if v, ok := tr.lookup(x.Name); ok {
			return v, true
		}
		if n, ok := tr.rename[x.Name]; ok {
			if m, ok := tr.site.Map[n]; ok {
				return m, true
			}
		}
		if v, ok := tr.consts[x.Name]; ok {
			return v, true
		}
	case *ast.SelectorExpr:
		if c, ok := goConsts[tr.text(x)]; ok {
			return c, true
		}
	case *ast.UnaryExpr:
		if x.Op == token.SUB {
			a, ok := tr.intExpr(x.X)
			return "(-" + a + ")", ok
		}
	case *ast.CallExpr:
		if id, ok := x.Fun.(*ast.Ident); ok && id.Name == "len" && len(x.Args) == 1 {
			if a, ok := x.Args[0].(*ast.Ident); ok {
				if _, ok := tr.site.LenVers[a.Name]; ok {
					if v, ok := tr.lookup("len(" + a.Name + ")"); ok {
						return v, true
					}
				}
			}
		}
		if fn := tr.text(x.Fun); len(x.Args) == 1 && (fn == "bcd.EncodedLen" || fn == "hex.EncodedLen") {
			if a, ok := tr.intExpr(x.Args[0]); ok {
				if fn == "bcd.EncodedLen" {
					return "((" + a + " + 1) / 2)", true
				}
				return "(" + a + " * 2)", true
			}
		}
		// conversions between integer types (no wrap-around is modelled: see DESIGN §6)
		if id, ok := x.Fun.(*ast.Ident); ok && len(x.Args) == 1 {
			switch id.Name {
			case "int", "int64", "uint64", "uint", "int32", "uint32", "uint16":
				return tr.intExpr(x.Args[0])
			}
		}
	case *ast.BinaryExpr:
		a, ok1 := tr.intExpr(x.X)
		b, ok2 := tr.intExpr(x.Y)
		ok := ok1 && ok2
		switch x.Op {
		case token.ADD:
			return "(" + a + " + " + b + ")", ok
		case token.SUB:
			return "(" + a + " - " + b + ")", ok
		case token.MUL:
			return "(" + a + " * " + b + ")", ok
		case token.QUO:
			return "(" + a + " / " + b + ")", ok
		case token.REM:
			return "(" + a + " % " + b + ")", ok
		case token.SHL:
			return "(" + a + " * 2 ^ ((" + b + " : Int)).toNat)", ok
		case token.SHR:
			return "(" + a + " / 2 ^ ((" + b + " : Int)).toNat)", ok
		}
	}
	return tr.bad(e)
}

func isNilIdent(e ast.Expr) bool {
	id, ok := e.(*ast.Ident)
	return ok && id.Name == "nil"
}

// cond translates a Boolean Go expression; errCheck reports `err != nil` shapes.
func (tr *guardTr) cond(e ast.Expr) (lean string, ok bool, errCheck bool) {
	if m, ok := tr.site.Map[tr.text(e)]; ok {
		return m, true, false
	}
	switch x := e.(type) {
	case *ast.ParenExpr:
		return tr.cond(x.X)
	case *ast.Ident:
		if x.Name == "true" || x.Name == "false" {
			return x.Name, true, false
		}
	case *ast.UnaryExpr:
		if x.Op == token.NOT {
			a, ok, ec := tr.cond(x.X)
			return "(!" + a + ")", ok, ec
		}
	case *ast.CallExpr:
		if v, ok := tr.inlineBoolHelper(x); ok {
			return v, true, false
		}
	case *ast.BinaryExpr:
		switch x.Op {
		case token.LAND, token.LOR:
			a, ok1, e1 := tr.cond(x.X)
			b, ok2, e2 := tr.cond(x.Y)
			op := " && "
			if x.Op == token.LOR {
				op = " || "
			}
			return "(" + a + op + b + ")", ok1 && ok2, e1 || e2
		case token.LSS, token.LEQ, token.GTR, token.GEQ, token.EQL, token.NEQ:
			if isNilIdent(x.X) || isNilIdent(x.Y) {
				return "", true, true
			}
			a, ok1 := tr.intExpr(x.X)
			b, ok2 := tr.intExpr(x.Y)
			op := map[token.Token]string{token.LSS: "<", token.LEQ: "≤", token.GTR: ">", token.GEQ: "≥", token.EQL: "=", token.NEQ: "≠"}[x.Op]
			return "decide (" + a + " " + op + " " + b + ")", ok1 && ok2, false
		}
	}
	s, _ := tr.bad(e)
	return s, false, false
}

func returnsError(rs *ast.ReturnStmt) bool {
	if len(rs.Results) == 0 {
		return false
	}
	last := rs.Results[len(rs.Results)-1]
	return !isNilIdent(last)
}

func endsInErrorReturn(b *ast.BlockStmt) bool {
	if len(b.List) == 0 {
		return false
	}
	rs, ok := b.List[len(b.List)-1].(*ast.ReturnStmt)
	return ok && returnsError(rs)
}

func conj(path, c string) string {
	if path == "" {
		return c
	}
	return "(" + path + " && " + c + ")"
}

// flagAssign: `name = true|false` (or `:=`) of a Boolean local the site declares as a flag
func (tr *guardTr) flagAssign(lhs []ast.Expr, rhs []ast.Expr, path string, define bool) bool {
	if len(lhs) != 1 || len(rhs) != 1 || !isBoolLit(rhs[0]) {
		return false
	}
	id, ok := lhs[0].(*ast.Ident)
	if !ok {
		return false
	}
	if _, declared := tr.site.Map[id.Name]; !declared {
		return false
	}
	if define {
		return true // the initial value: the lists hold the conditions under which the flag CHANGES
	}
	if tr.flagSets == nil {
		tr.flagSets = map[string][2][]string{}
	}
	e := tr.flagSets[id.Name]
	c := path
	if c == "" {
		c = "true"
	}
	if rhs[0].(*ast.Ident).Name == "true" {
		e[1] = append(e[1], c)
	} else {
		e[0] = append(e[0], c)
	}
	tr.flagSets[id.Name] = e
	return true
}

func (tr *guardTr) assign(lhs []ast.Expr, rhs []ast.Expr, define bool) {
	if define && len(rhs) == 1 && len(lhs) >= 1 && len(tr.site.DefName) > 0 {
		if call, ok := rhs[0].(*ast.CallExpr); ok {
			if canon, ok := tr.site.DefName[tr.text(call.Fun)]; ok {
				if id, ok := lhs[0].(*ast.Ident); ok && id.Name != "_" && id.Name != canon {
					tr.rename[id.Name] = canon
				}
			}
		}
	}
	if len(rhs) == 1 && len(lhs) >= 1 && len(tr.site.DefBySel) > 0 {
		if call, ok := rhs[0].(*ast.CallExpr); ok {
			if sel, ok := call.Fun.(*ast.SelectorExpr); ok {
				if lean, ok := tr.site.DefBySel[sel.Sel.Name]; ok {
					if id, ok := lhs[0].(*ast.Ident); ok && id.Name != "_" {
						if _, declared := tr.site.Map[id.Name]; !declared && !tr.isTracked(id.Name) {
							if define {
								tr.scopes[len(tr.scopes)-1][id.Name] = lean
							} else {
								set := false
								for i := len(tr.scopes) - 1; i >= 0 && !set; i-- {
									if _, ok := tr.scopes[i][id.Name]; ok {
										tr.scopes[i][id.Name] = lean
										set = true
									}
								}
								if !set {
									tr.scopes[0][id.Name] = lean
								}
							}
							for _, l := range lhs[1:] {
								if id2, ok := l.(*ast.Ident); ok && id2.Name != "_" && define {
									tr.scopes[len(tr.scopes)-1][id2.Name] = ""
								}
							}
							return
						}
					}
				}
			}
		}
	}
	if define && len(rhs) == 1 && len(lhs) >= 1 && len(tr.site.DefAll) > 0 {
		if call, ok := rhs[0].(*ast.CallExpr); ok {
			if names, ok := tr.site.DefAll[tr.text(call.Fun)]; ok {
				for i, l := range lhs {
					if id, ok := l.(*ast.Ident); ok && id.Name != "_" {
						v := ""
						if i < len(names) {
							v = names[i]
						}
						tr.scopes[len(tr.scopes)-1][id.Name] = v
					}
				}
				return
			}
		}
	}
	if define && len(rhs) == 1 && len(lhs) >= 1 && len(tr.site.DefBy) > 0 {
		if call, ok := rhs[0].(*ast.CallExpr); ok {
			if lean, ok := tr.site.DefBy[tr.text(call.Fun)]; ok {
				if id, ok := lhs[0].(*ast.Ident); ok && id.Name != "_" {
					tr.scopes[len(tr.scopes)-1][id.Name] = lean
					for _, l := range lhs[1:] {
						if id2, ok := l.(*ast.Ident); ok && id2.Name != "_" {
							tr.scopes[len(tr.scopes)-1][id2.Name] = ""
						}
					}
					return
				}
			}
		}
	}
	if len(lhs) == 1 && len(rhs) == 1 {
		if id, ok := lhs[0].(*ast.Ident); ok {
			if _, declared := tr.site.Map[id.Name]; declared {
				return // a declared parameter stands for the value it has where the conditions read it
			}
			if !define {
				// re-assignment `x = e` of an inlined local: e (read with the old value of x) is its new value
				if _, inl := tr.lookup(id.Name); inl {
					save := tr.unknown
					if v, ok := tr.intExpr(rhs[0]); ok {
						tr.updateWith(id.Name, func(string) string { return v })
						return
					}
					tr.unknown = save
				}
				tr.setOpaque(id.Name)
				return
			}
			save := tr.unknown
			v, ok := tr.intExpr(rhs[0])
			if !ok {
				tr.unknown = save // not an integer definition: the name is not inlinable
				v = ""
			}
			tr.scopes[len(tr.scopes)-1][id.Name] = v
			return
		}
	}
	for _, l := range lhs {
		if id, ok := l.(*ast.Ident); ok && id.Name != "_" {
			if _, declared := tr.site.Map[id.Name]; !declared {
				if define {
					tr.scopes[len(tr.scopes)-1][id.Name] = ""
				} else {
					tr.setOpaque(id.Name)
				}
			}
		}
	}
}

// update: `x++`, `x += d` on an inlined local. In the scope of its definition the new value is
// `old + d`; in a scope entered under condition c (an `if` body) it is `if c then old + d else old`
// for the code after that `if`; inside a loop or a switch the name becomes opaque.
func (tr *guardTr) update(name, delta string) {
	tr.updateWith(name, func(old string) string { return "(" + old + delta + ")" })
}

func (tr *guardTr) updateWith(name string, next func(old string) string) {
	if _, declared := tr.site.Map[name]; declared {
		return
	}
	for i := len(tr.scopes) - 1; i >= 0; i-- {
		old, ok := tr.scopes[i][name]
		if !ok {
			continue
		}
		if old == "" {
			return
		}
		c := ""
		for j := i + 1; j < len(tr.scopes); j++ {
			if j < len(tr.entry) && tr.entry[j] == "<body>" {
				continue // the function body itself: entered unconditionally
			}
			if j >= len(tr.entry) || tr.entry[j] == "<opaque>" || tr.entry[j] == "" {
				tr.scopes[i][name] = ""
				return
			}
			c = conj(c, tr.entry[j])
		}
		if c == "" {
			tr.scopes[i][name] = next(old)
		} else {
			// inside the branch the name reads as the new value, after it as the conditional one
			tr.scopes[len(tr.scopes)-1][name] = next(old)
			tr.scopes[i][name] = "(if " + c + " then " + next(old) + " else " + old + ")"
		}
		return
	}
	tr.setOpaque(name)
}

func (tr *guardTr) canon(name string) string {
	if n, ok := tr.rename[name]; ok {
		return n
	}
	return name
}

// firstIntLocal: the first local of the body defined as an integer (`var x int`, `x := 0`)
func firstIntLocal(body *ast.BlockStmt) string {
	for _, st := range body.List {
		switch s := st.(type) {
		case *ast.DeclStmt:
			if gd, ok := s.Decl.(*ast.GenDecl); ok && gd.Tok == token.VAR {
				for _, sp := range gd.Specs {
					if vs, ok := sp.(*ast.ValueSpec); ok && len(vs.Names) == 1 {
						if t, ok := vs.Type.(*ast.Ident); ok && t.Name == "int" {
							return vs.Names[0].Name
						}
						if len(vs.Values) == 1 {
							if bl, ok := vs.Values[0].(*ast.BasicLit); ok && bl.Kind == token.INT {
								return vs.Names[0].Name
							}
						}
					}
				}
			}
		case *ast.AssignStmt:
			if s.Tok == token.DEFINE && len(s.Lhs) == 1 && len(s.Rhs) == 1 {
				if bl, ok := s.Rhs[0].(*ast.BasicLit); ok && bl.Kind == token.INT {
					if id, ok := s.Lhs[0].(*ast.Ident); ok {
						return id.Name
					}
				}
			}
		}
	}
	return ""
}

func (tr *guardTr) isTracked(name string) bool {
	if n, ok := tr.rename[name]; ok {
		name = n
	}
	for _, u := range tr.site.Updates {
		if u == name {
			return true
		}
	}
	return false
}

func (tr *guardTr) tracked(name string) bool {
	if n, ok := tr.rename[name]; ok {
		name = n
	}
	for _, u := range tr.site.Updates {
		if u == name {
			if tr.updates == nil {
				tr.updates = map[string][]string{}
				tr.inits = map[string][]string{}
			}
			return true
		}
	}
	return false
}

// recordUpdate: assignments to the variables named by Updates. The right-hand side is rendered with
// the variable itself opaque (it must be a declared parameter of the site or not occur).
func (tr *guardTr) recordUpdate(s *ast.AssignStmt) {
	if len(tr.site.Updates) == 0 {
		return
	}
	for i, l := range s.Lhs {
		id, ok := l.(*ast.Ident)
		if !ok || !tr.tracked(id.Name) {
			continue
		}
		if len(s.Lhs) != len(s.Rhs) {
			// `x, err = f()`: the value comes from a call
			if s.Tok == token.DEFINE {
				tr.inits[tr.canon(id.Name)] = append(tr.inits[tr.canon(id.Name)], "untranslated_call_result")
			} else {
				tr.updates[tr.canon(id.Name)] = append(tr.updates[tr.canon(id.Name)], "(0, untranslated_call_result)")
			}
			continue
		}
		v, _ := tr.intExpr(s.Rhs[i])
		switch s.Tok {
		case token.DEFINE:
			tr.inits[tr.canon(id.Name)] = append(tr.inits[tr.canon(id.Name)], v)
		case token.ASSIGN:
			tr.updates[tr.canon(id.Name)] = append(tr.updates[tr.canon(id.Name)], "(0, "+v+")")
		case token.ADD_ASSIGN:
			tr.updates[tr.canon(id.Name)] = append(tr.updates[tr.canon(id.Name)], "(1, "+v+")")
		case token.SUB_ASSIGN:
			tr.updates[tr.canon(id.Name)] = append(tr.updates[tr.canon(id.Name)], "(1, (-"+v+"))")
		default:
			tr.updates[tr.canon(id.Name)] = append(tr.updates[tr.canon(id.Name)], "(0, untranslated_assignment)")
		}
	}
}

// sliceBounds: the bounds of the slice expressions of one statement (not of the blocks nested in
// it: those are visited as statements of their own), with the values the locals have there
func (tr *guardTr) sliceBounds(st ast.Stmt) {
	if !tr.site.Slices {
		return
	}
	ast.Inspect(st, func(n ast.Node) bool {
		switch x := n.(type) {
		case *ast.BlockStmt:
			return false
		case *ast.SliceExpr:
			lo, hi := "-1", "-1"
			if x.Low != nil {
				lo, _ = tr.intExpr(x.Low)
			}
			if x.High != nil {
				hi, _ = tr.intExpr(x.High)
			}
			tr.slices = append(tr.slices, "["+lo+", "+hi+"]")
		}
		return true
	})
}

// makeSizes: the `make` calls of one statement (not of the blocks nested in it)
func (tr *guardTr) makeSizes(st ast.Stmt, path string) {
	if !tr.site.Makes {
		return
	}
	ast.Inspect(st, func(n ast.Node) bool {
		switch x := n.(type) {
		case *ast.BlockStmt:
			return false
		case *ast.CallExpr:
			if id, ok := x.Fun.(*ast.Ident); ok && id.Name == "make" && len(x.Args) >= 2 {
				var sizes []string
				for _, a := range x.Args[1:] {
					v, _ := tr.intExpr(a)
					sizes = append(sizes, v)
				}
				c := path
				if c == "" {
					c = "true"
				}
				tr.makes = append(tr.makes, fmt.Sprintf("(%d, %s, [%s])", len(tr.guards), c, strings.Join(sizes, ", ")))
			}
		}
		return true
	})
}

// callArgs: the integer arguments of the calls the site asks for, where the call is made
func (tr *guardTr) callArgs(e ast.Expr, path string) {
	if len(tr.site.Args) == 0 || e == nil {
		return
	}
	ast.Inspect(e, func(n ast.Node) bool {
		call, ok := n.(*ast.CallExpr)
		if !ok {
			return true
		}
		pos, ok := tr.site.Args[tr.text(call.Fun)]
		if !ok {
			return true
		}
		rc := retCase{cond: path}
		if rc.cond == "" {
			rc.cond = "true"
		}
		for _, i := range pos {
			if i < len(call.Args) {
				v, _ := tr.intExpr(call.Args[i])
				rc.vals = append(rc.vals, v)
			}
		}
		if tr.args == nil {
			tr.args = map[string][]retCase{}
		}
		tr.args[tr.text(call.Fun)] = append(tr.args[tr.text(call.Fun)], rc)
		return true
	})
}

// diverts: the block always leaves the enclosing statement list (return / continue / break)
func diverts(b *ast.BlockStmt) bool {
	if b == nil || len(b.List) == 0 {
		return false
	}
	switch x := b.List[len(b.List)-1].(type) {
	case *ast.ReturnStmt:
		return true
	case *ast.BranchStmt:
		return x.Tok == token.CONTINUE || x.Tok == token.BREAK
	}
	return false
}

// walk records, for every `return` / `continue` inside the branches of the function, the path
// condition under which it is reached: error returns -> guards, Boolean literals -> cases, other
// returns -> exits, `continue` -> skips. Inside a nested block the statements after an `if` whose
// body always leaves run under the negated condition; at the top level of the function the
// order of the lists carries that (the first condition that holds decides).
func (tr *guardTr) walk(b *ast.BlockStmt, path string, top bool) {
	tr.scopes = append(tr.scopes, map[string]string{})
	tr.entry = append(tr.entry, tr.next)
	tr.next = "<opaque>"
	defer func() { tr.scopes = tr.scopes[:len(tr.scopes)-1]; tr.entry = tr.entry[:len(tr.entry)-1] }()
	for _, st := range b.List {
		if es, ok := st.(*ast.ExprStmt); ok {
			tr.callArgs(es.X, path)
		}
		tr.sliceBounds(st)
		tr.makeSizes(st, path)
		switch s := st.(type) {
		case *ast.AssignStmt:
			for _, r := range s.Rhs {
				tr.callArgs(r, path)
			}
			tr.recordUpdate(s)
			if s.Tok == token.ASSIGN {
				for _, l := range s.Lhs {
					if id, ok := l.(*ast.Ident); ok {
						if base, ok := tr.site.LenVers[id.Name]; ok {
							tr.lenVer[id.Name]++
							nv := base + strconv.Itoa(tr.lenVer[id.Name])
							tr.updateWith("len("+id.Name+")", func(string) string { return nv })
						}
					}
				}
			}
			if (s.Tok == token.ADD_ASSIGN || s.Tok == token.SUB_ASSIGN) && len(s.Lhs) == 1 && len(s.Rhs) == 1 {
				op := " + "
				if s.Tok == token.SUB_ASSIGN {
					op = " - "
				}
				if id, ok := s.Lhs[0].(*ast.Ident); ok {
					save := tr.unknown
					if d, ok := tr.intExpr(s.Rhs[0]); ok {
						tr.update(id.Name, op+d)
					} else {
						tr.unknown = save
						tr.setOpaque(id.Name)
					}
				}
				continue
			}
			if !tr.flagAssign(s.Lhs, s.Rhs, path, s.Tok == token.DEFINE) {
				tr.assign(s.Lhs, s.Rhs, s.Tok == token.DEFINE)
			}
		case *ast.IncDecStmt:
			if id, ok := s.X.(*ast.Ident); ok {
				if tr.tracked(id.Name) {
					d := "1"
					if s.Tok == token.DEC {
						d = "(-1)"
					}
					tr.updates[tr.canon(id.Name)] = append(tr.updates[tr.canon(id.Name)], "(1, "+d+")")
				}
				if s.Tok == token.INC {
					tr.update(id.Name, " + 1")
				} else {
					tr.update(id.Name, " - 1")
				}
			}
		case *ast.DeclStmt:
			if gd, ok := s.Decl.(*ast.GenDecl); ok {
				for _, sp := range gd.Specs {
					if vs, ok := sp.(*ast.ValueSpec); ok {
						for i, n := range vs.Names {
							if tr.tracked(n.Name) {
								v := "0" // `var x int`
								if i < len(vs.Values) {
									v, _ = tr.intExpr(vs.Values[i])
								}
								tr.inits[tr.canon(n.Name)] = append(tr.inits[tr.canon(n.Name)], v)
							}
						}
					}
					if vs, ok := sp.(*ast.ValueSpec); ok && len(vs.Names) == 1 && len(vs.Values) == 1 {
						tr.assign([]ast.Expr{vs.Names[0]}, vs.Values, true)
					} else if ok {
						for _, n := range vs.Names {
							tr.scopes[len(tr.scopes)-1][n.Name] = ""
						}
					}
				}
			}
		case *ast.IfStmt:
			if as, ok := s.Init.(*ast.AssignStmt); ok {
				tr.assign(as.Lhs, as.Rhs, as.Tok == token.DEFINE)
			}
			c, _, errCheck := tr.cond(s.Cond)
			if errCheck {
				// `if err := helper(args); err != nil { return …, err }` with a helper of this file that
				// only checks integers: its conditions count as conditions of this function
				if as, ok := s.Init.(*ast.AssignStmt); ok && len(as.Rhs) == 1 && s.Else == nil && diverts(s.Body) {
					if call, ok := as.Rhs[0].(*ast.CallExpr); ok && tr.inlineHelper(call, path) {
						continue
					}
				}
				if s.Else == nil && diverts(s.Body) {
					if rs, ok := s.Body.List[len(s.Body.List)-1].(*ast.ReturnStmt); ok && tr.hasErr && returnsError(rs) {
						tr.errChk++
					}
				}
				continue
			}
			tr.next = c
			tr.walk(s.Body, conj(path, c), false)
			switch e := s.Else.(type) {
			case *ast.BlockStmt:
				tr.next = "(!" + c + ")"
				tr.walk(e, conj(path, "(!"+c+")"), false)
			case *ast.IfStmt:
				tr.next = "(!" + c + ")"
				tr.walk(&ast.BlockStmt{List: []ast.Stmt{e}}, conj(path, "(!"+c+")"), false)
			}
			if !top && s.Else == nil && diverts(s.Body) {
				path = conj(path, "(!"+c+")")
			}
		case *ast.SwitchStmt:
			if s.Tag != nil || s.Init != nil {
				continue
			}
			// `switch { case c1: … case c2: … default: … }` = if c1 … else if c2 … else …
			neg := path
			for _, cl := range s.Body.List {
				cc := cl.(*ast.CaseClause)
				cpath := neg
				if cc.List != nil {
					var alts []string
					for _, e := range cc.List {
						c, _, _ := tr.cond(e)
						alts = append(alts, c)
					}
					c := alts[0]
					if len(alts) > 1 {
						c = "(" + strings.Join(alts, " || ") + ")"
					}
					cpath = conj(neg, c)
					neg = conj(neg, "(!"+c+")")
				}
				tr.walk(&ast.BlockStmt{List: cc.Body}, cpath, false)
			}
		case *ast.ForStmt:
			tr.scopes = append(tr.scopes, map[string]string{})
			if as, ok := s.Init.(*ast.AssignStmt); ok {
				if tr.site.Arith && len(as.Rhs) == 1 {
					v, _ := tr.intExpr(as.Rhs[0])
					tr.loopInit = append(tr.loopInit, v)
				}
				for _, l := range as.Lhs {
					if id, ok := l.(*ast.Ident); ok {
						if _, declared := tr.site.Map[id.Name]; !declared {
							tr.scopes[len(tr.scopes)-1][id.Name] = ""
						}
					}
				}
			}
			if s.Cond != nil {
				c, _, errCheck := tr.cond(s.Cond)
				if !errCheck {
					tr.loops = append(tr.loops, conj(path, c))
				}
			}
			tr.walk(s.Body, path, false)
			tr.scopes = tr.scopes[:len(tr.scopes)-1]
		case *ast.RangeStmt:
			tr.walk(s.Body, path, false)
		case *ast.BlockStmt:
			tr.walk(s, path, false)
		case *ast.BranchStmt:
			if s.Tok == token.CONTINUE && !top {
				tr.skips = append(tr.skips, path)
			}
			if s.Tok == token.BREAK && !top {
				tr.breaks = append(tr.breaks, path)
			}
		case *ast.ReturnStmt:
			for _, r := range s.Results {
				tr.callArgs(r, path)
			}
			if len(tr.site.Rets) > 0 && !(tr.hasErr && returnsError(s)) {
				rc := retCase{cond: path}
				if rc.cond == "" {
					rc.cond = "true"
				}
				for _, i := range tr.site.Rets {
					if i < len(s.Results) {
						v, _ := tr.intExpr(s.Results[i])
						rc.vals = append(rc.vals, v)
					}
				}
				tr.rets = append(tr.rets, rc)
			}
			if top {
				if tr.boolFunc && len(s.Results) == 1 {
					c, _, _ := tr.cond(s.Results[0])
					tr.deflt = c
				}
				continue
			}
			switch {
			case tr.hasErr && returnsError(s):
				tr.guards = append(tr.guards, path)
			case tr.boolFunc && len(s.Results) == 1 && isBoolLit(s.Results[0]):
				tr.cases = append(tr.cases, valueCase{path, s.Results[0].(*ast.Ident).Name})
			default:
				tr.exits = append(tr.exits, path)
			}
		}
	}
}

// inlineHelper: the error conditions of an unexported, error-returning function of the same file,
// with its parameters bound to the (translated) arguments of the call
func (tr *guardTr) inlineHelper(call *ast.CallExpr, path string) bool {
	id, ok := call.Fun.(*ast.Ident)
	if !ok || tr.file == nil || tr.inlining > 2 {
		return false
	}
	var fd *ast.FuncDecl
	for _, d := range tr.file.Decls {
		if f, ok := d.(*ast.FuncDecl); ok && f.Recv == nil && f.Name.Name == id.Name && f.Body != nil {
			fd = f
		}
	}
	if fd == nil || fd.Type.Results == nil || len(fd.Type.Results.List) != 1 {
		return false
	}
	if rid, ok := fd.Type.Results.List[0].Type.(*ast.Ident); !ok || rid.Name != "error" {
		return false
	}
	var names []string
	for _, fl := range fd.Type.Params.List {
		for _, n := range fl.Names {
			names = append(names, n.Name)
		}
	}
	if len(names) != len(call.Args) {
		return false
	}
	scope := map[string]string{}
	for i, a := range call.Args {
		save := tr.unknown
		v, ok := tr.intExpr(a)
		if !ok {
			tr.unknown = save
			return false
		}
		scope[names[i]] = v
	}
	// the helper's body sees its parameters only (plus package constants)
	savedScopes, savedRename, savedHasErr, savedBool := tr.scopes, tr.rename, tr.hasErr, tr.boolFunc
	tr.scopes, tr.rename, tr.hasErr, tr.boolFunc = []map[string]string{scope}, map[string]string{}, true, false
	tr.inlining++
	tr.walk(fd.Body, path, false)
	tr.inlining--
	tr.scopes, tr.rename, tr.hasErr, tr.boolFunc = savedScopes, savedRename, savedHasErr, savedBool
	return true
}

// inlineBoolHelper: a call of an unexported function of the same file whose body is one
// `return <Boolean expression over its integer parameters>`
func (tr *guardTr) inlineBoolHelper(call *ast.CallExpr) (string, bool) {
	id, ok := call.Fun.(*ast.Ident)
	if !ok || tr.file == nil || tr.inlining > 2 {
		return "", false
	}
	var fd *ast.FuncDecl
	for _, d := range tr.file.Decls {
		if f, ok := d.(*ast.FuncDecl); ok && f.Recv == nil && f.Name.Name == id.Name && f.Body != nil {
			fd = f
		}
	}
	if fd == nil || fd.Type.Results == nil || len(fd.Type.Results.List) != 1 || len(fd.Body.List) != 1 {
		return "", false
	}
	if rid, ok := fd.Type.Results.List[0].Type.(*ast.Ident); !ok || rid.Name != "bool" {
		return "", false
	}
	rs, ok := fd.Body.List[0].(*ast.ReturnStmt)
	if !ok || len(rs.Results) != 1 {
		return "", false
	}
	var names []string
	for _, fl := range fd.Type.Params.List {
		for _, n := range fl.Names {
			names = append(names, n.Name)
		}
	}
	if len(names) != len(call.Args) {
		return "", false
	}
	scope := map[string]string{}
	for i, a := range call.Args {
		save := tr.unknown
		v, ok := tr.intExpr(a)
		if !ok {
			tr.unknown = save
			return "", false
		}
		scope[names[i]] = v
	}
	savedScopes, savedRename, savedSite := tr.scopes, tr.rename, tr.site
	bare := *tr.site
	bare.Map = map[string]string{}
	tr.scopes, tr.rename, tr.site = []map[string]string{scope}, map[string]string{}, &bare
	tr.inlining++
	save := tr.unknown
	v, ok, _ := tr.cond(rs.Results[0])
	tr.inlining--
	tr.scopes, tr.rename, tr.site = savedScopes, savedRename, savedSite
	if !ok {
		tr.unknown = save
		return "", false
	}
	return v, true
}

func isBoolLit(e ast.Expr) bool {
	id, ok := e.(*ast.Ident)
	return ok && (id.Name == "true" || id.Name == "false")
}

func findMethod(f *ast.File, recv, name string) *ast.FuncDecl {
	for _, d := range f.Decls {
		fd, ok := d.(*ast.FuncDecl)
		if !ok || fd.Name.Name != name || fd.Body == nil {
			continue
		}
		r := ""
		if fd.Recv != nil && len(fd.Recv.List) == 1 {
			t := fd.Recv.List[0].Type
			if st, ok := t.(*ast.StarExpr); ok {
				t = st.X
			}
			if id, ok := t.(*ast.Ident); ok {
				r = id.Name
			}
		}
		if r == recv {
			return fd
		}
	}
	return nil
}

// packageIntConsts: the integer constants declared (with a literal value) in the files of the
// directory of `file`
func packageIntConsts(file string) map[string]string {
	out := map[string]string{}
	dir := filepath.Dir(filepath.Join(repo, file))
	names, _ := filepath.Glob(filepath.Join(dir, "*.go"))
	for _, n := range names {
		if strings.HasSuffix(n, "_test.go") {
			continue
		}
		f, err := parser.ParseFile(token.NewFileSet(), n, nil, 0)
		if err != nil {
			continue
		}
		for _, d := range f.Decls {
			gd, ok := d.(*ast.GenDecl)
			if !ok || gd.Tok != token.CONST {
				continue
			}
			for _, sp := range gd.Specs {
				vs, ok := sp.(*ast.ValueSpec)
				if !ok || len(vs.Names) != len(vs.Values) {
					continue
				}
				for i, nm := range vs.Names {
					if bl, ok := vs.Values[i].(*ast.BasicLit); ok && bl.Kind == token.INT {
						if v, err := strconv.ParseInt(bl.Value, 0, 64); err == nil {
							out[nm.Name] = fmt.Sprint(v)
						}
					}
				}
			}
		}
	}
	return out
}

func leanBoolList(xs []string) string {
	if len(xs) == 0 {
		return "[]"
	}
	return "[\n    " + strings.Join(xs, ",\n    ") + "]"
}

func genGuardFile(file string, sites []guardSite) {
	var sb strings.Builder
	sb.WriteString("/- GENERATED by harness/cmd/extract (guards.go) from the function bodies of /repo. Do not edit. -/\n")
	sb.WriteString("import Iso8583.Spec.GuardFns\n\nnamespace Iso8583.Gen.Guards\nopen Iso8583.GuardFns\n\n")
	for i := range sites {
		s := &sites[i]
		fset, f := parseFile(s.File)
		fd := findMethod(f, s.Recv, s.Func)
		if fd == nil {
			fmt.Fprintf(&sb, "-- %s: %s (%s).%s not found\ndef %s_guards : List Bool := function_not_found\n\n", s.Name, s.File, s.Recv, s.Func, s.Name)
			continue
		}
		tr := &guardTr{fset: fset, site: s, rename: map[string]string{}, file: f, consts: packageIntConsts(s.File)}
		if len(s.Sig) > 0 {
			var actual []string
			if fd.Recv != nil && len(fd.Recv.List) == 1 && len(fd.Recv.List[0].Names) == 1 {
				actual = append(actual, fd.Recv.List[0].Names[0].Name)
			} else {
				actual = append(actual, "")
			}
			for _, fl := range fd.Type.Params.List {
				for _, n := range fl.Names {
					actual = append(actual, n.Name)
				}
			}
			for i, want := range s.Sig {
				if i < len(actual) && want != "" && actual[i] != "" && actual[i] != want {
					tr.rename[actual[i]] = want
				}
			}
		}
		if fd.Type.Results != nil {
			rs := fd.Type.Results.List
			if len(rs) > 0 {
				if id, ok := rs[len(rs)-1].Type.(*ast.Ident); ok && id.Name == "error" {
					tr.hasErr = true
				}
			}
			if len(rs) == 1 && len(rs[0].Names) <= 1 {
				if id, ok := rs[0].Type.(*ast.Ident); ok && id.Name == "bool" {
					tr.boolFunc = true
				}
			}
		}
		if s.FirstInt != "" {
			if n := firstIntLocal(fd.Body); n != "" && n != s.FirstInt {
				tr.rename[n] = s.FirstInt
			}
		}
		tr.lenVer = map[string]int{}
		if len(s.LenVers) > 0 {
			// the lengths live in a scope of their own around the function body
			tr.scopes = append(tr.scopes, map[string]string{})
			tr.entry = append(tr.entry, "")
			for v, base := range s.LenVers {
				tr.scopes[0]["len("+v+")"] = base + "0"
			}
			tr.next = "<body>"
		}
		tr.walk(fd.Body, "", true)
		if s.Arith {
			// index expressions and shift counts, rendered with the top-level definitions in scope
			tr.scopes = []map[string]string{{}}
			for _, st := range fd.Body.List {
				if as, ok := st.(*ast.AssignStmt); ok && as.Tok == token.DEFINE {
					tr.assign(as.Lhs, as.Rhs, true)
				}
			}
			ast.Inspect(fd.Body, func(n ast.Node) bool {
				switch x := n.(type) {
				case *ast.AssignStmt:
					if x.Tok == token.DEFINE {
						tr.assign(x.Lhs, x.Rhs, true)
					}
				case *ast.IndexExpr:
					v, _ := tr.intExpr(x.Index)
					tr.indices = append(tr.indices, v)
				case *ast.BinaryExpr:
					if x.Op == token.SHL || x.Op == token.SHR {
						v, _ := tr.intExpr(x.Y)
						tr.shifts = append(tr.shifts, v)
					}
				}
				return true
			})
		}
		var ps []string
		for _, p := range s.Params {
			if n, t, typed := strings.Cut(p, ":"); typed {
				ps = append(ps, "("+n+" : "+t+")")
			} else {
				ps = append(ps, "("+p+" : Int)")
			}
		}
		params := ""
		if len(ps) > 0 {
			params = " " + strings.Join(ps, " ")
		}
		keys := make([]string, 0, len(s.Map))
		for k := range s.Map {
			keys = append(keys, "`"+k+"` ↦ "+s.Map[k])
		}
		sort.Strings(keys)
		fmt.Fprintf(&sb, "/-! ### %s — %s, `%s.%s`\n%s  (%d further conditions test the error of a call) -/\n\n", s.Name, s.File, s.Recv, s.Func, strings.Join(keys, "; "), tr.errChk)
		if len(s.Rets) > 0 {
			var rows []string
			for _, rc := range tr.rets {
				rows = append(rows, "("+rc.cond+", ["+strings.Join(rc.vals, ", ")+"])")
			}
			fmt.Fprintf(&sb, "/-- its returns that are not error returns, in source order: the condition of the branch the `return` sits in\n(`true`: the final return, reached when nothing before it returned) and the integer results at positions %v -/\ndef %s_returns%s : List (Bool × List Int) := %s\n\n", s.Rets, s.Name, params, leanBoolList(rows))
		}
		if len(s.Args) > 0 {
			var callees []string
			for c := range s.Args {
				callees = append(callees, c)
			}
			sort.Strings(callees)
			for _, c := range callees {
				var rows []string
				for _, rc := range tr.args[c] {
					rows = append(rows, "("+rc.cond+", ["+strings.Join(rc.vals, ", ")+"])")
				}
				id := regexp.MustCompile(`[^A-Za-z0-9]+`).ReplaceAllString(c, "_")
				fmt.Fprintf(&sb, "/-- every call of `%s`, in source order: the condition of the branch it sits in and its integer arguments at positions %v -/\ndef %s_args_%s%s : List (Bool × List Int) := %s\n\n", c, s.Args[c], s.Name, id, params, leanBoolList(rows))
			}
		}
		for _, u := range s.Updates {
			tr.tracked(u)
			fmt.Fprintf(&sb, "/-- the value `%s` is defined with (`%s := e`, `var %s int` = 0) -/\ndef %s_init_%s%s : List Int := %s\n\n", u, u, u, s.Name, u, params, leanBoolList(tr.inits[u]))
			fmt.Fprintf(&sb, "/-- every assignment to `%s` after its definition, in source order, as (keep, delta): the new value is keep * old + delta -/\ndef %s_updates_%s%s : List (Int × Int) := %s\n\n", u, s.Name, u, params, leanBoolList(tr.updates[u]))
		}
		if s.Makes {
			fmt.Fprintf(&sb, "/-- every `make` of the function, in source order: the number of error conditions (entries of `_guards`) that precede it,\nthe condition of the branch it sits in, and its length (and capacity) -/\ndef %s_makes%s : List (Nat × Bool × List Int) := %s\n\n", s.Name, params, leanBoolList(tr.makes))
		}
		if s.Slices {
			fmt.Fprintf(&sb, "/-- the bounds `[lo, hi]` of every slice expression `x[lo:hi]` of the function, in source order (-1: absent) -/\ndef %s_slices%s : List (List Int) := %s\n\n", s.Name, params, leanBoolList(tr.slices))
		}
		if s.OnlyRets {
			continue
		}
		if tr.hasErr {
			fmt.Fprintf(&sb, "/-- the conditions under which it returns an error, in source order -/\ndef %s_guards%s : List Bool := %s\n\n", s.Name, params, leanBoolList(tr.guards))
		}
		if len(tr.exits) > 0 {
			fmt.Fprintf(&sb, "/-- the conditions of its early returns that are not errors -/\ndef %s_exits%s : List Bool := %s\n\n", s.Name, params, leanBoolList(tr.exits))
		}
		if len(tr.skips) > 0 {
			fmt.Fprintf(&sb, "/-- the conditions under which a loop iteration is skipped -/\ndef %s_skips%s : List Bool := %s\n\n", s.Name, params, leanBoolList(tr.skips))
		}
		if s.Arith {
			fmt.Fprintf(&sb, "/-- every index expression `x[i]` of the function, in source order -/\ndef %s_indices%s : List Int := %s\n\n", s.Name, params, leanBoolList(tr.indices))
			fmt.Fprintf(&sb, "/-- every shift count of the function, in source order -/\ndef %s_shifts%s : List Int := %s\n\n", s.Name, params, leanBoolList(tr.shifts))
			fmt.Fprintf(&sb, "/-- the initial value of the loop variable of every `for` loop -/\ndef %s_loopInits%s : List Int := %s\n\n", s.Name, params, leanBoolList(tr.loopInit))
		}
		if len(tr.flagSets) > 0 {
			var names []string
			for n := range tr.flagSets {
				names = append(names, n)
			}
			sort.Strings(names)
			for _, n := range names {
				e := tr.flagSets[n]
				fmt.Fprintf(&sb, "/-- the conditions under which the flag `%s` is set to true after its initialisation -/\ndef %s_%s_true%s : List Bool := %s\n\n", n, s.Name, n, params, leanBoolList(e[1]))
				fmt.Fprintf(&sb, "/-- the conditions under which the flag `%s` is set to false -/\ndef %s_%s_false%s : List Bool := %s\n\n", n, s.Name, n, params, leanBoolList(e[0]))
			}
		}
		if len(tr.breaks) > 0 {
			fmt.Fprintf(&sb, "/-- the conditions under which a loop is left -/\ndef %s_breaks%s : List Bool := %s\n\n", s.Name, params, leanBoolList(tr.breaks))
		}
		if len(tr.loops) > 0 {
			fmt.Fprintf(&sb, "/-- its loop conditions -/\ndef %s_loops%s : List Bool := %s\n\n", s.Name, params, leanBoolList(tr.loops))
		}
		if tr.boolFunc {
			v := tr.deflt
			if v == "" {
				v = "untranslated_final_return"
			}
			for i := len(tr.cases) - 1; i >= 0; i-- {
				v = "if " + tr.cases[i].cond + " then " + tr.cases[i].val + "\n    else " + v
			}
			fmt.Fprintf(&sb, "/-- the Boolean it returns -/\ndef %s_value%s : Bool :=\n    %s\n\n", s.Name, params, v)
		}
	}
	sb.WriteString("end Iso8583.Gen.Guards\n")
	writeIfChanged(file, sb.String())
}
