package main

// Error-construction sites of the library packages (property C18, tie T).
//
// For every place where non-test code of the library packages creates, wraps or passes on
// an error, one row goes into lean/Iso8583/Gen/ErrorSites.lean: file:line, enclosing
// function, the format string cut into literal pieces and insertions, and for every
// insertion a *taint class* (how many bytes derived from message data its rendering can
// contain). Classes are computed by the rules below from the Go type and the syntactic
// origin of the argument; whatever no rule covers is `unknown` (or, for strings and byte
// slices, `value`), which makes the Lean theorem over the table fail rather than pass.
//
// Rules decided by type (T) and by a hand-written expectation (H) are marked in the code;
// every row records the rule that classified each insertion, and the H-rules are listed
// in Gen/ErrorSites.lean as `handRules`.

import (
	"fmt"
	"go/ast"
	"go/constant"
	"go/importer"
	"go/parser"
	"go/token"
	"go/types"
	"os"
	"path/filepath"
	"sort"
	"strconv"
	"strings"
)

var libPackages = []string{".", "errors", "utils", "encoding", "prefix", "padding", "sort", "field", "network", "specs"}

type pkgInfo struct {
	path  string // import path
	rel   string // directory relative to repo
	files []*ast.File
	names []string // file names relative to repo
	info  *types.Info
	pkg   *types.Package
}

type loader struct {
	fset    *token.FileSet
	modPath string
	pkgs    map[string]*pkgInfo
	def     types.ImporterFrom
	loading map[string]bool
}

func (l *loader) Import(path string) (*types.Package, error) { return l.ImportFrom(path, repo, 0) }

func (l *loader) ImportFrom(path, dir string, mode types.ImportMode) (*types.Package, error) {
	if path == l.modPath || strings.HasPrefix(path, l.modPath+"/") {
		p, err := l.load(path)
		if err != nil {
			return nil, err
		}
		return p.pkg, nil
	}
	return l.def.ImportFrom(path, dir, mode)
}

func (l *loader) load(path string) (*pkgInfo, error) {
	if p, ok := l.pkgs[path]; ok {
		return p, nil
	}
	if l.loading[path] {
		return nil, fmt.Errorf("import cycle through %s", path)
	}
	l.loading[path] = true
	rel := strings.TrimPrefix(strings.TrimPrefix(path, l.modPath), "/")
	if rel == "" {
		rel = "."
	}
	dir := filepath.Join(repo, rel)
	ents, err := os.ReadDir(dir)
	if err != nil {
		return nil, err
	}
	p := &pkgInfo{path: path, rel: rel}
	for _, e := range ents {
		n := e.Name()
		if e.IsDir() || !strings.HasSuffix(n, ".go") || strings.HasSuffix(n, "_test.go") {
			continue
		}
		f, err := parser.ParseFile(l.fset, filepath.Join(dir, n), nil, parser.ParseComments)
		if err != nil {
			return nil, err
		}
		p.files = append(p.files, f)
		p.names = append(p.names, filepath.ToSlash(filepath.Join(rel, n)))
	}
	p.info = &types.Info{
		Types:      map[ast.Expr]types.TypeAndValue{},
		Defs:       map[*ast.Ident]types.Object{},
		Uses:       map[*ast.Ident]types.Object{},
		Selections: map[*ast.SelectorExpr]*types.Selection{},
		Implicits:  map[ast.Node]types.Object{},
	}
	conf := types.Config{Importer: l, Error: func(err error) {}}
	pkg, err := conf.Check(path, l.fset, p.files, p.info)
	if err != nil && pkg == nil {
		return nil, err
	}
	p.pkg = pkg
	l.pkgs[path] = p
	return p, nil
}

// ---------------------------------------------------------------- classes

type cls struct {
	name string // len spec key char prefixDigits wireBounded value errSafe errChar errBounded errValue errUser unknown
	k    int    // bound for prefixDigits / wireBounded / errBounded
	rule string // which rule decided
}

const unbounded = 1 << 30

// bound = maximal number of consecutive value-derived units in a rendering
func (c cls) bound() int {
	switch c.name {
	case "len", "spec", "key", "errSafe", "errUser":
		return 0
	case "char", "errChar":
		return 4
	case "wireBounded", "errBounded", "prefixDigits":
		return c.k
	}
	return unbounded
}

func (c cls) lean() string {
	switch c.name {
	case "prefixDigits", "wireBounded", "errBounded":
		return fmt.Sprintf("(.%s %d)", c.name, c.k)
	}
	return "." + c.name
}

func joinCls(a, b cls) cls {
	if a.name == "" {
		return b
	}
	if b.name == "" {
		return a
	}
	if a.name == "unknown" {
		return a
	}
	if b.name == "unknown" {
		return b
	}
	if b.bound() > a.bound() {
		return b
	}
	if a.bound() > b.bound() {
		return a
	}
	// equal bounds: prefer the more specific non-spec label so the histogram stays informative
	prio := map[string]int{"spec": 0, "len": 1, "key": 2, "errBounded": 3, "wireBounded": 4, "prefixDigits": 5}
	if prio[b.name] > prio[a.name] {
		return b
	}
	return a
}

// the class of an error that quotes an input of class c (strconv.NumError, time.ParseError)
func quoting(c cls, who string) cls {
	r := c.rule + "; H:" + who + " quotes its input"
	switch {
	case c.name == "unknown":
		return cls{"unknown", 0, r}
	case c.name == "prefixDigits":
		return cls{"prefixDigits", c.k, r}
	case c.bound() == 0:
		return cls{"errSafe", 0, r}
	case c.bound() >= unbounded:
		return cls{"errValue", 0, r}
	default:
		return cls{"errBounded", c.bound(), r}
	}
}

// ---------------------------------------------------------------- rows

type seg struct {
	lit     string
	isLit   bool
	verb    string
	c       cls
	wrap    bool
	callees []string // function keys (resolved to ids at the end)
	what    string
}

type siteRow struct {
	file   string
	line   int
	fn     string
	kind   string // errorf new safe safef wrapStruct passthrough sentinel
	hidden bool
	format string
	segs   []seg
	cause  []seg
}

type analyzer struct {
	l        *loader
	p        *pkgInfo
	rows     []siteRow
	handUsed map[string][]string // rule -> sites
	errType  *types.Interface
	allFuncs map[string]bool
	ifaces   map[string][]string // "iface:pkg.I.M" -> implementing function keys
}

func (a *analyzer) hand(rule string, pos token.Pos) {
	p := a.l.fset.Position(pos)
	rel, _ := filepath.Rel(repo, p.Filename)
	s := fmt.Sprintf("%s:%d", filepath.ToSlash(rel), p.Line)
	for _, x := range a.handUsed[rule] {
		if x == s {
			return
		}
	}
	a.handUsed[rule] = append(a.handUsed[rule], s)
}

func shortPkg(modPath, path string) string {
	if path == modPath {
		return "iso8583"
	}
	return strings.TrimPrefix(path, modPath+"/")
}

func (a *analyzer) funcKey(f *types.Func) string {
	sig := f.Type().(*types.Signature)
	pk := ""
	if f.Pkg() != nil {
		pk = shortPkg(a.l.modPath, f.Pkg().Path())
	}
	if r := sig.Recv(); r != nil {
		t := r.Type()
		ptr := ""
		if pt, ok := t.(*types.Pointer); ok {
			t = pt.Elem()
			ptr = "*"
		}
		if n, ok := t.(*types.Named); ok {
			if _, isIface := n.Underlying().(*types.Interface); isIface {
				return "iface:" + pk + "." + n.Obj().Name() + "." + f.Name()
			}
			return pk + ".(" + ptr + n.Obj().Name() + ")." + f.Name()
		}
		return pk + ".(?)." + f.Name()
	}
	return pk + "." + f.Name()
}

func (a *analyzer) inRepo(pkg *types.Package) bool {
	return pkg != nil && (pkg.Path() == a.l.modPath || strings.HasPrefix(pkg.Path(), a.l.modPath+"/"))
}

func isErrorType(t types.Type) bool {
	if t == nil {
		return false
	}
	n, ok := t.(*types.Named)
	return ok && n.Obj().Pkg() == nil && n.Obj().Name() == "error"
}

func (a *analyzer) implementsError(t types.Type) bool {
	if t == nil {
		return false
	}
	return types.Implements(t, a.errType) || types.Implements(types.NewPointer(t), a.errType)
}

// calleeOf resolves the called function object of a call expression (nil for conversions,
// builtins and calls through function values).
func (a *analyzer) calleeOf(call *ast.CallExpr) *types.Func {
	var id *ast.Ident
	switch f := ast.Unparen(call.Fun).(type) {
	case *ast.Ident:
		id = f
	case *ast.SelectorExpr:
		id = f.Sel
	default:
		return nil
	}
	if o, ok := a.p.info.Uses[id].(*types.Func); ok {
		return o
	}
	return nil
}

func (a *analyzer) isCall(call *ast.CallExpr, pkgPath, name string) bool {
	f := a.calleeOf(call)
	return f != nil && f.Pkg() != nil && f.Pkg().Path() == pkgPath && f.Name() == name && f.Type().(*types.Signature).Recv() == nil
}

func (a *analyzer) constructionKind(call *ast.CallExpr) string {
	switch {
	case a.isCall(call, "fmt", "Errorf"):
		return "errorf"
	case a.isCall(call, "errors", "New"):
		return "new"
	case a.isCall(call, a.l.modPath+"/utils", "NewSafeError"):
		return "safe"
	case a.isCall(call, a.l.modPath+"/utils", "NewSafeErrorf"):
		return "safef"
	}
	return ""
}

// ---------------------------------------------------------------- per function context

type fnCtx struct {
	a     *analyzer
	name  string
	decl  ast.Node // *ast.FuncDecl or *ast.GenDecl
	body  ast.Node
	recv  string
	depth int
}

// all assignments / definitions of obj inside the function, with their position
type defSite struct {
	end   token.Pos // end of the defining statement (0 for range / type switch, whose body may use the variable)
	pos   token.Pos
	rhs   ast.Expr // the expression assigned (for a multi-value call: the call)
	index int      // index among the call results
	rng   *ast.RangeStmt
	isKey bool
	tsw   ast.Expr // type switch subject
}

func (c *fnCtx) defsOf(obj types.Object) []defSite {
	var out []defSite
	info := c.a.p.info
	ast.Inspect(c.body, func(n ast.Node) bool {
		switch s := n.(type) {
		case *ast.AssignStmt:
			for i, lhs := range s.Lhs {
				id, ok := lhs.(*ast.Ident)
				if !ok {
					continue
				}
				o := info.Defs[id]
				if o == nil {
					o = info.Uses[id]
				}
				if o != obj {
					continue
				}
				if len(s.Rhs) == len(s.Lhs) {
					out = append(out, defSite{pos: s.Pos(), end: s.End(), rhs: s.Rhs[i]})
				} else if len(s.Rhs) == 1 {
					out = append(out, defSite{pos: s.Pos(), end: s.End(), rhs: s.Rhs[0], index: i})
				}
			}
		case *ast.ValueSpec:
			for i, id := range s.Names {
				if info.Defs[id] != obj {
					continue
				}
				if len(s.Values) == len(s.Names) {
					out = append(out, defSite{pos: s.Pos(), rhs: s.Values[i]})
				} else if len(s.Values) == 1 {
					out = append(out, defSite{pos: s.Pos(), rhs: s.Values[0], index: i})
				} else {
					out = append(out, defSite{pos: s.Pos()})
				}
			}
		case *ast.RangeStmt:
			if id, ok := s.Key.(*ast.Ident); ok && (info.Defs[id] == obj || (s.Tok == token.ASSIGN && info.Uses[id] == obj)) {
				out = append(out, defSite{pos: s.Pos(), rng: s, isKey: true})
			}
			if id, ok := s.Value.(*ast.Ident); ok && (info.Defs[id] == obj || (s.Tok == token.ASSIGN && info.Uses[id] == obj)) {
				out = append(out, defSite{pos: s.Pos(), rng: s})
			}
		case *ast.TypeSwitchStmt:
			// switch v := x.(type): the per-clause objects are implicit
			if as, ok := s.Assign.(*ast.AssignStmt); ok && len(as.Rhs) == 1 {
				if ta, ok := as.Rhs[0].(*ast.TypeAssertExpr); ok {
					for _, cl := range s.Body.List {
						if info.Implicits[cl] == obj {
							out = append(out, defSite{pos: s.Pos(), tsw: ta.X})
						}
					}
				}
			}
		}
		return true
	})
	sort.Slice(out, func(i, j int) bool { return out[i].pos < out[j].pos })
	return out
}

// nearest definition lexically before pos (Go's `x, err := f(); if err != nil {...}` idiom)
func (c *fnCtx) reachingDef(obj types.Object, pos token.Pos) (defSite, bool) {
	defs := c.defsOf(obj)
	var best defSite
	found := false
	for _, d := range defs {
		if d.pos <= pos && !(d.end != 0 && pos < d.end) { // `x = f(x)`: the use inside the statement sees the earlier definition
			best, found = d, true
		}
	}
	return best, found
}

func (c *fnCtx) isParam(obj types.Object) bool {
	v, ok := obj.(*types.Var)
	if !ok {
		return false
	}
	var ft *ast.FuncType
	var recv *ast.FieldList
	if fd, ok := c.decl.(*ast.FuncDecl); ok {
		ft, recv = fd.Type, fd.Recv
	}
	check := func(fl *ast.FieldList) bool {
		if fl == nil {
			return false
		}
		for _, f := range fl.List {
			for _, id := range f.Names {
				if c.a.p.info.Defs[id] == v {
					return true
				}
			}
		}
		return false
	}
	if ft != nil && (check(ft.Params) || check(recv)) {
		return true
	}
	// parameters of function literals inside the body
	isP := false
	ast.Inspect(c.body, func(n ast.Node) bool {
		if fl, ok := n.(*ast.FuncLit); ok && check(fl.Type.Params) {
			isP = true
		}
		return !isP
	})
	return isP
}

func deref(t types.Type) types.Type {
	if p, ok := t.(*types.Pointer); ok {
		return p.Elem()
	}
	return t
}

func namedIs(t types.Type, pkgSuffix string, names ...string) bool {
	n, ok := deref(t).(*types.Named)
	if !ok || n.Obj().Pkg() == nil {
		return false
	}
	if !strings.HasSuffix(n.Obj().Pkg().Path(), pkgSuffix) {
		return false
	}
	for _, x := range names {
		if n.Obj().Name() == x {
			return true
		}
	}
	return false
}

// T: struct types whose string fields come from the spec or from the caller's Go code
func (c *fnCtx) specOwned(t types.Type) bool {
	return namedIs(t, "iso8583/field", "Spec", "TagSpec", "IndexTag") || namedIs(t, "moov-io/iso8583", "MessageSpec")
}

func isIntegerType(t types.Type) bool {
	if t == nil {
		return false
	}
	b, ok := t.Underlying().(*types.Basic)
	return ok && b.Info()&types.IsInteger != 0
}

func isStringish(t types.Type) bool {
	if t == nil {
		return false
	}
	switch u := t.Underlying().(type) {
	case *types.Basic:
		return u.Info()&types.IsString != 0
	case *types.Slice:
		b, ok := u.Elem().Underlying().(*types.Basic)
		return ok && (b.Kind() == types.Byte || b.Kind() == types.Uint8)
	}
	return false
}

func mentionsValueField(e ast.Expr) bool {
	found := false
	ast.Inspect(e, func(n ast.Node) bool {
		if s, ok := n.(*ast.SelectorExpr); ok && (s.Sel.Name == "value" || s.Sel.Name == "Value") {
			found = true
		}
		return !found
	})
	return found
}

// classify: taint class of a non-error expression
func (c *fnCtx) classify(e ast.Expr) cls {
	c.depth++
	defer func() { c.depth-- }()
	if c.depth > 40 {
		return cls{"unknown", 0, "recursion limit"}
	}
	a := c.a
	info := a.p.info
	e = ast.Unparen(e)
	tv, ok := info.Types[e]
	if !ok {
		if id, isId := e.(*ast.Ident); isId {
			if o := info.Uses[id]; o != nil {
				tv = types.TypeAndValue{Type: o.Type()}
				ok = true
			}
		}
		if !ok {
			return cls{"unknown", 0, "untyped expression"}
		}
	}
	t := tv.Type
	// T: compile-time constants are code
	if tv.Value != nil {
		return cls{"spec", 0, "T:constant"}
	}
	// H: package specs handles spec documents only, never message data
	if a.p.rel == "specs" {
		a.hand("H1 package specs: every interpolated string is part of a spec document (field index, type/prefix/encoding name), never message data", e.Pos())
		return cls{"spec", 0, "H1:specs-package"}
	}
	if isErrorType(t) {
		return c.classifyErr(e)
	}
	if namedIs(t, "reflect", "Kind", "Type") {
		return cls{"spec", 0, "T:reflect.Kind/Type"}
	}
	if isIntegerType(t) {
		if mentionsValueField(e) {
			return cls{"value", 0, "T:int holding a field value"}
		}
		// an integer variable that was PARSED from a value (strconv.Atoi / ParseInt / ParseUint of a
		// field's text, or any definition that mentions the value) prints up to 19-20 of its digits
		if id, isId := e.(*ast.Ident); isId {
			if o := info.Uses[id]; o != nil {
				for _, d := range c.defsOf(o) {
					if d.rhs == nil {
						continue
					}
					if mentionsValueField(d.rhs) {
						return cls{"value", 0, "T:int defined from a field value"}
					}
					if call, isCall := ast.Unparen(d.rhs).(*ast.CallExpr); isCall && len(call.Args) > 0 {
						// decimal parses only: the number printed with %d shows the digits that were parsed; a
						// number parsed in another base is re-rendered and does not contain the parsed text
						decimal := false
						if f := a.calleeOf(call); f != nil && f.Pkg() != nil && f.Pkg().Path() == "strconv" {
							switch f.Name() {
							case "Atoi":
								decimal = true
							case "ParseInt", "ParseUint":
								if len(call.Args) >= 2 {
									if bl, ok := call.Args[1].(*ast.BasicLit); ok && bl.Value == "10" {
										decimal = true
									}
								}
							}
						}
						if f := a.calleeOf(call); decimal && f != nil {
							if k := c.classifyString(call.Args[0]); k.name != "spec" && k.name != "len" && k.name != "key" && k.name != "char" {
								// the printed number carries what the parsed text carried (same bound)
								return cls{k.name, k.k, "T:int parsed by strconv from (" + k.rule + ")"}
							}
						}
					}
				}
			}
		}
		return cls{"len", 0, "T:integer"}
	}
	if isStringish(t) || isStringish(deref(t)) {
		return c.classifyString(e)
	}
	if _, isTuple := t.(*types.Tuple); isTuple {
		return c.classifyString(e) // multi-value call: taint of its arguments
	}
	if sl, ok := t.Underlying().(*types.Slice); ok && isStringish(sl.Elem()) {
		return c.classifyString(e) // []string
	}
	if _, isIface := t.Underlying().(*types.Interface); isIface {
		if id, ok := e.(*ast.Ident); ok {
			if o := info.Uses[id]; o != nil && c.isParam(o) {
				return cls{"value", 0, "T:interface-typed parameter (caller data)"}
			}
		}
	}
	return cls{"unknown", 0, "no rule for type " + t.String()}
}

func (c *fnCtx) classifyString(e ast.Expr) cls {
	a := c.a
	info := a.p.info
	e = ast.Unparen(e)
	switch x := e.(type) {
	case *ast.BasicLit:
		return cls{"spec", 0, "T:literal"}
	case *ast.CallExpr:
		// conversion string(x) / []byte(x)
		if tv, ok := info.Types[x.Fun]; ok && tv.IsType() && len(x.Args) == 1 {
			at := info.Types[x.Args[0]].Type
			if at != nil {
				if b, ok := at.Underlying().(*types.Basic); ok && b.Info()&types.IsInteger != 0 {
					return cls{"char", 0, "T:string(byte/rune)"}
				}
			}
			return c.classify(x.Args[0])
		}
		if f := a.calleeOf(x); f != nil && f.Pkg() != nil {
			pp := f.Pkg().Path()
			switch {
			case pp == "strconv" && (f.Name() == "Itoa" || f.Name() == "FormatInt" || f.Name() == "FormatUint"):
				return c.classify(x.Args[0])
			case pp == "strings" && f.Name() == "Join" && a.p.rel == "." && strings.HasSuffix(c.name, "DescribeFieldContainer"):
				a.hand("H2 describe.go: errorList holds err.Error() of Field.String() failures", x.Pos())
				return cls{"", 0, "H2:errorList"} // handled by caller as a wrap
			case pp == "strings" || pp == "bytes":
				r := cls{"spec", 0, "T:no-args"}
				for i, arg := range x.Args {
					if i == 0 || isStringish(info.Types[arg].Type) {
						r = joinCls(r, c.classify(arg))
					}
				}
				return r
			}
			// any other function returning text: taint of its arguments (and receiver)
			r := cls{"spec", 0, "T:call-without-data-args"}
			for _, arg := range x.Args {
				if at := info.Types[arg].Type; at != nil && (isStringish(at) || isErrorType(at)) {
					r = joinCls(r, c.classify(arg))
				}
			}
			if sel, ok := ast.Unparen(x.Fun).(*ast.SelectorExpr); ok {
				if rt := info.Types[sel.X].Type; rt != nil && !c.specOwned(rt) {
					if s := info.Selections[sel]; s != nil {
						// method call: the receiver's own data flows into the result unless the receiver is spec-owned
						if isStringish(rt) {
							r = joinCls(r, c.classify(sel.X))
						} else if namedIs(rt, "iso8583/field", "String", "Numeric", "Binary", "Hex", "Track1", "Track2", "Track3", "Composite", "Bitmap") {
							r = joinCls(r, cls{"value", 0, "T:method of a field value"})
						}
					}
				}
			}
			r.rule = "T:taint of call arguments (" + r.rule + ")"
			return r
		}
		if id, ok := ast.Unparen(x.Fun).(*ast.Ident); ok && id.Name == "make" && a.p.rel == "network" && len(x.Args) == 2 {
			if tv := info.Types[x.Args[1]]; tv.Value != nil {
				if n, ok := constant.Int64Val(tv.Value); ok {
					a.hand("H22 package network: buf := make([]byte, N) filled by io.ReadFull holds N header bytes of the stream (not a message field)", x.Pos())
					return cls{"wireBounded", int(n), "H22:network header buffer"}
				}
			}
		}
		return cls{"value", 0, "T:call through a function value"}
	case *ast.SliceExpr:
		return c.classify(x.X)
	case *ast.IndexExpr:
		return c.classify(x.X)
	case *ast.StarExpr:
		return c.classify(x.X)
	case *ast.BinaryExpr:
		return joinCls(c.classify(x.X), c.classify(x.Y))
	case *ast.SelectorExpr:
		if xt := info.Types[x.X].Type; xt != nil && c.specOwned(xt) {
			return cls{"spec", 0, "T:field of Spec/TagSpec/MessageSpec/IndexTag"}
		}
		if x.Sel.Name == "orderedSpecFieldTags" {
			a.hand("H3 Composite.orderedSpecFieldTags are the keys of spec.Subfields, sorted", x.Pos())
			return cls{"spec", 0, "H3:orderedSpecFieldTags"}
		}
		// a package-level variable or constant
		if o := info.Uses[x.Sel]; o != nil {
			if _, isConst := o.(*types.Const); isConst {
				return cls{"spec", 0, "T:constant"}
			}
		}
		return cls{"value", 0, "T:string/bytes field of a non-spec struct"}
	case *ast.Ident:
		o := info.Uses[x]
		if o == nil {
			o = info.Defs[x]
		}
		if o == nil {
			return cls{"unknown", 0, "unresolved identifier"}
		}
		if _, isConst := o.(*types.Const); isConst {
			return cls{"spec", 0, "T:constant"}
		}
		if c.specGuarded(o, x.Pos()) {
			a.hand("H4 a tag that was just found as a key of spec.Subfields equals a spec key", x.Pos())
			return cls{"spec", 0, "H4:guarded by a successful spec.Subfields lookup"}
		}
		if c.isParam(o) {
			return c.classifyParam(o, x.Pos())
		}
		d, ok := c.reachingDef(o, x.Pos())
		if !ok {
			return cls{"value", 0, "T:string/bytes variable without a visible definition"}
		}
		if d.rng != nil {
			return c.classifyRange(d, x.Pos())
		}
		if d.tsw != nil {
			return c.classify(d.tsw)
		}
		if d.rhs == nil {
			return cls{"spec", 0, "T:zero value"}
		}
		// x, y := strings.Cut(s, sep) and other multi-value calls: taint of the arguments
		return c.classify(d.rhs)
	case *ast.CompositeLit:
		r := cls{"spec", 0, "T:empty literal"}
		for _, el := range x.Elts {
			r = joinCls(r, c.classify(el))
		}
		return r
	}
	return cls{"value", 0, "T:string/bytes expression without a rule"}
}

func (c *fnCtx) classifyParam(o types.Object, pos token.Pos) cls {
	a := c.a
	if a.p.rel == "prefix" && strings.HasSuffix(c.name, ".DecodeLength") {
		a.hand("H5 package prefix, DecodeLength: text derived from `data` is the length prefix as found on the wire: data[:digits] (digits = largest literal in the package's &T{n} values; two hex characters per digit for the Hex family)", pos)
		return cls{"prefixDigits", c.prefixWireBytes(), "H5:prefix.DecodeLength data"}
	}
	if o.Name() == "idPaths" || o.Name() == "idPath" {
		a.hand("H6 UnsetFields/UnsetSubfields: id paths are supplied by the caller's code, they name fields", pos)
		return cls{"key", 0, "H6:id path"}
	}
	return cls{"value", 0, "T:string/bytes parameter"}
}

// prefixWireBytes: how many bytes of `data` a DecodeLength method of this receiver type can
// quote: the largest digit count any exported prefixer of the type is built with (&T{n}),
// doubled when the prefix is written as hex characters (hex.EncodedLen(p.Digits)).
func (c *fnCtx) prefixWireBytes() int {
	fd, ok := c.decl.(*ast.FuncDecl)
	if !ok || fd.Recv == nil || len(fd.Recv.List) == 0 {
		return unbounded
	}
	var tname string
	switch t := fd.Recv.List[0].Type.(type) {
	case *ast.StarExpr:
		if id, ok := t.X.(*ast.Ident); ok {
			tname = id.Name
		}
	case *ast.Ident:
		tname = t.Name
	}
	max := -1
	for _, f := range c.a.p.files {
		ast.Inspect(f, func(n ast.Node) bool {
			cl, ok := n.(*ast.CompositeLit)
			if !ok {
				return true
			}
			id, ok := cl.Type.(*ast.Ident)
			if !ok || id.Name != tname {
				return true
			}
			if len(cl.Elts) != 1 {
				max = unbounded
				return true
			}
			e := cl.Elts[0]
			if kv, ok := e.(*ast.KeyValueExpr); ok {
				e = kv.Value
			}
			if v, ok := byteLit(e); ok {
				if v > max {
					max = v
				}
			} else {
				max = unbounded
			}
			return true
		})
	}
	if max < 0 || max >= unbounded {
		return unbounded
	}
	usesHexLen := false
	ast.Inspect(c.body, func(n ast.Node) bool {
		if call, ok := n.(*ast.CallExpr); ok && c.a.isCall(call, "encoding/hex", "EncodedLen") {
			usesHexLen = true
		}
		return true
	})
	if usesHexLen {
		return 2 * max
	}
	return max
}

func (c *fnCtx) classifyRange(d defSite, pos token.Pos) cls {
	a := c.a
	info := a.p.info
	x := ast.Unparen(d.rng.X)
	xt := info.Types[x].Type
	if xt == nil {
		return cls{"unknown", 0, "untyped range expression"}
	}
	if d.isKey {
		switch u := xt.Underlying().(type) {
		case *types.Map:
			// keys of spec maps are spec; keys of a decoded JSON object are caller-supplied keys
			if sel, ok := x.(*ast.SelectorExpr); ok {
				if st := info.Types[sel.X].Type; st != nil && c.specOwned(st) {
					return cls{"spec", 0, "T:key of a spec map"}
				}
			}
			if namedIs(u.Elem(), "encoding/json", "RawMessage") {
				a.hand("H7 keys of the decoded JSON object name fields/subfields; they are not field contents", pos)
				return cls{"key", 0, "H7:JSON object key"}
			}
			return cls{"value", 0, "T:key of a data map"}
		default:
			return cls{"len", 0, "T:range index"}
		}
	}
	// range value
	if isIntegerType(info.Types[d.rng.Value].Type) || func() bool {
		if id, ok := d.rng.Value.(*ast.Ident); ok {
			if o := info.Defs[id]; o != nil {
				if b, ok := o.Type().Underlying().(*types.Basic); ok && b.Info()&types.IsInteger != 0 {
					return true
				}
			}
		}
		return false
	}() {
		return cls{"char", 0, "T:one byte/rune of a ranged value"}
	}
	return c.classify(x)
}

// specGuarded: in the statement list enclosing pos there is an earlier
//
//	if _, ok := <spec>.Subfields[X]; !ok { ... return/continue }
func (c *fnCtx) specGuarded(o types.Object, pos token.Pos) bool {
	info := c.a.p.info
	found := false
	ast.Inspect(c.body, func(n ast.Node) bool {
		blk, ok := n.(*ast.BlockStmt)
		if !ok || found {
			return !found
		}
		if !(blk.Pos() <= pos && pos <= blk.End()) {
			return false
		}
		for _, st := range blk.List {
			if st.End() > pos {
				break
			}
			ifs, ok := st.(*ast.IfStmt)
			if !ok || ifs.Init == nil || ifs.Else != nil {
				continue
			}
			as, ok := ifs.Init.(*ast.AssignStmt)
			if !ok || len(as.Rhs) != 1 || len(as.Lhs) != 2 {
				continue
			}
			ix, ok := as.Rhs[0].(*ast.IndexExpr)
			if !ok {
				continue
			}
			kid, ok := ix.Index.(*ast.Ident)
			if !ok || info.Uses[kid] != o {
				continue
			}
			sel, ok := ix.X.(*ast.SelectorExpr)
			if !ok || sel.Sel.Name != "Subfields" {
				continue
			}
			if st := info.Types[sel.X].Type; st == nil || !c.specOwned(st) {
				continue
			}
			un, ok := ifs.Cond.(*ast.UnaryExpr)
			if !ok || un.Op != token.NOT {
				continue
			}
			if len(ifs.Body.List) == 0 {
				continue
			}
			switch last := ifs.Body.List[len(ifs.Body.List)-1].(type) {
			case *ast.ReturnStmt:
				found = true
			case *ast.BranchStmt:
				if last.Tok == token.CONTINUE || last.Tok == token.BREAK {
					found = true
				}
			}
		}
		return !found
	})
	return found
}

// ---------------------------------------------------------------- errors

// classifyErr: class of an error-typed expression. Errors produced by functions of the
// library are returned with name "wrap" and the callee keys in rule (joined by '|').
func (c *fnCtx) classifyErr(e ast.Expr) cls {
	a := c.a
	info := a.p.info
	e = ast.Unparen(e)
	switch x := e.(type) {
	case *ast.CallExpr:
		return c.classifyErrCall(x, -1)
	case *ast.SelectorExpr:
		if o, ok := info.Uses[x.Sel].(*types.Var); ok && o.Pkg() != nil && o.Parent() == o.Pkg().Scope() {
			return cls{"errSafe", 0, "T:package-level sentinel " + o.Pkg().Name() + "." + o.Name()}
		}
		if xt := info.Types[x.X].Type; xt != nil && a.implementsError(xt) {
			// e.Err of a wrapper type
			return cls{"unknown", 0, "field of an error value"}
		}
	case *ast.Ident:
		o := info.Uses[x]
		if o == nil {
			o = info.Defs[x]
		}
		if o == nil {
			return cls{"unknown", 0, "unresolved error identifier"}
		}
		if v, ok := o.(*types.Var); ok && v.Pkg() != nil && v.Parent() == v.Pkg().Scope() {
			return cls{"errSafe", 0, "T:package-level sentinel " + v.Name()}
		}
		if c.isParam(o) {
			return cls{"unknown", 0, "error parameter " + o.Name()}
		}
		d, ok := c.reachingDef(o, x.Pos())
		if !ok || d.rhs == nil {
			return cls{"unknown", 0, "error variable without a visible definition"}
		}
		rhs := ast.Unparen(d.rhs)
		if call, ok := rhs.(*ast.CallExpr); ok {
			return c.classifyErrCall(call, d.index)
		}
		if ta, ok := rhs.(*ast.TypeAssertExpr); ok {
			return c.classifyErr(ta.X)
		}
		return c.classifyErr(rhs)
	case *ast.UnaryExpr:
		if cl, ok := x.X.(*ast.CompositeLit); ok {
			return c.classifyErr(cl)
		}
	case *ast.CompositeLit:
		// a wrapper struct literal is a site of this very function
		return cls{"wrap", 0, c.name}
	}
	return cls{"unknown", 0, "no rule for this error expression"}
}

func (c *fnCtx) classifyErrCall(call *ast.CallExpr, _ int) cls {
	a := c.a
	info := a.p.info
	if k := a.constructionKind(call); k != "" {
		return cls{"wrap", 0, c.name} // constructed in this function: a site of its own
	}
	f := a.calleeOf(call)
	if f == nil {
		// call through a function value
		if ft := info.Types[call.Fun].Type; ft != nil && namedIs(ft, "iso8583/field", "PackerFunc", "UnpackerFunc") {
			a.hand("H8 PackerFunc/UnpackerFunc call a function supplied by the user; its errors are outside the library (assumed not to echo values)", call.Pos())
			return cls{"errUser", 0, "H8:user-supplied packer function"}
		}
		if id, ok := ast.Unparen(call.Fun).(*ast.Ident); ok && id.Name == "recover" {
			return cls{"unknown", 0, "recover()"}
		}
		return cls{"unknown", 0, "error from a call through a function value"}
	}
	if a.inRepo(f.Pkg()) {
		return cls{"wrap", 0, a.funcKey(f)}
	}
	pp := ""
	if f.Pkg() != nil {
		pp = f.Pkg().Path()
	}
	recvName := ""
	if r := f.Type().(*types.Signature).Recv(); r != nil {
		if n, ok := deref(r.Type()).(*types.Named); ok {
			recvName = n.Obj().Name()
		}
	}
	full := pp + "." + f.Name()
	if recvName != "" {
		full = pp + "." + recvName + "." + f.Name()
	}
	arg := func(i int) cls {
		if i < len(call.Args) {
			return c.classify(call.Args[i])
		}
		return cls{"unknown", 0, "missing argument"}
	}
	switch {
	case pp == "strconv" && (f.Name() == "Atoi" || strings.HasPrefix(f.Name(), "Parse")):
		a.hand("H9 strconv.Atoi/Parse*: *NumError quotes the whole input string", call.Pos())
		return quoting(arg(0), full)
	case pp == "strconv" && f.Name() == "Unquote":
		a.hand("H10 strconv.Unquote returns the constant ErrSyntax", call.Pos())
		return cls{"errSafe", 0, "H10:" + full}
	case pp == "time" && f.Name() == "Parse":
		a.hand("H11 time.Parse: *ParseError quotes the value", call.Pos())
		return quoting(arg(1), full)
	case pp == "encoding/hex":
		a.hand("H12 encoding/hex: InvalidByteError shows one input byte, ErrLength is constant", call.Pos())
		src := arg(0)
		if f.Name() == "Decode" {
			src = arg(1)
		}
		if src.bound() == 0 && src.name != "unknown" {
			return cls{"errSafe", 0, "H12:" + full + " on " + src.name}
		}
		return cls{"errChar", 0, "H12:" + full}
	case pp == "encoding/json" && (f.Name() == "Unmarshal"):
		// target decides what the error can show
		var tt types.Type
		if len(call.Args) > 1 {
			tt = info.Types[call.Args[1]].Type
		}
		if tt != nil {
			if el := deref(tt); el != nil {
				if b, ok := el.Underlying().(*types.Basic); ok && b.Info()&types.IsNumeric != 0 {
					a.hand("H13 encoding/json.Unmarshal into a number: UnmarshalTypeError echoes the number literal", call.Pos())
					return quoting(arg(0), full)
				}
				if ifc, isIface := el.Underlying().(*types.Interface); isIface || a.hasMethod(tt, "UnmarshalJSON") {
					if isIface {
						// the dynamic type may be a library type WITHOUT UnmarshalJSON (Track1/2/3): encoding/json
						// then decodes the struct by reflection, and errors of nested text / JSON unmarshalers of the
						// standard library (time.Time: `parsing time "<the whole string>"…`) quote the value
						for _, p := range a.l.pkgs {
							sc := p.pkg.Scope()
							for _, nm := range sc.Names() {
								tn, ok := sc.Lookup(nm).(*types.TypeName)
								if !ok || tn.IsAlias() {
									continue
								}
								if _, isStruct := tn.Type().Underlying().(*types.Struct); !isStruct {
									continue
								}
								pt := types.NewPointer(tn.Type())
								if types.Implements(pt, ifc) && !a.hasMethod(pt, "UnmarshalJSON") {
									a.hand("H23 encoding/json.Unmarshal into an interface that "+tn.Name()+" implements without an UnmarshalJSON method: the reflection decoder passes on errors of nested standard-library unmarshalers (time.Time quotes the whole string)", call.Pos())
									return cls{"errValue", 0, "H23:" + full + " (reflection decoding of " + tn.Name() + ")"}
								}
							}
						}
					}
					a.hand("H14 encoding/json.Unmarshal into a json.Unmarshaler returns that method's error unchanged; syntax errors show one character", call.Pos())
					return cls{"wrap+char", 0, "iface:json.Unmarshaler.UnmarshalJSON"}
				}
			}
		}
		a.hand("H15 encoding/json.Unmarshal into string/map/struct targets: SyntaxError shows one character and an offset, UnmarshalTypeError the JSON kind and Go type", call.Pos())
		return cls{"errChar", 0, "H15:" + full}
	case pp == "encoding/json" && (f.Name() == "Marshal" || f.Name() == "Encode" || f.Name() == "MarshalIndent"):
		var tt types.Type
		if len(call.Args) > 0 {
			tt = info.Types[call.Args[0]].Type
		}
		if tt != nil && isStringish(tt) || tt != nil && func() bool { b, ok := tt.Underlying().(*types.Basic); return ok && b.Info()&types.IsNumeric != 0 }() {
			a.hand("H16 encoding/json.Marshal of a string or integer cannot fail", call.Pos())
			return cls{"errSafe", 0, "H16:" + full}
		}
		a.hand("H17 encoding/json.Marshal of library values: MarshalerError prefixes the error of the value's MarshalJSON with the Go type name", call.Pos())
		return cls{"wrap", 0, "iface:json.Marshaler.MarshalJSON"}
	case pp == "io" || pp == "bytes" || pp == "bufio" || pp == "encoding/binary" || (pp == "fmt" && strings.HasPrefix(f.Name(), "Fprint")):
		a.hand("H18 io / bytes / bufio / encoding/binary errors (EOF, ErrUnexpectedEOF, the caller's reader or writer) carry no message data", call.Pos())
		return cls{"errSafe", 0, "H18:" + full}
	case strings.HasPrefix(pp, "golang.org/x/text/encoding"):
		a.hand("H19 x/text encoding errors are constants", call.Pos())
		return cls{"errSafe", 0, "H19:" + full}
	case strings.HasSuffix(pp, "go-util/bcd"):
		a.hand("H20 yerden/go-util/bcd returns the constants ErrBadInput / ErrBadBCD", call.Pos())
		return cls{"errSafe", 0, "H20:" + full}
	}
	return cls{"unknown", 0, "no expectation for errors of " + full}
}

func (a *analyzer) hasMethod(t types.Type, name string) bool {
	ms := types.NewMethodSet(t)
	for i := 0; i < ms.Len(); i++ {
		if ms.At(i).Obj().Name() == name {
			return true
		}
	}
	return false
}

// ---------------------------------------------------------------- format strings

type fmtPiece struct {
	lit  string
	verb string
	star int // number of '*' operands consumed before the verb operand
}

func splitFormat(f string) []fmtPiece {
	var out []fmtPiece
	var lit strings.Builder
	i := 0
	for i < len(f) {
		ch := f[i]
		if ch != '%' {
			lit.WriteByte(ch)
			i++
			continue
		}
		if i+1 < len(f) && f[i+1] == '%' {
			lit.WriteByte('%')
			i += 2
			continue
		}
		j := i + 1
		stars := 0
		for j < len(f) && strings.IndexByte("+-# 0123456789.*[]", f[j]) >= 0 {
			if f[j] == '*' {
				stars++
			}
			j++
		}
		if j >= len(f) {
			lit.WriteString(f[i:])
			break
		}
		if lit.Len() > 0 {
			out = append(out, fmtPiece{lit: lit.String()})
			lit.Reset()
		}
		out = append(out, fmtPiece{verb: f[i : j+1], star: stars})
		i = j + 1
	}
	if lit.Len() > 0 {
		out = append(out, fmtPiece{lit: lit.String()})
	}
	return out
}

// verbPrecision: the N of %.Ns / %.Nv / %.Nq (literal precision only)
func verbPrecision(verb string) (int, bool) {
	if len(verb) < 4 {
		return 0, false
	}
	last := verb[len(verb)-1]
	if last != 's' && last != 'v' && last != 'q' {
		return 0, false
	}
	i := strings.IndexByte(verb, '.')
	if i < 0 {
		return 0, false
	}
	n, err := strconv.Atoi(verb[i+1 : len(verb)-1])
	if err != nil || n < 0 {
		return 0, false
	}
	return n, true
}

func (c *fnCtx) constString(e ast.Expr) (string, bool) {
	tv, ok := c.a.p.info.Types[e]
	if ok && tv.Value != nil && tv.Value.Kind() == constant.String {
		return constant.StringVal(tv.Value), true
	}
	return "", false
}

func (c *fnCtx) errSeg(verb string, e ast.Expr) seg {
	k := c.classifyErr(e)
	return c.segOfErrCls(verb, k)
}

func (c *fnCtx) segOfErrCls(verb string, k cls) seg {
	switch k.name {
	case "wrap":
		return seg{verb: verb, wrap: true, callees: []string{k.rule}, what: k.rule}
	case "wrap+char":
		return seg{verb: verb, wrap: true, callees: []string{k.rule}, what: k.rule + " (or a one-character syntax error)", c: cls{"errChar", 0, "H14"}}
	}
	return seg{verb: verb, c: k}
}

// buildSegs turns a format and its operands into segments.
func (c *fnCtx) buildSegs(format string, args []ast.Expr) []seg {
	var segs []seg
	ai := 0
	for _, p := range splitFormat(format) {
		if p.verb == "" {
			segs = append(segs, seg{isLit: true, lit: p.lit})
			continue
		}
		ai += p.star // width operands are ints: contribute padding only
		if ai >= len(args) {
			segs = append(segs, seg{verb: p.verb, c: cls{"unknown", 0, "missing operand"}})
			continue
		}
		arg := args[ai]
		ai++
		vch := p.verb[len(p.verb)-1]
		if vch == 'T' {
			segs = append(segs, seg{verb: p.verb, c: cls{"spec", 0, "T:%T prints a Go type name"}})
			continue
		}
		at := c.a.p.info.Types[arg].Type
		if at != nil && isErrorType(at) {
			segs = append(segs, c.errSeg(p.verb, arg))
			continue
		}
		k := c.classify(arg)
		// T: a precision on %s / %v / %q truncates a string operand to that many runes
		if n, ok := verbPrecision(p.verb); ok && at != nil && isStringish(at) && k.name != "unknown" && k.bound() > n {
			k = cls{"wireBounded", n, "T:precision " + p.verb + " truncates (" + k.rule + ")"}
		}
		if k.name == "" && k.rule == "H2:errorList" {
			segs = append(segs, seg{verb: p.verb, wrap: true, callees: []string{"iface:field.Field.String"}, what: "iface:field.Field.String (joined)"})
			continue
		}
		if k.name == "wrap" || k.name == "wrap+char" {
			segs = append(segs, c.segOfErrCls(p.verb, k))
			continue
		}
		segs = append(segs, seg{verb: p.verb, c: k})
	}
	return segs
}

// ---------------------------------------------------------------- walking

func (a *analyzer) position(pos token.Pos) (string, int) {
	p := a.l.fset.Position(pos)
	rel, _ := filepath.Rel(repo, p.Filename)
	return filepath.ToSlash(rel), p.Line
}

func (c *fnCtx) addConstruction(call *ast.CallExpr, kind string, hidden bool) {
	a := c.a
	file, line := a.position(call.Pos())
	row := siteRow{file: file, line: line, fn: c.name, kind: kind, hidden: hidden}
	switch kind {
	case "new":
		s, ok := c.constString(call.Args[0])
		if ok {
			row.format = s
			row.segs = []seg{{isLit: true, lit: s}}
		} else {
			row.format = "%s"
			row.segs = []seg{{verb: "%s", c: c.classify(call.Args[0])}}
		}
	case "errorf":
		s, ok := c.constString(call.Args[0])
		if !ok {
			row.format = "<non-constant format>"
			row.segs = []seg{{verb: "%s", c: cls{"unknown", 0, "non-constant format string"}}}
		} else {
			row.format = s
			row.segs = c.buildSegs(s, call.Args[1:])
		}
	case "safe":
		s, ok := c.constString(call.Args[1])
		if ok {
			row.format = s
			row.segs = []seg{{isLit: true, lit: s}}
		} else {
			row.format = "%s"
			row.segs = []seg{{verb: "%s", c: c.classify(call.Args[1])}}
		}
		row.cause = []seg{c.causeSeg(call.Args[0])}
	case "safef":
		s, ok := c.constString(call.Args[1])
		if !ok {
			row.format = "<non-constant format>"
			row.segs = []seg{{verb: "%s", c: cls{"unknown", 0, "non-constant format string"}}}
		} else {
			row.format = s
			row.segs = c.buildSegs(s, call.Args[2:])
		}
		row.cause = []seg{c.causeSeg(call.Args[0])}
	}
	a.rows = append(a.rows, row)
}

func (c *fnCtx) causeSeg(e ast.Expr) seg {
	if call, ok := ast.Unparen(e).(*ast.CallExpr); ok && c.a.constructionKind(call) != "" {
		return seg{verb: "cause", wrap: true, callees: []string{c.name}, what: "constructed in place (hidden)"}
	}
	return c.errSeg("cause", e)
}

func (c *fnCtx) walk(n ast.Node, hidden bool) {
	a := c.a
	info := a.p.info
	ast.Inspect(n, func(n ast.Node) bool {
		switch x := n.(type) {
		case *ast.CallExpr:
			if k := a.constructionKind(x); k != "" {
				c.addConstruction(x, k, hidden)
				// operands: the cause of a SafeError is hidden; other operands are walked normally
				for i, arg := range x.Args {
					if (k == "safe" || k == "safef") && i == 0 {
						c.walk(arg, true)
					} else {
						c.walk(arg, hidden)
					}
				}
				return false
			}
		case *ast.CompositeLit:
			t := info.Types[x].Type
			if t != nil && a.inRepo(typePkg(t)) && a.implementsError(t) {
				c.addStructWrap(x, t, hidden)
			}
		case *ast.ReturnStmt:
			c.addReturns(x, hidden)
		}
		return true
	})
}

func typePkg(t types.Type) *types.Package {
	if n, ok := deref(t).(*types.Named); ok {
		return n.Obj().Pkg()
	}
	return nil
}

// &UnpackError{Err: err, ...} / &PackError{Err: err}: Error() returns Err.Error()
func (c *fnCtx) addStructWrap(cl *ast.CompositeLit, t types.Type, hidden bool) {
	a := c.a
	file, line := a.position(cl.Pos())
	name := deref(t).(*types.Named).Obj().Name()
	row := siteRow{file: file, line: line, fn: c.name, kind: "wrapStruct", hidden: hidden, format: name + "{Err}"}
	var errExpr ast.Expr
	for _, el := range cl.Elts {
		if kv, ok := el.(*ast.KeyValueExpr); ok {
			if id, ok := kv.Key.(*ast.Ident); ok && id.Name == "Err" {
				errExpr = kv.Value
			}
		}
	}
	if name != "UnpackError" && name != "PackError" {
		row.segs = []seg{{verb: "%v", c: cls{"unknown", 0, "error struct " + name + " has no rendering rule"}}}
	} else if errExpr == nil {
		row.segs = []seg{{verb: "%v", c: cls{"unknown", 0, "wrapper literal without Err"}}}
	} else {
		a.hand("H21 errors.UnpackError / PackError render as their Err (Error() returns Err.Error(); RawMessage and FieldID are accessors only)", cl.Pos())
		row.segs = []seg{c.errSeg("%v", errExpr)}
	}
	a.rows = append(a.rows, row)
}

// returns that hand an error of a callee through unchanged
func (c *fnCtx) addReturns(rs *ast.ReturnStmt, hidden bool) {
	a := c.a
	info := a.p.info
	for _, res := range rs.Results {
		r := ast.Unparen(res)
		tv, ok := info.Types[r]
		if !ok {
			continue
		}
		// return f(...) with a tuple result containing an error
		if tup, ok := tv.Type.(*types.Tuple); ok {
			hasErr := false
			for i := 0; i < tup.Len(); i++ {
				if isErrorType(tup.At(i).Type()) {
					hasErr = true
				}
			}
			if call, isCall := r.(*ast.CallExpr); hasErr && isCall {
				c.addPass(rs, c.classifyErrCall(call, -1), hidden)
			}
			continue
		}
		if !isErrorType(tv.Type) && !(tv.Type != nil && a.implementsError(tv.Type) && a.inRepo(typePkg(tv.Type))) {
			continue
		}
		if tv.IsNil() {
			continue
		}
		switch x := r.(type) {
		case *ast.CallExpr:
			if a.constructionKind(x) != "" {
				continue // a site of its own
			}
			c.addPass(rs, c.classifyErrCall(x, -1), hidden)
		case *ast.UnaryExpr, *ast.CompositeLit:
			continue // struct wrapper: a site of its own
		default:
			k := c.classifyErr(r)
			if k.name == "wrap" && k.rule == c.name {
				// the variable holds an error constructed in this function
				continue
			}
			c.addPass(rs, k, hidden)
		}
	}
}

func (c *fnCtx) addPass(rs *ast.ReturnStmt, k cls, hidden bool) {
	a := c.a
	file, line := a.position(rs.Pos())
	row := siteRow{file: file, line: line, fn: c.name, kind: "passthrough", hidden: hidden, format: "%v"}
	row.segs = []seg{c.segOfErrCls("%v", k)}
	a.rows = append(a.rows, row)
}

func (a *analyzer) analyzePackage(p *pkgInfo) {
	a.p = p
	for _, f := range p.files {
		for _, d := range f.Decls {
			switch x := d.(type) {
			case *ast.FuncDecl:
				if x.Body == nil {
					continue
				}
				fo, _ := p.info.Defs[x.Name].(*types.Func)
				name := x.Name.Name
				if fo != nil {
					name = a.funcKey(fo)
				}
				a.allFuncs[name] = true
				if x.Recv != nil && (x.Name.Name == "Unwrap" || x.Name.Name == "Error") && fo != nil &&
					a.implementsError(fo.Type().(*types.Signature).Recv().Type()) {
					continue // accessor of an error type, not an error-returning operation
				}
				c := &fnCtx{a: a, name: name, decl: x, body: x.Body}
				c.walk(x.Body, false)
			case *ast.GenDecl:
				if x.Tok != token.VAR {
					continue
				}
				for _, s := range x.Specs {
					vs := s.(*ast.ValueSpec)
					for i, v := range vs.Values {
						nm := "var"
						if i < len(vs.Names) {
							nm = vs.Names[i].Name
						}
						name := shortPkg(a.l.modPath, p.path) + ".var:" + nm
						c := &fnCtx{a: a, name: name, decl: x, body: v}
						before := len(a.rows)
						c.walk(v, false)
						if len(a.rows) > before {
							a.allFuncs[name] = true
							for j := before; j < len(a.rows); j++ {
								if a.rows[j].kind == "new" || a.rows[j].kind == "errorf" {
									if _, isCall := ast.Unparen(v).(*ast.CallExpr); isCall {
										a.rows[j].kind = "sentinel"
									}
								}
							}
						}
					}
				}
			}
		}
	}
}

// interface method -> implementing methods of library types
func (a *analyzer) collectIfaces() {
	type impl struct {
		key string
		fn  *types.Func
	}
	var named []*types.Named
	for _, p := range a.l.pkgs {
		sc := p.pkg.Scope()
		for _, n := range sc.Names() {
			if tn, ok := sc.Lookup(n).(*types.TypeName); ok {
				if nt, ok := tn.Type().(*types.Named); ok {
					named = append(named, nt)
				}
			}
		}
	}
	addImpls := func(ikey string, iface *types.Interface, method string) {
		for _, nt := range named {
			if _, isI := nt.Underlying().(*types.Interface); isI {
				continue
			}
			for _, t := range []types.Type{nt, types.NewPointer(nt)} {
				if iface != nil && !types.Implements(t, iface) {
					continue
				}
				ms := types.NewMethodSet(t)
				for i := 0; i < ms.Len(); i++ {
					if fo, ok := ms.At(i).Obj().(*types.Func); ok && fo.Name() == method {
						k := a.funcKey(fo)
						dup := false
						for _, e := range a.ifaces[ikey] {
							if e == k {
								dup = true
							}
						}
						if !dup && a.allFuncs[k] {
							a.ifaces[ikey] = append(a.ifaces[ikey], k)
						}
					}
				}
			}
		}
		if _, ok := a.ifaces[ikey]; !ok {
			a.ifaces[ikey] = nil
		}
		sort.Strings(a.ifaces[ikey])
	}
	need := map[string]bool{}
	for _, r := range a.rows {
		for _, s := range append(append([]seg{}, r.segs...), r.cause...) {
			for _, cal := range s.callees {
				if strings.HasPrefix(cal, "iface:") {
					need[cal] = true
				}
			}
		}
	}
	for ikey := range need {
		parts := strings.Split(strings.TrimPrefix(ikey, "iface:"), ".")
		method := parts[len(parts)-1]
		iname := parts[len(parts)-2]
		pk := strings.Join(parts[:len(parts)-2], ".")
		var iface *types.Interface
		for _, p := range a.l.pkgs {
			if shortPkg(a.l.modPath, p.path) == pk {
				if tn, ok := p.pkg.Scope().Lookup(iname).(*types.TypeName); ok {
					iface, _ = tn.Type().Underlying().(*types.Interface)
				}
			}
		}
		// json.Marshaler / json.Unmarshaler: every library type with that method
		addImpls(ikey, iface, method)
	}
}

func leanStr(s string) string {
	var sb strings.Builder
	sb.WriteByte('"')
	for _, r := range s {
		switch {
		case r == '"':
			sb.WriteString("\\\"")
		case r == '\\':
			sb.WriteString("\\\\")
		case r == '\n':
			sb.WriteString("\\n")
		case r == '\t':
			sb.WriteString("\\t")
		case r < 0x20 || r == 0x7f:
			fmt.Fprintf(&sb, "\\x%02x", r)
		default:
			sb.WriteRune(r)
		}
	}
	sb.WriteByte('"')
	return sb.String()
}

func genErrorSites() {
	fset := token.NewFileSet()
	modPath := "github.com/moov-io/iso8583"
	if b, err := os.ReadFile(filepath.Join(repo, "go.mod")); err == nil {
		for _, ln := range strings.Split(string(b), "\n") {
			if strings.HasPrefix(ln, "module ") {
				modPath = strings.TrimSpace(strings.TrimPrefix(ln, "module "))
			}
		}
	}
	os.Setenv("GOFLAGS", "-mod=mod")
	os.Setenv("GOPROXY", "off")
	if os.Getenv("GOTOOLCHAIN") == "" {
		os.Setenv("GOTOOLCHAIN", "local")
	}
	cwd, _ := os.Getwd()
	must(os.Chdir(repo))
	defer os.Chdir(cwd)
	def, ok := importer.ForCompiler(fset, "source", nil).(types.ImporterFrom)
	if !ok {
		must(fmt.Errorf("source importer is not an ImporterFrom"))
	}
	l := &loader{fset: fset, modPath: modPath, pkgs: map[string]*pkgInfo{}, def: def, loading: map[string]bool{}}
	a := &analyzer{l: l, handUsed: map[string][]string{}, allFuncs: map[string]bool{}, ifaces: map[string][]string{}}
	a.errType = types.Universe.Lookup("error").Type().Underlying().(*types.Interface)
	var pkgs []*pkgInfo
	for _, rel := range libPackages {
		path := modPath
		if rel != "." {
			path = modPath + "/" + rel
		}
		p, err := l.load(path)
		must(err)
		pkgs = append(pkgs, p)
	}
	for _, p := range pkgs {
		if p.rel == "utils" {
			// H: utils.NewSafeError/NewSafeErrorf are the definition of the safe wrapper; their call sites are classified instead
			continue
		}
		a.analyzePackage(p)
	}
	a.collectIfaces()

	sort.SliceStable(a.rows, func(i, j int) bool {
		if a.rows[i].file != a.rows[j].file {
			return a.rows[i].file < a.rows[j].file
		}
		return a.rows[i].line < a.rows[j].line
	})

	// function ids
	fnSet := map[string]bool{}
	for _, r := range a.rows {
		fnSet[r.fn] = true
	}
	expand := func(key string) []string {
		if strings.HasPrefix(key, "iface:") {
			return a.ifaces[key]
		}
		return []string{key}
	}
	for _, r := range a.rows {
		for _, s := range append(append([]seg{}, r.segs...), r.cause...) {
			for _, cal := range s.callees {
				for _, k := range expand(cal) {
					fnSet[k] = true
				}
			}
		}
	}
	var fns []string
	for k := range fnSet {
		fns = append(fns, k)
	}
	sort.Strings(fns)
	fnID := map[string]int{}
	for i, k := range fns {
		fnID[k] = i
	}

	// least fixpoint of the per-function bound (max over the function's visible sites, wraps resolved)
	bound := make([]int, len(fns))
	segBound := func(s seg) int {
		b := 0
		if s.isLit {
			return 0
		}
		if s.wrap {
			for _, cal := range s.callees {
				for _, k := range expand(cal) {
					if bound[fnID[k]] > b {
						b = bound[fnID[k]]
					}
				}
			}
			if s.c.name != "" && s.c.bound() > b {
				b = s.c.bound()
			}
			return b
		}
		return s.c.bound()
	}
	for changed := true; changed; {
		changed = false
		for _, r := range a.rows {
			if r.hidden {
				continue
			}
			for _, s := range r.segs {
				if sb := segBound(s); sb > bound[fnID[r.fn]] {
					bound[fnID[r.fn]] = sb
					changed = true
				}
			}
		}
	}

	hist := map[string]int{}
	kinds := map[string]int{}
	var sb strings.Builder
	sb.WriteString("-- GENERATED by harness/cmd/extract (errsites.go) from the non-test sources of /repo's library packages. Do not edit.\n")
	sb.WriteString("import Iso8583.Model.Errors\nnamespace Iso8583.Gen\nopen Iso8583.Errors\n\n")
	sb.WriteString("/-- functions that construct, wrap or pass on errors; index = function id -/\ndef errorFns : List String := [\n")
	for i, k := range fns {
		sep := ","
		if i == len(fns)-1 {
			sep = ""
		}
		fmt.Fprintf(&sb, "  %s%s\n", leanStr(k), sep)
	}
	sb.WriteString("]\n\n")
	sb.WriteString("/-- claimed bound per function id (none = unbounded): longest run of value-derived units in the text of an error it returns;\n    computed by the translator as a least fixpoint and *checked* in Lean to be inductive (C18.fn_bounds_inductive) -/\ndef fnBounds : List (Option Nat) := [")
	for i, b := range bound {
		if i > 0 {
			sb.WriteString(", ")
		}
		if i%12 == 0 {
			sb.WriteString("\n  ")
		}
		if b >= unbounded {
			sb.WriteString("none")
		} else {
			fmt.Fprintf(&sb, "some %d", b)
		}
	}
	sb.WriteString("]\n\n")
	writeSeg := func(s seg) string {
		if s.isLit {
			return fmt.Sprintf(".lit %d %s", len(s.lit), leanStr(s.lit))
		}
		if s.wrap {
			var ids []string
			for _, cal := range s.callees {
				for _, k := range expand(cal) {
					ids = append(ids, strconv.Itoa(fnID[k]))
				}
			}
			extra := ".errSafe"
			if s.c.name != "" {
				extra = s.c.lean()
			}
			return fmt.Sprintf(".wrap %s [%s] %s %s", leanStr(s.verb), strings.Join(ids, ", "), extra, leanStr(s.what))
		}
		return fmt.Sprintf(".arg %s %s %s", leanStr(s.verb), s.c.lean(), leanStr(s.c.rule))
	}
	sb.WriteString("def errorSites : List Site := [\n")
	for i, r := range a.rows {
		kinds[r.kind]++
		var ss, cs []string
		for _, s := range r.segs {
			ss = append(ss, writeSeg(s))
			if !s.isLit && !r.hidden {
				if s.wrap {
					hist["errWrapped"]++
				} else {
					hist[s.c.name]++
				}
			}
		}
		for _, s := range r.cause {
			cs = append(cs, writeSeg(s))
		}
		sep := ","
		if i == len(a.rows)-1 {
			sep = ""
		}
		fmt.Fprintf(&sb, "  { file := %s, line := %d, fn := %s, fnId := %d, kind := .%s, hidden := %v, format := %s,\n    segs := [%s],\n    cause := [%s] }%s\n",
			leanStr(r.file), r.line, leanStr(r.fn), fnID[r.fn], r.kind, r.hidden, leanStr(r.format), strings.Join(ss, ", "), strings.Join(cs, ", "), sep)
	}
	sb.WriteString("]\n\n")
	// hand rules
	var rules []string
	for k := range a.handUsed {
		rules = append(rules, k)
	}
	sort.Slice(rules, func(i, j int) bool {
		ni, _ := strconv.Atoi(strings.TrimPrefix(strings.SplitN(rules[i], " ", 2)[0], "H"))
		nj, _ := strconv.Atoi(strings.TrimPrefix(strings.SplitN(rules[j], " ", 2)[0], "H"))
		return ni < nj
	})
	sb.WriteString("/-- hand-written expectations used by the classification (rule, sites it decided) -/\ndef handRules : List (String × List String) := [\n")
	for i, k := range rules {
		var qs []string
		for _, s := range a.handUsed[k] {
			qs = append(qs, leanStr(s))
		}
		sep := ","
		if i == len(rules)-1 {
			sep = ""
		}
		fmt.Fprintf(&sb, "  (%s, [%s])%s\n", leanStr(k), strings.Join(qs, ", "), sep)
	}
	sb.WriteString("]\n\n")
	var hk []string
	for k := range hist {
		hk = append(hk, k)
	}
	sort.Strings(hk)
	sb.WriteString("/- class histogram of the visible insertions:")
	for _, k := range hk {
		fmt.Fprintf(&sb, " %s=%d", k, hist[k])
	}
	sb.WriteString("\n   site kinds:")
	var kk []string
	for k := range kinds {
		kk = append(kk, k)
	}
	sort.Strings(kk)
	for _, k := range kk {
		fmt.Fprintf(&sb, " %s=%d", k, kinds[k])
	}
	fmt.Fprintf(&sb, "\n   rows=%d functions=%d -/\n\nend Iso8583.Gen\n", len(a.rows), len(fns))
	writeIfChanged("ErrorSites.lean", sb.String())

	// the same table for the Go oracle (harness/oracle reads it at run time): one JSON-ish line per site
	var tb strings.Builder
	for _, r := range a.rows {
		var parts []string
		for _, s := range r.segs {
			switch {
			case s.isLit:
				parts = append(parts, "L"+strconv.Quote(s.lit))
			case s.wrap:
				parts = append(parts, "W"+strconv.Quote(s.verb))
			default:
				parts = append(parts, "A"+strconv.Quote(s.verb+"|"+s.c.name+"|"+strconv.Itoa(s.c.bound())))
			}
		}
		fmt.Fprintf(&tb, "%s:%d\t%s\t%s\t%v\t%s\n", r.file, r.line, r.fn, r.kind, r.hidden, strings.Join(parts, "\x1f"))
	}
	writeIfChanged("ErrorSites.tsv", tb.String())
}
