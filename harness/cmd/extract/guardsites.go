package main

// The sites whose decision logic is translated (guards.go), grouped by the package of the
// library and the property file that relates them to the model.

func ids(m map[string]string, names ...string) map[string]string {
	if m == nil {
		m = map[string]string{}
	}
	for _, n := range names {
		m[n] = n
	}
	return m
}

func decPrefSites(name, file, recv string) []guardSite {
	return []guardSite{
		{Name: name + "_EncodeLength", Sig: []string{"p", "maxLen", "dataLen"}, File: file, Recv: recv, Func: "EncodeLength",
			Params: []string{"maxLen", "dataLen", "digits"},
			Map:    ids(map[string]string{"p.Digits": "digits", "p.digits": "digits", "len(strconv.Itoa(dataLen))": "(itoaLen dataLen)"}, "maxLen", "dataLen")},
		{Name: name + "_DecodeLength", Sig: []string{"p", "maxLen", "data"}, DefBy: map[string]string{"strconv.Atoi": "dataLen"}, File: file, Recv: recv, Func: "DecodeLength",
			Params: []string{"maxLen", "dlen", "digits", "dataLen"},
			Map: ids(map[string]string{"p.Digits": "digits", "p.digits": "digits", "len(data)": "dlen",
				"bcd.EncodedLen(p.Digits)": "((digits + 1) / 2)"}, "maxLen", "dataLen")},
	}
}

func genGuards() {
	var pref []guardSite
	pref = append(pref, decPrefSites("ascii", "prefix/ascii.go", "asciiVarPrefixer")...)
	pref = append(pref, decPrefSites("ebcdic", "prefix/ebcdic.go", "ebcdicVarPrefixer")...)
	pref = append(pref, decPrefSites("ebcdic1047", "prefix/ebcdic1047.go", "ebcdic1047Prefixer")...)
	pref = append(pref, decPrefSites("bcd", "prefix/bcd.go", "bcdVarPrefixer")...)
	pref = append(pref,
		guardSite{Name: "binary_EncodeLength", Sig: []string{"p", "maxLen", "dataLen"}, File: "prefix/binary.go", Recv: "binaryVarPrefixer", Func: "EncodeLength",
			Params: []string{"maxLen", "dataLen", "digits", "reslen"},
			Map:    ids(map[string]string{"p.Digits": "digits", "len(res)": "reslen"}, "maxLen", "dataLen")},
		guardSite{Name: "binary_DecodeLength", Sig: []string{"p", "maxLen", "data"}, DefBy: map[string]string{"bytesToInt": "dataLen"}, File: "prefix/binary.go", Recv: "binaryVarPrefixer", Func: "DecodeLength",
			Params: []string{"maxLen", "dlen", "digits", "dataLen"},
			Map:    ids(map[string]string{"p.Digits": "digits", "len(data)": "dlen", "len(prefBytes)": "digits"}, "maxLen", "dataLen")},
		guardSite{Name: "binary_bytesToInt", File: "prefix/binary.go", Recv: "", Func: "bytesToInt",
			Params: []string{"n"}, Map: ids(nil, "n")},
		guardSite{Name: "hex_EncodeLength", Sig: []string{"p", "maxLen", "dataLen"}, File: "prefix/hex.go", Recv: "hexVarPrefixer", Func: "EncodeLength",
			Params: []string{"maxLen", "dataLen", "digits"},
			Map:    ids(map[string]string{"p.Digits": "digits"}, "maxLen", "dataLen")},
		guardSite{Name: "hex_DecodeLength", Sig: []string{"p", "maxLen", "data"}, DefBy: map[string]string{"strconv.ParseUint": "dataLen"}, File: "prefix/hex.go", Recv: "hexVarPrefixer", Func: "DecodeLength",
			Params: []string{"maxLen", "dlen", "digits", "dataLen"},
			Map:    ids(map[string]string{"p.Digits": "digits", "len(data)": "dlen", "hex.EncodedLen(p.Digits)": "(digits * 2)"}, "maxLen", "dataLen")},
		guardSite{Name: "ber_EncodeLength", Sig: []string{"p", "maxLen", "dataLen"}, File: "prefix/bertlv.go", Recv: "berTLVPrefixer", Func: "EncodeLength",
			Params: []string{"maxLen", "dataLen"}, Map: ids(nil, "maxLen", "dataLen")},
		guardSite{Name: "ber_DecodeLength", Sig: []string{"p", "maxLen", "data"}, File: "prefix/bertlv.go", Recv: "berTLVPrefixer", Func: "DecodeLength",
			Params: []string{"maxLen", "firstByte", "v"},
			Map: ids(map[string]string{"bits.LeadingZeros8(firstByte)>0": "decide (firstByte < 128)",
				"bigLen.IsInt64()": "decide (v ≤ 9223372036854775807)", "bigLen.Int64()": "v"}, "maxLen", "firstByte")},
	)
	genGuardFile("GuardsPrefix.lean", pref)

	hlen := map[string]string{"h.Len": "len", "maxASCII4BytesLength": "(Iso8583.Gen.maxASCII4BytesLength : Int)",
		"maxBCD2BytesLength": "(Iso8583.Gen.maxBCD2BytesLength : Int)", "MaxMessageLength": "(Iso8583.Gen.vmlMaxMessageLength : Int)"}
	net := []guardSite{
		{Name: "binary2_SetLength", Sig: []string{"h", "length"}, File: "network/binary_2bytes.go", Recv: "Binary2Bytes", Func: "SetLength", Params: []string{"length"}, Map: ids(nil, "length")},
		{Name: "vmlh_SetLength", Sig: []string{"h", "length"}, File: "network/vml_header.go", Recv: "VMLH", Func: "SetLength", Params: []string{"length"}, Map: ids(nil, "length")},
		{Name: "ascii4_WriteTo", Sig: []string{"h", "w"}, File: "network/ascii_4bytes_header.go", Recv: "ASCII4BytesHeader", Func: "WriteTo", Params: []string{"len"}, Map: hlen},
		{Name: "bcd2_WriteTo", Sig: []string{"h", "w"}, File: "network/bcd_2bytes.go", Recv: "BCD2BytesHeader", Func: "WriteTo", Params: []string{"len"}, Map: hlen},
		{Name: "vmlh_WriteTo", Sig: []string{"h", "w"}, File: "network/vml_header.go", Recv: "VMLH", Func: "WriteTo", Params: []string{"len"}, Map: hlen},
		{Name: "ascii4_ReadFrom", Sig: []string{"h", "r"}, DefBy: map[string]string{"io.ReadFull": "read", "strconv.Atoi": "l"}, File: "network/ascii_4bytes_header.go", Recv: "ASCII4BytesHeader", Func: "ReadFrom", Params: []string{"read", "l"}, Map: ids(nil, "read", "l")},
		{Name: "vmlh_ReadFrom", Sig: []string{"h", "r"}, File: "network/vml_header.go", Recv: "VMLH", Func: "ReadFrom", Params: []string{"len"}, Map: hlen},
	}
	genGuardFile("GuardsNet.lean", net)

	decSite := func(name, file, recv, dataName string) guardSite {
		return guardSite{Name: name + "_Decode", Sig: []string{"e", dataName, "length"}, File: file, Recv: recv, Func: "Decode",
			Params: []string{"length", "dlen", "n", "r"},
			Map:    ids(map[string]string{"len(" + dataName + ")": "dlen", "hex.EncodedLen(length)": "(length * 2)"}, "length", "n", "r")}
	}
	enc := []guardSite{
		decSite("ascii", "encoding/ascii.go", "asciiEncoder", "data"),
		{Name: "ascii_Encode", Sig: []string{"e", "data"}, File: "encoding/ascii.go", Recv: "asciiEncoder", Func: "Encode", Params: []string{"r"}, Map: ids(nil, "r")},
		decSite("binary", "encoding/binary.go", "binaryEncoder", "data"),
		decSite("bcd", "encoding/bcd.go", "bcdEncoder", "src"),
		decSite("lbcd", "encoding/lbcd.go", "lBCDEncoder", "src"),
		decSite("bytesToHex", "encoding/hex.go", "hexToASCIIEncoder", "data"),
		decSite("hexToBytes", "encoding/hex.go", "asciiToHexEncoder", "data"),
		decSite("ebcdic", "encoding/ebcdic.go", "ebcdicEncoder", "src"),
		decSite("ebcdic1047", "encoding/ebcdic1047.go", "ebcdic1047Encoder", "data"),
	}
	enc = append(enc, guardSite{Name: "berTag_Decode", File: "encoding/bertlv.go", Recv: "berTLVEncoderTag", Func: "Decode",
		Sig:    []string{"", "data", "length"},
		Params: []string{"firstByte", "b", "more:Bool"},
		Map: map[string]string{"bits.TrailingZeros8(^firstByte)": "(tz8 (255 - firstByte))", "bits.LeadingZeros8(b)": "(lz8 b)",
			"shouldReadSubsequentByte": "more", "b": "b", "firstByte": "firstByte"}})
	genGuardFile("GuardsEnc.lean", enc)

	comp := []guardSite{
		{Name: "composite_Unpack", Sig: []string{"f", "data"}, File: "field/composite.go", Recv: "Composite", Func: "Unpack",
			Params: []string{"dataLen", "offset", "dlen", "read"},
			Map:    ids(map[string]string{"len(data)": "dlen"}, "dataLen", "offset", "read")},
	}
	genGuardFile("GuardsComposite.lean", comp)

	padM := map[string]string{"len(data)": "dlen", "length": "length"}
	pad := []guardSite{
		{Name: "left_Pad", Sig: []string{"p", "data", "length"}, File: "padding/left.go", Recv: "leftPadder", Func: "Pad", Params: []string{"dlen", "length"}, Map: padM},
		{Name: "right_Pad", Sig: []string{"p", "data", "length"}, File: "padding/right.go", Recv: "rightPadder", Func: "Pad", Params: []string{"dlen", "length"}, Map: padM},
	}
	genGuardFile("GuardsPad.lean", pad)

	tlv := []guardSite{
		{Name: "tlv_unpackSubfieldsByTag", Sig: []string{"f", "data"}, File: "field/composite.go", Recv: "Composite", Func: "unpackSubfieldsByTag",
			Params:   []string{"offset", "dlen", "fieldLength", "read", "start", "known:Bool", "skip:Bool"},
			FirstInt: "offset", DefBySel: map[string]string{"Unpack": "read"},
			DefAll: map[string][]string{"pref.DecodeLength": {"fieldLength", "read"}, "f.spec.Tag.Enc.Decode": {"", "read"}},
			Map: ids(map[string]string{"len(data)": "dlen", "ok": "known", "f.skipUnknownTLVTags()": "skip"},
				"offset", "start")},
		{Name: "bitmapped_unpackSubfieldsByBitmap", Sig: []string{"f", "data"}, File: "field/composite.go", Recv: "Composite", Func: "unpackSubfieldsByBitmap",
			Params: []string{"i", "bitmapLen", "isSet:Bool", "found:Bool"},
			Map:    ids(map[string]string{"f.bitmap().Len()": "bitmapLen", "f.bitmap().IsSet(i)": "isSet", "ok": "found"}, "i")},
	}
	genGuardFile("GuardsTlv.lean", tlv)

	bm := map[string]string{"f.spec.DisableAutoExpand": "dae", "len(f.data)": "dataLen", "f.bitmapLength": "blockLen"}
	bitmap := []guardSite{
		{Name: "bitmap_IsBitmapPresenceBit", Sig: []string{"f", "n"}, File: "field/bitmap.go", Recv: "Bitmap", Func: "IsBitmapPresenceBit",
			Params: []string{"dae:Bool", "n", "blockLen"}, Map: ids(bm, "n")},
		{Name: "bitmap_IsSet", Arith: true, Sig: []string{"f", "n"}, File: "field/bitmap.go", Recv: "Bitmap", Func: "IsSet",
			Params: []string{"n", "dataLen", "bitIsOn:Bool"}, Map: ids(map[string]string{"len(f.data)": "dataLen",
				"f.data[(n-1)/8]&(1<<(uint(7-(n-1))%8))!=0": "bitIsOn"}, "n")},
		{Name: "bitmap_Set", Arith: true, Sig: []string{"f", "n"}, File: "field/bitmap.go", Recv: "Bitmap", Func: "Set",
			Params: []string{"dae:Bool", "n", "dataLen", "blockLen", "i"}, Map: ids(map[string]string{"f.spec.DisableAutoExpand": "dae", "len(f.data)": "dataLen", "f.bitmapLength": "blockLen"}, "n", "i")},
		{Name: "message_unpack", Sig: []string{"m", "src"}, File: "message.go", Recv: "Message", Func: "unpack",
			Params: []string{"i", "bitmapLen", "presence:Bool", "isSet:Bool", "found:Bool"},
			Map: ids(map[string]string{"m.bitmap().Len()": "bitmapLen", "m.bitmap().IsBitmapPresenceBit(i)": "presence",
				"m.bitmap().IsSet(i)": "isSet", "ok": "found"}, "i")},
		{Name: "bitmap_Unpack", Sig: []string{"f", "data"}, DefName: map[string]string{"f.spec.Enc.Decode": "decoded"}, File: "field/bitmap.go", Recv: "Bitmap", Func: "Unpack",
			Params: []string{"dae:Bool", "decodedLen", "firstBitClear:Bool"},
			Map:    map[string]string{"f.spec.DisableAutoExpand": "dae", "len(decoded)": "decodedLen", "decoded[0]&firstBitOn==0": "firstBitClear"}},
		{Name: "message_pack", Sig: []string{"m"}, File: "message.go", Recv: "Message", Func: "pack",
			Params: []string{"id", "presence:Bool", "isSet:Bool", "found:Bool"},
			Map: map[string]string{"id": "id", "i": "id", "m.bitmap().IsBitmapPresenceBit(id)": "presence",
				"m.bitmap().IsBitmapPresenceBit(i)": "presence", "m.bitmap().IsSet(id)": "isSet", "ok": "found"}},
	}
	genGuardFile("GuardsBitmap.lean", bitmap)

	// what the decoding functions RETURN besides the decision: the byte counts they report as read
	// and the lengths they pass on (Props/GuardsReturns.lean)
	rp := func(name, file, recv, defBy string, m map[string]string) guardSite {
		return guardSite{Name: name + "_DecodeLength", OnlyRets: true, Slices: true, Rets: []int{0, 1}, Sig: []string{"p", "maxLen", "data"},
			DefBy: map[string]string{defBy: "dataLen"}, File: file, Recv: recv, Func: "DecodeLength",
			Params: []string{"maxLen", "dlen", "digits", "dataLen"},
			Map: ids(merge(map[string]string{"p.Digits": "digits", "p.digits": "digits", "len(data)": "dlen", "len(prefBytes)": "digits",
				"bcd.EncodedLen(p.Digits)": "((digits + 1) / 2)", "hex.EncodedLen(p.Digits)": "(digits * 2)"}, m), "maxLen", "dataLen")}
	}
	fx := func(name, file, recv string) []guardSite {
		return []guardSite{
			{Name: name + "Fixed_DecodeLength", OnlyRets: true, Rets: []int{0, 1}, Sig: []string{"p", "fixLen", "data"}, File: file, Recv: recv, Func: "DecodeLength",
				Params: []string{"fixLen", "dlen"}, Map: ids(map[string]string{"len(data)": "dlen"}, "fixLen")},
			{Name: name + "Fixed_EncodeLength", Sig: []string{"p", "fixLen", "dataLen"}, File: file, Recv: recv, Func: "EncodeLength",
				Params: []string{"fixLen", "dataLen"}, Map: ids(nil, "fixLen", "dataLen")},
		}
	}
	rd := func(name, file, recv, dataName string) guardSite {
		return guardSite{Name: name + "_Decode", OnlyRets: true, Rets: []int{1}, Sig: []string{"e", dataName, "length"}, File: file, Recv: recv, Func: "Decode",
			Params: []string{"length", "dlen"},
			Map:    ids(map[string]string{"len(" + dataName + ")": "dlen", "hex.EncodedLen(length)": "(length * 2)"}, "length")}
	}
	unp := func(name, recv string) guardSite {
		return guardSite{Name: name + "_Unpack", Slices: true, Rets: []int{1}, Args: map[string][]int{"spec.Enc.Decode": {1}},
			Sig: []string{"", "packedFieldValue", "spec"}, File: "field/packer_unpacker.go", Recv: recv, Func: "Unpack",
			DefAll: map[string][]string{"spec.Pref.DecodeLength": {"valueLength", "prefBytes"}, "spec.Enc.Decode": {"", "read"}},
			Params: []string{"valueLength", "prefBytes", "read", "vlen", "hasPad:Bool"},
			Map:    map[string]string{"spec.Pad!=nil": "hasPad", "len(value)": "vlen"}}
	}
	rets := []guardSite{
		rp("ascii", "prefix/ascii.go", "asciiVarPrefixer", "strconv.Atoi", nil),
		rp("ebcdic", "prefix/ebcdic.go", "ebcdicVarPrefixer", "strconv.Atoi", nil),
		rp("ebcdic1047", "prefix/ebcdic1047.go", "ebcdic1047Prefixer", "strconv.Atoi", nil),
		rp("bcd", "prefix/bcd.go", "bcdVarPrefixer", "strconv.Atoi", nil),
		rp("binary", "prefix/binary.go", "binaryVarPrefixer", "bytesToInt", nil),
		rp("hex", "prefix/hex.go", "hexVarPrefixer", "strconv.ParseUint", nil),
		{Name: "ber_DecodeLength", OnlyRets: true, Rets: []int{0, 1}, Sig: []string{"p", "maxLen", "data"}, File: "prefix/bertlv.go", Recv: "berTLVPrefixer", Func: "DecodeLength",
			Params: []string{"maxLen", "firstByte", "v"},
			Map: ids(map[string]string{"bits.LeadingZeros8(firstByte)>0": "decide (firstByte < 128)", "len(length)": "(firstByte - 128)",
				"bigLen.IsInt64()": "decide (v ≤ 9223372036854775807)", "bigLen.Int64()": "v"}, "maxLen", "firstByte")},
		{Name: "none_DecodeLength", OnlyRets: true, Rets: []int{0, 1}, Sig: []string{"p", "maxLen", "data"}, File: "prefix/none.go", Recv: "nonePrefixer", Func: "DecodeLength",
			Params: []string{"maxLen", "dlen"}, Map: ids(map[string]string{"len(data)": "dlen"}, "maxLen")},
	}
	rets = append(rets, fx("ascii", "prefix/ascii.go", "asciiFixedPrefixer")...)
	rets = append(rets, fx("ebcdic", "prefix/ebcdic.go", "ebcdicFixedPrefixer")...)
	rets = append(rets, fx("ebcdic1047", "prefix/ebcdic1047.go", "ebcdic1047FixedPrefixer")...)
	rets = append(rets, fx("bcd", "prefix/bcd.go", "bcdFixedPrefixer")...)
	rets = append(rets, fx("binary", "prefix/binary.go", "binaryFixedPrefixer")...)
	rets = append(rets, fx("hex", "prefix/hex.go", "hexFixedPrefixer")...)
	rets = append(rets,
		rd("ascii", "encoding/ascii.go", "asciiEncoder", "data"),
		rd("binary", "encoding/binary.go", "binaryEncoder", "data"),
		rd("bcd", "encoding/bcd.go", "bcdEncoder", "src"),
		rd("lbcd", "encoding/lbcd.go", "lBCDEncoder", "src"),
		rd("bytesToHex", "encoding/hex.go", "hexToASCIIEncoder", "data"),
		rd("hexToBytes", "encoding/hex.go", "asciiToHexEncoder", "data"),
		rd("ebcdic", "encoding/ebcdic.go", "ebcdicEncoder", "src"),
		rd("ebcdic1047", "encoding/ebcdic1047.go", "ebcdic1047Encoder", "data"),
		guardSite{Name: "composite_Unpack", OnlyRets: true, Slices: true, Rets: []int{0}, Sig: []string{"f", "data"}, File: "field/composite.go", Recv: "Composite", Func: "Unpack",
			DefAll: map[string][]string{"f.spec.Pref.DecodeLength": {"dataLen", "offset"}, "f.wrapErrorUnpack": {"read"}},
			Params: []string{"dataLen", "offset", "dlen", "read"},
			Map:    map[string]string{"len(data)": "dlen"}},
		unp("default", "defaultUnpacker"),
		unp("track2", "Track2Unpacker"),
		// the packing side: which length is announced, which length the padder is asked for
		guardSite{Name: "default_Pack", OnlyRets: true, Args: map[string][]int{"spec.Pref.EncodeLength": {0, 1}, "spec.Pad.Pad": {1}},
			Sig: []string{"", "value", "spec"}, File: "field/packer_unpacker.go", Recv: "defaultPacker", Func: "Pack",
			LenVers: map[string]string{"value": "vlen"},
			Params:  []string{"slen", "vlen0", "vlen1", "hasPad:Bool"},
			Map:     map[string]string{"spec.Pad!=nil": "hasPad", "spec.Length": "slen"}},
		guardSite{Name: "track2_Pack", OnlyRets: true, Args: map[string][]int{"spec.Pref.EncodeLength": {0, 1}, "spec.Pad.Pad": {1}},
			Sig: []string{"", "value", "spec"}, File: "field/packer_unpacker.go", Recv: "Track2Packer", Func: "Pack",
			LenVers: map[string]string{"value": "vlen"},
			Params:  []string{"slen", "vlen0", "vlen1", "hasPad:Bool"},
			Map:     map[string]string{"spec.Pad!=nil": "hasPad", "spec.Length": "slen"}},
		guardSite{Name: "composite_Pack", OnlyRets: true, Args: map[string][]int{"f.spec.Pref.EncodeLength": {0, 1}}, Sig: []string{"f"}, File: "field/composite.go", Recv: "Composite", Func: "Pack",
			DefName: map[string]string{"f.pack": "packed"},
			Params:  []string{"slen", "plen"}, Map: map[string]string{"f.spec.Length": "slen", "len(packed)": "plen"}},
		guardSite{Name: "composite_packByTag", Args: map[string][]int{"f.spec.Tag.Pad.Pad": {1}}, Sig: []string{"f"}, File: "field/composite.go", Recv: "Composite", Func: "packByTag",
			Params: []string{"tagLen", "found:Bool", "isSet:Bool", "hasTagEnc:Bool", "hasTagPad:Bool"},
			Map: map[string]string{"ok": "found", "set": "isSet", "f.spec.Tag.Length": "tagLen", "f.spec.Tag!=nil&&f.spec.Tag.Enc!=nil": "hasTagEnc",
				"f.spec.Tag.Pad!=nil": "hasTagPad"}},
		// the running offsets of the element loops: every assignment, and every place the input is cut
		guardSite{Name: "message_unpack", OnlyRets: true, Slices: true, Updates: []string{"off"}, FirstInt: "off", Sig: []string{"m", "src"}, File: "message.go", Recv: "Message", Func: "unpack",
			DefBySel: map[string]string{"Unpack": "read"},
			Params:   []string{"off", "read"}, Map: ids(nil, "off")},
		guardSite{Name: "tlv_unpackSubfieldsByTag", OnlyRets: true, Slices: true, Updates: []string{"offset"}, FirstInt: "offset", Rets: []int{0}, Sig: []string{"f", "data"}, File: "field/composite.go", Recv: "Composite", Func: "unpackSubfieldsByTag",
			DefBySel: map[string]string{"Unpack": "read"},
			DefAll:   map[string][]string{"pref.DecodeLength": {"fieldLength", "read"}, "f.spec.Tag.Enc.Decode": {"", "read"}},
			Params:   []string{"offset", "dlen", "fieldLength", "read", "readFieldLength", "start"},
			Map:      ids(map[string]string{"len(data)": "dlen"}, "offset", "start")},
		guardSite{Name: "bitmapped_unpackSubfieldsByBitmap", OnlyRets: true, Slices: true, Updates: []string{"off"}, FirstInt: "off", Rets: []int{0}, Sig: []string{"f", "data"}, File: "field/composite.go", Recv: "Composite", Func: "unpackSubfieldsByBitmap",
			DefBySel: map[string]string{"Unpack": "read"},
			Params:   []string{"off", "read"}, Map: ids(nil, "off")},
		guardSite{Name: "positional_unpackSubfields", Slices: true, Updates: []string{"offset"}, FirstInt: "offset", Rets: []int{0}, Sig: []string{"f", "data", "isVariableLength"}, File: "field/composite.go", Recv: "Composite", Func: "unpackSubfields",
			DefBySel: map[string]string{"Unpack": "read"},
			Params:   []string{"offset", "read", "dlen", "isVar:Bool", "found:Bool"}, Map: ids(map[string]string{"len(data)": "dlen", "isVariableLength": "isVar", "ok": "found"}, "offset")},
		guardSite{Name: "bitmap_Unpack", OnlyRets: true, Slices: true, Updates: []string{"read"}, FirstInt: "read", Rets: []int{0}, Sig: []string{"f", "data"}, File: "field/bitmap.go", Recv: "Bitmap", Func: "Unpack",
			DefAll: map[string][]string{"f.spec.Enc.Decode": {"", "readDecoded"}},
			Params: []string{"read", "readDecoded", "minLen"}, Map: ids(map[string]string{"f.bitmapLength": "minLen"}, "read")},
	)
	genGuardFile("GuardsReturns.lean", rets)
	genAlloc()
}

// genAlloc: Gen/GuardsAlloc.lean — the buffers the decoding functions allocate, with the checks that precede them
func genAlloc() {
	dec := func(name, file, recv, dataName string) guardSite {
		return guardSite{Name: name + "_DecodeA", Makes: true, Sig: []string{"e", dataName, "length"}, File: file, Recv: recv, Func: "Decode",
			Params: []string{"length", "dlen", "n", "r"},
			Map:    ids(map[string]string{"len(" + dataName + ")": "dlen"}, "length", "n", "r")}
	}
	pre := func(name, file, recv, defBy string) guardSite {
		return guardSite{Name: name + "_DecodeLengthA", Makes: true, Sig: []string{"p", "maxLen", "data"},
			DefBy: map[string]string{defBy: "dataLen"}, File: file, Recv: recv, Func: "DecodeLength",
			Params: []string{"maxLen", "dlen", "digits", "dataLen"},
			Map:    ids(map[string]string{"p.Digits": "digits", "p.digits": "digits", "len(data)": "dlen", "len(prefBytes)": "digits"}, "maxLen", "dataLen")}
	}
	sites := []guardSite{
		dec("ascii", "encoding/ascii.go", "asciiEncoder", "data"),
		dec("binary", "encoding/binary.go", "binaryEncoder", "data"),
		dec("bcd", "encoding/bcd.go", "bcdEncoder", "src"),
		dec("lbcd", "encoding/lbcd.go", "lBCDEncoder", "src"),
		dec("bytesToHex", "encoding/hex.go", "hexToASCIIEncoder", "data"),
		dec("hexToBytes", "encoding/hex.go", "asciiToHexEncoder", "data"),
		dec("ebcdic", "encoding/ebcdic.go", "ebcdicEncoder", "src"),
		dec("ebcdic1047", "encoding/ebcdic1047.go", "ebcdic1047Encoder", "data"),
		pre("ascii", "prefix/ascii.go", "asciiVarPrefixer", "strconv.Atoi"),
		pre("ebcdic", "prefix/ebcdic.go", "ebcdicVarPrefixer", "strconv.Atoi"),
		pre("ebcdic1047", "prefix/ebcdic1047.go", "ebcdic1047Prefixer", "strconv.Atoi"),
		pre("bcd", "prefix/bcd.go", "bcdVarPrefixer", "strconv.Atoi"),
		pre("binary", "prefix/binary.go", "binaryVarPrefixer", "bytesToInt"),
		pre("hex", "prefix/hex.go", "hexVarPrefixer", "strconv.ParseUint"),
		{Name: "ber_DecodeLengthA", Makes: true, Sig: []string{"p", "maxLen", "data"}, File: "prefix/bertlv.go", Recv: "berTLVPrefixer", Func: "DecodeLength",
			Params: []string{"maxLen", "firstByte", "v"},
			Map: ids(map[string]string{"bits.LeadingZeros8(firstByte)>0": "decide (firstByte < 128)", "clearMSB(firstByte)": "(firstByte % 128)", "len(length)": "(firstByte % 128)",
				"bigLen.IsInt64()": "decide (v ≤ 9223372036854775807)", "bigLen.Int64()": "v"}, "maxLen", "firstByte")},
	}
	genGuardFile("GuardsAlloc.lean", sites)
}

func merge(a, b map[string]string) map[string]string {
	for k, v := range b {
		a[k] = v
	}
	return a
}
