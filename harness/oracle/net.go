package oracle

// C16 — network length headers. The property statement evaluated on the implementation:
//
//   - every representable length: SetLength and WriteTo succeed, exactly the fixed width
//     reaches the writer, in the documented format (an independently written reference),
//     and ReadFrom over every fragmentation of `header ++ tail` takes exactly the header
//     from the reader and recovers the length;
//   - every other length (negative, too large): SetLength or WriteTo returns an error and
//     nothing is written;
//   - arbitrary bytes: ReadFrom never panics and never reports a negative length, and when
//     it succeeds it took exactly the header width from the reader;
//   - a stream that ends inside the header: ReadFrom returns an error.

import (
	"bytes"
	"fmt"
	"strconv"
	"strings"

	"verif/harness/gen"
	"verif/harness/impl"
)

func init() {
	Registry["C16"] = &Oracle{Run: runC16, Lines: linesC16}
}

func netRepresentable(h string, n int) bool { return n >= 0 && n <= gen.NetMax(h) }

// netCheckRead evaluates one ReadFrom. want >= 0: the stream starts with a valid header of
// that length (so the read must succeed and recover it); want == -1: arbitrary contents.
func netCheckRead(rep *Reporter, h string, chunks [][]byte, want int) {
	line := fmt.Sprintf("N %s read %s", h, gen.ChunkStr(chunks))
	size := gen.NetSize(h)
	total := 0
	for _, c := range chunks {
		total += len(c)
	}
	safely(rep, line, func() {
		length, ret, handed, _, err, known := impl.NetRead(h, chunks)
		if !known {
			return
		}
		key := ""
		if err == nil {
			key = line
		}
		rep.Case(key)
		if total < size {
			if err == nil {
				rep.Viol("ReadFrom succeeded on a stream that ends inside the header", line,
					fmt.Sprintf("stream holds %d of %d header bytes, Length()=%d", total, size, length))
			}
			return
		}
		if want >= 0 {
			if err != nil {
				rep.Viol("ReadFrom fails on a valid header", line, fmt.Sprintf("length %d: %v", want, err))
				return
			}
			if length != want {
				rep.Viol("ReadFrom does not recover the written length", line, fmt.Sprintf("wrote %d, read %d", want, length))
			}
		}
		if err != nil {
			return
		}
		if length < 0 {
			rep.Viol("ReadFrom reports a negative length", line, fmt.Sprintf("Length()=%d", length))
		}
		if handed != size {
			rep.Viol("ReadFrom took a different number of bytes from the reader than the header width", line,
				fmt.Sprintf("took %d, header width %d", handed, size))
		}
		if ret != size {
			rep.Viol("ReadFrom returned a byte count different from the header width", line,
				fmt.Sprintf("returned %d, header width %d", ret, size))
		}
	})
}

// netCheckReadReused: a header object that has seen another stream before (one that ended inside
// the header, or a complete one) reads a valid header exactly like a new object does.
func netCheckReadReused(rep *Reporter, h string, before []byte, n int) {
	wire, _, _, werr, known := impl.NetWrite(h, n)
	if !known || werr != nil {
		return
	}
	size := gen.NetSize(h)
	line := fmt.Sprintf("N %s readafter %s then %s", h, impl.Hex(before), impl.Hex(wire))
	safely(rep, line, func() {
		for _, chunks := range [][][]byte{{append(append([]byte{}, wire...), 0xAA, 0xBB)}, gen.OneByOne(wire)} {
			length, ret, handed, err, known := impl.NetReadReused(h, [][]byte{before}, chunks)
			if !known {
				return
			}
			rep.Case(line)
			if err != nil {
				rep.Viol("ReadFrom on a header object used before fails on a valid header", line, fmt.Sprintf("length %d: %v", n, err))
				return
			}
			if length != n {
				rep.Viol("ReadFrom on a header object used before does not recover the written length", line, fmt.Sprintf("wrote %d, read %d", n, length))
				return
			}
			if handed != size || ret != size {
				rep.Viol("ReadFrom on a header object used before took / reported a different number of bytes than the header width", line,
					fmt.Sprintf("took %d, returned %d, header width %d", handed, ret, size))
				return
			}
		}
	})
}

// netCheckWrite evaluates SetLength + WriteTo for one length and, if the length is
// representable, the read-back under fragmentation (all chunkings when `full`).
func netCheckWrite(rep *Reporter, h string, n int, full bool) {
	line := fmt.Sprintf("N %s write %d", h, n)
	size := gen.NetSize(h)
	var header []byte
	safely(rep, line, func() {
		written, ret, length, err, known := impl.NetWrite(h, n)
		if !known {
			return
		}
		if !netRepresentable(h, n) {
			rep.Case("")
			if err == nil {
				rep.Viol("a length the header can not represent was accepted by SetLength and WriteTo", line,
					fmt.Sprintf("wrote %x (%d bytes), Length()=%d", written, len(written), length))
			} else if len(written) != 0 {
				rep.Viol("WriteTo returned an error but wrote bytes", line, fmt.Sprintf("wrote %x", written))
			}
			return
		}
		rep.Case(line)
		if err != nil {
			rep.Viol("a representable length is refused", line, err.Error())
			return
		}
		if len(written) != size {
			rep.Viol("WriteTo did not emit exactly the header width", line,
				fmt.Sprintf("wrote %x (%d bytes), header width %d", written, len(written), size))
		}
		if ret != len(written) {
			rep.Viol("WriteTo returned a count different from the bytes written", line,
				fmt.Sprintf("returned %d, wrote %d", ret, len(written)))
		}
		if want := gen.NetRef(h, n); !bytes.Equal(written, want) {
			rep.Viol("WriteTo output is not in the documented format", line, fmt.Sprintf("wrote %x, documented %x", written, want))
		}
		if length != n {
			rep.Viol("Length() differs from the length set", line, fmt.Sprintf("Length()=%d", length))
		}
		header = append([]byte{}, written...)
	})
	if header == nil {
		return
	}
	// read back what the implementation wrote
	tails := [][]byte{nil, {0xFF}, {0x31, 0x32}}
	for ti, tail := range tails {
		all := append(append([]byte{}, header...), tail...)
		if full {
			gen.Compositions(all, func(chunks [][]byte) { netCheckRead(rep, h, chunks, n) })
			netCheckRead(rep, h, gen.WithEmpties(gen.OneByOne(all)), n)
		} else {
			netCheckRead(rep, h, [][]byte{all}, n)
			netCheckRead(rep, h, gen.OneByOne(all), n)
			if ti == 1 {
				netCheckRead(rep, h, gen.WithEmpties([][]byte{all[:1], all[1:]}), n)
			}
		}
	}
	if full {
		// the stream ends at every offset inside the header
		for k := 0; k < len(header) && k < size; k++ {
			gen.Compositions(header[:k], func(chunks [][]byte) {
				netCheckRead(rep, h, chunks, -1)
				netCheckRead(rep, h, gen.WithEmpties(chunks), -1)
			})
		}
	}
}

// netCheckWriteSeq: a sequence of header writes (some of them to a writer that fails half-way):
// every write that succeeds emits exactly the documented header of its own length, whatever
// happened to the writes before it.
func netCheckWriteSeq(rep *Reporter, h string, ops string) {
	line := fmt.Sprintf("N %s writeseq %s", h, ops)
	safely(rep, line, func() {
		res := impl.Run(line)
		rep.Case(line)
		parts := strings.Split(res, " | ")
		opl := strings.Split(ops, ",")
		if len(parts) != len(opl) {
			return
		}
		for i, op := range opl {
			nstr := op[1:]
			if op[0] == 'f' {
				if kn := strings.SplitN(op[1:], ":", 2); len(kn) == 2 {
					nstr = kn[1]
				}
			}
			n, err := strconv.Atoi(nstr)
			if err != nil {
				return
			}
			if parts[i] == "panic" {
				rep.Viol("WriteTo panicked", line, fmt.Sprintf("write number %d", i+1))
				return
			}
			if !strings.HasPrefix(parts[i], "ok ") {
				continue
			}
			if !netRepresentable(h, n) {
				rep.Viol("a length the header can not represent was accepted by SetLength and WriteTo", line, fmt.Sprintf("write number %d: %s", i+1, parts[i]))
				return
			}
			if want := "ok " + impl.Hex(gen.NetRef(h, n)); parts[i] != want {
				rep.Viol("WriteTo output is not the documented header of the length set (sequence of writes, some on a failing writer)", line,
					fmt.Sprintf("write number %d (length %d): %s, documented %s", i+1, n, parts[i], want))
				return
			}
		}
	})
}

func runC16(t gen.Tier, r *gen.Rng, rep *Reporter) {
	for _, h := range impl.NetHeaders {
		for i := 0; i < t.N(150, 3000); i++ {
			netCheckWriteSeq(rep, h, gen.NetWriteSeq(r, h))
		}
	}
	isBoundary := map[int]bool{}
	for _, n := range gen.NetBoundaries {
		isBoundary[n] = true
	}
	for _, h := range gen.NetHeaders {
		// all lengths -2..70000; every chunking for the boundaries and a stride
		stride := t.N(101, 3)
		for n := -2; n <= 70000; n++ {
			netCheckWrite(rep, h, n, isBoundary[n] || n%stride == 0)
		}
		for _, s := range gen.NetFarLengths {
			if n, err := strconv.Atoi(s); err == nil {
				netCheckWrite(rep, h, n, true)
			}
		}
	}
	// a header object is reused: after a stream that ended inside the header at every offset, and after a complete header
	for _, h := range gen.NetHeaders {
		for i := 0; i < t.N(400, 8000); i++ {
			n := r.Intn(gen.NetMax(h) + 1)
			if i < len(gen.NetBoundaries) && netRepresentable(h, gen.NetBoundaries[i]) {
				n = gen.NetBoundaries[i]
			}
			prev, _, _, perr, _ := impl.NetWrite(h, r.Intn(gen.NetMax(h)+1))
			if perr != nil {
				continue
			}
			for cut := 0; cut <= len(prev); cut++ {
				netCheckReadReused(rep, h, prev[:cut], n)
			}
			netCheckReadReused(rep, h, r.Bytes(r.Intn(gen.NetSize(h))), n)
		}
	}
	// arbitrary contents
	chunkings := func(b []byte, f func([][]byte)) {
		f([][]byte{b})
		f(gen.OneByOne(b))
		f(append(gen.WithEmpties(gen.OneByOne(b)), []byte{0x30, 0x31}))
		f([][]byte{append(append([]byte{}, b...), 0xFF, 0xEE)})
	}
	for _, h := range []string{"binary2", "bcd2"} {
		for v := 0; v < 65536; v++ {
			b := []byte{byte(v >> 8), byte(v)}
			netCheckRead(rep, h, [][]byte{b}, -1)
			if t.Thorough || v%17 == 0 {
				chunkings(b, func(c [][]byte) { netCheckRead(rep, h, c, -1) })
			}
		}
	}
	alpha := gen.NetASCIIAlphabet(t)
	x := make([]byte, 4)
	for _, a := range alpha {
		for _, b := range alpha {
			for _, c := range alpha {
				for _, d := range alpha {
					x[0], x[1], x[2], x[3] = a, b, c, d
					y := append([]byte{}, x...)
					netCheckRead(rep, "ascii4", [][]byte{y}, -1)
					if t.Thorough || r.Intn(8) == 0 {
						chunkings(y, func(c [][]byte) { netCheckRead(rep, "ascii4", c, -1) })
					}
				}
			}
		}
	}
	gen.NetVMLContents(t, func(y []byte) {
		chunkings(y, func(c [][]byte) { netCheckRead(rep, "vmlh", c, -1) })
	})
	for i := 0; i < t.N(20000, 400000); i++ {
		h := gen.Pick(r, gen.NetHeaders)
		b := r.Bytes(r.Intn(gen.NetSize(h) + 3))
		if r.Intn(3) == 0 {
			b = r.From([]byte("0123456789+- \x00\x22\x20\xf2"), len(b))
		}
		var chunks [][]byte
		for len(b) > 0 {
			k := 1 + r.Intn(len(b))
			chunks = append(chunks, b[:k])
			b = b[k:]
			if r.Intn(5) == 0 {
				chunks = append(chunks, nil)
			}
		}
		netCheckRead(rep, h, chunks, -1)
	}
	rep.Sample("N ascii4 write 9999 => exactly 4 bytes '9999' = documented format; read back under all 2^(len-1) chunkings of header++tail recovers 9999 and takes 4 bytes from the reader")
	rep.Sample("N binary2 write -1 / N bcd2 write 10000 => error from SetLength or WriteTo and nothing written")
	rep.Sample("N ascii4 read 2d|30|30|31 => arbitrary contents: no panic, no negative length, 4 bytes taken when ok")
}

// linesC16 re-examines the property around given protocol lines (correspondence diffs).
func linesC16(lines []string, rep *Reporter) {
	for _, l := range lines {
		t := strings.Split(l, " ")
		if len(t) != 4 || t[0] != "N" {
			continue
		}
		switch t[2] {
		case "writeseq":
			netCheckWriteSeq(rep, t[1], t[3])
		case "write":
			n, err := strconv.Atoi(t[3])
			if err != nil {
				continue
			}
			netCheckWrite(rep, t[1], n, true)
			// and its neighbours: an off-by-one bound shows at the edge next to it
			for _, d := range []int{-1, 1} {
				if m := n + d; (m < n) == (d < 0) { // no int overflow
					netCheckWrite(rep, t[1], m, true)
				}
			}
		case "read":
			chunks, ok := impl.ParseChunks(t[3])
			if !ok {
				continue
			}
			// is this a valid header followed by a tail? then the read must recover it
			var all []byte
			for _, c := range chunks {
				all = append(all, c...)
			}
			want := -1
			size := gen.NetSize(t[1])
			if len(all) >= size {
				for n := 0; n <= gen.NetMax(t[1]); n++ {
					if bytes.Equal(gen.NetRef(t[1], n), all[:size]) {
						want = n
						break
					}
				}
			}
			netCheckRead(rep, t[1], chunks, want)
		}
	}
}
