// Package oracle evaluates the *statement* of a property directly on the real
// implementation. It is only ever used to exhibit a concrete failing input (the search
// of DESIGN.md §3.4); it never establishes a property.
package oracle

import (
	"bufio"
	"fmt"
	"io"
	"strings"

	"verif/harness/gen"
)

type Reporter struct {
	w        *bufio.Writer
	Evals    int
	Nontriv  map[string]struct{}
	nviol    int
	nsamples int
	perClass map[string]int
}

func NewReporter(w io.Writer) *Reporter {
	return &Reporter{w: bufio.NewWriter(w), Nontriv: map[string]struct{}{}}
}

func clean(s string) string {
	return strings.NewReplacer("\t", " ", "\n", " ").Replace(s)
}

// Viol reports a violation: what failed, the protocol line that replays it, details.
func (r *Reporter) Viol(what, replay, detail string) {
	r.nviol++
	// at most 3 reports per (what, channel+subject) class so that a known finding can not
	// crowd out a different violation
	t := strings.SplitN(replay, " ", 3)
	cls := what
	if len(t) >= 2 {
		cls += "|" + t[0] + " " + t[1]
	}
	if r.perClass == nil {
		r.perClass = map[string]int{}
	}
	r.perClass[cls]++
	if r.perClass[cls] > 3 || len(r.perClass) > 300 {
		return
	}
	fmt.Fprintf(r.w, "VIOL\t%s\t%s\t%s\n", clean(what), clean(replay), clean(detail))
}

// Case counts one evaluated case; key identifies a distinct non-trivial case ("" = trivial).
func (r *Reporter) Case(key string) {
	r.Evals++
	if key != "" {
		r.Nontriv[key] = struct{}{}
	}
}

func (r *Reporter) Sample(s string) {
	if r.nsamples < 8 {
		r.nsamples++
		fmt.Fprintf(r.w, "SAMPLE\t%s\n", clean(s))
	}
}

func (r *Reporter) Stat(k string, v int) { fmt.Fprintf(r.w, "STAT\t%s\t%d\n", k, v) }

func (r *Reporter) Close() {
	r.Stat("evaluations", r.Evals)
	r.Stat("distinct_nontrivial", len(r.Nontriv))
	r.Stat("violations", r.nviol)
	r.w.Flush()
}

type Oracle struct {
	// Run explores the property's quantifier on the implementation.
	Run func(t gen.Tier, rng *gen.Rng, rep *Reporter)
	// Lines re-examines the property around given protocol lines (e.g. correspondence diffs).
	Lines func(lines []string, rep *Reporter)
}

var Registry = map[string]*Oracle{}

func safely(rep *Reporter, replay string, f func()) {
	defer func() {
		if x := recover(); x != nil {
			rep.Viol("panic in the implementation", replay, fmt.Sprint(x))
		}
	}()
	f()
}
