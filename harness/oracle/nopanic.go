package oracle

// C04 — decoding untrusted bytes never panics, hangs or over-allocates.
//
// The statement is evaluated on the real code: every decoding entry point (field Unpack /
// SetBytes, message Unpack, JSON decoding into fields and messages, network header reads)
// is called under recover, a wall-clock watchdog and an allocation counter
// (cumulative heap bytes allocated, runtime/metrics `/gc/heap/allocs:bytes` = MemStats.TotalAlloc, delta around the call; cases run one at a time), over
//   - coherent generated specs (gen.FieldGen) and deliberately incoherent ones (any encoder
//     with any prefixer, None anywhere, Tag.Length 0, negative / huge spec lengths,
//     non-Fixed bitmap prefixers …) and the specs that ship with the library,
//   - random bytes, every truncation and single-byte substitutions / insertions /
//     deletions of valid wires, adversarial length encodings (BER long forms with 1..127
//     length bytes, 0x80, values >= 2^31 and >= 2^63, huge / signed decimal prefixes),
//   - arbitrary JSON documents.
// Violation: a panic, a call that runs > 2 s, or > 64 MiB allocated for an input < 64 KiB.
// Replay = the protocol line (`F … unpack …` / `M … unpack …`; `W <ms> …` for hangs and for
// the entry points only channel W has).

import (
	"bufio"
	"encoding/json"
	"fmt"
	"os"
	"os/exec"
	"strconv"
	"strings"
	"sync"
	"time"

	"github.com/moov-io/iso8583"
	"github.com/moov-io/iso8583/field"

	"verif/harness/gen"
	"verif/harness/impl"
)

func init() {
	Registry["C04"] = &Oracle{Run: runC04, Lines: linesC04}
}

const (
	npTimeLimit  = 2 * time.Second
	npAllocLimit = 64 << 20
	npInputLimit = 64 << 10
	npWatchMs    = 2000
)

type npCtx struct {
	idx  int      // number of the current case (1-based), the same in every run of one seed
	skip int      // cases to generate but not execute (they ran in an earlier child process)
	mark *os.File // before each case its replay line is written here, so that a fatal
	//                   error (out of memory, stack overflow: not recoverable) is attributed
	rep      *Reporter
	tainted  bool // a hung goroutine is still running: allocation deltas are no longer attributable
	hangs    int
	okN      int
	errN     int
	maxAlloc uint64
	maxNs    int64
	byClass  map[string]int
}

func newNpCtx(rep *Reporter) *npCtx { return &npCtx{rep: rep, byClass: map[string]int{}} }

// guard runs one decoding call. replay is the plain protocol line, wreplay the channel-W
// form (used when the plain line would hang the replayer or does not exist).
// f returns "ok…" / "err…". Returns the result and whether the call completed.
func (c *npCtx) guard(class, replay, wreplay string, inputLen int, f func() string) (string, bool) {
	c.idx++
	if c.idx <= c.skip {
		return "", false
	}
	if c.hangs >= 6 {
		return "", false // too many spinning goroutines: stop adding more
	}
	if c.mark != nil {
		fmt.Fprintf(c.mark, "%d\t%s\n", c.idx, wreplay)
	}
	var a0 uint64
	if !c.tainted {
		a0 = allocatedBytes()
	}
	t0 := time.Now()
	res, outcome, msg := impl.Watch(npTimeLimit, f)
	ns := time.Since(t0).Nanoseconds()
	if replay == "" {
		replay = wreplay
	}
	switch outcome {
	case "panic":
		c.rep.Case("")
		c.byClass[class+" panic"]++
		c.rep.Viol("panic in the implementation while decoding", replay, msg)
		return "panic", true
	case "hang":
		c.rep.Case("")
		c.byClass[class+" hang"]++
		c.hangs++
		c.tainted = true
		c.rep.Viol(fmt.Sprintf("decoding did not return within %v (input %d bytes)", npTimeLimit, inputLen), wreplay, "the call is still running")
		return "hang", false
	}
	if !c.tainted {
		d := allocatedBytes() - a0
		if d > c.maxAlloc {
			c.maxAlloc = d
		}
		if d > npAllocLimit && inputLen < npInputLimit {
			// replay through `W <ms> A <MiB> …`, which reports the allocation of the call
			c.rep.Viol(fmt.Sprintf("decoding %d bytes allocated %d bytes (limit %d)", inputLen, d, npAllocLimit),
				fmt.Sprintf("W %d A %d %s", npWatchMs, npAllocLimit>>20, strings.TrimPrefix(wreplay, fmt.Sprintf("W %d ", npWatchMs))), "")
		}
	}
	if ns > c.maxNs {
		c.maxNs = ns
	}
	key := ""
	if strings.HasPrefix(res, "ok") {
		c.okN++
		key = replay
		c.byClass[class+" ok"]++
	} else {
		c.errN++
		c.byClass[class+" err"]++
	}
	c.rep.Case(key)
	if key != "" {
		c.rep.Sample(replay + " => " + npTrunc(res, 120))
	}
	return res, true
}

func allocatedBytes() uint64 { return impl.AllocatedBytes() }

func npTrunc(s string, n int) string {
	if len(s) > n {
		return s[:n] + "…"
	}
	return s
}

// buildField constructs a field from its tree under recover (NewComposite panics on specs
// that Spec.Validate rejects: that is construction, not decoding).
func buildField(t *impl.Tree) (f field.Field, ok bool) {
	defer func() {
		if recover() != nil {
			f, ok = nil, false
		}
	}()
	return impl.FieldOfTree(t)
}

func buildMsgSpec(t *impl.Tree) (s *iso8583.MessageSpec, ok bool) {
	defer func() {
		if recover() != nil {
			s, ok = nil, false
		}
	}()
	s, ok = impl.MsgSpecOfTree(t)
	if ok {
		iso8583.NewMessage(s) // validates the spec; panics are construction errors
	}
	return s, ok
}

func (c *npCtx) fieldUnpack(class string, spec *impl.Tree, data []byte) {
	ss := spec.String()
	f, ok := buildField(spec)
	if !ok {
		return
	}
	line := fmt.Sprintf("F %s unpack %s", ss, gen.H(data))
	c.guard(class+" unpack", line, fmt.Sprintf("W %d %s", npWatchMs, line), len(data), func() string {
		read, err := f.Unpack(data)
		if err != nil {
			return "err"
		}
		if read < 0 || read > len(data) {
			panic(fmt.Sprintf("Unpack reports %d bytes read of %d given", read, len(data)))
		}
		return "ok " + strconv.Itoa(read)
	})
}

func (c *npCtx) fieldSetBytes(class string, spec *impl.Tree, data []byte) {
	f, ok := buildField(spec)
	if !ok {
		return
	}
	w := fmt.Sprintf("W %d F %s setbytes %s", npWatchMs, spec.String(), gen.H(data))
	c.guard(class+" setbytes", "", w, len(data), func() string {
		if err := f.SetBytes(data); err != nil {
			return "err"
		}
		return "ok"
	})
}

func (c *npCtx) fieldJSON(class string, spec *impl.Tree, doc []byte) {
	f, ok := buildField(spec)
	if !ok {
		return
	}
	w := fmt.Sprintf("W %d F %s json %s", npWatchMs, spec.String(), gen.H(doc))
	c.guard(class+" json", "", w, len(doc), func() string {
		if err := json.Unmarshal(doc, f); err != nil {
			return "err"
		}
		return "ok"
	})
}

func (c *npCtx) msgUnpack(class string, spec *impl.Tree, data []byte) {
	ms, ok := buildMsgSpec(spec)
	if !ok {
		return
	}
	line := fmt.Sprintf("M %s unpack %s", spec.String(), gen.H(data))
	c.guard(class+" unpack", line, fmt.Sprintf("W %d %s", npWatchMs, line), len(data), func() string {
		m := iso8583.NewMessage(ms)
		if err := m.Unpack(data); err != nil {
			return "err"
		}
		return "ok"
	})
}

func (c *npCtx) msgJSON(class string, spec *impl.Tree, doc []byte) {
	ms, ok := buildMsgSpec(spec)
	if !ok {
		return
	}
	w := fmt.Sprintf("W %d M %s json %s", npWatchMs, spec.String(), gen.H(doc))
	c.guard(class+" json", "", w, len(doc), func() string {
		m := iso8583.NewMessage(ms)
		if err := json.Unmarshal(doc, m); err != nil {
			return "err"
		}
		return "ok"
	})
}

// msgSeq: several decoding calls on ONE message object (a message that is re-used: a failed
// Unpack, then a JSON decode; a Pack, then a document whose member "1" is shorter than the
// bitmap; …) - every call must return normally
func (c *npCtx) msgSeq(class string, spec *impl.Tree, steps []string) {
	if _, ok := buildMsgSpec(spec); !ok {
		return
	}
	n := 0
	for _, s := range steps {
		n += len(s)
	}
	w := fmt.Sprintf("W %d M %s seq %s", npWatchMs, spec.String(), strings.Join(steps, ";"))
	c.guard(class+" sequence on one message", "", w, n/2+1, func() string {
		return impl.RunInner(strings.Split(w, " ")[2:])
	})
}

func (c *npCtx) shippedUnpack(name string, data []byte) {
	spec := impl.Shipped(name)
	w := fmt.Sprintf("W %d X %s unpack %s", npWatchMs, name, gen.H(data))
	c.guard("shipped "+name+" unpack", "", w, len(data), func() string {
		m := iso8583.NewMessage(spec)
		if err := m.Unpack(data); err != nil {
			return "err"
		}
		return "ok"
	})
}

func (c *npCtx) shippedJSON(name string, doc []byte) {
	spec := impl.Shipped(name)
	w := fmt.Sprintf("W %d X %s json %s", npWatchMs, name, gen.H(doc))
	c.guard("shipped "+name+" json", "", w, len(doc), func() string {
		m := iso8583.NewMessage(spec)
		if err := json.Unmarshal(doc, m); err != nil {
			return "err"
		}
		return "ok"
	})
}

/* ---------- adversarial byte strings ---------- */

// advTokens: length encodings an attacker would try.
func advTokens(r *gen.Rng) [][]byte {
	out := [][]byte{
		{0x80}, {0x81}, {0x81, 0x00}, {0x81, 0xFF}, {0x82, 0xFF, 0xFF}, {0x83, 0x01, 0x00, 0x00},
		{0x84, 0x7F, 0xFF, 0xFF, 0xFF}, {0x84, 0x80, 0x00, 0x00, 0x00}, {0x84, 0xFF, 0xFF, 0xFF, 0xFF},
		{0x88, 0x7F, 0xFF, 0xFF, 0xFF, 0xFF, 0xFF, 0xFF, 0xFF}, // 2^63-1
		{0x88, 0x80, 0x00, 0x00, 0x00, 0x00, 0x00, 0x00, 0x00}, // 2^63
		{0x88, 0xFF, 0xFF, 0xFF, 0xFF, 0xFF, 0xFF, 0xFF, 0xFF},
		{0x89, 0x01, 0x00, 0x00, 0x00, 0x00, 0x00, 0x00, 0x00, 0x00}, // 2^64
		{0x00}, {0x01}, {0x7F}, {0xFF},
		[]byte("9"), []byte("99"), []byte("999"), []byte("9999"), []byte("99999"), []byte("999999"),
		[]byte("-1"), []byte("-01"), []byte("+5"), []byte("+00005"), []byte(" 1"), []byte("00"), []byte("000000"),
		{0xF9, 0xF9, 0xF9}, {0x60, 0xF1}, // EBCDIC digits, EBCDIC "-1"
		{0x99, 0x99, 0x99}, {0x09, 0x99}, {0x0F}, {0xFF, 0xFF}, // BCD
		{0xFF, 0xFF, 0xFF, 0xFF}, {0x7F, 0xFF, 0xFF, 0xFF}, {0x80, 0x00, 0x00, 0x00},
		{0xFF, 0xFF, 0xFF, 0xFF, 0xFF, 0xFF}, {0x00, 0x00, 0x00, 0x00, 0x00, 0x05},
		[]byte("FFFFFFFFFFFF"), []byte("7FFFFFFF"), []byte("ffff"), []byte("0G"),
		{0x9F, 0x02}, {0x5F, 0x2A}, {0x1F}, {0x1F, 0x81}, {0x1F, 0x81, 0x80, 0x01}, {0xDF, 0x81, 0x01}, {0x9A},
		{0xC0, 0x00, 0x00, 0x00, 0x00, 0x00, 0x00, 0x00}, {0x80, 0x00, 0x00, 0x00, 0x00, 0x00, 0x00, 0x00},
	}
	// BER long form with k length bytes, k = 1..127
	k := 1 + r.Intn(127)
	long := append([]byte{byte(0x80 | k)}, r.Bytes(k)...)
	out = append(out, long)
	zeros := append([]byte{byte(0x80 | k)}, make([]byte, k)...)
	zeros[len(zeros)-1] = byte(r.Intn(6))
	out = append(out, zeros)
	return out
}

// advBytes builds an input from adversarial tokens and random filler.
func advBytes(r *gen.Rng) []byte {
	toks := advTokens(r)
	var out []byte
	for n := 1 + r.Intn(5); n > 0; n-- {
		switch r.Intn(4) {
		case 0:
			out = append(out, r.Bytes(r.Intn(6))...)
		case 1:
			out = append(out, r.From([]byte("0123456789ABCDEFabcdef =^D?"), r.Intn(10))...)
		default:
			out = append(out, gen.Pick(r, toks)...)
		}
	}
	return out
}

// substitutions at the first bytes (MTI / bitmap / first prefix / first tag positions)
func headSubst(r *gen.Rng, wire []byte, n int) [][]byte {
	var out [][]byte
	lim := len(wire)
	if lim > 24 {
		lim = 24
	}
	for k := 0; k < n && lim > 0; k++ {
		m := append([]byte{}, wire...)
		pos := r.Intn(lim)
		m[pos] = gen.Pick(r, []byte{0x00, 0x80, 0x81, 0x82, 0x84, 0x88, 0xFF, 0x7F, 0x1F, 0x9F, '9', '-', '+', ' ', 'F', m[pos] ^ 0x80, m[pos] | 0x80, m[pos] + 1})
		out = append(out, m)
	}
	return out
}

func spliceAdv(r *gen.Rng, wire []byte) []byte {
	tok := gen.Pick(r, advTokens(r))
	pos := 0
	if len(wire) > 0 {
		pos = r.Intn(len(wire) + 1)
	}
	out := append([]byte{}, wire[:pos]...)
	out = append(out, tok...)
	if r.Bool() && pos < len(wire) { // overwrite instead of insert
		skip := len(tok)
		if pos+skip > len(wire) {
			skip = len(wire) - pos
		}
		return append(out, wire[pos+skip:]...)
	}
	return append(out, wire[pos:]...)
}

/* ---------- incoherent specs ---------- */

var allEncs = []string{"ascii", "ebcdic", "ebcdic1047", "binary", "bcd", "lbcd", "bytesToHex", "hexToBytes", "berTag"}

func anyPref(r *gen.Rng) string {
	switch r.Intn(8) {
	case 0:
		return "ber"
	case 1:
		return "none"
	case 2, 3:
		return gen.Pick(r, gen.PrefFams) + ".F"
	}
	return fmt.Sprintf("%s.%d", gen.Pick(r, gen.PrefFams), 1+r.Intn(6))
}

func anyPad(r *gen.Rng) string {
	switch r.Intn(4) {
	case 0:
		return "nil"
	case 1:
		return "none"
	}
	return fmt.Sprintf("%s%02x", gen.Pick(r, []string{"L", "R"}), gen.Pick(r, []byte{'0', ' ', 'F', 0x00, 0x7F, '9', byte(r.Intn(128))}))
}

func anyLen(r *gen.Rng) int {
	switch r.Intn(10) {
	case 0:
		return gen.Pick(r, []int{-1, -5, 1 << 31, 1<<31 - 1, 1 << 40, 1<<63 - 1, 100000})
	case 1:
		return 0
	}
	return gen.Pick(r, []int{1, 2, 3, 4, 5, 6, 8, 9, 10, 11, 16, 19, 37, 99, 255, 256, 999, 9999})
}

func incoherentPrim(r *gen.Rng) *impl.Tree {
	packer := "d"
	if r.Intn(8) == 0 {
		packer = "t2"
	}
	return impl.N("p", impl.A(gen.Pick(r, []string{"s", "n", "b", "h"})), impl.A(strconv.Itoa(anyLen(r))),
		impl.A(gen.Pick(r, allEncs)), impl.A(anyPref(r)), impl.A(anyPad(r)), impl.A(packer))
}

var tagKeyAlphabet = []byte("0123456789ABCDEFabcxyzGZ")

// incoherentComp: any prefix, any tag encoder / length / pad, unknown-tag skipping with any
// prefixer, bitmaps of any block length with any encoder and (composite bitmaps never
// auto-expand) any prefixer; with Tag.Length 0 a subfield keyed "" now and then (the input
// class of the repaired finding KF5: an element that consumes nothing must be an error).
func incoherentComp(r *gen.Rng, depth int) *impl.Tree {
	n := r.Intn(5)
	sub := func() *impl.Tree {
		if depth > 1 && r.Intn(3) == 0 {
			return incoherentComp(r, depth-1)
		}
		return incoherentPrim(r)
	}
	kids := []*impl.Tree{impl.A(strconv.Itoa(anyLen(r))), impl.A(anyPref(r))}
	switch r.Intn(4) {
	case 0: // positional
		kids = append(kids, impl.N("t", impl.A("0"), impl.A("-"), impl.A("nil"), impl.A(gen.Pick(r, []string{"str", "int", "hex"})), impl.A("0"), impl.A("-")))
		for i := 0; i < n; i++ {
			kids = append(kids, impl.N("sub", impl.A(strconv.Itoa(i+1)), sub()))
		}
	case 1, 2: // tagged
		tenc := gen.Pick(r, allEncs)
		tlen := r.Intn(5)
		if r.Intn(12) == 0 {
			tlen = gen.Pick(r, []int{-1, 1 << 31, 100})
		}
		skip, pu := "0", "-"
		if r.Bool() {
			skip = "1"
			if r.Bool() {
				pu = anyPref(r)
			}
		}
		kids = append(kids, impl.N("t", impl.A(strconv.Itoa(tlen)), impl.A(tenc), impl.A(anyPad(r)),
			impl.A(gen.Pick(r, []string{"str", "int", "hex"})), impl.A(skip), impl.A(pu)))
		seen := map[string]bool{}
		for i := 0; i < n; i++ {
			var key string
			switch r.Intn(4) {
			case 0:
				key = strings.ToUpper(fmt.Sprintf("%x", r.Bytes(1+r.Intn(3))))
			case 1:
				key = gen.Pick(r, []string{"9F02", "5F2A", "82", "9A", "1F8101", "DF8101"})
			default:
				key = string(r.From(tagKeyAlphabet, 1+r.Intn(4)))
			}
			if tlen == 0 && r.Intn(3) == 0 {
				key = ""
			}
			if seen[key] {
				continue
			}
			seen[key] = true
			kids = append(kids, impl.N("sub", impl.A(key), sub()))
		}
	default: // bitmapped
		bl := gen.Pick(r, []int{0, 1, 1, 2, 3, 4, 8, 16, 17, 32})
		bpref := gen.Pick(r, gen.PrefFams) + ".F"
		if r.Intn(4) == 0 {
			bpref = anyPref(r)
		}
		kids = append(kids, impl.N("b", impl.A(strconv.Itoa(bl)), impl.A(gen.Pick(r, allEncs)), impl.A(bpref)))
		seen := map[int]bool{}
		for i := 0; i < n; i++ {
			id := 1 + r.Intn(20)
			if seen[id] {
				continue
			}
			seen[id] = true
			kids = append(kids, impl.N("sub", impl.A(strconv.Itoa(id)), sub()))
		}
	}
	return impl.N("c", kids...)
}

func incoherentField(r *gen.Rng, depth int) *impl.Tree {
	if depth > 0 && r.Intn(2) == 0 {
		return incoherentComp(r, depth)
	}
	return incoherentPrim(r)
}

// incoherentMsg: any MTI spec, any bitmap block length / encoder / prefixer (non-Fixed ones
// can announce a zero block length: the input class of the repaired finding KF6), elements
// at continuation positions, any ids.
func incoherentMsg(r *gen.Rng, depth int) *impl.Tree {
	mti := incoherentPrim(r)
	if r.Bool() {
		mti = impl.N("p", impl.A("s"), impl.A("4"), impl.A(gen.Pick(r, []string{"ascii", "bcd", "ebcdic"})), impl.A(gen.Pick(r, []string{"ascii.F", "bcd.F"})), impl.A("nil"), impl.A("d"))
	}
	bl := gen.Pick(r, []int{0, 8, 8, 1, 2, 3, 16, 17, 5})
	bpref := gen.Pick(r, gen.PrefFams) + ".F"
	if r.Intn(4) == 0 {
		bpref = anyPref(r)
	}
	benc := gen.Pick(r, allEncs)
	if r.Bool() {
		benc = gen.Pick(r, []string{"binary", "bytesToHex"})
	}
	auto := "1"
	if r.Intn(3) == 0 {
		auto = "0"
	}
	kids := []*impl.Tree{mti, impl.N("bm", impl.A(strconv.Itoa(bl)), impl.A(benc), impl.A(bpref), impl.A(auto))}
	seen := map[int]bool{}
	for n := r.Intn(8); n > 0; n-- {
		id := 2 + r.Intn(30)
		if r.Intn(3) == 0 {
			id = gen.Pick(r, []int{2, 9, 17, 25, 33, 64, 65, 66, 128, 129, 130, 192, 193, 200})
		}
		if seen[id] {
			continue
		}
		seen[id] = true
		kids = append(kids, impl.N("f", impl.A(strconv.Itoa(id)), incoherentField(r, depth)))
	}
	return impl.N("m", kids...)
}

/* ---------- JSON documents ---------- */

func jsonDocs(r *gen.Rng, keys []string) [][]byte {
	k := func() string {
		if len(keys) > 0 && r.Intn(4) != 0 {
			return gen.Pick(r, keys)
		}
		return gen.Pick(r, []string{"0", "1", "2", "3", "55", "999", "-1", "x", "", "00", "1e3", "9F02", " 2"})
	}
	vals := []string{`"0100"`, `"12"`, `12`, `-1`, `1e999`, `123456789012345678901234567890`, `1.5`, `null`, `true`, `[]`, `[1,2]`, `{}`,
		`{"1":"x"}`, `""`, `"zz"`, `"0G"`, `"abc"`, `"ABCDEF"`, `"F"`, `"\u0000"`, `"\ud800"`, `"é"`, `" 12 "`, `"9223372036854775808"`, `"-9223372036854775809"`,
		`"` + strings.Repeat("9", 300) + `"`, `"` + strings.Repeat("FF", 200) + `"`, `{"9F02":"000000000100"}`, `{"1":{"1":{"1":"x"}}}`}
	docs := [][]byte{
		[]byte(``), []byte(`null`), []byte(`{}`), []byte(`[]`), []byte(`"x"`), []byte(`1`), []byte(`{`), []byte(`{"0":`), []byte(`{"0":"0100"`),
		[]byte(`{"0":"0100","1":"7000000000000000"}`), []byte(`{"0":null,"1":null,"2":null}`), []byte(`{"1":"zz"}`), []byte(`{"1":7}`), []byte(`{"1":""}`),
		[]byte(`{"1":"80"}`), []byte(`{"1":"` + strings.Repeat("FF", 64) + `"}`),
		[]byte(strings.Repeat(`{"2":`, 200) + `1` + strings.Repeat(`}`, 200)),
		[]byte(strings.Repeat(`[`, 5000) + strings.Repeat(`]`, 5000)),
		[]byte(strings.Repeat(`{"55":`, 3000) + `{}` + strings.Repeat(`}`, 3000)),
		[]byte(`{"2":"` + strings.Repeat("4", 70000) + `"}`),
	}
	for n := 0; n < 24; n++ {
		var sb strings.Builder
		sb.WriteString("{")
		for i, m := 0, r.Intn(5); i <= m; i++ {
			if i > 0 {
				sb.WriteString(",")
			}
			sb.WriteString(strconv.Quote(k()))
			sb.WriteString(":")
			sb.WriteString(gen.Pick(r, vals))
		}
		sb.WriteString("}")
		docs = append(docs, []byte(sb.String()))
	}
	for _, v := range vals {
		docs = append(docs, []byte(v))
	}
	return docs
}

func keysOfSpecTree(t *impl.Tree) []string {
	var out []string
	switch t.Name {
	case "m":
		out = append(out, "0", "1")
		for _, k := range t.Kids[2:] {
			out = append(out, k.Kids[0].Name)
		}
	case "c":
		for _, k := range t.Kids[3:] {
			out = append(out, k.Kids[0].Name)
		}
	}
	return out
}

/* ---------- shipped specs: valid wires to mutate ---------- */

// shippedWires packs a few messages of a shipped spec: MTI plus random subsets of its
// primitive fields filled with digit / hex text of the declared length (fields whose Pack
// fails are dropped again), plus a hand-built EMV field 55.
func shippedWires(name string, r *gen.Rng, n int) [][]byte {
	spec := impl.Shipped(name)
	var out [][]byte
	ids := make([]int, 0, len(spec.Fields))
	for id := range spec.Fields {
		if id >= 2 {
			ids = append(ids, id)
		}
	}
	for i := 0; i < len(ids); i++ { // deterministic order
		for j := i + 1; j < len(ids); j++ {
			if ids[j] < ids[i] {
				ids[i], ids[j] = ids[j], ids[i]
			}
		}
	}
	for k := 0; k < n; k++ {
		func() {
			defer func() { recover() }()
			m := iso8583.NewMessage(spec)
			m.MTI(gen.Pick(r, []string{"0100", "0200", "0800", "0110"}))
			var set []int
			for _, id := range ids {
				if r.Intn(4) != 0 {
					continue
				}
				fs := spec.Fields[id].Spec()
				l := fs.Length
				if l > 40 {
					l = 1 + r.Intn(40)
				}
				if l <= 0 {
					l = 1 + r.Intn(8)
				}
				var val string
				switch spec.Fields[id].(type) {
				case *field.Numeric:
					if l > 18 {
						l = 18
					}
					val = "1" + string(r.From([]byte("0123456789"), l-1))
				case *field.String:
					val = string(r.From([]byte("0123456789"), l))
				case *field.Hex:
					val = strings.ToUpper(fmt.Sprintf("%x", r.Bytes(l)))
				default:
					continue
				}
				if err := m.Field(id, val); err != nil {
					continue
				}
				if _, err := m.Pack(); err != nil {
					m.UnsetField(id)
					continue
				}
				set = append(set, id)
			}
			if b, err := m.Pack(); err == nil {
				out = append(out, b)
			}
			_ = set
		}()
	}
	if name == "emv" {
		tlv := []byte{0x9F, 0x02, 0x06, 0x00, 0x00, 0x00, 0x00, 0x10, 0x00, 0x5F, 0x2A, 0x02, 0x08, 0x40, 0x9A, 0x03, 0x24, 0x01, 0x31, 0xDF, 0x81, 0x01, 0x02, 0xAA, 0xBB}
		w := append([]byte("0100"), 0, 0, 0, 0, 0, 0, 0x02, 0)
		w = append(w, []byte(fmt.Sprintf("%03d", len(tlv)))...)
		out = append(out, append(w, tlv...))
	}
	return out
}

/* ---------- the run ---------- */

// runC04 runs the search in a child process (the same command line, marked by an
// environment variable): a fatal error of the Go runtime — out of memory after an
// unchecked announced length reached make(), stack overflow — kills the process and can
// not be recovered, so the parent attributes it to the case the child announced last on
// its marker pipe, reports it, and starts another child that skips the cases already done.
func runC04(t gen.Tier, r *gen.Rng, rep *Reporter) {
	if os.Getenv("VERIF_C04_CHILD") != "" {
		runC04Child(t, r, rep)
		return
	}
	skip := 0
	for attempt := 0; attempt < 4; attempt++ {
		last, lastIdx, died, tail := runC04Parent(rep, skip)
		if !died {
			return
		}
		rep.Viol("fatal error in the implementation while decoding (the process died: out of memory, stack overflow, …)", last, tail)
		skip = lastIdx
	}
}

func runC04Parent(rep *Reporter, skip int) (last string, lastIdx int, died bool, tail string) {
	pr, pw, err := os.Pipe()
	if err != nil {
		return "", 0, false, ""
	}
	cmd := exec.Command(os.Args[0], os.Args[1:]...)
	cmd.Env = append(os.Environ(), "VERIF_C04_CHILD=1", "VERIF_C04_SKIP="+strconv.Itoa(skip))
	cmd.ExtraFiles = []*os.File{pw}
	out, err := cmd.StdoutPipe()
	if err != nil {
		return "", 0, false, ""
	}
	var errBuf strings.Builder
	cmd.Stderr = &tailWriter{b: &errBuf}
	if err := cmd.Start(); err != nil {
		rep.Viol("the oracle could not start its child process", "", err.Error())
		return "", 0, false, ""
	}
	pw.Close()
	markDone := make(chan struct{})
	go func() {
		sc := bufio.NewScanner(pr)
		sc.Buffer(make([]byte, 1<<20), 1<<26)
		for sc.Scan() {
			t := strings.SplitN(sc.Text(), "\t", 2)
			if len(t) == 2 {
				if n, err := strconv.Atoi(t[0]); err == nil {
					lastIdx, last = n, t[1]
				}
			}
		}
		close(markDone)
	}()
	sc := bufio.NewScanner(out)
	sc.Buffer(make([]byte, 1<<20), 1<<26)
	for sc.Scan() {
		t := strings.Split(sc.Text(), "\t")
		switch {
		case t[0] == "VIOL" && len(t) >= 3:
			detail := ""
			if len(t) > 3 {
				detail = t[3]
			}
			rep.Viol(t[1], t[2], detail)
		case t[0] == "SAMPLE" && len(t) >= 2:
			rep.Sample(strings.Join(t[1:], " "))
		case t[0] == "STAT" && len(t) >= 3:
			n, _ := strconv.Atoi(t[2])
			switch t[1] {
			case "evaluations":
				rep.Evals += n
			case "distinct_nontrivial":
				base := len(rep.Nontriv)
				for i := 0; i < n; i++ {
					rep.Nontriv["child#"+strconv.Itoa(base+i)] = struct{}{}
				}
			case "violations":
			default:
				rep.Stat(t[1], n)
			}
		}
	}
	werr := cmd.Wait()
	<-markDone
	pr.Close()
	if werr != nil {
		return last, lastIdx, true, errBuf.String()
	}
	return "", 0, false, ""
}

// tailWriter keeps the first 1500 bytes written (the fatal error message and the top of
// the first stack).
type tailWriter struct{ b *strings.Builder }

func (w *tailWriter) Write(p []byte) (int, error) {
	if w.b.Len() < 1500 {
		room := 1500 - w.b.Len()
		if room > len(p) {
			room = len(p)
		}
		w.b.Write(p[:room])
	}
	return len(p), nil
}

func runC04Child(t gen.Tier, r *gen.Rng, rep *Reporter) {
	c := newNpCtx(rep)
	c.skip, _ = strconv.Atoi(os.Getenv("VERIF_C04_SKIP"))
	c.mark = os.NewFile(3, "marker")
	g := gen.NewFieldGen(r)

	packWire := func(line string) ([]byte, bool) {
		res := impl.Run(line)
		if !strings.HasPrefix(res, "ok ") {
			return nil, false
		}
		return impl.UnHex(strings.TrimPrefix(res, "ok "))
	}

	// S1: coherent field specs — every truncation, substitutions, adversarial splices, SetBytes, JSON
	for i := 0; i < t.N(250, 6000); i++ {
		spec := g.Field(r.Intn(4))
		ss := spec.String()
		wire, ok := packWire(fmt.Sprintf("F %s pack %s", ss, g.Value(spec, false).String()))
		if ok {
			c.fieldUnpack("field", spec, wire)
			for o := 0; o < len(wire); o++ {
				if len(wire) > 60 && o%4 != 0 && o > 16 {
					continue
				}
				c.fieldUnpack("field", spec, wire[:o])
			}
			for _, m := range headSubst(r, wire, 10) {
				c.fieldUnpack("field", spec, m)
			}
			for k := 0; k < 6; k++ {
				c.fieldUnpack("field", spec, spliceAdv(r, wire))
			}
			for j, m := range g.Mutate(wire) {
				if j%3 == 0 {
					c.fieldSetBytes("field", spec, m)
				}
			}
		}
		for k := 0; k < 4; k++ {
			c.fieldUnpack("field", spec, advBytes(r))
			c.fieldSetBytes("field", spec, advBytes(r))
		}
		c.fieldUnpack("field", spec, r.Bytes(r.Intn(24)))
		if i%4 == 0 {
			for j, d := range jsonDocs(r, keysOfSpecTree(spec)) {
				if j%3 == i%3 {
					c.fieldJSON("field", spec, d)
				}
			}
		}
	}

	// S2: coherent message specs
	for i := 0; i < t.N(120, 3000); i++ {
		spec := g.MsgSpec(r.Intn(3))
		ss := spec.String()
		wire, ok := packWire(fmt.Sprintf("M %s pack %s", ss, g.Msg(spec).String()))
		if ok {
			c.msgUnpack("msg", spec, wire)
			for o := 0; o < len(wire); o++ {
				if len(wire) > 60 && o%4 != 0 && o > 24 {
					continue
				}
				c.msgUnpack("msg", spec, wire[:o])
			}
			for _, m := range headSubst(r, wire, 16) {
				c.msgUnpack("msg", spec, m)
			}
			for k := 0; k < 8; k++ {
				c.msgUnpack("msg", spec, spliceAdv(r, wire))
			}
		}
		for k := 0; k < 4; k++ {
			c.msgUnpack("msg", spec, advBytes(r))
		}
		c.msgUnpack("msg", spec, r.Bytes(r.Intn(40)))
		docs := jsonDocs(r, keysOfSpecTree(spec))
		if i%4 == 0 {
			for j, d := range docs {
				if j%3 == i%3 {
					c.msgJSON("msg", spec, d)
				}
			}
		}
		// decoding into a message that has been used: calls that failed half-way (inside the MTI,
		// inside the bitmap, inside an element), a Pack, documents with a member "1" (the bitmap
		// field) shorter / longer than the bitmap - in every order
		if ok {
			cutAt := func(n int) []byte {
				if n > len(wire) {
					n = len(wire)
				}
				if n < 0 {
					n = 0
				}
				return wire[:n]
			}
			short := [][]byte{nil, cutAt(2), cutAt(4), cutAt(5), cutAt(len(wire) / 2), cutAt(len(wire) - 1), wire, advBytes(r)}
			bmDocs := [][]byte{[]byte(`{"1":""}`), []byte(`{"1":"00"}`), []byte(`{"1":"80"}`), []byte(`{"1":"C000000000000000"}`),
				[]byte(`{"0":"0100","1":"8000000000000000"}`), []byte(`{"1":"FFFFFFFFFFFFFFFFFFFFFFFFFFFFFFFFFFFFFFFFFFFFFFFF"}`)}
			for k := 0; k < 10; k++ {
				var steps []string
				for n := 2 + r.Intn(3); n > 0; n-- {
					switch r.Intn(6) {
					case 0:
						steps = append(steps, "p")
					case 1, 2:
						steps = append(steps, "u:"+gen.H(gen.Pick(r, short)))
					case 3:
						steps = append(steps, "j:"+gen.H(gen.Pick(r, bmDocs)))
					default:
						if len(docs) > 0 {
							steps = append(steps, "j:"+gen.H(gen.Pick(r, docs)))
						} else {
							steps = append(steps, "j:"+gen.H(gen.Pick(r, bmDocs)))
						}
					}
				}
				c.msgSeq("msg", spec, steps)
			}
		}
	}

	// S3: incoherent field specs
	for i := 0; i < t.N(1500, 40000); i++ {
		spec := incoherentField(r, r.Intn(4))
		for k := 0; k < 6; k++ {
			c.fieldUnpack("field-incoherent", spec, advBytes(r))
		}
		c.fieldUnpack("field-incoherent", spec, r.Bytes(r.Intn(20)))
		c.fieldUnpack("field-incoherent", spec, nil)
		c.fieldSetBytes("field-incoherent", spec, advBytes(r))
		if i%8 == 0 {
			for j, d := range jsonDocs(r, keysOfSpecTree(spec)) {
				if j%5 == i%5 {
					c.fieldJSON("field-incoherent", spec, d)
				}
			}
		}
	}

	// S4: incoherent message specs
	for i := 0; i < t.N(800, 20000); i++ {
		spec := incoherentMsg(r, r.Intn(3))
		for k := 0; k < 6; k++ {
			c.msgUnpack("msg-incoherent", spec, advBytes(r))
		}
		// a plausible head: 4 MTI bytes + bitmap bytes with a few low bits, then adversarial data
		head := append([]byte("0100"), gen.Pick(r, [][]byte{{0x40, 0, 0, 0, 0, 0, 0, 0}, {0xC0, 0, 0, 0, 0, 0, 0, 0, 0x80, 0, 0, 0, 0, 0, 0, 0}, {0x7F, 0xFF}, []byte("4000000000000000"), {0x01, 0x00}})...)
		c.msgUnpack("msg-incoherent", spec, append(head, advBytes(r)...))
		c.msgUnpack("msg-incoherent", spec, r.Bytes(r.Intn(30)))
		c.msgUnpack("msg-incoherent", spec, nil)
		if i%8 == 0 {
			for j, d := range jsonDocs(r, keysOfSpecTree(spec)) {
				if j%5 == i%5 {
					c.msgJSON("msg-incoherent", spec, d)
				}
			}
		}
	}

	// S5: shipped specs
	for _, name := range impl.ShippedNames {
		wires := shippedWires(name, r, t.N(6, 60))
		for _, wire := range wires {
			c.shippedUnpack(name, wire)
			for o := 0; o < len(wire); o++ {
				c.shippedUnpack(name, wire[:o])
			}
			for _, m := range headSubst(r, wire, t.N(24, 80)) {
				c.shippedUnpack(name, m)
			}
			for _, m := range g.Mutate(wire) {
				c.shippedUnpack(name, m)
			}
			for k := 0; k < t.N(10, 40); k++ {
				c.shippedUnpack(name, spliceAdv(r, wire))
			}
		}
		for k := 0; k < t.N(150, 3000); k++ {
			c.shippedUnpack(name, advBytes(r))
			c.shippedUnpack(name, append([]byte("0100"), r.Bytes(8+r.Intn(40))...))
		}
		var keys []string
		for id := range impl.Shipped(name).Fields {
			keys = append(keys, strconv.Itoa(id))
		}
		for rounds := 0; rounds < t.N(2, 10); rounds++ {
			for _, d := range jsonDocs(r, keys) {
				c.shippedJSON(name, d)
			}
		}
	}

	// S6: network header reads on arbitrary bytes (property C16 covers them in depth)
	for _, h := range gen.NetHeaders {
		for k := 0; k < t.N(300, 5000); k++ {
			data := r.Bytes(r.Intn(7))
			if r.Bool() {
				data = advBytes(r)
			}
			chunks := [][]byte{data}
			if r.Bool() {
				chunks = gen.OneByOne(data)
			}
			w := fmt.Sprintf("W %d N %s read %s", npWatchMs, h, gen.ChunkStr(chunks))
			c.guard("net "+h, "", w, len(data), func() string {
				_, _, _, _, err, _ := impl.NetRead(h, chunks)
				if err != nil {
					return "err"
				}
				return "ok"
			})
		}
	}

	// S6b: time / total allocation linear in the input — the only loop whose iteration count
	// the input controls is the TLV loop: ~60 KB of one repeated element, per value encoder
	// and per tag encoder, must stay under the limits like everything else
	for _, e := range []struct{ enc, val string }{
		{"ascii", "30"}, {"binary", "00"}, {"ebcdic", "f0"}, {"ebcdic1047", "f0"}, {"bcd", "12"}, {"lbcd", "12"},
		{"bytesToHex", "3030"}, {"hexToBytes", "ab"}} {
		kind := "s"
		if e.enc == "binary" {
			kind = "b"
		}
		for _, shape := range []struct{ mode, key, tagHex, pref, prefHex string }{
			{"t(0,berTag,nil,hex,0,-)", "9A", "9a", "ber", "01"},
			{"t(2,ascii,nil,str,1,ascii.2)", "AB", "4142", "ascii.1", "31"},
		} {
			elem := shape.tagHex + shape.prefHex + e.val
			count := 60000 / (len(elem) / 2)
			body := strings.Repeat(elem, count)
			spec, ok := impl.ParseTree(fmt.Sprintf("c(99999,ascii.5,%s,sub(%s,p(%s,1,%s,%s,nil,d)))", shape.mode, shape.key, kind, e.enc, shape.pref))
			if !ok {
				continue
			}
			data, _ := impl.UnHex(gen.H([]byte(fmt.Sprintf("%05d", len(body)/2))) + body)
			c.fieldUnpack("field-long-tlv", spec, data)
			c.fieldUnpack("field-long-tlv", spec, data[:len(data)-1])
		}
	}

	// S6c: bitmap specs whose prefixer can yield a zero block length (the input class of the
	// repaired finding KF6): regression probe
	for _, pz := range []struct{ pref, tail string }{{"none", ""}, {"ber", "00"}, {"ascii.1", "30"}, {"binary.2", "0000"}, {"bcd.2", "00"}} {
		for _, auto := range []string{"1", "0"} {
			spec, ok := impl.ParseTree(fmt.Sprintf("m(p(s,4,ascii,ascii.F,nil,d),bm(8,binary,%s,%s),f(2,p(s,2,ascii,ascii.F,nil,d)))", pz.pref, auto))
			if !ok {
				continue
			}
			data, _ := impl.UnHex("30313030" + pz.tail)
			c.msgUnpack("msg-zero-block", spec, data)
			c.msgUnpack("msg-zero-block", spec, append(data, 0x40, 0, 0, 0, 0, 0, 0, 0, '4', '2'))
		}
	}

	// S7 (last: should it hang again, the call leaves its goroutine running): the former
	// zero-progress TLV loop (repaired finding KF5) —
	// Tag.Length 0 with a non-BER tag decoder and a zero-width subfield keyed "".
	for _, tenc := range []string{"ascii", "bcd"} {
		spec := impl.N("c", impl.A("3"), impl.A("ascii.F"),
			impl.N("t", impl.A("0"), impl.A(tenc), impl.A("nil"), impl.A("str"), impl.A("0"), impl.A("-")),
			impl.N("sub", impl.A(""), impl.N("p", impl.A("s"), impl.A("0"), impl.A("ascii"), impl.A("ascii.F"), impl.A("nil"), impl.A("d"))))
		c.fieldUnpack("field-zero-progress", spec, []byte("123"))
	}

	// S7b: UnmarshalJSON of every field kind called directly (encoding/json validates a document before it
	// hands it to the method; a direct caller does not): every byte string of up to three characters over
	// the characters JSON gives a meaning to, and a few longer ones
	{
		alpha := []byte{'"', '\\', '{', '}', '[', ']', ':', ',', 'n', '0', '\'', '`', ' ', 'A', 0x00, 0xFF}
		var docs [][]byte
		docs = append(docs, nil)
		for _, a := range alpha {
			docs = append(docs, []byte{a})
			for _, b := range alpha {
				docs = append(docs, []byte{a, b})
				if t.Thorough || (a == '"' || b == '"' || a == '\\') {
					for _, d := range alpha {
						docs = append(docs, []byte{a, b, d})
					}
				}
			}
		}
		docs = append(docs, []byte(`"\u00`), []byte(`"\`), []byte("null"), []byte(`"00"`), []byte(`{"01":"a"}`), []byte(`{"01":`), []byte(`"4242=2408201X"`))
		for _, kind := range impl.DirectJSONKinds {
			for _, d := range docs {
				doc := d
				w := fmt.Sprintf("W %d U %s ujson %s", npWatchMs, kind, gen.H(doc))
				c.guard("direct-json "+kind, "", w, len(doc), func() string {
					f := impl.DirectJSONTarget(kind)
					if f == nil {
						return "err"
					}
					if err := f.UnmarshalJSON(doc); err != nil {
						return "err"
					}
					return "ok"
				})
			}
		}
	}

	// S8: what decoding leaves behind in the process, and decoding in several goroutines at once.
	// The messages are independent (every call has its own field object; only the read-only spec
	// and whatever the library keeps at package level is shared) and carry tags never seen before.
	if !c.tainted && c.idx > c.skip {
		specS := "c(9999,ascii.4,t(0,berTag,nil,hex,1,-),sub(9A,p(b,3,binary,ber,nil,d)),sub(5F2A,p(b,2,binary,ber,nil,d)))"
		spec, ok := impl.ParseTree(specS)
		if ok {
			mkBody := impl.ManyBody
			n := t.N(40000, 120000)
			line := fmt.Sprintf("F %s unpack-many %d", specS, n)
			var grew int64
			c.guard("retained", "", fmt.Sprintf("W %d %s", 60000, line), 24*n, func() string {
				h0 := impl.HeapInUse()
				for k := 0; k < n; k++ {
					f, _ := buildField(spec)
					if _, err := f.Unpack(mkBody(k)); err != nil {
						return "err"
					}
				}
				grew = int64(impl.HeapInUse()) - int64(h0)
				return "ok"
			})
			rep.Stat("retained_bytes_after_many_decodes", int(grew))
			if grew > 1<<20 {
				rep.Viol(fmt.Sprintf("after decoding %d independent inputs the process retains %d more bytes of heap than before (after garbage collection): decoding leaves state behind that grows with the inputs", n, grew), line, "")
			}
			workers, per := 8, t.N(4000, 12000)
			cline := fmt.Sprintf("F %s unpack-concurrently %dx%d", specS, workers, per)
			c.guard("concurrent", "", fmt.Sprintf("W %d %s", 60000, cline), 24*workers*per, func() string {
				var wg sync.WaitGroup
				bad := make([]string, workers)
				for w := 0; w < workers; w++ {
					wg.Add(1)
					go func(w int) {
						defer wg.Done()
						defer func() {
							if r := recover(); r != nil {
								bad[w] = fmt.Sprint(r)
							}
						}()
						for k := 0; k < per; k++ {
							f, _ := buildField(spec)
							if _, err := f.Unpack(mkBody(1000000 + w*per + k)); err != nil {
								bad[w] = err.Error()
								return
							}
						}
					}(w)
				}
				wg.Wait()
				for _, b := range bad {
					if b != "" {
						panic("a goroutine decoding its own inputs failed: " + b)
					}
				}
				return "ok"
			})
		}
	}

	rep.Stat("calls_ok", c.okN)
	rep.Stat("calls_err", c.errN)
	rep.Stat("hangs", c.hangs)
	rep.Stat("max_alloc_bytes_per_call", int(c.maxAlloc))
	rep.Stat("max_ms_per_call", int(c.maxNs/1e6))
	for k, v := range c.byClass {
		rep.Stat("class "+k, v)
	}
}

// linesC04 re-examines given protocol lines (correspondence differences, replays): an
// unpack line is run again under the guard together with its truncations; any other line
// (SetBytes, JSON, shipped specs, network reads — with or without the `W <ms>` / `A <MiB>`
// wrappers) is run once under the guard.
func linesC04(lines []string, rep *Reporter) {
	c := newNpCtx(rep)
	for _, l := range lines {
		t := strings.Split(l, " ")
		if len(t) > 2 && t[0] == "W" {
			t = t[2:]
		}
		if len(t) > 2 && t[0] == "A" {
			t = t[2:]
		}
		if len(t) == 4 && t[2] == "unpack" && (t[0] == "F" || t[0] == "M") {
			st, ok := impl.ParseTree(t[1])
			data, ok2 := impl.UnHex(t[3])
			if !ok || !ok2 {
				continue
			}
			for o := len(data); o >= 0; o-- {
				if t[0] == "F" {
					c.fieldUnpack("line", st, data[:o])
				} else {
					c.msgUnpack("line", st, data[:o])
				}
				if len(data)-o > 40 {
					break
				}
			}
			continue
		}
		if len(t) < 3 {
			continue
		}
		inner := strings.Join(t, " ")
		c.guard("line", "", fmt.Sprintf("W %d %s", npWatchMs, inner), len(inner)/2, func() string { return impl.RunInner(t) })
	}
}
