package oracle

// C11 — struct Marshal / Unmarshal. The property statement evaluated on the implementation
// (structs built with reflect.StructOf from the channel-G description):
//
//   - a struct of documented Go types whose texts are valid for their fields: Marshal
//     succeeds; afterwards a message field is set iff a struct field that addresses it is
//     non-zero or tagged keepzero (zero fields are left out);
//   - Unmarshal of that message — directly, and after Pack and Unpack into a second message —
//     into a fresh struct of the same type succeeds; every non-zero field comes back
//     unchanged up to the target field's canonical form (directly: decimal text re-rendered
//     by a Numeric field, hex text lower-cased by a Binary field, everything else
//     identical; through the wire: the Go rendering of the second message's field value);
//     zero fields without keepzero stay zero;
//   - Unmarshal into a struct with prior values changes only the struct fields whose
//     message field (subfield) is set.
//
// Which message field a struct field addresses is decided by an independent transcription
// of the documented rule: `index` tag, else `iso8583` tag, else the name F<n>; option
// `keepzero`. A failing case is shrunk (struct fields dropped while it still fails) before
// it is reported. Replay lines: `G … rt|rtw …` = Unmarshal fails (the class of the open
// finding KF4), `G … rtv|rtwv …` = a value / presence mismatch, `G … marshal …`,
// `G … unmarshal …`.

import (
	"bytes"
	"encoding/hex"
	"fmt"
	"reflect"
	"sort"
	"strconv"
	"strings"

	"github.com/moov-io/iso8583"
	"github.com/moov-io/iso8583/encoding"
	"github.com/moov-io/iso8583/field"
	"github.com/moov-io/iso8583/prefix"

	"verif/harness/gen"
	"verif/harness/impl"
)

func init() {
	Registry["C11"] = &Oracle{Run: runC11, Lines: linesC11}
}

type addr struct {
	key      string // message id in decimal, or composite tag; "" = addresses nothing
	keepzero bool
}

// resolveAddr: index > iso8583 > field name F<n>; option keepzero.
func resolveAddr(sf reflect.StructField, message bool) addr {
	v := sf.Tag.Get("index")
	if v == "" {
		v = sf.Tag.Get("iso8583")
	}
	tag, opts := v, ""
	if i := strings.IndexByte(v, ','); i >= 0 {
		tag, opts = v[:i], v[i+1:]
	}
	kz := false
	for _, o := range strings.Split(opts, ",") {
		if o == "keepzero" {
			kz = true
		}
	}
	if tag == "" && len(sf.Name) > 1 && sf.Name[0] == 'F' {
		tag = sf.Name[1:]
	}
	if tag == "" {
		return addr{}
	}
	if message {
		id, err := strconv.Atoi(tag)
		if err != nil || id < 0 {
			return addr{}
		}
		return addr{key: strconv.Itoa(id), keepzero: kz}
	}
	return addr{key: tag, keepzero: kz}
}

var (
	rtString = reflect.TypeOf("")
	rtInt    = reflect.TypeOf(int(0))
	rtInt64  = reflect.TypeOf(int64(0))
	rtBytes  = reflect.TypeOf([]byte(nil))
	rtLS     = reflect.TypeOf((*field.String)(nil))
	rtLN     = reflect.TypeOf((*field.Numeric)(nil))
	rtLB     = reflect.TypeOf((*field.Binary)(nil))
	rtLH     = reflect.TypeOf((*field.Hex)(nil))
)

// documentedType: the Go types each field kind documents.
func documentedType(f field.Field, t reflect.Type) bool {
	base := t
	ptr := false
	if t.Kind() == reflect.Pointer && t != rtLS && t != rtLN && t != rtLB && t != rtLH {
		base, ptr = t.Elem(), true
	}
	_ = ptr
	switch f.(type) {
	case *field.String:
		return base == rtString || base == rtInt || base == rtInt64 || t == rtLS
	case *field.Numeric:
		return base == rtString || base == rtInt64 || t == rtLN
	case *field.Binary:
		return base == rtString || base == rtBytes || t == rtLB
	case *field.Hex:
		return base == rtString || base == rtBytes || t == rtLH
	case *field.Composite:
		return t.Kind() == reflect.Pointer && t.Elem().Kind() == reflect.Struct && t != rtLS && t != rtLN && t != rtLB && t != rtLH
	}
	return false
}

// goText is the data a Go value of a primitive documented type carries, as (text, int, bytes).
func deref(v reflect.Value) (reflect.Value, bool) {
	if v.Kind() == reflect.Pointer {
		if v.IsNil() {
			return reflect.Value{}, false
		}
		return v.Elem(), true
	}
	return v, true
}

// validFor: Marshal is expected to accept the (documented) value.
func validFor(f field.Field, v reflect.Value) bool {
	if v.IsZero() {
		return true
	}
	switch v.Type() {
	case rtLS, rtLN, rtLB, rtLH:
		return true
	}
	e, ok := deref(v)
	if !ok {
		return true
	}
	if e.Kind() != reflect.String {
		return true
	}
	switch f.(type) {
	case *field.Numeric:
		_, err := strconv.ParseInt(e.String(), 10, 64)
		return err == nil
	case *field.Binary:
		_, err := hex.DecodeString(e.String())
		return err == nil
	}
	return true
}

// render: a primitive field's value in the Go type t (the documented representation).
func render(f field.Field, t reflect.Type) (reflect.Value, bool) {
	mk := func(x reflect.Value) (reflect.Value, bool) {
		if t.Kind() == reflect.Pointer {
			p := reflect.New(t.Elem())
			p.Elem().Set(x.Convert(t.Elem()))
			return p, true
		}
		return x.Convert(t), true
	}
	switch x := f.(type) {
	case *field.String:
		switch t {
		case rtLS:
			return reflect.ValueOf(field.NewStringValue(x.Value())), true
		}
		base := t
		if t.Kind() == reflect.Pointer {
			base = t.Elem()
		}
		if base == rtString {
			return mk(reflect.ValueOf(x.Value()))
		}
		i, err := strconv.ParseInt(x.Value(), 10, 64)
		if err != nil {
			return reflect.Value{}, false
		}
		if base == rtInt {
			return mk(reflect.ValueOf(int(i)))
		}
		return mk(reflect.ValueOf(i))
	case *field.Numeric:
		if t == rtLN {
			return reflect.ValueOf(field.NewNumericValue(x.Value())), true
		}
		base := t
		if t.Kind() == reflect.Pointer {
			base = t.Elem()
		}
		if base == rtString {
			return mk(reflect.ValueOf(strconv.FormatInt(x.Value(), 10)))
		}
		return mk(reflect.ValueOf(x.Value()))
	case *field.Binary:
		if t == rtLB {
			return reflect.ValueOf(field.NewBinaryValue(x.Value())), true
		}
		base := t
		if t.Kind() == reflect.Pointer {
			base = t.Elem()
		}
		if base == rtString {
			return mk(reflect.ValueOf(hex.EncodeToString(x.Value())))
		}
		b := x.Value()
		if b == nil {
			b = []byte{}
		}
		return mk(reflect.ValueOf(b))
	case *field.Hex:
		if t == rtLH {
			return reflect.ValueOf(field.NewHexValue(x.Value())), true
		}
		base := t
		if t.Kind() == reflect.Pointer {
			base = t.Elem()
		}
		if base == rtString {
			return mk(reflect.ValueOf(x.Value()))
		}
		b, err := hex.DecodeString(x.Value())
		if err != nil {
			return reflect.Value{}, false
		}
		return mk(reflect.ValueOf(b))
	}
	return reflect.Value{}, false
}

// canonDirect: what a non-zero value is expected to come back as without the wire.
func canonDirect(f field.Field, v reflect.Value) (reflect.Value, bool) {
	t := v.Type()
	e, ok := deref(v)
	if !ok {
		return v, true
	}
	wrap := func(x reflect.Value) (reflect.Value, bool) {
		if t.Kind() == reflect.Pointer && t != rtLS && t != rtLN && t != rtLB && t != rtLH {
			p := reflect.New(t.Elem())
			p.Elem().Set(x)
			return p, true
		}
		return x, true
	}
	if e.Kind() == reflect.String {
		switch f.(type) {
		case *field.Numeric:
			i, err := strconv.ParseInt(e.String(), 10, 64)
			if err != nil {
				return v, false
			}
			return wrap(reflect.ValueOf(strconv.FormatInt(i, 10)))
		case *field.Binary:
			b, err := hex.DecodeString(e.String())
			if err != nil {
				return v, false
			}
			return wrap(reflect.ValueOf(hex.EncodeToString(b)))
		}
	}
	return v, true
}

// same compares two Go values of one documented type by content (nil and empty slices are
// the same data).
func same(a, b reflect.Value) bool {
	return impl.GoValTree(a).String() == impl.GoValTree(b).String()
}

type fieldGetter func(key string) (field.Field, bool) // spec field (set or not)
type setGetter func(key string) (field.Field, bool)   // set field

func msgGetters(m *iso8583.Message) (fieldGetter, setGetter) {
	all := func(key string) (field.Field, bool) {
		id, err := strconv.Atoi(key)
		if err != nil || id == 1 {
			return nil, false
		}
		f := m.GetField(id)
		return f, f != nil
	}
	set := func(key string) (field.Field, bool) {
		id, err := strconv.Atoi(key)
		if err != nil {
			return nil, false
		}
		f, ok := m.GetFields()[id]
		return f, ok
	}
	return all, set
}

func compGetters(c *field.Composite) (fieldGetter, setGetter) {
	all := func(key string) (field.Field, bool) {
		f, ok := c.Spec().Subfields[key]
		return f, ok
	}
	set := func(key string) (field.Field, bool) {
		f, ok := c.GetSubfields()[key]
		return f, ok
	}
	return all, set
}

// structInfo: per struct field its address and the spec field it reaches.
type sfInfo struct {
	idx  int
	a    addr
	spec field.Field
}

func structInfo(t reflect.Type, all fieldGetter, message bool) []sfInfo {
	var out []sfInfo
	for i := 0; i < t.NumField(); i++ {
		a := resolveAddr(t.Field(i), message)
		info := sfInfo{idx: i, a: a}
		if a.key != "" {
			if f, ok := all(a.key); ok {
				info.spec = f
			}
		}
		out = append(out, info)
	}
	return out
}

// inScope: documented types throughout, every addressed key defined, keys pairwise
// different, texts valid — the quantifier of the property.
func inScope(v reflect.Value, all fieldGetter, message bool) bool {
	t := v.Type()
	seen := map[string]bool{}
	for _, in := range structInfo(t, all, message) {
		if in.a.key == "" {
			continue
		}
		if in.spec == nil {
			if message {
				return false // Marshal reports an undefined message field
			}
			continue
		}
		if seen[in.a.key] {
			return false
		}
		seen[in.a.key] = true
		fv := v.Field(in.idx)
		if !documentedType(in.spec, fv.Type()) || !validFor(in.spec, fv) {
			return false
		}
		if c, ok := in.spec.(*field.Composite); ok && !fv.IsNil() {
			ca, _ := compGetters(c)
			if !inScope(fv.Elem(), ca, false) {
				return false
			}
		}
	}
	return true
}

// checkPresence: after Marshal, set ⇔ addressed by a non-zero or keepzero struct field.
func checkPresence(v reflect.Value, all fieldGetter, set setGetter, message bool, path string, fail func(string)) {
	for _, in := range structInfo(v.Type(), all, message) {
		if in.spec == nil {
			continue
		}
		fv := v.Field(in.idx)
		f, isSet := set(in.a.key)
		want := !fv.IsZero() || in.a.keepzero
		if isSet != want {
			if want {
				fail(fmt.Sprintf("%s%s: struct field is non-zero or keepzero but the message field is not set", path, in.a.key))
			} else {
				fail(fmt.Sprintf("%s%s: zero struct field without keepzero, yet the message field is set", path, in.a.key))
			}
			continue
		}
		if c, ok := f.(*field.Composite); ok && isSet && !fv.IsNil() {
			ca, cs := compGetters(c)
			checkPresence(fv.Elem(), ca, cs, false, path+in.a.key+".", fail)
		}
	}
}

// checkBack: the struct `got` (unmarshalled from the message behind `set`) against the
// original `orig`. direct = no wire in between.
func checkBack(orig, got reflect.Value, all fieldGetter, set setGetter, message, direct bool, path string, fail func(string)) {
	for _, in := range structInfo(orig.Type(), all, message) {
		ov, gv := orig.Field(in.idx), got.Field(in.idx)
		if in.spec == nil {
			if !gv.IsZero() {
				fail(fmt.Sprintf("%sfield %d addresses nothing but was written", path, in.idx))
			}
			continue
		}
		f, isSet := set(in.a.key)
		if ov.IsZero() {
			if !in.a.keepzero && !gv.IsZero() {
				fail(fmt.Sprintf("%s%s: zero field without keepzero came back non-zero", path, in.a.key))
			}
			continue
		}
		if !isSet {
			continue // reported by checkPresence
		}
		if c, ok := f.(*field.Composite); ok {
			if gv.IsNil() {
				fail(fmt.Sprintf("%s%s: non-nil struct pointer came back nil", path, in.a.key))
				continue
			}
			ca, cs := compGetters(c)
			checkBack(ov.Elem(), gv.Elem(), ca, cs, false, direct, path+in.a.key+".", fail)
			continue
		}
		// the Go rendering of what the (second) message holds
		if want, ok := render(f, ov.Type()); ok {
			if !same(want, gv) {
				fail(fmt.Sprintf("%s%s: Unmarshal wrote %s, the message field holds %s", path, in.a.key, impl.GoValTree(gv), impl.GoValTree(want)))
			}
		}
		if direct {
			if want, ok := canonDirect(in.spec, ov); ok && !same(want, gv) {
				fail(fmt.Sprintf("%s%s: %s came back as %s, canonical form is %s", path, in.a.key, impl.GoValTree(ov), impl.GoValTree(gv), impl.GoValTree(want)))
			}
		}
	}
}

// evalRT evaluates the round-trip part of the property on one struct; returns the first
// failure as (class, detail). class "" = holds / out of scope.
func evalRT(spec *iso8583.MessageSpec, st *impl.Tree, wire bool) (class, detail string, nontrivial bool) {
	ptr, ok := impl.GoStructOf(st)
	if !ok {
		return "", "", false
	}
	probe := iso8583.NewMessage(spec)
	all, _ := msgGetters(probe)
	if !inScope(ptr.Elem(), all, true) {
		return "", "", false
	}
	m1 := iso8583.NewMessage(spec)
	if err := m1.Marshal(ptr.Interface()); err != nil {
		return "marshal", "Marshal rejects a struct of documented types with valid values: " + err.Error(), false
	}
	var first string
	fail := func(s string) {
		if first == "" {
			first = s
		}
	}
	all1, set1 := msgGetters(m1)
	checkPresence(ptr.Elem(), all1, set1, true, "", fail)
	if first != "" {
		return "presence", first, true
	}
	if !wire {
		// the same Marshal into a message that already holds other values: every primitive data
		// element the struct writes (non-zero, or zero with keepzero) ends up as in the new message
		// - a zero keepzero member blanks what was there -, every other element keeps what it held
		if d := remarshalDiff(spec, ptr, m1); d != "" {
			return "value", d, true
		}
		if d := marshalAfterUnsetDiff(spec, ptr); d != "" {
			return "value", d, true
		}
	}
	src := m1
	if wire {
		if _, hasMTI := m1.GetFields()[0]; !hasMTI {
			return "", "", false // without an MTI the bytes are not a message: Unpack reads the bitmap as MTI
		}
		packed, err := m1.Pack()
		if err != nil {
			return "", "", false // the message is not packable: outside the wire part
		}
		m2 := iso8583.NewMessage(spec)
		if err := m2.Unpack(packed); err != nil {
			return "", "", false // C01's business
		}
		if !samePresence(m1, m2) {
			// the wire round trip itself changed which (sub)fields are set: the message is
			// outside the domain of C01 (e.g. a positional composite with an empty run) —
			// C11 takes the C01 round trip as its hypothesis
			return "", "", false
		}
		src = m2
	}
	fresh := reflect.New(ptr.Type().Elem())
	if err := src.Unmarshal(fresh.Interface()); err != nil {
		if wire {
			// through the wire a value may legitimately stop being readable in the Go type
			// (e.g. a String field's text into an int after the padder stripped it): only
			// a failure that the direct round trip shows too is the property's business
			f2 := reflect.New(ptr.Type().Elem())
			if m1.Unmarshal(f2.Interface()) == nil {
				return "", "", true
			}
		}
		return "unmarshal", "Unmarshal fails on a struct of documented types: " + err.Error(), true
	}
	allS, setS := msgGetters(src)
	checkBack(ptr.Elem(), fresh.Elem(), allS, setS, true, !wire, "", fail)
	if first != "" {
		return "value", first, true
	}
	return "", "", true
}

// remarshalDiff: Marshal(ptr) into a message whose primitive data elements were populated before
func remarshalDiff(spec *iso8583.MessageSpec, ptr reflect.Value, fresh *iso8583.Message) string {
	used := iso8583.NewMessage(spec)
	held := map[int]string{}
	ids := make([]int, 0, len(spec.Fields))
	for id := range spec.Fields {
		ids = append(ids, id)
	}
	sort.Ints(ids)
	for _, id := range ids {
		if id < 2 {
			continue
		}
		var err error
		switch spec.Fields[id].(type) {
		case *field.String:
			err = used.Field(id, "Z")
		case *field.Numeric:
			err = used.Field(id, "7")
		case *field.Hex:
			err = used.Field(id, "AB")
		case *field.Binary:
			err = used.BinaryField(id, []byte{0xAB})
		default:
			continue
		}
		if err != nil {
			continue
		}
		if s, err := used.GetString(id); err == nil {
			held[id] = s
		}
	}
	if err := func() (err error) {
		defer func() {
			if r := recover(); r != nil {
				err = fmt.Errorf("panic: %v", r)
			}
		}()
		return used.Marshal(ptr.Interface())
	}(); err != nil {
		return "Marshal into a message that already holds values fails although Marshal into a new message succeeds: " + err.Error()
	}
	fset := fresh.GetFields()
	for _, id := range ids {
		before, was := held[id]
		if !was {
			continue
		}
		got, _ := used.GetString(id)
		if _, written := fset[id]; written {
			want, _ := fresh.GetString(id)
			if got != want {
				return fmt.Sprintf("data element %d held %q; after Marshal it holds %q, but the same Marshal into a new message gives %q", id, before, got, want)
			}
		} else if got != before {
			return fmt.Sprintf("data element %d is not written by the struct, held %q and holds %q after Marshal", id, before, got)
		}
	}
	return ""
}

// sparser: a copy of the struct value v in which every other non-zero leaf member is zero
// (struct pointers are followed and copied)
func sparser(v reflect.Value, n *int) reflect.Value {
	out := reflect.New(v.Type()).Elem()
	for i := 0; i < v.NumField(); i++ {
		f := v.Field(i)
		if f.Kind() == reflect.Ptr && !f.IsNil() && f.Elem().Kind() == reflect.Struct && f.Elem().NumField() > 0 && f.Elem().Type().PkgPath() == "" {
			c := sparser(f.Elem(), n)
			p := reflect.New(c.Type())
			p.Elem().Set(c)
			out.Field(i).Set(p)
			continue
		}
		if f.IsZero() {
			continue
		}
		*n++
		if *n%2 == 1 {
			out.Field(i).Set(f)
		}
	}
	return out
}

// marshalAfterUnsetDiff: Marshal(A), unset every data element, Marshal(B) with B sparser than A -
// the message must be what Marshal(B) into a new message gives (nothing of A may come back)
func marshalAfterUnsetDiff(spec *iso8583.MessageSpec, ptr reflect.Value) (diff string) {
	defer func() {
		if r := recover(); r != nil {
			diff = fmt.Sprintf("panic in Marshal / UnsetField / Marshal: %v", r)
		}
	}()
	n := 0
	bv := sparser(ptr.Elem(), &n)
	if n < 2 {
		return ""
	}
	b := reflect.New(bv.Type())
	b.Elem().Set(bv)
	used := iso8583.NewMessage(spec)
	if used.Marshal(ptr.Interface()) != nil {
		return ""
	}
	ids := make([]int, 0)
	for id := range used.GetFields() {
		if id != 1 { // the MTI too; the bitmap field is part of every message
			ids = append(ids, id)
		}
	}
	sort.Ints(ids)
	for k, id := range ids {
		if k%2 == 0 {
			used.UnsetField(id)
		} else if used.UnsetFields(strconv.Itoa(id)) != nil {
			return ""
		}
	}
	want := iso8583.NewMessage(spec)
	if want.Marshal(b.Interface()) != nil || used.Marshal(b.Interface()) != nil {
		return ""
	}
	if !samePresence(used, want) {
		return "Marshal(A), every data element unset, Marshal(B): the set (sub)fields differ from Marshal(B) into a new message - values of A came back"
	}
	p1, e1 := used.Pack()
	p2, e2 := want.Pack()
	if (e1 == nil) != (e2 == nil) || (e1 == nil && string(p1) != string(p2)) {
		return fmt.Sprintf("Marshal(A), every data element unset, Marshal(B): packs to %x, Marshal(B) into a new message packs to %x", p1, p2)
	}
	return ""
}

func samePresenceField(a, b field.Field) bool {
	ca, ok1 := a.(*field.Composite)
	cb, ok2 := b.(*field.Composite)
	if ok1 != ok2 {
		return false
	}
	if !ok1 {
		return true
	}
	sa, sb := ca.GetSubfields(), cb.GetSubfields()
	if len(sa) != len(sb) {
		return false
	}
	for k, fa := range sa {
		fb, ok := sb[k]
		if !ok || !samePresenceField(fa, fb) {
			return false
		}
	}
	return true
}

// samePresence: the two messages have the same set fields and, recursively, subfields
// (field 1, the bitmap, aside).
func samePresence(m1, m2 *iso8583.Message) bool {
	f1, f2 := m1.GetFields(), m2.GetFields()
	delete(f1, 1)
	delete(f2, 1)
	if len(f1) != len(f2) {
		return false
	}
	for id, a := range f1 {
		b, ok := f2[id]
		if !ok || !samePresenceField(a, b) {
			return false
		}
	}
	return true
}

// subtrees that can be dropped while shrinking: every fd at any depth
func dropCandidates(t *impl.Tree, path []int, out *[][]int) {
	for i, k := range t.Kids {
		if k.Name == "fd" {
			p := append(append([]int{}, path...), i)
			*out = append(*out, p)
			if len(k.Kids) == 4 && (k.Kids[3].Name == "sp" || k.Kids[3].Name == "nilsp") {
				dropCandidates(k.Kids[3], append(p, 3), out)
			}
		}
	}
}

func cloneTree(t *impl.Tree) *impl.Tree {
	c := &impl.Tree{Name: t.Name}
	for _, k := range t.Kids {
		c.Kids = append(c.Kids, cloneTree(k))
	}
	return c
}

func dropAt(t *impl.Tree, path []int) *impl.Tree {
	c := cloneTree(t)
	node := c
	for _, i := range path[:len(path)-1] {
		node = node.Kids[i]
	}
	i := path[len(path)-1]
	node.Kids = append(node.Kids[:i:i], node.Kids[i+1:]...)
	if len(node.Kids) == 0 && !strings.HasSuffix(node.Name, "()") {
		node.Name += "()"
	}
	return c
}

func normTree(t *impl.Tree) *impl.Tree {
	p, ok := impl.ParseTree(t.String())
	if !ok {
		return t
	}
	return p
}

// shrink drops struct fields while the same class of failure persists.
func shrink(st *impl.Tree, failing func(*impl.Tree) bool) *impl.Tree {
	cur := normTree(st)
	for changed := true; changed; {
		changed = false
		var cands [][]int
		dropCandidates(cur, nil, &cands)
		sort.Slice(cands, func(i, j int) bool { return len(cands[i]) < len(cands[j]) })
		for _, p := range cands {
			t := normTree(dropAt(cur, p))
			if failing(t) {
				cur, changed = t, true
				break
			}
		}
	}
	return cur
}

func reportRT(rep *Reporter, specS string, spec *iso8583.MessageSpec, st *impl.Tree, wire bool) {
	op := "rt"
	if wire {
		op = "rtw"
	}
	line := fmt.Sprintf("G %s %s %s", specS, op, st.String())
	safely(rep, line, func() {
		class, detail, nontriv := evalRT(spec, st, wire)
		key := ""
		if nontriv {
			key = line
		}
		rep.Case(key)
		if class == "" {
			return
		}
		if wire && class == "unmarshal" {
			// an Unmarshal failure through the wire only counts when the direct round trip
			// fails too (see evalRT): report and shrink it as the direct case
			wire, op = false, "rt"
		}
		small := shrink(st, func(t *impl.Tree) bool {
			c, _, _ := evalRT(spec, t, wire)
			return c == class
		})
		_, d2, _ := evalRT(spec, small, wire)
		if d2 != "" {
			detail = d2
		}
		rop := op
		what := ""
		switch class {
		case "marshal":
			rop = "marshal"
			what = "Marshal rejects a struct of documented Go types"
		case "presence":
			rop = "marshal"
			what = "after Marshal the set fields are not exactly the non-zero / keepzero struct fields"
		case "unmarshal":
			what = "Unmarshal after Marshal fails on a struct of documented Go types"
		case "value":
			rop = op + "v"
			what = "a field does not come back unchanged (up to canonical form) from Marshal + Unmarshal"
		}
		rep.Viol(what, fmt.Sprintf("G %s %s %s", specS, rop, small.String()), detail)
	})
}

// evalUnmarshal: Unmarshal into a struct with prior values writes only fields whose
// message field is set.
func evalUnmarshal(spec *iso8583.MessageSpec, msg, st *impl.Tree) (detail string, nontrivial bool) {
	ptr, ok := impl.GoStructOf(st)
	if !ok {
		return "", false
	}
	before, _ := impl.GoStructOf(st)
	m := iso8583.NewMessage(spec)
	if !impl.SetMsg(m, msg) {
		return "", false
	}
	if err := m.Unmarshal(ptr.Interface()); err != nil {
		return "", false
	}
	all, set := msgGetters(m)
	var first string
	var walk func(b, a reflect.Value, all fieldGetter, set setGetter, message bool, path string)
	walk = func(b, a reflect.Value, all fieldGetter, set setGetter, message bool, path string) {
		for _, in := range structInfo(b.Type(), all, message) {
			bv, av := b.Field(in.idx), a.Field(in.idx)
			var f field.Field
			isSet := false
			if in.spec != nil {
				f, isSet = set(in.a.key)
			}
			if !isSet {
				if !same(bv, av) && first == "" {
					first = fmt.Sprintf("%sstruct field %d (%s): message field not set, yet %s became %s", path, in.idx, in.a.key, impl.GoValTree(bv), impl.GoValTree(av))
				}
				continue
			}
			if c, ok := f.(*field.Composite); ok && bv.Kind() == reflect.Pointer && bv.Type().Elem().Kind() == reflect.Struct &&
				!bv.IsNil() && !av.IsNil() && documentedType(f, bv.Type()) {
				ca, cs := compGetters(c)
				walk(bv.Elem(), av.Elem(), ca, cs, false, path+in.a.key+".")
			}
		}
	}
	walk(before.Elem(), ptr.Elem(), all, set, true, "")
	return first, true
}

func reportUnmarshal(rep *Reporter, specS string, spec *iso8583.MessageSpec, msg, st *impl.Tree) {
	line := fmt.Sprintf("G %s unmarshal %s %s", specS, msg.String(), st.String())
	safely(rep, line, func() {
		detail, nontriv := evalUnmarshal(spec, msg, st)
		key := ""
		if nontriv {
			key = line
		}
		rep.Case(key)
		if detail == "" {
			return
		}
		small := shrink(st, func(t *impl.Tree) bool {
			d, _ := evalUnmarshal(spec, msg, t)
			return d != ""
		})
		if d2, _ := evalUnmarshal(spec, msg, small); d2 != "" {
			detail = d2
		}
		rep.Viol("Unmarshal changed a struct field whose message field is not set",
			fmt.Sprintf("G %s unmarshal %s %s", specS, msg.String(), small.String()), detail)
	})
}

func examineG(rep *Reporter, line string) {
	t := strings.Split(line, " ")
	if len(t) < 4 || t[0] != "G" {
		return
	}
	st, ok := impl.ParseTree(t[1])
	if !ok {
		return
	}
	var spec *iso8583.MessageSpec
	func() {
		defer func() { recover() }()
		spec, ok = impl.MsgSpecOfTree(st)
	}()
	if !ok || spec == nil {
		return
	}
	switch t[2] {
	case "marshal", "rt", "rtw", "rtv", "rtwv":
		if len(t) != 4 {
			return
		}
		sd, ok := impl.ParseTree(t[3])
		if !ok {
			return
		}
		if t[2] != "rtw" && t[2] != "rtwv" {
			reportRT(rep, t[1], spec, sd, false)
		}
		if t[2] != "rt" && t[2] != "rtv" {
			reportRT(rep, t[1], spec, sd, true)
		}
	case "unmarshal":
		if len(t) != 5 {
			return
		}
		mt, ok1 := impl.ParseTree(t[3])
		sd, ok2 := impl.ParseTree(t[4])
		if ok1 && ok2 {
			reportUnmarshal(rep, t[1], spec, mt, sd)
		}
	}
}

func linesC11(lines []string, rep *Reporter) {
	historyReplayLines(lines, rep)
	for _, l := range lines {
		examineG(rep, l)
	}
}

// checkUnmarshalKeepsCallerMemory: a target struct that is filled again. Its members point at slices
// the caller still uses elsewhere (here: two members share one backing array); Unmarshal gives a member
// a new value, it does not write through the old one — a member whose message field is absent, and
// every slice the caller kept from an earlier Unmarshal, stay as they were.
func checkUnmarshalKeepsCallerMemory(rep *Reporter) {
	type target struct {
		F2 *[]byte `iso8583:"2"`
		F3 *[]byte `iso8583:"3"`
	}
	spec := &iso8583.MessageSpec{Name: "m", Fields: map[int]field.Field{
		0: field.NewString(&field.Spec{Length: 4, Description: "MTI", Enc: encoding.ASCII, Pref: prefix.ASCII.Fixed}),
		1: field.NewBitmap(&field.Spec{Length: 8, Description: "Bitmap", Enc: encoding.Binary, Pref: prefix.Binary.Fixed}),
		2: field.NewBinary(&field.Spec{Length: 40, Description: "b2", Enc: encoding.Binary, Pref: prefix.Binary.L}),
		3: field.NewHex(&field.Spec{Length: 40, Description: "h3", Enc: encoding.Binary, Pref: prefix.Binary.L}),
	}}
	for n := 1; n <= 12; n++ {
		line := fmt.Sprintf("G caller-memory unmarshal value-of-%d-bytes", n)
		safely(rep, line, func() {
			m := iso8583.NewMessage(spec)
			m.MTI("0100")
			val := bytes.Repeat([]byte{0xAB}, n)
			if m.BinaryField(2, val) != nil {
				return
			}
			backing := []byte("0123456789abcdefghijklmnopqrstuv")
			a, b := backing[0:1], backing[4:10]
			keptB := append([]byte{}, b...)
			keptAll := append([]byte{}, backing...)
			t := &target{F2: &a, F3: &b}
			rep.Case(line)
			if err := m.Unmarshal(t); err != nil {
				return
			}
			if t.F2 == nil || !bytes.Equal(*t.F2, val) {
				rep.Viol("Unmarshal did not copy the value of a present field into a pre-filled *[]byte member", line, fmt.Sprintf("got %x", t.F2))
				return
			}
			if t.F3 == nil || !bytes.Equal(*t.F3, keptB) || !bytes.Equal(b, keptB) {
				rep.Viol("Unmarshal changed a struct member whose message field is not set (the member shares its backing array with another member)", line,
					fmt.Sprintf("member for the absent field 3 was %q, is %q", keptB, b))
				return
			}
			if !bytes.Equal(backing[1:], keptAll[1:]) && !bytes.Equal(backing[len(val):], keptAll[len(val):]) {
				rep.Viol("Unmarshal wrote into memory the caller still holds (behind the old value of a member)", line,
					fmt.Sprintf("backing array was %q, is %q", keptAll, backing))
			}
		})
	}
}

func runC11(t gen.Tier, r *gen.Rng, rep *Reporter) {
	checkUnmarshalKeepsCallerMemory(rep)
	// what Marshal wrote is what the field holds: two writes through two writers (SetBytes, Unpack, JSON,
	// Marshal of a field / string / bytes / zero value) with a look at the field in between
	{
		gw := gen.NewFieldGen(r)
		for i := 0; i < t.N(1500, 30000); i++ {
			spec := gw.Prim(false)
			if hasNonePrefix(spec) {
				continue
			}
			gw.OutOfDomain = false
			v1, v2 := gw.Value(spec, false), gw.Value(spec, false)
			if gw.OutOfDomain {
				continue
			}
			checkOverwriteHistory(rep, r, spec, v1, v2)
		}
	}
	// the matrix sweep (kind × Go type × value class × keepzero × tag style) and the
	// presence cases on the fixed spec
	seen := map[string]bool{}
	gen.MatrixLines(func(l string) {
		f := strings.Split(l, " ")
		if f[2] == "marshal" { // one evaluation per struct: marshal lines stand for rt + rtw
			if !seen[f[3]] {
				seen[f[3]] = true
				examineG(rep, l)
			}
		} else if f[2] == "unmarshal" {
			examineG(rep, l)
		}
	})
	g := gen.NewFieldGen(r)
	samples := 0
	for i := 0; i < t.N(1200, 12000); i++ {
		specT := g.MsgSpec(r.Intn(4))
		specS := specT.String()
		var spec *iso8583.MessageSpec
		ok := false
		func() {
			defer func() { recover() }()
			spec, ok = impl.MsgSpecOfTree(specT)
		}()
		if !ok {
			continue
		}
		for k := 0; k < 3; k++ {
			sg := &gen.StructGen{G: g, R: r, Documented: true, NoKF4: r.Intn(3) != 0}
			var st *impl.Tree
			if k == 0 {
				st = sg.MsgStruct(specT)
			} else {
				st = sg.MsgStructFromContent(specT, g.Msg(specT))
			}
			reportRT(rep, specS, spec, st, false)
			reportRT(rep, specS, spec, st, true)
			if k == 0 {
				any := &gen.StructGen{G: g, R: r, Documented: false}
				reportUnmarshal(rep, specS, spec, g.Msg(specT), any.MsgStruct(specT))
			}
			if samples < 4 && k == 1 {
				samples++
				rep.Sample(fmt.Sprintf("G %s rtw %s => property holds", specS, st.String()))
			}
		}
	}
}

var _ = bytes.Equal
