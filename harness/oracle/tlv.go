package oracle

// C09 — TLV composites: order-insensitive decode, exact skipping, canonical encode.
// The property statement evaluated on the implementation (never used to claim it):
//
//   - decode: for generated TLV / BER-TLV composite specs (nested templates included) and
//     element lists with pairwise distinct tags, EVERY permutation of the elements (all up to
//     6 elements in the thorough tier, sampled beyond / in the quick tier) unpacks to the same
//     subfield values and consumes exactly prefix + announced composite length, whatever
//     follows the composite;
//   - unknown elements (1-3 byte BER tags or fixed-width tags; short and long-form lengths)
//     inserted at every position: skipping enabled ⇒ same values, consumption grows by exactly
//     tag + length prefix + value; skipping disabled ⇒ an error whose UnpackError.FieldIDs()
//     is exactly that tag; an unknown element whose announced length overruns the composite
//     ⇒ an error (also through SetBytes, also right at the end of the buffer), never a panic;
//   - encode: Pack equals an independent re-implementation: length prefix, then for every set
//     subfield, once, in the order of the spec's sort function, pad+encode(tag) ++ Pack(sub);
//     for each sort function with 2..12 subfields, whatever the population order.
//
// Every check names the protocol line (channel F) that replays it.

import (
	"bytes"
	"encoding/hex"
	"errors"
	"fmt"
	"math/big"
	"strconv"
	"strings"

	iso8583errors "github.com/moov-io/iso8583/errors"
	"github.com/moov-io/iso8583/field"

	"verif/harness/gen"
	"verif/harness/impl"
)

func init() {
	Registry["C09"] = &Oracle{Run: runC09, Lines: linesC09}
}

type tlvElem struct {
	tag      string // the tag as the spec names it
	tagBytes []byte // pad + encode, independent re-implementation
	packed   []byte // the subfield packed on its own
	want     string // value tree of the subfield unpacked on its own
	val      *impl.Tree
}

func (e tlvElem) wire() []byte { return append(append([]byte{}, e.tagBytes...), e.packed...) }

// tlvMode returns the tag spec of a tagged (tags on the wire) composite spec tree.
func tlvMode(spec *impl.Tree) (*impl.Tree, bool) {
	if spec == nil || spec.Name != "c" || len(spec.Kids) < 3 {
		return nil, false
	}
	m := spec.Kids[2]
	if m.Name != "t" || len(m.Kids) != 6 || m.Kids[1].Name == "-" {
		return nil, false
	}
	return m, true
}

func refPad(pad string, b []byte, n int) []byte {
	if len(pad) != 3 || len(b) >= n {
		return b
	}
	c, err := hex.DecodeString(pad[1:])
	if err != nil {
		return b
	}
	fill := bytes.Repeat(c, n-len(b))
	if pad[0] == 'L' {
		return append(fill, b...)
	}
	return append(append([]byte{}, b...), fill...)
}

// refTagBytes: the tag as it travels on the wire (pad to Tag.Length, then encode).
func refTagBytes(mode *impl.Tree, tag string) ([]byte, bool) {
	tlen, _ := strconv.Atoi(mode.Kids[0].Name)
	tenc, tpad := mode.Kids[1].Name, mode.Kids[2].Name
	p := refPad(tpad, []byte(tag), tlen)
	switch tenc {
	case "ascii":
		for _, c := range p {
			if c > 127 {
				return nil, false
			}
		}
		return p, true
	case "bcd":
		for _, c := range p {
			if c < '0' || c > '9' {
				return nil, false
			}
		}
		return refBCD(p, false), true
	case "hexToBytes", "berTag":
		b, err := hex.DecodeString(string(p))
		return b, err == nil
	case "ebcdic":
		out := make([]byte, len(p))
		for i, c := range p {
			e, ok := ebcdicRef[c]
			if !ok {
				return nil, false
			}
			out[i] = e
		}
		return out, true
	}
	return nil, false
}

// independent comparators for coherent (K6) tag sets
func refLess(kind, a, b string) bool {
	switch kind {
	case "int":
		x, ok1 := new(big.Int).SetString(a, 10)
		y, ok2 := new(big.Int).SetString(b, 10)
		if ok1 && ok2 && digitsOnly(a) && digitsOnly(b) {
			return x.Cmp(y) < 0
		}
	case "hex":
		x, err1 := hex.DecodeString(a)
		y, err2 := hex.DecodeString(b)
		if err1 == nil && err2 == nil {
			return new(big.Int).SetBytes(x).Cmp(new(big.Int).SetBytes(y)) < 0
		}
	}
	return a < b
}

func digitsOnly(s string) bool {
	if s == "" {
		return false
	}
	for _, c := range []byte(s) {
		if c < '0' || c > '9' {
			return false
		}
	}
	return true
}

func refSort(kind string, tags []string) []string {
	out := append([]string{}, tags...)
	for i := 1; i < len(out); i++ {
		for j := i; j > 0 && refLess(kind, out[j], out[j-1]); j-- {
			out[j], out[j-1] = out[j-1], out[j]
		}
	}
	return out
}

func refBerLen(n int, extraBytes int) []byte {
	if n < 128 && extraBytes == 0 {
		return []byte{byte(n)}
	}
	var be []byte
	for v := n; v > 0; v >>= 8 {
		be = append([]byte{byte(v)}, be...)
	}
	if len(be) == 0 {
		be = []byte{0}
	}
	for i := 0; i < extraBytes; i++ { // non-minimal long form
		be = append([]byte{0}, be...)
	}
	return append([]byte{0x80 | byte(len(be))}, be...)
}

// refLenPrefix: the length prefix of an unknown element for the prefixer used for skipping.
func refLenPrefix(pref string, n int, variant int) ([]byte, bool) {
	switch pref {
	case "ber":
		return refBerLen(n, variant), true
	case "ascii.2":
		if n > 99 {
			return nil, false
		}
		return []byte(fmt.Sprintf("%02d", n)), true
	case "ascii.3":
		if n > 999 {
			return nil, false
		}
		return []byte(fmt.Sprintf("%03d", n)), true
	case "bcd.2":
		if n > 99 {
			return nil, false
		}
		return refBCD([]byte(fmt.Sprintf("%02d", n)), false), true
	case "binary.1":
		if n > 255 {
			return nil, false
		}
		return []byte{byte(n)}, true
	}
	return nil, false
}

// setVal populates a field; `c()` is a composite with no subfield set
func setVal(f field.Field, v *impl.Tree) bool {
	if v.Name == "c()" {
		_, ok := f.(*field.Composite)
		return ok
	}
	return impl.SetValue(f, v)
}

func fieldIDs(err error) []string {
	var ue *iso8583errors.UnpackError
	if !errors.As(err, &ue) {
		return nil
	}
	return ue.FieldIDs()
}

func specWith(spec *impl.Tree, skip, pu string) *impl.Tree {
	cp := *spec
	cp.Kids = append([]*impl.Tree{}, spec.Kids...)
	m := *spec.Kids[2]
	m.Kids = append([]*impl.Tree{}, spec.Kids[2].Kids...)
	m.Kids[4] = impl.A(skip)
	m.Kids[5] = impl.A(pu)
	cp.Kids[2] = &m
	return &cp
}

// buildElems packs the chosen subfields on their own (library) and encodes their tags
// (independently); elements whose subfield does not round-trip on its own are left out
// (that is C01's business, not C09's).
func buildElems(g *gen.FieldGen, spec, mode *impl.Tree, maxElems int) []tlvElem {
	subs := spec.Kids[3:]
	order := g.R.Intn(len(subs) + 1)
	var out []tlvElem
	for i := range subs {
		s := subs[(i+order)%len(subs)]
		if len(out) >= maxElems {
			break
		}
		if g.R.Intn(5) == 0 && len(subs) > 2 {
			continue
		}
		tag, ss := s.Kids[0].Name, s.Kids[1]
		tb, ok := refTagBytes(mode, tag)
		if !ok {
			continue
		}
		v := g.Value(ss, false)
		var packed []byte
		var want string
		good := false
		func() {
			defer func() { recover() }()
			f, ok := impl.FieldOfTree(ss)
			if !ok || !setVal(f, v) {
				return
			}
			p, err := f.Pack()
			if err != nil {
				return
			}
			f2, _ := impl.FieldOfTree(ss)
			n, err := f2.Unpack(append(append([]byte{}, p...), 0x31, 0xFF))
			if err != nil || n != len(p) {
				return
			}
			packed, want, good = p, impl.ValueTree(f2).String(), true
		}()
		if good {
			out = append(out, tlvElem{tag: tag, tagBytes: tb, packed: packed, want: want, val: v})
		}
	}
	return out
}

func wantTree(sortKind string, elems []tlvElem) string {
	if len(elems) == 0 {
		return "c()"
	}
	byTag := map[string]string{}
	var tags []string
	for _, e := range elems {
		byTag[e.tag] = e.want
		tags = append(tags, e.tag)
	}
	var parts []string
	for _, t := range refSort(sortKind, tags) {
		parts = append(parts, "kv("+t+","+byTag[t]+")")
	}
	return "c(" + strings.Join(parts, ",") + ")"
}

func compPrefix(spec *impl.Tree, n int) ([]byte, bool) {
	p := impl.Prefixer(spec.Kids[1].Name)
	if p == nil {
		return nil, false
	}
	length, _ := strconv.Atoi(spec.Kids[0].Name)
	var out []byte
	ok := false
	func() {
		defer func() { recover() }()
		b, err := p.EncodeLength(length, n)
		if err == nil {
			out, ok = b, true
		}
	}()
	return out, ok
}

var tlvStats = map[string]int{}

var tlvTails = [][]byte{nil, {0x31}, {0xFF, 0x00, 0x9F, 0x02}}

// checkUnpackOK: `data` = prefix ++ body ++ tail must unpack to `want`, reading `wantRead`.
func checkUnpackOK(rep *Reporter, spec *impl.Tree, data []byte, want string, wantRead int, what string) bool {
	line := fmt.Sprintf("F %s unpack %s", spec.String(), gen.H(data))
	okAll := true
	safely(rep, line, func() {
		f, ok := impl.FieldOfTree(spec)
		if !ok {
			return
		}
		rep.Case(line)
		read, err := f.Unpack(append([]byte{}, data...))
		if err != nil {
			okAll = false
			rep.Viol(what+": Unpack fails", line, err.Error())
			return
		}
		if read != wantRead {
			okAll = false
			rep.Viol(what+": Unpack did not consume exactly prefix + announced composite length", line,
				fmt.Sprintf("read %d, expected %d", read, wantRead))
		}
		if got := impl.ValueTree(f).String(); got != want {
			okAll = false
			rep.Viol(what+": subfield values differ", line, fmt.Sprintf("got %s expected %s", got, want))
		}
	})
	return okAll
}

// checkUnpackErr: must fail; wantIDs != nil ⇒ UnpackError.FieldIDs() must be exactly that.
func checkUnpackErr(rep *Reporter, spec *impl.Tree, data []byte, wantIDs []string, what string) {
	line := fmt.Sprintf("F %s unpack %s", spec.String(), gen.H(data))
	safely(rep, line, func() {
		f, ok := impl.FieldOfTree(spec)
		if !ok {
			return
		}
		rep.Case(line)
		read, err := f.Unpack(append([]byte{}, data...))
		if err == nil {
			rep.Viol(what+": accepted", line, fmt.Sprintf("read %d value %s", read, impl.ValueTree(f).String()))
			return
		}
		if wantIDs != nil {
			got := fieldIDs(err)
			if strings.Join(got, "/") != strings.Join(wantIDs, "/") || len(got) != len(wantIDs) {
				rep.Viol(what+": the error does not name the tag (UnpackError.FieldIDs)", line,
					fmt.Sprintf("FieldIDs=%q expected %q (%v)", got, wantIDs, err))
			}
		}
	})
}

// checkSetBytesErr: Composite.SetBytes on a body (no prefix) must fail.
func checkSetBytesErr(rep *Reporter, spec *impl.Tree, body []byte, replayData []byte, what string) {
	line := fmt.Sprintf("F %s unpack %s", spec.String(), gen.H(replayData))
	safely(rep, line, func() {
		f, ok := impl.FieldOfTree(spec)
		if !ok {
			return
		}
		c, ok := f.(*field.Composite)
		if !ok {
			return
		}
		rep.Case(line + " setbytes")
		if err := c.SetBytes(append([]byte{}, body...)); err == nil {
			rep.Viol(what+": accepted by SetBytes", line, fmt.Sprintf("SetBytes(%x) returned nil; value %s", body, impl.ValueTree(f).String()))
		}
	})
}

func concatElems(elems []tlvElem, order []int) []byte {
	var b []byte
	for _, i := range order {
		b = append(b, elems[i].wire()...)
	}
	return b
}

func permutations(n int, f func([]int) bool) {
	idx := make([]int, n)
	for i := range idx {
		idx[i] = i
	}
	var rec func(k int) bool
	rec = func(k int) bool {
		if k == n {
			return f(idx)
		}
		for i := k; i < n; i++ {
			idx[k], idx[i] = idx[i], idx[k]
			if !rec(k + 1) {
				return false
			}
			idx[k], idx[i] = idx[i], idx[k]
		}
		return true
	}
	rec(0)
}

func randPerm(r *gen.Rng, n int) []int {
	idx := make([]int, n)
	for i := range idx {
		idx[i] = i
	}
	for i := n - 1; i > 0; i-- {
		j := r.Intn(i + 1)
		idx[i], idx[j] = idx[j], idx[i]
	}
	return idx
}

// checkPerms: every (or a sample of the) orderings of the elements.
func checkPerms(rep *Reporter, t gen.Tier, r *gen.Rng, spec *impl.Tree, sortKind string, elems []tlvElem) {
	k := len(elems)
	body0 := concatElems(elems, randPerm(r, k))
	pre, ok := compPrefix(spec, len(body0))
	if !ok {
		return
	}
	want := wantTree(sortKind, elems)
	one := func(order []int) bool {
		body := concatElems(elems, order)
		tail := tlvTails[r.Intn(len(tlvTails))]
		data := append(append(append([]byte{}, pre...), body...), tail...)
		return checkUnpackOK(rep, spec, data, want, len(pre)+len(body), fmt.Sprintf("permutation %v of %d TLV elements", order, k))
	}
	exhaustive := k <= t.N(4, 6)
	if exhaustive {
		tlvStats[fmt.Sprintf("element lists of %02d elements, all permutations", k)]++
		permutations(k, func(o []int) bool { return one(o) })
		return
	}
	tlvStats[fmt.Sprintf("element lists of %02d elements, sampled permutations", k)]++
	for i := 0; i < t.N(24, 200); i++ {
		if !one(randPerm(r, k)) {
			return
		}
	}
}

type unknownTag struct {
	name string // as FieldIDs reports it
	wire []byte
}

func specTagSet(spec *impl.Tree) map[string]bool {
	m := map[string]bool{}
	for _, s := range spec.Kids[3:] {
		m[s.Kids[0].Name] = true
	}
	return m
}

// unknownTags: tags the spec does not define, in the spec's tag format.
func unknownTags(r *gen.Rng, spec, mode *impl.Tree, n int) []unknownTag {
	have := specTagSet(spec)
	tenc := mode.Kids[1].Name
	tlen, _ := strconv.Atoi(mode.Kids[0].Name)
	var out []unknownTag
	add := func(name string) {
		if have[name] {
			return
		}
		for _, u := range out {
			if u.name == name {
				return
			}
		}
		if w, ok := refTagBytes(mode, name); ok {
			out = append(out, unknownTag{name, w})
		}
	}
	if tenc == "berTag" {
		fixed := [][]byte{{0x5A}, {0xC1}, {0x00}, {0x9E}, {0x9F, 0x02}, {0x5F, 0x2A}, {0xDF, 0x7F}, {0x9F, 0x81, 0x01}, {0xDF, 0xFF, 0x7F}, {0x1F, 0x80, 0x00}}
		start := r.Intn(len(fixed))
		for i := 0; i < len(fixed) && len(out) < n; i++ {
			add(strings.ToUpper(hex.EncodeToString(fixed[(start+i)%len(fixed)])))
		}
		for tries := 0; tries < 50 && len(out) < n; tries++ {
			first := byte(r.U64())
			var tb []byte
			if first&0x1F != 0x1F {
				tb = []byte{first}
			} else {
				tb = []byte{first}
				for k := r.Intn(2); k > 0; k-- {
					tb = append(tb, byte(r.U64())|0x80)
				}
				tb = append(tb, byte(r.U64())&0x7F)
			}
			add(strings.ToUpper(hex.EncodeToString(tb)))
		}
		return out
	}
	var alpha []byte
	width := tlen
	switch tenc {
	case "bcd":
		alpha = []byte("0123456789")
	case "hexToBytes":
		alpha, width = []byte("0123456789ABCDEF"), 2*tlen
	default:
		alpha = []byte("0123456789ABCXYZabcQ")
	}
	padC := byte(0)
	if p := mode.Kids[2].Name; len(p) == 3 && (p[0] == 'L' || p[0] == 'R') {
		if b, err := hex.DecodeString(p[1:]); err == nil {
			padC = b[0]
		}
	}
	for tries := 0; tries < 200 && len(out) < n; tries++ {
		name := r.From(alpha, width)
		if padC != 0 && (name[0] == padC || name[len(name)-1] == padC) {
			continue
		}
		add(string(name))
	}
	return out
}

type lenShape struct {
	n       int
	variant int // BER: extra leading zero bytes of a long form (0 = minimal / short form)
}

func skipShapes(pu string, t gen.Tier, r *gen.Rng) []lenShape {
	if pu == "ber" {
		all := []lenShape{{0, 0}, {1, 0}, {5, 0}, {127, 0}, {128, 0}, {200, 0}, {255, 0}, {256, 0}, {300, 0}, {5, 1}, {0, 1}, {3, 2}, {130, 1}}
		if t.Thorough {
			return all
		}
		return []lenShape{all[r.Intn(4)], all[4+r.Intn(5)], all[9+r.Intn(4)]}
	}
	all := []lenShape{{0, 0}, {1, 0}, {9, 0}, {10, 0}, {42, 0}, {99, 0}, {100, 0}, {255, 0}, {999, 0}}
	if t.Thorough {
		return all
	}
	return []lenShape{all[r.Intn(3)], all[3+r.Intn(3)], all[6+r.Intn(3)]}
}

// checkUnknown: unknown elements at every position, skipping on and off, overruns.
func checkUnknown(rep *Reporter, t gen.Tier, r *gen.Rng, spec, mode *impl.Tree, sortKind string, elems []tlvElem) {
	k := len(elems)
	order := randPerm(r, k)
	isBer := mode.Kids[1].Name == "berTag"
	pu := mode.Kids[5].Name
	skipPu := pu // the prefixer used for skipping when it is on
	if isBer && pu == "-" {
		skipPu = "ber"
	}
	if !isBer && pu == "-" {
		skipPu = gen.Pick(r, []string{"ascii.2", "bcd.2", "binary.1", "ber", "ascii.3"})
	}
	onPu := pu
	if !isBer {
		onPu = skipPu
	}
	if isBer && pu == "-" && r.Intn(2) == 0 {
		// BER tags with an explicit, non-BER length coding for unknown elements
		// (Tag.PrefUnknownTLV takes precedence over the BER default)
		skipPu = gen.Pick(r, []string{"ascii.2", "bcd.2", "binary.1", "binary.2", "ascii.3"})
		onPu = skipPu
	}
	specOn := specWith(spec, "1", onPu)
	specOff := specWith(spec, "0", pu)
	// skipUnknown set but neither BER tags nor PrefUnknownTLV: skipping is NOT in force
	var specHalf *impl.Tree
	if !isBer {
		specHalf = specWith(spec, "1", "-")
	}
	want := wantTree(sortKind, elems)
	unk := unknownTags(r, spec, mode, t.N(2, 4))
	for _, u := range unk {
		for p := 0; p <= k; p++ {
			before := concatElems(elems, order[:p])
			after := concatElems(elems, order[p:])
			// --- well-formed unknown element
			for _, sh := range skipShapes(skipPu, t, r) {
				lp, ok := refLenPrefix(skipPu, sh.n, sh.variant)
				if !ok {
					continue
				}
				val := r.Bytes(sh.n)
				el := append(append(append([]byte{}, u.wire...), lp...), val...)
				body := append(append(append([]byte{}, before...), el...), after...)
				pre, ok := compPrefix(spec, len(body))
				if !ok {
					continue
				}
				tail := tlvTails[r.Intn(len(tlvTails))]
				data := append(append(append([]byte{}, pre...), body...), tail...)
				tlvStats["unknown elements inserted ("+mode.Kids[1].Name+" tags, "+skipPu+" lengths)"]++
				checkUnpackOK(rep, specOn, data, want, len(pre)+len(body),
					fmt.Sprintf("unknown element %s (length %d, %d prefix bytes) at position %d with skipping enabled", u.name, sh.n, len(lp), p))
				checkUnpackErr(rep, specOff, data, []string{u.name},
					fmt.Sprintf("unknown element %s at position %d with skipping disabled", u.name, p))
				if specHalf != nil {
					checkUnpackErr(rep, specHalf, data, []string{u.name},
						fmt.Sprintf("unknown element %s at position %d, SkipUnknownTLVTags without BER tags or PrefUnknownTLV", u.name, p))
				}
			}
			// --- announced length overruns the composite (the bytes that follow exist: tail)
			room := len(after)
			overs := []int{room + 1, room + 2, room + 1 + r.Intn(40), 1 << 31, 1<<63 - 1}
			for _, n := range overs {
				var lp []byte
				ok := false
				if skipPu == "ber" {
					lp, ok = refBerLen(n, 0), true
				} else {
					lp, ok = refLenPrefix(skipPu, n, 0)
				}
				if !ok {
					continue
				}
				body := append(append(append(append([]byte{}, before...), u.wire...), lp...), after...)
				pre, ok := compPrefix(spec, len(body))
				if !ok {
					continue
				}
				tail := bytes.Repeat([]byte{0x30}, 48)
				data := append(append(append([]byte{}, pre...), body...), tail...)
				what := fmt.Sprintf("unknown element %s at position %d announcing %d bytes where %d remain in the composite", u.name, p, n, room)
				tlvStats["overrunning unknown elements"]++
				checkUnpackErr(rep, specOn, data, []string{u.name}, what)
				checkSetBytesErr(rep, specOn, body, data, what)
			}
			// --- length fields that overflow an int, or are cut off by the end of the composite
			var bad [][]byte
			if skipPu == "ber" {
				bad = append(bad, []byte{0x88, 0x80, 0, 0, 0, 0, 0, 0, 0}, []byte{0x88, 0xFF, 0xFF, 0xFF, 0xFF, 0xFF, 0xFF, 0xFF, 0xFF})
			}
			if len(after) == 0 {
				if full, ok := refLenPrefix(skipPu, 5, 1); ok {
					for c := 0; c < len(full); c++ {
						bad = append(bad, full[:c])
					}
				}
			}
			for _, lp := range bad {
				body := append(append(append(append([]byte{}, before...), u.wire...), lp...), after...)
				pre, ok := compPrefix(spec, len(body))
				if !ok {
					continue
				}
				data := append(append(append([]byte{}, pre...), body...), bytes.Repeat([]byte{0x30}, 16)...)
				what := fmt.Sprintf("unknown element %s at position %d with a length field (%x) that overflows or is cut off by the end of the composite", u.name, p, lp)
				checkUnpackErr(rep, specOn, data, nil, what)
				checkSetBytesErr(rep, specOn, body, data, what)
			}
		}
	}
}

// checkPack: Pack against the independent re-implementation.
func checkPack(rep *Reporter, spec, mode, v *impl.Tree) {
	line := fmt.Sprintf("F %s pack %s", spec.String(), v.String())
	safely(rep, line, func() {
		f, ok := impl.FieldOfTree(spec)
		if !ok || !setVal(f, v) {
			return
		}
		got, err := f.Pack()
		// reference
		subSpec := map[string]*impl.Tree{}
		for _, s := range spec.Kids[3:] {
			subSpec[s.Kids[0].Name] = s.Kids[1]
		}
		vals := map[string]*impl.Tree{}
		var tags []string
		for _, kv := range v.Kids {
			if _, dup := vals[kv.Kids[0].Name]; !dup {
				tags = append(tags, kv.Kids[0].Name)
			}
			vals[kv.Kids[0].Name] = kv.Kids[1]
		}
		var body []byte
		refOK := true
		for _, tg := range refSort(mode.Kids[3].Name, tags) {
			tb, ok := refTagBytes(mode, tg)
			sf, ok2 := impl.FieldOfTree(subSpec[tg])
			if !ok || !ok2 || !setVal(sf, vals[tg]) {
				refOK = false
				break
			}
			p, e := sf.Pack()
			if e != nil {
				refOK = false
				break
			}
			body = append(append(body, tb...), p...)
		}
		var pre []byte
		if refOK {
			pre, refOK = compPrefix(spec, len(body))
		}
		if !refOK {
			rep.Case("")
			if err == nil {
				rep.Viol("Pack succeeded although a set subfield or the length prefix can not be packed", line, fmt.Sprintf("%x", got))
			}
			return
		}
		rep.Case(line)
		tlvStats[fmt.Sprintf("pack cases sort=%s", mode.Kids[3].Name)]++
		if err != nil {
			rep.Viol("Pack fails although every set subfield packs and the length is representable", line, err.Error())
			return
		}
		wantB := append(append([]byte{}, pre...), body...)
		if !bytes.Equal(got, wantB) {
			rep.Viol("Pack is not prefix ++ (pad+encode(tag) ++ Pack(subfield)) for each set subfield once, in sort order", line,
				fmt.Sprintf("got %x expected %x (order %v)", got, wantB, refSort(mode.Kids[3].Name, tags)))
		}
		rep.Sample(line + " => " + gen.H(got))
	})
}

// sortedSpec builds a tagged composite for one sort function with n subfields.
func sortedSpec(g *gen.FieldGen, kind string, n int) *impl.Tree {
	r := g.R
	A, N := impl.A, impl.N
	tags := map[string]bool{}
	var mode *impl.Tree
	skip, pu := "0", "-"
	if r.Bool() {
		skip, pu = "1", gen.Pick(r, []string{"ascii.2", "bcd.2", "binary.1", "ber", "ascii.3"})
	}
	switch kind {
	case "int":
		switch r.Intn(3) {
		case 0: // canonical decimals, left-padded with '0' on the wire (ASCII)
			for len(tags) < n {
				tags[strconv.Itoa(1+r.Intn(300))] = true
			}
			mode = N("t", A("3"), A("ascii"), A("L30"), A("int"), A(skip), A(pu))
		case 1: // canonical decimals, BCD tags
			for len(tags) < n {
				tags[strconv.Itoa(1+r.Intn(9999))] = true
			}
			mode = N("t", A("4"), A("bcd"), A("L30"), A("int"), A(skip), A(pu))
		default: // decimals of one width
			for len(tags) < n {
				tags[string(r.From([]byte("0123456789"), 2))] = true
			}
			mode = N("t", A("2"), A(gen.Pick(r, []string{"ascii", "ebcdic", "bcd"})), A("nil"), A("int"), A(skip), A(pu))
		}
	case "hex":
		if r.Bool() {
			l := 1 + r.Intn(3)
			for len(tags) < n {
				tags[strings.ToUpper(hex.EncodeToString(r.Bytes(l)))] = true
			}
			if l == 1 && n > 200 {
				n = 200
			}
			mode = N("t", A(strconv.Itoa(l)), A("hexToBytes"), A("nil"), A("hex"), A(skip), A(pu))
		} else {
			for len(tags) < n {
				first := byte(r.U64())
				var tb []byte
				if r.Bool() {
					first &^= 0x1F
					first |= byte(r.Intn(31))
					tb = []byte{first}
				} else {
					tb = []byte{first | 0x1F}
					for k := r.Intn(2); k > 0; k-- {
						tb = append(tb, byte(r.U64())|0x80)
					}
					tb = append(tb, byte(r.U64())&0x7F)
				}
				tags[strings.ToUpper(hex.EncodeToString(tb))] = true
			}
			bskip := "0"
			if r.Bool() {
				bskip = "1"
			}
			mode = N("t", A("0"), A("berTag"), A("nil"), A("hex"), A(bskip), A("-"))
		}
	default:
		if r.Bool() { // variable-width tags, right-padded with blanks
			for len(tags) < n {
				tags[string(r.From([]byte("0123456789ABCXYZabc"), 1+r.Intn(3)))] = true
			}
			mode = N("t", A("3"), A(gen.Pick(r, []string{"ascii", "ebcdic"})), A("R20"), A("str"), A(skip), A(pu))
		} else {
			for len(tags) < n {
				tags[string(r.From([]byte("0123456789ABCXYZabc"), 2))] = true
			}
			mode = N("t", A("2"), A(gen.Pick(r, []string{"ascii", "ebcdic"})), A("nil"), A("str"), A(skip), A(pu))
		}
	}
	// K6: StringsByInt (used for JSON whatever the sort) must be a strict order too: digit-only
	// tags canonical or of one width
	var keys []string
	for k := range tags {
		keys = append(keys, k)
	}
	keys = refSort("str", keys)
	if kind == "str" {
		w := -1
		var kept []string
		for _, k := range keys {
			if digitsOnly(k) {
				if w == -1 {
					w = len(k)
				}
				if len(k) != w {
					continue
				}
			}
			kept = append(kept, k)
		}
		keys = kept
	}
	for i := len(keys) - 1; i > 0; i-- {
		j := r.Intn(i + 1)
		keys[i], keys[j] = keys[j], keys[i]
	}
	kids := []*impl.Tree{A("9999"), A(gen.Pick(r, []string{"ascii.4", "binary.2", "bcd.4", "ebcdic.4", "ber"})), mode}
	for _, k := range keys {
		var sf *impl.Tree
		if r.Intn(5) == 0 {
			sf = g.Comp(1, false)
		} else {
			sf = g.Prim(false)
		}
		kids = append(kids, N("sub", A(k), sf))
	}
	return N("c", kids...)
}

func tlvSpec(g *gen.FieldGen, depth int) (*impl.Tree, *impl.Tree) {
	for tries := 0; tries < 200; tries++ {
		spec := g.Comp(depth, false)
		if mode, ok := tlvMode(spec); ok {
			return spec, mode
		}
	}
	return nil, nil
}

// checkSetBytes: what Bytes() of a populated composite returns is accepted by SetBytes of a new
// composite of the spec and yields the same subfields as unpacking the packed field does (the
// composite's own declared maximum, if any, is the one Pack just enforced).
func checkSetBytes(rep *Reporter, spec, v *impl.Tree) {
	line := fmt.Sprintf("F %s pack %s #then-SetBytes(Bytes())", spec.String(), v.String())
	safely(rep, line, func() {
		f1, ok := impl.FieldOfTree(spec)
		if !ok || !setVal(f1, v) {
			return
		}
		packed, err := f1.Pack()
		if err != nil {
			return
		}
		c1 := f1.(*field.Composite)
		body, err := c1.Bytes()
		if err != nil {
			return
		}
		f2, _ := impl.FieldOfTree(spec)
		if _, err := f2.Unpack(packed); err != nil {
			return
		}
		f3, _ := impl.FieldOfTree(spec)
		c3 := f3.(*field.Composite)
		rep.Case(line)
		if err := c3.SetBytes(body); err != nil {
			rep.Viol("SetBytes rejects the bytes Bytes() of a composite of the same spec returned", line, fmt.Sprintf("body %x: %v", body, err))
			return
		}
		if a, b := impl.ValueTree(f2).String(), impl.ValueTree(c3).String(); a != b {
			rep.Viol("SetBytes(Bytes()) yields other subfields than Unpack(Pack())", line, fmt.Sprintf("Unpack: %s SetBytes: %s", a, b))
		}
	})
}

// checkDerivedSpec: a spec derived from one that is already in use - a copy of the *field.Spec
// struct with a subfield removed - packs its own subfields in its own order, exactly like the
// same spec written out from scratch.
func checkDerivedSpec(rep *Reporter, g *gen.FieldGen, spec *impl.Tree) {
	if len(spec.Kids) < 5 {
		return
	}
	base, ok := impl.FieldOfTree(spec)
	if !ok {
		return
	}
	_ = setVal(base, g.Value(spec, false))
	_, _ = base.Pack() // the base spec has been used
	drop := 3 + g.R.Intn(len(spec.Kids)-3)
	derivedT := &impl.Tree{Name: spec.Name}
	for i, k := range spec.Kids {
		if i != drop {
			derivedT.Kids = append(derivedT.Kids, k)
		}
	}
	v := g.Value(derivedT, false)
	line := fmt.Sprintf("F %s pack %s #spec-derived-by-struct-copy-from %s", derivedT.String(), v.String(), spec.String())
	safely(rep, line, func() {
		cp := *base.Spec()
		cp.Subfields = map[string]field.Field{}
		for k, sf := range base.Spec().Subfields {
			if k != spec.Kids[drop].Kids[0].Name {
				cp.Subfields[k] = sf
			}
		}
		derived := field.NewComposite(&cp)
		scratch, ok := impl.FieldOfTree(derivedT)
		if !ok || !setVal(derived, v) || !setVal(scratch, v) {
			return
		}
		p1, e1 := derived.Pack()
		p2, e2 := scratch.Pack()
		rep.Case(line)
		if (e1 == nil) != (e2 == nil) || !bytes.Equal(p1, p2) {
			rep.Viol("a spec derived by copying a used spec and removing a subfield packs differently from the same spec written from scratch", line,
				fmt.Sprintf("derived: %x %v | from scratch: %x %v", p1, e1, p2, e2))
		}
	})
}

func examineSpec(rep *Reporter, t gen.Tier, g *gen.FieldGen, spec, mode *impl.Tree, maxElems int) {
	checkSetBytes(rep, spec, g.Value(spec, false))
	checkDerivedSpec(rep, g, spec)
	r := g.R
	sortKind := mode.Kids[3].Name
	elems := buildElems(g, spec, mode, maxElems)
	checkPerms(rep, t, r, spec, sortKind, elems)
	if len(elems) > 4 {
		elems = elems[:4]
	}
	checkUnknown(rep, t, r, spec, mode, sortKind, elems)
	for i := 0; i < 2; i++ {
		checkPack(rep, spec, mode, g.Value(spec, false))
	}
}

func runC09(t gen.Tier, r *gen.Rng, rep *Reporter) {
	g := gen.NewFieldGen(r)
	// generated TLV / BER-TLV specs, nested templates included
	for i := 0; i < t.N(500, 2500); i++ {
		spec, mode := tlvSpec(g, 1+r.Intn(3))
		if spec == nil {
			continue
		}
		examineSpec(rep, t, g, spec, mode, 7)
	}
	// wide composites: 5 and 6 (and more) elements, all their orderings
	for i := 0; i < t.N(40, 250); i++ {
		var spec, mode *impl.Tree
		for tries := 0; tries < 60; tries++ {
			s, m := tlvSpec(g, 1+r.Intn(2))
			if s != nil && len(s.Kids)-3 >= 5 {
				spec, mode = s, m
				break
			}
		}
		if spec == nil {
			continue
		}
		elems := buildElems(g, spec, mode, 5+r.Intn(2))
		checkPerms(rep, t, r, spec, mode.Kids[3].Name, elems)
	}
	// each sort function with 2..12 subfields (padded tags included)
	for _, kind := range []string{"str", "int", "hex"} {
		for n := 2; n <= 12; n++ {
			for rep_ := 0; rep_ < t.N(2, 12); rep_++ {
				spec := sortedSpec(g, kind, n)
				mode, ok := tlvMode(spec)
				if !ok {
					continue
				}
				for i := 0; i < 3; i++ {
					checkPack(rep, spec, mode, g.Value(spec, false))
				}
				if rep_ == 0 || t.Thorough && rep_%3 == 0 {
					examineSpec(rep, t, g, spec, mode, 6)
				}
			}
		}
	}
	for k, v := range g.Dist {
		if strings.HasPrefix(k, "comp ") {
			rep.Stat("dist "+k, v)
		}
	}
	for k, v := range tlvStats {
		rep.Stat(k, v)
	}
	// a composite object that rejected an input earlier (nested templates half decoded)
	for i := 0; i < t.N(300, 6000); i++ {
		checkNestedReuse(rep, g, r)
	}
}

// linesC09 re-examines the property around given channel-F lines (correspondence
// differences): the pack statement at that spec/value, and the decode statements at that
// spec with values derived deterministically from the line.
func linesC09(lines []string, rep *Reporter) {
	for _, l := range lines {
		tk := strings.Split(l, " ")
		if len(tk) != 4 || tk[0] != "F" {
			continue
		}
		spec, ok := impl.ParseTree(tk[1])
		if !ok {
			continue
		}
		mode, ok := tlvMode(spec)
		if !ok {
			// a tagged composite nested somewhere below?
			spec, mode = findTagged(spec)
			if spec == nil {
				continue
			}
		}
		var seed uint64 = 1469598103934665603
		for _, c := range []byte(l) {
			seed = (seed ^ uint64(c)) * 1099511628211
		}
		g := gen.NewFieldGen(gen.NewRng(seed))
		if tk[2] == "pack" {
			if v, ok := impl.ParseTree(tk[3]); ok && (v.Name == "c" || v.Name == "c()") {
				if spec.String() == tk[1] {
					checkPack(rep, spec, mode, v)
					checkPackThenUnpack(rep, spec, v)
				} else if whole, ok := impl.ParseTree(tk[1]); ok {
					// the tagged composite sits below: examine it with the value the line gives it
					if ns, nm, nv := nestedTagged(whole, v); ns != nil {
						checkPack(rep, ns, nm, nv)
						checkPackThenUnpack(rep, ns, nv)
					}
				}
			}
		}
		examineSpec(rep, gen.Tier{}, g, spec, mode, 5)
	}
}

// checkPackThenUnpack: what Pack emits for a tagged composite is consumed completely by Unpack
// (whatever follows) and holds the same subfields (compared through their re-packed bytes).
func checkPackThenUnpack(rep *Reporter, spec, v *impl.Tree) {
	line := fmt.Sprintf("F %s pack %s", spec.String(), v.String())
	safely(rep, line, func() {
		f, ok := impl.FieldOfTree(spec)
		if !ok || !setVal(f, v) {
			return
		}
		data, err := f.Pack()
		if err != nil {
			return
		}
		rep.Case(line + " #unpack")
		f2, _ := impl.FieldOfTree(spec)
		n, uerr := f2.Unpack(append(append([]byte{}, data...), 0x31, 0x32, 0x33))
		if uerr != nil {
			rep.Viol("Unpack rejects the tagged composite Pack produced", line, uerr.Error())
			return
		}
		if n != len(data) {
			rep.Viol("Unpack of a packed tagged composite does not consume exactly the announced composite", line,
				fmt.Sprintf("consumed %d of %d bytes", n, len(data)))
			return
		}
		if again, err := f2.Pack(); err != nil || !bytes.Equal(again, data) {
			rep.Viol("a tagged composite unpacked from its own packed form holds other subfield values", line,
				fmt.Sprintf("packed %x, unpacked and packed again %x (err %v)", data, again, err))
		}
	})
}

func findTagged(t *impl.Tree) (*impl.Tree, *impl.Tree) {
	if t == nil {
		return nil, nil
	}
	if m, ok := tlvMode(t); ok {
		return t, m
	}
	for _, k := range t.Kids {
		if s, m := findTagged(k); s != nil {
			return s, m
		}
	}
	return nil, nil
}
