package oracle

// Directed cases derived from correspondence differences in the layers below a property: a
// length prefix on which model and implementation differ is put to work inside a field (and,
// for BER lengths, inside a TLV element), so that the property's own oracle examines the
// implementation at exactly that length.

import (
	"fmt"
	"strconv"
	"strings"

	"verif/harness/impl"
)

// derivedFieldLines: for every `P <pref> enc <max> <n>` / `P <pref> dec …` line (a prefixer
// on which the two sides differ) `F … pack …` lines of a Binary field (and a one-element
// BER-TLV composite) whose value is n bytes long.
func derivedFieldLines(lines []string) []string {
	var out []string
	seen := map[string]bool{}
	for _, l := range lines {
		t := strings.Split(l, " ")
		if len(t) != 5 || t[0] != "P" || t[2] != "enc" {
			continue
		}
		pref := t[1]
		if impl.Prefixer(pref) == nil || pref == "none" {
			continue
		}
		n, err := strconv.Atoi(t[4])
		if err != nil || n < 0 || n > 1<<18 || seen[pref+t[4]] || len(seen) > 12 {
			continue
		}
		seen[pref+t[4]] = true
		max := n
		if pref == "ber" {
			max = 0
		}
		val := "b(" + impl.Hex(bytesOf(n)) + ")"
		if n == 0 {
			val = "b(-)"
		}
		out = append(out, fmt.Sprintf("F p(b,%d,binary,%s,nil,d) pack %s", max, pref, val))
		if pref == "ber" {
			out = append(out, fmt.Sprintf("F c(0,ber,t(0,berTag,nil,hex,0,-),sub(9F02,p(b,0,binary,ber,nil,d))) pack c(kv(9F02,%s))", val))
		}
	}
	return out
}

func bytesOf(n int) []byte {
	b := make([]byte, n)
	for i := range b {
		b[i] = byte('A' + i%23)
	}
	return b
}

// nestedTagged walks a field spec and a value in parallel and returns the first composite with
// tags on the wire together with the value it holds (nil when there is none).
func nestedTagged(spec, val *impl.Tree) (*impl.Tree, *impl.Tree, *impl.Tree) {
	if spec == nil || val == nil || spec.Name != "c" || len(spec.Kids) < 3 {
		return nil, nil, nil
	}
	if m, ok := tlvMode(spec); ok && (val.Name == "c" || val.Name == "c()") {
		return spec, m, val
	}
	for _, s := range spec.Kids[3:] {
		for _, kv := range val.Kids {
			if len(kv.Kids) == 2 && len(s.Kids) == 2 && kv.Kids[0].Name == s.Kids[0].Name {
				if a, b, c := nestedTagged(s.Kids[1], kv.Kids[1]); a != nil {
					return a, b, c
				}
			}
		}
	}
	return nil, nil, nil
}
