package oracle

import (
	"bytes"
	"encoding/hex"
	"encoding/json"
	"errors"
	"fmt"
	"sort"
	"strconv"
	"strings"

	"github.com/moov-io/iso8583"
	iso8583errors "github.com/moov-io/iso8583/errors"
	"github.com/moov-io/iso8583/field"

	"verif/harness/gen"
	"verif/harness/impl"
)

func init() {
	Registry["C01"] = &Oracle{Run: runC01, Lines: func(lines []string, rep *Reporter) {
		linesMsg(checkRoundTrip, nil)(append(derivedFieldLines(lines), lines...), rep)
		historyReplayLines(lines, rep)
	}}
	Registry["C02"] = &Oracle{Run: runC02, Lines: linesC02}
	Registry["C08"] = &Oracle{Run: runC08, Lines: linesC08}
	Registry["C19"] = &Oracle{Run: runC19, Lines: linesMsg(checkAttribution, checkErrorPath)}
}

type T = impl.Tree

// ---------------------------------------------------------------- canonical forms (DESIGN §2.3)

func padSideChar(pad string) (byte, byte, bool) {
	if len(pad) == 3 && (pad[0] == 'L' || pad[0] == 'R') {
		v, err := strconv.ParseUint(pad[1:], 16, 8)
		if err == nil {
			return pad[0], byte(v), true
		}
	}
	return 0, 0, false
}

func strip(b []byte, pad string) []byte {
	side, c, ok := padSideChar(pad)
	if !ok {
		return b
	}
	if side == 'L' {
		for len(b) > 0 && b[0] == c {
			b = b[1:]
		}
	} else {
		for len(b) > 0 && b[len(b)-1] == c {
			b = b[:len(b)-1]
		}
	}
	return b
}

// canon computes the canonical form of a value under a field spec (both as trees).
func canon(spec, v *T) *T {
	switch spec.Name {
	case "p":
		enc, pad := spec.Kids[2].Name, spec.Kids[4].Name
		switch v.Name {
		case "s":
			b, _ := impl.UnHex(v.Kids[0].Name)
			if enc == "hexToBytes" {
				return impl.N("s", impl.A(impl.Hex([]byte(strings.ToUpper(string(b))))))
			}
			return impl.N("s", impl.A(impl.Hex(strip(b, pad))))
		case "b":
			b, _ := impl.UnHex(v.Kids[0].Name)
			return impl.N("b", impl.A(impl.Hex(strip(b, pad))))
		case "h":
			txt, _ := impl.UnHex(v.Kids[0].Name)
			raw, err := hex.DecodeString(string(txt))
			if err != nil {
				return v
			}
			return impl.N("h", impl.A(impl.Hex([]byte(strings.ToUpper(hex.EncodeToString(strip(raw, pad)))))))
		case "n":
			i, err := strconv.ParseInt(v.Kids[0].Name, 10, 64)
			if err != nil {
				return v
			}
			return impl.N("n", impl.A(strconv.FormatInt(i, 10)))
		}
	case "c":
		subs := map[string]*T{}
		for _, s := range spec.Kids[3:] {
			subs[s.Kids[0].Name] = s.Kids[1]
		}
		out := impl.N("c")
		for _, kv := range v.Kids {
			if ss, ok := subs[kv.Kids[0].Name]; ok {
				out.Kids = append(out.Kids, impl.N("kv", kv.Kids[0], canon(ss, kv.Kids[1])))
			}
		}
		return out
	}
	return v
}

// asMap flattens a value tree into path → leaf text, so that order never matters.
func asMap(prefix string, v *T, out map[string]string) {
	if v.Name == "c" || v.Name == "c()" {
		out[prefix+"/"] = "composite"
		for _, kv := range v.Kids {
			asMap(prefix+"/"+kv.Kids[0].Name, kv.Kids[1], out)
		}
		return
	}
	out[prefix] = v.String()
}

func sameValue(a, b *T) (bool, string) {
	ma, mb := map[string]string{}, map[string]string{}
	asMap("", a, ma)
	asMap("", b, mb)
	for k, x := range ma {
		if y, ok := mb[k]; !ok || x != y {
			return false, fmt.Sprintf("at %q: %s vs %s", k, x, mb[k])
		}
	}
	for k := range mb {
		if _, ok := ma[k]; !ok {
			return false, fmt.Sprintf("extra %q", k)
		}
	}
	return true, ""
}

func msgFieldSpecs(spec *T) map[string]*T {
	m := map[string]*T{"0": spec.Kids[0]}
	for _, f := range spec.Kids[2:] {
		m[f.Kids[0].Name] = f.Kids[1]
	}
	return m
}

func canonMsg(spec, msg *T) *T {
	fs := msgFieldSpecs(spec)
	out := impl.N("msg")
	if msg.Kids[0].Name == "-" {
		out.Kids = append(out.Kids, impl.A("-"))
	} else {
		out.Kids = append(out.Kids, canon(fs["0"], msg.Kids[0]))
	}
	rest := append([]*T{}, msg.Kids[1:]...)
	sort.Slice(rest, func(i, j int) bool {
		a, _ := strconv.Atoi(rest[i].Kids[0].Name)
		b, _ := strconv.Atoi(rest[j].Kids[0].Name)
		return a < b
	})
	for _, f := range rest {
		out.Kids = append(out.Kids, impl.N("f", f.Kids[0], canon(fs[f.Kids[0].Name], f.Kids[1])))
	}
	return out
}

func sameMsg(a, b *T) (bool, string) {
	if len(a.Kids) != len(b.Kids) {
		return false, fmt.Sprintf("present sets differ: %s vs %s", ids(a), ids(b))
	}
	for i := range a.Kids {
		x, y := a.Kids[i], b.Kids[i]
		if i == 0 {
			if ok, d := sameValue(x, y); !ok {
				return false, "MTI " + d
			}
			continue
		}
		if x.Kids[0].Name != y.Kids[0].Name {
			return false, fmt.Sprintf("present sets differ: %s vs %s", ids(a), ids(b))
		}
		if ok, d := sameValue(x.Kids[1], y.Kids[1]); !ok {
			return false, "field " + x.Kids[0].Name + " " + d
		}
	}
	return true, ""
}

func ids(m *T) string {
	var out []string
	for _, f := range m.Kids[1:] {
		out = append(out, f.Kids[0].Name)
	}
	return "[" + strings.Join(out, " ") + "]"
}

// ---------------------------------------------------------------- C01

// checkRoundTrip: Pack ok ⇒ Unpack into a fresh message reproduces present set and canonical values,
// and re-Pack gives identical bytes.
func checkRoundTrip(rep *Reporter, specT, msgT *T) {
	line := fmt.Sprintf("M %s pack %s", specT.String(), msgT.String())
	safely(rep, line, func() {
		spec, ok := impl.MsgSpecOfTree(specT)
		if !ok {
			return
		}
		m := iso8583.NewMessage(spec)
		if !impl.SetMsg(m, msgT) {
			return
		}
		packed, err := m.Pack()
		if err != nil {
			rep.Case("")
			var pe *iso8583errors.PackError
			if !errors.As(err, &pe) {
				rep.Viol("Pack failure is not a PackError", line, err.Error())
			}
			return
		}
		rep.Case(line)
		// packing must not have changed the caller-visible content
		again, err := m.Pack()
		if err != nil || !bytes.Equal(again, packed) {
			rep.Viol("a second Pack of the same message gives different bytes", line, fmt.Sprintf("%x vs %x", packed, again))
		}
		for _, tail := range [][]byte{nil, {0x31, 0xFF}} {
			m2 := iso8583.NewMessage(spec)
			data := append(append([]byte{}, packed...), tail...)
			ul := fmt.Sprintf("M %s unpack %s", specT.String(), impl.Hex(data))
			if err := m2.Unpack(data); err != nil {
				rep.Viol("Unpack rejects the bytes Pack produced", ul, err.Error())
				return
			}
			got := impl.MsgTree(m2)
			want := canonMsg(specT, msgT)
			if ok, d := sameMsg(got, want); !ok {
				rep.Viol("Unpack(Pack(m)) differs from m in canonical form", ul, d+" | got "+got.String()+" want "+want.String())
				return
			}
			re, err := m2.Pack()
			if err != nil {
				rep.Viol("the unpacked message can not be packed", ul, err.Error())
			} else if !bytes.Equal(re, packed) {
				rep.Viol("packing the unpacked message does not return the identical bytes", ul, fmt.Sprintf("%x vs %x", re, packed))
			}
		}
	})
}

// field-level: Unpack consumes exactly the bytes Pack produced, whatever follows.
func checkFieldRoundTrip(rep *Reporter, specT, valT *T) {
	line := fmt.Sprintf("F %s pack %s", specT.String(), valT.String())
	safely(rep, line, func() {
		f, ok := impl.FieldOfTree(specT)
		if !ok || !impl.SetValue(f, valT) {
			return
		}
		packed, err := f.Pack()
		if err != nil {
			rep.Case("")
			return
		}
		rep.Case(line)
		for _, tail := range [][]byte{{0x31}, {0xFF, 0x00, 0x9F}} {
			f2, _ := impl.FieldOfTree(specT)
			data := append(append([]byte{}, packed...), tail...)
			ul := fmt.Sprintf("F %s unpack %s", specT.String(), impl.Hex(data))
			read, err := f2.Unpack(data)
			if err != nil {
				rep.Viol("field Unpack rejects what Pack produced when more bytes follow", ul, err.Error())
				return
			}
			if read != len(packed) {
				rep.Viol("field Unpack did not consume exactly the bytes Pack produced", ul, fmt.Sprintf("read %d of %d", read, len(packed)))
			}
			if ok, d := sameValue(impl.ValueTree(f2), canon(specT, valT)); !ok {
				rep.Viol("field Unpack(Pack(v)) differs from v in canonical form", ul, d)
			}
			re, err := f2.Pack()
			if err != nil || !bytes.Equal(re, packed) {
				rep.Viol("re-packing the unpacked field does not return the identical bytes", ul, fmt.Sprintf("%x vs %x (%v)", re, packed, err))
			}
		}
	})
}

func hasNonePrefix(t *T) bool {
	if t.Name == "p" {
		return t.Kids[3].Name == "none"
	}
	if t.Name == "c" {
		if t.Kids[1].Name == "none" {
			return true
		}
		// a None-prefixed last subfield is fine inside a composite whose own length is announced
	}
	return false
}

func runC01(t gen.Tier, r *gen.Rng, rep *Reporter) {
	g := gen.NewFieldGen(r)
	for i := 0; i < t.N(1500, 40000); i++ {
		spec := g.MsgSpec(r.Intn(3))
		for k := 0; k < 2; k++ {
			g.OutOfDomain = false
			m := g.Msg(spec)
			if g.OutOfDomain {
				continue
			}
			checkRoundTrip(rep, spec, m)
		}
	}
	for i := 0; i < t.N(3000, 80000); i++ {
		spec := g.Field(r.Intn(4))
		if hasNonePrefix(spec) {
			continue
		}
		g.OutOfDomain = false
		v := g.Value(spec, false)
		if g.OutOfDomain {
			continue
		}
		checkFieldRoundTrip(rep, spec, v)
	}
	// the content of a field is what it holds NOW, however it got there: write one value through
	// one writer, another through another writer, then Pack / Unpack must reproduce what the
	// accessors report
	for i := 0; i < t.N(1200, 30000); i++ {
		spec := g.Prim(false)
		if hasNonePrefix(spec) {
			continue
		}
		g.OutOfDomain = false
		v1, v2 := g.Value(spec, false), g.Value(spec, false)
		if g.OutOfDomain {
			continue
		}
		checkOverwriteHistory(rep, r, spec, v1, v2)
	}
	// the same at message level: after a history of writers (Field, BinaryField, Marshal, JSON, Unpack,
	// unset) on ONE message, Pack then Unpack into a fresh message reproduces what the accessors report
	forCases(t, r, t.N(120, 3000), t.N(120, 3000), t.N(200, 5000), func(c *hcase) {
		checkPackUnpackAfterHistory(rep, c)
	})
	emitDist(rep, g)
	rep.Sample("M <generated coherent spec> pack <in-domain content> => unpack into a fresh message: same present ids, canonical values equal, consumed = produced, re-pack identical")
}

func hasEmptyComposite(v *T) bool {
	if v.Name == "c" && len(v.Kids) == 0 {
		return true
	}
	for _, k := range v.Kids {
		if hasEmptyComposite(k) {
			return true
		}
	}
	return false
}

func checkPackUnpackAfterHistory(rep *Reporter, c *hcase) {
	line := c.line(c.ops, "")
	safely(rep, line, func() {
		specT, ok := impl.ParseTree(c.specS)
		if !ok {
			return
		}
		m := c.replay(c.ops).Cur
		s := observe(m)
		if !strings.HasPrefix(s.P, "ok:") {
			return
		}
		held, ok := impl.ParseTree(s.V)
		if !ok || len(held.Kids) == 0 || held.Kids[0].Name == "-" || hasEmptyComposite(held) {
			// a message without an MTI, or holding a composite none of whose subfields is set (a history can
			// leave one behind: Marshal of an empty struct, unset of every subfield), is outside the content
			// domain (DESIGN §2): a positional composite has no encoding for "no subfield"
			return
		}
		packed, _ := impl.UnHex(strings.TrimPrefix(s.P, "ok:"))
		rep.Case(line + " #roundtrip")
		fresh := iso8583.NewMessage(c.spec)
		if err := fresh.Unpack(packed); err != nil {
			// a history can leave content outside the value domain (an empty positional composite, …):
			// whether Pack's bytes are accepted is checked on generated in-domain content above
			return
		}
		got := impl.MsgTree(fresh)
		// compared: the set of present data elements and the values of the primitive ones. What a history
		// leaves inside a composite need not be in the value domain (a positional composite with a gap, or
		// whose last variable subfield is empty, …: DESIGN §2); composites are compared by the field-level
		// and re-use checks on generated in-domain values.
		flat := func(m *T) *T {
			out := impl.N(m.Name)
			for _, k := range m.Kids {
				if k.Name == "f" && len(k.Kids) == 2 && k.Kids[1].Name == "c" {
					out.Kids = append(out.Kids, impl.N("f", k.Kids[0], impl.N("s", impl.A("-"))))
				} else {
					out.Kids = append(out.Kids, k)
				}
			}
			return out
		}
		flatSpec := func(st *T) *T {
			out := impl.N(st.Name)
			for _, k := range st.Kids {
				if k.Name == "f" && len(k.Kids) == 2 && k.Kids[1].Name == "c" {
					out.Kids = append(out.Kids, impl.N("f", k.Kids[0], impl.N("p", impl.A("s"), impl.A("0"), impl.A("ascii"), impl.A("ascii.3"), impl.A("nil"), impl.A("d"))))
				} else {
					out.Kids = append(out.Kids, k)
				}
			}
			return out
		}
		fs := flatSpec(specT)
		if same, d := sameMsg(canonMsg(fs, flat(got)), canonMsg(fs, flat(held))); !same {
			rep.Viol("after a history of writes to one message, Pack encodes something other than what the message holds", line,
				fmt.Sprintf("%s | the message reports %s, Pack gave %x, which unpacks to %s", d, held.String(), packed, got.String()))
		}
	})
}

var fieldWriters = impl.FieldWriters

func writeThrough(f, src field.Field, v *T, how string) bool {
	return impl.WriteThrough(f, src, v, how)
}

func checkOverwriteHistory(rep *Reporter, r *gen.Rng, specT, v1, v2 *T) {
	w1 := fieldWriters[r.Intn(len(fieldWriters)-1)]
	w2 := fieldWriters[r.Intn(len(fieldWriters))]
	checkOverwriteHistoryWith(rep, specT, w1, v1, w2, v2)
}

// historyLines re-examines replay lines of the history checks: `F <spec> history <w1>:<v1> <w2>:<v2>` and
// `H <msg-spec> <ops>`
func historyReplayLines(lines []string, rep *Reporter) {
	for _, l := range lines {
		t := strings.Split(l, " ")
		switch {
		case len(t) >= 5 && t[0] == "F" && t[2] == "history":
			st, ok := impl.ParseTree(t[1])
			w1, a1, ok1 := strings.Cut(t[3], ":")
			w2, a2, ok2 := strings.Cut(t[4], ":")
			if !ok || !ok1 || !ok2 {
				continue
			}
			v1, o1 := impl.ParseTree(a1)
			v2, o2 := impl.ParseTree(a2)
			if o1 && o2 {
				checkOverwriteHistoryWith(rep, st, w1, v1, w2, v2)
			}
		case len(t) >= 3 && t[0] == "H":
			if c, ok := newCase(t[1], strings.Split(t[2], ";")); ok {
				checkPackUnpackAfterHistory(rep, c)
			}
		}
	}
}

func checkOverwriteHistoryWith(rep *Reporter, specT *T, w1 string, v1 *T, w2 string, v2 *T) {
	line := fmt.Sprintf("F %s history %s:%s %s:%s", specT.String(), w1, v1.String(), w2, v2.String())
	safely(rep, line, func() {
		s1, ok1 := impl.FieldOfTree(specT)
		s2, ok2 := impl.FieldOfTree(specT)
		f, ok3 := impl.FieldOfTree(specT)
		if !ok1 || !ok2 || !ok3 || !impl.SetValue(s1, v1) || !impl.SetValue(s2, v2) {
			return
		}
		if !writeThrough(f, s1, v1, w1) {
			return
		}
		// look at the field between the two writes: whatever an observer builds lazily is built now
		_, _ = f.String()
		_, _ = f.Bytes()
		_, _ = json.Marshal(f)
		_, _ = f.Pack()
		if !writeThrough(f, s2, v2, w2) {
			return
		}
		holds, err := f.String()
		if err != nil {
			return
		}
		holdsB, _ := f.Bytes()
		holdsV := impl.ValueTree(f)
		holdsJ, jerr := json.Marshal(f)
		packed, err := f.Pack()
		if err != nil {
			return
		}
		rep.Case(line)
		fresh, _ := impl.FieldOfTree(specT)
		if _, err := fresh.Unpack(packed); err != nil {
			rep.Viol("after two writes to one field, Unpack rejects the bytes Pack produced", line, fmt.Sprintf("packed %x: %v", packed, err))
			return
		}
		got, _ := fresh.String()
		gotB, _ := fresh.Bytes()
		if ok, _ := sameValue(canon(specT, impl.ValueTree(fresh)), canon(specT, holdsV)); !ok {
			rep.Viol("after two writes to one field, Pack encodes something other than the value the field holds", line,
				fmt.Sprintf("the field reports %q (bytes %x), Pack gave %x, which unpacks to %q (bytes %x)", holds, holdsB, packed, got, gotB))
			return
		}
		// a field that received only the second write (through the same writer) is observed the same way
		if w2 == "marshal-zero" {
			return
		}
		only, _ := impl.FieldOfTree(specT)
		if !writeThrough(only, s2, v2, w2) {
			return
		}
		oS, _ := only.String()
		oB, _ := only.Bytes()
		oJ, ojerr := json.Marshal(only)
		oP, operr := only.Pack()
		switch {
		case oS != holds || !bytes.Equal(oB, holdsB):
			rep.Viol("a field written twice reports a different value than a field that received only the second write", line,
				fmt.Sprintf("twice: %q / %x | once: %q / %x", holds, holdsB, oS, oB))
		case (jerr == nil) != (ojerr == nil) || !bytes.Equal(holdsJ, oJ):
			rep.Viol("a field written twice gives a different JSON document than a field that received only the second write", line,
				fmt.Sprintf("twice: %s | once: %s", holdsJ, oJ))
		case operr != nil || !bytes.Equal(packed, oP):
			rep.Viol("a field written twice packs differently from a field that received only the second write", line,
				fmt.Sprintf("twice: %x | once: %x", packed, oP))
		}
	})
}

func emitDist(rep *Reporter, g *gen.FieldGen) {
	keys := make([]string, 0, len(g.Dist))
	for k := range g.Dist {
		keys = append(keys, k)
	}
	sort.Strings(keys)
	agg := map[string]int{}
	for _, k := range keys {
		p := strings.Fields(k)
		if len(p) >= 2 {
			agg["dist "+p[0]+" "+p[1]] += g.Dist[k]
		}
	}
	for k, v := range agg {
		rep.Stat(strings.ReplaceAll(k, "\t", " "), v)
	}
}

// ---------------------------------------------------------------- C02

// checkRepack: Unpack ok ⇒ Pack ok, re-packed bytes accepted again, same content, and they re-pack to themselves.
func checkRepack(rep *Reporter, specT *T, data []byte) {
	line := fmt.Sprintf("M %s unpack %s", specT.String(), impl.Hex(data))
	safely(rep, line, func() {
		spec, ok := impl.MsgSpecOfTree(specT)
		if !ok {
			return
		}
		m := iso8583.NewMessage(spec)
		if err := m.Unpack(data); err != nil {
			rep.Case("")
			var ue *iso8583errors.UnpackError
			if !errors.As(err, &ue) {
				rep.Viol("Unpack failure is not an UnpackError", line, err.Error())
			} else if !bytes.Equal(ue.RawMessage, data) {
				rep.Viol("UnpackError.RawMessage is not the input", line, "")
			}
			return
		}
		rep.Case(line)
		content := impl.MsgTree(m)
		// known finding KF2: an EBCDIC-1047 field whose wire bytes decode to non-ASCII runes
		// holds a UTF-8 value longer than what was on the wire
		tag := ""
		if kf2(specT, content) {
			tag = "KF2 "
		}
		b1, err := m.Pack()
		if err != nil {
			// known finding KF8: the failure is a composite's own length prefix refusing the
			// length of the canonically re-encoded body, every set subfield packing on its own
			if tag == "" && kf8(m, err) {
				tag = "KF8 "
			}
			rep.Viol(tag+"Unpack accepted the bytes but Pack fails on the resulting message", line, err.Error())
			return
		}
		m2 := iso8583.NewMessage(spec)
		if err := m2.Unpack(b1); err != nil {
			rep.Viol(tag+"the re-packed bytes are rejected by Unpack", line, fmt.Sprintf("repacked %x: %v", b1, err))
			return
		}
		if ok, d := sameMsg(impl.MsgTree(m2), content); !ok {
			rep.Viol(tag+"the re-packed bytes decode to different fields/values", line, d)
		}
		b2, err := m2.Pack()
		if err != nil || !bytes.Equal(b1, b2) {
			rep.Viol(tag+"re-encoding is not a fixed point (unpack-then-pack twice differs from once)", line, fmt.Sprintf("%x vs %x", b1, b2))
		}
	})
}

// kf8 reports whether Pack failed at a composite whose set subfields all pack individually
// and whose error is the composite's own "failed to encode length": Unpack is lenient (an
// unpadded value in a padded subfield, a non-canonical numeral, a skipped unknown element),
// so the canonical re-encoding of what it accepted has another length than what was read.
func kf8(m *iso8583.Message, packErr error) bool {
	if !strings.Contains(packErr.Error(), "failed to encode length") {
		return false
	}
	var compFail func(f field.Field) bool
	compFail = func(f field.Field) bool {
		c, ok := f.(*field.Composite)
		if !ok {
			return false
		}
		for _, sf := range c.GetSubfields() {
			if _, err := sf.Pack(); err != nil {
				return compFail(sf)
			}
		}
		return true
	}
	ids := []int{}
	fs := m.GetFields()
	for id := range fs {
		ids = append(ids, id)
	}
	sort.Ints(ids)
	for _, id := range ids {
		if id < 2 {
			continue
		}
		if _, err := fs[id].Pack(); err != nil {
			return compFail(fs[id])
		}
	}
	return false
}

// kf2 reports whether some EBCDIC-1047 encoded primitive of the decoded content holds a
// byte >= 0x80 (a rune outside ASCII).
func kf2(specT, content *T) bool {
	fs := msgFieldSpecs(specT)
	var walk func(spec, v *T) bool
	walk = func(spec, v *T) bool {
		if spec == nil {
			return false
		}
		switch spec.Name {
		case "p":
			if spec.Kids[2].Name != "ebcdic1047" || len(v.Kids) != 1 {
				return false
			}
			b, _ := impl.UnHex(v.Kids[0].Name)
			if v.Name == "h" {
				raw, err := hex.DecodeString(string(b))
				if err != nil {
					return false
				}
				b = raw
			}
			for _, c := range b {
				if c >= 0x80 {
					return true
				}
			}
		case "c":
			subs := map[string]*T{}
			for _, sp := range spec.Kids[3:] {
				subs[sp.Kids[0].Name] = sp.Kids[1]
			}
			for _, kv := range v.Kids {
				if walk(subs[kv.Kids[0].Name], kv.Kids[1]) {
					return true
				}
			}
		}
		return false
	}
	if content.Kids[0].Name != "-" && walk(fs["0"], content.Kids[0]) {
		return true
	}
	for _, f := range content.Kids[1:] {
		if walk(fs[f.Kids[0].Name], f.Kids[1]) {
			return true
		}
	}
	return false
}

func runC02(t gen.Tier, r *gen.Rng, rep *Reporter) {
	g := gen.NewFieldGen(r)
	for i := 0; i < t.N(800, 25000); i++ {
		specT := g.MsgSpec(r.Intn(3))
		spec, ok := impl.MsgSpecOfTree(specT)
		if !ok {
			continue
		}
		m := iso8583.NewMessage(spec)
		if !impl.SetMsg(m, g.Msg(specT)) {
			continue
		}
		packed, err := m.Pack()
		if err != nil {
			continue
		}
		checkRepack(rep, specT, packed)
		for j, mut := range g.Mutate(packed) {
			if j > t.N(70, 160) {
				break
			}
			checkRepack(rep, specT, mut)
		}
		checkRepack(rep, specT, r.Bytes(r.Intn(40)))
		// lenient acceptance: the same content as a sender without padding would write it
		// (variable-length padded primitives sent unpadded)
		if relaxed, changed := stripVarPads(specT); changed {
			if spec2, ok := impl.MsgSpecOfTree(relaxed); ok {
				m2 := iso8583.NewMessage(spec2)
				if impl.SetMsg(m2, g.Msg(specT)) {
					if wire, err := m2.Pack(); err == nil {
						checkRepack(rep, specT, wire)
					}
				}
			}
		}
	}
	for _, l := range append(append([]string{}, c02Directed...), c02WideNumerals()...) {
		linesMsg(nil, checkRepack)([]string{l}, rep)
	}
	emitDist(rep, g)
	rep.Sample("M <coherent spec> unpack <mutated valid encoding> => if accepted: Pack ok, re-packed bytes accepted, same content, re-pack identical")
}

// c02Directed: the witnesses of Lemmas/FieldRepack.lean (grow / shrink / skip / empty) at message level
var c02Directed = []string{
	"M m(p(s,4,ascii,ascii.F,nil,d),bm(8,binary,binary.F,1),f(2,c(3,ascii.2,t(0,-,nil,str,0,-),sub(1,p(s,5,ascii,ascii.1,L20,d))))) unpack 3031303040000000000000003033324142",
	"M m(p(s,4,ascii,ascii.F,nil,d),bm(8,binary,binary.F,1),f(2,c(4,ascii.F,t(0,-,nil,str,0,-),sub(1,p(n,9,ascii,ascii.1,nil,d))))) unpack 30313030400000000000000033303037",
	"M m(p(s,4,ascii,ascii.F,nil,d),bm(8,binary,binary.F,1),f(2,c(9,ascii.F,t(2,ascii,nil,str,1,ascii.2),sub(01,p(s,5,ascii,ascii.1,nil,d))))) unpack 30313030400000000000000030313141393930315a",
	"M m(p(s,4,ascii,ascii.F,nil,d),bm(8,binary,binary.F,1),f(2,c(0,ascii.2,t(0,-,nil,str,0,-),sub(1,p(s,0,ascii,ascii.F,nil,d))))) unpack 3031303040000000000000003030",
}

// wide numerals: Numeric fields of 19 / 20 digits with wire digits around the int64 / uint64
// limits (what is accepted must re-pack; what does not fit an int64 must be rejected)
func c02WideNumerals() []string {
	var out []string
	head := "3031303040000000000000" // "0100" + bitmap with bit 2 (hex of the wire prefix is built below)
	_ = head
	for _, digits := range []string{"9223372036854775807", "9223372036854775808", "9999999999999999999",
		"18446744073709551615", "18446744073709551616", "09223372036854775807", "00000000000000000001"} {
		for _, spec := range []string{
			fmt.Sprintf("p(n,%d,ascii,ascii.F,L30,d)", len(digits)),
			"p(n,20,ascii,ascii.2,nil,d)",
			fmt.Sprintf("p(n,%d,ebcdic,ebcdic.F,L30,d)", len(digits)),
		} {
			body := []byte(digits)
			if strings.Contains(spec, "ebcdic") {
				body = make([]byte, len(digits))
				for i, c := range []byte(digits) {
					body[i] = 0xF0 + (c - '0')
				}
			}
			wire := append([]byte("0100"), 0x40, 0, 0, 0, 0, 0, 0, 0)
			if strings.Contains(spec, "ascii.2") {
				wire = append(wire, []byte(fmt.Sprintf("%02d", len(digits)))...)
			}
			wire = append(wire, body...)
			out = append(out, fmt.Sprintf("M m(p(s,4,ascii,ascii.F,nil,d),bm(8,binary,binary.F,1),f(2,%s)) unpack %s", spec, impl.Hex(wire)))
		}
	}
	return out
}

// stripVarPads returns the spec with the padder removed from every variable-length primitive
func stripVarPads(spec *T) (*T, bool) {
	changed := false
	var walk func(t *T) *T
	walk = func(t *T) *T {
		c := *t
		c.Kids = make([]*T, len(t.Kids))
		for i, k := range t.Kids {
			c.Kids[i] = walk(k)
		}
		if c.Name == "p" && len(c.Kids) == 6 {
			pref, pad := c.Kids[3].Name, c.Kids[4].Name
			if pref != "none" && !strings.HasSuffix(pref, ".F") && pad != "nil" && pad != "none" && c.Kids[5].Name == "d" {
				c.Kids[4] = impl.A("nil")
				changed = true
			}
		}
		return &c
	}
	out := walk(spec)
	return out, changed
}

// ---------------------------------------------------------------- C08

func relaxLen(spec *T, newLen int) *T {
	c := *spec
	c.Kids = append([]*T{}, spec.Kids...)
	c.Kids[1] = impl.A(strconv.Itoa(newLen))
	return &c
}

func runC08(t gen.Tier, r *gen.Rng, rep *Reporter) {
	g := gen.NewFieldGen(r)
	for i := 0; i < t.N(4000, 100000); i++ {
		specT := g.Prim(false)
		pref := specT.Kids[3].Name
		max, _ := strconv.Atoi(specT.Kids[1].Name)
		if pref == "none" || (pref == "ber" && max == 0) || specT.Kids[2].Name == "hexToBytes" {
			continue
		}
		if specT.Kids[5].Name == "t2" {
			continue
		}
		// (a) an over-length value must make Pack fail
		over := g.Value(specT, true)
		line := fmt.Sprintf("F %s pack %s", specT.String(), over.String())
		safely(rep, line, func() {
			f, ok := impl.FieldOfTree(specT)
			if !ok || !impl.SetValue(f, over) {
				return
			}
			rep.Case(line)
			if specT.Kids[0].Name == "n" {
				return // an over-length numeric may still be short after formatting; covered by (b)
			}
			if out, err := f.Pack(); err == nil {
				// longer than max units?
				rep.Viol("Pack produced bytes for a value longer than the declared maximum / different from the fixed length", line, fmt.Sprintf("%x", out))
			}
		})
		// (c) the bytes available: every proper prefix of a valid encoding announces (by its length
		// prefix, or by the declared length of a fixed field) more than is there, and must be rejected
		if vv := g.Value(specT, false); vv != nil {
			if fc, ok := impl.FieldOfTree(specT); ok && impl.SetValue(fc, vv) {
				if wire, err := fc.Pack(); err == nil && len(wire) > 0 {
					cuts := map[int]bool{len(wire) - 1: true, len(wire) / 2: true, 0: true, 1: true}
					if len(wire) > 2 {
						cuts[r.Intn(len(wire))] = true
					}
					for cut := range cuts {
						if cut >= len(wire) || cut < 0 {
							continue
						}
						cl := fmt.Sprintf("F %s unpack %s", specT.String(), impl.Hex(wire[:cut]))
						safely(rep, cl, func() {
							fu, _ := impl.FieldOfTree(specT)
							rep.Case(cl)
							if read, err := fu.Unpack(wire[:cut]); err == nil {
								rep.Viol("Unpack accepted a field although fewer bytes are available than its length announces", cl, fmt.Sprintf("valid encoding %x cut to %d bytes, read %d", wire, cut, read))
							}
						})
					}
				}
			}
		}
		// (b) wire image built under a relaxed spec (larger maximum) must be rejected by the strict spec
		wide := relaxLen(specT, max+3)
		if strings.HasSuffix(pref, ".F") {
			continue
		}
		wv := g.Value(wide, false)
		fw, ok := impl.FieldOfTree(wide)
		if !ok || !impl.SetValue(fw, wv) {
			continue
		}
		wire, err := fw.Pack()
		if err != nil {
			continue
		}
		// announced length = what the relaxed spec's prefix says
		fs, _ := impl.FieldOfTree(wide)
		if _, err := fs.Unpack(wire); err != nil {
			continue
		}
		ul := fmt.Sprintf("F %s unpack %s", specT.String(), impl.Hex(wire))
		safely(rep, ul, func() {
			// recover the announced length through the relaxed prefixer
			n, _, derr := impl.Prefixer(pref).DecodeLength(1<<40, wire)
			if derr != nil {
				return
			}
			rep.Case(ul)
			f, _ := impl.FieldOfTree(specT)
			_, err := f.Unpack(wire)
			if n > max && err == nil {
				rep.Viol("Unpack accepted a field whose announced length exceeds the declared maximum", ul, fmt.Sprintf("announced %d > max %d", n, max))
			}
			// and a length announcing more bytes than available must be rejected too
			if len(wire) > 1 {
				f2, _ := impl.FieldOfTree(wide)
				if read, err := f2.Unpack(wire[:len(wire)-1]); err == nil && read > len(wire)-1 {
					rep.Viol("Unpack accepted a field announcing more bytes than available", ul, "")
				}
			}
		})
	}
	// composites: total encoded length above the declared maximum
	for i := 0; i < t.N(600, 15000); i++ {
		specT := g.Comp(1+r.Intn(2), false)
		max, _ := strconv.Atoi(specT.Kids[0].Name)
		pref := specT.Kids[1].Name
		if pref == "none" || (pref == "ber" && max == 0) {
			continue
		}
		v := g.Value(specT, false)
		f, ok := impl.FieldOfTree(specT)
		if !ok || !impl.SetValue(f, v) {
			continue
		}
		wire, err := f.Pack()
		if err != nil {
			continue
		}
		n, read, derr := impl.Prefixer(pref).DecodeLength(1<<40, wire)
		if derr != nil || n < 1 {
			continue
		}
		if pref == "ber" && n-1 == 0 {
			continue // a BER-TLV prefixer with Length 0 has no maximum: nothing to enforce
		}
		// the same bytes under a composite spec whose maximum is one below the real body length
		strict := relaxLen(specT, n-1)
		strict.Kids[0], strict.Kids[1] = impl.A(strconv.Itoa(n-1)), specT.Kids[1]
		sc := *specT
		sc.Kids = append([]*T{impl.A(strconv.Itoa(n - 1))}, specT.Kids[1:]...)
		line := fmt.Sprintf("F %s pack %s", sc.String(), v.String())
		safely(rep, line, func() {
			fs, ok := impl.FieldOfTree(&sc)
			if !ok || !impl.SetValue(fs, v) {
				return
			}
			rep.Case(line)
			if out, err := fs.Pack(); err == nil {
				rep.Viol("composite Pack produced bytes although the total encoded length exceeds the declared maximum", line, fmt.Sprintf("%x", out))
			}
			fu, _ := impl.FieldOfTree(&sc)
			ul := fmt.Sprintf("F %s unpack %s", sc.String(), impl.Hex(wire))
			if _, err := fu.Unpack(wire); err == nil {
				rep.Viol("composite Unpack accepted an announced length above the declared maximum", ul, fmt.Sprintf("announced %d", n))
			}
			_ = read
		})
	}
	emitDist(rep, g)
	rep.Sample("F <prim spec> pack <value one unit too long> => must be an error; wire built under a relaxed maximum => strict spec must reject it")
}

// ---------------------------------------------------------------- C19

// checkAttribution: every truncation of a valid message is an UnpackError attributed to the owning element.
func checkAttribution(rep *Reporter, specT, msgT *T) {
	line := fmt.Sprintf("M %s pack %s", specT.String(), msgT.String())
	safely(rep, line, func() {
		spec, ok := impl.MsgSpecOfTree(specT)
		if !ok {
			return
		}
		m := iso8583.NewMessage(spec)
		if !impl.SetMsg(m, msgT) {
			return
		}
		packed, err := m.Pack()
		if err != nil {
			var pe *iso8583errors.PackError
			if !errors.As(err, &pe) {
				rep.Viol("Pack failure is not a PackError", line, err.Error())
			}
			return
		}
		// element ranges from the implementation's own per-field encodings (the reference layout)
		fields := m.GetFields()
		idsSorted := make([]int, 0, len(fields))
		for id := range fields {
			idsSorted = append(idsSorted, id)
		}
		sort.Ints(idsSorted)
		type rng struct{ id, start, end int }
		var ranges []rng
		off := 0
		for _, id := range idsSorted {
			b, err := fields[id].Pack()
			if err != nil {
				return
			}
			ranges = append(ranges, rng{id, off, off + len(b)})
			off += len(b)
		}
		if off != len(packed) {
			return // continuation-position fields etc.: layout not the plain concatenation
		}
		for _, rg := range ranges {
			for o := rg.start; o < rg.end; o++ {
				data := packed[:o]
				ul := fmt.Sprintf("M %s unpack %s", specT.String(), impl.Hex(data))
				m2 := iso8583.NewMessage(spec)
				err := m2.Unpack(data)
				rep.Case(ul)
				if err == nil {
					rep.Viol("a message cut inside an element is accepted", ul, fmt.Sprintf("cut at %d inside element %d [%d,%d)", o, rg.id, rg.start, rg.end))
					continue
				}
				var ue *iso8583errors.UnpackError
				if !errors.As(err, &ue) {
					rep.Viol("Unpack failure is not an UnpackError", ul, err.Error())
					continue
				}
				if !bytes.Equal(ue.RawMessage, data) {
					rep.Viol("UnpackError.RawMessage is not the input", ul, "")
				}
				path := ue.FieldIDs()
				if len(path) == 0 || path[0] != strconv.Itoa(rg.id) {
					rep.Viol("truncation is attributed to the wrong data element", ul, fmt.Sprintf("cut at %d inside element %d [%d,%d), reported path %v", o, rg.id, rg.start, rg.end, path))
					continue
				}
				if d := pathShortfall(err, path); d != "" {
					rep.Viol("the field-id path stops above the subfield at which decoding stopped", ul, d)
					continue
				}
				if d := pathOffSpec(specT, err, path); d != "" {
					rep.Viol("the field-id path does not continue with the subfield tags of the spec", ul, d)
					continue
				}
				// elements before the failing one stay readable with their decoded values
				for _, prev := range ranges {
					if prev.id >= rg.id || prev.id == 1 {
						continue
					}
					want, err1 := fields[prev.id].String()
					got, err2 := m2.GetString(prev.id)
					if err1 == nil && err2 == nil && want != got {
						if ok, _ := sameValue(impl.ValueTree(m2.GetField(prev.id)), canon(msgFieldSpecs(specT)[strconv.Itoa(prev.id)], valueOf(msgT, prev.id))); !ok {
							rep.Viol("an element that precedes the failing one is not readable with its decoded value", ul, fmt.Sprintf("element %d: %q vs %q", prev.id, got, want))
						}
					}
				}
			}
		}
	})
}

func valueOf(msgT *T, id int) *T {
	if id == 0 {
		return msgT.Kids[0]
	}
	for _, f := range msgT.Kids[1:] {
		if f.Kids[0].Name == strconv.Itoa(id) {
			return f.Kids[1]
		}
	}
	return impl.A("?")
}

func runC19(t gen.Tier, r *gen.Rng, rep *Reporter) {
	g := gen.NewFieldGen(r)
	for i := 0; i < t.N(500, 12000); i++ {
		spec := g.MsgSpec(r.Intn(3))
		g.OutOfDomain = false
		m := g.Msg(spec)
		if g.OutOfDomain {
			continue
		}
		checkAttribution(rep, spec, m)
		// every single-byte corruption of the valid encoding (length prefixes among them)
		if sp, ok := impl.MsgSpecOfTree(spec); ok && i%4 == 0 {
			mm := iso8583.NewMessage(sp)
			if impl.SetMsg(mm, m) {
				if wire, err := mm.Pack(); err == nil && len(wire) <= 300 {
					for pos := range wire {
						for _, nb := range []byte{wire[pos] + 1, 0xFF, '9'} {
							if nb != wire[pos] {
								c := append([]byte{}, wire...)
								c[pos] = nb
								checkErrorPath(rep, spec, c)
							}
						}
					}
				}
			}
		}
	}
	emitDist(rep, g)
	rep.Sample("M <spec> unpack <valid message cut at offset o> => UnpackError, RawMessage = input, FieldIDs()[0] = element owning o, earlier elements readable")
}

// pathShortfall compares the field-id path of an UnpackError with the implementation's own
// account of where decoding stopped: every composite level at which a subfield failed says
// "failed to unpack subfield <tag>" in the error text (except a tag that could not be read:
// "subfield Tag"), and the property wants the path to continue with those subfield tags.
// Returns a description when the path has fewer subfield tags than the text has levels.
func pathShortfall(err error, path []string) string {
	txt := err.Error()
	levels := strings.Count(txt, "failed to unpack subfield ") - strings.Count(txt, "failed to unpack subfield Tag: ")
	if levels > len(path)-1 {
		return fmt.Sprintf("the failure lies %d composite level(s) deep (%q) but FieldIDs() = %v", levels, txt, path)
	}
	return ""
}

// pathOffSpec: the path names data elements and subfields by their spec keys — element 0 / 1 / a
// field id of the message spec, then at every composite level a key of that composite's
// Subfields (the tag as the spec writes it, not its padded wire form). Only the last element may
// be something else, and only when the failure *is* that the tag is unknown to the spec.
func pathOffSpec(specT *T, err error, path []string) string {
	if len(path) == 0 {
		return ""
	}
	var cur *T
	switch path[0] {
	case "0", "1":
		return ""
	default:
		cur = msgFieldSpecs(specT)[path[0]]
		if cur == nil {
			return "" // an id the spec does not define: reported as such
		}
	}
	txt := err.Error()
	unknownTag := strings.Contains(txt, "not defined in Spec") || strings.Contains(txt, "failed to skip unknown subfield") || strings.Contains(txt, "no specification found")
	for i, tag := range path[1:] {
		if cur == nil || cur.Name != "c" {
			return ""
		}
		var next *T
		for _, k := range cur.Kids[3:] {
			if k.Kids[0].Name == tag {
				next = k.Kids[1]
			}
		}
		if next == nil {
			if i == len(path)-2 && (unknownTag || tag == "") {
				return "" // the tag is unknown to the spec, or could not be read at all
			}
			return fmt.Sprintf("path element %q below %v is not a subfield tag of the spec (%q); FieldIDs() = %v", tag, path[:i+1], txt, path)
		}
		cur = next
	}
	return ""
}

// checkErrorPath: any bytes; if Unpack fails the error is an UnpackError carrying the input
// and a path that reaches the subfield at which decoding stopped.
func checkErrorPath(rep *Reporter, specT *T, data []byte) {
	ul := fmt.Sprintf("M %s unpack %s", specT.String(), impl.Hex(data))
	safely(rep, ul, func() {
		spec, ok := impl.MsgSpecOfTree(specT)
		if !ok {
			return
		}
		m := iso8583.NewMessage(spec)
		err := m.Unpack(data)
		rep.Case(ul)
		if err == nil {
			return
		}
		var ue *iso8583errors.UnpackError
		if !errors.As(err, &ue) {
			rep.Viol("Unpack failure is not an UnpackError", ul, err.Error())
			return
		}
		if !bytes.Equal(ue.RawMessage, data) {
			rep.Viol("UnpackError.RawMessage is not the input", ul, "")
		}
		if d := pathShortfall(err, ue.FieldIDs()); d != "" {
			rep.Viol("the field-id path stops above the subfield at which decoding stopped", ul, d)
		} else if d := pathOffSpec(specT, err, ue.FieldIDs()); d != "" {
			rep.Viol("the field-id path does not continue with the subfield tags of the spec", ul, d)
		}
	})
}

// ---------------------------------------------------------------- re-examination of protocol lines

func linesMsg(onPack func(*Reporter, *T, *T), onUnpack func(*Reporter, *T, []byte)) func([]string, *Reporter) {
	return func(lines []string, rep *Reporter) {
		for _, l := range lines {
			t := strings.Split(l, " ")
			if len(t) != 4 {
				continue
			}
			specT, ok := impl.ParseTree(t[1])
			if !ok {
				continue
			}
			switch {
			case t[0] == "M" && t[2] == "pack" && onPack != nil:
				if mt, ok := impl.ParseTree(t[3]); ok {
					onPack(rep, specT, mt)
				}
			case t[0] == "M" && t[2] == "unpack":
				data, ok := impl.UnHex(t[3])
				if !ok {
					continue
				}
				if onUnpack != nil {
					onUnpack(rep, specT, data)
				}
				if onPack != nil {
					// if the bytes decode, examine the property at the decoded content as well
					func() {
						defer func() { recover() }()
						spec, ok := impl.MsgSpecOfTree(specT)
						if !ok {
							return
						}
						m := iso8583.NewMessage(spec)
						if m.Unpack(data) == nil {
							onPack(rep, specT, impl.MsgTree(m))
						}
					}()
				}
			case t[0] == "F" && t[2] == "pack":
				if vt, ok := impl.ParseTree(t[3]); ok && !hasNonePrefix(specT) {
					checkFieldRoundTrip(rep, specT, vt)
				}
			case t[0] == "F" && t[2] == "unpack":
				data, ok := impl.UnHex(t[3])
				if !ok || hasNonePrefix(specT) {
					continue
				}
				func() {
					defer func() { recover() }()
					f, ok := impl.FieldOfTree(specT)
					if ok {
						if _, err := f.Unpack(data); err == nil {
							checkFieldRoundTrip(rep, specT, impl.ValueTree(f))
						}
					}
				}()
			}
		}
	}
}

// linesC08 re-examines correspondence differences: an Unpack that panics on an announced
// length it should have rejected is a violation with that very line as the failing input;
// an accepted field whose announced length exceeds its maximum / the bytes available likewise.
func linesC08(lines []string, rep *Reporter) {
	for _, l := range lines {
		t := strings.Split(l, " ")
		if len(t) == 5 && t[0] == "P" && t[2] == "dec" {
			// a length-prefix decode on which model and implementation differ: put those prefix bytes in front
			// of a field with a small declared maximum and see whether Unpack enforces it against the length
			// the prefix denotes (read from the documented format, not through the library)
			pre, ok := impl.UnHex(t[4])
			if !ok || impl.Prefixer(t[1]) == nil || t[1] == "none" || strings.HasSuffix(t[1], ".F") {
				continue
			}
			want, wantRead, numeric, known := refPrefixNumber(t[1], pre)
			if !known || !numeric || wantRead > len(pre) {
				continue
			}
			for _, fmax := range []int{10, 99} {
				if want.IsInt64() && want.Int64() <= int64(fmax) {
					continue
				}
				wire := append(append([]byte{}, pre[:wantRead]...), bytes.Repeat([]byte{'A'}, 120)...)
				fl := fmt.Sprintf("F p(b,%d,binary,%s,nil,d) unpack %s", fmax, t[1], impl.Hex(wire))
				res := impl.Run(fl)
				rep.Case(fl)
				if strings.HasPrefix(res, "ok ") {
					rep.Viol("Unpack accepted a field whose announced length exceeds the declared maximum", fl,
						fmt.Sprintf("the prefix denotes %s, declared maximum %d, result %s", want, fmax, res))
				} else if res == "panic" {
					rep.Viol("Unpack panicked on an announced length instead of rejecting it with an error", fl, "")
				}
			}
			continue
		}
		if len(t) != 4 || (t[0] != "F" && t[0] != "M") {
			continue
		}
		res := impl.Run(l)
		rep.Case(l)
		if res == "panic" && t[2] == "unpack" {
			rep.Viol("Unpack panicked on an announced length instead of rejecting it with an error", l, "")
			continue
		}
		if t[0] == "F" && t[2] == "unpack" && strings.HasPrefix(res, "ok ") {
			data, _ := impl.UnHex(t[3])
			parts := strings.Split(res, " ")
			if read, err := strconv.Atoi(parts[len(parts)-1]); err == nil && read > len(data) {
				rep.Viol("Unpack accepted a field announcing more bytes than available", l, fmt.Sprintf("read %d of %d", read, len(data)))
			}
			// a primitive with a length prefix: the value Unpack returns has at most the announced
			// number of units (exactly that many before the pad characters were stripped)
			if specT, ok := impl.ParseTree(t[1]); ok && specT.Name == "p" && len(parts) == 3 {
				pref, enc := specT.Kids[3].Name, specT.Kids[2].Name
				max, _ := strconv.Atoi(specT.Kids[1].Name)
				if pr := impl.Prefixer(pref); pr != nil && pref != "none" && !strings.HasSuffix(pref, ".F") && enc != "ebcdic1047" && enc != "hexToBytes" {
					if n, _, err := pr.DecodeLength(1<<40, data); err == nil {
						if vt, ok := impl.ParseTree(parts[1]); ok && len(vt.Kids) == 1 {
							units := -1
							if b, ok := impl.UnHex(vt.Kids[0].Name); ok {
								switch vt.Name {
								case "s", "b":
									units = len(b)
								case "h":
									units = len(b) / 2
								}
							}
							if units > n {
								rep.Viol("Unpack returned a value longer than the length its prefix announces", l, fmt.Sprintf("announced %d, value of %d units: %s", n, units, parts[1]))
							} else if n > max && !(pref == "ber" && max == 0) {
								rep.Viol("Unpack accepted a field whose announced length exceeds the declared maximum", l, fmt.Sprintf("announced %d > max %d", n, max))
							}
						}
					}
				}
			}
		}
		if t[0] == "F" && t[2] == "pack" && strings.HasPrefix(res, "ok ") {
			// packed although the model refuses: check the declared bound directly
			specT, ok := impl.ParseTree(t[1])
			if ok && specT.Name == "p" {
				max, _ := strconv.Atoi(specT.Kids[1].Name)
				pref := specT.Kids[3].Name
				if pr := impl.Prefixer(pref); pr != nil && pref != "none" && !strings.HasSuffix(pref, ".F") {
					wire, _ := impl.UnHex(strings.TrimPrefix(res, "ok "))
					if n, _, err := pr.DecodeLength(1<<40, wire); err == nil {
						w, _ := prefWidthAlphabet(pref)
						capa := capacityOf(pref)
						if n > max && !(pref == "ber" && max == 0) {
							rep.Viol("Pack produced bytes for a value longer than the declared maximum", l, fmt.Sprintf("announced %d > max %d", n, max))
						} else if pref != "ber" && capa >= 0 {
							// the prefix must announce exactly the value that follows
							f, ok := impl.FieldOfTree(specT)
							if ok {
								if read, err := f.Unpack(wire); err != nil || read != len(wire) {
									rep.Viol("Pack produced bytes whose length prefix does not fit the prefix digits (the packed field does not unpack to its own length)", l, fmt.Sprintf("prefix width %d, wire %x: read %d err %v", w, wire, read, err))
								}
							}
						}
					}
				}
			}
		}
	}
}

// linesC02 re-examines correspondence differences. Besides message / field lines it turns a
// differing length-prefix decode (`P <pref> dec <maxLen> <hex>`) into a message whose only
// data element uses that prefixer with that maximum and carries exactly the announced number
// of bytes, and evaluates the re-pack statement there (directed search, DESIGN §3.4).
func linesC02(lines []string, rep *Reporter) {
	linesMsg(nil, checkRepack)(lines, rep)
	for _, l := range lines {
		t := strings.Split(l, " ")
		if len(t) != 5 || t[0] != "P" || t[2] != "dec" {
			continue
		}
		pr := impl.Prefixer(t[1])
		maxLen, err := strconv.Atoi(t[3])
		data, ok := impl.UnHex(t[4])
		if pr == nil || err != nil || !ok || t[1] == "none" || strings.HasSuffix(t[1], ".F") || maxLen > 4000 {
			continue
		}
		var n, read int
		func() {
			defer func() { recover() }()
			var derr error
			n, read, derr = pr.DecodeLength(maxLen, data)
			if derr != nil {
				n = -1
			}
		}()
		if n < 0 || n > 5000 || read > len(data) {
			continue
		}
		specT, ok := impl.ParseTree(fmt.Sprintf("m(p(s,4,ascii,ascii.F,nil,d),bm(8,binary,binary.F,1),f(2,p(b,%d,binary,%s,nil,d)))", maxLen, t[1]))
		if !ok {
			continue
		}
		wire := append([]byte("0100"), 0x40, 0, 0, 0, 0, 0, 0, 0)
		wire = append(wire, data[:read]...)
		wire = append(wire, bytes.Repeat([]byte{'A'}, n)...)
		checkRepack(rep, specT, wire)
	}
}
