package oracle

import (
	"bytes"
	"fmt"
	"math/big"
	"strconv"
	"strings"
	"unicode/utf8"

	"github.com/moov-io/iso8583/padding"

	"verif/harness/gen"
	"verif/harness/impl"
)

// checkPadAfterOthers: a padder for a single-byte pad character behaves the same whatever other
// padders (for other characters, among them multi-byte runes with the same low byte) were created
// in the process before it.
func checkPadAfterOthers(rep *Reporter, kind string, c byte, other rune) {
	line := fmt.Sprintf("D %s %02x padafter U+%04X", kind, c, other)
	safely(rep, line, func() {
		if !utf8.ValidRune(other) {
			return
		}
		_ = padding.Left(other)
		_ = padding.Right(other)
		p, _ := impl.Padder(kind, fmt.Sprintf("%02x", c))
		if p == nil {
			return
		}
		rep.Case(line)
		v := []byte{'a', 'b'}
		if c == 'a' || c == 'b' {
			v = []byte{'x', 'y'}
		}
		var want []byte
		if kind == "L" {
			want = append(bytes.Repeat([]byte{c}, 3), v...)
		} else {
			want = append(append([]byte{}, v...), bytes.Repeat([]byte{c}, 3)...)
		}
		if got := p.Pad(append([]byte{}, v...), 5); !bytes.Equal(got, want) {
			rep.Viol("a padder for a single-byte pad character pads differently after a padder for another character was created", line,
				fmt.Sprintf("Pad(%x, 5) = %x, want %x", v, got, want))
			return
		}
		if got := p.Unpad(append([]byte{}, want...)); !bytes.Equal(got, v) {
			rep.Viol("a padder for a single-byte pad character unpads differently after a padder for another character was created", line,
				fmt.Sprintf("Unpad(%x) = %x, want %x", want, got, v))
		}
	})
}

func init() {
	Registry["C20"] = &Oracle{Run: runC20, Lines: linesC20}
	Registry["C06"] = &Oracle{Run: runC06, Lines: linesC06}
	Registry["C07"] = &Oracle{Run: runC07, Lines: linesC07}
}

// ---------------------------------------------------------------- C20 padding

func checkPad(rep *Reporter, kind string, c byte, v []byte, n int, spare []byte) {
	line := fmt.Sprintf("D %s %02x pad %d %s %s", kind, c, n, gen.H(v), gen.H(spare))
	safely(rep, line, func() {
		p, _ := impl.Padder(kind, fmt.Sprintf("%02x", c))
		backing := make([]byte, 0, len(v)+len(spare))
		backing = append(append(backing, v...), spare...)
		in := backing[:len(v)]
		before := append([]byte{}, backing...)
		var out []byte
		if p == nil {
			out = in
		} else {
			out = p.Pad(in, n)
		}
		res := append([]byte{}, out...)
		key := ""
		if len(v) < n {
			key = line
		}
		rep.Case(key)
		if !bytes.Equal(backing[:len(v)+len(spare)], before) {
			rep.Viol("Pad wrote to the caller's slice or its spare capacity", line, fmt.Sprintf("backing before=%x after=%x", before, backing[:len(v)+len(spare)]))
		}
		switch kind {
		case "nil", "none":
			if !bytes.Equal(res, v) {
				rep.Viol("no-op padder changed its input", line, fmt.Sprintf("got %x", res))
			}
			return
		}
		if len(v) >= n {
			if !bytes.Equal(res, v) {
				rep.Viol("Pad changed a value that already has the target length", line, fmt.Sprintf("got %x", res))
			}
		} else {
			var want []byte
			if kind == "L" {
				want = append(bytes.Repeat([]byte{c}, n-len(v)), v...)
			} else {
				want = append(append([]byte{}, v...), bytes.Repeat([]byte{c}, n-len(v))...)
			}
			if !bytes.Equal(res, want) {
				rep.Viol("Pad result is not exactly target-length pad characters plus value", line, fmt.Sprintf("got %x want %x", res, want))
			}
		}
		un := p.Unpad(res)
		edgeOK := len(v) == 0 || (kind == "L" && v[0] != c) || (kind == "R" && v[len(v)-1] != c)
		if edgeOK && !bytes.Equal(un, v) {
			rep.Viol("Unpad(Pad(v,n)) != v", line, fmt.Sprintf("got %x", un))
		}
	})
}

func checkUnpad(rep *Reporter, kind string, c byte, v []byte) {
	line := fmt.Sprintf("D %s %02x unpad %s", kind, c, gen.H(v))
	safely(rep, line, func() {
		p, _ := impl.Padder(kind, fmt.Sprintf("%02x", c))
		if p == nil {
			return
		}
		in := append([]byte{}, v...)
		un := p.Unpad(in)
		rep.Case(line)
		if !bytes.Equal(in, v) {
			rep.Viol("Unpad modified its input", line, "")
		}
		switch kind {
		case "none":
			if !bytes.Equal(un, v) {
				rep.Viol("no-op Unpad changed its input", line, "")
			}
		case "L":
			k := len(v) - len(un)
			if k < 0 || !bytes.Equal(v[k:], un) || !bytes.Equal(v[:k], bytes.Repeat([]byte{c}, k)) || (len(un) > 0 && un[0] == c) {
				rep.Viol("left Unpad removed something other than the leading pad run", line, fmt.Sprintf("got %x", un))
			}
		case "R":
			k := len(v) - len(un)
			if k < 0 || !bytes.Equal(v[:len(un)], un) || !bytes.Equal(v[len(un):], bytes.Repeat([]byte{c}, k)) || (len(un) > 0 && un[len(un)-1] == c) {
				rep.Viol("right Unpad removed something other than the trailing pad run", line, fmt.Sprintf("got %x", un))
			}
		}
	})
}

func runC20(t gen.Tier, r *gen.Rng, rep *Reporter) {
	spare := []byte{0xEE, 0xEE, 0xEE, 0xEE, 0xEE, 0xEE, 0xEE, 0xEE}
	// first of all (before this process has made any single-byte padder): padders for other runes with the
	// same low byte, then the single-byte one — whichever of the two a table keeps, it must not be handed
	// out for the other
	for c := 0; c < 128; c++ {
		// all the other padders first: a table that keeps the FIRST padder of a slot is as wrong as one
		// that keeps the last
		_ = padding.Left(0x100 + rune(c))
		_ = padding.Right(0x100 + rune(c))
	}
	for _, kind := range []string{"L", "R"} {
		for c := 0; c < 128; c++ {
			for _, hi := range []rune{0x100, 0x200, 0x2000, 0x10000, 0x80} {
				checkPadAfterOthers(rep, kind, byte(c), hi+rune(c))
			}
		}
	}
	for _, kind := range []string{"L", "R"} {
		for c := 0; c < 128; c++ {
			if !t.Thorough && c%5 != 0 && c != '0' && c != ' ' {
				continue
			}
			alpha := []byte{byte(c), 'a', byte((c + 1) % 128), 0xC3}
			var rec func(cur []byte)
			rec = func(cur []byte) {
				for n := 0; n <= 6; n++ {
					checkPad(rep, kind, byte(c), cur, n, spare)
				}
				checkUnpad(rep, kind, byte(c), cur)
				if len(cur) == 3 {
					return
				}
				for _, a := range alpha {
					rec(append(append([]byte{}, cur...), a))
				}
			}
			rec(nil)
		}
	}
	for _, kind := range []string{"nil", "none"} {
		for i := 0; i < 50; i++ {
			checkPad(rep, kind, 0, r.Bytes(r.Intn(6)), r.Intn(8), spare)
		}
	}
	for i := 0; i < t.N(500, 20000); i++ {
		kind := gen.Pick(r, []string{"L", "R"})
		c := byte(r.Intn(128))
		l := r.Intn(16)
		if r.Intn(12) == 0 {
			l = r.Intn(2001)
		}
		v := r.Bytes(l)
		if len(v) > 0 && r.Bool() {
			v[0], v[len(v)-1] = c, c
		}
		checkPad(rep, kind, c, v, r.Intn(l+12), r.Bytes(r.Intn(10)))
		checkUnpad(rep, kind, c, v)
	}
	vals := [][]byte{{}, {'a'}, {'a', 'b'}, {'x'}, {'0', '1'}, {' '}}
	for i := 0; i < t.N(600, 20000); i++ {
		steps := make([]padStep, 2+r.Intn(4))
		for k := range steps {
			v := vals[r.Intn(len(vals))]
			steps[k] = padStep{len(v) + r.Intn(7), v, []byte{0xEE, 0xEE}}
		}
		checkPadSeq(rep, gen.Pick(r, []string{"L", "R"}), gen.Pick(r, []byte{'0', ' ', 0, 'a'}), steps)
	}
	rep.Sample("D L 30 pad 5 3132 eeee => pad/unpad laws + caller backing array compared before/after")
}

type padStep struct {
	n     int
	v, sp []byte
}

// checkPadSeq: the Pad law for a SEQUENCE of calls on one padder object, every result looked at
// only after the last call (a padder that caches a pad run, or returns slices that share memory,
// satisfies the law call by call on a new object and breaks it here).
func checkPadSeq(rep *Reporter, kind string, c byte, steps []padStep) {
	subs := make([]string, len(steps))
	for i, st := range steps {
		subs[i] = fmt.Sprintf("D,%s,%02x,pad,%d,%s,%s", kind, c, st.n, gen.H(st.v), gen.H(st.sp))
	}
	line := "Q " + strings.Join(subs, "|")
	safely(rep, line, func() {
		p, _ := impl.Padder(kind, fmt.Sprintf("%02x", c))
		if p == nil {
			return
		}
		outs := make([][]byte, len(steps))
		backs := make([][]byte, len(steps))
		for i, st := range steps {
			backing := make([]byte, 0, len(st.v)+len(st.sp))
			backing = append(append(backing, st.v...), st.sp...)
			backs[i] = backing
			outs[i] = p.Pad(backing[:len(st.v)], st.n)
		}
		rep.Case(line)
		for i, st := range steps {
			want := append([]byte{}, st.v...)
			if len(st.v) < st.n {
				fill := bytes.Repeat([]byte{c}, st.n-len(st.v))
				if kind == "L" {
					want = append(fill, st.v...)
				} else {
					want = append(want, fill...)
				}
			}
			if !bytes.Equal(outs[i], want) {
				rep.Viol("Pad result is not exactly target-length pad characters plus value (sequence of calls on one padder, results read after the last call)", line,
					fmt.Sprintf("call %d: got %x want %x", i+1, outs[i], want))
				return
			}
			if !bytes.Equal(backs[i][:len(st.v)+len(st.sp)], append(append([]byte{}, st.v...), st.sp...)) {
				rep.Viol("Pad wrote to the caller's slice or its spare capacity", line, fmt.Sprintf("call %d", i+1))
				return
			}
		}
	})
}

func linesC20(lines []string, rep *Reporter) {
	for _, l := range lines {
		checkSeqStable(rep, l)
		t := strings.Split(l, " ")
		if len(t) == 2 && t[0] == "Q" {
			var steps []padStep
			kind, cs := "", ""
			ok := true
			for _, sub := range strings.Split(t[1], "|") {
				s := strings.Split(sub, ",")
				if len(s) != 7 || s[0] != "D" || s[3] != "pad" || (kind != "" && (s[1] != kind || s[2] != cs)) {
					ok = false
					break
				}
				kind, cs = s[1], s[2]
				n, _ := strconv.Atoi(s[4])
				v, _ := impl.UnHex(s[5])
				sp, _ := impl.UnHex(s[6])
				steps = append(steps, padStep{n, v, sp})
			}
			cb, _ := impl.UnHex(cs)
			if ok && len(cb) == 1 && (kind == "L" || kind == "R") {
				checkPadSeq(rep, kind, cb[0], steps)
			}
			continue
		}
		if len(t) < 5 || t[0] != "D" {
			continue
		}
		cb, _ := impl.UnHex(t[2])
		c := byte(0)
		if len(cb) == 1 {
			c = cb[0]
		}
		if t[3] == "pad" && len(t) == 7 {
			n, _ := strconv.Atoi(t[4])
			v, _ := impl.UnHex(t[5])
			sp, _ := impl.UnHex(t[6])
			checkPad(rep, t[1], c, v, n, sp)
		} else if t[3] == "unpad" {
			v, _ := impl.UnHex(t[4])
			checkUnpad(rep, t[1], c, v)
		}
	}
}

// ---------------------------------------------------------------- C06 prefixes

func prefWidthAlphabet(p string) (int, func(b byte) bool) {
	parts := strings.Split(p, ".")
	if len(parts) != 2 || parts[1] == "F" {
		return 0, func(byte) bool { return true }
	}
	d, _ := strconv.Atoi(parts[1])
	switch parts[0] {
	case "ascii":
		return d, func(b byte) bool { return b >= '0' && b <= '9' }
	case "ebcdic", "ebcdic1047":
		return d, func(b byte) bool { return b >= 0xF0 && b <= 0xF9 }
	case "bcd":
		return (d + 1) / 2, func(b byte) bool { return b>>4 <= 9 && b&0xF <= 9 }
	case "hex":
		return 2 * d, func(b byte) bool { return (b >= '0' && b <= '9') || (b >= 'A' && b <= 'F') }
	}
	return d, func(byte) bool { return true }
}

func capacityOf(p string) int {
	parts := strings.Split(p, ".")
	if len(parts) != 2 || parts[1] == "F" {
		return -1
	}
	d, _ := strconv.Atoi(parts[1])
	c := 1
	base := 10
	if parts[0] == "binary" || parts[0] == "hex" {
		base = 256
	}
	for i := 0; i < d; i++ {
		c *= base
	}
	return c - 1
}

// checkPrefix evaluates C06 at (p, maxLen, n).
func checkPrefix(rep *Reporter, p string, maxLen, n int) {
	line := fmt.Sprintf("P %s enc %d %d", p, maxLen, n)
	safely(rep, line, func() {
		pr := impl.Prefixer(p)
		enc, err := pr.EncodeLength(maxLen, n)
		isFixed := strings.HasSuffix(p, ".F")
		capa := capacityOf(p)
		// failure characterisation
		var mustFail bool
		switch {
		case p == "none":
			mustFail = false
		case p == "ber":
			mustFail = maxLen != 0 && n > maxLen
		case p == "hex.F":
			mustFail = n != maxLen // the documented contract; the implementation counts hex digits (known finding KF1)
		case isFixed:
			mustFail = n != maxLen
		default:
			mustFail = n > maxLen || n > capa
		}
		key := ""
		if err == nil {
			key = line
		}
		rep.Case(key)
		if mustFail && err == nil {
			rep.Viol("EncodeLength accepted a length above the maximum / digit capacity / different from the fixed length", line, fmt.Sprintf("got %x", enc))
			return
		}
		if !mustFail && err != nil {
			rep.Viol("EncodeLength refused a representable length", line, err.Error())
			return
		}
		if err != nil {
			return
		}
		w, alpha := prefWidthAlphabet(p)
		if p == "ber" {
			if n <= 127 {
				w = 1
			} else {
				w = len(enc)
				if len(enc) < 2 || int(enc[0]&0x7F) != len(enc)-1 || enc[0]&0x80 == 0 || enc[1] == 0 {
					rep.Viol("BER long form malformed or not minimal", line, fmt.Sprintf("%x", enc))
				}
			}
		}
		if len(enc) != w {
			rep.Viol("prefix does not have the prefixer's width", line, fmt.Sprintf("got %d bytes %x, want %d", len(enc), enc, w))
		}
		for _, b := range enc {
			if !alpha(b) {
				rep.Viol("prefix byte outside the documented alphabet", line, fmt.Sprintf("%x", enc))
				break
			}
		}
		if p == "none" {
			return
		}
		for _, tail := range [][]byte{nil, {0x31, 0x32}, {0xFF}} {
			data := append(append([]byte{}, enc...), tail...)
			dl := fmt.Sprintf("P %s dec %d %s", p, maxLen, gen.H(data))
			got, read, derr := pr.DecodeLength(maxLen, data)
			rep.Case(dl)
			if derr != nil {
				rep.Viol("DecodeLength rejects the prefix EncodeLength produced", dl, derr.Error())
			} else if got != n || read != len(enc) {
				rep.Viol("DecodeLength(EncodeLength(n)) != (n, width)", dl, fmt.Sprintf("encoded n=%d as %x, decoded length=%d read=%d", n, enc, got, read))
			}
		}
	})
}

// checkPrefixDecode evaluates the decode-side clauses of C06 on arbitrary bytes.
func checkPrefixDecode(rep *Reporter, p string, maxLen int, data []byte) {
	line := fmt.Sprintf("P %s dec %d %s", p, maxLen, gen.H(data))
	safely(rep, line, func() {
		pr := impl.Prefixer(p)
		in := append([]byte{}, data...)
		n, read, err := pr.DecodeLength(maxLen, in)
		if !bytes.Equal(in, data) {
			rep.Viol("DecodeLength modified the bytes it was given", line, fmt.Sprintf("before %x after %x", data, in))
		}
		w, _ := prefWidthAlphabet(p)
		key := ""
		if err == nil {
			key = line
		}
		rep.Case(key)
		if err != nil {
			return
		}
		if n < 0 {
			rep.Viol("DecodeLength returned a negative length", line, fmt.Sprint(n))
		}
		if p == "none" {
			return
		}
		if n > maxLen && !(p == "ber" && maxLen == 0) {
			rep.Viol("DecodeLength returned a length above the maximum", line, fmt.Sprint(n))
		}
		if p != "ber" && read != w {
			rep.Viol("DecodeLength consumed a different number of bytes than the prefix width", line, fmt.Sprint(read))
		}
		if read > len(data) {
			rep.Viol("DecodeLength claims to have read more bytes than given", line, fmt.Sprint(read))
		}
		if p != "ber" && len(data) < w {
			rep.Viol("DecodeLength accepted a prefix that is too short", line, "")
			return
		}
		// the accepted prefix is a number in the prefixer's alphabet, DecodeLength returns that
		// number and (BER) consumes exactly the bytes of the length form
		if want, wantRead, numeric, known := refPrefixNumber(p, data); known {
			switch {
			case !numeric:
				rep.Viol("DecodeLength accepted a prefix that is not a number in the prefixer's alphabet", line, fmt.Sprintf("returned %d", n))
			case want.IsInt64() && int(want.Int64()) != n:
				rep.Viol("DecodeLength returned a different number than the prefix denotes", line, fmt.Sprintf("returned %d, the prefix denotes %s", n, want))
			case !want.IsInt64():
				rep.Viol("DecodeLength accepted a length that does not fit an int", line, fmt.Sprintf("returned %d, the prefix denotes %s", n, want))
			case read != wantRead:
				rep.Viol("DecodeLength consumed a different number of bytes than the length form occupies", line, fmt.Sprintf("read %d, the length form has %d bytes", read, wantRead))
			}
		}
	})
}

// refPrefixNumber reads a length prefix from the documented formats alone. known=false: no
// reference for this prefixer (Fixed, None); numeric=false: the bytes are not a number in the
// prefixer's alphabet. Decimal text may carry a leading sign (strconv.Atoi reads it: "+5" is 5, "-0" is 0; a
// negative number must be refused by DecodeLength anyway).
func refPrefixNumber(p string, data []byte) (val *big.Int, read int, numeric, known bool) {
	if p == "ber" {
		if len(data) == 0 {
			return nil, 0, false, true
		}
		if data[0] < 0x80 {
			return big.NewInt(int64(data[0])), 1, true, true
		}
		k := int(data[0] & 0x7F)
		if len(data) < 1+k {
			return nil, 0, false, true
		}
		return new(big.Int).SetBytes(data[1 : 1+k]), 1 + k, true, true
	}
	parts := strings.Split(p, ".")
	if len(parts) != 2 || parts[1] == "F" {
		return nil, 0, false, false
	}
	d, _ := strconv.Atoi(parts[1])
	w, _ := prefWidthAlphabet(p)
	if len(data) < w {
		return nil, 0, false, true
	}
	pre := data[:w]
	decimal := func(txt []byte) (v *big.Int, ok bool) {
		neg := false
		if len(txt) > 0 && (txt[0] == '+' || txt[0] == '-') {
			neg = txt[0] == '-'
			txt = txt[1:]
		}
		if len(txt) == 0 {
			return nil, false
		}
		defer func() {
			if neg && v != nil {
				v.Neg(v)
			}
		}()
		v = new(big.Int)
		for _, c := range txt {
			if c < '0' || c > '9' {
				return nil, false
			}
			v.Mul(v, big.NewInt(10)).Add(v, big.NewInt(int64(c-'0')))
		}
		return v, true
	}
	switch parts[0] {
	case "ascii":
		v, ok := decimal(pre)
		return v, w, ok, true
	case "ebcdic", "ebcdic1047":
		txt := make([]byte, len(pre))
		for i, b := range pre {
			switch {
			case b >= 0xF0 && b <= 0xF9:
				txt[i] = '0' + (b - 0xF0)
			case b == 0x4E:
				txt[i] = '+'
			case b == 0x60:
				txt[i] = '-'
			default:
				return nil, w, false, true
			}
		}
		v, ok := decimal(txt)
		return v, w, ok, true
	case "bcd":
		// d digits right-aligned in ceil(d/2) bytes; with an odd d the leading nibble is a filler the
		// decoder does not look at (no verdict when it is not a decimal digit)
		var nib []byte
		for _, b := range pre {
			nib = append(nib, b>>4, b&0xF)
		}
		if d%2 == 1 {
			if nib[0] > 9 {
				return nil, 0, false, false
			}
			nib = nib[1:]
		}
		v := new(big.Int)
		for _, x := range nib {
			if x > 9 {
				return nil, w, false, true
			}
			v.Mul(v, big.NewInt(10)).Add(v, big.NewInt(int64(x)))
		}
		return v, w, true, true
	case "binary":
		return new(big.Int).SetBytes(pre), w, true, true
	case "hex":
		v := new(big.Int)
		for _, c := range pre {
			var x byte
			switch {
			case c >= '0' && c <= '9':
				x = c - '0'
			case c >= 'a' && c <= 'f':
				x = c - 'a' + 10
			case c >= 'A' && c <= 'F':
				x = c - 'A' + 10
			default:
				return nil, w, false, true
			}
			v.Mul(v, big.NewInt(16)).Add(v, big.NewInt(int64(x)))
		}
		return v, w, true, true
	}
	return nil, 0, false, false
}

func runC06(t gen.Tier, r *gen.Rng, rep *Reporter) {
	boundary := []int{0, 1, 9, 10, 99, 100, 127, 128, 255, 256, 999, 1000, 9999, 10000, 65535, 65536, 99999, 100000, 999999, 1000000,
		16777215, 16777216, 1<<32 - 1, 1 << 32, 1<<32 + 1, 1<<40 - 1, 1 << 40, 1<<48 - 1, 1 << 48, 1<<62 + 1}
	for _, p := range gen.AllPrefixers() {
		ns := append([]int{}, boundary...)
		lim := t.N(3000, 1000000)
		capa := capacityOf(p)
		if capa >= 0 && capa+2 < lim {
			lim = capa + 2
		}
		for n := 0; n < lim; n++ {
			ns = append(ns, n)
		}
		for i := 0; i < t.N(200, 5000); i++ {
			ns = append(ns, int(r.U64()%(1<<33)))
		}
		for i, n := range ns {
			checkPrefix(rep, p, n, n)
			if i < len(boundary)+1500 || i%53 == 0 {
				checkPrefix(rep, p, n+1, n)
				checkPrefix(rep, p, 1<<62, n)
				if n > 0 {
					checkPrefix(rep, p, n-1, n)
				}
				checkPrefix(rep, p, 0, n)
			}
		}
		w, _ := prefWidthAlphabet(p)
		if p == "ber" {
			w = 3
		}
		for a := 0; a < 256 && w >= 1; a++ {
			checkPrefixDecode(rep, p, 1<<62, []byte{byte(a)})
			checkPrefixDecode(rep, p, 5, []byte{byte(a), 0x30})
		}
		for i := 0; i < t.N(3000, 100000); i++ {
			l := w
			if r.Intn(6) == 0 {
				l = r.Intn(w + 2)
			}
			var d []byte
			if r.Bool() {
				d = r.From([]byte("0123456789+-abcdefABCDEF \xf0\xf1\xf9\x60\x4e\x0f\xff\x00"), l)
			} else {
				d = r.Bytes(l)
			}
			checkPrefixDecode(rep, p, gen.Pick(r, []int{0, 5, 99, 1 << 20, 1 << 62}), d)
		}
	}
	for k := 0; k <= 127; k++ {
		for v := 0; v < 3; v++ {
			body := make([]byte, k)
			if v == 1 {
				for i := range body {
					body[i] = 0xFF
				}
			} else if v == 2 {
				copy(body, r.Bytes(k))
			}
			d := append([]byte{byte(0x80 | k)}, body...)
			checkPrefixDecode(rep, "ber", 0, d)
			checkPrefixDecode(rep, "ber", 1000, append(d, 1, 2))
			if k > 0 {
				checkPrefixDecode(rep, "ber", 0, d[:len(d)-1])
			}
		}
	}
	rep.Sample("P binary.5 enc 300 300 => width 5, decodes back to (300, 5) with and without trailing bytes")
}

// checkSeqStable: a `Q` line (operations on shared padders / encoder / prefixer singletons, results
// read after the last one): every result must be what the same operation gives on its own — a
// result that a later call changed, or that depends on an earlier call, breaks the per-call laws.
func checkSeqStable(rep *Reporter, line string) {
	t := strings.Split(line, " ")
	if len(t) != 2 || t[0] != "Q" {
		return
	}
	safely(rep, line, func() {
		res := impl.Run(line)
		subs := strings.Split(t[1], "|")
		parts := strings.Split(res, " | ")
		rep.Case(line)
		if len(parts) != len(subs) {
			return
		}
		for i, sub := range subs {
			alone := impl.Run(strings.ReplaceAll(sub, ",", " "))
			if alone != parts[i] {
				rep.Viol("the result of an operation on a shared padder / encoder / prefixer depends on the calls before it or was changed by a call after it", line,
					fmt.Sprintf("operation %d (%s): in the sequence %q, on its own %q", i+1, sub, parts[i], alone))
				return
			}
		}
		// and the per-call laws still hold AFTER the sequence (whatever the sequence left behind in the
		// process — a table overwritten through the spare capacity of a result — shows here)
		for _, sub := range subs {
			f := strings.Split(sub, ",")
			if len(f) == 5 && f[0] == "P" && f[2] == "enc" && impl.Prefixer(f[1]) != nil {
				maxLen, e1 := strconv.Atoi(f[3])
				n, e2 := strconv.Atoi(f[4])
				if e1 == nil && e2 == nil {
					checkPrefix(rep, f[1], maxLen, n)
					checkPrefix(rep, f[1], maxLen, n+1)
				}
			}
		}
	})
}

func linesC06(lines []string, rep *Reporter) {
	for _, l := range lines {
		checkSeqStable(rep, l)
		t := strings.Split(l, " ")
		if len(t) != 5 || t[0] != "P" || impl.Prefixer(t[1]) == nil {
			continue
		}
		maxLen, _ := strconv.Atoi(t[3])
		if t[2] == "enc" {
			n, _ := strconv.Atoi(t[4])
			checkPrefix(rep, t[1], maxLen, n)
		} else {
			d, _ := impl.UnHex(t[4])
			checkPrefixDecode(rep, t[1], maxLen, d)
			// also: is this a canonical prefix of some n? then it must decode to n
			if n, _, err := impl.Prefixer(t[1]).DecodeLength(maxLen, d); err == nil && n >= 0 {
				checkPrefix(rep, t[1], maxLen, n)
			}
			for _, n := range []int{0, 1, 9, 10, 127, 128, 255, 256, 300, 65535, 65536, 1 << 24, 1<<32 + 5} {
				checkPrefix(rep, t[1], 1<<62, n)
			}
		}
	}
}

// ---------------------------------------------------------------- C07 encodings

// independent layouts
func refBCD(digits []byte, left bool) []byte {
	d := append([]byte{}, digits...)
	if len(d)%2 == 1 {
		if left {
			d = append(d, '0')
		} else {
			d = append([]byte{'0'}, d...)
		}
	}
	out := make([]byte, len(d)/2)
	for i := range out {
		out[i] = (d[2*i]-'0')<<4 | (d[2*i+1] - '0')
	}
	return out
}

const hexUpper = "0123456789ABCDEF"

func refHex(b []byte) []byte {
	out := make([]byte, 0, 2*len(b))
	for _, x := range b {
		out = append(out, hexUpper[x>>4], hexUpper[x&0xF])
	}
	return out
}

func inDomain(e string, x []byte) bool {
	switch e {
	case "ascii", "ebcdic1047":
		for _, c := range x {
			if c > 127 {
				return false
			}
		}
	case "bcd", "lbcd":
		for _, c := range x {
			if c < '0' || c > '9' {
				return false
			}
		}
	case "hexToBytes", "berTag":
		if len(x)%2 != 0 {
			return false
		}
		for _, c := range x {
			if !((c >= '0' && c <= '9') || (c >= 'a' && c <= 'f') || (c >= 'A' && c <= 'F')) {
				return false
			}
		}
	}
	return true
}

func berTagValid(tag []byte) bool {
	if len(tag) == 0 {
		return false
	}
	if tag[0]&0x1F != 0x1F {
		return len(tag) == 1
	}
	if len(tag) < 2 {
		return false
	}
	for i := 1; i < len(tag)-1; i++ {
		if tag[i]&0x80 == 0 {
			return false
		}
	}
	return tag[len(tag)-1]&0x80 == 0
}

func checkEnc(rep *Reporter, e string, x []byte) {
	line := fmt.Sprintf("E %s enc %s", e, gen.H(x))
	safely(rep, line, func() {
		enc := impl.Encoders[e]
		in := append([]byte{}, x...)
		y, err := enc.Encode(in)
		if !bytes.Equal(in, x) {
			rep.Viol("Encode modified its input", line, "")
		}
		dom := inDomain(e, x)
		key := ""
		if err == nil {
			key = line
		}
		rep.Case(key)
		if !dom {
			if err == nil && (e == "bcd" || e == "lbcd" || e == "hexToBytes" || e == "berTag" || e == "ascii") {
				rep.Viol("Encode accepted an out-of-domain value", line, fmt.Sprintf("%x", y))
			}
			if err == nil && e == "ebcdic1047" {
				// the repertoire of code page 1047 is Latin-1: text that is not valid UTF-8 or has a
				// character beyond U+00FF has no encoding
				bad := !utf8.Valid(x)
				for _, r := range string(x) {
					if r > 0xFF {
						bad = true
					}
				}
				if bad {
					rep.Viol("Encode accepted an out-of-domain value", line, fmt.Sprintf("%x (not text of the code page's repertoire)", y))
				}
			}
			return
		}
		if err != nil {
			rep.Viol("Encode rejected an in-domain value", line, err.Error())
			return
		}
		// layouts
		switch e {
		case "bcd":
			if !bytes.Equal(y, refBCD(x, false)) {
				rep.Viol("BCD layout is not two digits per byte, high nibble first, zero-filled on the left", line, fmt.Sprintf("%x", y))
			}
		case "lbcd":
			if !bytes.Equal(y, refBCD(x, true)) {
				rep.Viol("LBCD layout is not two digits per byte, high nibble first, zero-filled on the right", line, fmt.Sprintf("%x", y))
			}
		case "bytesToHex":
			if !bytes.Equal(y, refHex(x)) {
				rep.Viol("hex layout is not upper-case two digits per byte", line, fmt.Sprintf("%x", y))
			}
		case "ascii", "binary":
			if !bytes.Equal(y, x) {
				rep.Viol("identity encoding changed the value", line, fmt.Sprintf("%x", y))
			}
		case "ebcdic", "ebcdic1047":
			if len(y) != len(x) {
				rep.Viol("EBCDIC encoding is not one byte per character", line, fmt.Sprintf("%x", y))
			}
		}
		// inverse with trailing bytes
		units := len(x)
		canon := x
		switch e {
		case "hexToBytes":
			units = len(y)
			canon = []byte(strings.ToUpper(string(x)))
		case "berTag":
			if !berTagValid(y) {
				return // not a BER tag: the tag decoder is only an inverse on valid tags
			}
			units = len(y)
			canon = []byte(strings.ToUpper(string(x)))
		}
		for _, tail := range [][]byte{nil, {0x31}, {0xFF, 0x00, 0x4F}} {
			data := append(append([]byte{}, y...), tail...)
			dl := fmt.Sprintf("E %s dec %d %s", e, units, gen.H(data))
			v, read, derr := enc.Decode(data, units)
			rep.Case(dl)
			if derr != nil {
				rep.Viol("Decode rejects what Encode produced", dl, derr.Error())
			} else if !bytes.Equal(v, canon) || read != len(y) {
				rep.Viol("Decode(Encode(x)) != (x, encoded length)", dl, fmt.Sprintf("value=%x read=%d, want %x %d", v, read, canon, len(y)))
			}
		}
	})
}

func checkDec(rep *Reporter, e string, n int, data []byte) {
	line := fmt.Sprintf("E %s dec %d %s", e, n, gen.H(data))
	safely(rep, line, func() {
		enc := impl.Encoders[e]
		in := append([]byte{}, data...)
		v, read, err := enc.Decode(in, n)
		if !bytes.Equal(in, data) {
			rep.Viol("Decode modified its input", line, "")
		}
		key := ""
		if err == nil {
			key = line
		}
		rep.Case(key)
		if err != nil {
			return
		}
		if e != "berTag" && n < 0 {
			rep.Viol("Decode accepted a negative length", line, "")
			return
		}
		if read < 0 || read > len(data) {
			rep.Viol("Decode reports reading more bytes than it was given", line, fmt.Sprint(read))
			return
		}
		// never a wrong value: result must re-encode to exactly the bytes consumed (canonical case) and be in the alphabet
		switch e {
		case "bcd", "lbcd":
			if len(v) != n {
				rep.Viol("BCD Decode returned a value of the wrong length", line, fmt.Sprintf("%q", v))
			}
			for _, c := range v {
				if c < '0' || c > '9' {
					rep.Viol("BCD Decode returned a non-digit", line, fmt.Sprintf("%q", v))
					break
				}
			}
			if read != (n+1)/2 {
				rep.Viol("BCD Decode read count is not ceil(n/2)", line, fmt.Sprint(read))
			}
		case "ascii":
			if !bytes.Equal(v, data[:n]) || read != n {
				rep.Viol("ASCII Decode returned a wrong value", line, "")
			}
			for _, c := range v {
				if c > 127 {
					rep.Viol("ASCII Decode returned a non-ASCII byte", line, "")
					break
				}
			}
		case "binary":
			if !bytes.Equal(v, data[:n]) || read != n {
				rep.Viol("Binary Decode returned a wrong value", line, "")
			}
		case "bytesToHex":
			if read != 2*n || len(v) != n || !bytes.Equal(refHex(v), []byte(strings.ToUpper(string(data[:read])))) {
				rep.Viol("BytesToASCIIHex Decode returned a wrong value", line, fmt.Sprintf("%x", v))
			}
		case "hexToBytes":
			if read != n || !bytes.Equal(v, refHex(data[:n])) {
				rep.Viol("ASCIIHexToBytes Decode returned a wrong value", line, fmt.Sprintf("%x", v))
			}
		case "berTag":
			if !berTagValid(data[:read]) || !bytes.Equal(v, refHex(data[:read])) {
				rep.Viol("BER tag Decode does not follow the continuation rule", line, fmt.Sprintf("read=%d value=%s", read, v))
			}
		case "ebcdic":
			if read != n || len(v) != n {
				rep.Viol("EBCDIC Decode length mismatch", line, "")
			}
			// the tables are bijections: what was decoded encodes back to the bytes consumed
			if back, err := enc.Encode(v); err != nil || !bytes.Equal(back, data[:read]) {
				rep.Viol("EBCDIC Decode returned a value that does not encode back to the bytes it consumed", line, fmt.Sprintf("value %x encodes to %x (err %v)", v, back, err))
			}
		case "ebcdic1047":
			if read != n {
				rep.Viol("EBCDIC1047 Decode read mismatch", line, "")
			}
			// code page 1047 is a bijection between the 256 bytes and 256 characters: n bytes
			// decode to n characters, which encode back to the bytes consumed
			if utf8.RuneCount(v) != n {
				rep.Viol("EBCDIC1047 Decode returned a different number of characters than units requested", line, fmt.Sprintf("%d characters (%x) for %d units", utf8.RuneCount(v), v, n))
			} else if back, err := enc.Encode(v); err != nil || !bytes.Equal(back, data[:read]) {
				rep.Viol("EBCDIC1047 Decode returned a value that does not encode back to the bytes it consumed", line, fmt.Sprintf("value %x encodes to %x (err %v)", v, back, err))
			}
		}
	})
}

func runC07(t gen.Tier, r *gen.Rng, rep *Reporter) {
	for _, e := range gen.EncNames {
		var alpha []byte
		switch e {
		case "bcd", "lbcd":
			alpha = []byte("0123456789")
		case "hexToBytes", "berTag":
			alpha = []byte("0123456789ABCDEFabcdef")
		default:
			alpha = []byte{'0', '9', 'A', 'z', ' ', 0x00, 0x7F, 0x80, 0xFF, '='}
		}
		maxLen := t.N(3, 4)
		if len(alpha) > 12 {
			maxLen = t.N(2, 3)
		}
		var rec func(cur []byte)
		rec = func(cur []byte) {
			checkEnc(rep, e, cur)
			if len(cur) == maxLen {
				return
			}
			for _, a := range alpha {
				rec(append(append([]byte{}, cur...), a))
			}
		}
		rec(nil)
		for b := 0; b < 256; b++ {
			checkEnc(rep, e, []byte{byte(b)})
			checkEnc(rep, e, []byte{'1', byte(b)})
			checkDec(rep, e, 1, []byte{byte(b)})
			checkDec(rep, e, 2, []byte{byte(b), 0x12})
			checkDec(rep, e, 3, []byte{0x12, byte(b)})
			checkDec(rep, e, 1, []byte{byte(b), 0x4F})
		}
		for i := 0; i < t.N(300, 10000); i++ {
			l := r.Intn(14)
			if r.Intn(15) == 0 {
				l = r.Intn(2001)
			}
			x := r.From(alpha, l)
			checkEnc(rep, e, x)
			d := r.Bytes(r.Intn(10))
			checkDec(rep, e, r.Intn(14)-1, d)
		}
		for _, n := range []int{-1, -1 << 63, 1 << 31, 1 << 62, 1<<62 + 1, 1<<63 - 2, 1<<63 - 1} {
			checkDec(rep, e, n, []byte("1234"))
			checkDec(rep, e, n, nil)
		}
	}
	// EBCDIC tables: bijection and agreement with CP500/CP1047 on letters, digits, common punctuation
	checkEbcdicTables(rep)
	rep.Sample("E bcd enc 313233 => 0123; dec 3 of 0123||tail => (\"123\", 2)")
}

// reference code points (IBM CP500 / CP1047 agree on these): letters, digits, space and common punctuation
var ebcdicRef = map[byte]byte{
	' ': 0x40, '.': 0x4B, '<': 0x4C, '(': 0x4D, '+': 0x4E, '&': 0x50, '$': 0x5B, '*': 0x5C, ')': 0x5D, ';': 0x5E,
	'-': 0x60, '/': 0x61, ',': 0x6B, '%': 0x6C, '_': 0x6D, '>': 0x6E, '?': 0x6F, ':': 0x7A, '#': 0x7B, '@': 0x7C,
	'\'': 0x7D, '=': 0x7E, '"': 0x7F,
}

func init() {
	for i := 0; i < 9; i++ {
		ebcdicRef['a'+byte(i)] = 0x81 + byte(i)
		ebcdicRef['j'+byte(i)] = 0x91 + byte(i)
		ebcdicRef['A'+byte(i)] = 0xC1 + byte(i)
		ebcdicRef['J'+byte(i)] = 0xD1 + byte(i)
	}
	for i := 0; i < 8; i++ {
		ebcdicRef['s'+byte(i)] = 0xA2 + byte(i)
		ebcdicRef['S'+byte(i)] = 0xE2 + byte(i)
	}
	for i := 0; i < 10; i++ {
		ebcdicRef['0'+byte(i)] = 0xF0 + byte(i)
	}
}

func checkEbcdicTables(rep *Reporter) {
	for _, e := range []string{"ebcdic", "ebcdic1047"} {
		enc := impl.Encoders[e]
		seen := map[byte]int{}
		lim := 256
		if e == "ebcdic1047" {
			lim = 128
		}
		for c := 0; c < lim; c++ {
			line := fmt.Sprintf("E %s enc %02x", e, c)
			y, err := enc.Encode([]byte{byte(c)})
			rep.Case(line)
			if err != nil || len(y) != 1 {
				rep.Viol("EBCDIC table is not total on its domain", line, "")
				continue
			}
			if prev, dup := seen[y[0]]; dup {
				rep.Viol("EBCDIC table is not injective", line, fmt.Sprintf("%02x and %02x both map to %02x", prev, c, y[0]))
			}
			seen[y[0]] = c
			if want, ok := ebcdicRef[byte(c)]; ok && y[0] != want {
				rep.Viol("EBCDIC table disagrees with code page 500/1047", line, fmt.Sprintf("got %02x want %02x", y[0], want))
			}
			v, _, err := enc.Decode(y, 1)
			if err != nil || len(v) != 1 || v[0] != byte(c) {
				rep.Viol("EBCDIC decode table is not the inverse of the encode table", line, fmt.Sprintf("%x", v))
			}
		}
	}
}

func linesC07(lines []string, rep *Reporter) {
	for _, l := range lines {
		checkSeqStable(rep, l)
		t := strings.Split(l, " ")
		if len(t) < 4 || t[0] != "E" || impl.Encoders[t[1]] == nil {
			continue
		}
		if t[2] == "enc" {
			x, _ := impl.UnHex(t[3])
			checkEnc(rep, t[1], x)
		} else if len(t) == 5 {
			n, _ := strconv.Atoi(t[3])
			d, _ := impl.UnHex(t[4])
			checkDec(rep, t[1], n, d)
			// if the data is the encoding of some value, check the inverse law at that value
			if v, _, err := impl.Encoders[t[1]].Decode(d, n); err == nil {
				checkEnc(rep, t[1], v)
			}
		}
	}
	checkEbcdicTables(rep)
}
