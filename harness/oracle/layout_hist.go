package oracle

// C03 along a history of ONE message object: the bytes Pack produces are the reference layout
// of what the message holds NOW — after a first Pack, after more data elements were written
// through another entry point (Marshal or JSON decode), and after some were unset again.
// (The line-at-a-time cases populate a new message and pack it once; state that Pack keeps
// between calls — a cached id list, a bitmap that is not rebuilt — only shows in a history.)

import (
	"encoding/json"
	"fmt"
	"strconv"

	"github.com/moov-io/iso8583"

	"verif/harness/impl"
)

// layRefOf: reference bytes of a content tree under a spec tree (nil when no layout is defined
// or the reference rejects the trees)
func layRefOf(st, mt *impl.Tree) (ref []byte, defined bool) {
	wf := layRefGuard(func() {
		ref, defined = layRefEncodeMsgV(layRefMsgSpecOf(st), layRefMsgOf(mt))
	})
	if !wf {
		return nil, false
	}
	return ref, defined
}

func layCheckC03History(line string, st, mt *impl.Tree, rep *Reporter) {
	if mt.Name != "msg" || len(mt.Kids) < 3 || mt.Kids[0].Name == "-" {
		return
	}
	fs := mt.Kids[1:]
	cut := 1 + (len(line)+len(fs))%(len(fs)-1) // deterministic split, both halves non-empty
	partA := impl.N("msg", append([]*impl.Tree{mt.Kids[0]}, fs[:cut]...)...)
	partB := impl.N("msg", append([]*impl.Tree{impl.A("-")}, fs[cut:]...)...)
	refA, defA := layRefOf(st, partA)
	refAll, defAll := layRefOf(st, mt)
	if !defA || !defAll {
		return
	}
	viaJSON := (len(line)/3)%2 == 0
	safely(rep, line, func() {
		spec, ok := impl.MsgSpecOfTree(st)
		if !ok {
			return
		}
		m := iso8583.NewMessage(spec)
		if !impl.SetMsg(m, partA) {
			return
		}
		got, err := m.Pack()
		if err != nil || !layBytesEq(got, refA) {
			return // the one-shot case reports this
		}
		how := "Marshal"
		if viaJSON {
			how = "JSON decode"
			spec2, _ := impl.MsgSpecOfTree(st)
			src := iso8583.NewMessage(spec2)
			if !impl.SetMsg(src, partB) {
				return
			}
			doc, err := json.Marshal(src)
			if err != nil {
				return
			}
			var members map[string]json.RawMessage
			if json.Unmarshal(doc, &members) != nil {
				return
			}
			delete(members, "1") // the bitmap of the source message is not content
			delete(members, "0")
			doc, _ = json.Marshal(members)
			// JSON carries text: use this route only for content that survives it (valid UTF-8
			// text values - C12's own domain), judged on a NEW message
			spec3, _ := impl.MsgSpecOfTree(st)
			probe := iso8583.NewMessage(spec3)
			if json.Unmarshal(doc, probe) != nil {
				return
			}
			pb, perr := probe.Pack()
			sb, serr := src.Pack()
			if perr != nil || serr != nil || !layBytesEq(pb, sb) {
				return
			}
			if json.Unmarshal(doc, m) != nil {
				return
			}
		} else if !impl.SetMsg(m, partB) {
			return
		}
		rep.Case(line + " #history")
		layC03Stats["history cases (Pack; write more through "+how+"; Pack; unset; Pack)"]++
		got2, err2 := m.Pack()
		if err2 != nil || !layBytesEq(got2, refAll) {
			rep.Viol("after a Pack, more data elements written through "+how+", Pack bytes differ from the reference layout of the message's content", line,
				fmt.Sprintf("first=%s then=%s Pack=%s reference=%s", partA.String(), partB.String(), layHexOrNone(got2, err2 == nil), impl.Hex(refAll)))
			return
		}
		for _, f := range fs[cut:] {
			id, _ := strconv.Atoi(f.Kids[0].Name)
			m.UnsetField(id)
		}
		got3, err3 := m.Pack()
		if err3 != nil || !layBytesEq(got3, refA) {
			rep.Viol("after data elements were unset again, Pack bytes differ from the reference layout of the message's content", line,
				fmt.Sprintf("content=%s Pack=%s reference=%s", partA.String(), layHexOrNone(got3, err3 == nil), impl.Hex(refA)))
		}
	})
}
