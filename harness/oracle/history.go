package oracle

// C10 / C14 / C15 — the history properties, evaluated on the real implementation.
//
// A case is a message spec (tree syntax) and a history (op tokens of channel H). Every
// violation is reported with the H line that replays it; a trailing `#<class>` token marks
// the two classes recorded in KNOWN_FINDINGS.txt (the token is ignored by the H handlers):
//
//	#describe-stale-bitmap              Describe prints the bitmap of the last Pack / Unpack
//	#failed-decode-residue              a decoder that stopped half-way left subfields in an
//	                                    unmarked composite; a later Marshal shows them

import (
	"bytes"
	"encoding/json"
	"fmt"
	"reflect"
	"sort"
	"strconv"
	"strings"
	"time"

	"github.com/moov-io/iso8583"
	"github.com/moov-io/iso8583/encoding"
	"github.com/moov-io/iso8583/field"
	"github.com/moov-io/iso8583/prefix"

	"verif/harness/gen"
	"verif/harness/impl"
)

func init() {
	Registry["C10"] = &Oracle{Run: runC10, Lines: historyLines(checkC10History)}
	Registry["C14"] = &Oracle{Run: runC14, Lines: historyLines(checkC14History)}
	Registry["C15"] = &Oracle{Run: runC15, Lines: func(lines []string, rep *Reporter) {
		historyLines(checkC15History)(lines, rep)
		for _, l := range lines {
			if t := strings.Split(l, " "); len(t) == 4 && t[0] == "Y" && t[2] == "packobs" {
				checkTrackReadOnly(rep, t[1], t[3])
			}
		}
	}}
}

// ---------------------------------------------------------------- helpers

type hcase struct {
	specS string
	spec  *iso8583.MessageSpec
	ops   []string
}

func (c *hcase) line(ops []string, note string) string {
	l := "H " + c.specS + " " + strings.Join(ops, ";")
	if note != "" {
		l += " #" + note
	}
	return l
}

func newCase(specS string, ops []string) (*hcase, bool) {
	if specS == "@" {
		specS = impl.HFixedSpec
	}
	st, ok := impl.ParseTree(specS)
	if !ok {
		return nil, false
	}
	spec, ok := impl.MsgSpecOfTree(st)
	if !ok {
		return nil, false
	}
	return &hcase{specS: specS, spec: spec, ops: ops}, true
}

func historyLines(check func(rep *Reporter, c *hcase)) func(lines []string, rep *Reporter) {
	return func(lines []string, rep *Reporter) {
		for _, l := range lines {
			t := strings.Split(l, " ")
			if len(t) < 3 || (t[0] != "H" && t[0] != "Hl" && t[0] != "Hh") {
				continue
			}
			c, ok := newCase(t[1], strings.Split(t[2], ";"))
			if !ok {
				continue
			}
			// every prefix is a history of its own
			for k := 1; k <= len(c.ops); k++ {
				check(rep, &hcase{specS: c.specS, spec: c.spec, ops: c.ops[:k]})
			}
		}
	}
}

type snap struct {
	I, V, P, J string
}

func (s snap) String() string { return "I=" + s.I + " V=" + s.V + " P=" + s.P + " J=" + s.J }

func idsOfMsg(m *iso8583.Message) []int {
	fs := m.GetFields()
	ids := make([]int, 0, len(fs))
	for id := range fs {
		ids = append(ids, id)
	}
	sort.Ints(ids)
	return ids
}

func idsStr(ids []int) string {
	parts := make([]string, len(ids))
	for i, id := range ids {
		parts[i] = strconv.Itoa(id)
	}
	return strings.Join(parts, ",")
}

func protect(f func() string) (res string) {
	defer func() {
		if x := recover(); x != nil {
			res = fmt.Sprint("panic: ", x)
		}
	}()
	return f()
}

// observe reads GetFields, values, Pack, JSON (in this order; Pack and JSON disturb the message).
func observe(m *iso8583.Message) snap {
	var s snap
	s.I = protect(func() string { return idsStr(idsOfMsg(m)) })
	s.V = protect(func() string { return impl.MsgTree(m).String() })
	s.P = protect(func() string {
		b, err := m.Pack()
		if err != nil {
			return "err"
		}
		return "ok:" + impl.Hex(b)
	})
	s.J = protect(func() string {
		b, err := json.Marshal(m)
		if err != nil {
			return "err"
		}
		return string(b)
	})
	return s
}

func describeText(m *iso8583.Message) string {
	return protect(func() string {
		var buf bytes.Buffer
		if err := iso8583.Describe(m, &buf, iso8583.DoNotFilterFields()...); err != nil {
			return "err: " + buf.String()
		}
		return buf.String()
	})
}

// describe text without the bitmap lines (of the message and of bitmapped composites)
func describeNoBitmap(s string) string {
	var out []string
	skip := false
	for _, l := range strings.Split(s, "\n") {
		if strings.HasPrefix(l, "Bitmap HEX") {
			continue
		}
		if strings.HasPrefix(l, "Bitmap bits") {
			skip = true
			continue
		}
		if skip && (strings.TrimSpace(l) == "" || strings.HasPrefix(strings.TrimLeft(l, " "), "[")) {
			continue
		}
		skip = false
		out = append(out, l)
	}
	return strings.Join(out, "\n")
}

// replayChecked replays ops and reports whether every `clone` among the last n ops succeeded
func (c *hcase) replayChecked(ops []string, n int) (*impl.HState, bool) {
	st := &impl.HState{Cur: iso8583.NewMessage(c.spec)}
	ok := true
	for i, op := range ops {
		res := impl.ApplyOp(st, op)
		if op == "clone" && i >= len(ops)-n && res != "ok" {
			ok = false
		}
	}
	return st, ok
}

func (c *hcase) replay(ops []string) *impl.HState {
	st, _ := impl.Replay(c.spec, ops)
	return st
}

func with(ops []string, more ...string) []string {
	return append(append([]string{}, ops...), more...)
}

// ---------------------------------------------------------------- generated cases

func fixedCase(ops []string) *hcase {
	c, _ := newCase(gen.HFixedSpec, ops)
	return c
}

func randomFixedOps(r *gen.Rng, n int, boundary bool) []string {
	alpha := gen.HAlphabet()
	if boundary {
		alpha = append(append([]string{}, alpha...), gen.HBoundary()...)
	}
	ops := make([]string, n)
	for i := range ops {
		ops[i] = alpha[r.Intn(len(alpha))]
	}
	return ops
}

func randomGenCase(r *gen.Rng, g *gen.FieldGen, n int) *hcase {
	spec := g.MsgSpec(1 + r.Intn(3))
	ops := gen.HRandomOps(g, spec, n)
	c, ok := newCase(spec.String(), ops)
	if !ok {
		return nil
	}
	return c
}

func forCases(t gen.Tier, r *gen.Rng, nFixed, nBoundary, nGen int, f func(c *hcase)) {
	for i := 0; i < nFixed; i++ {
		f(fixedCase(randomFixedOps(r, 2+r.Intn(6), false)))
	}
	for i := 0; i < nBoundary; i++ {
		f(fixedCase(randomFixedOps(r, 2+r.Intn(6), true)))
	}
	g := gen.NewFieldGen(r)
	for i := 0; i < nGen; i++ {
		if c := randomGenCase(r, g, 3+r.Intn(t.N(8, 14))); c != nil {
			f(c)
		}
	}
}

// ---------------------------------------------------------------- C10

// a packed input for the spec with a random subset of fields / subfields
func randomWire(c *hcase, g *gen.FieldGen) ([]byte, bool) {
	st, _ := impl.ParseTree(c.specS)
	res := impl.Run("M " + c.specS + " pack " + g.Msg(st).String())
	if !strings.HasPrefix(res, "ok ") {
		return nil, false
	}
	b, ok := impl.UnHex(strings.TrimPrefix(res, "ok "))
	return b, ok
}

func checkUnpackForgets(rep *Reporter, c *hcase, wire []byte) {
	op := "upk:" + impl.Hex(wire)
	line := c.line(with(c.ops, op), "")
	safely(rep, line, func() {
		used := c.replay(c.ops)
		fresh := c.replay(nil)
		e1 := protect(func() string { return fmt.Sprint(used.Cur.Unpack(wire) == nil) })
		e2 := protect(func() string { return fmt.Sprint(fresh.Cur.Unpack(wire) == nil) })
		key := ""
		if e2 == "true" && len(c.ops) > 0 {
			key = line
		}
		rep.Case(key)
		if e1 != e2 {
			rep.Viol("Unpack into a used message returns a different result than into a new one", line,
				fmt.Sprintf("used: ok=%s, new: ok=%s", e1, e2))
			return
		}
		d1, d2 := describeText(used.Cur), describeText(fresh.Cur)
		s1, s2 := observe(used.Cur), observe(fresh.Cur)
		if s1 != s2 {
			rep.Viol("after Unpack a used message is observed differently from a new one", line,
				fmt.Sprintf("used: %s | new: %s", s1, s2))
		} else if d1 != d2 {
			rep.Viol("after Unpack Describe differs between a used message and a new one", line,
				fmt.Sprintf("used: %q | new: %q", d1, d2))
		} else if l1, l2 := latent(c, used.Cur), latent(c, fresh.Cur); l1 != l2 {
			rep.Viol("after Unpack a field that is not part of the message still holds a value from before (GetString of every field of the spec)", line,
				fmt.Sprintf("used: %s | new: %s", l1, l2))
		}
	})
}

// checkFieldReuse: a composite FIELD unpacked on its own (SetBytes through Message.Field) after
// the history, then a write of one member below it: the field must look like the same two steps
// on a new message ("the same holds for composite fields unpacked on their own").
func checkFieldReuse(rep *Reporter, c *hcase, forgetOp, partialOp string, id int) {
	ops := with(c.ops, forgetOp, partialOp)
	line := c.line(ops, "")
	safely(rep, line, func() {
		used := c.replay(c.ops)
		fresh := c.replay(nil)
		r1 := impl.ApplyOp(used, forgetOp)
		r2 := impl.ApplyOp(fresh, forgetOp)
		rep.Case(line)
		if r1 != r2 || r1 != "ok" {
			return
		}
		impl.ApplyOp(used, partialOp)
		impl.ApplyOp(fresh, partialOp)
		t1, t2 := impl.ValueTree(used.Cur.GetField(id)).String(), impl.ValueTree(fresh.Cur.GetField(id)).String()
		s1, _ := used.Cur.GetString(id)
		s2, _ := fresh.Cur.GetString(id)
		if t1 != t2 || s1 != s2 {
			rep.Viol("a composite field unpacked on its own (SetBytes) into a used message, then written below, differs from the same steps on a new message", line,
				fmt.Sprintf("used: %s %q | new: %s %q", t1, s1, t2, s2))
		}
	})
}

// latent: what GetString reports for every field of the spec, present or not (a field that is
// not part of the unpacked message must look the way it looks in a new message)
func latent(c *hcase, m *iso8583.Message) string {
	ids := make([]int, 0, len(c.spec.Fields))
	for id := range c.spec.Fields {
		if id != 1 {
			ids = append(ids, id)
		}
	}
	sort.Ints(ids)
	var out []string
	for _, id := range ids {
		id := id
		out = append(out, fmt.Sprintf("%d=%s", id, protect(func() string {
			s, err := m.GetString(id)
			if err != nil {
				return "err"
			}
			return fmt.Sprintf("%q", s)
		})))
	}
	return strings.Join(out, " ")
}

func checkC10History(rep *Reporter, c *hcase) {
	// inputs: the unpack ops of the history itself and the two fixed messages
	seen := map[string]bool{}
	for _, op := range c.ops {
		if strings.HasPrefix(op, "upk:") && !seen[op] {
			seen[op] = true
			if w, ok := impl.UnHex(op[4:]); ok {
				checkUnpackForgets(rep, c, w)
			}
		}
	}
}

// composites unpacked on their own, twice
func checkCompositeReuse(rep *Reporter, g *gen.FieldGen, r *gen.Rng) {
	spec := g.Comp(1+r.Intn(3), false)
	ss := spec.String()
	vA, vB := g.Value(spec, false), g.Value(spec, false)
	wA, okA := impl.UnHex(strings.TrimPrefix(impl.Run("F "+ss+" pack "+vA.String()), "ok "))
	wB, okB := impl.UnHex(strings.TrimPrefix(impl.Run("F "+ss+" pack "+vB.String()), "ok "))
	if !okA || !okB {
		rep.Case("")
		return
	}
	line := "F " + ss + " unpack " + impl.Hex(wB) + " #after-unpack-of " + impl.Hex(wA)
	safely(rep, line, func() {
		f1, _ := impl.FieldOfTree(spec)
		f2, _ := impl.FieldOfTree(spec)
		switch r.Intn(3) {
		case 0:
			f1.Unpack(wA)
		case 1:
			impl.SetValue(f1, vA)
		default:
			f1.Unpack(wA)
			f1.Unpack(wA[:len(wA)/2]) // a failing unpack in between
		}
		n1, e1 := f1.Unpack(wB)
		n2, e2 := f2.Unpack(wB)
		rep.Case(line)
		if (e1 == nil) != (e2 == nil) || n1 != n2 {
			rep.Viol("Unpack into a used composite returns a different result than into a new one", line,
				fmt.Sprintf("used: %d %v | new: %d %v", n1, e1, n2, e2))
			return
		}
		if e1 != nil {
			return
		}
		t1, t2 := impl.ValueTree(f1).String(), impl.ValueTree(f2).String()
		p1, pe1 := f1.Pack()
		p2, pe2 := f2.Pack()
		j1, _ := json.Marshal(f1)
		j2, _ := json.Marshal(f2)
		if t1 != t2 || !bytes.Equal(p1, p2) || (pe1 == nil) != (pe2 == nil) || !bytes.Equal(j1, j2) {
			rep.Viol("after Unpack a used composite differs from a new one (subfields / re-packed bytes / JSON)", line,
				fmt.Sprintf("used: %s %x %s | new: %s %x %s", t1, p1, j1, t2, p2, j2))
		}
		// SetBytes likewise
		c1, ok1 := f1.(*field.Composite)
		c2, ok2 := f2.(*field.Composite)
		if ok1 && ok2 {
			body, err := c2.Bytes()
			if err == nil {
				f3, _ := impl.FieldOfTree(spec)
				c3 := f3.(*field.Composite)
				impl.SetValue(c1, vA)
				ea, eb := c1.SetBytes(body), c3.SetBytes(body)
				if (ea == nil) != (eb == nil) || impl.ValueTree(c1).String() != impl.ValueTree(c3).String() {
					rep.Viol("SetBytes on a used composite differs from SetBytes on a new one", line,
						fmt.Sprintf("used: %s %v | new: %s %v", impl.ValueTree(c1), ea, impl.ValueTree(c3), eb))
				}
			}
		}
	})
}

// checkNestedReuse: what a rejected input leaves behind INSIDE nested composites. One composite
// object: Unpack of a valid encoding cut at some offset (it fails somewhere inside a nested
// composite), then Unpack of an encoding without the nested composites, then a Marshal that sets
// the nested composites again with only some of their leaves. A new object given the last two
// steps must look the same: nothing of the rejected input may come back.
func checkNestedReuse(rep *Reporter, g *gen.FieldGen, r *gen.Rng) {
	spec := g.Comp(2+r.Intn(2), false)
	ss := spec.String()
	vA := g.Value(spec, false)
	if vA == nil || vA.Name != "c" {
		return
	}
	vB, sp := impl.N("c"), impl.N("c")
	leaves := 0
	for _, kv := range vA.Kids {
		if len(kv.Kids) == 2 && kv.Kids[1].Name == "c" {
			n := 1 // drop the first leaf, keep the second, …
			sp.Kids = append(sp.Kids, impl.N("kv", kv.Kids[0], sparseTree(kv.Kids[1], &n)))
			leaves += n - 1
		} else {
			vB.Kids = append(vB.Kids, kv)
		}
	}
	if len(sp.Kids) == 0 || leaves < 2 {
		return
	}
	wA, okA := impl.UnHex(strings.TrimPrefix(impl.Run("F "+ss+" pack "+vA.String()), "ok "))
	wB, okB := impl.UnHex(strings.TrimPrefix(impl.Run("F "+ss+" pack "+vB.String()), "ok "))
	if !okA || !okB || len(wA) == 0 {
		return
	}
	// inputs that are rejected somewhere inside: prefixes of the valid encoding, and the valid encoding
	// with one byte changed (an inner length that no longer fits its template, a tag that is unknown, …)
	var bads [][]byte
	pos := func(k int) int {
		if len(wA) <= 48 {
			return k
		}
		return r.Intn(len(wA))
	}
	n := len(wA)
	if n > 48 {
		n = 48
	}
	for k := 0; k < n; k++ {
		i := pos(k)
		bads = append(bads, wA[:i])
		for _, d := range []byte{1, 0xFF, 3} {
			m := append([]byte{}, wA...)
			m[i] += d
			bads = append(bads, m)
		}
	}
	for _, bad := range bads {
		line := fmt.Sprintf("F %s unpack %s #then-unpack %s #then-marshal %s", ss, impl.Hex(bad), impl.Hex(wB), sp.String())
		stop := false
		safely(rep, line, func() {
			used, _ := impl.FieldOfTree(spec)
			fresh, _ := impl.FieldOfTree(spec)
			used.Unpack(bad)
			if _, err := used.Unpack(wB); err != nil {
				return
			}
			if _, err := fresh.Unpack(wB); err != nil {
				return
			}
			o1, o2 := impl.SetValue(used, sp), impl.SetValue(fresh, sp)
			rep.Case(line)
			t1, t2 := impl.ValueTree(used).String(), impl.ValueTree(fresh).String()
			p1, e1 := used.Pack()
			p2, e2 := fresh.Pack()
			if o1 != o2 || t1 != t2 || (e1 == nil) != (e2 == nil) || !bytes.Equal(p1, p2) {
				rep.Viol("a composite that rejected an input earlier differs from a new one after the same Unpack and Marshal (subfields of the rejected input came back)", line,
					fmt.Sprintf("used: %v %s %x | new: %v %s %x", o1, t1, p1, o2, t2, p2))
				stop = true
			}
		})
		if stop {
			return
		}
	}
}

// sparseTree: a composite value with every other leaf dropped (nested composites kept, made sparse themselves)
func sparseTree(v *impl.Tree, n *int) *impl.Tree {
	if v.Name != "c" {
		return v
	}
	out := impl.N("c")
	for _, kv := range v.Kids {
		if len(kv.Kids) != 2 {
			continue
		}
		if kv.Kids[1].Name == "c" {
			out.Kids = append(out.Kids, impl.N("kv", kv.Kids[0], sparseTree(kv.Kids[1], n)))
			continue
		}
		*n++
		if *n%2 == 1 {
			out.Kids = append(out.Kids, kv)
		}
	}
	return out
}

// track fields unpacked twice on their own
func checkTrackReuseH(rep *Reporter, r *gen.Rng) {
	type mk struct {
		name  string
		newF  func() field.Field
		full  string
		parts []string
		alts  []string // further first inputs
	}
	exp := func() string { return fmt.Sprintf("%02d%02d", 20+r.Intn(40), 1+r.Intn(12)) }
	spec := func() *field.Spec {
		return &field.Spec{Length: 99, Description: "t", Enc: encoding.ASCII, Pref: prefix.ASCII.LL}
	}
	pan := string(r.From([]byte("0123456789"), 12+r.Intn(7)))
	tracks := []mk{
		{"Track2", func() field.Field { return field.NewTrack2(spec()) },
			pan + "=" + exp() + "201" + string(r.From([]byte("0123456789"), 1+r.Intn(8))),
			[]string{"", pan + "D" + exp() + "101" + "9", "4000=" + exp() + "123" + " 7 "}, nil},
		{"Track1", func() field.Field { return field.NewTrack1(spec()) },
			"B" + pan + "^DOE/JOHN^" + exp() + "201" + "123456",
			[]string{"", "B" + pan + "^A/B^^^" + "9", "B4000^SMITH^" + exp() + "101" + "1"},
			// a name padded with blanks to the full 26 characters (what a sender with FixedLength writes), and one of 26 letters
			[]string{"B" + pan + "^" + fmt.Sprintf("%-26s", "DOE/JOHN") + "^" + exp() + "201" + "1", "B4000^" + strings.Repeat("N", 26) + "^" + exp() + "101" + "2"}},
		{"Track3", func() field.Field { return field.NewTrack3(spec()) },
			"01" + pan + "=" + "1234567",
			[]string{"", "99" + "4000" + "=" + "1"}, nil},
	}
	for _, tk := range tracks {
		firsts := append([]string{tk.full}, tk.alts...)
		for k, second := range append(append([]string{}, tk.parts...), tk.parts...) {
			first := firsts[(k/len(tk.parts))%len(firsts)]
			if k >= len(tk.parts) && len(firsts) == 1 {
				break
			}
			if k >= len(tk.parts) {
				first = firsts[1+r.Intn(len(firsts)-1)]
			}
			w1 := []byte(fmt.Sprintf("%02d%s", len(first), first))
			w2 := []byte(fmt.Sprintf("%02d%s", len(second), second))
			line := "TK " + tk.name + " " + impl.Hex(w1) + " " + impl.Hex(w2)
			safely(rep, line, func() {
				used, fresh := tk.newF(), tk.newF()
				if _, err := used.Unpack(w1); err != nil {
					rep.Case("")
					return
				}
				n1, e1 := used.Unpack(w2)
				n2, e2 := fresh.Unpack(w2)
				rep.Case(line)
				if (e1 == nil) != (e2 == nil) || n1 != n2 {
					rep.Viol("Unpack into a used track field returns a different result than into a new one", line,
						fmt.Sprintf("used: %d %v | new: %d %v", n1, e1, n2, e2))
					return
				}
				if e1 != nil {
					return
				}
				j1, _ := json.Marshal(used)
				j2, _ := json.Marshal(fresh)
				p1, _ := used.Pack()
				p2, _ := fresh.Pack()
				if !bytes.Equal(j1, j2) || !bytes.Equal(p1, p2) {
					rep.Viol("after Unpack a used track field differs from a new one", line,
						fmt.Sprintf("used: %s %q | new: %s %q", j1, p1, j2, p2))
				}
			})
		}
	}
}

func runC10(t gen.Tier, r *gen.Rng, rep *Reporter) {
	wa, wb := gen.HMessages()
	a, _ := impl.UnHex(wa)
	b, _ := impl.UnHex(wb)
	g := gen.NewFieldGen(r)
	minMsg, _ := impl.UnHex(gen.HMessageMin())
	// a decode that fails inside a composite, then (checkUnpackForgets) an Unpack without it
	for _, rs := range gen.HResidue() {
		for k := 0; k < 3; k++ {
			ops := append(randomFixedOps(r, k, false), rs)
			checkUnpackForgets(rep, fixedCase(ops), minMsg)
			checkUnpackForgets(rep, fixedCase(ops), b)
			for _, fg := range gen.HForget() {
				if !strings.HasPrefix(fg, "set:") {
					continue
				}
				id := atoi(strings.Split(fg, ":")[1])
				for _, pt := range gen.HPartial() {
					if strings.HasPrefix(pt, fmt.Sprintf("mar:%d:", id)) || strings.HasPrefix(pt, fmt.Sprintf("jd:doc(f(%d,", id)) {
						checkFieldReuse(rep, fixedCase(ops), fg, pt, id)
					}
				}
			}
		}
	}
	forCases(t, r, t.N(300, 6000), t.N(300, 6000), t.N(250, 6000), func(c *hcase) {
		if c.specS == gen.HFixedSpec {
			checkUnpackForgets(rep, c, b) // B's fields / subfields are a strict subset of A's
			checkUnpackForgets(rep, c, a)
			checkUnpackForgets(rep, c, a[:len(a)-2])
			checkUnpackForgets(rep, c, minMsg) // no composite at all
		} else {
			for k := 0; k < 2; k++ {
				if w, ok := randomWire(c, g); ok {
					checkUnpackForgets(rep, c, w)
					if len(w) > 0 && k == 1 {
						checkUnpackForgets(rep, c, w[:r.Intn(len(w))])
					}
				}
			}
		}
		checkC10History(rep, c)
	})
	for i := 0; i < t.N(300, 8000); i++ {
		checkCompositeReuse(rep, g, r)
	}
	for i := 0; i < t.N(400, 8000); i++ {
		checkNestedReuse(rep, g, r)
	}
	for i := 0; i < t.N(10, 200); i++ {
		checkTrackReuseH(rep, r)
	}
	rep.Sample("H <spec> <history>;upk:<input> => used message observed like a new one (GetFields, values, Pack, JSON, Describe)")
}

// ---------------------------------------------------------------- C14

// struct of pointers for Unmarshal: one member per spec field (and per subfield, nested)
func pointerStruct(fields map[string]field.Field) reflect.Type {
	keys := make([]string, 0, len(fields))
	for k := range fields {
		keys = append(keys, k)
	}
	sort.Strings(keys)
	var sfs []reflect.StructField
	for i, k := range keys {
		var ty reflect.Type
		switch x := fields[k].(type) {
		case *field.String:
			ty = reflect.TypeOf((*field.String)(nil))
		case *field.Numeric:
			ty = reflect.TypeOf((*field.Numeric)(nil))
		case *field.Binary:
			ty = reflect.TypeOf((*field.Binary)(nil))
		case *field.Hex:
			ty = reflect.TypeOf((*field.Hex)(nil))
		case *field.Bitmap:
			ty = reflect.TypeOf((*field.Bitmap)(nil))
		case *field.Composite:
			ty = reflect.PointerTo(pointerStruct(x.Spec().Subfields))
		default:
			continue
		}
		sfs = append(sfs, reflect.StructField{Name: fmt.Sprintf("X%d", i), Type: ty,
			Tag: reflect.StructTag(fmt.Sprintf(`index:"%s"`, k))})
	}
	return reflect.StructOf(sfs)
}

// the presence tree Unmarshal wrote: "2,55(0a,0b),60(n1(x))"
func copiedTree(v reflect.Value) string {
	var parts []string
	ty := v.Type()
	type kv struct{ k, s string }
	var items []kv
	for i := 0; i < v.NumField(); i++ {
		f := v.Field(i)
		if f.IsNil() {
			continue
		}
		key := ty.Field(i).Tag.Get("index")
		s := key
		if f.Elem().Kind() == reflect.Struct && !strings.HasPrefix(f.Type().Elem().PkgPath(), "github.com/moov-io") {
			s += "(" + copiedTree(f.Elem()) + ")"
		}
		items = append(items, kv{key, s})
	}
	sort.Slice(items, func(a, b int) bool { return items[a].k < items[b].k })
	for _, it := range items {
		parts = append(parts, it.s)
	}
	return strings.Join(parts, ",")
}

// the presence tree GetFields / GetSubfields report
func reportedTree(fields map[string]field.Field) string {
	keys := make([]string, 0, len(fields))
	for k := range fields {
		keys = append(keys, k)
	}
	sort.Strings(keys)
	var parts []string
	for _, k := range keys {
		s := k
		if c, ok := fields[k].(*field.Composite); ok {
			s += "(" + reportedTree(c.GetSubfields()) + ")"
		}
		parts = append(parts, s)
	}
	return strings.Join(parts, ",")
}

func msgFieldsByName(m *iso8583.Message) map[string]field.Field {
	out := map[string]field.Field{}
	for id, f := range m.GetFields() {
		out[strconv.Itoa(id)] = f
	}
	return out
}

// the presence tree of a JSON document
func jsonTree(raw []byte) (string, bool) {
	var v map[string]json.RawMessage
	if err := json.Unmarshal(raw, &v); err != nil {
		return "", false
	}
	keys := make([]string, 0, len(v))
	for k := range v {
		keys = append(keys, k)
	}
	sort.Strings(keys)
	var parts []string
	for _, k := range keys {
		s := k
		if sub, ok := jsonTree(v[k]); ok && len(v[k]) > 0 && v[k][0] == '{' {
			s += "(" + sub + ")"
		}
		parts = append(parts, s)
	}
	return strings.Join(parts, ","), true
}

// ids flagged in the packed bitmap, decoded without Message.Unpack
func packedBits(c *hcase, m *iso8583.Message, packed []byte, mtiSet bool) ([]int, bool) {
	off := 0
	if mtiSet {
		b, err := m.GetField(0).Pack()
		if err != nil {
			return nil, false
		}
		off = len(b)
	}
	bm := field.NewBitmap(c.spec.Fields[1].Spec())
	if _, err := bm.Unpack(packed[off:]); err != nil {
		return nil, false
	}
	var ids []int
	for i := 2; i <= bm.Len(); i++ {
		if bm.IsSet(i) && !bm.IsBitmapPresenceBit(i) {
			ids = append(ids, i)
		}
	}
	return ids, true
}

func checkPresenceAgree(rep *Reporter, c *hcase) {
	line := c.line(c.ops, "")
	safely(rep, line, func() {
		st := c.replay(c.ops)
		m := st.Cur
		got := reportedTree(msgFieldsByName(m)) // GetFields + GetSubfields, recursively
		ty := pointerStruct(map[string]field.Field(stringKeys(c.spec.Fields)))
		// the same struct type is first used with a message of a SMALLER spec (every other data element
		// left out): what Unmarshal learns about the type there must not stick to the type
		primeUnmarshal(c.spec, ty)
		ptr := reflect.New(ty)
		uerr := m.Unmarshal(ptr.Interface())
		copied := copiedTree(ptr.Elem())
		rep.Case(line)
		if uerr == nil && copied != got {
			rep.Viol("Unmarshal copies a different set of fields / subfields than GetFields / GetSubfields report", line,
				fmt.Sprintf("GetFields: [%s] Unmarshal: [%s]", got, copied))
		}
		_, mtiSet := m.GetFields()[0]
		packed, perr := m.Pack()
		after := reportedTree(msgFieldsByName(m))
		if after != got {
			// (the bitmap field, id 1, is part of every message from NewMessage on: Pack must
			// not add it either)
			rep.Viol("GetFields reports a different set before and after Pack", line,
				fmt.Sprintf("before: [%s] after: [%s]", got, after))
		}
		if perr != nil {
			return
		}
		if bits, ok := packedBits(c, m, packed, mtiSet); ok {
			var want []int
			for _, id := range idsOfMsg(m) {
				if id >= 2 {
					want = append(want, id)
				}
			}
			if idsStr(bits) != idsStr(want) {
				rep.Viol("the bits of the packed bitmap are not the data elements GetFields reports", line,
					fmt.Sprintf("bitmap: [%s] GetFields: [%s]", idsStr(bits), idsStr(want)))
			}
		}
		js, jerr := json.Marshal(m)
		if jerr == nil {
			if jt, ok := jsonTree(js); ok && jt != after {
				rep.Viol("the JSON members are not the fields / subfields GetFields / GetSubfields report", line,
					fmt.Sprintf("JSON: [%s] GetFields: [%s]", jt, after))
			}
		}
	})
}

func primeUnmarshal(spec *iso8583.MessageSpec, ty reflect.Type) {
	defer func() { _ = recover() }()
	small := &iso8583.MessageSpec{Name: spec.Name, Fields: map[int]field.Field{}}
	ids := make([]int, 0, len(spec.Fields))
	for id := range spec.Fields {
		ids = append(ids, id)
	}
	sort.Ints(ids)
	k := 0
	for _, id := range ids {
		if id >= 2 {
			k++
			if k%2 == 0 {
				continue
			}
		}
		small.Fields[id] = spec.Fields[id]
	}
	m := iso8583.NewMessage(small)
	_ = m.Unmarshal(reflect.New(ty).Interface())
}

func stringKeys(m map[int]field.Field) map[string]field.Field {
	out := map[string]field.Field{}
	for id, f := range m {
		out[strconv.Itoa(id)] = f
	}
	return out
}

// did an Unpack / SetBytes of the history fail (it may have stopped half-way through a composite)
func (c *hcase) failedDecode() bool {
	st := &impl.HState{Cur: iso8583.NewMessage(c.spec)}
	for _, op := range c.ops {
		res := impl.ApplyOp(st, op)
		if (strings.HasPrefix(op, "upk:") || strings.HasPrefix(op, "set:")) && res != "ok" {
			return true
		}
		// Clone unpacks the packed original into the new message and ignores the error: if the
		// packed bytes do not unpack (content outside the domain, e.g. a positional composite
		// with a gap), the clone is such a half-decoded message
		if op == "clone" && res == "ok" && st.Other != nil {
			failed := false
			func() {
				defer func() {
					if recover() != nil {
						failed = true
					}
				}()
				if b, err := st.Other.Pack(); err == nil {
					failed = iso8583.NewMessage(c.spec).Unpack(b) != nil
				}
			}()
			if failed {
				return true
			}
		}
	}
	return false
}

// unset, then populate a sibling / the parent: nothing written before the unset comes back
func checkUnsetDiscards(rep *Reporter, c *hcase, r *gen.Rng, g *gen.FieldGen) {
	residue := ""
	if c.failedDecode() {
		residue = "failed-decode-residue"
	}
	st, _ := impl.ParseTree(c.specS)
	var comps []*impl.Tree
	for _, f := range st.Kids[2:] {
		if f.Kids[1].Name == "c" && len(f.Kids[1].Kids) > 3 {
			comps = append(comps, f)
		}
	}
	if len(comps) == 0 {
		return
	}
	fs := comps[r.Intn(len(comps))]
	id := fs.Kids[0].Name
	subs := fs.Kids[1].Kids[3:]
	pick := subs[r.Intn(len(subs))]
	tag := pick.Kids[0].Name
	val := g.Value(pick.Kids[1], false)
	marshalOne := fmt.Sprintf("mar:%s:c(kv(%s,%s))", id, tag, val.String())

	// (1) UnsetField(id) then Marshal of one subfield: the field holds that subfield only
	ops := with(c.ops, "unf:"+id, marshalOne)
	line := c.line(ops, residue)
	safely(rep, line, func() {
		m := c.replay(ops).Cur
		f, present := m.GetFields()[atoi(id)]
		comp, isC := f.(*field.Composite)
		rep.Case(line)
		if !present || !isC {
			return // Marshal refused (value out of shape): nothing to check
		}
		keys := reportedTreeKeys(comp.GetSubfields())
		if keys != tag {
			rep.Viol("after UnsetField a Marshal of one subfield shows other subfields too", line,
				fmt.Sprintf("set subfields of field %s: [%s], written: [%s]", id, keys, tag))
			return
		}
		fresh := c.replay([]string{marshalOne}).Cur
		if a, b := impl.ValueTree(f).String(), impl.ValueTree(fresh.GetFields()[atoi(id)]).String(); a != b {
			rep.Viol("after UnsetField a Marshal of one subfield exposes values written before the unset", line,
				fmt.Sprintf("got %s, a new message gives %s", a, b))
		}
	})

	// (1b) the same with an Unpack of a message that does not contain the field instead of
	// UnsetField: "the fields written since creation or the last Unpack"
	mm := g.Msg(st)
	mm.Kids = mm.Kids[:1]
	if res := impl.Run("M " + c.specS + " pack " + mm.String()); strings.HasPrefix(res, "ok ") {
		upk := "upk:" + strings.TrimPrefix(res, "ok ")
		opsU := with(c.ops, upk, marshalOne)
		lineU := c.line(opsU, "")
		safely(rep, lineU, func() {
			m := c.replay(opsU).Cur
			fresh := c.replay([]string{upk, marshalOne}).Cur
			f1, ok1 := m.GetFields()[atoi(id)]
			f2, ok2 := fresh.GetFields()[atoi(id)]
			rep.Case(lineU)
			if ok1 != ok2 {
				rep.Viol("after Unpack a Marshal is accepted on a used message and refused on a new one (or vice versa)", lineU, "")
				return
			}
			if !ok1 {
				return
			}
			if a, b := impl.ValueTree(f1).String(), impl.ValueTree(f2).String(); a != b {
				rep.Viol("after Unpack of a message without the field, a Marshal of one subfield shows subfields written before the Unpack", lineU,
					fmt.Sprintf("field %s: got %s, a new message gives %s", id, a, b))
			}
		})
	}

	// (2) UnsetFields(id.tag) then Marshal of a sibling: the unset subfield stays away
	if len(subs) < 2 {
		return
	}
	sib := subs[r.Intn(len(subs))]
	for sib.Kids[0].Name == tag {
		sib = subs[r.Intn(len(subs))]
	}
	sibTag := sib.Kids[0].Name
	marshalSib := fmt.Sprintf("mar:%s:c(kv(%s,%s))", id, sibTag, g.Value(sib.Kids[1], false).String())
	ops2 := with(c.ops, "ups:"+id+":"+impl.Hex([]byte(tag)), marshalSib)
	line2 := c.line(ops2, residue)
	safely(rep, line2, func() {
		before := c.replay(c.ops).Cur
		m := c.replay(ops2).Cur
		f, present := m.GetFields()[atoi(id)]
		comp, isC := f.(*field.Composite)
		rep.Case(line2)
		if !present || !isC {
			return
		}
		if _, still := comp.GetSubfields()[tag]; still {
			rep.Viol("a subfield unset by path is back after a Marshal of its sibling", line2,
				fmt.Sprintf("field %s reports [%s]", id, reportedTreeKeys(comp.GetSubfields())))
		}
		// (3) re-populating the unset subfield itself (a composite) with one member shows only that member
		if pick.Kids[1].Name == "c" && len(pick.Kids[1].Kids) > 3 {
			inner := pick.Kids[1].Kids[3:]
			in := inner[r.Intn(len(inner))]
			re := fmt.Sprintf("mar:%s:c(kv(%s,c(kv(%s,%s))))", id, tag, in.Kids[0].Name, g.Value(in.Kids[1], false).String())
			ops3 := with(ops2, re)
			m3 := c.replay(ops3).Cur
			if f3, ok := m3.GetFields()[atoi(id)].(*field.Composite); ok {
				if sf, ok := f3.GetSubfields()[tag].(*field.Composite); ok {
					if keys := reportedTreeKeys(sf.GetSubfields()); keys != in.Kids[0].Name {
						_, wasPresent := before.GetFields()[atoi(id)]
						rep.Viol("re-populating a subfield unset by path shows members written before the unset", c.line(ops3, residue),
							fmt.Sprintf("subfield %s.%s reports [%s], written [%s] (field present before: %v)", id, tag, keys, in.Kids[0].Name, wasPresent))
					}
				}
			}
		}
	})
}

func atoi(s string) int { n, _ := strconv.Atoi(s); return n }

func reportedTreeKeys(fields map[string]field.Field) string {
	keys := make([]string, 0, len(fields))
	for k := range fields {
		keys = append(keys, k)
	}
	sort.Strings(keys)
	return strings.Join(keys, ",")
}

func checkC14History(rep *Reporter, c *hcase) {
	checkPresenceAgree(rep, c)
	checkPresenceReference(rep, c)
}

// ----- the reference presence tree: "the fields written since creation or the last Unpack,
// minus those unset since", computed from the operations alone

type pnode struct {
	kids map[string]*pnode
	comp bool
}

func newPnode() *pnode { return &pnode{kids: map[string]*pnode{}} }

func (n *pnode) clone() *pnode {
	c := newPnode()
	c.comp = n.comp
	for k, v := range n.kids {
		c.kids[k] = v.clone()
	}
	return c
}

func (n *pnode) String() string {
	keys := make([]string, 0, len(n.kids))
	for k := range n.kids {
		keys = append(keys, k)
	}
	sort.Strings(keys)
	parts := make([]string, len(keys))
	for i, k := range keys {
		parts[i] = k
		if n.kids[k].kids != nil && n.kids[k].comp {
			parts[i] += "(" + n.kids[k].String() + ")"
		}
	}
	return strings.Join(parts, ",")
}

// what the implementation reports, as a pnode (used as the new baseline after Unpack / SetBytes)
func pnodeOfFields(fields map[string]field.Field) *pnode {
	n := newPnode()
	for k, f := range fields {
		if c, ok := f.(*field.Composite); ok {
			n.kids[k] = pnodeOfFields(c.GetSubfields())
			n.kids[k].comp = true
		} else {
			n.kids[k] = newPnode()
		}
	}
	return n
}

// merge the members of a value tree (a write adds to what is there)
func (n *pnode) write(key string, v *impl.Tree) {
	child := n.kids[key]
	if v.Name == "c" || v.Name == "c()" {
		if child == nil || !child.comp {
			child = newPnode()
			child.comp = true
		}
		for _, kv := range v.Kids {
			if kv.Name == "kv" && len(kv.Kids) == 2 {
				child.write(kv.Kids[0].Name, kv.Kids[1])
			}
		}
	} else {
		child = newPnode()
	}
	n.kids[key] = child
}

// unset by path: the node named by the whole path goes away if every node on the way is present
func (n *pnode) unset(path []string) {
	cur := n
	for i, k := range path {
		next, ok := cur.kids[k]
		if !ok {
			return
		}
		if i == len(path)-1 {
			delete(cur.kids, k)
			return
		}
		cur = next
	}
}

// checkPresenceReference walks the history once: after every operation that succeeded, what
// GetFields / GetSubfields report must be the reference tree. Histories in which an operation
// fails are left to the other checks (a failing decode may stop half-way: KF11).
func checkPresenceReference(rep *Reporter, c *hcase) {
	line := c.line(c.ops, "")
	safely(rep, line, func() {
		st := &impl.HState{Cur: iso8583.NewMessage(c.spec)}
		ref := newPnode()
		ref.kids["1"] = newPnode()
		var otherRef *pnode
		for k, op := range c.ops {
			res := impl.ApplyOp(st, op)
			if res == "err" || res == "panic" || res == "bad-op" || res == "noswap" {
				return
			}
			p := strings.Split(op, ":")
			switch p[0] {
			case "mti":
				ref.kids["0"] = newPnode()
			case "set":
				if _, isComp := c.spec.Fields[atoi(p[1])].(*field.Composite); isComp {
					if f, ok := st.Cur.GetFields()[atoi(p[1])].(*field.Composite); ok {
						n := pnodeOfFields(f.GetSubfields()) // SetBytes replaces the composite's content
						n.comp = true
						ref.kids[p[1]] = n
					}
				} else {
					ref.kids[p[1]] = newPnode()
				}
			case "mar":
				if v, ok := impl.ParseTree(strings.SplitN(op, ":", 3)[2]); ok {
					ref.write(p[1], v)
				}
			case "jd":
				if d, ok := impl.ParseTree(strings.SplitN(op, ":", 2)[1]); ok {
					for _, f := range d.Kids {
						if f.Name == "f" && len(f.Kids) == 2 {
							if f.Kids[0].Name == "1" {
								continue
							}
							ref.write(f.Kids[0].Name, f.Kids[1])
						}
					}
				}
			case "upk":
				ref = pnodeOfFields(msgFieldsByName(st.Cur)) // the new baseline
			case "unf":
				if p[1] != "1" {
					ref.unset([]string{p[1]})
				}
			case "ups", "upm", "usb":
				for i := 1; i+1 < len(p); i += 2 {
					b, _ := impl.UnHex(p[i+1])
					path := []string{p[i]}
					if len(b) > 0 {
						path = append(path, strings.Split(string(b), ".")...)
					}
					if len(path) == 1 && path[0] == "1" {
						continue
					}
					ref.unset(path)
				}
			case "clone":
				otherRef, ref = ref, ref.clone()
			case "swap":
				ref, otherRef = otherRef, ref
			}
			got := reportedTree(msgFieldsByName(st.Cur))
			if got != ref.String() {
				rep.Case(line)
				rep.Viol("GetFields / GetSubfields do not report the fields written since creation or the last Unpack minus those unset since", c.line(c.ops[:k+1], ""),
					fmt.Sprintf("after op %d (%s): reported [%s], written-minus-unset [%s]", k+1, op, got, ref.String()))
				return
			}
		}
		rep.Case(line)
	})
}

// subtree of a value tree at a tag path ("" if absent)
func subtreeAt(v *impl.Tree, path []string) string {
	for _, tag := range path {
		var next *impl.Tree
		for _, kv := range v.Kids {
			if kv.Name == "kv" && len(kv.Kids) == 2 && kv.Kids[0].Name == tag {
				next = kv.Kids[1]
			}
		}
		if next == nil {
			return ""
		}
		v = next
	}
	return v.String()
}

// unset by path of a composite that has a composite child, then partial re-population of that
// child: below the unset point the message must hold exactly what was written after the unset
// (what a new message holds after the same partial write)
func checkNestedUnset(rep *Reporter, c *hcase, scenario []string) {
	var id int
	var path []string
	upsAt := -1
	for i, op := range scenario {
		if strings.HasPrefix(op, "ups:") {
			p := strings.SplitN(op, ":", 3)
			b, _ := impl.UnHex(p[2])
			id, path, upsAt = atoi(p[1]), strings.Split(string(b), "."), i
		}
	}
	if upsAt < 0 || upsAt+1 >= len(scenario) {
		return
	}
	partial := scenario[upsAt+1]
	ops := with(c.ops, scenario...)
	line := c.line(ops, "")
	safely(rep, line, func() {
		m := c.replay(ops).Cur
		fresh := c.replay([]string{partial}).Cur
		f1, ok1 := m.GetFields()[id]
		f2, ok2 := fresh.GetFields()[id]
		rep.Case(line)
		if !ok1 || !ok2 {
			return // the partial write was refused on both, or the field was unset by a random op
		}
		got := subtreeAt(impl.ValueTree(f1), path)
		want := subtreeAt(impl.ValueTree(f2), path)
		if got != want {
			rep.Viol("after unsetting a nested composite by path, a partial write below it shows values from before the unset", line,
				fmt.Sprintf("field %d below %s: got %s, a new message gives %s", id, strings.Join(path, "."), got, want))
		}
	})
}

func runC14(t gen.Tier, r *gen.Rng, rep *Reporter) {
	g := gen.NewFieldGen(r)
	// composites nested three deep: on the fixed spec (60 → n1 → d → u, v) …
	for i := 0; i < t.N(60, 1500); i++ {
		var prefix []string
		if i > 0 {
			prefix = randomFixedOps(r, r.Intn(4), false)
		}
		full := "mar:60:c(kv(n1,c(kv(x,s(6e78)),kv(d,c(kv(u,s(6e75)),kv(v,s(6e76)))))),kv(p1,s(6e70)))"
		partial := gen.Pick(r, []string{
			"mar:60:c(kv(n1,c(kv(d,c(kv(v,s(7076)))))))", "mar:60:c(kv(n1,c(kv(d,c()))))",
			"jd:doc(f(60,c(kv(n1,c(kv(d,c(kv(u,s(6a75)))))))))"})
		checkNestedUnset(rep, fixedCase(prefix), []string{full, "ups:60:" + impl.Hex([]byte("n1")), partial})
	}
	// … and on generated specs
	found := 0
	for tries := 0; found < t.N(150, 3000) && tries < t.N(6000, 120000); tries++ {
		spec := g.MsgSpec(3 + r.Intn(2))
		sc := gen.HNestedScenario(g, spec)
		if sc == nil {
			continue
		}
		found++
		if c, ok := newCase(spec.String(), gen.HRandomOps(g, spec, r.Intn(3))); ok {
			checkNestedUnset(rep, c, sc)
		}
	}
	forCases(t, r, t.N(400, 8000), t.N(400, 8000), t.N(300, 8000), func(c *hcase) {
		for k := 1; k <= len(c.ops); k++ { // at every point of the history
			checkPresenceAgree(rep, &hcase{specS: c.specS, spec: c.spec, ops: c.ops[:k]})
		}
		checkUnsetDiscards(rep, c, r, g)
	})
	rep.Sample("H <spec> <history> => after every op: GetFields/GetSubfields == Unmarshal(struct of pointers) == packed bitmap bits == JSON members; unset then re-populate never resurrects")
	for i := 0; i < t.N(300, 6000); i++ {
		checkNestedReuse(rep, g, r)
	}
}

// ---------------------------------------------------------------- C15

const repeats = 8

func checkDeterminism(rep *Reporter, c *hcase) {
	line := c.line(c.ops, "")
	safely(rep, line, func() {
		var first snap
		var firstD, firstOuts string
		for k := 0; k < repeats; k++ {
			st := &impl.HState{Cur: iso8583.NewMessage(c.spec)}
			var outs []string
			for _, op := range c.ops {
				outs = append(outs, impl.ApplyOp(st, op))
			}
			d := describeText(c.replay(c.ops).Cur)
			s := observe(st.Cur)
			// repeated calls on one object
			p2 := protect(func() string {
				b, err := st.Cur.Pack()
				if err != nil {
					return "err"
				}
				return "ok:" + impl.Hex(b)
			})
			j2 := protect(func() string {
				b, err := json.Marshal(st.Cur)
				if err != nil {
					return "err"
				}
				return string(b)
			})
			da, db := describeText(st.Cur), describeText(st.Cur)
			if p2 != s.P || j2 != s.J || da != db {
				rep.Viol("Pack / JSON / Describe differ between two calls on the same message", line,
					fmt.Sprintf("Pack %s vs %s | JSON %s vs %s | Describe equal: %v", s.P, p2, s.J, j2, da == db))
				return
			}
			o := strings.Join(outs, " ; ")
			if k == 0 {
				first, firstD, firstOuts = s, d, o
				continue
			}
			if s != first || d != firstD || o != firstOuts {
				rep.Viol("the same history gives different results on different runs (map iteration order)", line,
					fmt.Sprintf("run 0: %s | run %d: %s", first, k, s))
				return
			}
		}
		key := ""
		if strings.HasPrefix(first.P, "ok") {
			key = line
		}
		rep.Case(key)
	})
}

func isPopulate(op string) (string, bool) {
	p := strings.SplitN(op, ":", 3)
	switch p[0] {
	case "mti":
		return "0", true
	case "set", "mar":
		if len(p) == 3 && p[1] != "1" {
			return p[1], true
		}
	}
	return "", false
}

func checkPopulationOrder(rep *Reporter, c *hcase, r *gen.Rng) {
	// the populating ops of the history, one per field
	seen := map[string]bool{}
	var pops []string
	for _, op := range c.ops {
		if id, ok := isPopulate(op); ok && !seen[id] {
			seen[id] = true
			pops = append(pops, op)
		}
	}
	if len(pops) < 2 {
		return
	}
	base := observe(c.replay(pops).Cur)
	baseD := describeText(c.replay(with(pops, "pack")).Cur)
	for k := 0; k < repeats; k++ {
		perm := append([]string{}, pops...)
		for i := len(perm) - 1; i > 0; i-- {
			j := r.Intn(i + 1)
			perm[i], perm[j] = perm[j], perm[i]
		}
		line := c.line(perm, "")
		safely(rep, line, func() {
			s := observe(c.replay(perm).Cur)
			d := describeText(c.replay(with(perm, "pack")).Cur)
			rep.Case(line)
			if s != base || d != baseD {
				rep.Viol("populating the same fields in a different order changes Pack / JSON / Describe / GetFields", line,
					fmt.Sprintf("order %v: %s | order %v: %s", pops, base, perm, s))
			}
		})
	}
}

var readOnly = []string{"pack", "json", "descb", "clone;swap", "ids"}

func checkReadOnly(rep *Reporter, c *hcase, r *gen.Rng) {
	base := observe(c.replay(c.ops).Cur)
	baseD := describeText(c.replay(c.ops).Cur)
	later := randomLater(c, r)
	baseLater := observe(c.replay(with(c.ops, later...)).Cur)
	for _, ro := range readOnly {
		ops := with(c.ops, strings.Split(ro, ";")...)
		line := c.line(ops, "")
		safely(rep, line, func() {
			st, cloned := c.replayChecked(ops, 2)
			if ro == "clone;swap" && !cloned {
				rep.Case("")
				return // Clone failed: there is nothing to swap to
			}
			s := observe(st.Cur)
			d := describeText(c.replay(ops).Cur)
			rep.Case(line)
			if s != base {
				rep.Viol("a read-only operation ("+ro+") changes what is observed afterwards", line,
					fmt.Sprintf("before: %s | after: %s", base, s))
			} else if d != baseD {
				note := ""
				if describeNoBitmap(d) == describeNoBitmap(baseD) {
					note = "describe-stale-bitmap"
				}
				rep.Viol("a read-only operation ("+ro+") changes what Describe prints afterwards", c.line(with(ops, "desc"), note),
					fmt.Sprintf("before: %q | after: %q", baseD, d))
			}
			// … and what later operations lead to
			ops2 := with(ops, later...)
			s2 := observe(c.replay(ops2).Cur)
			if ro == "clone;swap" {
				// `later` may itself clone: compare the messages the two histories end on
				st2, _ := c.replayChecked(ops2, 0)
				s2 = observe(st2.Cur)
			}
			if s2 != baseLater {
				rep.Viol("a read-only operation ("+ro+") changes the outcome of later operations", c.line(ops2, ""),
					fmt.Sprintf("without: %s | with: %s", baseLater, s2))
			}
		})
	}
}

func randomLater(c *hcase, r *gen.Rng) []string {
	if c.specS == gen.HFixedSpec {
		var out []string
		for _, op := range randomFixedOps(r, 1+r.Intn(3), false) {
			if op != "clone" && op != "swap" {
				out = append(out, op)
			}
		}
		return out
	}
	// re-use ops of the history itself (they fit the spec)
	var out []string
	for k := 0; k < 1+r.Intn(3) && len(c.ops) > 0; k++ {
		op := c.ops[r.Intn(len(c.ops))]
		if op != "clone" && op != "swap" {
			out = append(out, op)
		}
	}
	return out
}

func checkCloneIndependent(rep *Reporter, c *hcase, r *gen.Rng) {
	mut := randomLater(c, r)
	if len(mut) == 0 {
		return
	}
	// (a) mutate the clone: the original is as after one Pack
	opsA := with(with(c.ops, "clone"), mut...)
	lineA := c.line(opsA, "")
	safely(rep, lineA, func() {
		st, cloned := c.replayChecked(opsA, len(mut)+1)
		if !cloned {
			rep.Case("")
			return
		}
		want := observe(c.replay(with(c.ops, "pack")).Cur)
		got := observe(st.Other)
		rep.Case(lineA)
		if got != want {
			rep.Viol("operations on a clone change the original", lineA, fmt.Sprintf("original: %s | expected: %s", got, want))
		}
	})
	// (b) mutate the original: the clone is as right after Clone
	opsB := with(with(c.ops, "clone", "swap"), mut...)
	lineB := c.line(opsB, "")
	safely(rep, lineB, func() {
		st, cloned := c.replayChecked(opsB, len(mut)+2)
		if !cloned {
			rep.Case("")
			return
		}
		want := observe(c.replay(with(c.ops, "clone")).Cur)
		got := observe(st.Other)
		rep.Case(lineB)
		if got != want {
			rep.Viol("operations on the original change its clone", lineB, fmt.Sprintf("clone: %s | expected: %s", got, want))
		}
	})
	// (c) on the fixed (ASCII) spec a clone packs to the bytes of its original
	if c.specS == gen.HFixedSpec {
		lineC := c.line(with(c.ops, "clone"), "")
		safely(rep, lineC, func() {
			st, cloned := c.replayChecked(with(c.ops, "clone"), 1)
			if !cloned {
				return
			}
			if _, hasMTI := st.Other.GetFields()[0]; !hasMTI {
				return // without an MTI the packed bytes are not a message (DESIGN §2.3)
			}
			a, b := observe(st.Cur), observe(st.Other)
			if a.P != b.P || a.J != b.J {
				rep.Viol("a clone packs / JSON-encodes differently from its original", lineC, fmt.Sprintf("clone: %s | original: %s", a, b))
			}
		})
	}
}

// values handed over as slices with sentinel-filled spare capacity stay untouched
func checkCallerMemory(rep *Reporter, c *hcase, r *gen.Rng, g *gen.FieldGen) {
	st, _ := impl.ParseTree(c.specS)
	type buf struct {
		id      int
		backing []byte
		n       int
		want    []byte
	}
	var bufs []buf
	m := iso8583.NewMessage(c.spec)
	var desc []string
	give := func(id int, val []byte, how int) {
		spare := 1 + r.Intn(24)
		backing := make([]byte, len(val), len(val)+spare)
		copy(backing, val)
		full := backing[:cap(backing)]
		for i := len(val); i < len(full); i++ {
			full[i] = 0xEE
		}
		want := append([]byte{}, full...)
		var err error
		switch how {
		case 0:
			err = m.BinaryField(id, backing)
		case 1:
			err = m.GetField(id).SetBytes(backing)
			if err == nil {
				// mark it through the API as well
				_ = m.BinaryField(id, backing)
			}
		default:
			if bf, ok := m.GetField(id).(*field.Binary); ok {
				bf.SetValue(backing)
				err = m.BinaryField(id, backing)
			} else {
				err = m.BinaryField(id, backing)
			}
		}
		_ = err
		bufs = append(bufs, buf{id, full, len(val), want})
		desc = append(desc, fmt.Sprintf("set:%d:%s", id, impl.Hex(val)))
	}
	mtiV := g.Value(st.Kids[0], false)
	if mtiV.Name == "s" {
		b, _ := impl.UnHex(mtiV.Kids[0].Name)
		give(0, b, 0)
	} else {
		give(0, []byte(mtiV.Kids[0].Name), 0)
	}
	if r.Bool() {
		// the bitmap field too can be handed a caller's slice (it is regenerated by Pack: into memory of its own)
		bl := atoi(st.Kids[1].Kids[0].Name)
		if bl <= 0 {
			bl = 8
		}
		give(1, bytes.Repeat([]byte{0x25}, bl), r.Intn(2))
	}
	for _, f := range st.Kids[2:] {
		id := atoi(f.Kids[0].Name)
		if r.Intn(4) == 0 {
			continue
		}
		v := g.Value(f.Kids[1], false)
		switch v.Name {
		case "s", "b":
			b, _ := impl.UnHex(v.Kids[0].Name)
			give(id, b, r.Intn(3))
		case "h":
			give(id, r.Bytes(r.Intn(8)), r.Intn(2))
		case "n":
			give(id, []byte(v.Kids[0].Name), r.Intn(2))
		default:
			if fo, ok := impl.FieldOfTree(f.Kids[1]); ok && impl.SetValue(fo, v) {
				if body, err := fo.(*field.Composite).Bytes(); err == nil {
					give(id, body, r.Intn(2))
				}
			}
		}
	}
	line := c.line(desc, "") + " #caller-slices-with-spare-capacity"
	safely(rep, line, func() {
		check := func(after string) bool {
			for _, b := range bufs {
				if !bytes.Equal(b.backing, b.want) {
					rep.Viol("a byte slice handed to a setter was written to ("+after+")", line,
						fmt.Sprintf("field %d: value+spare before %x, after %x", b.id, b.want, b.backing))
					return false
				}
			}
			return true
		}
		packed, perr := m.Pack()
		key := ""
		if perr == nil {
			key = line
		}
		rep.Case(key)
		if !check("Pack") {
			return
		}
		json.Marshal(m)
		if !check("MarshalJSON") {
			return
		}
		describeText(m)
		if !check("Describe") {
			return
		}
		if cl, err := m.Clone(); err == nil {
			if !check("Clone") {
				return
			}
			// the clone shares no buffer with the caller either: writing into the clone's
			// values must not show in ours, and our buffers must not show in the clone
			p1, _ := cl.Pack()
			for _, b := range bufs {
				for i := 0; i < b.n; i++ {
					b.backing[i] ^= 0xFF
				}
			}
			p2, _ := cl.Pack()
			if !bytes.Equal(p1, p2) {
				rep.Viol("a clone still reads the byte slices handed to its original", line,
					fmt.Sprintf("clone packed %x, after the caller changed its buffers %x", p1, p2))
			}
			for _, b := range bufs {
				for i := 0; i < b.n; i++ {
					b.backing[i] ^= 0xFF
				}
			}
		}
		// the packed result is not backed by a caller buffer
		if perr == nil && len(packed) > 0 {
			saved := append([]byte{}, packed...)
			for _, b := range bufs {
				for i := range b.backing {
					b.backing[i] ^= 0x55
				}
			}
			if !bytes.Equal(saved, packed) {
				rep.Viol("the bytes returned by Pack alias a slice handed to a setter", line, "")
			}
		}
	})
}

// checkReturnedStable: the bytes a Pack returned belong to the caller: no later operation on
// the message (another Pack after the content changed, JSON, Clone, Describe, Unpack) may change
// them.
func checkReturnedStable(rep *Reporter, c *hcase, r *gen.Rng) {
	later := randomLater(c, r)
	ops := with(with(c.ops, "pack"), later...)
	ops = with(ops, "pack", "json", "clone", "desc")
	line := c.line(ops, "")
	safely(rep, line, func() {
		st := c.replay(ops)
		rep.Case(line)
		if i := st.Changed(); i >= 0 {
			rep.Viol("the bytes returned by an earlier Pack were changed by a later operation on the message", line,
				fmt.Sprintf("result of Pack number %d", i+1))
		}
	})
}

// checkTrackReadOnly: Pack, String, Bytes and JSON encoding of a track field leave its components
// as they were set (a read-only operation does not change what a later Unmarshal / JSON reports).
func checkTrackReadOnly(rep *Reporter, specS, valS string) {
	line := "Y " + specS + " packobs " + valS
	st, ok1 := impl.ParseTree(specS)
	vt, ok2 := impl.ParseTree(valS)
	if !ok1 || !ok2 {
		return
	}
	kind, spec, ok := impl.TrackSpecOfTree(st)
	if !ok {
		return
	}
	safely(rep, line, func() {
		f := impl.NewTrack(kind, spec)
		if !impl.SetTrack(f, kind, vt) {
			return
		}
		before := impl.TrackTree(f).String()
		j0, _ := json.Marshal(f)
		for _, op := range []string{"Pack", "String", "Bytes", "MarshalJSON"} {
			switch op {
			case "Pack":
				_, _ = f.Pack()
			case "String":
				_, _ = f.String()
			case "Bytes":
				_, _ = f.Bytes()
			default:
				_, _ = json.Marshal(f)
			}
			after := impl.TrackTree(f).String()
			if after != before {
				rep.Case(line)
				rep.Viol("a read-only operation ("+op+") changed the components of a track field", line,
					fmt.Sprintf("before %s after %s", before, after))
				return
			}
		}
		j1, _ := json.Marshal(f)
		rep.Case(line)
		if string(j0) != string(j1) {
			rep.Viol("the JSON of a track field differs before and after Pack / String / Bytes", line, fmt.Sprintf("%s vs %s", j0, j1))
		}
	})
}

// checkTrackMsgReadOnly: a message whose data elements 35 / 36 / 45 are Track2 / Track3 / Track1
// FIELDS (impl.TrackMsgSpec): Describe, JSON encoding, Pack and Clone leave the track components,
// the packed bytes and the JSON text as they were.
func checkTrackMsgReadOnly(rep *Reporter, r *gen.Rng) {
	pan := func() string { return string(r.From([]byte("0123456789"), 12+r.Intn(8))) }
	exp := fmt.Sprintf("%02d%02d", 20+r.Intn(40), 1+r.Intn(12))
	t2 := pan() + gen.Pick(r, []string{"=", "D"}) + exp + "201" + string(r.From([]byte("0123456789"), 1+r.Intn(8)))
	t1 := "B" + pan() + "^DOE/JOHN^" + exp + "201" + "123456"
	t3 := "01" + pan() + "=" + "1234567"
	line := fmt.Sprintf("TM describe 35=%s 45=%s 36=%s", impl.Hex([]byte(t2)), impl.Hex([]byte(t1)), impl.Hex([]byte(t3)))
	safely(rep, line, func() {
		m := iso8583.NewMessage(impl.TrackMsgSpec)
		m.MTI("0200")
		if m.Field(2, pan()) != nil || m.Field(35, t2) != nil || m.Field(45, t1) != nil || m.Field(36, t3) != nil {
			rep.Case("")
			return
		}
		snap := func() string {
			var parts []string
			for _, id := range []int{2, 35, 36, 45} {
				s, err := m.GetString(id)
				parts = append(parts, fmt.Sprintf("%d=%q/%v", id, s, err == nil))
			}
			parts = append(parts, impl.TrackMsgTree(m).String())
			return strings.Join(parts, " ")
		}
		p0, e0 := m.Pack() // (the bitmap field shows the bits of the last Pack: KF10 — so Pack first)
		before := snap()
		for _, op := range []string{"Describe", "MarshalJSON", "Pack", "Clone"} {
			switch op {
			case "Describe":
				var buf bytes.Buffer
				_ = iso8583.Describe(m, &buf)
			case "MarshalJSON":
				_, _ = json.Marshal(m)
			case "Pack":
				_, _ = m.Pack()
			default:
				_, _ = m.Clone()
			}
			p1, e1 := m.Pack()
			if after := snap(); after != before || !bytes.Equal(p0, p1) || (e0 == nil) != (e1 == nil) {
				rep.Case(line)
				rep.Viol("a read-only operation ("+op+") changed a message with track fields", line,
					fmt.Sprintf("before %s %x | after %s %x", before, p0, after, p1))
				return
			}
		}
		rep.Case(line)
	})
}

// checkContentDetermines: "the bytes produced by Pack depend only on the message's logical
// content" - a NEW message given the same content (the values GetFields reports, written through
// Marshal; and the JSON document, decoded) packs to the same bytes as the message the history
// produced. A value cached beside the one the accessors show (and used by Pack) breaks this.
func checkContentDetermines(rep *Reporter, c *hcase) {
	line := c.line(c.ops, "")
	safely(rep, line, func() {
		m := c.replay(c.ops).Cur
		s := observe(m)
		if !strings.HasPrefix(s.P, "ok:") {
			return
		}
		rep.Case(line + " #content")
		vt, ok := impl.ParseTree(s.V)
		if ok {
			fresh := iso8583.NewMessage(c.spec)
			if impl.SetMsg(fresh, vt) {
				s2 := observe(fresh)
				if s2.V == s.V && s2.P != s.P {
					rep.Viol("a new message holding the same values (as GetFields reports them) packs to different bytes", line,
						fmt.Sprintf("values %s | after the history Pack=%s | new message Pack=%s", s.V, s.P, s2.P))
					return
				}
			}
		}
		if strings.HasPrefix(s.J, "{") {
			fresh := iso8583.NewMessage(c.spec)
			if json.Unmarshal([]byte(s.J), fresh) == nil {
				s2 := observe(fresh)
				if s2.J == s.J && s2.V == s.V && s2.P != s.P {
					rep.Viol("a new message decoded from the JSON of this one (same JSON, same values) packs to different bytes", line,
						fmt.Sprintf("JSON %s | after the history Pack=%s | new message Pack=%s", s.J, s.P, s2.P))
				}
			}
		}
	})
}

func checkC15History(rep *Reporter, c *hcase) {
	r := gen.NewRng(uint64(len(c.ops))*7919 + uint64(len(c.specS)))
	checkDeterminism(rep, c)
	checkContentDetermines(rep, c)
	checkReadOnly(rep, c, r)
	checkCloneIndependent(rep, c, r)
	checkPopulationOrder(rep, c, r)
	checkReturnedStable(rep, c, r)
}

func runC15(t gen.Tier, r *gen.Rng, rep *Reporter) {
	g := gen.NewFieldGen(r)
	forCases(t, r, t.N(150, 3000), t.N(150, 3000), t.N(150, 4000), func(c *hcase) {
		checkDeterminism(rep, c)
		checkContentDetermines(rep, c)
		checkReadOnly(rep, c, r)
		checkCloneIndependent(rep, c, r)
		checkPopulationOrder(rep, c, r)
		checkReturnedStable(rep, c, r)
		checkCallerMemory(rep, c, r, g)
	})
	// composites with 2..12 subfields under each sort function: Pack / JSON repeated
	for i := 0; i < t.N(150, 4000); i++ {
		spec := g.Comp(1+r.Intn(2), false)
		v := g.Value(spec, false)
		line := "F " + spec.String() + " pack " + v.String()
		safely(rep, line, func() {
			var p0, j0 string
			for k := 0; k < repeats; k++ {
				f, ok := impl.FieldOfTree(spec)
				if !ok || !impl.SetValue(f, v) {
					rep.Case("")
					return
				}
				p, err := f.Pack()
				j, _ := json.Marshal(f)
				ps := fmt.Sprintf("%x %v", p, err == nil)
				if k == 0 {
					p0, j0 = ps, string(j)
				} else if ps != p0 || string(j) != j0 {
					rep.Viol("a composite packs / JSON-encodes differently on different runs", line,
						fmt.Sprintf("%s %s vs %s %s", p0, j0, ps, j))
					return
				}
			}
			rep.Case(line)
		})
	}
	for i := 0; i < t.N(100, 3000); i++ {
		checkTrackMsgReadOnly(rep, r)
	}
	// track fields: read-only operations leave the components alone
	nTrack := 0
	gen.Dispatch("Y", gen.Tier{}, gen.NewRng(r.U64()), func(l string) {
		if f := strings.Split(l, " "); len(f) == 4 && f[2] == "packobs" && nTrack < t.N(1500, 20000) {
			nTrack++
			checkTrackReadOnly(rep, f[1], f[3])
		}
	})
	rep.Sample("H <spec> <history> => 8 runs identical; read-only ops pure; clones independent; population order irrelevant; caller slices (sentinel spare capacity) untouched")
}

var _ = time.Now
