package oracle

// Track fields (field.Track1 / Track2 / Track3): the statements of C01, C02 and C10
// evaluated on the implementation, registered under the separate ids
//
//	C01T  round trip of in-domain track values, at field level and inside messages
//	      (impl.TrackMsgSpec = iso8583.Spec87 with 45/35/36 as Track1/2/3);
//	C02T  every accepted byte string re-packs, is accepted again with the same components
//	      and re-packs to itself. Violations that fall under the known finding KF3 carry the
//	      prefix "KF3 (<class>) " in their `what` text: the accepted value is empty, or a
//	      captured group is blank after strings.TrimSpace / is skipped as a placeholder /
//	      (Track1 name) has fewer than 2 code points after TrimSpace / is changed by TrimSpace.
//	      The classes are computed here from an independent copy of the three patterns;
//	      violations of the known finding KF2 (EBCDIC-1047 bytes that decode to non-ASCII runes)
//	      carry the prefix "KF2 ";
//	C10T  Unpack into a used object (after another Unpack, a failed Unpack or Marshal) gives
//	      the same result as into a fresh one. Violations where the second value is empty
//	      carry the prefix "KF5 (empty value) ".
//
// Replay lines are channel Y lines (harness/impl/track.go).

import (
	"bytes"
	"encoding/json"
	"fmt"
	"regexp"
	"strings"
	"unicode/utf8"

	"github.com/moov-io/iso8583"
	"github.com/moov-io/iso8583/encoding"
	"github.com/moov-io/iso8583/field"

	"verif/harness/gen"
	"verif/harness/impl"
)

func init() {
	Registry["C01T"] = &Oracle{Run: runC01T, Lines: linesTrack("C01T")}
	Registry["C02T"] = &Oracle{Run: runC02T, Lines: linesTrack("C02T")}
	Registry["C10T"] = &Oracle{Run: runC10T, Lines: linesTrack("C10T")}
}

// tagged violations (known findings) are reported at most 3 times per (tag, what) so that
// they can not exhaust the reporter's class budget and hide a different violation; the
// totals go into STAT lines.
var knownCount = map[string]int{}

func viol(rep *Reporter, tag, what, line, detail string) {
	if tag != "" {
		key := strings.TrimSpace(tag) + " / " + what
		knownCount[key]++
		if knownCount[key] > 3 {
			return
		}
	}
	rep.Viol(tag+what, line, detail)
}

func knownStats(rep *Reporter) {
	for k, v := range knownCount {
		rep.Stat("known: "+k, v)
	}
	knownCount = map[string]int{}
}

// ---------------------------------------------------------------- C01T

func checkTrackRoundTrip(rep *Reporter, specT, v *T) {
	line := fmt.Sprintf("Y %s rt %s", specT.String(), v.String())
	safely(rep, line, func() {
		kind, spec, ok := impl.TrackSpecOfTree(specT)
		if !ok {
			return
		}
		verdict, detail := impl.TrackRoundTrip(kind, spec, v, impl.RoundTripTail(specT))
		switch verdict {
		case "vacuous":
			rep.Case("")
		case "holds":
			rep.Case(line)
		case "FAILS":
			rep.Case(line)
			rep.Viol("an in-domain track value does not round-trip (Pack, Unpack with trailing bytes, re-Pack)", line, detail)
		}
	})
}

func canonTrackTree(v *T) *T {
	if v != nil && v.Name == "v2" && len(v.Kids) == 5 && v.Kids[1].Name == "-" {
		c := *v
		c.Kids = append([]*T{}, v.Kids...)
		c.Kids[1] = impl.A("3d")
		return &c
	}
	return v
}

func trackMsgLine(op string, vs [3]*T) string {
	s := "Y msg " + op
	for _, v := range vs {
		if v == nil {
			s += " -"
		} else {
			s += " " + v.String()
		}
	}
	return s
}

func checkTrackMsgRoundTrip(rep *Reporter, vs [3]*T) {
	line := trackMsgLine("pack", vs)
	safely(rep, line, func() {
		m := iso8583.NewMessage(impl.TrackMsgSpec)
		if !impl.TrackMsgSet(m, vs) {
			return
		}
		packed, err := m.Pack()
		if err != nil {
			rep.Case("")
			return
		}
		rep.Case(line)
		m2 := iso8583.NewMessage(impl.TrackMsgSpec)
		if err := m2.Unpack(packed); err != nil {
			rep.Viol("a message with in-domain track values is rejected by Unpack after Pack", line, fmt.Sprintf("packed %x: %v", packed, err))
			return
		}
		got := impl.TrackMsgTree(m2)
		for k := 0; k < 3; k++ {
			want := "-"
			if vs[k] != nil {
				want = canonTrackTree(vs[k]).String()
			}
			if got.Kids[k].String() != want {
				rep.Viol("a track value inside a message does not round-trip", line,
					fmt.Sprintf("element %d: packed %s, unpacked %s", impl.TrackMsgIDs[k], want, got.Kids[k].String()))
			}
		}
		if a, b := impl.TrackMsgTree(m).Kids[3].Name, got.Kids[3].Name; a != b {
			rep.Viol("the other data elements of a message with track fields do not round-trip", line, a+" vs "+b)
		}
		again, err := m2.Pack()
		if err != nil || !bytes.Equal(again, packed) {
			rep.Viol("packing the unpacked message with track fields does not return the identical bytes", line,
				fmt.Sprintf("%x vs %x (%v)", packed, again, err))
		}
	})
}

func runC01T(t gen.Tier, r *gen.Rng, rep *Reporter) {
	r = gen.NewRng(r.U64() ^ 0xC01)
	dist := map[string]int{}
	for i := 0; i < t.N(3000, 150000); i++ {
		kind := 1 + i%3
		s := gen.CoherentTrackSpec(r, kind)
		v := gen.InDomainTrack(r, s)
		dist[fmt.Sprintf("kind%d", kind)]++
		dist["enc:"+s.Enc]++
		dist["pref:"+strings.Split(s.Pref, ".")[0]]++
		dist["packer:"+s.Packer]++
		if s.Pad != "nil" && s.Pad != "none" {
			dist["padded"]++
		}
		checkTrackRoundTrip(rep, s.Tree(), v.Tree())
	}
	for i := 0; i < t.N(1500, 60000); i++ {
		var vs [3]*T
		for k := 1; k <= 3; k++ {
			if r.Intn(4) != 0 {
				vs[k-1] = gen.InDomainTrack(r, gen.TrackSpecGen{Kind: k, Enc: "ascii", Pad: "nil"}).Tree()
			}
		}
		checkTrackMsgRoundTrip(rep, vs)
	}
	for k, v := range dist {
		rep.Stat("dist_"+k, v)
	}
	rep.Sample("Y <coherent track spec> rt <in-domain components> => Pack ok: Unpack(packed ++ tail) into a fresh object = value (separator defaulted), |packed| read, re-Pack identical")
	rep.Sample("Y msg pack <v1|-> <v2|-> <v3|-> => same inside a Spec87 message with 45/35/36 as track fields")
}

// ---------------------------------------------------------------- C02T

// independent copies of the documented formats (not read from the library)
var refTrackRegex = map[int]*regexp.Regexp{
	1: regexp.MustCompile(`^([A-Z]{1})([0-9]{1,19})\^([^\^]{2,26})\^([0-9]{4}|\^)([0-9]{3}|\^)([^\?]+)$`),
	2: regexp.MustCompile(`^([0-9]{1,19})(=|D)([0-9]{4})([0-9]{3})([^?]+)$`),
	3: regexp.MustCompile(`^([0-9]{2})([0-9]{1,19})\=([^\?]+)$`),
}

// kf3Class classifies an accepted track text (the decoded value): "" = no captured group
// is affected by TrimSpace / placeholder skipping.
func kf3Class(kind int, raw string) string {
	if raw == "" {
		return "empty value"
	}
	g := refTrackRegex[kind].FindStringSubmatch(raw)
	if g == nil {
		return ""
	}
	blank, placeholder, short, trimmed := false, false, false, false
	for i := 1; i < len(g); i++ {
		tr := strings.TrimSpace(g[i])
		switch {
		case tr == "":
			blank = true
		case kind == 1 && tr == "^" && i != 4 && i != 5:
			placeholder = true
		case kind == 3 && tr == "=":
			placeholder = true
		case kind == 1 && i == 3 && utf8.RuneCountInString(tr) < 2:
			short = true
		case tr != g[i]:
			trimmed = true
		}
	}
	switch {
	case blank:
		return "blank group"
	case placeholder:
		return "placeholder group"
	case short:
		return "name shorter than 2 after TrimSpace"
	case trimmed:
		return "trimmed group"
	}
	return ""
}

var kf3Rank = map[string]int{"empty value": 5, "blank group": 4, "placeholder group": 3, "name shorter than 2 after TrimSpace": 2, "trimmed group": 1}

// rawTextOf decodes the wire layer with a String field of the same spec.
func rawTextOf(spec *field.Spec, data []byte) (string, bool) {
	var s string
	ok := false
	func() {
		defer func() { recover() }()
		f := field.NewString(spec)
		if _, err := f.Unpack(data); err == nil {
			s, ok = f.Value(), true
		}
	}()
	return s, ok
}

func kf3Tag(kind int, spec *field.Spec, data []byte) string {
	raw, ok := rawTextOf(spec, data)
	if !ok {
		return ""
	}
	// known finding KF2 (C02): an EBCDIC-1047 value whose wire bytes decode to non-ASCII runes
	// is held as UTF-8, longer than what was on the wire
	if spec.Enc == encoding.EBCDIC1047 {
		for i := 0; i < len(raw); i++ {
			if raw[i] >= 0x80 {
				return "KF2 "
			}
		}
	}
	if c := kf3Class(kind, raw); c != "" {
		return "KF3 (" + c + ") "
	}
	return ""
}

func checkTrackRepack(rep *Reporter, specT *T, data []byte) {
	line := fmt.Sprintf("Y %s repack %s", specT.String(), impl.Hex(data))
	safely(rep, line, func() {
		kind, spec, ok := impl.TrackSpecOfTree(specT)
		if !ok {
			return
		}
		f := impl.NewTrack(kind, spec)
		if _, err := f.Unpack(data); err != nil {
			rep.Case("")
			return
		}
		rep.Case(line)
		tag := kf3Tag(kind, spec, data)
		b1, err := f.Pack()
		if err != nil {
			viol(rep, tag, "Unpack accepted the bytes but Pack fails on the resulting track field", line, err.Error())
			return
		}
		g := impl.NewTrack(kind, spec)
		n, err := g.Unpack(b1)
		if err != nil {
			viol(rep, tag, "the re-packed bytes of a track field are rejected by Unpack", line, fmt.Sprintf("repacked %x: %v", b1, err))
			return
		}
		if n != len(b1) {
			viol(rep, tag, "Unpack of the re-packed track bytes does not consume exactly those bytes", line, fmt.Sprintf("repacked %x, read %d", b1, n))
		}
		if a, b := impl.TrackTree(f).String(), impl.TrackTree(g).String(); a != b {
			viol(rep, tag, "the re-packed bytes of a track field decode to different components", line, a+" vs "+b)
		}
		b2, err := g.Pack()
		if err != nil || !bytes.Equal(b1, b2) {
			viol(rep, tag, "re-encoding a track field is not a fixed point (unpack-then-pack twice differs from once)", line, fmt.Sprintf("%x vs %x", b1, b2))
		}
	})
}

func checkTrackMsgRepack(rep *Reporter, data []byte) {
	line := "Y msg unpack " + impl.Hex(data)
	safely(rep, line, func() {
		m := iso8583.NewMessage(impl.TrackMsgSpec)
		if err := m.Unpack(data); err != nil {
			rep.Case("")
			return
		}
		rep.Case(line)
		tag, rank := "", 0
		twin := iso8583.NewMessage(iso8583.Spec87) // the same element specs as String fields
		if twin.Unpack(data) == nil {
			present := twin.GetFields()
			for k := 1; k <= 3; k++ {
				if _, ok := present[impl.TrackMsgIDs[k-1]]; !ok {
					continue
				}
				raw, _ := twin.GetString(impl.TrackMsgIDs[k-1])
				if c := kf3Class(k, raw); c != "" && kf3Rank[c] > rank { // the most severe class of the three elements
					tag, rank = "KF3 ("+c+") ", kf3Rank[c]
				}
			}
		}
		b1, err := m.Pack()
		if err != nil {
			viol(rep, tag, "Unpack accepted a message with track fields but Pack fails on it", line, err.Error())
			return
		}
		m2 := iso8583.NewMessage(impl.TrackMsgSpec)
		if err := m2.Unpack(b1); err != nil {
			viol(rep, tag, "the re-packed message with track fields is rejected by Unpack", line, fmt.Sprintf("repacked %x: %v", b1, err))
			return
		}
		if a, b := impl.TrackMsgTree(m).String(), impl.TrackMsgTree(m2).String(); a != b {
			viol(rep, tag, "the re-packed message with track fields decodes to different content", line, a+" vs "+b)
		}
		b2, err := m2.Pack()
		if err != nil || !bytes.Equal(b1, b2) {
			viol(rep, tag, "re-encoding a message with track fields is not a fixed point", line, fmt.Sprintf("%x vs %x", b1, b2))
		}
	})
}

func trackWires(r *gen.Rng, s gen.TrackSpecGen, nMut int) [][]byte {
	var out [][]byte
	_, spec, ok := impl.TrackSpecOfTree(s.Tree())
	if !ok {
		return nil
	}
	for k := 0; k < 2; k++ {
		v := gen.InDomainTrack(r, s)
		f := impl.NewTrack(s.Kind, spec)
		if !impl.SetTrack(f, s.Kind, v.Tree()) {
			continue
		}
		var w []byte
		var err error
		func() {
			defer func() {
				if recover() != nil {
					err = fmt.Errorf("panic")
				}
			}()
			w, err = f.Pack()
		}()
		if err != nil {
			continue
		}
		out = append(out, w, append(append([]byte{}, w...), r.Bytes(1+r.Intn(3))...))
		out = append(out, gen.MutateTrackWire(r, w, nMut)...)
	}
	texts := gen.HandTexts(s.Kind)
	for k := 0; k < 4; k++ {
		if w, ok := gen.WrapText(s, []byte(gen.Pick(r, texts))); ok {
			out = append(out, w)
			out = append(out, gen.MutateTrackWire(r, w, 2)...)
		}
	}
	if w, ok := gen.WrapText(s, nil); ok {
		out = append(out, w)
	}
	return out
}

func trackMsgWire(r *gen.Rng, kinds [3]bool) ([]byte, [3]*T, bool) {
	var vs [3]*T
	for k := 1; k <= 3; k++ {
		if kinds[k-1] {
			vs[k-1] = gen.InDomainTrack(r, gen.TrackSpecGen{Kind: k, Enc: "ascii", Pad: "nil"}).Tree()
		}
	}
	m := iso8583.NewMessage(impl.TrackMsgSpec)
	if !impl.TrackMsgSet(m, vs) {
		return nil, vs, false
	}
	b, err := m.Pack()
	return b, vs, err == nil
}

// stringMsgWire packs a Spec87 message whose elements 45/35/36 carry arbitrary texts.
func stringMsgWire(texts [3]*string) ([]byte, bool) {
	m := iso8583.NewMessage(iso8583.Spec87)
	m.MTI("0100")
	_ = m.Field(2, "4242424242424242")
	_ = m.Field(11, "123456")
	_ = m.Field(70, "301")
	for k := 0; k < 3; k++ {
		if texts[k] != nil {
			if err := m.Field(impl.TrackMsgIDs[k], *texts[k]); err != nil {
				return nil, false
			}
		}
	}
	b, err := m.Pack()
	return b, err == nil
}

func runC02T(t gen.Tier, r *gen.Rng, rep *Reporter) {
	r = gen.NewRng(r.U64() ^ 0xC02)
	for i := 0; i < t.N(500, 25000); i++ {
		kind := 1 + i%3
		s := gen.CoherentTrackSpec(r, kind)
		for _, w := range trackWires(r, s, t.N(6, 12)) {
			checkTrackRepack(rep, s.Tree(), w)
		}
		checkTrackRepack(rep, s.Tree(), r.Bytes(r.Intn(10)))
	}
	for kind := 1; kind <= 3; kind++ { // every hand text under the usual ASCII spec
		s := gen.NearTrackSpec(kind)
		for _, txt := range gen.HandTexts(kind) {
			if w, ok := gen.WrapText(s, []byte(txt)); ok {
				checkTrackRepack(rep, s.Tree(), w)
			}
		}
	}
	for i := 0; i < t.N(400, 20000); i++ {
		w, _, ok := trackMsgWire(r, [3]bool{r.Intn(4) != 0, r.Intn(4) != 0, r.Intn(4) != 0})
		if !ok {
			continue
		}
		checkTrackMsgRepack(rep, w)
		for _, m := range gen.MutateTrackWire(r, w, t.N(6, 12)) {
			checkTrackMsgRepack(rep, m)
		}
		var texts [3]*string
		for k := 0; k < 3; k++ {
			if r.Intn(3) != 0 {
				s := gen.Pick(r, gen.HandTexts(k+1))
				texts[k] = &s
			}
		}
		if w, ok := stringMsgWire(texts); ok {
			checkTrackMsgRepack(rep, w)
		}
	}
	knownStats(rep)
	rep.Sample("Y <coherent track spec> repack <packed / hand-made / mutated wire> => if accepted: Pack ok, re-packed bytes accepted, same components, re-pack identical")
}

// ---------------------------------------------------------------- C10T

func trackJSON(f field.Field) string {
	b, err := json.Marshal(f)
	if err != nil {
		return "err:" + err.Error()
	}
	return string(b)
}

// checkTrackReuse: the object first sees `w1` (unpack2) or is populated with `v` through
// Marshal (setunpack); then `data` is unpacked into it and into a fresh object.
func checkTrackReuse(rep *Reporter, specT *T, w1 []byte, v *T, data []byte) {
	var line string
	if v != nil {
		line = fmt.Sprintf("Y %s setunpack %s %s", specT.String(), v.String(), impl.Hex(data))
	} else {
		line = fmt.Sprintf("Y %s unpack2 %s %s", specT.String(), impl.Hex(w1), impl.Hex(data))
	}
	safely(rep, line, func() {
		kind, spec, ok := impl.TrackSpecOfTree(specT)
		if !ok {
			return
		}
		used := impl.NewTrack(kind, spec)
		if v != nil {
			if !impl.SetTrack(used, kind, v) {
				return
			}
		} else {
			_, _ = used.Unpack(w1)
		}
		fresh := impl.NewTrack(kind, spec)
		if kind == 1 {
			// FixedLength is a formatting option of the object, not a parsed component
			fresh.(*field.Track1).FixedLength = used.(*field.Track1).FixedLength
		}
		n1, e1 := used.Unpack(data)
		n2, e2 := fresh.Unpack(data)
		if (e1 == nil) != (e2 == nil) {
			rep.Case(line)
			rep.Viol("Unpack of the same bytes succeeds into one of a used / a fresh track object and fails into the other", line,
				fmt.Sprintf("used: %v, fresh: %v", e1, e2))
			return
		}
		if e1 != nil {
			rep.Case("")
			return
		}
		rep.Case(line)
		tag := ""
		if raw, ok := rawTextOf(spec, data); ok && raw == "" {
			tag = "KF5 (empty value) "
		}
		if n1 != n2 {
			viol(rep, tag, "bytes read by Unpack depend on the prior state of the track object", line, fmt.Sprintf("%d vs %d", n1, n2))
		}
		if a, b := impl.TrackTree(used).String(), impl.TrackTree(fresh).String(); a != b {
			viol(rep, tag, "the components after Unpack depend on what the track object held before", line, "used: "+a+", fresh: "+b)
			return
		}
		p1, pe1 := used.Pack()
		p2, pe2 := fresh.Pack()
		if (pe1 == nil) != (pe2 == nil) || !bytes.Equal(p1, p2) {
			viol(rep, tag, "the re-packed bytes after Unpack depend on the prior state of the track object", line, fmt.Sprintf("%x vs %x", p1, p2))
		}
		if a, b := trackJSON(used), trackJSON(fresh); a != b {
			viol(rep, tag, "the JSON after Unpack depends on the prior state of the track object", line, a+" vs "+b)
		}
	})
}

func checkTrackMsgReuse(rep *Reporter, w1, data []byte) {
	line := fmt.Sprintf("Y msg unpack2 %s %s", impl.Hex(w1), impl.Hex(data))
	safely(rep, line, func() {
		used := iso8583.NewMessage(impl.TrackMsgSpec)
		_ = used.Unpack(w1)
		fresh := iso8583.NewMessage(impl.TrackMsgSpec)
		e1 := used.Unpack(data)
		e2 := fresh.Unpack(data)
		if (e1 == nil) != (e2 == nil) {
			rep.Case(line)
			rep.Viol("Unpack of the same bytes succeeds into one of a used / a fresh message with track fields and fails into the other", line,
				fmt.Sprintf("used: %v, fresh: %v", e1, e2))
			return
		}
		if e1 != nil {
			rep.Case("")
			return
		}
		rep.Case(line)
		if a, b := impl.TrackMsgTree(used).String(), impl.TrackMsgTree(fresh).String(); a != b {
			rep.Viol("the track components of a message after Unpack depend on what the message held before", line, "used: "+a+", fresh: "+b)
			return
		}
		p1, pe1 := used.Pack()
		p2, pe2 := fresh.Pack()
		if (pe1 == nil) != (pe2 == nil) || !bytes.Equal(p1, p2) {
			rep.Viol("the re-packed bytes of a message with track fields depend on prior state", line, fmt.Sprintf("%x vs %x", p1, p2))
		}
		j1, _ := json.Marshal(used)
		j2, _ := json.Marshal(fresh)
		if !bytes.Equal(j1, j2) {
			rep.Viol("the JSON of a message with track fields depends on prior state", line, string(j1)+" vs "+string(j2))
		}
	})
}

func runC10T(t gen.Tier, r *gen.Rng, rep *Reporter) {
	r = gen.NewRng(r.U64() ^ 0xC10)
	for i := 0; i < t.N(400, 20000); i++ {
		kind := 1 + i%3
		s := gen.CoherentTrackSpec(r, kind)
		if i%4 == 0 {
			s = gen.NearTrackSpec(kind)
		}
		pool := trackWires(r, s, 3)
		if len(pool) == 0 {
			continue
		}
		for k := 0; k < t.N(12, 24); k++ {
			checkTrackReuse(rep, s.Tree(), gen.Pick(r, pool), nil, gen.Pick(r, pool))
		}
		bts := gen.BoundaryTracks(r, kind)
		for k := 0; k < t.N(6, 12); k++ {
			var v *T
			if r.Bool() {
				v = gen.InDomainTrack(r, s).Tree()
			} else {
				v = gen.Pick(r, bts).Tree()
			}
			checkTrackReuse(rep, s.Tree(), nil, v, gen.Pick(r, pool))
		}
	}
	for i := 0; i < t.N(300, 15000); i++ {
		a, _, ok := trackMsgWire(r, [3]bool{true, true, true})
		if !ok {
			continue
		}
		// B: a strict subset of A's track elements, or tracks whose optional components are
		// absent, or zero-length / hand-made texts
		b, _, ok2 := trackMsgWire(r, [3]bool{r.Bool(), r.Bool(), r.Bool()})
		if ok2 {
			checkTrackMsgReuse(rep, a, b)
			checkTrackMsgReuse(rep, b, a)
		}
		var texts [3]*string
		for k := 0; k < 3; k++ {
			switch r.Intn(3) {
			case 0:
				e := ""
				texts[k] = &e
			case 1:
				s := gen.Pick(r, gen.HandTexts(k+1))
				texts[k] = &s
			}
		}
		if w, ok := stringMsgWire(texts); ok {
			checkTrackMsgReuse(rep, a, w)
		}
	}
	knownStats(rep)
	rep.Sample("Y <track spec> unpack2 <w1> <w2> / setunpack <components> <w2> => Unpack(w2) into the used object = Unpack(w2) into a fresh one (error-ness, bytes read, components, re-pack, JSON)")
}

// ---------------------------------------------------------------- re-examination of protocol lines

func linesTrack(which string) func([]string, *Reporter) {
	return func(lines []string, rep *Reporter) {
		for _, l := range lines {
			t := strings.Split(l, " ")
			if len(t) < 4 || t[0] != "Y" {
				continue
			}
			if t[1] == "msg" {
				switch {
				case t[2] == "unpack" && len(t) == 4 && which == "C02T":
					if d, ok := impl.UnHex(t[3]); ok {
						checkTrackMsgRepack(rep, d)
					}
				case t[2] == "unpack2" && len(t) == 5 && which == "C10T":
					d1, ok1 := impl.UnHex(t[3])
					d2, ok2 := impl.UnHex(t[4])
					if ok1 && ok2 {
						checkTrackMsgReuse(rep, d1, d2)
					}
				case t[2] == "pack" && len(t) == 6 && which == "C01T":
					var vs [3]*T
					ok := true
					for i := 0; i < 3; i++ {
						if t[3+i] != "-" {
							v, k := impl.ParseTree(t[3+i])
							ok = ok && k
							vs[i] = v
						}
					}
					if ok {
						checkTrackMsgRoundTrip(rep, vs)
					}
				}
				continue
			}
			specT, ok := impl.ParseTree(t[1])
			if !ok {
				continue
			}
			kind, _, ok := impl.TrackSpecOfTree(specT)
			if !ok {
				continue
			}
			hexArg := func(i int) ([]byte, bool) {
				if i >= len(t) {
					return nil, false
				}
				return impl.UnHex(t[i])
			}
			switch t[2] {
			case "pack", "rt", "dom":
				if v, ok := impl.ParseTree(t[3]); ok && which == "C01T" && gen.TrackInDomain(kind, v) {
					checkTrackRoundTrip(rep, specT, v)
				}
			case "unpack", "repack":
				d, ok := hexArg(3)
				if !ok {
					continue
				}
				switch which {
				case "C02T":
					checkTrackRepack(rep, specT, d)
				case "C10T":
					checkTrackReuse(rep, specT, d, nil, d)
				case "C01T":
					func() {
						defer func() { recover() }()
						k, spec, _ := impl.TrackSpecOfTree(specT)
						f := impl.NewTrack(k, spec)
						if _, err := f.Unpack(d); err == nil {
							if v := impl.TrackTree(f); gen.TrackInDomain(k, v) {
								checkTrackRoundTrip(rep, specT, v)
							}
						}
					}()
				}
			case "unpack2":
				d1, ok1 := hexArg(3)
				d2, ok2 := hexArg(4)
				if !ok1 || !ok2 {
					continue
				}
				switch which {
				case "C10T":
					checkTrackReuse(rep, specT, d1, nil, d2)
				case "C02T":
					checkTrackRepack(rep, specT, d1)
					checkTrackRepack(rep, specT, d2)
				}
			case "setunpack":
				v, ok1 := impl.ParseTree(t[3])
				d, ok2 := hexArg(4)
				if !ok1 || !ok2 {
					continue
				}
				switch which {
				case "C10T":
					checkTrackReuse(rep, specT, nil, v, d)
				case "C02T":
					checkTrackRepack(rep, specT, d)
				}
			}
		}
	}
}
