package oracle

// C03 — packed bytes follow the ISO 8583 layout: an independent reference codec.
//
// This file holds a second, independent implementation of the wire layout (a port of
// lean/Iso8583/Spec/Layout.lean) that works on the parsed protocol TREES, not on the
// library's spec / field objects, and calls nothing from the library's encoding, prefix,
// padding, sort or bitmap code: digits, BCD nibbles, big-endian numbers, hex, BER
// lengths, bits, the EBCDIC tables and the three tag orders are all written here.
//
// The check, per `R <spec> <msg>` / `R f <fieldspec> <value>` line:
//
//	(i)   reference defined, Pack ok          => the bytes are equal
//	(ii)  reference defined <=> Pack succeeds
//	(iii) reference defined and value in-domain => the real Unpack of the REFERENCE
//	      bytes yields the canonical value, and packing that again gives the reference
//	      bytes (of the canonical value, which are the same bytes unless the value had pad
//	      characters at its padded edge and was longer than the field)
//
// (iii) is what notices a wire format that was changed consistently on the pack and the
// unpack path: the library still round-trips, but it no longer reads / writes ISO 8583.

import (
	"bytes"
	"fmt"
	"strconv"
	"strings"

	"github.com/moov-io/iso8583"

	"verif/harness/gen"
	"verif/harness/impl"
)

func init() {
	Registry["C03"] = &Oracle{Run: layRunC03, Lines: layLinesC03}
}

// ------------------------------------------------------------------ spec / value types
// (own types; filled from the trees)

type layRefMalformed struct{ why string }

func layRefBad(why string) { panic(layRefMalformed{why}) }

type layRPad struct {
	side byte // 0 = nil / none, 'L', 'R'
	c    byte
}

type layRPref struct {
	kind string // "none" | "fixed" | "var" | "ber"
	fam  string
	d    int
}

type layRSub struct {
	tag string
	f   *layRField
}

type layRField struct {
	comp bool
	// primitive
	kind   string // s n b h
	length int
	enc    string
	pref   layRPref
	pad    layRPad
	track2 bool
	// composite (length, pref shared with the above)
	bitmapped bool
	tagLen    int
	tagEnc    string // "" = positional (no tag on the wire)
	tagPad    layRPad
	sortKind  string
	bmLen     int
	bmEnc     string
	subs      []layRSub // in the composite's sort order
}

type layRKV struct {
	tag string
	v   *layRValue
}

type layRValue struct {
	kind  byte // 's' 'b' 'h' 'n' 'c'
	bytes []byte
	num   int64
	kvs   []layRKV
}

type layRIdField struct {
	id int
	f  *layRField
}

type layRMsgSpec struct {
	mti    *layRField
	bmLen  int
	bmEnc  string
	auto   bool
	fields []layRIdField
}

type layRIdValue struct {
	id int
	v  *layRValue
}

type layRMsg struct {
	mti    *layRValue // nil = absent
	fields []layRIdValue
}

var layRefEncNames = map[string]bool{"ascii": true, "ebcdic": true, "ebcdic1047": true, "binary": true, "bcd": true,
	"lbcd": true, "bytesToHex": true, "hexToBytes": true, "berTag": true}

var layRefFamNames = map[string]bool{"ascii": true, "bcd": true, "binary": true, "hex": true, "ebcdic": true, "ebcdic1047": true}

func layRefAtoms(t *impl.Tree, n int) []string {
	if len(t.Kids) != n {
		layRefBad("arity of " + t.Name)
	}
	out := make([]string, n)
	for i, k := range t.Kids {
		if len(k.Kids) != 0 {
			layRefBad("atom expected in " + t.Name)
		}
		out[i] = k.Name
	}
	return out
}

// refNat parses a natural number written in plain decimal digits.
func layRefNat(s string) int {
	if s == "" || len(s) > 18 {
		layRefBad("nat " + s)
	}
	n := 0
	for i := 0; i < len(s); i++ {
		if s[i] < '0' || s[i] > '9' {
			layRefBad("nat " + s)
		}
		n = n*10 + int(s[i]-'0')
	}
	return n
}

func layRefHexNibble(c byte) (int, bool) {
	switch {
	case c >= '0' && c <= '9':
		return int(c - '0'), true
	case c >= 'A' && c <= 'F':
		return int(c-'A') + 10, true
	case c >= 'a' && c <= 'f':
		return int(c-'a') + 10, true
	}
	return 0, false
}

// refUnhex reads a protocol byte string: lower-case hex, "-" = empty.
func layRefUnhex(s string) []byte {
	if s == "-" {
		return []byte{}
	}
	b, ok := layRefHexTextToBytes([]byte(s))
	if !ok {
		layRefBad("hex " + s)
	}
	return b
}

func layRefPadOf(s string) layRPad {
	switch s {
	case "nil", "none":
		return layRPad{}
	}
	if len(s) == 3 && (s[0] == 'L' || s[0] == 'R') {
		b := layRefUnhex(s[1:])
		return layRPad{side: s[0], c: b[0]}
	}
	layRefBad("pad " + s)
	return layRPad{}
}

func layRefPrefOf(s string) layRPref {
	switch s {
	case "ber":
		return layRPref{kind: "ber"}
	case "none":
		return layRPref{kind: "none"}
	}
	parts := strings.Split(s, ".")
	if len(parts) != 2 || !layRefFamNames[parts[0]] {
		layRefBad("prefix " + s)
	}
	if parts[1] == "F" {
		return layRPref{kind: "fixed", fam: parts[0]}
	}
	return layRPref{kind: "var", fam: parts[0], d: layRefNat(parts[1])}
}

func layRefEncOf(s string) string {
	if !layRefEncNames[s] {
		layRefBad("encoding " + s)
	}
	return s
}

func layRefFieldOf(t *impl.Tree) *layRField {
	switch t.Name {
	case "p":
		a := layRefAtoms(t, 6)
		f := &layRField{kind: a[0], length: layRefNat(a[1]), enc: layRefEncOf(a[2]), pref: layRefPrefOf(a[3]), pad: layRefPadOf(a[4]), track2: a[5] == "t2"}
		switch f.kind {
		case "s", "n", "b", "h":
		default:
			layRefBad("kind " + f.kind)
		}
		return f
	case "c":
		if len(t.Kids) < 3 || len(t.Kids[0].Kids) != 0 || len(t.Kids[1].Kids) != 0 {
			layRefBad("composite")
		}
		f := &layRField{comp: true, length: layRefNat(t.Kids[0].Name), pref: layRefPrefOf(t.Kids[1].Name)}
		mode := t.Kids[2]
		switch mode.Name {
		case "t":
			a := layRefAtoms(mode, 6)
			f.tagLen = layRefNat(a[0])
			if a[1] != "-" {
				f.tagEnc = layRefEncOf(a[1])
			}
			f.tagPad = layRefPadOf(a[2])
			switch a[3] {
			case "str", "int", "hex":
				f.sortKind = a[3]
			default:
				layRefBad("sort " + a[3])
			}
			if a[5] != "-" {
				layRefPrefOf(a[5])
			}
		case "b":
			a := layRefAtoms(mode, 3)
			f.bitmapped = true
			f.bmLen = layRefNat(a[0])
			f.bmEnc = layRefEncOf(a[1])
			layRefPrefOf(a[2])
			f.sortKind = "int"
		default:
			layRefBad("composite mode " + mode.Name)
		}
		var subs []layRSub
		for _, k := range t.Kids[3:] {
			if k.Name != "sub" || len(k.Kids) != 2 || len(k.Kids[0].Kids) != 0 {
				layRefBad("sub")
			}
			subs = append(subs, layRSub{tag: k.Kids[0].Name, f: layRefFieldOf(k.Kids[1])})
		}
		f.subs = layRefOrderSubs(f.sortKind, subs)
		return f
	}
	layRefBad("field " + t.Name)
	return nil
}

func layRefInt64(s string) int64 {
	neg := false
	digits := s
	if strings.HasPrefix(s, "-") {
		neg = true
		digits = s[1:]
	}
	if digits == "" || len(digits) > 19 {
		layRefBad("int " + s)
	}
	var mag uint64
	for i := 0; i < len(digits); i++ {
		if digits[i] < '0' || digits[i] > '9' {
			layRefBad("int " + s)
		}
		d := uint64(digits[i] - '0')
		if mag > (1<<63-d)/10 {
			layRefBad("int range " + s)
		}
		mag = mag*10 + d
	}
	if neg {
		return int64(-mag) // mag <= 2^63
	}
	if mag > 1<<63-1 {
		layRefBad("int range " + s)
	}
	return int64(mag)
}

func layRefValueOf(t *impl.Tree) *layRValue {
	switch t.Name {
	case "s", "b", "h":
		a := layRefAtoms(t, 1)
		return &layRValue{kind: t.Name[0], bytes: layRefUnhex(a[0])}
	case "n":
		a := layRefAtoms(t, 1)
		return &layRValue{kind: 'n', num: layRefInt64(a[0])}
	case "c", "c()":
		v := &layRValue{kind: 'c'}
		for _, k := range t.Kids {
			if k.Name != "kv" || len(k.Kids) != 2 || len(k.Kids[0].Kids) != 0 {
				layRefBad("kv")
			}
			v.kvs = append(v.kvs, layRKV{tag: k.Kids[0].Name, v: layRefValueOf(k.Kids[1])})
		}
		return v
	}
	layRefBad("value " + t.Name)
	return nil
}

func layRefMsgSpecOf(t *impl.Tree) *layRMsgSpec {
	if t.Name != "m" || len(t.Kids) < 2 || t.Kids[1].Name != "bm" {
		layRefBad("msgspec")
	}
	mti := layRefFieldOf(t.Kids[0])
	if mti.comp {
		layRefBad("mti")
	}
	a := layRefAtoms(t.Kids[1], 4)
	s := &layRMsgSpec{mti: mti, bmLen: layRefNat(a[0]), bmEnc: layRefEncOf(a[1]), auto: a[3] == "1"}
	layRefPrefOf(a[2])
	for _, k := range t.Kids[2:] {
		if k.Name != "f" || len(k.Kids) != 2 || len(k.Kids[0].Kids) != 0 {
			layRefBad("msgspec field")
		}
		s.fields = append(s.fields, layRIdField{id: layRefNat(k.Kids[0].Name), f: layRefFieldOf(k.Kids[1])})
	}
	return s
}

func layRefMsgOf(t *impl.Tree) *layRMsg {
	if t.Name != "msg" || len(t.Kids) < 1 {
		layRefBad("msg")
	}
	m := &layRMsg{}
	if !(t.Kids[0].Name == "-" && len(t.Kids[0].Kids) == 0) {
		m.mti = layRefValueOf(t.Kids[0])
	}
	for _, k := range t.Kids[1:] {
		if k.Name != "f" || len(k.Kids) != 2 || len(k.Kids[0].Kids) != 0 {
			layRefBad("msg field")
		}
		m.fields = append(m.fields, layRIdValue{id: layRefNat(k.Kids[0].Name), v: layRefValueOf(k.Kids[1])})
	}
	return m
}

// ------------------------------------------------------------------ tag orders
// from the documentation of /repo/sort/strings.go:
//   str: increasing string order
//   int: by integer value; two tags of which one is not an integer compare as strings
//   hex: by the big-endian value of the hex bytes; if one is not (even-length) hex, as strings

// refDecimalKey: sign and magnitude digits without leading zeros of a decimal integer
// (optional sign, then one or more digits).
func layRefDecimalKey(s string) (neg bool, mag string, ok bool) {
	d := s
	if strings.HasPrefix(d, "+") {
		d = d[1:]
	} else if strings.HasPrefix(d, "-") {
		neg = true
		d = d[1:]
	}
	if d == "" {
		return false, "", false
	}
	for i := 0; i < len(d); i++ {
		if d[i] < '0' || d[i] > '9' {
			return false, "", false
		}
	}
	for len(d) > 0 && d[0] == '0' {
		d = d[1:]
	}
	if d == "" {
		neg = false // zero
	}
	return neg, d, true
}

// refMagLess compares two magnitudes written without leading zero digits.
func layRefMagLess(a, b string) bool {
	if len(a) != len(b) {
		return len(a) < len(b)
	}
	return a < b
}

func layRefTagLess(kind, x, y string) bool {
	switch kind {
	case "int":
		nx, mx, okx := layRefDecimalKey(x)
		ny, my, oky := layRefDecimalKey(y)
		if !okx || !oky {
			return x < y
		}
		switch {
		case nx && !ny:
			return true
		case !nx && ny:
			return false
		case nx && ny:
			return layRefMagLess(my, mx)
		}
		return layRefMagLess(mx, my)
	case "hex":
		bx, okx := layRefHexTextToBytes([]byte(x))
		by, oky := layRefHexTextToBytes([]byte(y))
		if !okx || !oky {
			return x < y
		}
		for len(bx) > 0 && bx[0] == 0 {
			bx = bx[1:]
		}
		for len(by) > 0 && by[0] == 0 {
			by = by[1:]
		}
		return layRefMagLess(string(bx), string(by))
	}
	return x < y
}

// refOrderSubs: insertion sort, right to left (unique result on strictly ordered tag sets)
func layRefOrderSubs(kind string, subs []layRSub) []layRSub {
	out := []layRSub{}
	for i := len(subs) - 1; i >= 0; i-- {
		x := subs[i]
		j := 0
		for j < len(out) && !layRefTagLess(kind, x.tag, out[j].tag) {
			j++
		}
		out = append(out, layRSub{})
		copy(out[j+1:], out[j:])
		out[j] = x
	}
	return out
}

// ------------------------------------------------------------------ digits, nibbles, hex

// refDigits: the w low-order base-b digits of n, most significant first
func layRefDigits(b, w, n int) []int {
	out := make([]int, w)
	for i := w - 1; i >= 0; i-- {
		out[i] = n % b
		n /= b
	}
	return out
}

// refDigitCount: number of base-b digits of n (at least one)
func layRefDigitCount(b, n int) int {
	k := 1
	for n >= b {
		n /= b
		k++
	}
	return k
}

// refFits: n < b^d
func layRefFits(n, b, d int) bool {
	p := 1
	for i := 0; i < d; i++ {
		if p > (1<<62)/b {
			return true // b^d exceeds every int length
		}
		p *= b
	}
	return n < p
}

const layRefUpperHex = "0123456789ABCDEF"

func layRefPackNibbles(ds []int) []byte {
	out := make([]byte, 0, len(ds)/2)
	for i := 0; i+1 < len(ds); i += 2 {
		out = append(out, byte(ds[i]*16+ds[i+1]))
	}
	return out
}

func layRefHexTextToBytes(text []byte) ([]byte, bool) {
	if len(text)%2 != 0 {
		return nil, false
	}
	ds := make([]int, len(text))
	for i, c := range text {
		v, ok := layRefHexNibble(c)
		if !ok {
			return nil, false
		}
		ds[i] = v
	}
	return layRefPackNibbles(ds), true
}

func layRefDecimalText(i int64) []byte {
	var mag uint64
	if i < 0 {
		mag = uint64(-(i + 1)) + 1
	} else {
		mag = uint64(i)
	}
	var rev []byte
	for {
		rev = append(rev, byte('0'+mag%10))
		mag /= 10
		if mag == 0 {
			break
		}
	}
	out := []byte{}
	if i < 0 {
		out = append(out, '-')
	}
	for k := len(rev) - 1; k >= 0; k-- {
		out = append(out, rev[k])
	}
	return out
}

// ------------------------------------------------------------------ padding

func layRefPadded(p layRPad, text []byte, length int) []byte {
	n := length - len(text)
	if n < 0 {
		n = 0
	}
	fill := make([]byte, n)
	for i := range fill {
		fill[i] = p.c
	}
	switch p.side {
	case 'L':
		return append(fill, text...)
	case 'R':
		return append(append([]byte{}, text...), fill...)
	}
	return append([]byte{}, text...)
}

func layRefUnpadded(p layRPad, text []byte) []byte {
	switch p.side {
	case 'L':
		for len(text) > 0 && text[0] == p.c {
			text = text[1:]
		}
	case 'R':
		for len(text) > 0 && text[len(text)-1] == p.c {
			text = text[:len(text)-1]
		}
	}
	return text
}

// ------------------------------------------------------------------ value encodings

func layRefEncodeText(enc string, text []byte) ([]byte, bool) {
	switch enc {
	case "ascii":
		for _, c := range text {
			if c > 0x7F {
				return nil, false
			}
		}
		return append([]byte{}, text...), true
	case "ebcdic":
		out := make([]byte, len(text))
		for i, c := range text {
			out[i] = byte(layRefASCIIToEBCDIC[c])
		}
		return out, true
	case "ebcdic1047":
		out := make([]byte, len(text))
		for i, c := range text {
			if c > 0x7F || layRefCP1047Encode[c] >= 256 {
				return nil, false
			}
			out[i] = byte(layRefCP1047Encode[c])
		}
		return out, true
	case "binary":
		return append([]byte{}, text...), true
	case "bcd", "lbcd":
		ds := make([]int, 0, len(text)+1)
		for _, c := range text {
			if c < '0' || c > '9' {
				return nil, false
			}
			ds = append(ds, int(c-'0'))
		}
		if len(ds)%2 == 1 {
			if enc == "bcd" {
				ds = append([]int{0}, ds...)
			} else {
				ds = append(ds, 0)
			}
		}
		return layRefPackNibbles(ds), true
	case "bytesToHex":
		out := make([]byte, 0, 2*len(text))
		for _, c := range text {
			out = append(out, layRefUpperHex[c/16], layRefUpperHex[c%16])
		}
		return out, true
	case "hexToBytes", "berTag":
		return layRefHexTextToBytes(text)
	}
	return nil, false
}

// ------------------------------------------------------------------ length prefixes

func layRefLengthPrefix(p layRPref, maxLen, n int) ([]byte, bool) {
	switch p.kind {
	case "none":
		return []byte{}, true
	case "fixed":
		if p.fam == "hex" {
			return []byte{}, n == 2*maxLen
		}
		return []byte{}, n == maxLen
	case "ber":
		if maxLen != 0 && maxLen < n {
			return nil, false
		}
		if n <= 127 {
			return []byte{byte(n)}, true
		}
		k := layRefDigitCount(256, n)
		out := []byte{byte(0x80 + k)}
		for _, d := range layRefDigits(256, k, n) {
			out = append(out, byte(d))
		}
		return out, true
	case "var":
		if maxLen < n {
			return nil, false
		}
		d := p.d
		switch p.fam {
		case "ascii", "ebcdic", "ebcdic1047":
			if !layRefFits(n, 10, d) {
				return nil, false
			}
			base := byte(0x30)
			if p.fam != "ascii" {
				base = 0xF0
			}
			out := make([]byte, 0, d)
			for _, x := range layRefDigits(10, d, n) {
				out = append(out, base+byte(x))
			}
			return out, true
		case "bcd":
			if !layRefFits(n, 10, d) {
				return nil, false
			}
			ds := layRefDigits(10, d, n)
			if d%2 == 1 {
				ds = append([]int{0}, ds...)
			}
			return layRefPackNibbles(ds), true
		case "binary":
			if !layRefFits(n, 256, d) {
				return nil, false
			}
			out := make([]byte, 0, d)
			for _, x := range layRefDigits(256, d, n) {
				out = append(out, byte(x))
			}
			return out, true
		case "hex":
			if !layRefFits(n, 256, d) {
				return nil, false
			}
			out := make([]byte, 0, 2*d)
			for _, x := range layRefDigits(16, 2*d, n) {
				out = append(out, layRefUpperHex[x])
			}
			return out, true
		}
	}
	return nil, false
}

// ------------------------------------------------------------------ primitive fields

func layRefValueText(kind string, v *layRValue) ([]byte, bool) {
	switch {
	case kind == "s" && v.kind == 's', kind == "b" && v.kind == 'b':
		return v.bytes, true
	case kind == "n" && v.kind == 'n':
		return layRefDecimalText(v.num), true
	case kind == "h" && v.kind == 'h':
		return layRefHexTextToBytes(v.bytes)
	}
	return nil, false
}

func layRefEncodePrim(s *layRField, v *layRValue) ([]byte, bool) {
	text, ok := layRefValueText(s.kind, v)
	if !ok {
		return nil, false
	}
	var p []byte
	units := 0
	if !s.track2 {
		p = layRefPadded(s.pad, text, s.length)
		units = len(p)
	} else {
		// Track 2 data: the prefix counts the characters of the value itself; the value
		// travels padded to an even number of characters
		p = text
		if len(text)%2 == 1 {
			p = layRefPadded(s.pad, text, len(text)+1)
		}
		units = len(text)
	}
	pre, ok1 := layRefLengthPrefix(s.pref, s.length, units)
	body, ok2 := layRefEncodeText(s.enc, p)
	if !ok1 || !ok2 {
		return nil, false
	}
	return append(pre, body...), true
}

// ------------------------------------------------------------------ bitmaps

// refBitmapBytes: nBytes bytes whose bit i (1-indexed, most significant bit of the first
// byte first) is bit(i)
func layRefBitmapBytes(nBytes int, bit func(int) bool) []byte {
	out := make([]byte, nBytes)
	for j := 0; j < nBytes; j++ {
		acc := 0
		for k := 0; k < 8; k++ {
			acc *= 2
			if bit(8*j + k + 1) {
				acc++
			}
		}
		out[j] = byte(acc)
	}
	return out
}

func layRefBitmapData(specLen int, auto bool, ids []int) ([]byte, bool) {
	bl := specLen
	if bl == 0 {
		bl = 8
	}
	blockBits := 8 * bl
	has := map[int]bool{}
	for _, i := range ids {
		has[i] = true
	}
	if auto {
		nb := 1
		for _, i := range ids {
			if k := (i + blockBits - 1) / blockBits; k > nb {
				nb = k
			}
		}
		if nb*bl > 1<<22 {
			layRefBad("bitmap too large to materialise")
		}
		return layRefBitmapBytes(nb*bl, func(i int) bool {
			return has[i] || (i%blockBits == 1 && i+blockBits <= nb*blockBits)
		}), true
	}
	for _, i := range ids {
		if i < 1 || i > blockBits {
			return nil, false
		}
	}
	return layRefBitmapBytes(bl, func(i int) bool { return has[i] }), true
}

// ------------------------------------------------------------------ composites, messages

func layRefFindKV(tag string, kvs []layRKV) *layRValue {
	for _, kv := range kvs {
		if kv.tag == tag {
			return kv.v
		}
	}
	return nil
}

// refNumeral: a plain decimal numeral
func layRefNumeral(tag string) (int, bool) {
	if tag == "" || len(tag) > 9 {
		return 0, false
	}
	n := 0
	for i := 0; i < len(tag); i++ {
		if tag[i] < '0' || tag[i] > '9' {
			return 0, false
		}
		n = n*10 + int(tag[i]-'0')
	}
	return n, true
}

func layRefEncodeSubfields(tagged bool, tagEnc string, tagPad layRPad, tagLen int, subs []layRSub, vals []layRKV) ([]byte, bool) {
	out := []byte{}
	for _, s := range subs {
		v := layRefFindKV(s.tag, vals)
		if v == nil {
			continue
		}
		if tagged {
			tb, ok := layRefEncodeText(tagEnc, layRefPadded(tagPad, []byte(s.tag), tagLen))
			if !ok {
				return nil, false
			}
			out = append(out, tb...)
		}
		fb, ok := layRefEncodeFieldV(s.f, v)
		if !ok {
			return nil, false
		}
		out = append(out, fb...)
	}
	return out, true
}

func layRefEncodeFieldV(f *layRField, v *layRValue) ([]byte, bool) {
	if !f.comp {
		return layRefEncodePrim(f, v)
	}
	if v.kind != 'c' {
		return nil, false
	}
	var body []byte
	if !f.bitmapped {
		b, ok := layRefEncodeSubfields(f.tagEnc != "", f.tagEnc, f.tagPad, f.tagLen, f.subs, v.kvs)
		if !ok {
			return nil, false
		}
		body = b
	} else {
		var ids []int
		for _, s := range f.subs {
			if layRefFindKV(s.tag, v.kvs) == nil {
				continue
			}
			i, ok := layRefNumeral(s.tag)
			if !ok {
				return nil, false
			}
			ids = append(ids, i)
		}
		bits, ok := layRefBitmapData(f.bmLen, false, ids)
		if !ok {
			return nil, false
		}
		bm, ok1 := layRefEncodeText(f.bmEnc, bits)
		fs, ok2 := layRefEncodeSubfields(false, "", layRPad{}, 0, f.subs, v.kvs)
		if !ok1 || !ok2 {
			return nil, false
		}
		body = append(bm, fs...)
	}
	pre, ok := layRefLengthPrefix(f.pref, f.length, len(body))
	if !ok {
		return nil, false
	}
	return append(pre, body...), true
}

func layRefEncodeMsgV(spec *layRMsgSpec, m *layRMsg) ([]byte, bool) {
	if m.mti == nil {
		return nil, false // not an ISO 8583 message
	}
	var ids []int
	maxID := 0
	for _, f := range m.fields {
		if f.id < 2 {
			return nil, false
		}
		ids = append(ids, f.id)
		if f.id > maxID {
			maxID = f.id
		}
	}
	mtiBytes, ok1 := layRefEncodePrim(spec.mti, m.mti)
	bits, ok2 := layRefBitmapData(spec.bmLen, spec.auto, ids)
	if !ok1 || !ok2 {
		return nil, false
	}
	bm, ok := layRefEncodeText(spec.bmEnc, bits)
	if !ok {
		return nil, false
	}
	out := append(mtiBytes, bm...)
	// the present data elements 2, 3, … in ascending order
	value := map[int]*layRValue{}
	for _, f := range m.fields {
		if _, dup := value[f.id]; !dup {
			value[f.id] = f.v
		}
	}
	field := map[int]*layRField{}
	for _, f := range spec.fields {
		if _, dup := field[f.id]; !dup {
			field[f.id] = f.f
		}
	}
	sorted := make([]int, 0, len(value))
	for id := range value {
		j := 0
		for j < len(sorted) && sorted[j] < id {
			j++
		}
		sorted = append(sorted, 0)
		copy(sorted[j+1:], sorted[j:])
		sorted[j] = id
	}
	for _, id := range sorted {
		f, ok := field[id]
		if !ok {
			return nil, false // the spec does not define this element
		}
		fb, ok := layRefEncodeFieldV(f, value[id])
		if !ok {
			return nil, false
		}
		out = append(out, fb...)
	}
	return out, true
}

// refGuard runs f; a malformed tree yields wf = false.
func layRefGuard(f func()) (wf bool) {
	defer func() {
		if x := recover(); x != nil {
			if _, ok := x.(layRefMalformed); ok {
				wf = false
				return
			}
			panic(x)
		}
	}()
	f()
	return true
}

// refEncodeMsg: the reference layout of a message, from the trees. false = no layout.
func layRefEncodeMsg(specTree, msgTree *impl.Tree) ([]byte, bool) {
	var out []byte
	var ok bool
	if !layRefGuard(func() { out, ok = layRefEncodeMsgV(layRefMsgSpecOf(specTree), layRefMsgOf(msgTree)) }) {
		return nil, false
	}
	return out, ok
}

// refEncodeField: the reference layout of one field holding a value, from the trees.
func layRefEncodeField(fieldTree, valueTree *impl.Tree) ([]byte, bool) {
	var out []byte
	var ok bool
	if !layRefGuard(func() { out, ok = layRefEncodeFieldV(layRefFieldOf(fieldTree), layRefValueOf(valueTree)) }) {
		return nil, false
	}
	return out, ok
}

// ------------------------------------------------------------------ value domains
// (port of Field.inDomain / MsgSpec.inDomain of Spec/Coherent.lean)

func layRefAccepts(enc string, x []byte) bool {
	switch enc {
	case "ascii", "ebcdic1047":
		for _, c := range x {
			if c > 0x7F {
				return false
			}
		}
	case "bcd", "lbcd":
		for _, c := range x {
			if c < '0' || c > '9' {
				return false
			}
		}
	case "hexToBytes", "berTag":
		_, ok := layRefHexTextToBytes(x)
		return ok
	}
	return true
}

func layRefInDomain(f *layRField, v *layRValue) bool {
	if !f.comp {
		switch v.kind {
		case 's':
			if f.kind != "s" {
				return false
			}
			if !f.track2 {
				return layRefAccepts(f.enc, layRefPadded(f.pad, v.bytes, f.length))
			}
			b := v.bytes
			if !layRefAccepts(f.enc, layRefPadded(f.pad, b, len(b)+len(b)%2)) {
				return false
			}
			if f.pad.side == 'L' && len(b) > 0 && b[0] == f.pad.c {
				return false
			}
			if f.pad.side == 'R' && len(b) > 0 && b[len(b)-1] == f.pad.c {
				return false
			}
			return true
		case 'b':
			return f.kind == "b" && layRefAccepts(f.enc, layRefPadded(f.pad, v.bytes, f.length))
		case 'h':
			raw, ok := layRefHexTextToBytes(v.bytes)
			return f.kind == "h" && ok && layRefAccepts(f.enc, layRefPadded(f.pad, raw, f.length))
		case 'n':
			return f.kind == "n" && layRefAccepts(f.enc, layRefPadded(f.pad, layRefDecimalText(v.num), f.length))
		}
		return false
	}
	if v.kind != 'c' {
		return false
	}
	seen := map[string]bool{}
	for _, kv := range v.kvs {
		if seen[kv.tag] {
			return false
		}
		seen[kv.tag] = true
	}
	inSpec := map[string]bool{}
	for _, s := range f.subs {
		inSpec[s.tag] = true
		if sv := layRefFindKV(s.tag, v.kvs); sv != nil && !layRefInDomain(s.f, sv) {
			return false
		}
	}
	for _, kv := range v.kvs {
		if !inSpec[kv.tag] {
			return false
		}
	}
	if !f.bitmapped && f.tagEnc == "" {
		// positional: a prefix that occupies no bytes (Fixed, None) => all subfields;
		// variable => a non-empty leading run in spec order whose last element is visible on
		// the wire. (Spec/Coherent.lean lists only Fixed here; with None the decoder has no
		// length either, so a shorter run is written by Pack but can not be read back — such
		// a value is outside the domain of the decode check.)
		if f.pref.kind == "fixed" || f.pref.kind == "none" {
			for _, s := range f.subs {
				if !seen[s.tag] {
					return false
				}
			}
			return true
		}
		if len(v.kvs) == 0 {
			return false
		}
		gap := false
		var last *layRSub
		for i := range f.subs {
			s := &f.subs[i]
			if seen[s.tag] {
				if gap {
					return false
				}
				last = s
			} else {
				gap = true
			}
		}
		if last != nil {
			if bs, ok := layRefEncodeFieldV(last.f, layRefFindKV(last.tag, v.kvs)); ok && len(bs) == 0 {
				return false
			}
		}
	}
	return true
}

func layRefMsgInDomain(s *layRMsgSpec, m *layRMsg) bool {
	if m.mti == nil || !layRefInDomain(s.mti, m.mti) {
		return false
	}
	seen := map[int]bool{}
	for _, fv := range m.fields {
		if seen[fv.id] {
			return false
		}
		seen[fv.id] = true
		var f *layRField
		for _, sf := range s.fields {
			if sf.id == fv.id {
				f = sf.f
				break
			}
		}
		if f == nil || !layRefInDomain(f, fv.v) {
			return false
		}
	}
	return true
}

// ------------------------------------------------------------------ canonical forms
// (port of PrimSpec.canon / Field.canon / MsgSpec.canon), rendered in the syntax of
// impl.ValueTree / impl.MsgTree

func layRefHexAtom(b []byte) *impl.Tree {
	if len(b) == 0 {
		return impl.A("-")
	}
	out := make([]byte, 0, 2*len(b))
	const lower = "0123456789abcdef"
	for _, c := range b {
		out = append(out, lower[c/16], lower[c%16])
	}
	return impl.A(string(out))
}

func layRefCanonValue(f *layRField, v *layRValue) *impl.Tree {
	if f != nil && f.comp && v.kind == 'c' {
		t := impl.N("c")
		for _, s := range f.subs {
			if sv := layRefFindKV(s.tag, v.kvs); sv != nil {
				t.Kids = append(t.Kids, impl.N("kv", impl.A(s.tag), layRefCanonValue(s.f, sv)))
			}
		}
		if len(t.Kids) == 0 {
			return &impl.Tree{Name: "c()"}
		}
		return t
	}
	prim := f != nil && !f.comp
	switch v.kind {
	case 's':
		b := v.bytes
		if prim {
			if f.enc == "hexToBytes" {
				up := make([]byte, len(b))
				for i, c := range b {
					if c >= 'a' && c <= 'f' {
						c -= 32
					}
					up[i] = c
				}
				b = up
			} else {
				b = layRefUnpadded(f.pad, layRefPadded(f.pad, b, f.length))
			}
		}
		return impl.N("s", layRefHexAtom(b))
	case 'b':
		b := v.bytes
		if prim {
			b = layRefUnpadded(f.pad, layRefPadded(f.pad, b, f.length))
		}
		return impl.N("b", layRefHexAtom(b))
	case 'h':
		t := v.bytes
		if prim {
			if raw, ok := layRefHexTextToBytes(t); ok {
				raw = layRefUnpadded(f.pad, layRefPadded(f.pad, raw, f.length))
				up := make([]byte, 0, 2*len(raw))
				for _, c := range raw {
					up = append(up, layRefUpperHex[c/16], layRefUpperHex[c%16])
				}
				t = up
			}
		}
		return impl.N("h", layRefHexAtom(t))
	case 'n':
		return impl.N("n", impl.A(string(layRefDecimalText(v.num))))
	}
	// a composite value under a primitive spec (or without a spec): as given
	t := impl.N("c")
	for _, kv := range v.kvs {
		t.Kids = append(t.Kids, impl.N("kv", impl.A(kv.tag), layRefCanonValue(nil, kv.v)))
	}
	if len(t.Kids) == 0 {
		return &impl.Tree{Name: "c()"}
	}
	return t
}

func layRefCanonMsg(s *layRMsgSpec, m *layRMsg) *impl.Tree {
	t := impl.N("msg")
	if m.mti == nil {
		t.Kids = append(t.Kids, impl.A("-"))
	} else {
		t.Kids = append(t.Kids, layRefCanonValue(s.mti, m.mti))
	}
	// ascending by id (stable insertion from the right, as the Lean sortBy)
	var sorted []layRIdValue
	for i := len(m.fields) - 1; i >= 0; i-- {
		x := m.fields[i]
		j := 0
		for j < len(sorted) && !(x.id < sorted[j].id) {
			j++
		}
		sorted = append(sorted, layRIdValue{})
		copy(sorted[j+1:], sorted[j:])
		sorted[j] = x
	}
	for _, fv := range sorted {
		var f *layRField
		for _, sf := range s.fields {
			if sf.id == fv.id {
				f = sf.f
				break
			}
		}
		t.Kids = append(t.Kids, impl.N("f", impl.A(strconv.Itoa(fv.id)), layRefCanonValue(f, fv.v)))
	}
	return t
}

// layCanonMsg: the canonical content Unpack must yield for the reference bytes of msgTree.
func layCanonMsg(specTree, msgTree *impl.Tree) *impl.Tree {
	var out *impl.Tree
	if !layRefGuard(func() { out = layRefCanonMsg(layRefMsgSpecOf(specTree), layRefMsgOf(msgTree)) }) {
		return impl.A("?")
	}
	return out
}

// layCanonValue: the same for a single field.
func layCanonValue(fieldTree, valueTree *impl.Tree) *impl.Tree {
	var out *impl.Tree
	if !layRefGuard(func() { out = layRefCanonValue(layRefFieldOf(fieldTree), layRefValueOf(valueTree)) }) {
		return impl.A("?")
	}
	return out
}

// ------------------------------------------------------------------ the check

func layHexOrNone(b []byte, ok bool) string {
	if !ok {
		return "none"
	}
	return impl.Hex(b)
}

func layBytesEq(a, b []byte) bool { return string(a) == string(b) }

// errText: an error message with everything but printable ASCII replaced (error texts of
// the library may quote wire bytes)
func layErrText(err error) string {
	if err == nil {
		return ""
	}
	b := []byte(err.Error())
	for i, c := range b {
		if c < 0x20 || c > 0x7E {
			b[i] = '?'
		}
	}
	if len(b) > 300 {
		b = append(b[:300], "..."...)
	}
	return string(b)
}

// c03Stats counts what the evaluated lines exercised (printed as STAT lines by runC03).
var layC03Stats = map[string]int{}

func layCheckC03(line string, rep *Reporter) {
	t := strings.Split(line, " ")
	switch {
	case len(t) == 3 && t[0] == "R":
		layCheckC03Msg(line, t[1], t[2], rep)
	case len(t) == 4 && t[0] == "R" && t[1] == "f":
		layCheckC03Field(line, t[2], t[3], rep)
	}
}

func layCheckC03Msg(line, specStr, msgStr string, rep *Reporter) {
	st, ok1 := impl.ParseTree(specStr)
	mt, ok2 := impl.ParseTree(msgStr)
	if !ok1 || !ok2 {
		return
	}
	var ref, refOfCanon []byte
	var defined, definedCanon, inDom bool
	var canon string
	wf := layRefGuard(func() {
		spec, msg := layRefMsgSpecOf(st), layRefMsgOf(mt)
		ref, defined = layRefEncodeMsgV(spec, msg)
		inDom = layRefMsgInDomain(spec, msg)
		ct := layRefCanonMsg(spec, msg)
		canon = ct.String()
		// what a message holding the canonical content packs to (the same bytes unless the
		// canonical form differs from the content, e.g. pad characters at the padded edge
		// of a value longer than the field)
		refOfCanon, definedCanon = layRefEncodeMsgV(spec, layRefMsgOf(ct))
	})
	if !wf {
		rep.Case("")
		return
	}
	safely(rep, line, func() {
		spec, ok := impl.MsgSpecOfTree(st)
		if !ok {
			rep.Case("")
			return
		}
		m := iso8583.NewMessage(spec)
		if !impl.SetMsg(m, mt) {
			rep.Case("")
			return
		}
		got, err := m.Pack()
		layRemember(rep, line, got, err)
		key := ""
		if defined {
			key = line
		}
		rep.Case(key)
		layC03Stats["message lines"]++
		switch {
		case defined && err == nil:
			layC03Stats["message lines, layout defined"]++
			if !layBytesEq(got, ref) {
				rep.Viol("Pack bytes differ from the ISO 8583 reference layout", line,
					fmt.Sprintf("Pack=%s reference=%s", impl.Hex(got), impl.Hex(ref)))
			}
		case defined && err != nil:
			rep.Viol("Pack refuses a message the reference layout defines", line,
				fmt.Sprintf("Pack error: %s; reference=%s", layErrText(err), impl.Hex(ref)))
		case !defined && err == nil:
			rep.Viol("Pack accepts a message for which the reference defines no layout", line,
				fmt.Sprintf("Pack=%s reference=none", impl.Hex(got)))
		}
		if !defined || !inDom {
			return
		}
		layC03Stats["message lines, decoded from reference bytes"]++
		spec2, _ := impl.MsgSpecOfTree(st)
		m2 := iso8583.NewMessage(spec2)
		if uerr := m2.Unpack(ref); uerr != nil {
			rep.Viol("reference-encoded bytes do not unpack", line,
				fmt.Sprintf("reference=%s Pack=%s Unpack error: %s", impl.Hex(ref), layHexOrNone(got, err == nil), layErrText(uerr)))
			return
		}
		if back := impl.MsgTree(m2).String(); back != canon {
			rep.Viol("reference-encoded bytes unpack to different values", line,
				fmt.Sprintf("reference=%s Pack=%s unpacked=%s expected=%s", impl.Hex(ref), layHexOrNone(got, err == nil), back, canon))
			return
		}
		again, err2 := m2.Pack()
		if (err2 == nil) != definedCanon || (definedCanon && !layBytesEq(again, refOfCanon)) {
			rep.Viol("re-pack of the unpacked reference bytes differs", line,
				fmt.Sprintf("reference=%s unpacked=%s reference of that=%s re-pack=%s", impl.Hex(ref), canon,
					layHexOrNone(refOfCanon, definedCanon), layHexOrNone(again, err2 == nil)))
		}
	})
	if defined {
		layCheckC03History(line, st, mt, rep)
	}
}

func layCheckC03Field(line, specStr, valStr string, rep *Reporter) {
	st, ok1 := impl.ParseTree(specStr)
	vt, ok2 := impl.ParseTree(valStr)
	if !ok1 || !ok2 {
		return
	}
	var ref, refOfCanon []byte
	var defined, definedCanon, inDom bool
	var canon string
	wf := layRefGuard(func() {
		f, v := layRefFieldOf(st), layRefValueOf(vt)
		ref, defined = layRefEncodeFieldV(f, v)
		inDom = layRefInDomain(f, v)
		ct := layRefCanonValue(f, v)
		canon = ct.String()
		refOfCanon, definedCanon = layRefEncodeFieldV(f, layRefValueOf(ct))
	})
	if !wf {
		rep.Case("")
		return
	}
	safely(rep, line, func() {
		f, ok := impl.FieldOfTree(st)
		if !ok || !impl.SetValue(f, vt) {
			rep.Case("")
			return
		}
		got, err := f.Pack()
		layRemember(rep, line, got, err)
		key := ""
		if defined {
			key = line
		}
		rep.Case(key)
		layC03Stats["field lines"]++
		switch {
		case defined && err == nil:
			layC03Stats["field lines, layout defined"]++
			if !layBytesEq(got, ref) {
				rep.Viol("Pack bytes differ from the ISO 8583 reference layout", line,
					fmt.Sprintf("Pack=%s reference=%s", impl.Hex(got), impl.Hex(ref)))
			}
		case defined && err != nil:
			rep.Viol("Pack refuses a message the reference layout defines", line,
				fmt.Sprintf("Pack error: %s; reference=%s", layErrText(err), impl.Hex(ref)))
		case !defined && err == nil:
			rep.Viol("Pack accepts a message for which the reference defines no layout", line,
				fmt.Sprintf("Pack=%s reference=none", impl.Hex(got)))
		}
		if !defined || !inDom {
			return
		}
		layC03Stats["field lines, decoded from reference bytes"]++
		f2, _ := impl.FieldOfTree(st)
		read, uerr := f2.Unpack(ref)
		if uerr != nil {
			rep.Viol("reference-encoded bytes do not unpack", line,
				fmt.Sprintf("reference=%s Pack=%s Unpack error: %s", impl.Hex(ref), layHexOrNone(got, err == nil), layErrText(uerr)))
			return
		}
		if read != len(ref) {
			rep.Viol("reference-encoded bytes unpack to different values", line,
				fmt.Sprintf("reference=%s (%d bytes) Pack=%s Unpack read %d bytes", impl.Hex(ref), len(ref), layHexOrNone(got, err == nil), read))
			return
		}
		if back := impl.ValueTree(f2).String(); back != canon {
			rep.Viol("reference-encoded bytes unpack to different values", line,
				fmt.Sprintf("reference=%s Pack=%s unpacked=%s expected=%s", impl.Hex(ref), layHexOrNone(got, err == nil), back, canon))
			return
		}
		again, err2 := f2.Pack()
		if (err2 == nil) != definedCanon || (definedCanon && !layBytesEq(again, refOfCanon)) {
			rep.Viol("re-pack of the unpacked reference bytes differs", line,
				fmt.Sprintf("reference=%s unpacked=%s reference of that=%s re-pack=%s", impl.Hex(ref), canon,
					layHexOrNone(refOfCanon, definedCanon), layHexOrNone(again, err2 == nil)))
		}
	})
}

// the bytes a Pack returned belong to the caller: the last few results are kept, and a later Pack (of
// another field, another message) must leave every one of them as it was
type layKept struct {
	line      string
	got, copy []byte
}

var layKeptRing []layKept

func layRemember(rep *Reporter, line string, got []byte, err error) {
	for _, k := range layKeptRing {
		if !bytes.Equal(k.got, k.copy) {
			rep.Viol("bytes that an earlier Pack returned were changed by a later Pack: the layout of the earlier result no longer is what the spec defines", k.line,
				fmt.Sprintf("returned %x, now %x (after %s)", k.copy, k.got, line))
			layKeptRing = nil
			return
		}
	}
	if err != nil || len(got) == 0 {
		return
	}
	layKeptRing = append(layKeptRing, layKept{line, got, append([]byte{}, got...)})
	if len(layKeptRing) > 12 {
		layKeptRing = layKeptRing[1:]
	}
}

func layRunC03(t gen.Tier, rng *gen.Rng, rep *Reporter) {
	for k := range layC03Stats {
		delete(layC03Stats, k)
	}
	limit := t.N(20000, 200000)
	n := 0
	samples := 0
	gen.ChannelR(t, rng, func(line string) {
		if n >= limit {
			return
		}
		n++
		before := rep.Evals
		layCheckC03(line, rep)
		if samples < 6 && rep.Evals > before && n%977 == 1 {
			samples++
			rep.Sample(line + " => Pack bytes = reference layout; reference bytes unpack to the canonical content and re-pack to themselves")
		}
	})
	// bitmapped composites: the layout after a subfield was unset (the composite's bitmap is regenerated by every Pack)
	compRepackSweep(rep, rng, t.N(150, 3000))
	// the layout of a field is the layout of the value it holds NOW (two writes through two writers)
	{
		gw := gen.NewFieldGen(rng)
		for i := 0; i < t.N(1200, 20000); i++ {
			spec := gw.Prim(false)
			if hasNonePrefix(spec) {
				continue
			}
			gw.OutOfDomain = false
			v1, v2 := gw.Value(spec, false), gw.Value(spec, false)
			if gw.OutOfDomain {
				continue
			}
			checkOverwriteHistory(rep, rng, spec, v1, v2)
		}
	}
	keys := make([]string, 0, len(layC03Stats))
	for k := range layC03Stats {
		keys = append(keys, k)
	}
	for i := 1; i < len(keys); i++ {
		for j := i; j > 0 && keys[j] < keys[j-1]; j-- {
			keys[j], keys[j-1] = keys[j-1], keys[j]
		}
	}
	for _, k := range keys {
		rep.Stat(k, layC03Stats[k])
	}
}

// linesC03 re-examines given protocol lines: `R …` lines as they are, `M <spec> pack <msg>`
// lines as the corresponding `R <spec> <msg>`.
func layLinesC03(lines []string, rep *Reporter) {
	historyReplayLines(lines, rep)
	for _, l := range lines {
		t := strings.Split(l, " ")
		switch {
		case t[0] == "R":
			layCheckC03(l, rep)
		case len(t) == 4 && t[0] == "M" && t[2] == "pack":
			layCheckC03("R "+t[1]+" "+t[3], rep)
		}
	}
}

// ------------------------------------------------------------------ code pages
// copied from lean/Iso8583/Gen/EbcdicTables.lean (asciiToEbcdic) and Gen/Cp1047.lean
// (cp1047Encode; 256 = not encodable)

var layRefASCIIToEBCDIC = [256]int{
	0, 1, 2, 3, 55, 45, 46, 47, 22, 5, 37, 11, 12, 13, 14, 15,
	16, 17, 18, 19, 60, 61, 50, 38, 24, 25, 63, 39, 28, 29, 30, 31,
	64, 79, 127, 123, 91, 108, 80, 125, 77, 93, 92, 78, 107, 96, 75, 97,
	240, 241, 242, 243, 244, 245, 246, 247, 248, 249, 122, 94, 76, 126, 110, 111,
	124, 193, 194, 195, 196, 197, 198, 199, 200, 201, 209, 210, 211, 212, 213, 214,
	215, 216, 217, 226, 227, 228, 229, 230, 231, 232, 233, 74, 224, 90, 95, 109,
	121, 129, 130, 131, 132, 133, 134, 135, 136, 137, 145, 146, 147, 148, 149, 150,
	151, 152, 153, 162, 163, 164, 165, 166, 167, 168, 169, 192, 106, 208, 161, 7,
	32, 33, 34, 35, 36, 21, 6, 23, 40, 41, 42, 43, 44, 9, 10, 27,
	48, 49, 26, 51, 52, 53, 54, 8, 56, 57, 58, 59, 4, 20, 62, 225,
	65, 66, 67, 68, 69, 70, 71, 72, 73, 81, 82, 83, 84, 85, 86, 87,
	88, 89, 98, 99, 100, 101, 102, 103, 104, 105, 112, 113, 114, 115, 116, 117,
	118, 119, 120, 128, 138, 139, 140, 141, 142, 143, 144, 154, 155, 156, 157, 158,
	159, 160, 170, 171, 172, 173, 174, 175, 176, 177, 178, 179, 180, 181, 182, 183,
	184, 185, 186, 187, 188, 189, 190, 191, 202, 203, 204, 205, 206, 207, 218, 219,
	220, 221, 222, 223, 234, 235, 236, 237, 238, 239, 250, 251, 252, 253, 254, 255,
}

var layRefCP1047Encode = [256]int{
	0, 1, 2, 3, 55, 45, 46, 47, 22, 5, 37, 11, 12, 13, 14, 15,
	16, 17, 18, 19, 60, 61, 50, 38, 24, 25, 63, 39, 28, 29, 30, 31,
	64, 90, 127, 123, 91, 108, 80, 125, 77, 93, 92, 78, 107, 96, 75, 97,
	240, 241, 242, 243, 244, 245, 246, 247, 248, 249, 122, 94, 76, 126, 110, 111,
	124, 193, 194, 195, 196, 197, 198, 199, 200, 201, 209, 210, 211, 212, 213, 214,
	215, 216, 217, 226, 227, 228, 229, 230, 231, 232, 233, 173, 224, 189, 95, 109,
	121, 129, 130, 131, 132, 133, 134, 135, 136, 137, 145, 146, 147, 148, 149, 150,
	151, 152, 153, 162, 163, 164, 165, 166, 167, 168, 169, 192, 79, 208, 161, 7,
	32, 33, 34, 35, 36, 21, 6, 23, 40, 41, 42, 43, 44, 9, 10, 27,
	48, 49, 26, 51, 52, 53, 54, 8, 56, 57, 58, 59, 4, 20, 62, 255,
	65, 170, 74, 177, 159, 178, 106, 181, 187, 180, 154, 138, 176, 202, 175, 188,
	144, 143, 234, 250, 190, 160, 182, 179, 157, 218, 155, 139, 183, 184, 185, 171,
	100, 101, 98, 102, 99, 103, 158, 104, 116, 113, 114, 115, 120, 117, 118, 119,
	172, 105, 237, 238, 235, 239, 236, 191, 128, 253, 254, 251, 252, 186, 174, 89,
	68, 69, 66, 70, 67, 71, 156, 72, 84, 81, 82, 83, 88, 85, 86, 87,
	140, 73, 205, 206, 203, 207, 204, 225, 112, 221, 222, 219, 220, 141, 142, 223,
}
