package oracle

// C12 — JSON encoding of messages. The property statement evaluated on the implementation,
// for generated coherent specs and packable messages whose texts are valid UTF-8:
//
//   - json.Marshal(message) succeeds whenever Pack succeeds;
//   - the document is valid JSON (json.Valid), its top-level keys are exactly the set field
//     numbers in ascending numeric order, and every composite object lists its keys in the
//     fixed StringsByInt order (numeric when both keys are decimal numerals, string order
//     otherwise);
//   - json.Unmarshal of the document into a fresh message of the same spec succeeds, the
//     fresh message has the same set fields and packs to the same bytes.
//
// Replay lines: `J <spec> rt <msg>` (failing messages are shrunk field by field first).

import (
	"bytes"
	"encoding/json"
	"fmt"
	"sort"
	"strconv"
	"strings"

	"github.com/moov-io/iso8583"

	"verif/harness/gen"
	"verif/harness/impl"
)

func init() {
	Registry["C12"] = &Oracle{Run: runC12, Lines: linesC12}
}

func keyLess(a, b string) bool {
	x, e1 := strconv.Atoi(a)
	y, e2 := strconv.Atoi(b)
	if e1 == nil && e2 == nil {
		return x < y
	}
	return a < b
}

// objectsOrdered: every object of the document tree lists its keys in strictly ascending
// keyLess order; returns the first offending pair.
func objectsOrdered(t *impl.Tree, path string) string {
	if t.Name != "o" {
		return ""
	}
	prev := ""
	for i, kv := range t.Kids {
		kb, _ := impl.UnHex(kv.Kids[0].Name)
		k := string(kb)
		if i > 0 && !keyLess(prev, k) {
			return fmt.Sprintf("%skey %q follows %q", path, k, prev)
		}
		prev = k
		if d := objectsOrdered(kv.Kids[1], path+k+"."); d != "" {
			return d
		}
	}
	return ""
}

func jsonFieldIDs(m *iso8583.Message) []int {
	var ids []int
	for id := range m.GetFields() {
		ids = append(ids, id)
	}
	sort.Ints(ids)
	return ids
}

// evalJSON returns (what, detail) of the first failure; nontrivial = the message packs.
func evalJSON(spec *iso8583.MessageSpec, msg *impl.Tree) (what, detail string, nontrivial bool) {
	m := iso8583.NewMessage(spec)
	if !impl.SetMsg(m, msg) {
		return "", "", false
	}
	packed, perr := m.Pack()
	doc, jerr := json.Marshal(m)
	if perr != nil {
		return "", "", false
	}
	if jerr != nil {
		return "json.Marshal fails on a message that packs", jerr.Error(), true
	}
	if !json.Valid(doc) {
		return "the emitted document is not valid JSON", string(doc), true
	}
	tree, ok := impl.JSONTree(doc)
	if !ok || (tree.Name != "o" && tree.Name != "o()") {
		return "the emitted document is not a JSON object", string(doc), true
	}
	// top level: exactly the set ids, ascending
	ids := jsonFieldIDs(m)
	var keys []int
	for _, kv := range tree.Kids {
		kb, _ := impl.UnHex(kv.Kids[0].Name)
		id, err := strconv.Atoi(string(kb))
		if err != nil || strconv.Itoa(id) != string(kb) {
			return "a top-level key is not a field number", fmt.Sprintf("key %q in %s", kb, doc), true
		}
		keys = append(keys, id)
	}
	if fmt.Sprint(keys) != fmt.Sprint(ids) {
		return "the top-level keys are not the set field numbers in ascending order", fmt.Sprintf("keys %v, set fields %v", keys, ids), true
	}
	if d := objectsOrdered(tree, ""); d != "" {
		return "an object's keys are not in ascending StringsByInt order", d + " in " + string(doc), true
	}
	m2 := iso8583.NewMessage(spec)
	if err := json.Unmarshal(doc, m2); err != nil {
		return "json.Unmarshal of the emitted document fails", err.Error() + " doc=" + string(doc), true
	}
	if ids2 := jsonFieldIDs(m2); fmt.Sprint(ids2) != fmt.Sprint(ids) {
		return "the decoded message has different set fields", fmt.Sprintf("before %v, after %v", ids, ids2), true
	}
	packed2, err := m2.Pack()
	if err != nil {
		return "the decoded message does not pack", err.Error(), true
	}
	if !bytes.Equal(packed, packed2) {
		return "the decoded message packs to different bytes", fmt.Sprintf("before %x, after %x, doc=%s", packed, packed2, doc), true
	}
	return "", "", true
}

func reportJSON(rep *Reporter, specS string, spec *iso8583.MessageSpec, msg *impl.Tree) {
	line := fmt.Sprintf("J %s rt %s", specS, msg.String())
	safely(rep, line, func() {
		what, detail, nontriv := evalJSON(spec, msg)
		key := ""
		if nontriv {
			key = line
		}
		rep.Case(key)
		if what == "" {
			return
		}
		// shrink: drop message fields while the same failure persists
		cur := msg
		for changed := true; changed; {
			changed = false
			for i := 1; i < len(cur.Kids); i++ {
				c := &impl.Tree{Name: cur.Name, Kids: append(append([]*impl.Tree{}, cur.Kids[:i]...), cur.Kids[i+1:]...)}
				if w, _, _ := evalJSON(spec, c); w == what {
					cur, changed = c, true
					break
				}
			}
		}
		if _, d2, _ := evalJSON(spec, cur); d2 != "" {
			detail = d2
		}
		rep.Viol(what, fmt.Sprintf("J %s rt %s", specS, cur.String()), detail)
	})
}

func examineJ(rep *Reporter, line string) {
	t := strings.Split(line, " ")
	if len(t) != 4 || t[0] != "J" || (t[2] != "marshal" && t[2] != "rt") {
		return
	}
	st, ok := impl.ParseTree(t[1])
	if !ok {
		return
	}
	var spec *iso8583.MessageSpec
	func() {
		defer func() { recover() }()
		spec, ok = impl.MsgSpecOfTree(st)
	}()
	if !ok || spec == nil {
		return
	}
	msg, ok := impl.ParseTree(t[3])
	if !ok {
		return
	}
	reportJSON(rep, t[1], spec, msg)
}

func linesC12(lines []string, rep *Reporter) {
	historyReplayLines(lines, rep)
	for _, l := range lines {
		examineJ(rep, l)
	}
}

func runC12(t gen.Tier, r *gen.Rng, rep *Reporter) {
	g := gen.NewFieldGen(r)
	samples := 0
	// the JSON of a field is the JSON of the value it holds NOW: two writes through two writers with a
	// look at the field (String, Bytes, JSON, Pack) in between
	for i := 0; i < t.N(1500, 30000); i++ {
		spec := g.Prim(false)
		if hasNonePrefix(spec) {
			continue
		}
		g.OutOfDomain = false
		v1, v2 := g.Value(spec, false), g.Value(spec, false)
		if g.OutOfDomain {
			continue
		}
		checkOverwriteHistory(rep, r, spec, v1, v2)
	}
	for i := 0; i < t.N(3000, 40000); i++ {
		specT := g.MsgSpec(r.Intn(4))
		var spec *iso8583.MessageSpec
		ok := false
		func() {
			defer func() { recover() }()
			spec, ok = impl.MsgSpecOfTree(specT)
		}()
		if !ok {
			continue
		}
		specS := specT.String()
		for k := 0; k < 2; k++ {
			msg := gen.UTF8Msg(r, specT, g.Msg(specT))
			reportJSON(rep, specS, spec, msg)
			if samples < 4 && k == 1 {
				samples++
				rep.Sample(fmt.Sprintf("J %s rt %s => property holds", specS, msg.String()))
			}
		}
	}
}
