package oracle

// C05 — bitmap bits, continuation bits and message body always agree. The property
// statement evaluated on the implementation, against an independently written reference:
//
//   - field.Bitmap as a bit set: after any sequence of Set calls the bytes are exactly the
//     MSB-first image of {representable indices set} ∪ {first bit of every block but the
//     last}, the length is the minimal number of whole blocks (fixed bitmaps never grow),
//     IsSet / Len / IsBitmapPresenceBit agree with that image, Reset restores one zero block;
//   - Unpack reads exactly the chain announced by the continuation bits (one block when
//     expansion is disabled), fails when the chain runs off the input, never panics;
//   - a packed message = MTI ++ minimal bitmap ++ body in which the bits set (continuation
//     bits aside) are exactly the populated data elements, each followed in the body in
//     ascending order; a populated element the bitmap can not represent makes Pack fail;
//   - the same after every Pack of a multi-step history on one Message object.

import (
	"bytes"
	"encoding/hex"
	"encoding/json"
	"fmt"
	"sort"
	"strconv"
	"strings"
	"sync"

	"github.com/moov-io/iso8583"
	"github.com/moov-io/iso8583/encoding"
	"github.com/moov-io/iso8583/field"
	"github.com/moov-io/iso8583/prefix"

	"verif/harness/gen"
	"verif/harness/impl"
)

func init() {
	Registry["C05"] = &Oracle{Run: runC05, Lines: linesC05}
}

// ------------------------------------------------------------------ reference bit set

func effLen(bl int) int {
	if bl == 0 {
		return 8
	}
	return bl
}

func ceilDiv(a, b int) int { return (a + b - 1) / b }

// refBitmap is the specification of the bit set: a block count and a set of indices.
type refBitmap struct {
	bl     int // block size in bytes
	auto   bool
	blocks int
	bits   map[int]bool
}

func newRef(bl int, auto bool) *refBitmap {
	return &refBitmap{bl: effLen(bl), auto: auto, blocks: 1, bits: map[int]bool{}}
}

func (r *refBitmap) set(n int) {
	if n <= 0 {
		return
	}
	B := r.bl * 8
	if n > r.blocks*B {
		if !r.auto {
			return
		}
		r.blocks = ceilDiv(n, B)
	}
	r.bits[n] = true
}

// image renders the expected bytes: MSB first, continuation bit on every block but the last.
func (r *refBitmap) image() []byte {
	out := make([]byte, r.blocks*r.bl)
	put := func(n int) { out[(n-1)/8] |= 0x80 >> uint((n-1)%8) }
	for n := range r.bits {
		put(n)
	}
	for b := 0; b+1 < r.blocks; b++ {
		put(b*r.bl*8 + 1)
	}
	return out
}

func bitOf(img []byte, n int) bool {
	if n <= 0 || n > len(img)*8 {
		return false
	}
	return img[(n-1)/8]&(0x80>>uint((n-1)%8)) != 0
}

func newImplBitmap(bl int, auto bool, enc encoding.Encoder, pref prefix.Prefixer) *field.Bitmap {
	return field.NewBitmap(&field.Spec{Length: bl, Description: "Bitmap", Enc: enc, Pref: pref, DisableAutoExpand: !auto})
}

func opsLine(bl int, auto bool, sets []int) string {
	ops := make([]string, 0, len(sets)+2)
	for _, n := range sets {
		ops = append(ops, fmt.Sprintf("set:%d", n))
	}
	ops = append(ops, "len", "bytes")
	a := "0"
	if auto {
		a = "1"
	}
	return fmt.Sprintf("B ops %d %s %s", bl, a, strings.Join(ops, ","))
}

// checkSets evaluates the bit-set laws after Set(sets[0]), Set(sets[1]), … on a fresh bitmap.
// probeAll: compare IsSet / IsBitmapPresenceBit for every index (else only around the sets).
func checkSets(rep *Reporter, bl int, auto bool, sets []int, probeAll bool, key string) {
	line := opsLine(bl, auto, sets)
	safely(rep, line, func() {
		bm := newImplBitmap(bl, auto, encoding.Binary, prefix.Binary.Fixed)
		ref := newRef(bl, auto)
		B := ref.bl * 8
		for i, n := range sets {
			before := ref.blocks
			bm.Set(n)
			ref.set(n)
			if bm.Len() != ref.blocks*B {
				what := "Set expanded the bitmap to a non-minimal length"
				if !auto {
					what = "Set changed the length of a fixed bitmap"
				}
				rep.Viol(what, opsLine(bl, auto, sets[:i+1]), fmt.Sprintf("after Set(%d): Len()=%d, expected %d bits (%d block(s) of %d bytes; %d block(s) before)", n, bm.Len(), ref.blocks*B, ref.blocks, ref.bl, before))
				return
			}
			want := n >= 1 && n <= ref.blocks*B
			if got := bm.IsSet(n); got != want {
				rep.Viol("IsSet(n) after Set(n) disagrees with the bit set", opsLine(bl, auto, sets[:i+1]), fmt.Sprintf("IsSet(%d)=%v, expected %v", n, got, want))
				return
			}
		}
		rep.Case(key)
		img := ref.image()
		got, _ := bm.Bytes()
		if !bytes.Equal(got, img) {
			detail := fmt.Sprintf("bytes %x, expected %x", got, img)
			what := "bitmap bytes differ from the MSB-first image of the bits set plus continuation bits"
			if len(got) == len(img) {
				for n := 1; n <= len(img)*8; n++ {
					if bitOf(got, n) != bitOf(img, n) {
						kind := "data bit"
						if auto && n%B == 1 {
							kind = "continuation bit"
						}
						detail += fmt.Sprintf("; first difference: %s %d is %v, expected %v", kind, n, bitOf(got, n), bitOf(img, n))
						break
					}
				}
			}
			rep.Viol(what, line, detail)
			return
		}
		probe := func(m int) bool {
			if g, w := bm.IsSet(m), bitOf(img, m); g != w {
				rep.Viol("IsSet disagrees with the bitmap bytes read MSB-first", line, fmt.Sprintf("IsSet(%d)=%v but bytes %x say %v", m, g, img, w))
				return false
			}
			wp := auto && m > 0 && m%B == 1
			if g := bm.IsBitmapPresenceBit(m); g != wp {
				rep.Viol("IsBitmapPresenceBit is not `first bit of a block of an expanding bitmap`", line, fmt.Sprintf("IsBitmapPresenceBit(%d)=%v, expected %v", m, g, wp))
				return false
			}
			return true
		}
		if probeAll {
			for m := -1; m <= len(img)*8+B+1; m++ {
				if !probe(m) {
					return
				}
			}
		} else {
			for _, n := range sets {
				for _, m := range []int{n - 1, n, n + 1, 1, B, B + 1, len(img)*8 + 1} {
					if !probe(m) {
						return
					}
				}
			}
		}
		// Pack in both encodings = the encoder applied to exactly these bytes
		if p, err := bm.Pack(); err != nil || !bytes.Equal(p, img) {
			rep.Viol("Pack (Binary) is not the bitmap bytes", line, fmt.Sprintf("packed %x err=%v", p, err))
			return
		}
		bm.Reset()
		if z, _ := bm.Bytes(); bm.Len() != B || !bytes.Equal(z, make([]byte, ref.bl)) {
			rep.Viol("Reset does not restore one zero block", line+",reset,len,bytes", fmt.Sprintf("after Reset: Len()=%d bytes %x", bm.Len(), z))
		}
	})
}

// ------------------------------------------------------------------ chain unpacking

type encPref struct{ enc, pref string }

var bitmapEncs = []encPref{{"binary", "binary.F"}, {"bytesToHex", "hex.F"}}

// refUnpack is the independent chain decoder: blocks of bl bytes (2·bl hex characters),
// continuing while expansion is enabled and the top bit of the block's first byte is set.
func refUnpack(enc string, bl int, auto bool, wire []byte) (data []byte, read int, ok bool) {
	unit := 1
	if enc == "bytesToHex" {
		unit = 2
	}
	for {
		if len(wire)-read < bl*unit {
			return nil, 0, false
		}
		chunk := wire[read : read+bl*unit]
		blk := chunk
		if unit == 2 {
			d := make([]byte, bl)
			if _, err := hex.Decode(d, chunk); err != nil {
				return nil, 0, false
			}
			blk = d
		}
		read += bl * unit
		data = append(data, blk...)
		if !auto || blk[0]&0x80 == 0 {
			return data, read, true
		}
	}
}

func unpackLine(ep encPref, bl int, auto bool, wire []byte) string {
	a := "0"
	if auto {
		a = "1"
	}
	return fmt.Sprintf("B unpack %s %s %d %s %s", ep.enc, ep.pref, bl, a, gen.H(wire))
}

func checkUnpack(rep *Reporter, ep encPref, bl int, auto bool, wire []byte) {
	line := unpackLine(ep, bl, auto, wire)
	safely(rep, line, func() {
		enc, okE := impl.Encoders[ep.enc]
		pref := impl.Prefixer(ep.pref)
		if !okE || pref == nil || bl < 1 {
			return
		}
		bm := newImplBitmap(bl, auto, enc, pref)
		read, err := bm.Unpack(append([]byte{}, wire...))
		want, wantRead, ok := refUnpack(ep.enc, bl, auto, wire)
		key := ""
		if ok {
			key = line
		}
		rep.Case(key)
		if !ok {
			if err == nil {
				got, _ := bm.Bytes()
				rep.Viol("Unpack succeeded although the chain of blocks runs off the input", line, fmt.Sprintf("read=%d data=%x", read, got))
			}
			return
		}
		if err != nil {
			rep.Viol("Unpack fails on a complete chain of blocks", line, fmt.Sprintf("expected %d block(s) = %x: %v", len(want)/bl, want, err))
			return
		}
		got, _ := bm.Bytes()
		if read != wantRead || !bytes.Equal(got, want) {
			what := "Unpack did not consume exactly the chain announced by the continuation bits"
			if !auto {
				what = "Unpack of a fixed bitmap did not read exactly one block"
			}
			rep.Viol(what, line, fmt.Sprintf("read=%d data=%x, expected read=%d data=%x", read, got, wantRead, want))
			return
		}
		if bm.Len() != len(want)*8 {
			rep.Viol("Len() after Unpack is not 8 x the bytes read", line, fmt.Sprintf("Len()=%d", bm.Len()))
		}
	})
}

// ------------------------------------------------------------------ messages

// msgCfg describes a generated message spec: MTI = 4 ASCII characters, a bitmap, and
// String fields `ASCII LL` (two decimal digits of length, then the text).
type msgCfg struct {
	bl   int // spec length of the bitmap (0 = default)
	enc  encPref
	auto bool
	ids  []int // defined data elements, ascending
}

func (c msgCfg) specTree() *impl.Tree {
	a := "0"
	if c.auto {
		a = "1"
	}
	kids := []*impl.Tree{
		impl.N("p", impl.A("s"), impl.A("4"), impl.A("ascii"), impl.A("ascii.F"), impl.A("nil"), impl.A("d")),
		impl.N("bm", impl.A(strconv.Itoa(c.bl)), impl.A(c.enc.enc), impl.A(c.enc.pref), impl.A(a)),
	}
	for _, id := range c.ids {
		kids = append(kids, impl.N("f", impl.A(strconv.Itoa(id)),
			impl.N("p", impl.A("s"), impl.A("20"), impl.A("ascii"), impl.A("ascii.2"), impl.A("nil"), impl.A("d"))))
	}
	return impl.N("m", kids...)
}

func contentTree(mti string, content map[int]string) *impl.Tree {
	t := impl.N("msg", impl.N("s", impl.A(gen.H([]byte(mti)))))
	ids := make([]int, 0, len(content))
	for id := range content {
		ids = append(ids, id)
	}
	sort.Ints(ids)
	for _, id := range ids {
		t.Kids = append(t.Kids, impl.N("f", impl.A(strconv.Itoa(id)), impl.N("s", impl.A(gen.H([]byte(content[id]))))))
	}
	return t
}

// refEncodeMsg is the independent reference encoder for these specs; ok=false when the
// bitmap can not represent a populated element (Pack must fail).
func refEncodeMsg(c msgCfg, mti string, content map[int]string) ([]byte, bool) {
	ref := newRef(c.bl, c.auto)
	ids := make([]int, 0, len(content))
	for id := range content {
		if c.travels(id) {
			ids = append(ids, id)
		}
	}
	sort.Ints(ids)
	for _, id := range ids {
		ref.set(id)
		if !ref.bits[id] {
			return nil, false
		}
	}
	out := []byte(mti)
	img := ref.image()
	if c.enc.enc == "bytesToHex" {
		out = append(out, []byte(strings.ToUpper(hex.EncodeToString(img)))...)
	} else {
		out = append(out, img...)
	}
	for _, id := range ids {
		out = append(out, []byte(fmt.Sprintf("%02d%s", len(content[id]), content[id]))...)
	}
	return out, true
}

// diagnose explains, with the independent decoder, how packed bytes disagree with the content.
func diagnose(c msgCfg, content map[int]string, packed []byte) string {
	if len(packed) < 4 {
		return "packed message shorter than the MTI"
	}
	bl := effLen(c.bl)
	data, read, ok := refUnpack(c.enc.enc, bl, c.auto, packed[4:])
	if !ok {
		return fmt.Sprintf("the bitmap in the packed bytes is not a complete chain: %x", packed[4:])
	}
	B := bl * 8
	maxID := 0
	for id := range content {
		if id > maxID {
			maxID = id
		}
	}
	wantBlocks := 1
	if c.auto && maxID > B {
		wantBlocks = ceilDiv(maxID, B)
	}
	var msgs []string
	if len(data)/bl != wantBlocks {
		msgs = append(msgs, fmt.Sprintf("bitmap has %d block(s), minimal is %d", len(data)/bl, wantBlocks))
	}
	var announced []int
	for n := 1; n <= len(data)*8; n++ {
		if c.auto && n%B == 1 {
			continue
		}
		if bitOf(data, n) {
			announced = append(announced, n)
			if _, okc := content[n]; !okc {
				msgs = append(msgs, fmt.Sprintf("bit %d is set but field %d is not populated", n, n))
			}
		}
	}
	for id := range content {
		if !bitOf(data, id) {
			msgs = append(msgs, fmt.Sprintf("field %d is populated but bit %d is not set", id, id))
		}
	}
	// walk the body in the order announced
	body := packed[4+read:]
	off := 0
	for _, n := range announced {
		if off+2 > len(body) {
			msgs = append(msgs, fmt.Sprintf("body ends before announced field %d", n))
			break
		}
		l, err := strconv.Atoi(string(body[off : off+2]))
		if err != nil || off+2+l > len(body) {
			msgs = append(msgs, fmt.Sprintf("body at offset %d is not an LL element for announced field %d", off, n))
			break
		}
		if v, okc := content[n]; okc && v != string(body[off+2:off+2+l]) {
			msgs = append(msgs, fmt.Sprintf("body element for bit %d is %q, field %d holds %q", n, body[off+2:off+2+l], n, v))
		}
		off += 2 + l
	}
	if off < len(body) && len(msgs) == 0 {
		msgs = append(msgs, fmt.Sprintf("%d byte(s) of body are announced by no bit: %q", len(body)-off, body[off:]))
	}
	sort.Strings(msgs)
	return strings.Join(msgs, "; ")
}

// verifyPacked checks one Pack result against the content; line is the replay.
func verifyPacked(rep *Reporter, c msgCfg, mti string, content map[int]string, packed []byte, err error, line string) bool {
	want, representable := refEncodeMsg(c, mti, content)
	if !representable {
		if err == nil {
			rep.Viol("Pack succeeded although the bitmap can not represent a populated field", line,
				fmt.Sprintf("fixed bitmap of %d bits; packed %x; %s", effLen(c.bl)*8, packed, diagnose(c, content, packed)))
			return false
		}
		return true
	}
	if _, dropped := c.travelling(content); dropped && err != nil {
		return true // refusing an element that can not travel is as good as leaving it out
	}
	if err != nil {
		rep.Viol("Pack fails although every populated field is representable", line, err.Error())
		return false
	}
	if !bytes.Equal(packed, want) {
		rep.Viol("bitmap bits and message body disagree in the packed message", line,
			fmt.Sprintf("%s; packed %x, reference %x", diagnose(c, content, packed), packed, want))
		return false
	}
	return true
}

func checkMsgPack(rep *Reporter, c msgCfg, mti string, content map[int]string) {
	specT := c.specTree()
	line := fmt.Sprintf("M %s pack %s", specT.String(), contentTree(mti, content).String())
	safely(rep, line, func() {
		spec, ok := impl.MsgSpecOfTree(specT)
		if !ok {
			return
		}
		m := iso8583.NewMessage(spec)
		if !impl.SetMsg(m, contentTree(mti, content)) {
			return
		}
		packed, err := m.Pack()
		key := ""
		if err == nil {
			key = line
		}
		rep.Case(key)
		if !verifyPacked(rep, c, mti, content, packed, err, line) || err != nil {
			return
		}
		// the announced elements are what Unpack then finds
		m2 := iso8583.NewMessage(spec)
		if uerr := m2.Unpack(packed); uerr != nil {
			rep.Viol("Unpack rejects the bytes Pack produced", line, uerr.Error())
			return
		}
		got := map[int]string{}
		for id := range m2.GetFields() {
			if id >= 2 {
				s, _ := m2.GetString(id)
				got[id] = s
			}
		}
		if body, _ := c.travelling(content); fmt.Sprint(got) != fmt.Sprint(body) {
			rep.Viol("Unpack of the packed message does not visit exactly the populated fields", line, fmt.Sprintf("unpacked %v, populated %v", got, body))
		}
	})
}

func checkConcurrentPack(rep *Reporter, c msgCfg, mti string, content map[int]string) {
	specT := c.specTree()
	line := fmt.Sprintf("M %s pack %s #by-8-goroutines", specT.String(), contentTree(mti, content).String())
	safely(rep, line, func() {
		spec, ok := impl.MsgSpecOfTree(specT)
		if !ok {
			return
		}
		m := iso8583.NewMessage(spec)
		if !impl.SetMsg(m, contentTree(mti, content)) {
			return
		}
		want, err := m.Pack()
		if err != nil {
			return
		}
		rep.Case(line)
		const workers, per = 8, 150
		bad := make([]string, workers)
		var wg sync.WaitGroup
		for w := 0; w < workers; w++ {
			wg.Add(1)
			go func(w int) {
				defer wg.Done()
				defer func() {
					if x := recover(); x != nil {
						bad[w] = fmt.Sprintf("panic: %v", x)
					}
				}()
				for k := 0; k < per && bad[w] == ""; k++ {
					got, err := m.Pack()
					if err != nil {
						bad[w] = "Pack fails: " + err.Error()
					} else if !bytes.Equal(got, want) {
						bad[w] = fmt.Sprintf("Pack gave %x", got)
					}
				}
			}(w)
		}
		wg.Wait()
		for _, b := range bad {
			if b != "" {
				rep.Viol("a message packed by several goroutines at once: the bitmap of a result does not announce its body", line,
					fmt.Sprintf("sequential Pack %x | concurrent: %s", want, b))
				return
			}
		}
	})
}

// ------------------------------------------------------------------ bitmapped composites

// compCfg: a composite `ASCII LL` with a (fixed) bitmap of bl bytes and String subfields `ASCII LL`.
type compCfg struct {
	bl  int
	enc encPref
	ids []int
}

func (c compCfg) specTree() *impl.Tree {
	kids := []*impl.Tree{impl.A("99"), impl.A("ascii.2"),
		impl.N("b", impl.A(strconv.Itoa(c.bl)), impl.A(c.enc.enc), impl.A(c.enc.pref))}
	for _, id := range c.ids {
		kids = append(kids, impl.N("sub", impl.A(strconv.Itoa(id)),
			impl.N("p", impl.A("s"), impl.A("9"), impl.A("ascii"), impl.A("ascii.2"), impl.A("nil"), impl.A("d"))))
	}
	return impl.N("c", kids...)
}

func compValueTree(content map[int]string) *impl.Tree {
	ids := make([]int, 0, len(content))
	for id := range content {
		ids = append(ids, id)
	}
	sort.Ints(ids)
	t := impl.N("c")
	for _, id := range ids {
		t.Kids = append(t.Kids, impl.N("kv", impl.A(strconv.Itoa(id)), impl.N("s", impl.A(gen.H([]byte(content[id]))))))
	}
	if len(t.Kids) == 0 {
		t.Name = "c()"
	}
	return t
}

func compCfgOfTree(s string) (compCfg, bool) {
	var c compCfg
	t, ok := impl.ParseTree(s)
	if !ok || t.Name != "c" || len(t.Kids) < 3 || t.Kids[0].Name != "99" || t.Kids[1].Name != "ascii.2" ||
		t.Kids[2].Name != "b" || len(t.Kids[2].Kids) != 3 {
		return c, false
	}
	b := t.Kids[2].Kids
	bl, err := strconv.Atoi(b[0].Name)
	if err != nil || (b[1].Name != "binary" && b[1].Name != "bytesToHex") {
		return c, false
	}
	c.bl, c.enc = bl, encPref{b[1].Name, b[2].Name}
	for _, k := range t.Kids[3:] {
		if k.Name != "sub" || len(k.Kids) != 2 || k.Kids[1].String() != "p(s,9,ascii,ascii.2,nil,d)" {
			return c, false
		}
		id, err := strconv.Atoi(k.Kids[0].Name)
		if err != nil || strconv.Itoa(id) != k.Kids[0].Name {
			return c, false
		}
		c.ids = append(c.ids, id)
	}
	return c, true
}

// checkCompPack: Composite.Pack writes LL ++ bitmap ++ subfields with bits = set subfields,
// and fails when a set subfield's number lies beyond the (never expanding) bitmap.
func checkCompPack(rep *Reporter, c compCfg, content map[int]string) {
	specT := c.specTree()
	line := fmt.Sprintf("F %s pack %s", specT.String(), compValueTree(content).String())
	safely(rep, line, func() {
		f, ok := impl.FieldOfTree(specT)
		if !ok || !impl.SetValue(f, compValueTree(content)) {
			return
		}
		packed, err := f.Pack()
		key := ""
		if err == nil {
			key = line
		}
		rep.Case(key)
		ref := newRef(c.bl, false)
		ids := make([]int, 0, len(content))
		for id := range content {
			ids = append(ids, id)
		}
		sort.Ints(ids)
		representable := true
		for _, id := range ids {
			ref.set(id)
			if !ref.bits[id] {
				representable = false
			}
		}
		if !representable {
			if err == nil {
				rep.Viol("Composite.Pack succeeded although its bitmap can not represent a set subfield", line,
					fmt.Sprintf("bitmap of %d bits; packed %x", ref.bl*8, packed))
			}
			return
		}
		img := ref.image()
		var body []byte
		if c.enc.enc == "bytesToHex" {
			body = []byte(strings.ToUpper(hex.EncodeToString(img)))
		} else {
			body = append(body, img...)
		}
		for _, id := range ids {
			body = append(body, []byte(fmt.Sprintf("%02d%s", len(content[id]), content[id]))...)
		}
		if len(body) > 99 {
			return
		}
		want := append([]byte(fmt.Sprintf("%02d", len(body))), body...)
		if err != nil {
			rep.Viol("Composite.Pack fails although every set subfield is representable", line, err.Error())
			return
		}
		if !bytes.Equal(packed, want) {
			rep.Viol("bitmap bits and body of a packed bitmapped composite disagree", line, fmt.Sprintf("packed %x, reference %x", packed, want))
		}
	})
}

// refNestedComp: reference encoding of a bitmapped composite whose subfields are `p(s,N,ascii,ascii.2,nil,d)`
// leaves or again bitmapped composites (prefix ascii.D, Binary / BytesToASCIIHex bitmap), written
// from the layout alone: D decimal digits of the body length, the bitmap image of the set
// subfield numbers, the set subfields in ascending order. ok=false: shape not supported;
// representable=false: a set subfield lies beyond the bitmap or the body is too long (Pack must fail).
func refNestedComp(spec, val *impl.Tree) (out []byte, representable, ok bool) {
	if spec.Name != "c" || len(spec.Kids) < 3 || spec.Kids[2].Name != "b" || len(spec.Kids[2].Kids) != 3 ||
		!strings.HasPrefix(spec.Kids[1].Name, "ascii.") || (val.Name != "c" && val.Name != "c()") {
		return nil, false, false
	}
	maxLen, err1 := strconv.Atoi(spec.Kids[0].Name)
	digits, err2 := strconv.Atoi(strings.TrimPrefix(spec.Kids[1].Name, "ascii."))
	bl, err3 := strconv.Atoi(spec.Kids[2].Kids[0].Name)
	benc := spec.Kids[2].Kids[1].Name
	if err1 != nil || err2 != nil || err3 != nil || bl < 1 || (benc != "binary" && benc != "bytesToHex") {
		return nil, false, false
	}
	subs := map[int]*impl.Tree{}
	for _, k := range spec.Kids[3:] {
		id, err := strconv.Atoi(k.Kids[0].Name)
		if err != nil || strconv.Itoa(id) != k.Kids[0].Name {
			return nil, false, false
		}
		subs[id] = k.Kids[1]
	}
	img := make([]byte, bl)
	type kv struct {
		id int
		v  *impl.Tree
	}
	var set []kv
	for _, k := range val.Kids {
		if k.Name != "kv" || len(k.Kids) != 2 {
			return nil, false, false
		}
		id, err := strconv.Atoi(k.Kids[0].Name)
		if err != nil || subs[id] == nil {
			return nil, false, false
		}
		set = append(set, kv{id, k.Kids[1]})
	}
	sort.Slice(set, func(i, j int) bool { return set[i].id < set[j].id })
	representable = true
	var body []byte
	for _, e := range set {
		if e.id < 1 || e.id > bl*8 {
			representable = false
			continue
		}
		img[(e.id-1)/8] |= 0x80 >> uint((e.id-1)%8)
		sf := subs[e.id]
		switch {
		case sf.Name == "p" && len(sf.Kids) == 6 && sf.Kids[0].Name == "s" && sf.Kids[2].Name == "ascii" &&
			sf.Kids[3].Name == "ascii.2" && sf.Kids[4].Name == "nil" && sf.Kids[5].Name == "d" && e.v.Name == "s" && len(e.v.Kids) == 1:
			b, okh := impl.UnHex(e.v.Kids[0].Name)
			n, _ := strconv.Atoi(sf.Kids[1].Name)
			if !okh {
				return nil, false, false
			}
			if len(b) > n || len(b) > 99 {
				representable = false
			}
			body = append(body, []byte(fmt.Sprintf("%02d", len(b)))...)
			body = append(body, b...)
		case sf.Name == "c":
			b, rep2, ok2 := refNestedComp(sf, e.v)
			if !ok2 {
				return nil, false, false
			}
			if !rep2 {
				representable = false
			}
			body = append(body, b...)
		default:
			return nil, false, false
		}
	}
	var head []byte
	if benc == "bytesToHex" {
		head = []byte(strings.ToUpper(hex.EncodeToString(img)))
	} else {
		head = img
	}
	body = append(append([]byte{}, head...), body...)
	lim := 1
	for i := 0; i < digits; i++ {
		lim *= 10
	}
	if len(body) > maxLen || len(body) >= lim {
		representable = false
	}
	return append([]byte(fmt.Sprintf("%0*d", digits, len(body))), body...), representable, true
}

// checkNestedCompPack: `F <bitmapped composite, possibly nested> pack <value>` against refNestedComp.
func checkNestedCompPack(rep *Reporter, specS, valS string) {
	line := fmt.Sprintf("F %s pack %s", specS, valS)
	specT, ok1 := impl.ParseTree(specS)
	valT, ok2 := impl.ParseTree(valS)
	if !ok1 || !ok2 {
		return
	}
	want, representable, ok := refNestedComp(specT, valT)
	if !ok {
		return
	}
	safely(rep, line, func() {
		f, ok := impl.FieldOfTree(specT)
		if !ok || !impl.SetValue(f, valT) {
			return
		}
		packed, err := f.Pack()
		key := ""
		if err == nil {
			key = line
		}
		rep.Case(key)
		if !representable {
			if err == nil {
				rep.Viol("Composite.Pack succeeded although a bitmap can not represent a set subfield (or a length does not fit)", line, fmt.Sprintf("packed %x", packed))
			}
			return
		}
		if err != nil {
			rep.Viol("Composite.Pack fails although every set subfield is representable", line, err.Error())
			return
		}
		if !bytes.Equal(packed, want) {
			rep.Viol("bitmap bits and body of a packed bitmapped composite disagree", line, fmt.Sprintf("packed %x, reference %x", packed, want))
		}
	})
}

// checkCompRepack: Pack, UnsetSubfield(drop), Pack again on ONE composite object gives the
// bytes a fresh composite holding the remaining subfields packs to.
// compRepackSweep: n random bitmapped composites, packed, one subfield unset (by path), packed again
func compRepackSweep(rep *Reporter, r *gen.Rng, n int) {
	for i := 0; i < n; i++ {
		c := compCfg{bl: gen.Pick(r, []int{1, 2, 3, 4, 8}), enc: gen.Pick(r, bitmapEncs)}
		B := effLen(c.bl) * 8
		used := map[int]bool{}
		for k := 2 + r.Intn(4); k > 0; k-- {
			id := 1 + r.Intn(B)
			if !used[id] {
				used[id] = true
				c.ids = append(c.ids, id)
			}
		}
		sort.Ints(c.ids)
		content := map[int]string{}
		for _, id := range c.ids {
			if r.Intn(4) != 0 {
				content[id] = string(r.From([]byte("ABCxyz019"), 1+r.Intn(4)))
			}
		}
		var ids []int
		for id := range content {
			ids = append(ids, id)
		}
		sort.Ints(ids)
		if len(ids) < 2 {
			continue
		}
		checkCompRepack(rep, c, content, ids[r.Intn(len(ids))])
	}
}

func checkCompRepack(rep *Reporter, c compCfg, content map[int]string, drop int) {
	specT := c.specTree()
	line := fmt.Sprintf("HC05 %s %s unset:%d", specT.String(), compValueTree(content).String(), drop)
	safely(rep, line, func() {
		f, ok := impl.FieldOfTree(specT)
		comp, isComp := f.(*field.Composite)
		if !ok || !isComp || !impl.SetValue(f, compValueTree(content)) {
			return
		}
		if _, err := f.Pack(); err != nil {
			return // not representable: covered by checkCompPack
		}
		rep.Case(line)
		if err := comp.UnsetSubfields(strconv.Itoa(drop)); err != nil {
			return
		}
		again, err := f.Pack()
		rest := map[int]string{}
		for id, v := range content {
			if id != drop {
				rest[id] = v
			}
		}
		fresh, ok := impl.FieldOfTree(specT)
		if !ok || !impl.SetValue(fresh, compValueTree(rest)) {
			return
		}
		want, err2 := fresh.Pack()
		if (err == nil) != (err2 == nil) || !bytes.Equal(again, want) {
			rep.Viol("after a subfield is unset the next Pack of a bitmapped composite does not announce exactly the subfields still set", line,
				fmt.Sprintf("re-packed %x (err %v), a fresh composite with the remaining subfields packs to %x (err %v)", again, err, want, err2))
		}
	})
}

// ------------------------------------------------------------------ histories on one Message

type histOp struct {
	op   string // set | unset | unsets | pack | unpack
	ids  []int
	val  string
	wire map[int]string // unpack: the content of the wire image
}

func (o histOp) String() string {
	idl := make([]string, len(o.ids))
	for i, id := range o.ids {
		idl[i] = strconv.Itoa(id)
	}
	switch o.op {
	case "set":
		return fmt.Sprintf("set:%s:%s", idl[0], o.val)
	case "unset", "unsets":
		return o.op + ":" + strings.Join(idl, "+")
	case "unpack":
		var parts []string
		ids := make([]int, 0, len(o.wire))
		for id := range o.wire {
			ids = append(ids, id)
		}
		sort.Ints(ids)
		for _, id := range ids {
			parts = append(parts, fmt.Sprintf("%d=%s", id, o.wire[id]))
		}
		return "unpack:" + strings.Join(parts, "+")
	}
	return o.op
}

func histLine(c msgCfg, ops []histOp) string {
	s := make([]string, len(ops))
	for i, o := range ops {
		s[i] = o.String()
	}
	return fmt.Sprintf("H05 %s %s", c.specTree().String(), strings.Join(s, ";"))
}

func parseHist(line string) (msgCfg, []histOp, bool) {
	var c msgCfg
	t := strings.Split(line, " ")
	if len(t) != 3 || t[0] != "H05" {
		return c, nil, false
	}
	c, ok := cfgOfTree(t[1])
	if !ok {
		return c, nil, false
	}
	var ops []histOp
	for _, s := range strings.Split(t[2], ";") {
		p := strings.SplitN(s, ":", 3)
		o := histOp{op: p[0]}
		switch p[0] {
		case "set":
			if len(p) != 3 {
				return c, nil, false
			}
			id, _ := strconv.Atoi(p[1])
			o.ids, o.val = []int{id}, p[2]
		case "unset", "unsets":
			if len(p) < 2 {
				return c, nil, false
			}
			for _, x := range strings.Split(p[1], "+") {
				id, _ := strconv.Atoi(x)
				o.ids = append(o.ids, id)
			}
		case "unpack":
			o.wire = map[int]string{}
			if len(p) >= 2 && p[1] != "" {
				for _, kv := range strings.Split(strings.Join(p[1:], ":"), "+") {
					e := strings.SplitN(kv, "=", 2)
					if len(e) != 2 {
						return c, nil, false
					}
					id, _ := strconv.Atoi(e[0])
					o.wire[id] = e[1]
				}
			}
		case "pack", "json":
		default:
			return c, nil, false
		}
		ops = append(ops, o)
	}
	return c, ops, true
}

// cfgOfTree recovers a msgCfg from the spec tree of a replay line (only the shape built by specTree).
func cfgOfTree(s string) (msgCfg, bool) {
	var c msgCfg
	t, ok := impl.ParseTree(s)
	if !ok || t.Name != "m" || len(t.Kids) < 2 || t.Kids[1].Name != "bm" || len(t.Kids[1].Kids) != 4 {
		return c, false
	}
	mti := t.Kids[0]
	if mti.String() != "p(s,4,ascii,ascii.F,nil,d)" {
		return c, false
	}
	b := t.Kids[1].Kids
	bl, err := strconv.Atoi(b[0].Name)
	if err != nil {
		return c, false
	}
	c.bl, c.enc, c.auto = bl, encPref{b[1].Name, b[2].Name}, b[3].Name == "1"
	if c.enc.enc != "binary" && c.enc.enc != "bytesToHex" {
		return c, false
	}
	for _, k := range t.Kids[2:] {
		if k.Name != "f" || len(k.Kids) != 2 || k.Kids[1].String() != "p(s,20,ascii,ascii.2,nil,d)" {
			return c, false
		}
		id, err := strconv.Atoi(k.Kids[0].Name)
		if err != nil {
			return c, false
		}
		c.ids = append(c.ids, id)
	}
	return c, true
}

// checkHistory runs the operations on ONE message object and verifies every Pack.
func checkHistory(rep *Reporter, c msgCfg, ops []histOp) {
	full := histLine(c, ops)
	safely(rep, full, func() {
		spec, ok := impl.MsgSpecOfTree(c.specTree())
		if !ok {
			return
		}
		m := iso8583.NewMessage(spec)
		mti := "0100"
		m.MTI(mti)
		state := map[int]string{}
		packs := 0
		for i, o := range ops {
			line := histLine(c, ops[:i+1])
			switch o.op {
			case "set":
				if err := m.Field(o.ids[0], o.val); err != nil {
					return
				}
				state[o.ids[0]] = o.val
			case "unset":
				m.UnsetField(o.ids[0])
				delete(state, o.ids[0])
			case "unsets":
				paths := make([]string, len(o.ids))
				for k, id := range o.ids {
					paths[k] = strconv.Itoa(id)
					delete(state, id)
				}
				if err := m.UnsetFields(paths...); err != nil {
					return
				}
			case "unpack":
				wire, okw := refEncodeMsg(c, "0210", o.wire)
				if !okw {
					return
				}
				if err := m.Unpack(wire); err != nil {
					rep.Viol("Unpack rejects a reference-encoded message", line, fmt.Sprintf("%x: %v", wire, err))
					return
				}
				mti = "0210"
				state = map[int]string{}
				for id, v := range o.wire {
					state[id] = v
				}
			case "json":
				// the message reloaded from its own JSON document (key "1", the bitmap, included): same content
				if js, err := json.Marshal(m); err == nil {
					if err := json.Unmarshal(js, m); err != nil {
						return
					}
				}
			case "pack":
				packed, err := m.Pack()
				packs++
				key := ""
				if packs > 1 && err == nil {
					key = line
				}
				rep.Case(key)
				if !verifyPacked(rep, c, mti, state, packed, err, line) {
					return
				}
				// the Bitmap() accessor shows the same bits
				if err == nil {
					bmBytes, _ := m.Bitmap().Bytes()
					ref, _, _ := refUnpack(c.enc.enc, effLen(c.bl), c.auto, packed[4:])
					if !bytes.Equal(bmBytes, ref) {
						rep.Viol("Message.Bitmap() after Pack differs from the bitmap in the packed bytes", line, fmt.Sprintf("Bitmap()=%x, packed bitmap %x", bmBytes, ref))
						return
					}
				}
			}
		}
	})
}

// ------------------------------------------------------------------ exploration

func genCfg(r *gen.Rng, fixedSmall bool) msgCfg {
	c := msgCfg{bl: gen.Pick(r, []int{1, 2, 3, 4, 5, 7, 8, 8, 0, 16}), enc: gen.Pick(r, bitmapEncs), auto: !fixedSmall}
	B := effLen(c.bl) * 8
	seen := map[int]bool{}
	add := func(id int) {
		if id < 2 || (c.auto && id%B == 1) || seen[id] {
			return
		}
		seen[id] = true
		c.ids = append(c.ids, id)
	}
	// boundaries of the first four blocks, and random ids in the 2nd-4th block
	for _, id := range []int{2, B - 1, B, B + 2, 2 * B, 2*B + 2, 3 * B, 3*B + 2, 4 * B} {
		if r.Intn(3) != 0 {
			add(id)
		}
	}
	for k := 0; k < 5; k++ {
		add(2 + r.Intn(4*B-1))
	}
	for k := 0; k < 3; k++ {
		add(B + 1 + r.Intn(3*B))
	}
	if !c.auto && r.Intn(4) == 0 {
		add(B + 1) // a continuation *position* is an ordinary element of a fixed bitmap that can not hold it
	}
	if c.auto && r.Intn(4) == 0 {
		// elements DEFINED at continuation-bit positions of an expanding bitmap: the bit is the
		// continuation bit, so the element can not travel - the library leaves it out of bitmap
		// and body (message_test.go pins that); whatever is populated besides, the packed bitmap
		// must still be the minimal chain for the elements in the body
		for _, id := range []int{B + 1, 2*B + 1, 3*B + 1} {
			if r.Intn(2) == 0 && !seen[id] {
				seen[id] = true
				c.ids = append(c.ids, id)
			}
		}
	}
	sort.Ints(c.ids)
	return c
}

// travels: false for an element at a continuation-bit position of an expanding bitmap
func (c msgCfg) travels(id int) bool {
	return !(c.auto && id%(effLen(c.bl)*8) == 1)
}

func (c msgCfg) travelling(content map[int]string) (out map[int]string, dropped bool) {
	out = map[int]string{}
	for id, v := range content {
		if c.travels(id) {
			out[id] = v
		} else {
			dropped = true
		}
	}
	return out, dropped
}

func genContentC05(r *gen.Rng, c msgCfg, maxFields int) map[int]string {
	content := map[int]string{}
	n := r.Intn(maxFields + 1)
	for k := 0; k < n && len(c.ids) > 0; k++ {
		id := gen.Pick(r, c.ids)
		content[id] = string(r.From([]byte("ABCxyz0189 ="), r.Intn(7)))
	}
	return content
}

func genHistory(r *gen.Rng, c msgCfg, steps int) []histOp {
	B := effLen(c.bl) * 8
	var usable []int
	for _, id := range c.ids {
		if c.auto || id <= B {
			usable = append(usable, id)
		}
	}
	if len(usable) == 0 {
		return nil
	}
	var ops []histOp
	cur := map[int]bool{}
	pickCur := func() int {
		ids := make([]int, 0, len(cur))
		for id := range cur {
			ids = append(ids, id)
		}
		sort.Ints(ids)
		if len(ids) == 0 {
			return gen.Pick(r, usable)
		}
		// prefer removing the highest id: that is what must shrink the bitmap
		if r.Bool() {
			return ids[len(ids)-1]
		}
		return gen.Pick(r, ids)
	}
	for s := 0; s < steps; s++ {
		switch r.Intn(9) {
		case 0, 1, 2:
			id := gen.Pick(r, usable)
			cur[id] = true
			ops = append(ops, histOp{op: "set", ids: []int{id}, val: string(r.From([]byte("ABCxyz019"), 1+r.Intn(5)))})
		case 3, 4:
			id := pickCur()
			if r.Intn(6) == 0 {
				id = 1 // the bitmap field itself: it is regenerated, the data elements stay
			}
			delete(cur, id)
			ops = append(ops, histOp{op: "unset", ids: []int{id}})
		case 5:
			a, b := pickCur(), gen.Pick(r, usable)
			switch r.Intn(6) {
			case 0:
				b = 1
			case 1:
				a, b = 1, 1
			}
			delete(cur, a)
			delete(cur, b)
			if a == b {
				ops = append(ops, histOp{op: "unsets", ids: []int{a}})
			} else {
				ops = append(ops, histOp{op: "unsets", ids: []int{a, b}})
			}
		case 6:
			w := map[int]string{}
			for k := r.Intn(4); k > 0; k-- {
				w[gen.Pick(r, usable)] = string(r.From([]byte("ABCxyz019"), r.Intn(5)))
			}
			cur = map[int]bool{}
			for id := range w {
				cur[id] = true
			}
			ops = append(ops, histOp{op: "unpack", wire: w})
		default:
			if r.Intn(4) == 0 {
				ops = append(ops, histOp{op: "json"})
			} else {
				ops = append(ops, histOp{op: "pack"})
			}
		}
	}
	ops = append(ops, histOp{op: "pack"})
	return ops
}

func runC05(t gen.Tier, r *gen.Rng, rep *Reporter) {
	// N. bitmapped composites nested in bitmapped composites that share one bitmap definition
	gen.ChannelMB(gen.Tier{Thorough: t.Thorough}, gen.NewRng(r.U64()), func(line string) {
		f := strings.Split(line, " ")
		if len(f) == 4 && f[0] == "F" && f[2] == "pack" && strings.HasPrefix(f[1], "c(999,ascii.3,b(") {
			checkNestedCompPack(rep, f[1], f[3])
		}
	})
	// A. the bit set: block sizes 0..16 x both modes x every index in 4 blocks (+ beyond), pairs, small sets
	for bl := 0; bl <= 16; bl++ {
		eff := effLen(bl)
		maxBit := 4 * eff * 8
		for _, auto := range []bool{true, false} {
			a8 := byte(0)
			if auto {
				a8 = 1
			}
			for n := -1; n <= maxBit+9; n++ {
				checkSets(rep, bl, auto, []int{n}, true, string([]byte{'s', byte(bl), a8, byte(n >> 8), byte(n)}))
			}
			for a := 1; a <= maxBit; a++ {
				for b := 1; b <= maxBit; b++ {
					if !t.Thorough {
						// quick: block boundaries against everything, plus a random sample
						nearA := a%(eff*8) <= 2 || a%(eff*8) == eff*8-1
						if !(nearA && b%3 == a%3) && r.Intn(97) != 0 {
							continue
						}
					}
					checkSets(rep, bl, auto, []int{a, b}, false, string([]byte{'p', byte(bl), a8, byte(a >> 8), byte(a), byte(b >> 8), byte(b)}))
				}
			}
			for i := 0; i < t.N(60, 1500); i++ {
				k := 2 + r.Intn(6)
				sets := make([]int, k)
				for j := range sets {
					sets[j] = r.Intn(maxBit+12) - 1
				}
				checkSets(rep, bl, auto, sets, i%8 == 0, opsLine(bl, auto, sets))
			}
		}
	}
	// B. chains: well-formed, truncated at every offset, one block more announced than present, random bytes
	for bl := 1; bl <= 16; bl++ {
		for _, auto := range []bool{true, false} {
			for _, ep := range bitmapEncs {
				for i := 0; i < t.N(6, 60); i++ {
					blocks := 1 + r.Intn(4)
					var raw []byte
					for k := 0; k < blocks; k++ {
						blk := r.Bytes(bl)
						if k < blocks-1 {
							blk[0] |= 0x80
						} else {
							blk[0] &= 0x7F
						}
						raw = append(raw, blk...)
					}
					wire := raw
					if ep.enc == "bytesToHex" {
						s := strings.ToUpper(hex.EncodeToString(raw))
						if r.Intn(3) == 0 {
							s = strings.ToLower(s)
						}
						wire = []byte(s)
					}
					full := append(append([]byte{}, wire...), r.Bytes(r.Intn(4))...)
					checkUnpack(rep, ep, bl, auto, full)
					checkUnpack(rep, ep, bl, auto, wire)
					step := 1
					if !t.Thorough && len(wire) > 24 {
						step = 5
					}
					for cut := 0; cut < len(wire); cut += step {
						checkUnpack(rep, ep, bl, auto, wire[:cut])
					}
					// the last block announces a successor that is not there
					over := append([]byte{}, raw...)
					over[len(over)-bl] |= 0x80
					ow := over
					if ep.enc == "bytesToHex" {
						ow = []byte(strings.ToUpper(hex.EncodeToString(over)))
					}
					checkUnpack(rep, ep, bl, auto, ow)
					checkUnpack(rep, ep, bl, auto, append(append([]byte{}, ow...), r.Bytes(bl-1)...))
				}
				for i := 0; i < t.N(10, 200); i++ {
					d := r.Bytes(r.Intn(5 * bl))
					if ep.enc == "bytesToHex" {
						d = r.From([]byte("0123456789ABCDEFabcdef8888gG"), r.Intn(10*bl))
					}
					checkUnpack(rep, ep, bl, auto, d)
				}
				checkUnpack(rep, ep, bl, auto, nil)
			}
		}
	}
	// C. messages: fields in the 2nd-4th block; fixed bitmaps smaller than the highest field number
	for i := 0; i < t.N(1500, 40000); i++ {
		c := genCfg(r, i%3 == 0)
		for k := 0; k < 3; k++ {
			content := genContentC05(r, c, 5)
			if k == 2 && len(c.ids) > 0 {
				content = map[int]string{c.ids[len(c.ids)-1]: "Z"} // the highest element alone
			}
			checkMsgPack(rep, c, "0100", content)
		}
	}
	// C''. one message packed by several goroutines at once: every result announces exactly its body
	// (all of them equal the sequential result; Pack regenerates the bitmap, so two packs must not interleave)
	for i := 0; i < t.N(25, 400); i++ {
		c := genCfg(r, false)
		content := genContentC05(r, c, 6)
		checkConcurrentPack(rep, c, "0100", content)
	}
	// C'. bitmapped composites: subfield numbers inside and beyond the bitmap
	for i := 0; i < t.N(600, 15000); i++ {
		c := compCfg{bl: gen.Pick(r, []int{1, 2, 3, 4, 8, 0}), enc: gen.Pick(r, bitmapEncs)}
		B := effLen(c.bl) * 8
		seen := map[int]bool{}
		for _, id := range []int{1, 2, B - 1, B, B + 1, B + 2, 2 * B, 1 + r.Intn(B), 1 + r.Intn(2*B)} {
			if id >= 1 && !seen[id] && r.Intn(4) != 0 {
				seen[id] = true
				c.ids = append(c.ids, id)
			}
		}
		sort.Ints(c.ids)
		for k := 0; k < 3 && len(c.ids) > 0; k++ {
			content := map[int]string{}
			for j := r.Intn(4); j >= 0; j-- {
				content[gen.Pick(r, c.ids)] = string(r.From([]byte("ABCxyz019"), r.Intn(5)))
			}
			checkCompPack(rep, c, content)
			// C''. the same composite object packed, one subfield unset, packed again: the second
			// bitmap announces exactly the subfields still set (bits = present at EVERY Pack)
			if len(content) >= 2 {
				ids := make([]int, 0, len(content))
				for id := range content {
					ids = append(ids, id)
				}
				sort.Ints(ids)
				checkCompRepack(rep, c, content, ids[r.Intn(len(ids))])
			}
		}
	}
	// D. multi-step histories on one message object
	for i := 0; i < t.N(1200, 30000); i++ {
		c := genCfg(r, i%4 == 0)
		ops := genHistory(r, c, 3+r.Intn(10))
		if ops != nil {
			checkHistory(rep, c, ops)
		}
	}
	// the canonical shrinking history, for every block size
	for _, bl := range []int{1, 2, 3, 4, 8, 0, 16} {
		for _, ep := range bitmapEncs {
			B := effLen(bl) * 8
			c := msgCfg{bl: bl, enc: ep, auto: true, ids: []int{2, B + 2, 3*B + 5}}
			checkHistory(rep, c, []histOp{
				{op: "set", ids: []int{2}, val: "A"}, {op: "set", ids: []int{3*B + 5}, val: "B"}, {op: "pack"},
				{op: "unset", ids: []int{3*B + 5}}, {op: "pack"},
				{op: "set", ids: []int{B + 2}, val: "C"}, {op: "pack"},
				{op: "unsets", ids: []int{2, B + 2}}, {op: "pack"},
				{op: "unpack", wire: map[int]string{3*B + 5: "W"}}, {op: "pack"},
				{op: "unpack", wire: map[int]string{2: "V"}}, {op: "pack"},
			})
		}
	}
	rep.Sample("B ops 3 1 set:49,len,bytes => 3 blocks (72 bits) = ceil(49/24); bytes 800000 800000 800000 with bit 49 = first bit of block 3 set because it was Set, continuation bits on blocks 1 and 2")
	rep.Sample("B unpack bytesToHex hex.F 2 1 <hex text of a 3-block chain ++ tail> => read = 12 characters, data = the 3 blocks; every proper prefix => error")
	rep.Sample("M m(p(s,4,ascii,ascii.F,nil,d),bm(2,binary,binary.F,0),f(20,…)) pack msg(…,f(20,…)) => Pack fails: a fixed 16-bit bitmap can not announce field 20")
	rep.Sample("H05 <spec> set:2:A;set:197:B;pack;unset:197;pack => second Pack has a one-block bitmap with only bit 2 and a body with only field 2")
}

// ------------------------------------------------------------------ replay / diff lines

func linesC05(lines []string, rep *Reporter) {
	for _, l := range lines {
		t := strings.Split(l, " ")
		switch {
		case len(t) == 5 && t[0] == "B" && t[1] == "ops":
			bl, err := strconv.Atoi(t[2])
			if err != nil || bl < 0 || bl > 64 {
				continue
			}
			auto := t[3] == "1"
			var sets []int
			flush := func() {
				if len(sets) > 0 {
					checkSets(rep, bl, auto, sets, true, opsLine(bl, auto, sets))
				}
			}
			for _, op := range strings.Split(t[4], ",") {
				p := strings.Split(op, ":")
				switch p[0] {
				case "set":
					if len(p) == 2 {
						if n, err := strconv.Atoi(p[1]); err == nil {
							sets = append(sets, n)
						}
					}
				case "reset":
					flush()
					sets = nil
				}
			}
			flush()
		case len(t) == 7 && t[0] == "B" && t[1] == "unpack":
			bl, err := strconv.Atoi(t[4])
			wire, ok := impl.UnHex(t[6])
			if err != nil || !ok || bl < 1 || (t[2] != "binary" && t[2] != "bytesToHex") {
				continue
			}
			ep := encPref{t[2], t[3]}
			checkUnpack(rep, ep, bl, t[5] == "1", wire)
			for cut := 0; cut < len(wire); cut++ {
				checkUnpack(rep, ep, bl, t[5] == "1", wire[:cut])
			}
		case len(t) == 4 && t[0] == "M" && t[2] == "pack":
			c, ok := cfgOfTree(t[1])
			mt, ok2 := impl.ParseTree(t[3])
			if !ok || !ok2 || mt.Name != "msg" || len(mt.Kids) < 1 || len(mt.Kids[0].Kids) != 1 {
				continue
			}
			mti, ok3 := impl.UnHex(mt.Kids[0].Kids[0].Name)
			if !ok3 {
				continue
			}
			content := map[int]string{}
			good := true
			for _, k := range mt.Kids[1:] {
				if k.Name != "f" || len(k.Kids) != 2 || k.Kids[1].Name != "s" || len(k.Kids[1].Kids) != 1 {
					good = false
					break
				}
				id, err := strconv.Atoi(k.Kids[0].Name)
				v, okv := impl.UnHex(k.Kids[1].Kids[0].Name)
				if err != nil || !okv {
					good = false
					break
				}
				content[id] = string(v)
			}
			if good {
				checkMsgPack(rep, c, string(mti), content)
			}
		case len(t) == 4 && t[0] == "F" && t[2] == "pack":
			c, ok := compCfgOfTree(t[1])
			vt, ok2 := impl.ParseTree(t[3])
			if !ok && ok2 {
				checkNestedCompPack(rep, t[1], t[3])
				continue
			}
			if !ok || !ok2 || (vt.Name != "c" && vt.Name != "c()") {
				continue
			}
			content := map[int]string{}
			good := true
			for _, k := range vt.Kids {
				if k.Name != "kv" || len(k.Kids) != 2 || k.Kids[1].Name != "s" || len(k.Kids[1].Kids) != 1 {
					good = false
					break
				}
				id, err := strconv.Atoi(k.Kids[0].Name)
				v, okv := impl.UnHex(k.Kids[1].Kids[0].Name)
				if err != nil || !okv {
					good = false
					break
				}
				content[id] = string(v)
			}
			if good {
				checkCompPack(rep, c, content)
			}
		case len(t) == 4 && t[0] == "HC05" && strings.HasPrefix(t[3], "unset:"):
			c, ok := compCfgOfTree(t[1])
			vt, ok2 := impl.ParseTree(t[2])
			drop, err := strconv.Atoi(strings.TrimPrefix(t[3], "unset:"))
			if ok && ok2 && err == nil {
				content := map[int]string{}
				for _, k := range vt.Kids {
					if k.Name == "kv" && len(k.Kids) == 2 && len(k.Kids[1].Kids) == 1 {
						id, e1 := strconv.Atoi(k.Kids[0].Name)
						v, okv := impl.UnHex(k.Kids[1].Kids[0].Name)
						if e1 == nil && okv {
							content[id] = string(v)
						}
					}
				}
				checkCompRepack(rep, c, content, drop)
			}
		case len(t) == 3 && t[0] == "H05":
			if c, ops, ok := parseHist(l); ok {
				checkHistory(rep, c, ops)
			}
		}
	}
}
