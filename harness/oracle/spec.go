package oracle

// C17 — spec JSON export / import preserves behaviour. The property statement evaluated
// directly on the implementation:
//
//	(a) for specs over the exportable vocabulary ExportJSON succeeds, is deterministic, ImportJSON
//	    accepts what it wrote, and export(import(export s)) is byte-identical to export s;
//	(b) the re-imported spec behaves identically: the same message contents Pack to the same
//	    bytes (or fail alike), the same byte strings Unpack to the same fields (or fail alike);
//	(c) ImportJSON of mutated / arbitrary documents never panics, and a returned spec that
//	    defines the MTI and bitmap fields can be given to NewMessage and packed without panicking.

import (
	"bytes"
	"encoding/json"
	"fmt"
	"hash/fnv"
	"math/big"
	"sort"
	"strconv"
	"strings"

	"github.com/moov-io/iso8583"
	"github.com/moov-io/iso8583/field"
	"github.com/moov-io/iso8583/specs"

	"verif/harness/gen"
	"verif/harness/impl"
)

func init() {
	Registry["C17"] = &Oracle{Run: runC17, Lines: linesC17}
}

type c17stats struct {
	specs, exported, reimported, packsOK, packsErr, unpacksOK, unpacksErr, docs, docsOK, docsErr, messages int
}

func trunc(s string, n int) string {
	if len(s) > n {
		return s[:n] + "…"
	}
	return s
}

func lineRng(line string) *gen.Rng {
	h := fnv.New64a()
	h.Write([]byte(line))
	return gen.NewRng(h.Sum64())
}

// ---------------------------------------------------------------- vocabulary

func inList(x string, xs []string) bool {
	for _, y := range xs {
		if x == y {
			return true
		}
	}
	return false
}

func vocabEnc(t string) bool {
	for _, e := range gen.VocabEncs {
		if e[0] == t {
			return true
		}
	}
	return false
}

// inVocab: the tree uses only constructs the JSON format can express (C17.vocabField in the Lean file).
func inVocab(f *impl.TField) bool {
	if !inList(f.Pref, gen.VocabPrefixes) {
		return false
	}
	if len(f.Subs) == 0 {
		return f.Tag == nil && f.Bitmap == nil && vocabEnc(f.Enc)
	}
	if f.Enc != "" || f.Type != "Composite" {
		return false // only composites hold subfields (any other field needs an encoder)
	}
	if f.Tag != nil {
		if f.Tag.Enc != "" && !vocabEnc(f.Tag.Enc) {
			return false
		}
		if f.Tag.Sort == "Strings" {
			return false
		}
	}
	for _, e := range f.Subs {
		if !inVocab(e.F) {
			return false
		}
	}
	if f.Bitmap != nil && !inVocab(f.Bitmap) {
		return false
	}
	return true
}

// ---------------------------------------------------------------- message contents

type item struct {
	id   int
	kind byte // 's' Field(id, string), 'b' BinaryField(id, bytes), 'j' UnmarshalJSON({"id": js})
	s    string
	b    []byte
}

const alnum = "0123456789ABCDEFGHIJKLMNOPQRSTUVWXYZabcdefghijklmnopqrstuvwxyz"

func valueLen(r *gen.Rng, f *impl.TField) int {
	fixed := strings.HasSuffix(f.Pref, ".Fixed")
	switch {
	case f.Length <= 0:
		return r.Intn(5)
	case fixed && f.Pad == nil:
		return f.Length
	case f.Length > 12:
		return r.Intn(13)
	}
	return r.Intn(f.Length + 1)
}

func primText(r *gen.Rng, f *impl.TField) string {
	n := valueLen(r, f)
	alpha := alnum
	switch f.Enc {
	case "bcdEncoder", "lBCDEncoder":
		alpha = "0123456789"
	case "asciiToHexEncoder":
		alpha = "0123456789ABCDEF"
		n *= 2
	}
	if f.Type == "Numeric" {
		alpha = "0123456789"
		if n > 9 {
			n = 9
		}
		if n == 0 {
			n = 1
		}
	}
	return string(r.From([]byte(alpha), n))
}

var track2Values = []string{"4000340000000506=2512111123400001230", "1234567890123456=991200012345"}

// jsonValue: the JSON text that sets a subfield through Composite.UnmarshalJSON ("" = leave unset)
func jsonValue(r *gen.Rng, f *impl.TField, depth int) string {
	switch f.Type {
	case "String":
		b, _ := json.Marshal(primText(r, f))
		return string(b)
	case "Numeric":
		s := strings.TrimLeft(primText(r, f), "0")
		if s == "" {
			s = "0"
		}
		return s
	case "Binary":
		n := valueLen(r, f)
		return `"` + strings.ToUpper(gen.H(r.Bytes(n))) + `"`
	case "Composite":
		if depth > 3 || len(f.Subs) == 0 {
			return ""
		}
		var parts []string
		for _, e := range f.Subs {
			if r.Intn(4) == 0 {
				continue
			}
			if v := jsonValue(r, e.F, depth+1); v != "" && v != `"-"` {
				k, _ := json.Marshal(e.Key)
				parts = append(parts, string(k)+":"+v)
			}
		}
		return "{" + strings.Join(parts, ",") + "}"
	}
	return ""
}

func genContent(r *gen.Rng, m *impl.TMsg) []item {
	var out []item
	for _, e := range m.Fields {
		if e.Idx == 1 {
			continue
		}
		if e.Idx == 0 {
			out = append(out, item{id: 0, kind: 's', s: gen.Pick(r, []string{"0100", "0800", "0210"})})
			continue
		}
		if r.Intn(3) == 0 {
			continue
		}
		f := e.F
		if len(f.Subs) > 0 && f.Type != "Composite" {
			continue
		}
		switch f.Type {
		case "String", "Numeric":
			out = append(out, item{id: e.Idx, kind: 's', s: primText(r, f)})
		case "Track2":
			out = append(out, item{id: e.Idx, kind: 's', s: gen.Pick(r, track2Values)})
		case "Binary":
			out = append(out, item{id: e.Idx, kind: 'b', b: r.Bytes(valueLen(r, f))})
		case "Composite":
			if js := jsonValue(r, f, 1); js != "" {
				out = append(out, item{id: e.Idx, kind: 'j', s: js})
			}
		}
	}
	return out
}

// outcome of an operation on one side: "ok …", "err" or "panic"
func guarded(f func() string) (res string) {
	defer func() {
		if recover() != nil {
			res = "panic"
		}
	}()
	return f()
}

func applyContent(m *iso8583.Message, items []item) string {
	var sb strings.Builder
	for _, it := range items {
		var err error
		switch it.kind {
		case 's':
			if it.id == 0 {
				m.MTI(it.s)
			} else {
				err = m.Field(it.id, it.s)
			}
		case 'b':
			err = m.BinaryField(it.id, it.b)
		case 'j':
			err = m.UnmarshalJSON([]byte(`{"` + strconv.Itoa(it.id) + `":` + it.s + `}`))
		}
		if err != nil {
			sb.WriteString("e")
		} else {
			sb.WriteString(".")
		}
	}
	return sb.String()
}

func packOutcome(spec *iso8583.MessageSpec, items []item) (string, []byte) {
	var packed []byte
	res := guarded(func() string {
		m := iso8583.NewMessage(spec)
		set := applyContent(m, items)
		p, err := m.Pack()
		if err != nil {
			return "set=" + set + " err"
		}
		packed = p
		return "set=" + set + " ok " + impl.Hex(p)
	})
	return res, packed
}

func unpackOutcome(spec *iso8583.MessageSpec, data []byte) string {
	return guarded(func() string {
		m := iso8583.NewMessage(spec)
		if err := m.Unpack(data); err != nil {
			return "err"
		}
		fs := m.GetFields()
		ids := make([]int, 0, len(fs))
		for id := range fs {
			ids = append(ids, id)
		}
		sort.Ints(ids)
		var sb strings.Builder
		sb.WriteString("ok")
		for _, id := range ids {
			s, err := m.GetString(id)
			if err != nil {
				fmt.Fprintf(&sb, " %d=!", id)
			} else {
				fmt.Fprintf(&sb, " %d=%x", id, s)
			}
		}
		js, err := json.Marshal(m)
		if err != nil {
			sb.WriteString(" json=!")
		} else {
			sb.WriteString(" json=" + string(js))
		}
		p, err := m.Pack()
		if err != nil {
			sb.WriteString(" repack=!")
		} else {
			sb.WriteString(" repack=" + impl.Hex(p))
		}
		return sb.String()
	})
}

func describeItems(items []item) string {
	var parts []string
	for _, it := range items {
		switch it.kind {
		case 'b':
			parts = append(parts, fmt.Sprintf("%d=hex:%x", it.id, it.b))
		default:
			parts = append(parts, fmt.Sprintf("%d=%s", it.id, it.s))
		}
	}
	return strings.Join(parts, " ")
}

func mutateBytes(r *gen.Rng, p []byte) [][]byte {
	out := [][]byte{p}
	if len(p) > 0 {
		out = append(out, p[:r.Intn(len(p))])
		q := append([]byte(nil), p...)
		q[r.Intn(len(q))] ^= byte(1 << uint(r.Intn(8)))
		out = append(out, q)
		q2 := append([]byte(nil), p...)
		q2[r.Intn(len(q2))] = byte(r.U64())
		out = append(out, q2)
	}
	out = append(out, append(append([]byte(nil), p...), r.Bytes(1+r.Intn(4))...))
	return out
}

// behaviour compares the original and the re-imported spec on generated messages and byte strings.
func behaviour(rep *Reporter, st *c17stats, line string, m *impl.TMsg, spec, spec2 *iso8583.MessageSpec, r *gen.Rng, rounds int) {
	if spec.Validate() != nil {
		// no message can be created from the original either; the property has nothing to compare
		if (spec2.Validate() == nil) != (spec.Validate() == nil) {
			rep.Viol("the re-imported spec validates differently from the original", line, "")
		}
		return
	}
	if err := spec2.Validate(); err != nil {
		rep.Viol("the re-imported spec can not be turned into a message although the original can", line, err.Error())
		return
	}
	for k := 0; k < rounds; k++ {
		items := genContent(r, m)
		st.messages++
		o1, p1 := packOutcome(spec, items)
		o2, _ := packOutcome(spec2, items)
		if strings.Contains(o1, " ok ") {
			st.packsOK++
		} else {
			st.packsErr++
		}
		if o1 != o2 {
			rep.Viol("the same message packs differently under the original and the re-imported spec", line,
				fmt.Sprintf("content [%s] original => %s ; re-imported => %s", describeItems(items), trunc(o1, 300), trunc(o2, 300)))
			return
		}
		inputs := [][]byte{}
		if p1 != nil {
			inputs = mutateBytes(r, p1)
		} else if k == 0 {
			inputs = append(inputs, r.Bytes(8+r.Intn(24)), []byte("0100"+strings.Repeat("\x00", 8)))
		}
		for _, in := range inputs {
			u1 := unpackOutcome(spec, in)
			u2 := unpackOutcome(spec2, in)
			if strings.HasPrefix(u1, "ok") {
				st.unpacksOK++
			} else {
				st.unpacksErr++
			}
			if u1 != u2 {
				rep.Viol("the same bytes unpack differently under the original and the re-imported spec", line,
					fmt.Sprintf("bytes %s original => %s ; re-imported => %s", impl.Hex(in), trunc(u1, 300), trunc(u2, 300)))
				return
			}
		}
	}
}

// checkSpec: (a) and (b) for one spec tree.
func checkSpec(rep *Reporter, st *c17stats, m *impl.TMsg, rounds int) {
	spec, ok := m.Build()
	if !ok {
		rep.Case("")
		return
	}
	checkRealSpec(rep, st, m, spec, rounds)
}

// probe runs f with a private reporter and returns it together with what it wrote.
func probe(f func(rep *Reporter)) (*Reporter, []string) {
	var buf bytes.Buffer
	p := NewReporter(&buf)
	f(p)
	p.w.Flush()
	return p, strings.Split(strings.TrimRight(buf.String(), "\n"), "\n")
}

func violationClass(lines []string) string {
	for _, l := range lines {
		if t := strings.Split(l, "\t"); t[0] == "VIOL" && len(t) > 1 {
			return t[1]
		}
	}
	return ""
}

func cloneTField(f *impl.TField) *impl.TField {
	if f == nil {
		return nil
	}
	c := *f
	c.Subs = nil
	for _, e := range f.Subs {
		c.Subs = append(c.Subs, impl.TEntry{Key: e.Key, F: cloneTField(e.F)})
	}
	c.Bitmap = cloneTField(f.Bitmap)
	return &c
}

// smaller variants of a field: a subfield removed (keeping one), a subfield shrunk
func shrinkField(f *impl.TField) []*impl.TField {
	var out []*impl.TField
	for i := range f.Subs {
		if len(f.Subs) > 1 {
			c := cloneTField(f)
			c.Subs = append(c.Subs[:i], c.Subs[i+1:]...)
			out = append(out, c)
		}
		for _, s := range shrinkField(f.Subs[i].F) {
			c := cloneTField(f)
			c.Subs[i].F = s
			out = append(out, c)
		}
	}
	if f.Desc != "" {
		c := cloneTField(f)
		c.Desc = ""
		out = append(out, c)
	}
	return out
}

func shrinkMsg(m *impl.TMsg) []*impl.TMsg {
	var out []*impl.TMsg
	for i, e := range m.Fields {
		if e.Idx > 1 || len(m.Fields) > 2 {
			c := &impl.TMsg{Name: m.Name, Fields: append(append([]impl.TMsgEntry(nil), m.Fields[:i]...), m.Fields[i+1:]...)}
			out = append(out, c)
		}
	}
	for i, e := range m.Fields {
		for _, s := range shrinkField(e.F) {
			c := &impl.TMsg{Name: m.Name, Fields: append([]impl.TMsgEntry(nil), m.Fields...)}
			c.Fields[i] = impl.TMsgEntry{Idx: e.Idx, F: s}
			out = append(out, c)
		}
	}
	if m.Name != "" {
		out = append(out, &impl.TMsg{Fields: m.Fields})
	}
	return out
}

// checkRealSpec evaluates (a) and (b); a violating spec is shrunk (fields, subfields and
// descriptions dropped while the same violation remains) before it is reported.
func checkRealSpec(rep *Reporter, st *c17stats, m *impl.TMsg, spec *iso8583.MessageSpec, rounds int) {
	p, lines := probe(func(q *Reporter) { evalSpec(q, st, m, spec, rounds) })
	class := violationClass(lines)
	if class == "" {
		rep.Evals += p.Evals
		for k := range p.Nontriv {
			rep.Nontriv[k] = struct{}{}
		}
		for _, l := range lines {
			if strings.HasPrefix(l, "SAMPLE\t") {
				rep.Sample(strings.TrimPrefix(l, "SAMPLE\t"))
			}
		}
		return
	}
	budget := 400
	for progress := true; progress && budget > 0; {
		progress = false
		for _, c := range shrinkMsg(m) {
			budget--
			cs, ok := c.Build()
			if !ok {
				continue
			}
			_, ls := probe(func(q *Reporter) { evalSpec(q, &c17stats{}, c, cs, rounds) })
			if violationClass(ls) == class {
				m, spec, progress = c, cs, true
				break
			}
		}
	}
	evalSpec(rep, &c17stats{}, m, spec, rounds)
}

// documents ExportJSON returned earlier in this run, as returned (live) and as they read then:
// a caller keeps what it was given, later exports of other specs must not change it
type keptExport struct {
	line       string
	live, then []byte
}

var keptExports []keptExport

func checkKeptExports(rep *Reporter, after string) {
	for i, e := range keptExports {
		if !bytes.Equal(e.live, e.then) {
			rep.Viol("the document ExportJSON returned for one spec changed when another spec was exported later", e.line,
				fmt.Sprintf("returned %s ; after `%s` the same slice reads %s", trunc(string(e.then), 200), trunc(after, 120), trunc(string(e.live), 200)))
			keptExports = append(keptExports[:i:i], keptExports[i+1:]...)
			return
		}
	}
}

func evalSpec(rep *Reporter, st *c17stats, m *impl.TMsg, spec *iso8583.MessageSpec, rounds int) {
	line := "S export " + m.Text()
	st.specs++
	vocab := len(m.Fields) > 0
	for _, e := range m.Fields {
		vocab = vocab && inVocab(e.F)
	}
	safely(rep, line, func() {
		j1, err := specs.Builder.ExportJSON(spec)
		if err != nil {
			rep.Case("")
			if vocab {
				rep.Viol("ExportJSON fails on a spec over the exportable vocabulary", line, err.Error())
			}
			return
		}
		st.exported++
		checkKeptExports(rep, line)
		keptExports = append(keptExports, keptExport{line, j1, append([]byte(nil), j1...)})
		if len(keptExports) > 6 {
			keptExports = keptExports[1:]
		}
		for i := 0; i < 3; i++ {
			again, err := specs.Builder.ExportJSON(spec)
			if err != nil || !bytes.Equal(again, j1) {
				rep.Viol("ExportJSON is not deterministic", line, fmt.Sprintf("first %s then %s (%v)", trunc(string(j1), 300), trunc(string(again), 300), err))
				return
			}
		}
		spec2, err := specs.Builder.ImportJSON(j1)
		if err != nil {
			rep.Case("")
			if vocab {
				rep.Viol("ImportJSON rejects the document ExportJSON wrote for a spec over the exportable vocabulary", line, err.Error()+" ; JSON: "+trunc(string(j1), 700))
			}
			return
		}
		st.reimported++
		rep.Case(line)
		j2, err := specs.Builder.ExportJSON(spec2)
		if err != nil {
			rep.Viol("ExportJSON fails on the re-imported spec", line, err.Error())
			return
		}
		if !bytes.Equal(j1, j2) {
			rep.Viol("exporting the re-imported spec does not give byte-identical JSON", line, firstDiff(j1, j2))
			return
		}
		behaviour(rep, st, line, m, spec, spec2, lineRng(line), rounds)
		rep.Sample(line + "\texport→import→export identical (" + strconv.Itoa(len(j1)) + " bytes of JSON), behaviour compared on " + strconv.Itoa(rounds) + " messages")
	})
}

func firstDiff(a, b []byte) string {
	i := 0
	for i < len(a) && i < len(b) && a[i] == b[i] {
		i++
	}
	lo := i - 60
	if lo < 0 {
		lo = 0
	}
	hi := func(x []byte) int {
		if i+60 < len(x) {
			return i + 60
		}
		return len(x)
	}
	return fmt.Sprintf("at byte %d: first …%q… second …%q…", i, a[lo:hi(a)], b[lo:hi(b)])
}

// ---------------------------------------------------------------- (c) robustness

var two24 = big.NewInt(1 << 24)
var two48 = new(big.Int).Lsh(big.NewInt(1), 48)

// allocates: the document carries a number that NewBitmap would really try to allocate
func allocates(v interface{}) bool {
	switch x := v.(type) {
	case map[string]interface{}:
		for _, y := range x {
			if allocates(y) {
				return true
			}
		}
	case []interface{}:
		for _, y := range x {
			if allocates(y) {
				return true
			}
		}
	case json.Number:
		f, _, err := big.ParseFloat(x.String(), 10, 200, big.ToNearestEven)
		if err != nil {
			return false
		}
		n, _ := f.Int(nil)
		return n.Cmp(two24) > 0 && n.Cmp(two48) <= 0
	}
	return false
}

func safeDoc(raw []byte) bool {
	dec := json.NewDecoder(bytes.NewReader(raw))
	dec.UseNumber()
	var v interface{}
	if err := dec.Decode(&v); err != nil {
		return true // json.Unmarshal will fail as well (or see a prefix only); nothing is allocated
	}
	return !allocates(v)
}

// checkDocJSON: ImportJSON on one document; returns whether a spec came back.
func checkDocJSON(rep *Reporter, st *c17stats, raw []byte, replay string) bool {
	if !safeDoc(raw) {
		return false
	}
	st.docs++
	detail := "JSON: " + trunc(string(raw), 900)
	var spec *iso8583.MessageSpec
	var err error
	panicked := ""
	func() {
		defer func() {
			if x := recover(); x != nil {
				panicked = fmt.Sprint(x)
			}
		}()
		spec, err = specs.Builder.ImportJSON(raw)
	}()
	if panicked != "" {
		rep.Case("")
		rep.Viol("ImportJSON panics instead of returning an error", replay, "panic: "+panicked+" ; "+detail)
		return false
	}
	if err != nil || spec == nil {
		st.docsErr++
		rep.Case("")
		return false
	}
	st.docsOK++
	rep.Case("doc:" + string(raw))
	f0, has0 := spec.Fields[0]
	f1, has1 := spec.Fields[1]
	if !has0 || !has1 {
		return true
	}
	if _, isBitmap := f1.(*field.Bitmap); !isBitmap {
		return true
	}
	func() {
		defer func() {
			if x := recover(); x != nil {
				panicked = fmt.Sprint(x)
			}
		}()
		m := iso8583.NewMessage(spec)
		// pack only when the two fields involved have a sane size (padding would allocate Length bytes)
		if f0.Spec().Length > 1<<16 || f1.Spec().Length > 1<<16 {
			return
		}
		m.MTI("0100")
		_, _ = m.Pack()
	}()
	if panicked != "" {
		rep.Viol("a spec returned by ImportJSON that defines MTI and bitmap panics in NewMessage / Pack", replay, "panic: "+panicked+" ; "+detail)
	}
	return true
}

// generic JSON mutation (text level: keys can be renamed, values can take any JSON type)
type jref struct {
	obj map[string]interface{}
	key string
}

func collectRefs(v interface{}, out *[]jref) {
	if o, ok := v.(map[string]interface{}); ok {
		keys := make([]string, 0, len(o))
		for k := range o {
			keys = append(keys, k)
		}
		sort.Strings(keys)
		for _, k := range keys {
			*out = append(*out, jref{o, k})
			collectRefs(o[k], out)
		}
	}
}

var wrongValues = []interface{}{nil, []interface{}{}, map[string]interface{}{}, "str", json.Number("12"), json.Number("-1"), json.Number("1.5"),
	json.Number("1e3"), true, false, json.Number("281474976710657"), json.Number("9223372036854775808"), json.Number("-9223372036854775809"),
	json.Number("4611686018427387904"), json.Number("0"), "", []interface{}{json.Number("1")}, map[string]interface{}{"type": "Bitmap"}}

var oddStrings = []string{"", "Foo", "ASCII.LLLLL", "Composite", "Bitmap", "Strings", "BerTLVTag", "None", "Left", "ab", "String", "None.Fixed", "Binary"}
var renames = map[string][]string{"type": {"Type", "typ", "TYPE", "kind"}, "length": {"len", "Length", "lenght"}, "enc": {"encoding", "ENC"},
	"prefix": {"pref", "Prefix"}, "subfields": {"fields", "Subfields", "subfield"}, "tag": {"Tag", "tags"}, "bitmap": {"Bitmap", "bmp"},
	"padding": {"pad", "Padding"}, "fields": {"Fields", "field"}, "sort": {"Sort", "order"}, "disableAutoExpand": {"disableautoexpand", "autoExpand"},
	"pad": {"char"}, "name": {"Name"}, "description": {"desc"}}

func deepCopy(v interface{}) interface{} {
	switch x := v.(type) {
	case map[string]interface{}:
		o := make(map[string]interface{}, len(x))
		for k, y := range x {
			o[k] = deepCopy(y)
		}
		return o
	case []interface{}:
		o := make([]interface{}, len(x))
		for i, y := range x {
			o[i] = deepCopy(y)
		}
		return o
	}
	return v
}

func mutateJSON(r *gen.Rng, raw []byte, n int) ([]byte, bool) {
	dec := json.NewDecoder(bytes.NewReader(raw))
	dec.UseNumber()
	var v interface{}
	if err := dec.Decode(&v); err != nil {
		return nil, false
	}
	for ; n > 0; n-- {
		var refs []jref
		collectRefs(v, &refs)
		if len(refs) == 0 {
			break
		}
		ref := gen.Pick(r, refs)
		switch r.Intn(7) {
		case 0:
			delete(ref.obj, ref.key)
		case 1:
			val := ref.obj[ref.key]
			delete(ref.obj, ref.key)
			nk := ref.key + "x"
			if alts, ok := renames[ref.key]; ok {
				nk = gen.Pick(r, alts)
			} else if _, err := strconv.Atoi(ref.key); err == nil {
				nk = gen.Pick(r, []string{"0" + ref.key, "+" + ref.key, "x", "", ref.key + ".0", "-" + ref.key})
			}
			if _, clash := ref.obj[nk]; !clash {
				ref.obj[nk] = val
			}
		case 2, 3:
			ref.obj[ref.key] = deepCopy(gen.Pick(r, wrongValues))
		case 4:
			if _, ok := ref.obj[ref.key].(string); ok {
				ref.obj[ref.key] = gen.Pick(r, oddStrings)
			} else if _, ok := ref.obj[ref.key].(json.Number); ok {
				ref.obj[ref.key] = gen.Pick(r, []interface{}{json.Number("-1"), json.Number("0"), json.Number("-9223372036854775808"), json.Number("281474976710657"), json.Number("9223372036854775807")})
			} else {
				ref.obj[ref.key] = nil
			}
		case 5: // copy a value to another member of the same object
			ref.obj[gen.Pick(r, []string{"tag", "bitmap", "subfields", "padding", "1", "0"})] = deepCopy(ref.obj[ref.key])
		case 6: // move a whole block somewhere else
			other := gen.Pick(r, refs)
			other.obj[other.key] = deepCopy(ref.obj[ref.key])
		}
	}
	out, err := json.Marshal(v)
	return out, err == nil
}

var rawDocs = []string{"", "null", "[]", "{}", "0", `"x"`, "{", `{"fields":[]}`, `{"fields":{}}`, `{"fields":{"0":[]}}`, `{"fields":{"0":null}}`,
	`{"fields":{"0":{}}}`, `{"fields":{"0":{"type":"String"}}}`, `{"fields":null,"name":3}`, `{"fields":{"0":{"subfields":{"1":null}}}}`,
	`{"fields":{"1":{"type":"Bitmap","length":-1,"enc":"Binary","prefix":"Binary.Fixed"}}}`,
	`{"fields":{"2":{"type":"Composite","prefix":"ASCII.LL","subfields":{"1":{"type":"String","enc":"ASCII","prefix":"ASCII.Fixed"}}}}}`,
	`{"fields":{"2":{"type":"Composite","prefix":"ASCII.LL","subfields":{"1":{"type":"String","enc":"ASCII","prefix":"ASCII.Fixed"}},"bitmap":null,"tag":null}}}`,
	`{"fields":{"2":{"type":"Composite","prefix":"ASCII.LL","subfields":{"1":{"type":"String","enc":"ASCII","prefix":"ASCII.Fixed"}},"bitmap":{"type":"Bitmap","length":1125899906842624000,"enc":"Binary","prefix":"Binary.Fixed","disableAutoExpand":true}}}}`,
	`{"fields":{"2":{"type":"Composite","prefix":"ASCII.LL","subfields":{"1":{"type":"String","enc":"ASCII","prefix":"ASCII.Fixed"}},"bitmap":{"type":"Bitmap","length":2,"enc":"Binary","prefix":"Binary.Fixed","disableAutoExpand":true,"subfields":{"1":null}}}}}`,
	`{"fields":{"0":{"type":"String","length":4,"enc":"ASCII","prefix":"ASCII.Fixed"},"1":{"type":"Bitmap","enc":"Binary","prefix":"None.Fixed"}}}`,
	`{"fields":{"0":{"type":"Composite","length":4,"prefix":"ASCII.Fixed","tag":{"sort":"StringsByHex"},"subfields":{"zz":{"type":"String","enc":"ASCII","prefix":"ASCII.Fixed"},"1":{"type":"String","enc":"ASCII","prefix":"ASCII.Fixed"}}},"1":{"type":"Bitmap","enc":"HexToASCII","prefix":"Hex.Fixed","length":3}}}`,
}

// replayFor: the protocol line for a JSON document when the one-token form can express it
func replayFor(raw []byte) string {
	d, err := impl.DocOfJSON(raw)
	if err != nil {
		return ""
	}
	return "S import " + d.Text(false)
}

func runC17(t gen.Tier, r *gen.Rng, rep *Reporter) {
	st := &c17stats{}
	// the shipped specs
	for name, s := range map[string]*iso8583.MessageSpec{"Spec87ASCII": specs.Spec87ASCII, "Spec87Hex": specs.Spec87Hex, "Spec87Track2": specs.Spec87Track2} {
		_ = name
		checkRealSpec(rep, st, impl.TMsgOf(s), s, t.N(4, 20))
	}
	// (a) + (b): generated specs over the exportable vocabulary
	var corpus [][]byte
	for i := 0; i < t.N(600, 12000); i++ {
		m := gen.SpecTree(r, gen.SpecOpts{Plain: i%2 == 0})
		checkSpec(rep, st, m, t.N(3, 5))
		if i%3 == 0 {
			if spec, ok := m.Build(); ok {
				if j, err := specs.Builder.ExportJSON(spec); err == nil {
					corpus = append(corpus, j)
				}
			}
		}
	}
	// a few outside it: whatever export accepts must still come back the same
	for i := 0; i < t.N(150, 3000); i++ {
		checkSpec(rep, st, gen.SpecTree(r, gen.SpecOpts{Beyond: true}), 2)
	}
	// (c) robustness: the boundary documents first (short inputs), then tree-level mutations
	// (replayable), JSON-level mutations, raw text
	linesC17Docs(gen.BoundaryS, rep, st)
	for _, d := range rawDocs {
		checkDocJSON(rep, st, []byte(d), replayFor([]byte(d)))
	}
	for i := 0; i < t.N(2500, 60000); i++ {
		m := gen.SpecTree(r, gen.SpecOpts{Beyond: i%4 == 3})
		d := gen.DocOfMsg(m)
		gen.MutateDoc(r, d, 1+r.Intn(4))
		line := "S import " + d.Text(false)
		checkDocJSON(rep, st, []byte(d.JSON()), line)
	}
	if len(corpus) > 0 {
		for i := 0; i < t.N(2500, 60000); i++ {
			base := gen.Pick(r, corpus)
			var doc []byte
			switch r.Intn(6) {
			case 0: // truncation
				doc = base[:r.Intn(len(base)+1)]
			case 1: // one byte replaced
				doc = append([]byte(nil), base...)
				doc[r.Intn(len(doc))] = gen.Pick(r, []byte(`{}[]",:0123456789-.eEtfn\ ax`))
			default:
				var ok bool
				doc, ok = mutateJSON(r, base, 1+r.Intn(3))
				if !ok {
					continue
				}
			}
			checkDocJSON(rep, st, doc, replayFor(doc))
		}
	}
	rep.Stat("specs_built", st.specs)
	rep.Stat("specs_exported", st.exported)
	rep.Stat("specs_reimported", st.reimported)
	rep.Stat("messages_compared", st.messages)
	rep.Stat("packs_ok", st.packsOK)
	rep.Stat("packs_err", st.packsErr)
	rep.Stat("unpacks_ok", st.unpacksOK)
	rep.Stat("unpacks_err", st.unpacksErr)
	rep.Stat("documents_imported", st.docs)
	rep.Stat("documents_accepted", st.docsOK)
	rep.Stat("documents_rejected", st.docsErr)
}

// linesC17Docs: only the robustness part (c) for `S import` lines.
func linesC17Docs(lines []string, rep *Reporter, st *c17stats) {
	for _, l := range lines {
		t := strings.Split(l, " ")
		if len(t) == 3 && t[0] == "S" && t[1] == "import" {
			if d, ok := impl.ParseSpecDoc(t[2]); ok {
				checkDocJSON(rep, st, []byte(d.JSON()), l)
			}
		}
	}
}

func linesC17(lines []string, rep *Reporter) {
	st := &c17stats{}
	for _, l := range lines {
		t := strings.Split(l, " ")
		if len(t) != 3 || t[0] != "S" {
			continue
		}
		switch t[1] {
		case "import":
			d, ok := impl.ParseSpecDoc(t[2])
			if !ok {
				continue
			}
			raw := []byte(d.JSON())
			if checkDocJSON(rep, st, raw, l) {
				// what was imported must survive export → import → export as well
				var tm *impl.TMsg
				func() {
					defer func() { recover() }()
					if spec, err := specs.Builder.ImportJSON(raw); err == nil {
						tm = impl.TMsgOf(spec)
					}
				}()
				if tm != nil {
					checkSpec(rep, st, tm, 4)
				}
			}
		case "export":
			if m, ok := impl.ParseTMsg(t[2]); ok {
				checkSpec(rep, st, m, 6)
			}
		}
	}
}
