package oracle

// C18 — sensitive field contents do not leak through errors or Describe: the statement of
// the property evaluated on the implementation.
//
// (a) errors: impl.LeakScenario builds fields / composites / messages carrying 12–19
// character high-entropy secrets and provokes failures of Pack, Unpack, SetBytes, Marshal,
// Unmarshal, json.Marshal/Unmarshal; every error text is scanned for a piece of a secret of
// eight or more units (verbatim or hex) and is matched against the regenerated site table
// (every format string turned into a regular expression): a text that no chain of templates
// explains shows that the table is incomplete (counted, sampled; a violation only if it
// also carries a secret).
// (b) Describe: messages over the shipped specs and a generated spec with a PAN in field 2,
// track data in 35/36/45 (as String and as Track fields) and a PIN block in 52; the
// default-filter output must show at most the first/last four characters of the PAN
// (two of the PIN block).

import (
	"bytes"
	"encoding/hex"
	"errors"
	"fmt"
	"os"
	"path/filepath"
	"regexp"
	"strconv"
	"strings"

	"github.com/moov-io/iso8583"
	"github.com/moov-io/iso8583/encoding"
	iso8583errors "github.com/moov-io/iso8583/errors"
	"github.com/moov-io/iso8583/field"
	"github.com/moov-io/iso8583/padding"
	"github.com/moov-io/iso8583/prefix"
	"github.com/moov-io/iso8583/sort"
	"github.com/moov-io/iso8583/specs"

	"verif/harness/gen"
	"verif/harness/impl"
)

func init() {
	Registry["C18"] = &Oracle{Run: runC18, Lines: linesC18}
}

// ---------------------------------------------------------------- site templates

type tmplPart struct {
	kind  byte // 'L', 'A', 'W'
	text  string
	verb  string
	cls   string
	bound int
}

type siteTmpl struct {
	site   string // file:line
	fn     string
	kind   string
	parts  []tmplPart
	re     *regexp.Regexp
	prefix string
}

type leaf struct {
	site, fn, cls string
	bound         int
	text          string
}

var foreignLeaf = []*regexp.Regexp{
	regexp.MustCompile(`(?s)^strconv\.\w+: parsing ".*": (invalid syntax|value out of range)$`),
	regexp.MustCompile(`(?s)^encoding/hex: (invalid byte: U\+[0-9A-F]{4,6}.*|odd length hex string)$`),
	regexp.MustCompile(`^(unexpected )?EOF$`),
	regexp.MustCompile(`(?s)^invalid character .+$`),
	regexp.MustCompile(`^unexpected end of JSON input$`),
	regexp.MustCompile(`(?s)^json: .*$`),
	regexp.MustCompile(`(?s)^parsing time .*$`),
	regexp.MustCompile(`^(non-encodable data|Bad BCD data)$`),
	regexp.MustCompile(`^encoding: rune not supported by encoding\.$`),
	regexp.MustCompile(`^short (buffer|write)$`),
}

type siteTable struct {
	tmpls  []*siteTmpl
	loaded bool
	path   string
}

func tablePath() string {
	if p := os.Getenv("VERIF_ERRSITES"); p != "" {
		return p
	}
	exe, err := os.Executable()
	if err != nil {
		return ""
	}
	return filepath.Join(filepath.Dir(exe), "..", "lean", "Iso8583", "Gen", "ErrorSites.tsv")
}

func loadSiteTable() *siteTable {
	st := &siteTable{path: tablePath()}
	b, err := os.ReadFile(st.path)
	if err != nil {
		return st
	}
	st.loaded = true
	for _, ln := range strings.Split(string(b), "\n") {
		t := strings.Split(ln, "\t")
		if len(t) < 5 || t[3] == "true" {
			continue
		}
		tm := &siteTmpl{site: t[0], fn: t[1], kind: t[2]}
		hasLit := false
		var re strings.Builder
		re.WriteString("(?s)^")
		for _, ps := range strings.Split(t[4], "\x1f") {
			if len(ps) < 2 {
				continue
			}
			body, err := strconv.Unquote(ps[1:])
			if err != nil {
				continue
			}
			switch ps[0] {
			case 'L':
				tm.parts = append(tm.parts, tmplPart{kind: 'L', text: body})
				re.WriteString(regexp.QuoteMeta(body))
				if len(tm.parts) == 1 {
					tm.prefix = body
				}
				hasLit = true
			case 'W':
				tm.parts = append(tm.parts, tmplPart{kind: 'W', verb: body})
				re.WriteString("(.*)")
			case 'A':
				f := strings.Split(body, "|")
				p := tmplPart{kind: 'A', verb: f[0]}
				if len(f) >= 3 {
					p.cls = f[1]
					p.bound, _ = strconv.Atoi(f[2])
				}
				tm.parts = append(tm.parts, p)
				if strings.HasSuffix(p.verb, "d") {
					re.WriteString(`(-?\d+)`)
				} else {
					re.WriteString("(.*?)")
				}
			}
		}
		re.WriteString("$")
		if !hasLit {
			continue // pass-through rows and wrapper structs add no text of their own
		}
		rx, err := regexp.Compile(re.String())
		if err != nil {
			continue
		}
		tm.re = rx
		st.tmpls = append(st.tmpls, tm)
	}
	// encoding/json wraps the error of a MarshalJSON method
	st.tmpls = append(st.tmpls, &siteTmpl{site: "encoding/json", fn: "json.Marshal", kind: "foreign",
		parts:  []tmplPart{{kind: 'L', text: "json: error calling MarshalJSON for type "}, {kind: 'A', verb: "%s", cls: "spec"}, {kind: 'L', text: ": "}, {kind: 'W', verb: "%w"}},
		re:     regexp.MustCompile(`(?s)^json: error calling MarshalJSON for type (.*?): (.*)$`),
		prefix: "json: error calling MarshalJSON for type "})
	return st
}

// explain: is the text the rendering of a chain of site templates (with foreign errors at
// the leaves)? Returns the interpolated pieces with their classes.
func (st *siteTable) explain(text string, depth int) ([]leaf, bool) {
	return st.explainFrom(text, depth, nil)
}

func (st *siteTable) explainFrom(text string, depth int, parent *siteTmpl) ([]leaf, bool) {
	if depth > 12 {
		return nil, false
	}
	for _, tm := range st.tmpls {
		if tm.prefix != "" && !strings.HasPrefix(text, tm.prefix) {
			continue
		}
		m := tm.re.FindStringSubmatch(text)
		if m == nil {
			continue
		}
		var leaves []leaf
		ok := true
		gi := 1
		for _, p := range tm.parts {
			switch p.kind {
			case 'A':
				leaves = append(leaves, leaf{site: tm.site, fn: tm.fn, cls: p.cls, bound: p.bound, text: m[gi]})
				gi++
			case 'W':
				sub, subOK := st.explainFrom(m[gi], depth+1, tm)
				if !subOK {
					ok = false
				}
				leaves = append(leaves, sub...)
				gi++
			}
			if !ok {
				break
			}
		}
		if ok {
			return leaves, true
		}
	}
	for _, rx := range foreignLeaf {
		if rx.MatchString(text) {
			// attribute a foreign error to the template that interpolates it and to its producer (text up to the first ':')
			who := text
			if i := strings.IndexAny(who, ": "); i > 0 {
				who = who[:i]
			}
			lf := leaf{site: "foreign", fn: "→" + who, cls: "foreign", text: text}
			if parent != nil {
				lf.site, lf.fn = parent.site, parent.fn+"→"+who
			}
			return []leaf{lf}, true
		}
	}
	return nil, false
}

// printable: error texts can carry arbitrary bytes; the report lines must be valid UTF-8 text
func printable(s string) string {
	var sb strings.Builder
	for i := 0; i < len(s); i++ {
		c := s[i]
		if c >= 0x20 && c < 0x7F {
			sb.WriteByte(c)
		} else {
			fmt.Fprintf(&sb, "\\x%02x", c)
		}
	}
	return sb.String()
}

// ---------------------------------------------------------------- (a) errors

func runErrorLeaks(t gen.Tier, seed uint64, rep *Reporter) {
	st := loadSiteTable()
	n := t.N(600, 12000)
	unmatched, unmatchedDistinct := 0, map[string]struct{}{}
	errs, ops, panics, rawChecked := 0, 0, 0, 0
	classes := map[string]int{}
	texts := map[string]struct{}{}
	overBound := 0
	for i := 0; i < n; i++ {
		var c *impl.LeakCase
		replay := fmt.Sprintf("X errleak %d %d", seed, i)
		safely(rep, replay, func() { c = impl.LeakScenario(seed, i) })
		if c == nil {
			continue
		}
		ops += c.Ops
		classes[c.Class]++
		for _, o := range c.Obs {
			if o.Panic {
				panics++
				continue
			}
			errs++
			key := ""
			if _, seen := texts[o.Text]; !seen {
				texts[o.Text] = struct{}{}
				key = o.Text
			}
			rep.Case(key)
			k, how := impl.FindLeak(o.Text, c.Secrets)
			var leaves []leaf
			explained := true
			if st.loaded && key != "" || k >= 8 {
				leaves, explained = st.explain(o.Text, 0)
			}
			if st.loaded && !explained {
				unmatched++
				if _, seen := unmatchedDistinct[o.Text]; !seen && len(unmatchedDistinct) < 2000 {
					unmatchedDistinct[o.Text] = struct{}{}
					if len(unmatchedDistinct) <= 3 {
						rep.Sample("unmatched error text (no chain of site templates explains it): " + printable(o.Text) + "  [" + c.Desc + " | " + o.Op + "]")
					}
				}
			}
			// a piece explained by a bounded class must respect the bound (cross-check of the hand-written classes)
			for _, lf := range leaves {
				if lf.cls == "len" || lf.cls == "spec" || lf.cls == "key" {
					if kk, _ := impl.FindLeak(lf.text, c.Secrets); kk >= 8 {
						overBound++
						rep.Viol("an insertion classified "+lf.cls+" carries a secret (site "+lf.site+" "+lf.fn+")", replay+" site="+lf.site, printable(o.Text))
					}
				}
			}
			if k >= 8 {
				site := "unmatched"
				for _, lf := range leaves {
					if kk, _ := impl.FindLeak(lf.text, c.Secrets); kk >= 8 {
						site = strings.SplitN(lf.site, ":", 2)[0] + ":" + lf.fn
						break
					}
				}
				rep.Viol("an error text contains 8 or more consecutive units of a secret field value (site "+site+")",
					replay+" site="+site,
					printable(fmt.Sprintf("%d units | %s | %s | %s | error text: %s", k, c.Desc, o.Op, how, o.Text)))
			}
		}
	}
	// UnpackError: the raw input is available through RawMessage (and only there)
	{
		m := iso8583.NewMessage(iso8583.Spec87)
		raw := []byte("0100" + "7000000000000000" + "16" + "4000340000000506" + "00")
		err := m.Unpack(raw)
		var ue *iso8583errors.UnpackError
		if err != nil && errors.As(err, &ue) {
			rawChecked++
			if !bytes.Equal(ue.RawMessage, raw) {
				rep.Viol("UnpackError.RawMessage is not the input", "X errleak raw", fmt.Sprintf("%x", ue.RawMessage))
			}
			if strings.Contains(err.Error(), "4000340000000506") {
				rep.Viol("UnpackError text contains the PAN", "X errleak raw", err.Error())
			}
		}
	}
	rep.Stat("error_scenarios", n)
	rep.Stat("error_operations", ops)
	rep.Stat("error_texts", errs)
	rep.Stat("error_texts_distinct", len(texts))
	rep.Stat("error_texts_unmatched", unmatched)
	rep.Stat("error_texts_unmatched_distinct", len(unmatchedDistinct))
	rep.Stat("panics_in_scenarios", panics)
	rep.Stat("site_templates", len(st.tmpls))
	if !st.loaded {
		rep.Stat("site_table_missing", 1)
	}
	i := 0
	for k, v := range classes {
		if i < 400 {
			rep.Stat("class "+k, v)
		}
		i++
	}
	rep.Stat("scenario_classes", len(classes))
}

// ---------------------------------------------------------------- (b) Describe

type descCase struct {
	name string
	spec *iso8583.MessageSpec
}

func generatedDescribeSpec(r *gen.Rng) *iso8583.MessageSpec {
	panEnc := gen.Pick(r, []encoding.Encoder{encoding.ASCII, encoding.EBCDIC, encoding.BCD, encoding.EBCDIC1047})
	panPref := gen.Pick(r, []prefix.Prefixer{prefix.ASCII.LL, prefix.BCD.LL, prefix.EBCDIC.LL, prefix.Binary.L})
	t2 := &field.Spec{Length: 37, Description: "Track 2 Data", Enc: encoding.ASCII, Pref: prefix.ASCII.LL}
	switch r.Intn(4) {
	case 0:
		t2 = &field.Spec{Length: 40, Description: "Track 2 Data", Enc: encoding.EBCDIC, Pref: prefix.EBCDIC.LL, Pad: padding.Right(' ')}
	case 1:
		// a track field that holds well-formed track data but can not be packed by its own
		// spec ('=' / 'D' are not BCD digits; odd lengths are not hex): the filter must still mask
		t2 = &field.Spec{Length: 37, Description: "Track 2 Data", Enc: encoding.BCD, Pref: prefix.BCD.LL}
		if r.Intn(2) == 0 {
			t2 = &field.Spec{Length: 37, Description: "Track 2 Data", Enc: encoding.ASCIIHexToBytes, Pref: prefix.Binary.L}
		}
	}
	return &iso8583.MessageSpec{Name: "generated", Fields: map[int]field.Field{
		0: field.NewString(&field.Spec{Length: 4, Description: "MTI", Enc: encoding.ASCII, Pref: prefix.ASCII.Fixed}),
		1: field.NewBitmap(&field.Spec{Length: 8, Description: "Bitmap", Enc: encoding.Binary, Pref: prefix.Binary.Fixed}),
		2: field.NewString(&field.Spec{Length: 19, Description: "Primary Account Number", Enc: panEnc, Pref: panPref}),
		// composites before and between the sensitive fields: describing them must not change how the
		// fields after them are filtered
		3: field.NewComposite(&field.Spec{Length: 6, Description: "Processing Code", Pref: prefix.ASCII.Fixed, Tag: &field.TagSpec{Sort: sort.StringsByInt},
			Subfields: map[string]field.Field{
				"1": field.NewString(&field.Spec{Length: 2, Description: "Transaction Type", Enc: encoding.ASCII, Pref: prefix.ASCII.Fixed}),
				"2": field.NewString(&field.Spec{Length: 2, Description: "From Account", Enc: encoding.ASCII, Pref: prefix.ASCII.Fixed}),
				"3": field.NewString(&field.Spec{Length: 2, Description: "To Account", Enc: encoding.ASCII, Pref: prefix.ASCII.Fixed}),
			}}),
		20: field.NewString(&field.Spec{Length: 19, Description: "PAN Extended", Enc: encoding.ASCII, Pref: prefix.ASCII.LL}),
		40: field.NewComposite(&field.Spec{Length: 30, Description: "Additional", Pref: prefix.ASCII.LL, Tag: &field.TagSpec{Length: 2, Enc: encoding.ASCII, Sort: sort.StringsByInt},
			Subfields: map[string]field.Field{
				"01": field.NewString(&field.Spec{Length: 9, Description: "A", Enc: encoding.ASCII, Pref: prefix.ASCII.LL}),
				"02": field.NewString(&field.Spec{Length: 9, Description: "B", Enc: encoding.ASCII, Pref: prefix.ASCII.LL}),
			}}),
		35: field.NewTrack2(t2),
		36: field.NewTrack3(&field.Spec{Length: 104, Description: "Track 3 Data", Enc: encoding.ASCII, Pref: prefix.ASCII.LLL}),
		45: field.NewTrack1(&field.Spec{Length: 76, Description: "Track 1 Data", Enc: encoding.ASCII, Pref: prefix.ASCII.LL}),
		52: field.NewBinary(&field.Spec{Length: 8, Description: "PIN Data", Enc: encoding.Binary, Pref: prefix.Binary.Fixed}),
	}}
}

func fieldLine(out, id string) (string, bool) {
	for _, ln := range strings.Split(out, "\n") {
		if strings.HasPrefix(ln, "F"+id+" ") || strings.HasPrefix(ln, "F"+id+".") {
			if i := strings.Index(ln, ": "); i >= 0 {
				return ln[i+2:], true
			}
		}
	}
	return "", false
}

// hiddenRun: does s contain a piece of pan that the mask must hide (any run of 5 characters)?
func hiddenRun(s string, pan []byte) (string, bool) {
	for i := 0; i+5 <= len(pan); i++ {
		if strings.Contains(s, string(pan[i:i+5])) {
			return string(pan[i : i+5]), true
		}
	}
	return "", false
}

func runDescribe(t gen.Tier, r *gen.Rng, seed uint64, rep *Reporter) {
	n := t.N(300, 6000)
	failOpen := 0
	for i := 0; i < n; i++ {
		var dc descCase
		switch i % 4 {
		case 0:
			dc = descCase{"Spec87", iso8583.Spec87}
		case 1:
			dc = descCase{"Spec87ASCII", specs.Spec87ASCII}
		case 2:
			dc = descCase{"Spec87Hex", specs.Spec87Hex}
		default:
			dc = descCase{"generated", generatedDescribeSpec(r)}
		}
		panLen := 12 + r.Intn(8)
		pan := gen.Digits(r, panLen)
		pan[0] = "3456"[r.Intn(4)]
		tpan2 := gen.Digits(r, 12+r.Intn(8))
		tpan1 := gen.Digits(r, 12+r.Intn(8))
		tpan3 := gen.Digits(r, 12+r.Intn(8))
		sep := gen.Pick(r, []string{"=", "D"})
		exp := fmt.Sprintf("%02d%02d", r.Intn(100), 1+r.Intn(12))
		// discretionary data in letters only, so that a digit run in the output can only come from a PAN
		dd := string(r.From([]byte("ABCDEFXYZ"), 1+r.Intn(8)))
		track2 := string(tpan2) + sep + exp + "101" + dd
		track1 := "B" + string(tpan1) + "^DOE/JOHN^" + exp + "101" + dd
		track3 := "01" + string(tpan3) + "=" + dd
		pin := r.Bytes(8)
		pinHex := strings.ToUpper(hex.EncodeToString(pin))
		recipe := fmt.Sprintf("X describe-oracle seed=%d case=%d spec=%s pan=%s track2=%s track1=%s track3=%s pin=%s", seed, i, dc.name, pan, track2, track1, track3, pinHex)
		safely(rep, recipe, func() {
			m := iso8583.NewMessage(dc.spec)
			m.MTI("0200")
			must := func(err error) bool { return err == nil }
			ok := must(m.Field(2, string(pan))) && must(m.Field(35, track2)) && must(m.Field(36, track3)) && must(m.Field(45, track1))
			if _, isBin := m.GetField(52).(*field.Binary); isBin {
				ok = ok && must(m.BinaryField(52, pin))
			} else {
				ok = ok && must(m.Field(52, pinHex))
			}
			if !ok {
				rep.Case("")
				return
			}
			if _, has := dc.spec.Fields[3].(*field.Composite); has && dc.name == "generated" && i%3 != 0 {
				_ = m.Field(3, "001020")
				_ = m.Field(40, "0102AB0201C")
			}
			// half of the time describe the message as a receiver sees it (after Pack → Unpack)
			if i%2 == 1 && dc.name != "Spec87" && dc.name != "Spec87ASCII" && dc.name != "Spec87Hex" {
				if w, err := m.Pack(); err == nil {
					m2 := iso8583.NewMessage(dc.spec)
					if m2.Unpack(w) == nil {
						m = m2
					}
				}
			}
			if i%5 == 0 {
				// an application that edits the filter list it was handed (say, for a debug dump of
				// other fields) edits its own copy: the defaults of the next Describe stay the defaults
				fl := iso8583.DefaultFilters()
				for k := range fl {
					fl[k] = iso8583.FilterField(strconv.Itoa(900+k), iso8583.NoOpFilter)
				}
			}
			var buf bytes.Buffer
			_ = iso8583.Describe(m, &buf)
			out := buf.String()
			rep.Case(fmt.Sprintf("%s/%d/%s", dc.name, panLen, sep))
			if i < 2 {
				if l, ok := fieldLine(out, "2"); ok {
					rep.Sample(fmt.Sprintf("Describe %s: PAN %s is printed as %q; track2 line %q", dc.name, pan, l, func() string { s, _ := fieldLine(out, "35"); return s }()))
				}
			}
			// field 2: exactly first four + mask + last four
			if l, ok := fieldLine(out, "2"); !ok || l != string(pan[:4])+"****"+string(pan[panLen-4:]) {
				rep.Viol("Describe prints field 2 (PAN) with more than the first/last four characters visible", recipe, fmt.Sprintf("F2 line value %q for PAN %s", l, pan))
			}
			mask := func(p []byte) string { return string(p[:4]) + "****" + string(p[len(p)-4:]) }
			for _, tr := range []struct {
				id       string
				pan      []byte
				pre, suf string
			}{{"35", tpan2, "", sep + exp + "101" + dd}, {"45", tpan1, "B", "^DOE/JOHN^" + exp + "101" + dd}, {"36", tpan3, "01", "=" + dd}} {
				l, ok := fieldLine(out, tr.id)
				if !ok {
					rep.Viol("Describe prints no line for field "+tr.id, recipe, out)
					continue
				}
				if l == tr.pre+mask(tr.pan)+tr.suf {
					continue // exactly the masked form
				}
				// some other rendering: whatever stands where the account number was must not show a hidden run
				rest := strings.Replace(strings.TrimPrefix(l, tr.pre), tr.suf, "", 1)
				if run, bad := hiddenRun(rest, tr.pan); bad {
					rep.Viol("Describe prints track data of field "+tr.id+" with a hidden part of the PAN visible", recipe, fmt.Sprintf("F%s line value %q shows %q of PAN %s", tr.id, l, run, tr.pan))
				}
			}
			if l, ok := fieldLine(out, "52"); !ok || l != pinHex[:2]+"****"+pinHex[14:] {
				rep.Viol("Describe prints field 52 (PIN block) with more than the first/last two characters visible", recipe, fmt.Sprintf("F52 line value %q for PIN block %s", l, pinHex))
			}
			// nowhere in the whole output: the full PAN / PIN block
			for _, s := range []string{string(pan), string(tpan1), string(tpan2), string(tpan3), pinHex} {
				if strings.Contains(out, s) {
					rep.Viol("Describe output contains a full PAN / PIN block", recipe, s)
				}
			}
		})
		// outside the grammar of the library's track fields (not a violation, reported): fail-open
		if i%10 == 0 {
			safely(rep, recipe+" fail-open", func() {
				m := iso8583.NewMessage(iso8583.Spec87)
				m.MTI("0200")
				noDD := string(tpan2) + "=" + exp + "101"
				if m.Field(35, noDD) != nil {
					return
				}
				var buf bytes.Buffer
				_ = iso8583.Describe(m, &buf)
				if l, ok := fieldLine(buf.String(), "35"); ok && strings.Contains(l, string(tpan2)) {
					failOpen++
					if failOpen == 1 {
						rep.Sample("observation (outside the track grammar, not counted as a violation): track 2 text without discretionary data in a String field 35 is printed unmasked: " + l)
					}
				}
			})
		}
	}
	rep.Stat("describe_cases", n)
	rep.Stat("describe_fail_open_observed", failOpen)
}

func runC18(t gen.Tier, r *gen.Rng, rep *Reporter) {
	seed := r.U64() % 100000
	runErrorLeaks(t, seed, rep)
	runDescribe(t, r, seed, rep)
}

// linesC18: re-examine `X errleak …` / `X filter …` lines (e.g. a correspondence difference on channel X).
func linesC18(lines []string, rep *Reporter) {
	st := loadSiteTable()
	for _, ln := range lines {
		t := strings.Split(ln, " ")
		switch {
		case len(t) >= 4 && t[0] == "X" && t[1] == "errleak":
			seed, _ := strconv.ParseUint(t[2], 10, 64)
			idx, _ := strconv.Atoi(t[3])
			var c *impl.LeakCase
			safely(rep, ln, func() { c = impl.LeakScenario(seed, idx) })
			if c == nil {
				continue
			}
			for _, o := range c.Obs {
				rep.Case(o.Text)
				if k, how := impl.FindLeak(o.Text, c.Secrets); !o.Panic && k >= 8 {
					site := "unmatched"
					if leaves, ok := st.explain(o.Text, 0); ok {
						for _, lf := range leaves {
							if kk, _ := impl.FindLeak(lf.text, c.Secrets); kk >= 8 {
								site = strings.SplitN(lf.site, ":", 2)[0] + ":" + lf.fn
								break
							}
						}
					}
					rep.Viol("an error text contains 8 or more consecutive units of a secret field value (site "+site+")",
						fmt.Sprintf("X errleak %d %d site=%s", seed, idx, site), printable(fmt.Sprintf("%d units | %s | %s | %s | error text: %s", k, c.Desc, o.Op, how, o.Text)))
				}
			}
		case len(t) == 4 && t[0] == "X" && t[1] == "filter":
			// a filter line on which model and implementation differ: does the implementation's output reveal hidden digits?
			in, ok := impl.UnHex(t[3])
			fn, ok2 := impl.FilterFuncs[t[2]]
			if !ok || !ok2 {
				continue
			}
			safely(rep, ln, func() {
				out := fn(string(in), impl.CarrierField(string(in)))
				rep.Case(ln)
				// the longest digit run of the input is taken as the account number
				best := ""
				cur := ""
				for _, ch := range string(in) + "x" {
					if ch >= '0' && ch <= '9' {
						cur += string(ch)
					} else {
						if len(cur) > len(best) {
							best = cur
						}
						cur = ""
					}
				}
				if t[2] != "NoOpFilter" && t[2] != "EMVFilter" && t[2] != "PINFilter" && len(best) >= 12 && len(best) <= 19 {
					if run, bad := hiddenRun(out, []byte(best[4:len(best)-4])); bad && len(best) >= 13 {
						rep.Viol(t[2]+" output shows a hidden part of the account number", ln, fmt.Sprintf("output %q shows %q of %s", out, run, best))
					}
				}
			})
		}
	}
}
