package oracle

// C13 — dynamic half. Builds harness/racer with `go build -race` against the same /repo
// the harness is built against (the `replace` line of harness/go.mod), runs random
// concurrent histories on one shared message and one shared composite, and reports
//
//	data race                 the race detector reported during a history
//	runtime map fault         the process died with `fatal error: concurrent map …`
//	deadlock (timeout)        the goroutines of a history did not finish
//	non-linearizable history  no sequential order of the real library explains the outputs
//
// each with the seed and operation mix as the replay text. It supports the tie and the
// search for a failing schedule; it proves nothing (see lean/Iso8583/Props/C13.lean).

import (
	"bufio"
	"bytes"
	"context"
	"fmt"
	"os"
	"os/exec"
	"path/filepath"
	"regexp"
	"strconv"
	"strings"
	"time"

	"verif/harness/gen"
)

func init() {
	Registry["C13"] = &Oracle{Run: runC13, Lines: linesC13}
}

func verifRoot() string {
	if v := os.Getenv("VERIF"); v != "" {
		return v
	}
	if exe, err := os.Executable(); err == nil {
		if p, err := filepath.EvalSymlinks(exe); err == nil {
			exe = p
		}
		return filepath.Dir(filepath.Dir(exe)) // <root>/bin/drive-go
	}
	return "/verif"
}

func goEnv(extra ...string) []string {
	env := []string{}
	for _, e := range os.Environ() {
		if !strings.HasPrefix(e, "GOFLAGS=") && !strings.HasPrefix(e, "GOPROXY=") && !strings.HasPrefix(e, "GORACE=") {
			env = append(env, e)
		}
	}
	return append(append(env, "GOFLAGS=-mod=mod", "GOPROXY=off"), extra...)
}

func buildRacer(root string) (string, error) {
	work := filepath.Join(root, "work")
	if err := os.MkdirAll(work, 0o755); err != nil {
		return "", err
	}
	bin := filepath.Join(work, "racer")
	args := []string{"build", "-race"}
	if mf := os.Getenv("VERIF_MODFILE"); mf != "" {
		args = append(args, "-modfile="+mf) // the same library tree bin/check built the harness against
	}
	args = append(args, "-o", bin, "./racer")
	cmd := exec.Command("go", args...)
	cmd.Dir = filepath.Join(root, "harness")
	cmd.Env = goEnv()
	out, err := cmd.CombinedOutput()
	if err != nil {
		return "", fmt.Errorf("go build -race ./racer: %v: %s", err, out)
	}
	return bin, nil
}

type racerStats struct {
	histories, ops, nontrivial, checked, unknown int
	races, timeouts, nonlin, faults, otherDeaths int
}

// runRacer runs histories [from, from+n) of one mode, restarting after a fatal fault
func runRacer(rep *Reporter, bin, root, mode string, seed uint64, from, n, repeat, timeoutMs int, budget time.Duration, st *racerStats) {
	logPrefix := filepath.Join(root, "work", "race-"+mode+".log")
	end := from + n
	restarts := 0
	deadline := time.Now().Add(budget)
	for from < end && restarts < 6 {
		old, _ := filepath.Glob(logPrefix + ".*")
		for _, f := range old {
			os.Remove(f)
		}
		ctx, cancel := context.WithDeadline(context.Background(), deadline)
		cmd := exec.CommandContext(ctx, bin, "-mode", mode, "-seed", strconv.FormatUint(seed, 10), "-from", strconv.Itoa(from),
			"-n", strconv.Itoa(end-from), "-repeat", strconv.Itoa(repeat), "-timeout", strconv.Itoa(timeoutMs), "-racelog", logPrefix)
		cmd.Env = goEnv("GORACE=halt_on_error=0 exitcode=0 log_path=" + logPrefix)
		var stderr bytes.Buffer
		cmd.Stderr = &stderr
		stdout, err := cmd.StdoutPipe()
		if err != nil {
			cancel()
			rep.Viol("racer could not be started", "R "+mode, err.Error())
			return
		}
		if err := cmd.Start(); err != nil {
			cancel()
			rep.Viol("racer could not be started", "R "+mode, err.Error())
			return
		}
		lastIdx, lastMix, open := from-1, "", false
		stopped := false
		sc := bufio.NewScanner(stdout)
		sc.Buffer(make([]byte, 1<<20), 1<<26)
		for sc.Scan() {
			t := strings.Split(sc.Text(), "\t")
			switch {
			case t[0] == "BEGIN" && len(t) >= 3:
				lastIdx, _ = strconv.Atoi(t[1])
				lastMix, open = t[2], true
			case t[0] == "END" && len(t) >= 5:
				open = false
				st.histories++
				nops, _ := strconv.Atoi(t[3])
				nt, _ := strconv.Atoi(t[4])
				st.ops += nops
				st.nontrivial += nt
				key := ""
				if nt > 0 || t[2] == "raced-only" {
					key = lastMix
				}
				rep.Case(key)
				switch t[2] {
				case "ok":
					st.checked++
				case "unknown":
					st.unknown++
				}
				if st.histories%37 == 1 {
					rep.Sample(lastMix + " => " + t[2])
				}
			case t[0] == "RACE" && len(t) >= 3:
				st.races++
				d := ""
				if len(t) > 3 {
					d = t[3]
				}
				rep.Viol("data race", t[2], "race detector: "+d)
			case t[0] == "TIMEOUT" && len(t) >= 3:
				st.timeouts++
				rep.Viol("deadlock (timeout)", t[2], fmt.Sprintf("the goroutines of this history did not finish within %d ms", timeoutMs))
			case t[0] == "NONLIN" && len(t) >= 3:
				st.nonlin++
				d := ""
				if len(t) > 3 {
					d = t[3]
				}
				rep.Viol("non-linearizable history", t[2], "no sequential order of the calls consistent with real time reproduces the recorded outputs: "+d)
			case t[0] == "STOP":
				stopped = true
			}
		}
		werr := cmd.Wait()
		cancel()
		if stopped {
			return
		}
		if werr == nil {
			return
		}
		// the process died: fatal error (concurrent map access), deadline, or something else
		es := stderr.String()
		switch {
		case strings.Contains(es, "fatal error: concurrent map"):
			st.faults++
			rep.Viol("runtime map fault", lastMix, firstLines(es[strings.Index(es, "fatal error: concurrent map"):], 1)+" "+faultFrames(es))
		case time.Now().After(deadline):
			st.timeouts++
			rep.Viol("deadlock (timeout)", lastMix, "the racer process did not finish within its time budget")
			return
		default:
			st.otherDeaths++
			rep.Viol("racer process died", lastMix, firstLines(es, 6))
		}
		if !open {
			lastIdx++
		}
		from = lastIdx + 1
		restarts++
	}
}

func firstLines(s string, n int) string {
	l := strings.Split(strings.TrimSpace(s), "\n")
	if len(l) > n {
		l = l[:n]
	}
	return strings.Join(l, " | ")
}

var frameRe = regexp.MustCompile(`github\.com/moov-io/iso8583[^\s(]*\.\(?\*?\w+\)?\.\w+`)

// faultFrames: the first library frames of the goroutine that hit the fault
func faultFrames(stderr string) string {
	m := frameRe.FindAllString(stderr, 3)
	for i := range m {
		m[i] = m[i][strings.LastIndex(m[i], "/")+1:]
	}
	return "in " + strings.Join(m, " < ")
}

// runAtomic runs the atomicity probes of the racer (mode "atomic", ms milliseconds per probe)
func runAtomic(rep *Reporter, bin string, ms int, st *racerStats) {
	ctx, cancel := context.WithTimeout(context.Background(), time.Duration(ms*12+60000)*time.Millisecond)
	defer cancel()
	cmd := exec.CommandContext(ctx, bin, "-mode", "atomic", "-n", strconv.Itoa(ms))
	cmd.Env = goEnv("GORACE=halt_on_error=0 exitcode=0")
	var stderr bytes.Buffer
	cmd.Stderr = &stderr
	out, err := cmd.Output()
	for _, l := range strings.Split(string(out), "\n") {
		t := strings.Split(l, "\t")
		switch {
		case t[0] == "ATOMIC" && len(t) >= 3:
			st.nonlin++
			rep.Viol("a reader observed a result that no sequential order of the calls produces (atomicity probe)", "R atomic probe="+t[1], t[2])
		case t[0] == "PROBE" && len(t) >= 4:
			st.histories++
			n, _ := strconv.Atoi(t[2])
			st.ops += n
			st.nontrivial += n
			rep.Case("R atomic probe=" + t[1])
		}
	}
	if es := stderr.String(); strings.Contains(es, "WARNING: DATA RACE") {
		st.races++
		rep.Viol("data race", "R atomic", "race detector: "+firstLines(es[strings.Index(es, "WARNING: DATA RACE"):], 8))
	} else if err != nil {
		rep.Viol("racer process died", "R atomic", firstLines(es, 6)+" "+err.Error())
	}
}

func runC13(t gen.Tier, rng *gen.Rng, rep *Reporter) {
	root := verifRoot()
	t0 := time.Now()
	bin, err := buildRacer(root)
	if err != nil {
		rep.Viol("racer does not build against the repository", "R build", err.Error())
		return
	}
	rep.Stat("race_build_ms", int(time.Since(t0).Milliseconds()))
	seed := rng.U64() % 1000000000
	var st racerStats
	runRacer(rep, bin, root, "message", seed, 0, t.N(100, 3000), 1, 5000, time.Duration(t.N(90, 900))*time.Second, &st)
	rep.Stat("histories_message", st.histories)
	hm := st.histories
	runRacer(rep, bin, root, "composite", seed, 0, t.N(50, 1500), 1, 5000, time.Duration(t.N(60, 600))*time.Second, &st)
	rep.Stat("histories_composite", st.histories-hm)
	hc := st.histories
	runRacer(rep, bin, root, "bcomposite", seed, 0, t.N(40, 1200), 1, 5000, time.Duration(t.N(60, 600))*time.Second, &st)
	rep.Stat("histories_bitmapped_composite", st.histories-hc)
	runAtomic(rep, bin, t.N(700, 8000), &st)
	// with one goroutine the only sequential order is the program order: set, Pack, unset by path, Pack
	// on a bitmapped composite gives the encoding of the remaining subfields
	compRepackSweep(rep, rng, t.N(150, 3000))
	rep.Stat("operations", st.ops)
	rep.Stat("operations_with_result", st.nontrivial)
	rep.Stat("histories_checked_linearizable", st.checked)
	rep.Stat("histories_search_inconclusive", st.unknown)
	rep.Stat("data_races", st.races)
	rep.Stat("map_faults", st.faults)
	rep.Stat("deadlocks", st.timeouts)
	rep.Stat("non_linearizable", st.nonlin)
}

var replayRe = regexp.MustCompile(`^R (message|composite|bcomposite) seed=(\d+) hist=(\d+)`)

// linesC13 re-runs the histories named by replay lines, 200 times each
func linesC13(lines []string, rep *Reporter) {
	root := verifRoot()
	bin, err := buildRacer(root)
	if err != nil {
		rep.Viol("racer does not build against the repository", "R build", err.Error())
		return
	}
	for _, l := range lines {
		if strings.HasPrefix(l, "R atomic") {
			var st racerStats
			runAtomic(rep, bin, 3000, &st)
			continue
		}
		m := replayRe.FindStringSubmatch(l)
		if m == nil {
			continue
		}
		seed, _ := strconv.ParseUint(m[2], 10, 64)
		idx, _ := strconv.Atoi(m[3])
		var st racerStats
		runRacer(rep, bin, root, m[1], seed, idx, 1, 200, 3000, 120*time.Second, &st)
	}
}
