// Command racer is the dynamic half of C13. It is built by the C13 oracle with
// `go build -race` (the race detector needs its own binary) and runs k >= 2 goroutines
// issuing random mixes of the synchronized operations on ONE shared message (mode
// "message") or ONE shared composite (mode "composite").
//
// History i is a pure function of (mode, seed, i). Three styles alternate:
//
//	i%3 == 0  free-running, no stamps: nothing but the library synchronizes the goroutines,
//	          so the race detector sees every unordered pair of accesses (race hunting only);
//	i%3 == 1  stamped, the goroutines meet at a barrier before every operation (maximal overlap);
//	i%3 == 2  stamped, free-running.
//
// In the stamped styles every operation's invocation and return are stamped with one global
// atomic counter and its output is recorded (Pack bytes, key sets, JSON text, ok/err); the
// history is then checked for linearizability with porcupine against the sequential
// behaviour of the real library (a candidate order is replayed on a fresh object).
//
// Output (stdout, one line each, flushed): BEGIN i mix / END i verdict, and
// RACE i mix        the race detector's log grew during history i
// TIMEOUT i mix     the goroutines did not finish (deadlock)
// NONLIN i mix :: history    no sequential order explains the recorded outputs
// A `fatal error: concurrent map …` kills the process; the oracle reads the last BEGIN.
package main

import (
	"encoding/hex"
	"flag"
	"fmt"
	"os"
	"sort"
	"strings"
	"sync"
	"sync/atomic"
	"time"

	"github.com/anishathalye/porcupine"
	"github.com/moov-io/iso8583"
	"github.com/moov-io/iso8583/encoding"
	"github.com/moov-io/iso8583/field"
	"github.com/moov-io/iso8583/padding"
	"github.com/moov-io/iso8583/prefix"
	isosort "github.com/moov-io/iso8583/sort"
)

// ---------------------------------------------------------------- spec

func compSpec() *field.Spec {
	return &field.Spec{
		Length: 99, Description: "composite", Pref: prefix.ASCII.LL,
		Tag: &field.TagSpec{Length: 2, Enc: encoding.ASCII, Sort: isosort.StringsByInt},
		Subfields: map[string]field.Field{
			"01": field.NewString(&field.Spec{Length: 9, Description: "sub 1", Enc: encoding.ASCII, Pref: prefix.ASCII.LL}),
			"02": field.NewString(&field.Spec{Length: 9, Description: "sub 2", Enc: encoding.ASCII, Pref: prefix.ASCII.LL}),
		},
	}
}

// bcompSpec: a composite that locates its subfields with its OWN bitmap (Pack builds and
// resets that bitmap: a "read" that writes guarded state), mode "bcomposite"
func bcompSpec() *field.Spec {
	return &field.Spec{
		Length: 99, Description: "bitmapped composite", Pref: prefix.ASCII.LL,
		Bitmap: field.NewBitmap(&field.Spec{Length: 1, Description: "bitmap", Enc: encoding.BytesToASCIIHex, Pref: prefix.Hex.Fixed, DisableAutoExpand: true}),
		Subfields: map[string]field.Field{
			"1": field.NewString(&field.Spec{Length: 9, Description: "sub 1", Enc: encoding.ASCII, Pref: prefix.ASCII.LL}),
			"2": field.NewString(&field.Spec{Length: 9, Description: "sub 2", Enc: encoding.ASCII, Pref: prefix.ASCII.LL}),
			"7": field.NewString(&field.Spec{Length: 9, Description: "sub 7", Enc: encoding.ASCII, Pref: prefix.ASCII.LL}),
		},
	}
}

// bitmapped is set once, before any goroutine starts, for mode "bcomposite"
var bitmapped bool

type bcompData struct {
	F1 string `index:"1"`
	F2 string `index:"2"`
	F7 string `index:"7"`
}

var msgSpec = &iso8583.MessageSpec{
	Name: "racer",
	Fields: map[int]field.Field{
		0:  field.NewString(&field.Spec{Length: 4, Description: "MTI", Enc: encoding.ASCII, Pref: prefix.ASCII.Fixed}),
		1:  field.NewBitmap(&field.Spec{Description: "Bitmap", Enc: encoding.Binary, Pref: prefix.Binary.Fixed}),
		2:  field.NewString(&field.Spec{Length: 10, Description: "string", Enc: encoding.ASCII, Pref: prefix.ASCII.LL}),
		3:  field.NewNumeric(&field.Spec{Length: 6, Description: "numeric", Enc: encoding.ASCII, Pref: prefix.ASCII.Fixed, Pad: padding.Left('0')}),
		4:  field.NewComposite(compSpec()),
		70: field.NewString(&field.Spec{Length: 3, Description: "second block", Enc: encoding.ASCII, Pref: prefix.ASCII.Fixed}),
	},
}

type compData struct {
	F1 string `index:"01"`
	F2 string `index:"02"`
}

type msgData struct {
	F0  string    `index:"0"`
	F2  string    `index:"2"`
	F3  int64     `index:"3"`
	F4  *compData `index:"4"`
	F70 string    `index:"70"`
}

// ---------------------------------------------------------------- operations

type Op struct {
	Kind string
	ID   int
	Val  string
}

func (o Op) String() string {
	switch o.Kind {
	case "Field", "BinaryField":
		return fmt.Sprintf("%s(%d,%q)", o.Kind, o.ID, o.Val)
	case "UnsetField":
		return fmt.Sprintf("%s(%d)", o.Kind, o.ID)
	case "MTI", "Marshal", "Unpack", "UnmarshalJSON", "UnsetFields", "SetBytes", "UnsetSubfield", "UnsetSubfields":
		return fmt.Sprintf("%s(%q)", o.Kind, o.Val)
	}
	return o.Kind
}

func errStr(err error) string {
	if err != nil {
		return "err"
	}
	return "ok"
}

func bytesOut(b []byte, err error) string {
	if err != nil {
		return "err"
	}
	return "ok " + hex.EncodeToString(b)
}

func marshalArg(v string) *msgData {
	p := strings.Split(v, "|")
	for len(p) < 5 {
		p = append(p, "")
	}
	d := &msgData{F0: p[0], F2: p[1], F70: p[4]}
	fmt.Sscan(p[2], &d.F3)
	if p[3] != "" {
		q := strings.SplitN(p[3], ",", 2)
		for len(q) < 2 {
			q = append(q, "")
		}
		d.F4 = &compData{F1: q[0], F2: q[1]}
	}
	return d
}

func keys[K comparable, V any](m map[K]V) string {
	ks := make([]string, 0, len(m))
	for k := range m {
		ks = append(ks, fmt.Sprint(k))
	}
	sort.Strings(ks)
	return strings.Join(ks, ",")
}

func applyMessage(m *iso8583.Message, o Op) (out string) {
	defer func() {
		if x := recover(); x != nil {
			out = "panic"
		}
	}()
	switch o.Kind {
	case "MTI":
		m.MTI(o.Val)
		return "ok"
	case "Field":
		return errStr(m.Field(o.ID, o.Val))
	case "BinaryField":
		return errStr(m.BinaryField(o.ID, []byte(o.Val)))
	case "Marshal":
		return errStr(m.Marshal(marshalArg(o.Val)))
	case "Unmarshal":
		d := &msgData{}
		if err := m.Unmarshal(d); err != nil {
			return "err"
		}
		c := "-"
		if d.F4 != nil {
			c = d.F4.F1 + "," + d.F4.F2
		}
		return fmt.Sprintf("ok %q %q %d %q %q", d.F0, d.F2, d.F3, c, d.F70)
	case "Pack":
		return bytesOut(m.Pack())
	case "Unpack":
		b, _ := hex.DecodeString(o.Val)
		return errStr(m.Unpack(b))
	case "MarshalJSON":
		return bytesOut(m.MarshalJSON())
	case "UnmarshalJSON":
		return errStr(m.UnmarshalJSON([]byte(o.Val)))
	case "GetFields":
		return "ok " + keys(m.GetFields())
	case "Bitmap":
		if m.Bitmap() == nil {
			return "nil"
		}
		return "ok"
	case "Clone":
		c, err := m.Clone()
		if err != nil {
			return "err"
		}
		return bytesOut(c.Pack())
	case "UnsetField":
		m.UnsetField(o.ID)
		return "ok"
	case "UnsetFields":
		return errStr(m.UnsetFields(strings.Split(o.Val, " ")...))
	}
	return "bad-op"
}

func applyComposite(c *field.Composite, o Op) (out string) {
	defer func() {
		if x := recover(); x != nil {
			out = "panic"
		}
	}()
	switch o.Kind {
	case "Marshal":
		q := strings.SplitN(o.Val, ",", 2)
		for len(q) < 2 {
			q = append(q, "")
		}
		if bitmapped {
			return errStr(c.Marshal(&bcompData{F1: q[0], F2: q[1], F7: q[0]}))
		}
		return errStr(c.Marshal(&compData{F1: q[0], F2: q[1]}))
	case "Unmarshal":
		if bitmapped {
			d := &bcompData{}
			if err := c.Unmarshal(d); err != nil {
				return "err"
			}
			return fmt.Sprintf("ok %q %q %q", d.F1, d.F2, d.F7)
		}
		d := &compData{}
		if err := c.Unmarshal(d); err != nil {
			return "err"
		}
		return fmt.Sprintf("ok %q %q", d.F1, d.F2)
	case "Pack":
		return bytesOut(c.Pack())
	case "Unpack":
		n, err := c.Unpack([]byte(o.Val))
		if err != nil {
			return "err"
		}
		return fmt.Sprint("ok ", n)
	case "SetBytes":
		return errStr(c.SetBytes([]byte(o.Val)))
	case "Bytes":
		return bytesOut(c.Bytes())
	case "String":
		s, err := c.String()
		if err != nil {
			return "err"
		}
		return "ok " + s
	case "MarshalJSON":
		return bytesOut(c.MarshalJSON())
	case "UnmarshalJSON":
		return errStr(c.UnmarshalJSON([]byte(o.Val)))
	case "GetSubfields":
		return "ok " + keys(c.GetSubfields())
	case "UnsetSubfield":
		c.UnsetSubfield(o.Val)
		return "ok"
	case "UnsetSubfields":
		return errStr(c.UnsetSubfields(strings.Split(o.Val, " ")...))
	}
	return "bad-op"
}

// object under test: one shared message or one shared composite
type object struct {
	m *iso8583.Message
	c *field.Composite
}

func newObject(mode string) *object {
	if mode == "composite" {
		return &object{c: field.NewComposite(compSpec())}
	}
	if mode == "bcomposite" {
		return &object{c: field.NewComposite(bcompSpec())}
	}
	return &object{m: iso8583.NewMessage(msgSpec)}
}

func (o *object) apply(op Op) string {
	if o.c != nil {
		return applyComposite(o.c, op)
	}
	return applyMessage(o.m, op)
}

// fingerprint: what later operations can observe of the object (used only to prune the
// linearizability search; a verdict "not linearizable" is re-checked without it)
func (o *object) fingerprint() string {
	if o.c != nil {
		return applyComposite(o.c, Op{Kind: "Pack"}) + applyComposite(o.c, Op{Kind: "GetSubfields"}) + applyComposite(o.c, Op{Kind: "Unmarshal"})
	}
	var sb strings.Builder
	sb.WriteString(applyMessage(o.m, Op{Kind: "Pack"}))
	sb.WriteString(applyMessage(o.m, Op{Kind: "GetFields"}))
	for _, id := range []int{0, 2, 3, 4, 70} {
		b, err := o.m.GetField(id).Bytes()
		sb.WriteString(bytesOut(b, err))
	}
	return sb.String()
}

// ---------------------------------------------------------------- generation

type rng struct{ s uint64 }

func (r *rng) u64() uint64 {
	r.s += 0x9E3779B97F4A7C15
	z := r.s
	z = (z ^ (z >> 30)) * 0xBF58476D1CE4E5B9
	z = (z ^ (z >> 27)) * 0x94D049BB133111EB
	return z ^ (z >> 31)
}
func (r *rng) n(n int) int              { return int(r.u64() % uint64(n)) }
func (r *rng) pick(xs ...string) string { return xs[r.n(len(xs))] }

var samplePacked, sampleJSON []string

func initSamples() {
	for _, v := range []string{"0100|AB|12|x,y|301", "0200|HELLO|0||", "0800||7|q,|", "0110|Z|||077"} {
		m := iso8583.NewMessage(msgSpec)
		if err := m.Marshal(marshalArg(v)); err != nil {
			panic(err)
		}
		b, err := m.Pack()
		if err != nil {
			panic(err)
		}
		samplePacked = append(samplePacked, hex.EncodeToString(b))
		j, err := m.MarshalJSON()
		if err != nil {
			panic(err)
		}
		sampleJSON = append(sampleJSON, string(j))
	}
	samplePacked = append(samplePacked, samplePacked[0][:len(samplePacked[0])-4]) // truncated
	sampleJSON = append(sampleJSON, `{"2":"P","4":{"02":"w"}}`, `{"9":"x"}`)
}

func genMessageOp(r *rng) Op {
	switch r.n(20) {
	case 0:
		return Op{Kind: "MTI", Val: r.pick("0100", "0200", "0810")}
	case 1, 2:
		id := []int{2, 3, 4, 70, 99}[r.n(5)]
		v := map[int][]string{2: {"A", "BC", "HELLO"}, 3: {"42", "123456"}, 4: {"0101a0202bc", "0201z", "01"}, 70: {"301", "001"}, 99: {"x"}}[id]
		return Op{Kind: "Field", ID: id, Val: v[r.n(len(v))]}
	case 3:
		return Op{Kind: "BinaryField", ID: []int{2, 70, 98}[r.n(3)], Val: r.pick("xy", "777")}
	case 4, 5:
		return Op{Kind: "Marshal", Val: r.pick("0100|AB|12|x,y|301", "|Q|||", "0200||5|,k|", "|||m,n|123", "||1234567||")}
	case 6:
		return Op{Kind: "Unmarshal"}
	case 7, 8, 9:
		return Op{Kind: "Pack"}
	case 10:
		return Op{Kind: "Unpack", Val: samplePacked[r.n(len(samplePacked))]}
	case 11:
		return Op{Kind: "MarshalJSON"}
	case 12:
		return Op{Kind: "UnmarshalJSON", Val: sampleJSON[r.n(len(sampleJSON))]}
	case 13, 14:
		return Op{Kind: "GetFields"}
	case 15:
		return Op{Kind: "Bitmap"}
	case 16:
		return Op{Kind: "Clone"}
	case 17:
		return Op{Kind: "UnsetField", ID: []int{2, 3, 4, 70, 1}[r.n(5)]}
	default:
		return Op{Kind: "UnsetFields", Val: r.pick("2", "4.01", "4.02 70", "3 2", "4", "70", "2 3 4.01 70", "x")}
	}
}

// genBCompositeOp: the operations of the property on a bitmapped composite (wire form:
// LL, two hex digits of bitmap, then the announced subfields as LL + text)
func genBCompositeOp(r *rng) Op {
	switch r.n(14) {
	case 0, 1:
		return Op{Kind: "Marshal", Val: r.pick("a,b", "x,", ",yy", "long,er")}
	case 2:
		return Op{Kind: "Unmarshal"}
	case 3, 4, 5:
		return Op{Kind: "Pack"}
	case 6:
		return Op{Kind: "Unpack", Val: r.pick("09C001a02bc", "058001z", "0200", "09")}
	case 7:
		return Op{Kind: "SetBytes", Val: r.pick("C001a02bc", "8001z", "0201q", "01")}
	case 8:
		return Op{Kind: "Bytes"}
	case 9:
		return Op{Kind: "MarshalJSON"}
	case 10:
		return Op{Kind: "UnmarshalJSON", Val: r.pick(`{"1":"j"}`, `{"2":"k","7":"l"}`, `{"5":"x"}`, `{`)}
	case 11:
		return Op{Kind: "GetSubfields"}
	case 12:
		return Op{Kind: "UnsetSubfield", Val: r.pick("1", "2", "7")}
	default:
		return Op{Kind: "UnsetSubfields", Val: r.pick("1", "7", "1 2", "2.1")}
	}
}

func genCompositeOp(r *rng) Op {
	switch r.n(14) {
	case 0, 1:
		return Op{Kind: "Marshal", Val: r.pick("a,b", "x,", ",yy", "long,er")}
	case 2:
		return Op{Kind: "Unmarshal"}
	case 3, 4:
		return Op{Kind: "Pack"}
	case 5:
		return Op{Kind: "Unpack", Val: r.pick("110101a0202bc", "050201z", "00", "09")}
	case 6:
		return Op{Kind: "SetBytes", Val: r.pick("0101a0202bc", "0201z", "", "01")}
	case 7:
		return Op{Kind: "Bytes"}
	case 8:
		return Op{Kind: "String"}
	case 9:
		return Op{Kind: "MarshalJSON"}
	case 10:
		return Op{Kind: "UnmarshalJSON", Val: r.pick(`{"01":"j"}`, `{"02":"k","01":"l"}`, `{"07":"x"}`, `{`)}
	case 11:
		return Op{Kind: "GetSubfields"}
	case 12:
		return Op{Kind: "UnsetSubfield", Val: r.pick("01", "02")}
	default:
		return Op{Kind: "UnsetSubfields", Val: r.pick("01", "02", "01 02", "02.1")}
	}
}

type history struct {
	idx     int
	style   int
	setup   []Op
	threads [][]Op
}

func genHistory(mode string, seed uint64, idx int) history {
	r := &rng{s: seed*0x9E3779B97F4A7C15 + uint64(idx)*0xD1B54A32D192ED03 + uint64(len(mode))}
	gen := genMessageOp
	if mode == "composite" {
		gen = genCompositeOp
	}
	if mode == "bcomposite" {
		gen = genBCompositeOp
	}
	h := history{idx: idx, style: idx % 3}
	if idx%5 == 4 {
		// the entry points that look read-only, on an object nothing has been done to yet (or only the
		// bitmap field was unset): whatever they create lazily is created while several of them run
		readers := map[string][]string{
			"message":    {"Bitmap", "GetFields", "Unmarshal", "Bitmap", "MarshalJSON", "Pack", "Clone"},
			"composite":  {"GetSubfields", "Unmarshal", "MarshalJSON", "Pack", "Bytes", "String"},
			"bcomposite": {"GetSubfields", "Unmarshal", "MarshalJSON", "Pack", "Bytes", "String"},
		}[mode]
		if mode == "message" && r.n(3) == 0 {
			h.setup = append(h.setup, Op{Kind: "UnsetField", ID: 1})
		}
		k := 3 + r.n(2)
		for g := 0; g < k; g++ {
			var ops []Op
			for i := 2 + r.n(3); i > 0; i-- {
				kind := readers[r.n(len(readers))]
				if g < 2 && i == 1 && mode == "message" {
					kind = "Bitmap" // at least two goroutines start with the lazily created bitmap
				}
				ops = append(ops, Op{Kind: kind})
			}
			// the first operation of every goroutine runs at the same moment
			for a, b := 0, len(ops)-1; a < b; a, b = a+1, b-1 {
				ops[a], ops[b] = ops[b], ops[a]
			}
			h.threads = append(h.threads, ops)
		}
		return h
	}
	for i := r.n(3); i > 0; i-- {
		h.setup = append(h.setup, gen(r))
	}
	k := 2 + r.n(3)
	if r.n(4) > 0 {
		k = 3 + r.n(2)
	}
	for g := 0; g < k; g++ {
		var ops []Op
		for i := 3 + r.n(3); i > 0; i-- {
			ops = append(ops, gen(r))
		}
		h.threads = append(h.threads, ops)
	}
	return h
}

func (h history) mix(mode string, seed uint64) string {
	var sb strings.Builder
	fmt.Fprintf(&sb, "R %s seed=%d hist=%d style=%d", mode, seed, h.idx, h.style)
	sb.WriteString(" setup:")
	for i, o := range h.setup {
		if i > 0 {
			sb.WriteString(";")
		}
		sb.WriteString(o.String())
	}
	for g, ops := range h.threads {
		fmt.Fprintf(&sb, " | g%d:", g)
		for i, o := range ops {
			if i > 0 {
				sb.WriteString(";")
			}
			sb.WriteString(o.String())
		}
	}
	return sb.String()
}

// ---------------------------------------------------------------- running one history

type rec struct {
	op        Op
	out       string
	call, ret int64
	g         int
}

var clock atomic.Int64

func runHistory(mode string, h history, timeout time.Duration) (recs []rec, timedOut bool) {
	obj := newObject(mode)
	for _, o := range h.setup {
		obj.apply(o)
	}
	k := len(h.threads)
	out := make([][]rec, k)
	start := make(chan struct{})
	var wg sync.WaitGroup
	var arrived atomic.Int64 // barrier for style 1
	maxOps := 0
	for _, t := range h.threads {
		if len(t) > maxOps {
			maxOps = len(t)
		}
	}
	for g := 0; g < k; g++ {
		wg.Add(1)
		go func(g int) {
			defer wg.Done()
			<-start
			for i := 0; i < maxOps; i++ {
				if h.style == 1 {
					arrived.Add(1)
					deadline := time.Now().Add(timeout)
					for arrived.Load() < int64(k*(i+1)) && time.Now().Before(deadline) {
					}
				}
				if i >= len(h.threads[g]) {
					continue
				}
				op := h.threads[g][i]
				if h.style == 0 {
					obj.apply(op)
					continue
				}
				c := clock.Add(1)
				o := obj.apply(op)
				r := clock.Add(1)
				out[g] = append(out[g], rec{op: op, out: o, call: c, ret: r, g: g})
			}
		}(g)
	}
	done := make(chan struct{})
	go func() { wg.Wait(); close(done) }()
	close(start)
	select {
	case <-done:
	case <-time.After(timeout):
		return nil, true
	}
	for g := range out {
		recs = append(recs, out[g]...)
	}
	return recs, false
}

// ---------------------------------------------------------------- linearizability

type seqState struct {
	ops []Op
	fp  string
}

func model(mode string, setup []Op, exact bool) porcupine.Model {
	replay := func(ops []Op) *object {
		o := newObject(mode)
		for _, x := range setup {
			o.apply(x)
		}
		for _, x := range ops {
			o.apply(x)
		}
		return o
	}
	return porcupine.Model{
		Init: func() interface{} { return seqState{fp: replay(nil).fingerprint()} },
		Step: func(st, in, out interface{}) (bool, interface{}) {
			s := st.(seqState)
			o := replay(s.ops)
			got := o.apply(in.(Op))
			if got != out.(string) {
				return false, s
			}
			n := seqState{ops: append(append([]Op{}, s.ops...), in.(Op)), fp: o.fingerprint()}
			return true, n
		},
		Equal: func(a, b interface{}) bool {
			x, y := a.(seqState), b.(seqState)
			if !exact {
				return x.fp == y.fp
			}
			if len(x.ops) != len(y.ops) {
				return false
			}
			for i := range x.ops {
				if x.ops[i] != y.ops[i] {
					return false
				}
			}
			return true
		},
	}
}

func linearizable(mode string, h history, recs []rec) string {
	ops := make([]porcupine.Operation, len(recs))
	for i, r := range recs {
		ops[i] = porcupine.Operation{ClientId: r.g, Input: r.op, Call: r.call, Output: r.out, Return: r.ret}
	}
	switch porcupine.CheckOperationsTimeout(model(mode, h.setup, false), ops, 5*time.Second) {
	case porcupine.Ok:
		return "ok"
	case porcupine.Unknown:
		return "unknown"
	}
	// re-check without state merging: only an exhaustive "no" counts
	switch porcupine.CheckOperationsTimeout(model(mode, h.setup, true), ops, 20*time.Second) {
	case porcupine.Ok:
		return "ok"
	case porcupine.Unknown:
		return "unknown"
	}
	return "nonlin"
}

func describe(recs []rec) string {
	sort.Slice(recs, func(i, j int) bool { return recs[i].call < recs[j].call })
	var sb strings.Builder
	for i, r := range recs {
		if i > 0 {
			sb.WriteString("; ")
		}
		fmt.Fprintf(&sb, "g%d[%d,%d] %s -> %s", r.g, r.call, r.ret, r.op, r.out)
	}
	return sb.String()
}

func fileSize(prefix string) int64 {
	var n int64
	if prefix == "" {
		return 0
	}
	if fi, err := os.Stat(fmt.Sprintf("%s.%d", prefix, os.Getpid())); err == nil {
		n = fi.Size()
	}
	return n
}

// raceDigest: the two conflicting accesses of the first report written to the race log
// between the two offsets, as "<kind> at <func> <file:line>"
func raceDigest(prefix string, from, to int64) string {
	f, err := os.Open(fmt.Sprintf("%s.%d", prefix, os.Getpid()))
	if err != nil {
		return ""
	}
	defer f.Close()
	buf := make([]byte, to-from)
	if _, err := f.ReadAt(buf, from); err != nil {
		return ""
	}
	var parts []string
	lines := strings.Split(string(buf), "\n")
	for i := 0; i+2 < len(lines) && len(parts) < 2; i++ {
		l := strings.TrimSpace(lines[i])
		if (strings.HasPrefix(l, "Write at") || strings.HasPrefix(l, "Read at") || strings.HasPrefix(l, "Previous write at") || strings.HasPrefix(l, "Previous read at")) && strings.Contains(l, "by ") {
			kind := strings.ToLower(strings.SplitN(l, " at ", 2)[0])
			// first frame inside the library
			for j := i + 1; j+1 < len(lines) && strings.TrimSpace(lines[j]) != ""; j += 2 {
				fn := strings.TrimSpace(lines[j])
				if strings.Contains(fn, "moov-io/iso8583") {
					loc := strings.Fields(strings.TrimSpace(lines[j+1]))
					where := ""
					if len(loc) > 0 {
						where = loc[0]
						if k := strings.LastIndex(where, "/"); k >= 0 {
							where = where[k+1:]
						}
					}
					if k := strings.LastIndex(fn, "/"); k >= 0 {
						fn = fn[k+1:]
					}
					parts = append(parts, kind+" in "+strings.TrimSuffix(fn, "()")+" "+where)
					break
				}
			}
		}
	}
	return strings.Join(parts, " / ")
}

func main() {
	mode := flag.String("mode", "message", "message | composite | bcomposite | atomic")
	seed := flag.Uint64("seed", 1, "seed")
	from := flag.Int("from", 0, "first history index")
	n := flag.Int("n", 100, "number of histories")
	repeat := flag.Int("repeat", 1, "run every history this many times")
	timeoutMs := flag.Int("timeout", 3000, "per-history deadlock timeout in ms")
	raceLog := flag.String("racelog", "", "GORACE log_path prefix (to attribute reports to histories)")
	maxTimeouts := flag.Int("max-timeouts", 3, "stop after this many deadlocked histories")
	flag.Parse()
	if *mode == "atomic" {
		runAtomic(*n)
		return
	}
	bitmapped = *mode == "bcomposite"
	initSamples()
	timeouts := 0
	for i := *from; i < *from+*n; i++ {
		h := genHistory(*mode, *seed, i)
		mix := h.mix(*mode, *seed)
		for rep := 0; rep < *repeat; rep++ {
			fmt.Printf("BEGIN\t%d\t%s\n", i, mix)
			before := fileSize(*raceLog)
			recs, timedOut := runHistory(*mode, h, time.Duration(*timeoutMs)*time.Millisecond)
			verdict := "ok"
			switch {
			case timedOut:
				verdict = "timeout"
				fmt.Printf("TIMEOUT\t%d\t%s\n", i, mix)
				timeouts++
			case h.style != 0:
				verdict = linearizable(*mode, h, recs)
				if verdict == "nonlin" {
					fmt.Printf("NONLIN\t%d\t%s\t%s\n", i, mix, describe(recs))
				}
			default:
				verdict = "raced-only"
			}
			if after := fileSize(*raceLog); after > before {
				fmt.Printf("RACE\t%d\t%s\t%s\n", i, mix, raceDigest(*raceLog, before, after))
			}
			nops, nontrivial := 0, 0
			for _, t := range h.threads {
				nops += len(t)
			}
			for _, r := range recs {
				if r.out != "err" && r.out != "bad-op" {
					nontrivial++
				}
			}
			fmt.Printf("END\t%d\t%s\t%d\t%d\n", i, verdict, nops, nontrivial)
			if timeouts >= *maxTimeouts {
				fmt.Printf("STOP\ttoo many timeouts\n")
				return
			}
		}
	}
}
