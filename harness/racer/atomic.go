package main

// Mode "atomic": atomicity probes. One goroutine toggles a shared object between two states A and
// B with ONE multi-effect call each way (Marshal of many fields / an Unset* call with many paths /
// Unpack / SetBytes / JSON decode) while readers Pack (and JSON-encode) it without pause. Every
// result a reader sees must be one a sequential execution produces: the encoding after A or after
// B (or of the initial state) - never a mix, which is what a multi-path call that gives up the lock
// between two paths, or a Pack that does not hold it, shows. Pure schedule exploration: thousands
// of overlapping calls per probe.
//
//	ATOMIC <probe> <detail>     a reader saw a result outside the sequential set
//	PROBE  <probe> <reads> <toggles>

import (
	"encoding/hex"
	"encoding/json"
	"fmt"
	"sync"
	"sync/atomic"
	"time"

	"github.com/moov-io/iso8583"
	"github.com/moov-io/iso8583/encoding"
	"github.com/moov-io/iso8583/field"
	"github.com/moov-io/iso8583/padding"
	"github.com/moov-io/iso8583/prefix"
	isosort "github.com/moov-io/iso8583/sort"
)

var wideTags = []string{"01", "02", "03", "04", "05", "06", "07", "08"}

func wideCompSpec() *field.Spec {
	subs := map[string]field.Field{}
	for _, t := range wideTags {
		subs[t] = field.NewString(&field.Spec{Length: 9, Description: "sub " + t, Enc: encoding.ASCII, Pref: prefix.ASCII.LL})
	}
	return &field.Spec{
		Length: 999, Description: "wide composite", Pref: prefix.ASCII.LLL,
		Tag:       &field.TagSpec{Length: 2, Enc: encoding.ASCII, Sort: isosort.StringsByInt},
		Subfields: subs,
	}
}

var wideMsgIDs = []int{2, 3, 5, 6, 7, 8, 9, 10, 66, 70}

func wideMsgSpec() *iso8583.MessageSpec {
	fields := map[int]field.Field{
		0: field.NewString(&field.Spec{Length: 4, Description: "MTI", Enc: encoding.ASCII, Pref: prefix.ASCII.Fixed}),
		1: field.NewBitmap(&field.Spec{Description: "Bitmap", Enc: encoding.Binary, Pref: prefix.Binary.Fixed}),
		4: field.NewComposite(wideCompSpec()),
	}
	for _, id := range wideMsgIDs {
		fields[id] = field.NewString(&field.Spec{Length: 12, Description: "f", Enc: encoding.ASCII, Pref: prefix.ASCII.LL, Pad: padding.None})
	}
	return &iso8583.MessageSpec{Name: "wide", Fields: fields}
}

type wideComp struct {
	A *string `index:"01"`
	B *string `index:"02"`
	C *string `index:"03"`
	D *string `index:"04"`
	E *string `index:"05"`
	F *string `index:"06"`
	G *string `index:"07"`
	H *string `index:"08"`
}

func wideCompVal(v string) *wideComp {
	s := func(x string) *string { y := v + x; return &y }
	return &wideComp{s("a"), s("b"), s("c"), s("d"), s("e"), s("f"), s("g"), s("h")}
}

type wideMsg struct {
	F2  *string   `index:"2"`
	F3  *string   `index:"3"`
	F4  *wideComp `index:"4"`
	F5  *string   `index:"5"`
	F6  *string   `index:"6"`
	F7  *string   `index:"7"`
	F8  *string   `index:"8"`
	F9  *string   `index:"9"`
	F10 *string   `index:"10"`
	F66 *string   `index:"66"`
	F70 *string   `index:"70"`
}

func wideMsgVal(v string) *wideMsg {
	s := func(x string) *string { y := v + x; return &y }
	return &wideMsg{s("2"), s("3"), wideCompVal(v), s("5"), s("6"), s("7"), s("8"), s("9"), s("10"), s("66"), s("70")}
}

type probe struct {
	name    string
	fresh   func() interface{}
	toggles []func(obj interface{}) // applied round-robin by the writer
	reads   []func(obj interface{}) string
}

func must(err error) {
	if err != nil {
		panic(err)
	}
}

func hexOf(b []byte, err error) string {
	if err != nil {
		return "err"
	}
	return hex.EncodeToString(b)
}

func compositeProbes() []probe {
	fresh := func() interface{} { return field.NewComposite(wideCompSpec()) }
	comp := func(o interface{}) *field.Composite { return o.(*field.Composite) }
	pack := func(o interface{}) string { return "P:" + hexOf(comp(o).Pack()) }
	bytesOf := func(o interface{}) string { return "B:" + hexOf(comp(o).Bytes()) }
	js := func(o interface{}) string { b, err := comp(o).MarshalJSON(); return "J:" + hexOf(b, err) }
	reads := []func(interface{}) string{pack, bytesOf, js}
	mk := func(v string) (body, wire []byte, doc []byte) {
		c := field.NewComposite(wideCompSpec())
		must(c.Marshal(wideCompVal(v)))
		body, _ = c.Bytes()
		wire, _ = c.Pack()
		doc, _ = c.MarshalJSON()
		return
	}
	bodyA, wireA, docA := mk("x")
	bodyB, wireB, _ := mk("yy")
	// B variants with only half of the subfields
	half := field.NewComposite(wideCompSpec())
	hv := wideCompVal("h")
	hv.B, hv.D, hv.F, hv.H = nil, nil, nil, nil
	must(half.Marshal(hv))
	bodyH, _ := half.Bytes()
	wireH, _ := half.Pack()
	all := append([]string{}, wideTags...)
	return []probe{
		{"composite Marshal(8 subfields) / UnsetSubfields(8 paths)", fresh, []func(interface{}){
			func(o interface{}) { must(comp(o).Marshal(wideCompVal("m"))) },
			func(o interface{}) { must(comp(o).UnsetSubfields(all...)) }}, reads},
		{"composite SetBytes(A) / SetBytes(B)", fresh, []func(interface{}){
			func(o interface{}) { must(comp(o).SetBytes(bodyA)) },
			func(o interface{}) { must(comp(o).SetBytes(bodyH)) },
			func(o interface{}) { must(comp(o).SetBytes(bodyB)) }}, reads},
		{"composite Unpack(A) / Unpack(B)", fresh, []func(interface{}){
			func(o interface{}) { _, err := comp(o).Unpack(wireA); must(err) },
			func(o interface{}) { _, err := comp(o).Unpack(wireH); must(err) },
			func(o interface{}) { _, err := comp(o).Unpack(wireB); must(err) }}, reads},
		{"composite UnmarshalJSON(8 subfields) / UnsetSubfields(8 paths)", fresh, []func(interface{}){
			func(o interface{}) { must(comp(o).UnmarshalJSON(docA)) },
			func(o interface{}) { must(comp(o).UnsetSubfields(all...)) }}, reads},
	}
}

func messageProbes() []probe {
	spec := wideMsgSpec()
	fresh := func() interface{} { m := iso8583.NewMessage(spec); m.MTI("0100"); return m }
	msg := func(o interface{}) *iso8583.Message { return o.(*iso8583.Message) }
	pack := func(o interface{}) string { return "P:" + hexOf(msg(o).Pack()) }
	js := func(o interface{}) string { b, err := json.Marshal(msg(o)); return "J:" + hexOf(b, err) }
	reads := []func(interface{}) string{pack, js}
	mk := func(v *wideMsg) (wire, doc []byte) {
		m := iso8583.NewMessage(spec)
		m.MTI("0100")
		must(m.Marshal(v))
		wire, _ = m.Pack()
		doc, _ = json.Marshal(m)
		return
	}
	wireA, docA := mk(wideMsgVal("x"))
	hv := wideMsgVal("h")
	hv.F3, hv.F4, hv.F7, hv.F66 = nil, nil, nil, nil
	wireH, _ := mk(hv)
	wireB, _ := mk(wideMsgVal("yy"))
	var paths []string
	for _, id := range wideMsgIDs {
		paths = append(paths, fmt.Sprint(id))
	}
	paths = append(paths, "4.01", "4.02", "4.03", "4")
	return []probe{
		{"message Marshal(11 fields) / UnsetFields(14 paths)", fresh, []func(interface{}){
			func(o interface{}) { must(msg(o).Marshal(wideMsgVal("m"))) },
			func(o interface{}) { must(msg(o).UnsetFields(paths...)) }}, reads},
		{"message Unpack(A) / Unpack(B)", fresh, []func(interface{}){
			func(o interface{}) { must(msg(o).Unpack(wireA)) },
			func(o interface{}) { must(msg(o).Unpack(wireH)) },
			func(o interface{}) { must(msg(o).Unpack(wireB)) }}, reads},
		{"message UnmarshalJSON(11 fields) / UnsetFields(14 paths)", fresh, []func(interface{}){
			func(o interface{}) { must(json.Unmarshal(docA, msg(o))) },
			func(o interface{}) { must(msg(o).UnsetFields(paths...)) }}, reads},
	}
}

// the results a sequential execution produces: initial state and the state after every toggle,
// going twice round the toggle list
func (p probe) allowed() map[string]bool {
	set := map[string]bool{}
	o := p.fresh()
	note := func() {
		for _, r := range p.reads {
			set[r(o)] = true
		}
	}
	note()
	for round := 0; round < 3; round++ {
		for _, t := range p.toggles {
			t(o)
			note()
		}
	}
	return set
}

func runProbe(p probe, d time.Duration, readers int) (violation string, reads, toggles int64) {
	defer func() {
		if r := recover(); r != nil {
			violation = fmt.Sprint("panic: ", r)
		}
	}()
	allowed := p.allowed()
	o := p.fresh()
	var stop int32
	var nr, nt int64
	var mu sync.Mutex
	var wg sync.WaitGroup
	wg.Add(1)
	go func() {
		defer wg.Done()
		defer func() {
			if r := recover(); r != nil {
				mu.Lock()
				if violation == "" {
					violation = fmt.Sprint("a toggle failed or panicked: ", r)
				}
				mu.Unlock()
				atomic.StoreInt32(&stop, 1)
			}
		}()
		for i := 0; atomic.LoadInt32(&stop) == 0; i++ {
			p.toggles[i%len(p.toggles)](o)
			atomic.AddInt64(&nt, 1)
		}
	}()
	for g := 0; g < readers; g++ {
		wg.Add(1)
		go func(g int) {
			defer wg.Done()
			defer func() {
				if r := recover(); r != nil {
					mu.Lock()
					if violation == "" {
						violation = fmt.Sprint("a reader panicked: ", r)
					}
					mu.Unlock()
					atomic.StoreInt32(&stop, 1)
				}
			}()
			for i := 0; atomic.LoadInt32(&stop) == 0; i++ {
				out := p.reads[(i+g)%len(p.reads)](o)
				atomic.AddInt64(&nr, 1)
				if !allowed[out] {
					mu.Lock()
					if violation == "" {
						violation = "a reader saw " + out + " - the result of no sequential order of the calls"
					}
					mu.Unlock()
					atomic.StoreInt32(&stop, 1)
				}
			}
		}(g)
	}
	done := make(chan struct{})
	go func() { wg.Wait(); close(done) }()
	time.Sleep(d)
	atomic.StoreInt32(&stop, 1)
	select {
	case <-done:
	case <-time.After(5 * time.Second):
		mu.Lock()
		if violation == "" {
			violation = "the goroutines did not finish (deadlock)"
		}
		mu.Unlock()
	}
	mu.Lock()
	defer mu.Unlock()
	return violation, atomic.LoadInt64(&nr), atomic.LoadInt64(&nt)
}

func runAtomic(ms int) {
	probes := append(compositeProbes(), messageProbes()...)
	for _, p := range probes {
		v, reads, toggles := runProbe(p, time.Duration(ms)*time.Millisecond, 3)
		if v != "" {
			fmt.Printf("ATOMIC\t%s\t%s\n", p.name, v)
		}
		fmt.Printf("PROBE\t%s\t%d\t%d\n", p.name, reads, toggles)
	}
}
