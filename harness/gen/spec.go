package gen

// Channel S (spec builder): generated spec trees over the exportable vocabulary (and a
// little beyond it), the documents they export to (computed here, independently of the
// library) and mutated documents: dropped / nulled / wrongly typed members, unknown names,
// negative and huge lengths, composites without subfields or with both / neither tag and
// bitmap, null fields, odd message indices.

import (
	"strconv"

	"verif/harness/impl"
)

func init() { extraChannels["S"] = ChannelS }

// the 27 named prefixes of PrefixesExtToInt (as Inspect() names) and a few exported prefixers outside it
var VocabPrefixes = func() []string {
	out := []string{"None.Fixed", "BerTLV"}
	for _, fam := range []string{"ASCII", "BCD", "Hex", "EBCDIC", "Binary"} {
		for _, s := range []string{"Fixed", "L", "LL", "LLL", "LLLL"} {
			out = append(out, fam+"."+s)
		}
	}
	return out
}()

var nonVocabPrefixes = []string{"ASCII.LLLLL", "Binary.LLLLLL", "EBCDIC1047.LL", "EBCDIC1047.Fixed", "BCD.LLLLL"}

// encoder implementation type ↦ name in the JSON format
var VocabEncs = [][2]string{
	{"asciiEncoder", "ASCII"}, {"bcdEncoder", "BCD"}, {"ebcdicEncoder", "EBCDIC"}, {"binaryEncoder", "Binary"},
	{"hexToASCIIEncoder", "HexToASCII"}, {"asciiToHexEncoder", "ASCIIToHex"}, {"lBCDEncoder", "LBCD"},
}
var nonVocabEncs = []string{"ebcdic1047Encoder", "berTLVEncoderTag"}

var padRunes = []string{"0", " ", "*", "F", "é", "\x00", "\"", "<", "€", "\\"}

var descriptions = []string{"", "MTI", "Primary Account Number", "a \"quoted\" <tag> & more", "naïve café €", "tab\there", "back\\slash", "x", "Bitmap", "line\nbreak", "\x01ctl"}

type SpecOpts struct {
	Beyond bool // allow constructs outside the exportable vocabulary / invalid composites
	Plain  bool // only combinations whose values pack (so that behaviour is compared on successful packs)
}

func genPad(r *Rng) *impl.TPad {
	switch r.Intn(6) {
	case 0:
		return &impl.TPad{Type: "nonePadder"}
	case 1, 2:
		return &impl.TPad{Type: "leftPadder", Pad: Pick(r, padRunes)}
	case 3:
		return &impl.TPad{Type: "rightPadder", Pad: Pick(r, padRunes)}
	}
	return nil
}

func genLength(r *Rng) int {
	switch r.Intn(8) {
	case 0:
		return 0
	case 1:
		return 1 + r.Intn(4)
	case 2:
		return 999
	}
	return 1 + r.Intn(40)
}

func genPrim(r *Rng, o SpecOpts) *impl.TField {
	f := &impl.TField{Length: genLength(r), Desc: Pick(r, descriptions)}
	f.Type = Pick(r, []string{"String", "String", "Numeric", "Numeric", "Binary", "Track2", "String"})
	f.Pref = Pick(r, VocabPrefixes)
	f.Enc = Pick(r, VocabEncs)[0]
	if o.Plain || r.Intn(3) == 0 { // a plain, packable combination
		f.Enc = Pick(r, []string{"asciiEncoder", "ebcdicEncoder", "binaryEncoder"})
		f.Pref = Pick(r, []string{"ASCII.Fixed", "ASCII.LL", "ASCII.LLL", "BCD.LL", "Binary.L", "EBCDIC.LL", "Hex.LL", "Binary.Fixed"})
		if f.Length == 0 {
			f.Length = 6
		}
	}
	f.Pad = genPad(r)
	if o.Plain {
		f.Type = Pick(r, []string{"String", "String", "Numeric", "Binary"})
		f.Length = 1 + r.Intn(30)
		if f.Pad != nil && f.Pad.Type != "nonePadder" {
			f.Pad.Pad = Pick(r, []string{"0", " ", "*"})
			if f.Type == "Numeric" {
				f.Pad = &impl.TPad{Type: "leftPadder", Pad: "0"}
			}
		}
		if f.Type == "Numeric" && f.Length > 9 {
			f.Length = 9
		}
		if r.Intn(8) == 0 {
			f.Type, f.Length, f.Pref, f.Enc, f.Pad = "Track2", 37, "ASCII.LL", "asciiEncoder", nil
		}
	}
	if r.Intn(12) == 0 {
		f.DAE = true
	}
	if o.Beyond && r.Intn(6) == 0 {
		switch r.Intn(4) {
		case 0:
			f.Enc = Pick(r, nonVocabEncs)
		case 1:
			f.Pref = Pick(r, nonVocabPrefixes)
		case 2:
			f.Enc = "" // export: missing required spec.Enc
		case 3:
			f.Tag = &impl.TTag{Length: 2, Sort: "StringsByInt"} // dropped by export
		}
	}
	return f
}

func genBitmapField(r *Rng, o SpecOpts, composite bool) *impl.TField {
	f := &impl.TField{Type: "Bitmap", Desc: Pick(r, []string{"", "Bitmap"}), Length: Pick(r, []int{0, 1, 2, 3, 8, 8, 8, 16})}
	if r.Bool() {
		f.Enc, f.Pref = "binaryEncoder", "Binary.Fixed"
	} else {
		f.Enc, f.Pref = "hexToASCIIEncoder", "Hex.Fixed"
	}
	if r.Intn(8) == 0 {
		f.Pref = Pick(r, []string{"ASCII.Fixed", "EBCDIC.Fixed", "BCD.Fixed"})
	}
	f.DAE = composite || r.Intn(4) == 0
	if o.Beyond && r.Intn(8) == 0 {
		switch r.Intn(3) {
		case 0:
			f.Length = -1 - r.Intn(3)
		case 1:
			f.DAE = false
		case 2:
			f.Length = 1<<48 + 1 + r.Intn(5)
		}
	}
	return f
}

var tagKeySets = [][]string{
	{"1", "2", "3", "4", "5"}, {"01", "02", "03", "11", "12"}, {"A1", "B2", "C3", "ZZ"}, {"9F02", "9A", "5F2A", "82"},
	{"001", "002", "010"}, {"a", "b", "c"}, {"é", "ü"}, {"1", "10", "2"},
	// characters that a JSON writer has to escape when the tag becomes an object key
	{"\\\\", "\"Q", "a\\b", "<&>"},
}

func genComposite(r *Rng, o SpecOpts, depth int) *impl.TField {
	f := &impl.TField{Type: "Composite", Length: genLength(r), Desc: Pick(r, descriptions), Pref: Pick(r, VocabPrefixes)}
	if r.Intn(3) == 0 {
		f.Pref = Pick(r, []string{"ASCII.LL", "ASCII.LLL", "Binary.LL", "ASCII.Fixed"})
		f.Length = 60 + r.Intn(200)
	}
	if o.Plain {
		f.Pref, f.Length = Pick(r, []string{"ASCII.LLL", "Binary.LL", "EBCDIC.LLL"}), 999
	}
	if r.Intn(4) == 0 {
		f.Pad = &impl.TPad{Type: "nonePadder"}
	}
	n := 1 + r.Intn(4)
	bitmapped := r.Intn(3) == 0
	var keys []string
	if bitmapped {
		f.Bitmap = genBitmapField(r, o, true)
		top := 20
		if o.Plain {
			f.Bitmap.Length = 1 + r.Intn(3)
			f.Bitmap.Enc, f.Bitmap.Pref = "binaryEncoder", "Binary.Fixed"
			top = 8 * f.Bitmap.Length
		}
		used := map[int]bool{}
		for len(keys) < n {
			k := 1 + r.Intn(top)
			if !used[k] {
				used[k] = true
				keys = append(keys, strconv.Itoa(k))
			}
		}
	} else {
		set := Pick(r, tagKeySets)
		if o.Plain {
			set = Pick(r, tagKeySets[:4])
		}
		perm := append([]string(nil), set...)
		for i := len(perm) - 1; i > 0; i-- {
			j := r.Intn(i + 1)
			perm[i], perm[j] = perm[j], perm[i]
		}
		if n > len(perm) {
			n = len(perm)
		}
		keys = perm[:n]
		f.Tag = &impl.TTag{Sort: Pick(r, []string{"StringsByInt", "StringsByHex"}), Pad: nil}
		switch r.Intn(5) {
		case 0: // positional
		case 4: // tag encoder with tag length 0
			f.Tag.Enc = Pick(r, VocabEncs)[0]
		case 1:
			f.Tag.Length = len(keys[0])
			f.Tag.Enc = Pick(r, VocabEncs)[0]
		default:
			f.Tag.Length = 1 + r.Intn(4)
			f.Tag.Enc = Pick(r, []string{"asciiEncoder", "ebcdicEncoder", "asciiEncoder", "bcdEncoder"})
			if r.Bool() {
				f.Tag.Pad = genPad(r)
			}
		}
		if o.Plain {
			// tags of one width, or shorter tags padded to it
			f.Tag.Enc, f.Tag.Pad, f.Tag.Length = Pick(r, []string{"asciiEncoder", "ebcdicEncoder"}), nil, len(keys[0])
			uniform := true
			for _, k := range keys {
				uniform = uniform && len(k) == len(keys[0])
			}
			if !uniform || r.Intn(3) == 0 {
				f.Tag.Length = 4
				f.Tag.Pad = &impl.TPad{Type: "leftPadder", Pad: Pick(r, []string{"0", " "})}
			} else if r.Intn(5) == 0 {
				// a tag encoder without a tag length (as BER-TLV specs have): Pack still writes the
				// tags, so dropping the encoder on export changes the packed bytes
				f.Tag.Length = 0
			}
		}
	}
	for _, k := range keys {
		var sub *impl.TField
		if depth < 3 && r.Intn(4) == 0 {
			sub = genComposite(r, o, depth+1)
		} else {
			sub = genPrim(r, o)
		}
		f.Subs = append(f.Subs, impl.TEntry{Key: k, F: sub})
	}
	if o.Beyond && r.Intn(5) == 0 {
		switch r.Intn(8) {
		case 0:
			f.Tag, f.Bitmap = nil, nil // neither
		case 1:
			f.Tag = &impl.TTag{Sort: "StringsByInt"}
			f.Bitmap = genBitmapField(r, o, true) // both
		case 2:
			if f.Tag != nil {
				f.Tag.Sort = Pick(r, []string{"", "Strings"})
			}
		case 3:
			f.Pad = &impl.TPad{Type: "leftPadder", Pad: "0"}
		case 4:
			f.Enc = "asciiEncoder"
		case 5:
			if f.Tag != nil {
				f.Tag.Enc = Pick(r, []string{"berTLVEncoderTag", "ebcdic1047Encoder", ""})
			}
		case 6:
			if f.Bitmap != nil && len(f.Subs) > 0 {
				f.Subs[0].Key = Pick(r, []string{"0", "x", "-1", "01", ""})
			}
		case 7:
			f.Type = Pick(r, []string{"String", "Binary", "Bitmap"}) // a non-composite type holding subfields
		}
	}
	return f
}

var msgIDs = []int{2, 3, 4, 7, 11, 12, 35, 41, 48, 52, 55, 62, 63, 64, 65, 66, 70, 100, 127, 128, 129, 130}

// SpecTree generates a message spec tree.
func SpecTree(r *Rng, o SpecOpts) *impl.TMsg {
	m := &impl.TMsg{Name: Pick(r, []string{"", "spec", "ISO 8583 v1987 ASCII", "näme \"q\""})}
	mti := &impl.TField{Type: Pick(r, []string{"String", "Numeric"}), Length: 4, Desc: "Message Type Indicator", Pref: "ASCII.Fixed", Enc: "asciiEncoder"}
	if r.Intn(4) == 0 {
		mti.Enc, mti.Pref = "bcdEncoder", "BCD.Fixed"
	}
	if mti.Type == "Numeric" {
		mti.Pad = &impl.TPad{Type: "leftPadder", Pad: "0"}
	}
	bm := genBitmapField(r, SpecOpts{}, false)
	if bm.Length == 0 && r.Bool() {
		bm.Length = 8
	}
	if !(o.Beyond && r.Intn(10) == 0) {
		m.Fields = append(m.Fields, impl.TMsgEntry{Idx: 0, F: mti})
	}
	if !(o.Beyond && r.Intn(10) == 0) {
		m.Fields = append(m.Fields, impl.TMsgEntry{Idx: 1, F: bm})
	}
	n := 1 + r.Intn(5)
	used := map[int]bool{}
	for i := 0; i < n; i++ {
		id := Pick(r, msgIDs)
		if r.Intn(3) == 0 {
			id = 2 + r.Intn(62)
		}
		if o.Beyond && r.Intn(30) == 0 {
			id = Pick(r, []int{-1, 1000, 200})
		}
		if used[id] {
			continue
		}
		used[id] = true
		var f *impl.TField
		switch r.Intn(5) {
		case 0, 1:
			f = genComposite(r, o, 1)
		default:
			f = genPrim(r, o)
		}
		m.Fields = append(m.Fields, impl.TMsgEntry{Idx: id, F: f})
	}
	if len(m.Fields) == 0 {
		m.Fields = append(m.Fields, impl.TMsgEntry{Idx: 0, F: mti})
	}
	return m
}

// ---- the document a tree exports to (computed here, not by the library)

var extEnc = map[string]string{}
var extPad = map[string]string{"leftPadder": "Left", "rightPadder": "Right", "nonePadder": "None"}

func init() {
	for _, e := range VocabEncs {
		extEnc[e[0]] = e[1]
	}
}

func omitS(s string) impl.Slot[string] {
	if s == "" {
		return impl.Absent[string]()
	}
	return impl.Val(s)
}

func omitI(n int) impl.Slot[string] {
	if n == 0 {
		return impl.Absent[string]()
	}
	return impl.Val(strconv.Itoa(n))
}

func padDocOf(p *impl.TPad) impl.Slot[*impl.PadDoc] {
	if p == nil {
		return impl.Absent[*impl.PadDoc]()
	}
	return impl.Val(&impl.PadDoc{Type: impl.Val(extPad[p.Type]), Pad: impl.Val(p.Pad)})
}

// DocOfTree mirrors exportField for trees over the vocabulary (encoders outside it get their type name).
func DocOfTree(f *impl.TField) *impl.FieldDoc {
	d := &impl.FieldDoc{Kind: 'f', Type: omitS(f.Type), Length: omitI(f.Length), Desc: omitS(f.Desc), Prefix: omitS(f.Pref),
		Padding: padDocOf(f.Pad), Enc: impl.Absent[string](), Tag: impl.Absent[*impl.TagDoc](), DAE: impl.Absent[bool]()}
	encName := func(t string) string {
		if n, ok := extEnc[t]; ok {
			return n
		}
		return t
	}
	if len(f.Subs) == 0 {
		d.Enc = omitS(encName(f.Enc))
	} else {
		for _, e := range f.Subs {
			d.Subs = append(d.Subs, impl.DocEntry{Key: e.Key, F: DocOfTree(e.F)})
		}
		if f.Tag != nil {
			d.Tag = impl.Val(&impl.TagDoc{Length: omitI(f.Tag.Length), Enc: omitS(encName(f.Tag.Enc)), Padding: padDocOf(f.Tag.Pad), Sort: omitS(f.Tag.Sort)})
		}
		if f.Bitmap != nil {
			d.Bitmap = DocOfTree(f.Bitmap)
		}
	}
	if f.DAE {
		d.DAE = impl.Val(true)
	}
	return d
}

func DocOfMsg(m *impl.TMsg) *impl.SpecDoc {
	d := &impl.SpecDoc{Name: omitS(m.Name)}
	var es []impl.DocEntry
	for _, e := range m.Fields {
		es = append(es, impl.DocEntry{Key: strconv.Itoa(e.Idx), F: DocOfTree(e.F)})
	}
	if len(es) == 0 {
		d.Fields = impl.Absent[[]impl.DocEntry]()
	} else {
		d.Fields = impl.Val(es)
	}
	return d
}

// ---- mutations of documents

func allFieldDocs(d *impl.SpecDoc) []*impl.FieldDoc {
	var out []*impl.FieldDoc
	var walk func(f *impl.FieldDoc)
	walk = func(f *impl.FieldDoc) {
		if f == nil || f.Kind != 'f' {
			return
		}
		out = append(out, f)
		for _, e := range f.Subs {
			walk(e.F)
		}
		walk(f.Bitmap)
	}
	if d.Fields.K == 'v' {
		for _, e := range d.Fields.V {
			walk(e.F)
		}
	}
	return out
}

func mutSlotS(r *Rng, s *impl.Slot[string], names []string) {
	switch r.Intn(6) {
	case 0:
		*s = impl.Absent[string]()
	case 1:
		*s = impl.Null[string]()
	case 2:
		*s = impl.Bad[string]()
	case 3:
		*s = impl.Val("")
	default:
		*s = impl.Val(Pick(r, names))
	}
}

// lengths that are safe to hand to the library: nothing between 2^24 and 2^48, which
// NewBitmap would really try to allocate
var oddLengths = []string{"-1", "-2", "-9223372036854775808", "0", "1", "7", "64", "100000", "281474976710657", "4611686018427387904",
	"9223372036854775807", "9223372036854775808", "-9223372036854775809", "123456789012345678901234567890"}

func mutLength(r *Rng, s *impl.Slot[string]) {
	switch r.Intn(8) {
	case 0:
		*s = impl.Absent[string]()
	case 1:
		*s = impl.Null[string]()
	case 2:
		*s = impl.Bad[string]()
	default:
		*s = impl.Val(Pick(r, oddLengths))
	}
}

var oddTypes = []string{"Foo", "Hex", "Track1", "string", "Composite", "Bitmap", "String", "Numeric", "Binary", "Track2", "composite"}
var oddEncs = []string{"XYZ", "BerTLVTag", "EBCDIC1047", "ascii", "ASCII", "Binary", "BCD", "HexToASCII", "asciiEncoder"}
var oddPrefixes = []string{"ASCII.LLLLL", "ASCII.LLLLLL", "EBCDIC1047.LL", "ascii.ll", "None.Fixed", "BerTLV", "ASCII.Fixed", "Binary.LLLL", "Hex.Fixed", "LL", "prefix.ASCII.LL"}
var oddPadTypes = []string{"Center", "left", "Left", "Right", "None", "leftPadder"}
var oddPads = []string{"", "0", "ab", "é", "€€", " ", "\x00"}
var oddSorts = []string{"Strings", "StringsByInt", "StringsByHex", "x", "sort.StringsByInt"}
var oddKeys = []string{"x", "", "01", "+3", "-1", "9223372036854775808", " 1", "1 ", "1.0", "0x1", "007", "65", "-0"}

func mutPadSlot(r *Rng, s *impl.Slot[*impl.PadDoc]) {
	switch r.Intn(7) {
	case 0:
		*s = impl.Absent[*impl.PadDoc]()
	case 1:
		*s = impl.Null[*impl.PadDoc]()
	case 2:
		*s = impl.Bad[*impl.PadDoc]()
	default:
		p := &impl.PadDoc{Type: impl.Val(Pick(r, oddPadTypes)), Pad: impl.Val(Pick(r, oddPads))}
		if r.Intn(4) == 0 {
			mutSlotS(r, &p.Type, oddPadTypes)
		}
		if r.Intn(4) == 0 {
			mutSlotS(r, &p.Pad, oddPads)
		}
		*s = impl.Val(p)
	}
}

func simpleFieldDoc(ty, enc, pref string, length int) *impl.FieldDoc {
	return &impl.FieldDoc{Kind: 'f', Type: omitS(ty), Length: omitI(length), Desc: impl.Absent[string](), Enc: omitS(enc), Prefix: omitS(pref),
		Padding: impl.Absent[*impl.PadDoc](), Tag: impl.Absent[*impl.TagDoc](), DAE: impl.Absent[bool]()}
}

// MutateField applies one random mutation to a field object.
func MutateField(r *Rng, f *impl.FieldDoc) {
	switch r.Intn(16) {
	case 0:
		mutSlotS(r, &f.Type, oddTypes)
	case 1:
		mutLength(r, &f.Length)
	case 2:
		mutSlotS(r, &f.Desc, descriptions)
	case 3:
		mutSlotS(r, &f.Enc, oddEncs)
	case 4:
		mutSlotS(r, &f.Prefix, oddPrefixes)
	case 5:
		mutPadSlot(r, &f.Padding)
	case 6: // the tag block
		switch r.Intn(6) {
		case 0:
			f.Tag = impl.Absent[*impl.TagDoc]()
		case 1:
			f.Tag = impl.Null[*impl.TagDoc]()
		case 2:
			f.Tag = impl.Bad[*impl.TagDoc]()
		case 3:
			f.Tag = impl.Val(&impl.TagDoc{Length: impl.Absent[string](), Enc: impl.Absent[string](), Padding: impl.Absent[*impl.PadDoc](), Sort: impl.Absent[string]()})
		default:
			if f.Tag.K != 'v' {
				f.Tag = impl.Val(&impl.TagDoc{Length: omitI(2), Enc: omitS("ASCII"), Padding: impl.Absent[*impl.PadDoc](), Sort: omitS("StringsByInt")})
			}
			t := f.Tag.V
			switch r.Intn(4) {
			case 0:
				mutLength(r, &t.Length)
			case 1:
				mutSlotS(r, &t.Enc, oddEncs)
			case 2:
				mutPadSlot(r, &t.Padding)
			case 3:
				mutSlotS(r, &t.Sort, oddSorts)
			}
		}
	case 7: // drop the subfields (a composite without subfields)
		f.Subs = nil
	case 8: // the bitmap block
		switch r.Intn(5) {
		case 0:
			f.Bitmap = nil
		case 1:
			f.Bitmap = &impl.FieldDoc{Kind: '~'}
		case 2:
			f.Bitmap = &impl.FieldDoc{Kind: '!'}
		case 3:
			f.Bitmap = simpleFieldDoc(Pick(r, []string{"Bitmap", "String", ""}), "Binary", "Binary.Fixed", Pick(r, []int{-1, 0, 2, 8}))
			if r.Bool() {
				f.Bitmap.DAE = impl.Val(true)
			}
		case 4:
			if f.Bitmap != nil && f.Bitmap.Kind == 'f' {
				MutateField(r, f.Bitmap)
			} else {
				f.Bitmap = simpleFieldDoc("Bitmap", "HexToASCII", "Hex.Fixed", 4)
				f.Bitmap.DAE = impl.Val(true)
			}
		}
	case 9:
		switch r.Intn(4) {
		case 0:
			f.DAE = impl.Absent[bool]()
		case 1:
			f.DAE = impl.Val(r.Bool())
		case 2:
			f.DAE = impl.Null[bool]()
		case 3:
			f.DAE = impl.Bad[bool]()
		}
	case 10: // a subfield becomes null / wrongly typed / is renamed
		if len(f.Subs) > 0 {
			i := r.Intn(len(f.Subs))
			switch r.Intn(4) {
			case 0:
				f.Subs[i].F = &impl.FieldDoc{Kind: '~'}
			case 1:
				f.Subs[i].F = &impl.FieldDoc{Kind: '!'}
			default:
				k := Pick(r, oddKeys)
				dup := false
				for _, e := range f.Subs {
					dup = dup || e.Key == k
				}
				if !dup {
					f.Subs[i].Key = k
				}
			}
		}
	case 11: // add subfields to a primitive
		if len(f.Subs) == 0 {
			f.Subs = []impl.DocEntry{{Key: "1", F: simpleFieldDoc("String", "ASCII", "ASCII.Fixed", 2)}}
		}
	case 12: // both tag and bitmap
		f.Tag = impl.Val(&impl.TagDoc{Length: impl.Absent[string](), Enc: impl.Absent[string](), Padding: impl.Absent[*impl.PadDoc](), Sort: omitS("StringsByInt")})
		f.Bitmap = simpleFieldDoc("Bitmap", "Binary", "Binary.Fixed", 2)
		f.Bitmap.DAE = impl.Val(true)
	case 13: // neither
		f.Tag = impl.Absent[*impl.TagDoc]()
		f.Bitmap = nil
	case 14:
		f.Type = impl.Val("Composite")
	case 15:
		f.Enc = impl.Absent[string]()
	}
}

// atoiKey mirrors strconv.Atoi well enough to keep message indices distinct.
func atoiKey(k string) (int, bool) {
	n, err := strconv.Atoi(k)
	return n, err == nil
}

// MutateDoc applies n random mutations.
func MutateDoc(r *Rng, d *impl.SpecDoc, n int) {
	for ; n > 0; n-- {
		if r.Intn(8) == 0 { // document level
			switch r.Intn(9) {
			case 0:
				d.Fields = impl.Absent[[]impl.DocEntry]()
			case 1:
				d.Fields = impl.Null[[]impl.DocEntry]()
			case 2:
				d.Fields = impl.Bad[[]impl.DocEntry]()
			case 3:
				mutSlotS(r, &d.Name, descriptions)
			case 4, 5: // drop the MTI or the bitmap (or another field)
				if d.Fields.K == 'v' && len(d.Fields.V) > 0 {
					i := r.Intn(len(d.Fields.V))
					if r.Bool() && i > 1 {
						i = r.Intn(2)
					}
					d.Fields.V = append(append([]impl.DocEntry(nil), d.Fields.V[:i]...), d.Fields.V[i+1:]...)
					if len(d.Fields.V) == 0 && r.Bool() {
						d.Fields = impl.Absent[[]impl.DocEntry]()
					}
				}
			case 6: // a field becomes null / wrongly typed
				if d.Fields.K == 'v' && len(d.Fields.V) > 0 {
					i := r.Intn(len(d.Fields.V))
					d.Fields.V[i].F = &impl.FieldDoc{Kind: Pick(r, []byte{'~', '!'})}
				}
			default: // an odd message index (never one that aliases another key's integer)
				if d.Fields.K == 'v' && len(d.Fields.V) > 0 {
					i := r.Intn(len(d.Fields.V))
					k := Pick(r, oddKeys)
					if r.Bool() {
						k = "0" + d.Fields.V[i].Key
					}
					nk, isInt := atoiKey(k)
					clash := false
					for j, e := range d.Fields.V {
						if j == i {
							continue
						}
						if e.Key == k {
							clash = true
						}
						if ne, ok := atoiKey(e.Key); ok && isInt && ne == nk {
							clash = true
						}
					}
					if !clash {
						d.Fields.V[i].Key = k
					}
				}
			}
			continue
		}
		fs := allFieldDocs(d)
		if len(fs) == 0 {
			continue
		}
		MutateField(r, Pick(r, fs))
	}
}

// boundary documents and specs named by the property's quantifier
var BoundaryS = []string{
	// a composite without tag or bitmap block (the panic named by the property)
	"S import d(_,m('0=f('String,4,_,'ASCII,'ASCII.Fixed,_,_,m(),_,_),'1=f('Bitmap,8,_,'Binary,'Binary.Fixed,_,_,m(),_,_),'2=f('Composite,9,_,_,'ASCII.LL,_,_,m('1=f('String,2,_,'ASCII,'ASCII.Fixed,_,_,m(),_,_)),_,_)))",
	// both
	"S import d(_,m('2=f('Composite,9,_,_,'ASCII.LL,_,t(_,_,_,'StringsByInt),m('1=f('String,2,_,'ASCII,'ASCII.Fixed,_,_,m(),_,_)),f('Bitmap,2,_,'Binary,'Binary.Fixed,_,_,m(),_,T),_)))",
	// null field, null subfield, null bitmap, wrongly typed field
	"S import d(_,m('0=~))",
	"S import d(_,m('2=f('Composite,9,_,_,'ASCII.LL,_,t(_,_,_,'StringsByInt),m('1=~),_,_)))",
	"S import d(_,m('2=f('Composite,9,_,_,'ASCII.LL,_,t(_,_,_,'StringsByInt),m('1=f('String,2,_,'ASCII,'ASCII.Fixed,_,_,m(),_,_)),~,_)))",
	"S import d(_,m('0=!))",
	// a non-composite field holding subfields gets no encoder (Pack used to dereference nil)
	"S import d(_,m('0=f('String,4,_,'ASCII,'ASCII.Fixed,_,_,m(),_,_),'1=f('Bitmap,8,_,'Binary,'Binary.Fixed,_,_,m('1=f('String,2,_,'ASCII,'ASCII.Fixed,_,_,m(),_,_)),_,_)))",
	"S import d(_,m('2=f('Composite,9,_,_,'ASCII.LL,_,_,m('1=f('String,2,_,'ASCII,'ASCII.Fixed,_,_,m(),_,_)),f('Bitmap,2,_,'Binary,'Binary.Fixed,_,_,m('1=f('String,2,_,'ASCII,'ASCII.Fixed,_,_,m(),_,_)),_,T),_)))",
	// negative / huge bitmap lengths, message level and composite level
	"S import d(_,m('1=f('Bitmap,-1,_,'Binary,'Binary.Fixed,_,_,m(),_,_)))",
	"S import d(_,m('1=f('Bitmap,281474976710657,_,'Binary,'Binary.Fixed,_,_,m(),_,_)))",
	"S import d(_,m('2=f('Composite,9,_,_,'ASCII.LL,_,_,m('1=f('String,2,_,'ASCII,'ASCII.Fixed,_,_,m(),_,_)),f('Bitmap,-1,_,'Binary,'Binary.Fixed,_,_,m(),_,T),_)))",
	"S import d(_,m('2=f('Composite,9,_,_,'ASCII.LL,_,_,m('1=f('String,2,_,'ASCII,'ASCII.Fixed,_,_,m(),_,_)),f('Bitmap,1125899906842624,_,'Binary,'Binary.Fixed,_,_,m(),_,T),_)))",
	"S import d(_,m('2=f('Composite,9,_,_,'ASCII.LL,_,_,m('1=f('String,2,_,'ASCII,'ASCII.Fixed,_,_,m(),_,_)),f('String,2,_,'Binary,'Binary.Fixed,_,_,m(),_,T),_)))",
	// composite without subfields; unknown type; missing everything
	"S import d(_,m('2=f('Composite,9,_,_,'ASCII.LL,_,t(_,_,_,'StringsByInt),m(),_,_)))",
	"S import d(_,m('2=f('Composite,9,_,'ASCII,'ASCII.LL,_,t(_,_,_,'StringsByInt),m(),_,_)))",
	"S import d(_,m('2=f('Foo,9,_,'ASCII,'ASCII.LL,_,_,m(),_,_)))",
	"S import d(_,m('2=f(_,_,_,_,_,_,_,m(),_,_)))",
	"S import d(_,_)",
	"S import d(~,~)",
	"S import d(!,m('0=f('String,4,_,'ASCII,'ASCII.Fixed,_,_,m(),_,_)))",
	// message indices
	"S import d(_,m('x=f('String,4,_,'ASCII,'ASCII.Fixed,_,_,m(),_,_)))",
	"S import d(_,m('01=f('String,4,_,'ASCII,'ASCII.Fixed,_,_,m(),_,_),x2b32=f('String,4,_,'ASCII,'ASCII.Fixed,_,_,m(),_,_),'-3=f('String,4,_,'ASCII,'ASCII.Fixed,_,_,m(),_,_)))",
	"S import d(_,m('9223372036854775808=f('String,4,_,'ASCII,'ASCII.Fixed,_,_,m(),_,_)))",
	// padding: unknown type, two runes, non-ASCII rune
	"S import d(_,m('0=f('String,4,_,'ASCII,'ASCII.Fixed,p('Center,'0),_,m(),_,_)))",
	"S import d(_,m('0=f('String,4,_,'ASCII,'ASCII.Fixed,p('Left,'ab),_,m(),_,_)))",
	"S import d(_,m('0=f('String,4,_,'ASCII,'ASCII.Fixed,p('Left,xc3a9),_,m(),_,_)))",
	"S import d(_,m('0=f('String,4,_,'ASCII,'ASCII.Fixed,p(_,_),_,m(),_,_)))",
	// bitmapped composite with a bad key / without DisableAutoExpand; tag without sort; tag length without enc
	"S import d(_,m('2=f('Composite,9,_,_,'ASCII.LL,_,_,m('0=f('String,2,_,'ASCII,'ASCII.Fixed,_,_,m(),_,_)),f('Bitmap,2,_,'Binary,'Binary.Fixed,_,_,m(),_,T),_)))",
	"S import d(_,m('2=f('Composite,9,_,_,'ASCII.LL,_,_,m('1=f('String,2,_,'ASCII,'ASCII.Fixed,_,_,m(),_,_)),f('Bitmap,2,_,'Binary,'Binary.Fixed,_,_,m(),_,_),_)))",
	"S import d(_,m('2=f('Composite,9,_,_,'ASCII.LL,_,t(_,_,_,_),m('1=f('String,2,_,'ASCII,'ASCII.Fixed,_,_,m(),_,_)),_,_)))",
	"S import d(_,m('2=f('Composite,9,_,_,'ASCII.LL,_,t(2,_,_,'StringsByInt),m('1=f('String,2,_,'ASCII,'ASCII.Fixed,_,_,m(),_,_)),_,_)))",
	"S import d(_,m('2=f('Composite,9,_,_,'ASCII.LL,_,t(2,'BerTLVTag,_,'StringsByHex),m('9F02=f('String,2,_,'ASCII,'BerTLV,_,_,m(),_,_)),_,_)))",
	// export side: outside the vocabulary
	"S export S(',M(0=F('String,4,','ASCII.Fixed,'ebcdic1047Encoder,_,_,M(),_,F)))",
	"S export S(',M(0=F('String,4,','ASCII.LLLLL,'asciiEncoder,_,_,M(),_,F)))",
	"S export S(',M(0=F('String,4,','ASCII.Fixed,_,_,_,M(),_,F)))",
	"S export S(',M())",
	"S export S(',M(2=F('Composite,9,','ASCII.LL,_,_,T(0,_,_,'Strings),M('1=F('String,2,','ASCII.Fixed,'asciiEncoder,_,_,M(),_,F)),_,F)))",
	"S export S(',M(2=F('Composite,9,','ASCII.LL,_,_,T(2,'berTLVEncoderTag,_,'StringsByHex),M('9F02=F('String,2,','BerTLV,'asciiEncoder,_,_,M(),_,F)),_,F)))",
	"S export S(',M(2=F('Composite,9,','ASCII.LL,_,_,_,M('1=F('String,2,','ASCII.Fixed,'asciiEncoder,_,_,M(),_,F)),_,F)))",
}

func ChannelS(t Tier, r *Rng, emit Emit) {
	for _, l := range BoundaryS {
		emit(l)
	}
	// spec trees: export
	for i := 0; i < t.N(700, 25000); i++ {
		m := SpecTree(r, SpecOpts{Beyond: i%3 == 2})
		emit("S export " + m.Text())
	}
	// documents: what a valid tree exports to, then mutated
	for i := 0; i < t.N(1800, 70000); i++ {
		m := SpecTree(r, SpecOpts{Beyond: i%5 == 4})
		d := DocOfMsg(m)
		// message fields in a random order (the order must not matter)
		if d.Fields.K == 'v' {
			es := d.Fields.V
			for k := len(es) - 1; k > 0; k-- {
				j := r.Intn(k + 1)
				es[k], es[j] = es[j], es[k]
			}
		}
		switch i % 4 {
		case 0:
		case 1:
			MutateDoc(r, d, 1)
		case 2:
			MutateDoc(r, d, 1+r.Intn(2))
		case 3:
			MutateDoc(r, d, 1+r.Intn(5))
		}
		emit("S import " + d.Text(false))
	}
}
