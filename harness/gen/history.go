package gen

import (
	"fmt"
	"strconv"
	"strings"

	"github.com/moov-io/iso8583/field"

	"verif/harness/impl"
)

// Channel H: operation histories (DESIGN.md §2.4).
//
//  1. exhaustive: every sequence of length 4 (quick) over the 14-letter alphabet on the
//     fixed spec, reported after every op; thorough adds every sequence of length 5 and a
//     sample of length 6 (reported after the last op: the prefixes are the shorter sweeps);
//  2. boundary letters (unset 0 / 1, unknown ids and paths, the bitmap field written
//     directly, describe / json / GetFields between ops, swap after clone) in random
//     sequences over the extended alphabet;
//  3. long random histories over generated specs with nested composites, including
//     inputs that fail to unpack half-way.

func init() {
	extraChannels["H"] = ChannelH
}

// HFixedSpec: String 2, Numeric 3, tagged composite 55 {0a,0b}, nested composite 60
// {n1{x,y,d{u,v}}, p1}, String 66 (second bitmap block). Protocol lines may write it as "@".
const HFixedSpec = impl.HFixedSpec

func hxs(s string) string { return H([]byte(s)) }

// HMessages packs the two inputs of the unpack letters: B's field and subfield set is a
// strict subset of A's.
func HMessages() (a, b string) {
	msgA := "msg(s(" + hxs("0200") + "),f(2,s(" + hxs("5500") + ")),f(3,n(77)),f(55,c(kv(0a,s(" + hxs("AA") + ")),kv(0b,n(12))))," +
		"f(60,c(kv(n1,c(kv(x,s(" + hxs("X1") + ")),kv(y,s(" + hxs("Y1") + ")),kv(d,c(kv(u,s(" + hxs("U1") + ")),kv(v,s(" + hxs("V1") + ")))))),kv(p1,s(" + hxs("P1") + "))))," +
		"f(66,s(" + hxs("zz") + ")))"
	msgB := "msg(s(" + hxs("0210") + "),f(2,s(" + hxs("66") + ")),f(55,c(kv(0a,s(" + hxs("BB") + "))))," +
		"f(60,c(kv(n1,c(kv(x,s(" + hxs("X2") + ")))))))"
	wa, ok1 := packReal("M " + HFixedSpec + " pack " + msgA)
	wb, ok2 := packReal("M " + HFixedSpec + " pack " + msgB)
	if !ok1 || !ok2 {
		panic("history generator: the fixed messages do not pack")
	}
	return H(wa), H(wb)
}

// HMessageMin: a packed message of the fixed spec that holds the MTI and field 2 only (every
// composite of the spec is absent from it).
func HMessageMin() string {
	w, ok := packReal("M " + HFixedSpec + " pack msg(s(" + hxs("0220") + "),f(2,s(" + hxs("77") + ")))")
	if !ok {
		panic("history generator: the minimal fixed message does not pack")
	}
	return H(w)
}

// HResidue: letters that fail half-way through a composite (the decoder stops after it has
// filled some subfields of a field it has not marked), HForget: Unpack of messages that lack
// the composites, HPartial: writes of one member below a composite.
func HResidue() []string {
	a, _ := HMessages()
	wa, _ := impl.UnHex(a)
	return []string{
		"upk:" + H(wa[:len(wa)-3]), "upk:" + H(wa[:len(wa)-12]), "upk:" + H(wa[:len(wa)-20]),
		"set:55:" + hxs("0a02hi0b9"), "set:55:" + hxs("0a02hizz"), "set:60:" + hxs("n105x3ab"), "set:60:" + hxs("n105x3abcp19"),
		"set:60:" + hxs("n106x1ay5b"), // fails inside n1 AFTER n1.x was stored: n1 holds a subfield, 60 marks nothing
		"mar:55:c(kv(0a,s(" + hxs("ok") + ")),kv(0b,s(" + hxs("bad") + ")))",
	}
}

func HForget() []string {
	_, b := HMessages()
	return []string{"upk:" + HMessageMin(), "upk:" + b,
		// SetBytes of a composite field with a valid body that lacks the nested composite / the other subfield
		"set:60:" + hxs("p12ok"), "set:55:" + hxs("0b17")}
}

// HCachedBitmap: histories in which the bitmap object is cached (a Pack, a Clone) BEFORE a JSON
// document with a member "1" is decoded, and the field set changes afterwards.
func HCachedBitmap() []string {
	doc := "jd:doc(f(0,s(" + hxs("0210") + ")),f(1,b(4000000000000000)),f(2,s(" + hxs("42") + ")))"
	var out []string
	for _, first := range []string{"pack", "set:2:" + hxs("41") + ";pack", "mti:" + hxs("0100") + ";pack;json"} {
		for _, later := range []string{"set:66:" + hxs("abc"), "mar:55:c(kv(0a,s(" + hxs("m1") + ")))", "unf:2", "set:3:" + hxs("12")} {
			out = append(out, first+";"+doc+";"+later+";pack", first+";"+doc+";"+later+";json;ids")
		}
	}
	return out
}

func HPartial() []string {
	return []string{
		"mar:55:c(kv(0b,n(7)))", "mar:55:c(kv(0a,s(" + hxs("m1") + ")))", "mar:60:c(kv(p1,s(" + hxs("pp") + ")))",
		"mar:60:c(kv(n1,c(kv(y,s(" + hxs("ny") + ")))))", "jd:doc(f(55,c(kv(0b,n(9)))))", "set:55:" + hxs("0b13"),
	}
}

// HAlphabet: the 14 letters.
func HAlphabet() []string {
	a, b := HMessages()
	return []string{
		"mti:" + hxs("0100"),
		"set:2:" + hxs("4111"),
		"set:66:" + hxs("abc"),
		"mar:55:c(kv(0a,s(" + hxs("m1") + ")))",
		"mar:55:c(kv(0b,n(7)))",
		"mar:60:c(kv(n1,c(kv(d,c(kv(u,s(" + hxs("mu") + ")))))))", // one leaf of the innermost composite
		"jd:doc(f(3,n(42)),f(55,c(kv(0b,n(9)))))",
		"upk:" + a,
		"upk:" + b,
		"unf:2",
		"unf:55",
		"ups:55:" + hxs("0a"),
		"pack",
		"clone",
	}
}

// HNested: the letters of the nested sweep on composite 60 → n1 → d → {u, v}: populate the
// whole chain, unset by path at every level of it, and re-populate only part of what lies
// below the unset point (one leaf, an empty composite, JSON decode of the inner object).
func HNested() []string {
	a, _ := HMessages()
	return []string{
		"upk:" + a,
		"mar:60:c(kv(n1,c(kv(x,s(" + hxs("nx") + ")),kv(d,c(kv(u,s(" + hxs("nu") + ")),kv(v,s(" + hxs("nv") + ")))))),kv(p1,s(" + hxs("np") + ")))",
		"mar:60:c(kv(n1,c(kv(d,c(kv(v,s(" + hxs("pv") + ")))))))",
		"mar:60:c(kv(n1,c(kv(d,c()))))",
		"mar:60:c(kv(n1,c()))",
		"jd:doc(f(60,c(kv(n1,c(kv(d,c(kv(u,s(" + hxs("ju") + ")))))))))",
		"unf:60",
		"ups:60:" + hxs("n1"),
		"ups:60:" + hxs("n1.d"),
		"ups:60:" + hxs("n1.d.u"),
		"pack",
	}
}

// HBoundary: the extra letters of the boundary stream.
func HBoundary() []string {
	a, _ := HMessages()
	wa, _ := impl.UnHex(a)
	return []string{
		"unf:0", "unf:1", "unf:99", "unf:60", "unf:66", "unf:3",
		"ups:99:" + hxs("a"), "ups:55:" + hxs("zz"), "ups:2:" + hxs("x"), "ups:60:" + hxs("n1.x"), "ups:60:" + hxs("n1"),
		"ups:60:" + hxs("n1.x.q"), "ups:60:" + hxs("p1.x"), "ups:55:" + hxs("0b"), "ups:55:-", "ups:60:" + hxs(".n1"),
		"ups:1:" + hxs("x"), "ups:0:-",
		"upm:3:-:2:-:55:" + hxs("0a"), "upm:2:-:60:" + hxs("n1.d.u") + ":66:-", "upm:55:" + hxs("0a.x") + ":2:-", "upm:99:-:66:-",
		"usb:55:" + hxs("0a"), "usb:60:" + hxs("n1"), "usb:2:" + hxs("x"), "usb:55:" + hxs("zz"), "usb:99:" + hxs("a"),
		"set:99:" + hxs("q"), "set:1:" + hxs("\x00\x01"), "set:3:" + hxs("12"), "set:3:" + hxs("1x"), "set:3:-",
		"set:55:" + hxs("0a02hi0b15"), "set:55:" + hxs("0a02hi0b9"), "set:55:" + hxs("0a02hizz"), "set:55:-",
		"set:60:" + hxs("n105x3abcp12ok"), "set:60:" + hxs("n105x3ab"), "set:0:" + hxs("9"),
		"mar:99:s(" + hxs("q") + ")", "mar:2:n(1)", "mar:55:c()", "mar:60:c(kv(p1,s(" + hxs("pp") + ")))", "mar:60:c(kv(n1,c()))",
		"mar:55:c(kv(zz,s(" + hxs("q") + ")))", "mar:0:s(" + hxs("0800") + ")", "mar:1:b(00)", "mar:3:n(-5)",
		"jd:doc(f(99,n(1)))", "jd:doc(f(1,b(0000000000000000)))", "jd:doc(f(2,s(" + hxs("j2") + ")),f(66,s(" + hxs("j66") + ")))",
		"jd:doc(f(60,c(kv(n1,c(kv(x,s(" + hxs("jx") + ")))))))", "jd:doc()", "jd:doc(f(0,s(" + hxs("0420") + ")))",
		"desc", "json", "ids", "swap", "mti:" + hxs("9"),
		"upk:" + H(wa[:len(wa)-3]), "upk:" + H(wa[:14]), "upk:" + H(wa[:3]), "upk:" + H(append(append([]byte{}, wa...), 'x')), "upk:-",
	}
}

func hSeq(alpha []string, idx []int) string {
	parts := make([]string, len(idx))
	for i, k := range idx {
		parts[i] = alpha[k]
	}
	return strings.Join(parts, ";")
}

// all sequences of the given length over the alphabet
func hAll(alpha []string, length int, f func(string)) {
	idx := make([]int, length)
	for {
		f(hSeq(alpha, idx))
		i := length - 1
		for i >= 0 {
			idx[i]++
			if idx[i] < len(alpha) {
				break
			}
			idx[i] = 0
			i--
		}
		if i < 0 {
			return
		}
	}
}

func asciiOnly(v *T) bool {
	if len(v.Kids) == 1 && len(v.Kids[0].Kids) == 0 && (v.Name == "s" || v.Name == "h") {
		b, _ := impl.UnHex(v.Kids[0].Name)
		for _, c := range b {
			if c >= 0x80 {
				return false
			}
		}
		return true
	}
	for _, k := range v.Kids {
		if !asciiOnly(k) {
			return false
		}
	}
	return true
}

// compositeBody returns what Composite.Bytes() gives for a value (the input SetBytes expects).
func compositeBody(spec, val *T) ([]byte, bool) {
	f, ok := impl.FieldOfTree(spec)
	if !ok {
		return nil, false
	}
	c, isC := f.(*field.Composite)
	if !isC || !impl.SetValue(f, val) {
		return nil, false
	}
	defer func() { recover() }()
	b, err := c.Bytes()
	return b, err == nil
}

// subPaths lists the tag paths of a composite spec tree ("a", "a.b", …).
func subPaths(spec *T, prefix string, out *[]string) {
	if spec.Name != "c" {
		return
	}
	for _, s := range spec.Kids[3:] {
		p := s.Kids[0].Name
		if prefix != "" {
			p = prefix + "." + p
		}
		*out = append(*out, p)
		subPaths(s.Kids[1], p, out)
	}
}

// HRandomOps: one random history over a generated message spec.
func HRandomOps(g *FieldGen, spec *T, n int) []string {
	r := g.R
	fields := spec.Kids[2:]
	ss := spec.String()
	wire := func() []byte {
		w, ok := packReal("M " + ss + " pack " + g.Msg(spec).String())
		if !ok {
			return r.Bytes(r.Intn(20))
		}
		return w
	}
	pickField := func() (int, *T) {
		f := fields[r.Intn(len(fields))]
		id, _ := strconv.Atoi(f.Kids[0].Name)
		return id, f.Kids[1]
	}
	var ops []string
	for len(ops) < n {
		switch r.Intn(18) {
		case 16: // one UnsetFields call with several paths (the first one often names a field that is not set)
			var parts []string
			for k := 0; k < 2+r.Intn(2); k++ {
				id, fs := pickField()
				var paths []string
				subPaths(fs, "", &paths)
				p := ""
				if len(paths) > 0 && r.Intn(2) == 0 {
					p = paths[r.Intn(len(paths))]
				}
				if r.Intn(10) == 0 {
					p += ".q"
				}
				parts = append(parts, fmt.Sprintf("%d:%s", id, H([]byte(p))))
			}
			ops = append(ops, "upm:"+strings.Join(parts, ":"))
		case 17: // Composite.UnsetSubfield on the field object itself
			id, fs := pickField()
			tag := "q"
			if fs.Name == "c" && len(fs.Kids) > 3 && r.Intn(12) != 0 {
				tag = fs.Kids[3+r.Intn(len(fs.Kids)-3)].Kids[0].Name
			}
			ops = append(ops, fmt.Sprintf("usb:%d:%s", id, H([]byte(tag))))
		case 0:
			ops = append(ops, "mti:"+H(r.From([]byte("0123456789"), 4)))
		case 1, 2: // SetBytes
			id, fs := pickField()
			v := g.Value(fs, false)
			var raw []byte
			switch v.Name {
			case "s", "b", "h":
				raw, _ = impl.UnHex(v.Kids[0].Name)
				if v.Name == "h" {
					raw = r.Bytes(r.Intn(6))
				}
			case "n":
				raw = []byte(v.Kids[0].Name)
				if r.Intn(6) == 0 {
					raw = append(raw, 'x')
				}
			default:
				b, ok := compositeBody(fs, v)
				if !ok {
					b = r.Bytes(r.Intn(10))
				}
				if r.Intn(3) == 0 && len(b) > 0 {
					b = b[:r.Intn(len(b))]
				}
				raw = b
			}
			ops = append(ops, fmt.Sprintf("set:%d:%s", id, H(raw)))
		case 3, 4, 5: // Marshal
			id, fs := pickField()
			ops = append(ops, fmt.Sprintf("mar:%d:%s", id, g.Value(fs, false).String()))
		case 6: // JSON decode of one or two fields (ASCII text only: escaping belongs to C12)
			var kvs []string
			seen := map[int]bool{}
			for k := 0; k < 1+r.Intn(2); k++ {
				id, fs := pickField()
				v := g.Value(fs, false)
				if seen[id] || !asciiOnly(v) {
					continue
				}
				seen[id] = true
				kvs = append(kvs, fmt.Sprintf("f(%d,%s)", id, v.String()))
			}
			if len(kvs) == 0 {
				ops = append(ops, "jd:doc()")
			} else {
				ops = append(ops, "jd:doc("+strings.Join(kvs, ",")+")")
			}
		case 7, 8: // Unpack: valid, or cut / damaged
			w := wire()
			switch r.Intn(4) {
			case 0:
				if len(w) > 0 {
					w = w[:r.Intn(len(w))]
				}
			case 1:
				if len(w) > 0 {
					w = append([]byte{}, w...)
					w[r.Intn(len(w))] ^= byte(1 + r.Intn(255))
				}
			}
			ops = append(ops, "upk:"+H(w))
		case 9:
			id, _ := pickField()
			if r.Intn(8) == 0 {
				id = Pick(r, []int{0, 1, 999})
			}
			ops = append(ops, fmt.Sprintf("unf:%d", id))
		case 10, 11: // unset by path
			id, fs := pickField()
			var paths []string
			subPaths(fs, "", &paths)
			p := ""
			if len(paths) > 0 {
				p = paths[r.Intn(len(paths))]
			}
			if r.Intn(8) == 0 {
				p += ".q"
			}
			ops = append(ops, fmt.Sprintf("ups:%d:%s", id, H([]byte(p))))
		case 12:
			ops = append(ops, "pack")
		case 13:
			ops = append(ops, Pick(r, []string{"json", "ids", "descb"}))
		case 14:
			ops = append(ops, "clone")
		case 15:
			ops = append(ops, Pick(r, []string{"swap", "pack", "unf:1"}))
		}
	}
	return ops
}

// fullValue sets every subfield of a spec, recursively (primitives get generated values).
func fullValue(g *FieldGen, spec *T) *T {
	if spec.Name != "c" {
		return g.Value(spec, false)
	}
	v := N("c")
	for _, s := range spec.Kids[3:] {
		v.Kids = append(v.Kids, N("kv", A(s.Kids[0].Name), fullValue(g, s.Kids[1])))
	}
	if len(v.Kids) == 0 {
		v.Name = "c()"
	}
	return v
}

// wrapAlong builds the value that holds `inner` at the end of the tag path and nothing else.
func wrapAlong(path []string, inner *T) *T {
	for i := len(path) - 1; i >= 0; i-- {
		inner = N("c", N("kv", A(path[i]), inner))
	}
	return inner
}

type nestedTarget struct {
	path  []string // tags from the message field down to a composite that has a composite child
	child *T       // one composite child of it: sub(tag, spec)
}

func nestedTargets(spec *T, path []string, out *[]nestedTarget) {
	if spec.Name != "c" {
		return
	}
	for _, s := range spec.Kids[3:] {
		if s.Kids[1].Name != "c" {
			continue
		}
		p := append(append([]string{}, path...), s.Kids[0].Name)
		for _, cs := range s.Kids[1].Kids[3:] {
			if cs.Kids[1].Name == "c" {
				*out = append(*out, nestedTarget{p, cs})
			}
		}
		nestedTargets(s.Kids[1], p, out)
	}
}

// HNestedScenario: on a message field with composites nested three deep — populate the whole
// field, unset by path a composite that has a composite child, then re-populate only part of
// that child (one member, an empty composite, or by JSON). nil if the spec has no such chain.
func HNestedScenario(g *FieldGen, spec *T) []string {
	r := g.R
	type cand struct {
		id string
		fs *T
		t  nestedTarget
	}
	var cands []cand
	for _, f := range spec.Kids[2:] {
		var ts []nestedTarget
		nestedTargets(f.Kids[1], nil, &ts)
		for _, t := range ts {
			cands = append(cands, cand{f.Kids[0].Name, f.Kids[1], t})
		}
	}
	if len(cands) == 0 {
		return nil
	}
	c := cands[r.Intn(len(cands))]
	childTag, childSpec := c.t.child.Kids[0].Name, c.t.child.Kids[1]
	ops := []string{fmt.Sprintf("mar:%s:%s", c.id, fullValue(g, c.fs).String())}
	if r.Intn(3) == 0 {
		ops = append(ops, "pack")
	}
	ops = append(ops, fmt.Sprintf("ups:%s:%s", c.id, H([]byte(strings.Join(c.t.path, ".")))))
	// what is written below the unset point
	var inner *T
	members := childSpec.Kids[3:]
	switch {
	case len(members) == 0 || r.Intn(4) == 0:
		inner = &T{Name: "c()"}
	default:
		m := members[r.Intn(len(members))]
		mv := g.Value(m.Kids[1], false)
		if m.Kids[1].Name == "c" && r.Bool() {
			mv = &T{Name: "c()"}
		}
		inner = N("c", N("kv", A(m.Kids[0].Name), mv))
	}
	val := wrapAlong(append(append([]string{}, c.t.path...), childTag), inner)
	if r.Intn(3) == 0 && asciiOnly(val) {
		ops = append(ops, fmt.Sprintf("jd:doc(f(%s,%s))", c.id, val.String()))
	} else {
		ops = append(ops, fmt.Sprintf("mar:%s:%s", c.id, val.String()))
	}
	if r.Bool() {
		ops = append(ops, "pack")
	}
	return ops
}

func ChannelH(t Tier, r *Rng, emit Emit) {
	alpha := HAlphabet()
	// 1. exhaustive sweeps: every sequence of length 1..4 (thorough: ..5), each observed after
	// its last op — the prefixes are the shorter sequences of the same sweep
	emit("H " + HFixedSpec + " " + hSeq(alpha, []int{0, 1, 7, 12})) // the alias "@" means this spec on both sides
	emit("H @ " + hSeq(alpha, []int{0, 1, 7, 12}))
	for l := 1; l <= 4; l++ {
		hAll(alpha, l, func(s string) { emit("Hl @ " + s) })
	}
	if t.Thorough {
		hAll(alpha, 5, func(s string) { emit("Hh @ " + s) }) // reported by hash: 537 824 lines
		for i := 0; i < 30000; i++ {
			idx := make([]int, 6)
			for k := range idx {
				idx[k] = r.Intn(len(alpha))
			}
			emit("Hh @ " + hSeq(alpha, idx))
		}
	}
	// 1b. nested sweep: every sequence of length 1..4 (thorough: ..5) over the letters that
	// unset at every level of a three-level composite chain and re-populate below that point
	nested := HNested()
	for l := 1; l <= 4; l++ {
		hAll(nested, l, func(s string) { emit("Hl @ " + s) })
	}
	if t.Thorough {
		hAll(nested, 5, func(s string) { emit("Hh @ " + s) })
	}
	// 1c. residue / forget / partial write: a decode that fails inside a composite, then an Unpack
	// of a message without that composite, then a write of one member below it
	for _, rs := range HResidue() {
		for _, fg := range HForget() {
			for _, pt := range HPartial() {
				emit("H @ " + rs + ";" + fg + ";" + pt + ";pack")
				emit("H @ " + alpha[r.Intn(len(alpha))] + ";" + rs + ";" + fg + ";" + pt)
			}
		}
	}
	for _, h := range HCachedBitmap() {
		emit("H @ " + h)
	}
	// 2. boundary stream
	ext := append(append(append([]string{}, alpha...), HBoundary()...), nested...)
	for _, b := range HBoundary() { // every boundary letter after every letter, then a pack
		for _, a := range alpha {
			emit("H @ " + a + ";" + b + ";pack;desc")
		}
	}
	for i := 0; i < t.N(1500, 15000); i++ {
		n := 3 + r.Intn(6)
		idx := make([]int, n)
		for k := range idx {
			idx[k] = r.Intn(len(ext))
		}
		emit("H @ " + hSeq(ext, idx))
	}
	// 3. long random histories over generated specs
	g := NewFieldGen(r)
	for i := 0; i < t.N(400, 6000); i++ {
		spec := g.MsgSpec(1 + r.Intn(3))
		ops := HRandomOps(g, spec, 4+r.Intn(t.N(10, 20)))
		emit("H " + spec.String() + " " + strings.Join(ops, ";"))
	}
	// 4. generated specs with composites nested three deep: unset by path at a middle level,
	// then partial re-population below the unset point, with random ops around
	found := 0
	for tries := 0; found < t.N(150, 3000) && tries < t.N(6000, 120000); tries++ {
		spec := g.MsgSpec(3 + r.Intn(2))
		sc := HNestedScenario(g, spec)
		if sc == nil {
			continue
		}
		found++
		ops := append(HRandomOps(g, spec, r.Intn(3)), sc...)
		ops = append(ops, HRandomOps(g, spec, r.Intn(3))...)
		emit("H " + spec.String() + " " + strings.Join(ops, ";"))
	}
}
