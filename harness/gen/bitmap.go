package gen

import (
	"fmt"
	"sort"
	"strconv"
)

// Channel MB: message lines (same syntax and handlers as channel M) that concentrate on the
// bitmap: data elements in the 2nd-4th block for every block size, fixed bitmaps smaller
// than the highest populated element (Pack must fail on both sides), and Unpack of the
// packed images cut inside the bitmap chain.

func init() {
	extraChannels["MB"] = ChannelMB
}

func ChannelMB(t Tier, r *Rng, emit Emit) {
	// bitmapped composites whose subfield numbers reach beyond the (fixed) bitmap
	for i := 0; i < t.N(200, 6000); i++ {
		bl := Pick(r, []int{1, 2, 3, 4, 8, 0})
		eff := bl
		if eff == 0 {
			eff = 8
		}
		B := eff * 8
		ep := Pick(r, [][2]string{{"binary", "binary.F"}, {"bytesToHex", "hex.F"}})
		seen := map[int]bool{}
		var keys []int
		for _, id := range []int{1, 2, B - 1, B, B + 1, B + 2, 2 * B, 1 + r.Intn(B), 1 + r.Intn(2*B)} {
			if id >= 1 && !seen[id] && r.Intn(4) != 0 {
				seen[id] = true
				keys = append(keys, id)
			}
		}
		if len(keys) == 0 {
			continue
		}
		sort.Ints(keys)
		kids := []*T{A("99"), A("ascii.2"), N("b", A(strconv.Itoa(bl)), A(ep[0]), A(ep[1]))}
		for _, id := range keys {
			kids = append(kids, N("sub", A(strconv.Itoa(id)), N("p", A("s"), A("9"), A("ascii"), A("ascii.2"), A("nil"), A("d"))))
		}
		ss := N("c", kids...).String()
		for k := 0; k < 3; k++ {
			v := N("c")
			for _, id := range keys {
				if r.Intn(3) == 0 {
					v.Kids = append(v.Kids, N("kv", A(strconv.Itoa(id)), N("s", A(H(r.From([]byte("ABCxyz019"), r.Intn(5)))))))
				}
			}
			if len(v.Kids) == 0 {
				v.Name = "c()"
			}
			line := fmt.Sprintf("F %s pack %s", ss, v.String())
			emit(line)
			if wire, ok := packReal(line); ok {
				emit(fmt.Sprintf("F %s unpack %s", ss, H(wire)))
			}
		}
	}
	// bitmapped composites nested in bitmapped composites that use ONE bitmap definition (the
	// harness shares identical definitions, as a spec author does with `bm := field.NewBitmap(…)`):
	// the inner Pack runs while the outer bit loop is under way
	for i := 0; i < t.N(150, 4000); i++ {
		bl := Pick(r, []int{1, 2, 3})
		B := bl * 8
		ep := Pick(r, [][2]string{{"binary", "binary.F"}, {"bytesToHex", "hex.F"}})
		mode := func() *T { return N("b", A(strconv.Itoa(bl)), A(ep[0]), A(ep[1])) }
		leaf := func() *T { return N("p", A("s"), A("9"), A("ascii"), A("ascii.2"), A("nil"), A("d")) }
		pickIDs := func(n int) []int {
			seen := map[int]bool{}
			var ks []int
			for len(ks) < n {
				id := 1 + r.Intn(B)
				if !seen[id] {
					seen[id] = true
					ks = append(ks, id)
				}
			}
			sort.Ints(ks)
			return ks
		}
		innerIDs := pickIDs(2 + r.Intn(3))
		inner := []*T{A("99"), A("ascii.2"), mode()}
		for _, id := range innerIDs {
			inner = append(inner, N("sub", A(strconv.Itoa(id)), leaf()))
		}
		outerIDs := pickIDs(3 + r.Intn(3))
		nestAt := outerIDs[r.Intn(len(outerIDs))]
		outer := []*T{A("999"), A("ascii.3"), mode()}
		for _, id := range outerIDs {
			f := leaf()
			if id == nestAt {
				f = N("c", inner...)
			}
			outer = append(outer, N("sub", A(strconv.Itoa(id)), f))
		}
		ss := N("c", outer...).String()
		val := func(ids []int, nested *T) *T {
			v := N("c")
			for _, id := range ids {
				if id == nestAt && nested != nil {
					if len(nested.Kids) > 0 || r.Intn(3) == 0 {
						v.Kids = append(v.Kids, N("kv", A(strconv.Itoa(id)), nested))
					}
					continue
				}
				if r.Intn(3) != 0 {
					v.Kids = append(v.Kids, N("kv", A(strconv.Itoa(id)), N("s", A(H(r.From([]byte("ABCxyz019"), r.Intn(5)))))))
				}
			}
			if len(v.Kids) == 0 {
				v.Name = "c()"
			}
			return v
		}
		for k := 0; k < 3; k++ {
			line := fmt.Sprintf("F %s pack %s", ss, val(outerIDs, val(innerIDs, nil)).String())
			emit(line)
			if wire, ok := packReal(line); ok {
				emit(fmt.Sprintf("F %s unpack %s", ss, H(wire)))
			}
		}
	}
	encs := [][2]string{{"binary", "binary.F"}, {"bytesToHex", "hex.F"}, {"binary", "ascii.F"}}
	for i := 0; i < t.N(500, 20000); i++ {
		bl := Pick(r, []int{1, 2, 3, 4, 5, 7, 8, 8, 0, 16})
		eff := bl
		if eff == 0 {
			eff = 8
		}
		B := eff * 8
		ep := Pick(r, encs)
		auto := i%3 != 0
		a := "0"
		if auto {
			a = "1"
		}
		ids := map[int]bool{}
		add := func(id int) {
			if id >= 2 && !(auto && id%B == 1) {
				ids[id] = true
			}
		}
		for _, id := range []int{2, B - 1, B, B + 2, 2 * B, 2*B + 2, 3 * B, 3*B + 2, 4 * B} {
			if r.Intn(3) != 0 {
				add(id)
			}
		}
		for k := 0; k < 5; k++ {
			add(2 + r.Intn(4*B-1))
		}
		if !auto && r.Intn(3) == 0 {
			add(B + 1)
		}
		if auto && i%4 == 1 {
			// data elements DEFINED at continuation-bit positions of an expanding bitmap (65, 129
			// with 8-byte blocks): the library leaves such an element out of bitmap and body
			// (documented and tested); populated as the highest element, below a higher one, alone
			for _, id := range []int{B + 1, 2*B + 1, 3*B + 1} {
				if r.Intn(2) == 0 {
					ids[id] = true
				}
			}
		}
		var keys []int
		for id := range ids {
			keys = append(keys, id)
		}
		sort.Ints(keys)
		kids := []*T{
			N("p", A("s"), A("4"), A("ascii"), A("ascii.F"), A("nil"), A("d")),
			N("bm", A(strconv.Itoa(bl)), A(ep[0]), A(ep[1]), A(a)),
		}
		for _, id := range keys {
			kids = append(kids, N("f", A(strconv.Itoa(id)), N("p", A("s"), A("20"), A("ascii"), A("ascii.2"), A("nil"), A("d"))))
		}
		ss := N("m", kids...).String()
		for k := 0; k < 3; k++ {
			m := N("msg", N("s", A(H([]byte("0100")))))
			for _, id := range keys {
				if r.Intn(3) == 0 || (k == 2 && id == keys[len(keys)-1]) {
					m.Kids = append(m.Kids, N("f", A(strconv.Itoa(id)), N("s", A(H(r.From([]byte("ABCxyz0189 ="), r.Intn(7)))))))
				}
			}
			line := fmt.Sprintf("M %s pack %s", ss, m.String())
			emit(line)
			wire, ok := packReal(line)
			if !ok {
				continue
			}
			emit(fmt.Sprintf("M %s unpack %s", ss, H(wire)))
			if k == 0 {
				// cut inside / just after the bitmap chain; flip continuation bits
				unit := 1
				if ep[0] == "bytesToHex" {
					unit = 2
				}
				for cut := 4; cut <= 4+4*eff*unit+2 && cut < len(wire); cut++ {
					emit(fmt.Sprintf("M %s unpack %s", ss, H(wire[:cut])))
				}
				if ep[0] == "binary" && len(wire) > 4 {
					mm := append([]byte{}, wire...)
					mm[4] ^= 0x80
					emit(fmt.Sprintf("M %s unpack %s", ss, H(mm)))
				}
			}
		}
	}
}
