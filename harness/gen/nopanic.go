package gen

// Channel W (property C04): `W <ms> <line>` = a protocol line under a watchdog, and the
// one entry point only this channel has in the model, `W <ms> F <spec> setbytes <hex>`
// (SetBytes of primitive and composite fields), on coherent generated specs: the bytes a
// real Bytes() produced, their truncations / mutations, and random bytes. A second stream
// covers the two places where misuse used to panic / hang (repaired findings KF6, KF5):
// bitmaps declared with any prefixer — Fixed or not, both expansion modes, as bare bitmap
// (B), composite bitmap and message bitmap — and tagged composites with Tag.Length 0 and
// zero-width subfields; model and code must agree there too.

import (
	"fmt"
	"strings"

	"verif/harness/impl"
)

func init() { extraChannels["W"] = ChannelW }

const wMs = 2000

func ChannelW(t Tier, r *Rng, emit Emit) {
	g := NewFieldGen(r)
	for i := 0; i < t.N(500, 20000); i++ {
		spec := g.Field(r.Intn(4))
		ss := spec.String()
		v := g.Value(spec, false)
		res := impl.Run(fmt.Sprintf("W %d F %s bytes %s", wMs, ss, v.String()))
		if strings.HasPrefix(res, "ok ") {
			if body, ok := impl.UnHex(strings.TrimPrefix(res, "ok ")); ok {
				emit(fmt.Sprintf("W %d F %s setbytes %s", wMs, ss, H(body)))
				for j, m := range g.Mutate(body) {
					if j > t.N(12, 40) {
						break
					}
					emit(fmt.Sprintf("W %d F %s setbytes %s", wMs, ss, H(m)))
				}
			}
		}
		emit(fmt.Sprintf("W %d F %s setbytes %s", wMs, ss, H(r.Bytes(r.Intn(10)))))
		emit(fmt.Sprintf("W %d F %s setbytes -", wMs, ss))
		// the watchdog wrapper itself: an unpack line through W answers as the plain line does
		if i%5 == 0 {
			emit(fmt.Sprintf("W %d F %s unpack %s", wMs, ss, H(r.Bytes(r.Intn(10)))))
		}
	}

	anyPref := func() string {
		switch r.Intn(6) {
		case 0:
			return "none"
		case 1:
			return "ber"
		case 2:
			return Pick(r, PrefFams) + ".F"
		}
		return fmt.Sprintf("%s.%d", Pick(r, PrefFams), 1+r.Intn(3))
	}
	// bytes that make length prefixes announce 0, 1, 2 … or fail
	small := func() []byte {
		var out []byte
		for n := r.Intn(4); n >= 0; n-- {
			switch r.Intn(5) {
			case 0:
				out = append(out, r.Bytes(r.Intn(4))...)
			case 1:
				out = append(out, r.From([]byte("0012"), 1+r.Intn(3))...)
			default:
				out = append(out, Pick(r, [][]byte{{0}, {1}, {2}, {0, 0}, {0, 1}, {0x80}, {0x81, 0}, {0x81, 1}, {0xF0}, {0xF0, 0xF1}, {0x40}, {0xC0}, {0xFF}, []byte("00"), []byte("30")})...)
			}
		}
		return out
	}
	benc := func() string {
		return Pick(r, []string{"binary", "binary", "bytesToHex", "ascii", "bcd", "ebcdic", "hexToBytes", "berTag"})
	}
	for i := 0; i < t.N(600, 20000); i++ {
		// bare bitmap
		emit(fmt.Sprintf("W %d B unpack %s %s %d %d %s", wMs, benc(), anyPref(), Pick(r, []int{0, 1, 2, 8}), r.Intn(2), H(small())))
		// composite bitmap (never auto-expands), Unpack and SetBytes
		cb := fmt.Sprintf("c(%d,%s,b(%d,%s,%s),sub(1,p(s,1,ascii,ascii.F,nil,d)),sub(3,p(s,0,ascii,ascii.1,nil,d)))",
			Pick(r, []int{0, 3, 9}), Pick(r, []string{"none", "ascii.1", "ber", "ascii.F", "binary.1"}), Pick(r, []int{0, 1, 2}), benc(), anyPref())
		emit(fmt.Sprintf("W %d F %s unpack %s", wMs, cb, H(small())))
		emit(fmt.Sprintf("W %d F %s setbytes %s", wMs, cb, H(small())))
		// message bitmap, both expansion modes
		mb := fmt.Sprintf("m(p(s,%d,ascii,ascii.F,nil,d),bm(%d,%s,%s,%d),f(2,p(s,1,ascii,ascii.F,nil,d)),f(3,p(s,2,ascii,ascii.1,nil,d)))",
			Pick(r, []int{0, 1, 4}), Pick(r, []int{0, 1, 2, 8}), benc(), anyPref(), r.Intn(2))
		emit(fmt.Sprintf("W %d M %s unpack %s", wMs, mb, H(append(r.From([]byte("0123"), r.Intn(5)), small()...))))
		// tagged composite: tag length 0..2, zero-width and one-byte subfields, "" among the keys
		tl := r.Intn(3)
		tenc := Pick(r, []string{"ascii", "bcd", "binary", "ebcdic", "hexToBytes"})
		keys := []string{"", "1", "A", "12"}
		skip, pu := "0", "-"
		if r.Intn(3) == 0 {
			skip, pu = "1", Pick(r, []string{"ascii.1", "ber", "none", "ascii.F", "binary.1"})
		}
		tc := fmt.Sprintf("c(%d,%s,t(%d,%s,%s,str,%s,%s)", Pick(r, []int{0, 3, 9}), Pick(r, []string{"none", "ascii.1", "ber", "ascii.F"}),
			tl, tenc, Pick(r, []string{"nil", "none", "L30"}), skip, pu)
		for _, k := range keys {
			if r.Intn(2) == 0 {
				tc += fmt.Sprintf(",sub(%s,p(s,%d,ascii,%s,nil,d))", k, r.Intn(2), Pick(r, []string{"ascii.F", "ascii.1", "none"}))
			}
		}
		tc += ")"
		emit(fmt.Sprintf("W %d F %s unpack %s", wMs, tc, H(small())))
		emit(fmt.Sprintf("W %d F %s setbytes %s", wMs, tc, H(small())))
	}
}
