package gen

// Channel W (property C04): `W <ms> <line>` = a protocol line under a watchdog, and the
// one entry point only this channel has in the model, `W <ms> F <spec> setbytes <hex>`
// (SetBytes of primitive and composite fields), on coherent generated specs: the bytes a
// real Bytes() produced, their truncations / mutations, and random bytes.

import (
	"fmt"
	"strings"

	"verif/harness/impl"
)

func init() { extraChannels["W"] = ChannelW }

const wMs = 2000

func ChannelW(t Tier, r *Rng, emit Emit) {
	g := NewFieldGen(r)
	for i := 0; i < t.N(500, 20000); i++ {
		spec := g.Field(r.Intn(4))
		ss := spec.String()
		v := g.Value(spec, false)
		res := impl.Run(fmt.Sprintf("W %d F %s bytes %s", wMs, ss, v.String()))
		if strings.HasPrefix(res, "ok ") {
			if body, ok := impl.UnHex(strings.TrimPrefix(res, "ok ")); ok {
				emit(fmt.Sprintf("W %d F %s setbytes %s", wMs, ss, H(body)))
				for j, m := range g.Mutate(body) {
					if j > t.N(12, 40) {
						break
					}
					emit(fmt.Sprintf("W %d F %s setbytes %s", wMs, ss, H(m)))
				}
			}
		}
		emit(fmt.Sprintf("W %d F %s setbytes %s", wMs, ss, H(r.Bytes(r.Intn(10)))))
		emit(fmt.Sprintf("W %d F %s setbytes -", wMs, ss))
		// the watchdog wrapper itself: an unpack line through W answers as the plain line does
		if i%5 == 0 {
			emit(fmt.Sprintf("W %d F %s unpack %s", wMs, ss, H(r.Bytes(r.Intn(10)))))
		}
	}
}
