package gen

import (
	"fmt"
	"strings"
)

// Channel Q: sequences of layer operations on shared objects (see impl/seq.go). The sub-lines are
// drawn from what channels D, E and P generate, grouped by the object they exercise (one padder,
// one encoder singleton, one prefixer singleton), plus directed padder sequences that ask for a
// long pad run, then a short one whose result fits inside it, then a long one again.
func init() { extraChannels["Q"] = ChannelQ }

func ChannelQ(t Tier, r *Rng, emit Emit) {
	groups := map[string][]string{}
	var keys []string
	collect := func(line string) {
		f := strings.SplitN(line, " ", 4)
		if len(f) < 3 {
			return
		}
		key := f[0] + " " + f[1]
		if f[0] == "D" {
			key += " " + f[2]
		}
		if len(line) > 400 {
			return
		}
		if _, ok := groups[key]; !ok {
			keys = append(keys, key)
		}
		groups[key] = append(groups[key], strings.ReplaceAll(line, " ", ","))
	}
	quick := Tier{}
	ChannelD(quick, NewRng(r.U64()), collect)
	ChannelE(quick, NewRng(r.U64()), collect, encodeRealE)
	ChannelP(quick, NewRng(r.U64()), collect, encodeRealP)
	fam := map[byte][]string{}
	for _, k := range keys {
		fam[k[0]] = append(fam[k[0]], k)
	}
	for i := 0; i < t.N(3000, 60000); i++ {
		ks := fam["DEP"[r.Intn(3)]]
		g := groups[ks[r.Intn(len(ks))]]
		n := 2 + r.Intn(5)
		subs := make([]string, n)
		for k := range subs {
			subs[k] = g[r.Intn(len(g))]
		}
		emit("Q " + strings.Join(subs, "|"))
	}
	// directed: one prefixer, neighbouring lengths one after the other (a prefix handed out with spare
	// capacity over a shared table is overwritten by the caller's append)
	for _, k := range fam['P'] {
		name := strings.TrimPrefix(k, "P ")
		if strings.HasSuffix(name, ".F") || name == "none" {
			continue
		}
		for i := 0; i < t.N(6, 60); i++ {
			n := r.Intn(40)
			if i%3 == 0 {
				n = 250 + r.Intn(10)
			}
			subs := []string{}
			for _, d := range []int{0, 1, 2, 0, 3} {
				subs = append(subs, fmt.Sprintf("P,%s,enc,%d,%d", name, 99999, n+d))
			}
			emit("Q " + strings.Join(subs, "|"))
		}
	}
	// directed: one padder object, target lengths long / short / long with short values
	vals := [][]byte{{}, {'a'}, {'a', 'b'}, {'x'}, {'0', '1'}}
	for _, kind := range []string{"L", "R"} {
		for _, c := range []int{'0', ' ', 0} {
			for i := 0; i < t.N(150, 2000); i++ {
				n := 3 + r.Intn(3)
				subs := make([]string, n)
				for k := range subs {
					v := vals[r.Intn(len(vals))]
					subs[k] = fmt.Sprintf("D,%s,%02x,pad,%d,%s,%s", kind, c, len(v)+r.Intn(7), H(v), H([]byte{0xEE, 0xEE, 0xEE}))
				}
				emit("Q " + strings.Join(subs, "|"))
			}
		}
	}
}
