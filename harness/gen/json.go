package gen

import (
	"fmt"
	"strconv"
	"strings"
	"unicode/utf8"

	"verif/harness/impl"
)

// Channel J (property C12): coherent specs × messages whose textual values are valid
// UTF-8 (quotes, backslashes, control characters, multi-byte runes included), plus
// mutated documents for UnmarshalJSON.

func init() {
	extraChannels["J"] = ChannelJ
}

var asciiSpecials = []byte("\"\\/\n\t\r\x00\x01\x1f\x7f<>&' bfnrtu{}[]:,")
var multi = [][]byte{[]byte("é"), []byte("ß"), []byte("€"), []byte(" "), []byte("�"), []byte("😀"), []byte("\U0010ffff")}

// utf8Text returns valid UTF-8 of exactly n bytes; anyByte = the encoder accepts bytes ≥ 0x80.
func utf8Text(r *Rng, n int, anyByte bool, digitsOnly bool) []byte {
	out := make([]byte, 0, n)
	for len(out) < n {
		left := n - len(out)
		if digitsOnly {
			out = append(out, '0'+byte(r.Intn(10)))
			continue
		}
		if anyByte && r.Intn(3) == 0 {
			m := Pick(r, multi)
			if len(m) <= left {
				out = append(out, m...)
				continue
			}
		}
		if r.Intn(3) == 0 {
			out = append(out, Pick(r, asciiSpecials))
		} else {
			out = append(out, Pick(r, []byte("0123456789ABCxyz")))
		}
	}
	return out
}

// UTF8Value rewrites the String texts of a value so that they are valid UTF-8 of the same
// byte length (and the same first / last byte where that matters to a padder).
func UTF8Value(r *Rng, spec *T, v *T) *T {
	switch spec.Name {
	case "p":
		if v.Name != "s" {
			return v
		}
		enc := spec.Kids[2].Name
		if enc == "hexToBytes" {
			return v
		}
		old := unhex(v.Kids[0].Name)
		if utf8.Valid(old) && r.Intn(3) != 0 {
			return v
		}
		anyByte := enc == "ebcdic" || enc == "binary" || enc == "bytesToHex"
		digits := enc == "bcd" || enc == "lbcd"
		txt := utf8Text(r, len(old), anyByte, digits)
		if !digits && len(old) > 0 {
			// keep ASCII first / last bytes: the padders strip leading / trailing pad characters
			if old[0] < 0x80 && txt[0] < 0x80 {
				txt[0] = old[0]
			}
			if l := len(old) - 1; old[l] < 0x80 && txt[l] < 0x80 && (l == 0 || txt[l-1] < 0x80) {
				txt[l] = old[l]
			}
		}
		if _, c, ok := padInfo(spec.Kids[4].Name); ok && !digits {
			for i := range txt { // a text made of pad characters only would unpad to something shorter
				if txt[i] == c {
					txt[i] = 'q'
				}
			}
			if c == 'q' {
				for i := range txt {
					if txt[i] == 'q' {
						txt[i] = 'w'
					}
				}
			}
		}
		if !utf8.Valid(txt) {
			return N("s", A(H(utf8Text(r, len(old), false, digits))))
		}
		return N("s", A(H(txt)))
	case "c":
		if v.Name != "c" {
			return v
		}
		subSpecs := map[string]*T{}
		for _, s := range spec.Kids[3:] {
			subSpecs[s.Kids[0].Name] = s.Kids[1]
		}
		out := N("c")
		for _, kv := range v.Kids {
			out.Kids = append(out.Kids, N("kv", kv.Kids[0], UTF8Value(r, subSpecs[kv.Kids[0].Name], kv.Kids[1])))
		}
		return out
	}
	return v
}

// UTF8Msg applies UTF8Value to every field of a message content.
func UTF8Msg(r *Rng, spec *T, msg *T) *T {
	specs := map[string]*T{}
	for _, f := range spec.Kids[2:] {
		specs[f.Kids[0].Name] = f.Kids[1]
	}
	out := N("msg", msg.Kids[0])
	for _, f := range msg.Kids[1:] {
		out.Kids = append(out.Kids, N("f", f.Kids[0], UTF8Value(r, specs[f.Kids[0].Name], f.Kids[1])))
	}
	return out
}

func cloneT(t *T) *T {
	c := &T{Name: t.Name}
	for _, k := range t.Kids {
		c.Kids = append(c.Kids, cloneT(k))
	}
	return c
}

// objects lists every object node of a JSON tree
func objects(t *T, out *[]*T) {
	if t.Name == "o" && len(t.Kids) > 0 {
		*out = append(*out, t)
		for _, kv := range t.Kids {
			objects(kv.Kids[1], out)
		}
	}
}

// MutateJSON returns variants of a document tree for UnmarshalJSON.
func MutateJSON(r *Rng, doc *T) []*T {
	var out []*T
	mut := func(f func(o *T) bool) {
		c := cloneT(doc)
		var objs []*T
		objects(c, &objs)
		if len(objs) == 0 {
			return
		}
		if f(Pick(r, objs)) {
			out = append(out, c)
		}
	}
	hexs := func(s string) *T { return A(H([]byte(s))) }
	mut(func(o *T) bool { // drop a member
		i := r.Intn(len(o.Kids))
		o.Kids = append(o.Kids[:i:i], o.Kids[i+1:]...)
		if len(o.Kids) == 0 {
			o.Name = "o()"
		}
		return true
	})
	mut(func(o *T) bool { // unknown key
		o.Kids = append(o.Kids, N("kv", hexs(Pick(r, []string{"999", "ZZ", "7F7F", "", "-3", "1e2"})), N("s", A("3132"))))
		return true
	})
	mut(func(o *T) bool { // wrong value type
		kv := Pick(r, o.Kids)
		switch kv.Kids[1].Name {
		case "s":
			kv.Kids[1] = N("n", A("12"))
		case "n":
			kv.Kids[1] = N("s", A("3132"))
		default:
			kv.Kids[1] = A("x")
		}
		return true
	})
	mut(func(o *T) bool { // odd / non-hex text, other strings
		kv := Pick(r, o.Kids)
		if kv.Kids[1].Name != "s" {
			return false
		}
		kv.Kids[1] = N("s", A(H([]byte(Pick(r, []string{"abc", "0G", "", "0a0B", "\"\\", "é"})))))
		return true
	})
	mut(func(o *T) bool { // numbers at the edge of int
		kv := Pick(r, o.Kids)
		if kv.Kids[1].Name != "n" {
			return false
		}
		kv.Kids[1] = N("n", A(Pick(r, []string{"0", "-1", "9223372036854775807", "9223372036854775808", "-9223372036854775808", "-9223372036854775809", "123456789012345678901234567890"})))
		return true
	})
	mut(func(o *T) bool { // the same key twice: the last one wins
		kv := cloneT(Pick(r, o.Kids))
		if kv.Kids[1].Name == "s" {
			kv.Kids[1] = N("s", A("3031"))
		}
		o.Kids = append(o.Kids, kv)
		return true
	})
	mut(func(o *T) bool { // Atoi accepts a sign and leading zeros (single occurrence)
		kv := Pick(r, o.Kids)
		k := string(unhex(kv.Kids[0].Name))
		if _, err := strconv.Atoi(k); err != nil {
			return false
		}
		kv.Kids[0] = hexs(Pick(r, []string{"+", "0", "00"}) + k)
		return true
	})
	mut(func(o *T) bool { // reverse the member order: order must not matter to UnmarshalJSON
		for i, j := 0, len(o.Kids)-1; i < j; i, j = i+1, j-1 {
			o.Kids[i], o.Kids[j] = o.Kids[j], o.Kids[i]
		}
		return true
	})
	out = append(out, N("s", A("3132")), A("x"), A("o()"))
	return out
}

// ChannelJ: marshal / round trip of generated messages, then UnmarshalJSON of the emitted
// documents and of mutated ones.
func ChannelJ(t Tier, r *Rng, emit Emit) {
	g := NewFieldGen(r)
	for i := 0; i < t.N(1500, 12000); i++ {
		spec := g.MsgSpec(r.Intn(4))
		ss := spec.String()
		for k := 0; k < 2; k++ {
			msg := UTF8Msg(r, spec, g.Msg(spec))
			if k == 1 && r.Intn(4) == 0 { // a message that can not be packed: an over-long value
				if len(spec.Kids) > 2 {
					f := spec.Kids[2]
					msg = N("msg", msg.Kids[0], N("f", f.Kids[0], UTF8Value(r, f.Kids[1], g.Value(f.Kids[1], true))))
				}
			}
			line := fmt.Sprintf("J %s marshal %s", ss, msg.String())
			emit(line)
			emit(fmt.Sprintf("J %s rt %s", ss, msg.String()))
			res := impl.Run(line)
			if !strings.HasPrefix(res, "ok ") {
				continue
			}
			doc, ok := impl.ParseTree(strings.TrimPrefix(res, "ok "))
			if !ok {
				continue
			}
			emit(fmt.Sprintf("J %s unmarshal %s", ss, doc.String()))
			emit(fmt.Sprintf("J %s dom %s", ss, msg.String()))
			if k == 0 {
				for _, m := range MutateJSON(r, doc) {
					emit(fmt.Sprintf("J %s unmarshal %s", ss, m.String()))
				}
			}
		}
	}
}
