package gen

// Channel JS: string literals through encoding/json (line formats: harness/impl/jsontext.go;
// model: lean/Iso8583/Model/JsonText.lean).
//
// emit:  the empty string, all single bytes, all byte pairs, valid UTF-8 of every length
//        class at the class boundaries (incl. U+2028 / U+2029 and their neighbours, U+FFFD),
//        ill-formed sequences (surrogate range, beyond U+10FFFF, overlong forms, truncated
//        sequences, stray continuation bytes) alone and inside ASCII context, random mixtures.
// parse: every literal emitted above; hand-made literals: `\` followed by every byte, `\u`
//        with 0–4 hex digits of both cases, code points at every boundary, surrogate pairs and
//        lone / reversed surrogates followed by everything, raw control characters, raw quotes,
//        raw bytes >= 0x80 (all single bytes, all pairs), missing quotes, trailing backslashes,
//        surrounding white space, `null` and other non-string documents, random mixtures.

import (
	"encoding/json"
	"fmt"
	"unicode/utf8"
)

func init() { extraChannels["JS"] = ChannelJS }

func jsRune(r rune) []byte {
	b := make([]byte, 4)
	return b[:utf8.EncodeRune(b, r)]
}

var jsBoundaryRunes = []rune{0, 1, 0x1f, 0x20, 0x7e, 0x7f, 0x80, 0xff, 0x7ff, 0x800, 0xfff, 0x1000, 0x2027, 0x2028, 0x2029, 0x202a,
	0x2068, 0x20a8, 0xcfff, 0xd000, 0xd7ff, 0xe000, 0xfffc, 0xfffd, 0xfffe, 0xffff, 0x10000, 0x1f600, 0x3ffff, 0x40000, 0xfffff, 0x100000, 0x10ffff}

// ill-formed byte sequences
func jsIllFormed() [][]byte {
	out := [][]byte{
		{0xC0, 0x80}, {0xC1, 0xBF}, {0xC2}, {0xC2, 0x7F}, {0xC2, 0xC0}, {0xDF}, {0x80}, {0xBF}, {0xFF}, {0xFE}, {0xF8, 0x88, 0x80, 0x80, 0x80},
		{0xE2, 0x80}, {0xE2}, {0xF0, 0x9F, 0x98}, {0xF0, 0x9F}, {0xF0},
		{0xED, 0xA0, 0x80}, {0xED, 0xAF, 0xBF}, {0xED, 0xB0, 0x80}, {0xED, 0xBF, 0xBF}, // surrogates
		{0xED, 0xA0, 0x80, 0xED, 0xB0, 0x80},                                           // CESU-8 pair
		{0xF4, 0x90, 0x80, 0x80}, {0xF5, 0x80, 0x80, 0x80}, {0xF7, 0xBF, 0xBF, 0xBF}, // > U+10FFFF
		{0xE0, 0x80, 0x80}, {0xE0, 0x9F, 0xBF}, {0xF0, 0x80, 0x80, 0x80}, {0xF0, 0x8F, 0xBF, 0xBF}, // overlong
	}
	for _, l := range []byte{0xE0, 0xE1, 0xE2, 0xEC, 0xED, 0xEE, 0xEF} {
		for _, c1 := range []byte{0x7F, 0x80, 0x8F, 0x90, 0x9F, 0xA0, 0xBF, 0xC0} {
			for _, c2 := range []byte{0x22, 0x7F, 0x80, 0xA8, 0xA9, 0xBF, 0xC0} {
				out = append(out, []byte{l, c1, c2})
			}
		}
	}
	for _, l := range []byte{0xF0, 0xF1, 0xF3, 0xF4, 0xF5} {
		for _, c1 := range []byte{0x7F, 0x80, 0x8F, 0x90, 0xBF, 0xC0} {
			for _, c2 := range []byte{0x5C, 0x80, 0xBF, 0xC0} {
				for _, c3 := range []byte{0x7F, 0x80, 0xBF, 0xC0} {
					out = append(out, []byte{l, c1, c2, c3})
				}
			}
		}
	}
	return out
}

var jsPieces = [][]byte{
	[]byte("a"), []byte("Z"), []byte("0"), []byte(" "), []byte("\""), []byte("\\"), []byte("/"), []byte("'"), []byte("<"), []byte(">"), []byte("&"),
	{0}, {8}, {9}, {10}, {12}, {13}, {0x1f}, {0x7f}, []byte("u"), []byte("\\u"), []byte("00"), []byte("d8"), []byte("DC"), []byte("2028"),
	{0xC3, 0xA9}, {0xE2, 0x80, 0xA8}, {0xE2, 0x80, 0xA9}, {0xE2, 0x82, 0xAC}, {0xEF, 0xBF, 0xBD}, {0xF0, 0x9F, 0x98, 0x80},
	{0xFF}, {0xC3}, {0xE2, 0x80}, {0x80}, {0xED, 0xA0, 0x80}, {0xF4, 0x90, 0x80, 0x80},
	[]byte("\\n"), []byte("\\\""), []byte("\\\\"), []byte("\\ud83d"), []byte("\\ude00"), []byte("\\uD800"), []byte("\\uDFFF"), []byte("\\u0041"), []byte("\\u20"),
}

func jsMix(r *Rng, n int) []byte {
	var out []byte
	for i := 0; i < n; i++ {
		out = append(out, Pick(r, jsPieces)...)
	}
	return out
}

func quoted(body []byte) []byte {
	return append(append([]byte{'"'}, body...), '"')
}

func ChannelJS(t Tier, r *Rng, emit Emit) {
	doEmit := func(s []byte) {
		emit("JS emit " + H(s))
		lit, err := json.Marshal(string(s))
		if err == nil {
			emit("JS parse " + H(lit))
		}
	}
	parse := func(lit []byte) { emit("JS parse " + H(lit)) }

	// ---- emit (and parse of every emitted literal)
	doEmit(nil)
	for a := 0; a < 256; a++ {
		doEmit([]byte{byte(a)})
	}
	for a := 0; a < 256; a++ {
		for b := 0; b < 256; b++ {
			doEmit([]byte{byte(a), byte(b)})
		}
	}
	for _, c := range jsBoundaryRunes {
		u := jsRune(c)
		doEmit(u)
		doEmit(append(append([]byte("a"), u...), 'b'))
		doEmit(append(append([]byte{}, u...), u...))
		for _, d := range []rune{0x22, 0x2028, 0xe9, 0x10000} {
			doEmit(append(append([]byte{}, u...), jsRune(d)...))
			doEmit(append(jsRune(d), u...))
		}
	}
	for _, s := range jsIllFormed() {
		doEmit(s)
		doEmit(append(append([]byte("a"), s...), 'b'))
		doEmit(append(append([]byte{0xE2, 0x80, 0xA8}, s...), 0xC3, 0xA9))
		doEmit(append(append([]byte{}, s...), 0x80))
	}
	for i := 0; i < t.N(400, 20000); i++ {
		// random code points of every plane
		var s []byte
		for k := r.Intn(4) + 1; k > 0; k-- {
			var c rune
			switch r.Intn(4) {
			case 0:
				c = rune(r.Intn(0x80))
			case 1:
				c = rune(0x80 + r.Intn(0x780))
			case 2:
				c = rune(0x800 + r.Intn(0xF800))
			default:
				c = rune(0x10000 + r.Intn(0x100000))
			}
			s = append(s, jsRune(c)...) // surrogates come out as U+FFFD
		}
		doEmit(s)
	}
	for i := 0; i < t.N(3000, 200000); i++ {
		doEmit(jsMix(r, r.Intn(7)))
	}
	for i := 0; i < t.N(1000, 100000); i++ {
		doEmit(r.Bytes(r.Intn(9)))
	}

	// ---- parse: hand-made literals
	for _, lit := range [][]byte{nil, []byte(`"`), []byte(`""`), []byte(`"""`), []byte(`abc`), []byte(`"abc`), []byte(`abc"`), []byte(`'abc'`),
		[]byte(`"abc\"`), []byte(`"\"`), []byte(`"\\"`), []byte(`"\\\"`), []byte(`"\\\\"`), []byte(`"a\`), []byte(`\"a"`),
		[]byte(` "a"`), []byte(`"a" `), []byte("\t\r\n \"a\"\n\r\t "), []byte("\x0b\"a\""), []byte("\"a\"\x0c"), []byte("\xc2\xa0\"a\""), []byte(`"a" "b"`), []byte(`"a""b"`), []byte(`"a"x`), []byte(`x"a"`),
		[]byte(`"a","b"`), []byte(`null`), []byte(` null `), []byte(`nul`), []byte(`nulll`), []byte(`null"`), []byte(`"null"`), []byte(`NULL`), []byte(`true`), []byte(`false`),
		[]byte(`0`), []byte(`123`), []byte(`-1.5e3`), []byte(`{}`), []byte(`[]`), []byte(`["a"]`), []byte(`{"a":"b"}`), []byte(` `), []byte(`A`)} {
		parse(lit)
	}
	for a := 0; a < 256; a++ {
		parse(quoted([]byte{byte(a)}))                 // raw byte (control characters, quote, backslash, >= 0x80)
		parse(quoted([]byte{'a', byte(a), 'b'}))       //   … in context
		parse(quoted([]byte{'\\', byte(a)}))           // every escape letter
		parse(quoted([]byte{'x', '\\', byte(a), 'y'})) //   … in context
		parse(quoted([]byte{'\\', 'u', '0', '0', '4', byte(a)}))
		parse(quoted([]byte{'\\', 'u', byte(a), '0', '4', '1'}))
		parse(quoted([]byte{'\\', 'u', 'd', '8', '0', '0', byte(a)}))
		parse(quoted([]byte{'\\', 'u', 'd', '8', '0', '0', '\\', byte(a)}))
		parse([]byte{byte(a), '"', 'a', '"'})
		parse([]byte{'"', 'a', '"', byte(a)})
		parse([]byte{byte(a)})
	}
	for a := 0; a < 256; a++ {
		for b := 0; b < 256; b++ {
			parse(quoted([]byte{byte(a), byte(b)}))
		}
	}
	hexDigits := []byte("0123456789abcdefABCDEF")
	other := []byte("gG/:@`x \"\\")
	// \u with 0..4 hex digits, then end of literal / a non-hex character / more hex
	for n := 0; n <= 5; n++ {
		for i := 0; i < t.N(40, 400); i++ {
			body := []byte{'\\', 'u'}
			body = append(body, r.From(hexDigits, n)...)
			parse(quoted(body))
			parse(quoted(append(append([]byte{}, body...), Pick(r, other))))
			parse(quoted(append([]byte("ab"), body...)))
		}
	}
	for _, h1 := range hexDigits {
		for _, h2 := range hexDigits {
			parse(quoted([]byte{'\\', 'u', '0', '0', h1, h2}))
			parse(quoted([]byte{'\\', 'u', h1, h2, '0', '0'}))
			parse(quoted([]byte{'\\', 'u', h1, h2, 'f', 'F'}))
			parse(quoted([]byte{'\\', 'u', 'd', h1, h2, '0', '\\', 'u', 'D', h2, h1, 'f'}))
		}
	}
	units := []string{"0000", "001f", "0022", "0041", "005C", "007f", "0080", "07ff", "0800", "2028", "2029", "d7ff", "D7FF", "d800", "D800", "d83d", "dbff", "DBFF",
		"dc00", "DC00", "de00", "dfff", "DFFF", "e000", "fffd", "FFFD", "ffff", "FFFF"}
	after := [][]byte{nil, []byte("a"), []byte("\\n"), []byte("\\"), []byte("\\u"), []byte("\\u12"), []byte("\\ud"), []byte("\\udc0"), []byte("\\udc0g"), []byte("\\Udc00"), []byte("\\\\udc00"),
		[]byte("u"), []byte("udc00"), {0xE2, 0x80, 0xA8}, {0xED, 0xB0, 0x80}, {0xFF}, {0x01}, []byte("\"")}
	for _, u1 := range units {
		for _, x := range after {
			parse(quoted(append([]byte("\\u"+u1), x...)))
		}
		for _, u2 := range units {
			parse(quoted([]byte("\\u" + u1 + "\\u" + u2)))
			parse(quoted([]byte("<\\u" + u1 + "\\u" + u2 + ">")))
			parse(quoted([]byte("\\u" + u1 + "\\u" + u2 + "\\u" + u1)))
		}
	}
	for i := 0; i < t.N(2000, 100000); i++ {
		// random UTF-16 units
		var body []byte
		for k := r.Intn(4) + 1; k > 0; k-- {
			var u int
			switch r.Intn(3) {
			case 0:
				u = 0xD800 + r.Intn(0x800)
			case 1:
				u = r.Intn(0x10000)
			default:
				u = Pick(r, []int{0xD800, 0xDBFF, 0xDC00, 0xDFFF, 0x41})
			}
			f := "\\u%04x"
			if r.Bool() {
				f = "\\u%04X"
			}
			body = append(body, []byte(fmt.Sprintf(f, u))...)
		}
		parse(quoted(body))
	}
	for _, s := range jsIllFormed() {
		parse(quoted(s))
		parse(quoted(append(append([]byte("\\u00e9"), s...), '\\', 'n')))
	}
	for i := 0; i < t.N(5000, 300000); i++ {
		body := jsMix(r, r.Intn(7))
		switch r.Intn(12) {
		case 0:
			parse(body)
		case 1:
			parse(append([]byte{'"'}, body...))
		case 2:
			parse(append(body, '"'))
		case 3:
			parse(append(append([]byte(" \n"), quoted(body)...), '\t'))
		default:
			parse(quoted(body))
		}
	}
	for i := 0; i < t.N(1000, 100000); i++ {
		parse(quoted(r.Bytes(r.Intn(7))))
	}
}
