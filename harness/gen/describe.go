package gen

// Channel X: inputs for the Describe filters. Strings of every length 0..25 over digits and a
// few symbols (separators, '^', '?', spaces, multi-byte and invalid UTF-8) through each filter
// function, plus well-formed and nearly well-formed track 1/2/3 texts.

import "fmt"

func init() { extraChannels["X"] = ChannelX }

var FilterNames = []string{"PANFilter", "PINFilter", "EMVFilter", "NoOpFilter", "Track1Filter", "Track2Filter", "Track3Filter"}

var digits = []byte("0123456789")

func Digits(r *Rng, n int) []byte { return r.From(digits, n) }

// symbols that matter to the filters; multi-byte pieces are kept whole. No Unicode white space
// other than ASCII (the model's TrimSpace is ASCII-only).
var xPieces = [][]byte{
	[]byte("0"), []byte("1"), []byte("5"), []byte("9"), []byte("="), []byte("D"), []byte("^"), []byte("?"), []byte(" "), []byte("B"),
	[]byte("a"), []byte("/"), []byte("*"), []byte("\t"), {0xC3, 0xA9}, {0xE2, 0x82, 0xAC}, {0xF0, 0x9F, 0x98, 0x80}, {0xFF}, {0xC3}, {0xE2, 0x82}, {0x80},
}

func randText(r *Rng, n int, digitBias int) []byte {
	var out []byte
	for len(out) < n {
		if r.Intn(100) < digitBias {
			out = append(out, digits[r.Intn(10)])
		} else {
			out = append(out, Pick(r, xPieces)...)
		}
	}
	return out
}

func expiry(r *Rng, valid bool) []byte {
	mm := 1 + r.Intn(12)
	if !valid {
		mm = Pick(r, []int{0, 13, 20, 99})
	}
	return []byte(fmt.Sprintf("%02d%02d", r.Intn(100), mm))
}

// Track2Text builds track 2 data; mut != 0 breaks one rule of the grammar.
func Track2Text(r *Rng, panLen int, mut int) []byte {
	pan := Digits(r, panLen)
	sep := Pick(r, []byte{'=', 'D'})
	exp := expiry(r, mut != 1)
	code := Digits(r, 3)
	dd := randDD(r, 1+r.Intn(12))
	switch mut {
	case 2:
		sep = Pick(r, []byte{'^', 'd', ' '})
	case 3:
		dd = nil
	case 4:
		dd = append(dd, '?')
	case 5:
		code = code[:2]
		dd = []byte{'x'}
	case 6:
		dd = append([]byte{' '}, append(dd, ' ', '\t')...)
	case 7:
		dd = []byte("  ")
	}
	out := append(append([]byte{}, pan...), sep)
	out = append(append(out, exp...), code...)
	return append(out, dd...)
}

func randDD(r *Rng, n int) []byte {
	alpha := []byte("0123456789ABCdef /=^D*")
	return r.From(alpha, n)
}

func Track1Text(r *Rng, panLen int, mut int) []byte {
	fc := byte('A' + r.Intn(26))
	pan := Digits(r, panLen)
	name := r.From([]byte("ABCDEFGHIJ/ .xyz"), 2+r.Intn(25))
	exp := expiry(r, mut != 1)
	code := Digits(r, 3)
	if r.Intn(5) == 0 {
		exp = []byte("^")
	}
	if r.Intn(5) == 0 {
		code = []byte("^")
	}
	dd := randDD(r, 1+r.Intn(10))
	switch mut {
	case 2:
		fc = 'b'
	case 3:
		dd = nil
	case 4:
		dd = append(dd, '?')
	case 5:
		name = name[:1]
	case 6:
		name = append([]byte("  "), name...)
		dd = append(dd, ' ')
	case 7:
		name = []byte("   ")
		dd = []byte("^")
	case 8:
		name = r.From([]byte("ABC"), 27)
	}
	out := append([]byte{fc}, pan...)
	out = append(out, '^')
	out = append(out, name...)
	out = append(out, '^')
	out = append(append(out, exp...), code...)
	return append(out, dd...)
}

func Track3Text(r *Rng, panLen int, mut int) []byte {
	fc := Digits(r, 2)
	pan := Digits(r, panLen)
	dd := randDD(r, 1+r.Intn(20))
	sep := byte('=')
	switch mut {
	case 1:
		sep = 'D'
	case 2:
		dd = nil
	case 3:
		dd = append(dd, '?')
	case 4:
		dd = []byte("=")
	case 5:
		dd = append([]byte(" "), append(dd, ' ')...)
	}
	out := append(append([]byte{}, fc...), pan...)
	out = append(out, sep)
	return append(out, dd...)
}

func ChannelX(t Tier, r *Rng, emit Emit) {
	for _, id := range []string{"0", "1", "2", "3", "20", "34", "35", "36", "45", "52", "55", "64", "-1", "02"} {
		emit("X default " + id)
	}
	reps := t.N(6, 60)
	for _, f := range FilterNames {
		for n := 0; n <= 25; n++ {
			emit(fmt.Sprintf("X filter %s %s", f, H(Digits(r, n))))
			for k := 0; k < reps; k++ {
				emit(fmt.Sprintf("X filter %s %s", f, H(randText(r, n, Pick(r, []int{0, 50, 90})))))
			}
		}
	}
	// structured track texts through every filter (a track text through the wrong filter must come back unchanged or masked as that filter dictates)
	nTrack := t.N(400, 20000)
	for i := 0; i < nTrack; i++ {
		panLen := Pick(r, []int{1, 4, 7, 8, 9, 12, 13, 15, 16, 18, 19, 20, 21})
		mut := 0
		if r.Intn(3) == 0 {
			mut = 1 + r.Intn(8)
		}
		var txt []byte
		switch i % 3 {
		case 0:
			txt = Track2Text(r, panLen, mut)
		case 1:
			txt = Track1Text(r, panLen, mut)
		default:
			txt = Track3Text(r, panLen, mut)
		}
		f := []string{"Track2Filter", "Track1Filter", "Track3Filter"}[i%3]
		if r.Intn(10) == 0 {
			f = Pick(r, FilterNames)
		}
		emit(fmt.Sprintf("X filter %s %s", f, H(txt)))
	}
}
