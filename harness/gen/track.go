package gen

// Channel Y: the three track field kinds (properties C01, C02, C10 for tracks).
// Line formats: see harness/impl/track.go. The generator produces
//
//   - coherent specs (text encoders ASCII / EBCDIC / EBCDIC-1047 / Binary / BytesToASCIIHex x
//     every prefix family x Fixed, L..LLLLLL, BER-TLV x padding; the Track2 packer with a
//     left or right pad as in field/packer_unpacker_test.go) with in-domain values
//     (DESIGN §2.3) — `dom`, `rt`, `pack`, `unpack` with and without trailing bytes;
//   - the "regex level" spec t(k,0,binary,none,nil,d) (the value is the whole input);
//   - specs that can not carry track text (BCD, LBCD, the shipped specs/track2.go combination
//     ASCIIHexToBytes + Binary.L) for model agreement on the failure paths;
//   - boundary and out-of-domain values: PAN lengths 0/1/19/20, years 1968/1969/2068/2069,
//     names of 1/2/26/27 code points (ASCII and multi-byte), FixedLength, data with '?', '^',
//     '=', blanks, tabs, NBSP, invalid UTF-8, placeholders, empty components;
//   - wires: packed values, hand-made texts wrapped by the real wire layer (months 00/13,
//     blank groups, placeholders, zero-length value), and byte-level mutations;
//   - `unpack2` / `setunpack`: a second Unpack into a used object, in particular one whose
//     value is empty or whose optional components are absent.

import (
	"fmt"
	"strings"
	"unicode/utf8"

	"github.com/moov-io/iso8583/field"

	"verif/harness/impl"
)

func init() { extraChannels["Y"] = ChannelY }

type TrackSpecGen struct {
	Kind   int
	Len    int
	Enc    string
	Pref   string
	Pad    string // nil | none | Lxx | Rxx
	Packer string // d | t2
}

func (s TrackSpecGen) Tree() *T {
	return N("t", A(fmt.Sprint(s.Kind)), A(fmt.Sprint(s.Len)), A(s.Enc), A(s.Pref), A(s.Pad), A(s.Packer))
}
func (s TrackSpecGen) String() string { return s.Tree().String() }

// asciiOnly: the encoder accepts only bytes <= 0x7F
func (s TrackSpecGen) asciiOnly() bool { return s.Enc == "ascii" || s.Enc == "ebcdic1047" }

var trackTextEncs = []string{"ascii", "ebcdic", "ebcdic1047", "binary", "bytesToHex"}

var trackDefaultLen = map[int]int{1: 76, 2: 37, 3: 104}

// CoherentTrackSpec draws a spec satisfying TrackSpec.coherent (Spec/TrackDomain.lean).
func CoherentTrackSpec(r *Rng, kind int) TrackSpecGen {
	s := TrackSpecGen{Kind: kind, Enc: Pick(r, trackTextEncs), Pad: "nil", Packer: "d"}
	s.Len = trackDefaultLen[kind] + r.Intn(40)
	switch r.Intn(10) {
	case 0:
		s.Pref = "ber"
	case 1:
		s.Pref = Pick(r, []string{"ascii", "bcd", "binary", "ebcdic", "ebcdic1047"}) + ".F"
	default:
		fam := Pick(r, PrefFams)
		d := 2 + r.Intn(5)
		if fam == "binary" || fam == "hex" {
			d = 1 + r.Intn(6)
		}
		s.Pref = fmt.Sprintf("%s.%d", fam, d)
	}
	switch r.Intn(6) {
	case 0:
		s.Pad = "none"
	case 1:
		s.Pad = Pick(r, []string{"L20", "L30", "L2a", "R20", "R30", "R7e", "L00"})
	case 2:
		// the custom packer, as in TestTrack2Packer: a real pad and a length-carrying prefix
		// (K3 of Spec/Coherent.lean: "the custom Track2 packer needs a real pad")
		if kind == 2 && !strings.HasSuffix(s.Pref, ".F") {
			s.Packer = "t2"
			s.Pad = Pick(r, []string{"L30", "L20", "R20", "R46"})
		}
	}
	if strings.HasSuffix(s.Pref, ".F") && s.Pad == "nil" && r.Intn(3) != 0 {
		s.Pad = Pick(r, []string{"R20", "L20"})
	}
	if (s.Pad[0] == 'L' || s.Pad[0] == 'R') && s.Packer == "d" && s.Len > capacity(s.Pref) {
		s.Len = capacity(s.Pref)
	}
	return s
}

// ---------------------------------------------------------------- values

func hx(b []byte) *T { return A(H(b)) }

type TrackValGen struct {
	Kind  int
	Fixed bool
	FC    []byte
	PAN   []byte
	Name  []byte
	Sep   []byte
	Exp   int // 0 = nil, else year*100+month
	SC    []byte
	DD    []byte
}

func (v TrackValGen) Tree() *T {
	exp := "-"
	if v.Exp != 0 {
		exp = fmt.Sprint(v.Exp)
	}
	switch v.Kind {
	case 1:
		fl := "0"
		if v.Fixed {
			fl = "1"
		}
		return N("v1", A(fl), hx(v.FC), hx(v.PAN), hx(v.Name), A(exp), hx(v.SC), hx(v.DD))
	case 2:
		return N("v2", hx(v.PAN), hx(v.Sep), A(exp), hx(v.SC), hx(v.DD))
	}
	return N("v3", hx(v.FC), hx(v.PAN), hx(v.DD))
}


// white space per unicode.IsSpace, and bytes that are not
var uniSpaces = [][]byte{{' '}, {'\t'}, {'\n'}, {'\v'}, {'\f'}, {'\r'}, {0xC2, 0x85}, {0xC2, 0xA0}, {0xE1, 0x9A, 0x80},
	{0xE2, 0x80, 0x80}, {0xE2, 0x80, 0x8A}, {0xE2, 0x80, 0xA8}, {0xE2, 0x80, 0xA9}, {0xE2, 0x80, 0xAF}, {0xE2, 0x81, 0x9F}, {0xE3, 0x80, 0x80}}
var nonSpaces = [][]byte{{0xC2, 0x84}, {0xC2, 0xA1}, {0xE2, 0x80, 0x8B}, {0xE2, 0x80, 0xA7}, {0xE2, 0x81, 0xA0}, {0xE3, 0x80, 0x81},
	{0xC3, 0xA9}, {0xE2, 0x82, 0xAC}, {0xF0, 0x9F, 0x92, 0xB3}, {0xFF}, {0xC2}, {0xE2, 0x80}, {0x80}, {0xA0}, {0x85}, {0xED, 0xA0, 0x80}, {0xF4, 0x90, 0x80, 0x80}, {0xC0, 0x80}, {0x1C}, {0x00}, {0x7F}}

// trackChunk draws one "character" for free text; ascii restricts to bytes <= 0x7F.
func trackChunk(r *Rng, ascii bool, forbid byte) []byte {
	for {
		var c []byte
		switch k := r.Intn(12); {
		case k < 5:
			c = []byte{Pick(r, []byte("ABCXYZabcxyz0123456789"))}
		case k < 7:
			c = []byte{Pick(r, []byte(" /.-=^D$*\t"))}
		case k < 8:
			c = []byte{byte(r.Intn(128))}
		case k < 10 && !ascii:
			c = Pick(r, nonSpaces)
		case k < 11 && !ascii:
			c = Pick(r, uniSpaces)
		default:
			c = []byte{Pick(r, []byte("SMITHJOHNQ 12345"))}
		}
		ok := true
		for _, b := range c {
			if b == forbid || (ascii && b > 0x7F) {
				ok = false
			}
		}
		if ok {
			return c
		}
	}
}

// trimmedText draws n "characters" without `forbid`, not starting or ending with white space.
func trimmedText(r *Rng, n int, ascii bool, forbid byte) []byte {
	for {
		var out []byte
		for i := 0; i < n; i++ {
			out = append(out, trackChunk(r, ascii, forbid)...)
		}
		if len(out) > 0 && strings.TrimSpace(string(out)) == string(out) { // Go's own notion of white space
			return out
		}
	}
}

func pickLen(r *Rng, lo, hi int) int {
	switch r.Intn(6) {
	case 0:
		return lo
	case 1:
		return hi
	case 2:
		if hi > lo {
			return hi - 1
		}
	}
	return lo + r.Intn(hi-lo+1)
}

func pickExpiry(r *Rng) int {
	y := Pick(r, []int{1969, 1970, 1999, 2000, 2001, 2024, 2067, 2068, 1969 + r.Intn(100), 1969 + r.Intn(100)})
	m := Pick(r, []int{1, 12, 1 + r.Intn(12), 1 + r.Intn(12)})
	return y*100 + m
}

// InDomainTrack draws a value satisfying TrackSpec.inDomain for s (DESIGN §2.3).
func InDomainTrack(r *Rng, s TrackSpecGen) TrackValGen {
	ascii := s.asciiOnly()
	v := TrackValGen{Kind: s.Kind}
	for {
		v.PAN = r.From(digits, pickLen(r, 1, 19))
		ddLen := pickLen(r, 1, 12)
		if r.Intn(8) == 0 {
			ddLen = 1
		}
		v.DD = trimmedText(r, ddLen, ascii, '?')
		switch s.Kind {
		case 1:
			v.FC = []byte{byte('A' + r.Intn(26))}
			v.Name = trimmedText(r, pickLen(r, 2, 26), ascii, '^')
			if n := utf8.RuneCount(v.Name); n < 2 || n > 26 { // regexp counts code points
				continue
			}
			v.Exp, v.SC = 0, nil
			if r.Intn(4) != 0 {
				v.Exp = pickExpiry(r)
			}
			if r.Intn(4) != 0 {
				v.SC = r.From(digits, 3)
			}
			if string(v.DD) == "^" {
				continue
			}
		case 2:
			v.Sep = Pick(r, [][]byte{nil, {'='}, {'D'}})
			v.Exp = pickExpiry(r)
			v.SC = r.From(digits, 3)
		case 3:
			v.FC = r.From(digits, 2)
			if string(v.DD) == "=" {
				continue
			}
		}
		// a padded text must not begin (left) / end (right) with the pad character
		if len(s.Pad) == 3 {
			c, _ := impl.UnHex(s.Pad[1:])
			first := v.PAN[0]
			if s.Kind != 2 {
				first = v.FC[0]
			}
			if s.Pad[0] == 'L' && first == c[0] {
				continue
			}
			if s.Pad[0] == 'R' && v.DD[len(v.DD)-1] == c[0] {
				continue
			}
		}
		return v
	}
}

// BoundaryTracks: values at and beyond the edges of the domain.
func BoundaryTracks(r *Rng, kind int) []TrackValGen {
	base := func() TrackValGen {
		v := TrackValGen{Kind: kind, PAN: []byte("4242424242424242"), DD: []byte("12345"), SC: []byte("201"), Exp: 202408}
		switch kind {
		case 1:
			v.FC, v.Name = []byte("B"), []byte("SMITH/JOHN Q")
		case 3:
			v.FC = []byte("01")
		}
		return v
	}
	var out []TrackValGen
	add := func(f func(v *TrackValGen)) {
		v := base()
		f(&v)
		out = append(out, v)
	}
	add(func(v *TrackValGen) {})
	for _, n := range []int{0, 1, 18, 19, 20, 21} {
		n := n
		add(func(v *TrackValGen) { v.PAN = r.From(digits, n) })
	}
	add(func(v *TrackValGen) { v.PAN = []byte("12A4") })
	add(func(v *TrackValGen) { v.PAN = []byte(" 1234") })
	for _, dd := range []string{"", " ", "  ", "\t", "?", "1?2", "^", " ^ ", "=", " = ", "==", "^^", "=1", "1=", " 12", "12 ", "1 2", "\t12\n",
		"\u00a012", "12\u00a0", "\u00a0", "\u2003x\u2003", "\u200bx\u200b", "\u0085", "x\u0085", "\xc2", "12\xc2", "\xa0", "12\xff", "\u00e9", "D", "2408", "^2408201"} {
		dd := dd
		add(func(v *TrackValGen) { v.DD = []byte(dd) })
	}
	if kind != 3 {
		for _, e := range []int{0, 196801, 196812, 196901, 199912, 200001, 206812, 206901, 101, 999912, 10001, 202401} {
			e := e
			add(func(v *TrackValGen) { v.Exp = e })
		}
		for _, sc := range []string{"", "1", "12", "1234", "12A", " 12", "^", "   "} {
			sc := sc
			add(func(v *TrackValGen) { v.SC = []byte(sc) })
		}
		add(func(v *TrackValGen) { v.Exp, v.SC = 0, nil })
		add(func(v *TrackValGen) { v.Exp, v.SC, v.DD = 0, nil, []byte("^") })
	}
	if kind == 2 {
		for _, sp := range []string{"", "=", "D", "d", "X", "==", " ", "^"} {
			sp := sp
			add(func(v *TrackValGen) { v.Sep = []byte(sp) })
		}
	}
	if kind != 2 {
		fcs := []string{"", "A", "Z", "a", "@", "[", "1", "AB", " "}
		if kind == 3 {
			fcs = []string{"", "0", "00", "99", "123", "A1", " 1", "1 "}
		}
		for _, fc := range fcs {
			fc := fc
			add(func(v *TrackValGen) { v.FC = []byte(fc) })
		}
	}
	if kind == 1 {
		names := []string{"", "A", "AB", " A", "A ", "  ", " AB ", "A^B", "^", "A?B", strings.Repeat("N", 25), strings.Repeat("N", 26), strings.Repeat("N", 27),
			strings.Repeat("N", 40), "\u00e9", "\u00e9\u00e9", strings.Repeat("\u00e9", 26), strings.Repeat("\u00e9", 27), strings.Repeat("\u20ac", 13) + strings.Repeat("N", 13),
			"\xff", "\xff\xff", "A\xc3", strings.Repeat("\xf0\x9f\x92\xb3", 26), "\u00a0AB\u00a0", "A\u00a0", "SMITH/JOHN Q            ", "\tAB"}
		for _, nm := range names {
			nm := nm
			for _, fx := range []bool{false, true} {
				fx := fx
				add(func(v *TrackValGen) { v.Name, v.Fixed = []byte(nm), fx })
			}
		}
		add(func(v *TrackValGen) { v.Fixed = true; v.Name = append(r.From([]byte("AB"), 24), 0xC3, 0xA9, 0xC3, 0xA9, 'Z') })
		add(func(v *TrackValGen) { v.Fixed = true; v.Name = append(r.From([]byte("AB"), 25), 0xE2, 0x82) })
	}
	return out
}

// ---------------------------------------------------------------- wires

var nearSpecs = map[int]TrackSpecGen{
	1: {Kind: 1, Len: 76, Enc: "ascii", Pref: "ascii.2", Pad: "nil", Packer: "d"},
	2: {Kind: 2, Len: 37, Enc: "ascii", Pref: "ascii.2", Pad: "nil", Packer: "d"},
	3: {Kind: 3, Len: 104, Enc: "ascii", Pref: "ascii.3", Pad: "nil", Packer: "d"},
}

// HandTexts: track texts that exercise every branch of the three parsers.
func HandTexts(kind int) []string {
	switch kind {
	case 1:
		return []string{"", "B4242^AB^2408201X", "B4242^AB^^^X", "B4242^AB^2408^X", "B4242^AB^^201X", "B4242^AB^2413201X", "B4242^AB^2400201X",
			"B4242^AB^6901201X", "B4242^AB^6812201X", "B4242^  ^2408201X", "B4242^ A^2408201X", "B4242^A ^2408201X", "B4242^A^2408201X",
			"B4242^AB^2408201 ", "B4242^AB^2408201^", "B4242^AB^2408201 ^ ", "B4242^AB^2408201?", "B4242^AB^2408201", "B4242^AB^240820", "B4242^AB^^^",
			"B4242^AB^^^^", "B4242^AB^^^ ", "b4242^AB^2408201X", "BB4242^AB^2408201X", "4242^AB^2408201X", "B^AB^2408201X", "B42424242424242424242^AB^2408201X",
			"B4242424242424242424^AB^2408201X", "B4242=AB^2408201X", "B4242^AB=2408201X", "B4242^" + strings.Repeat("N", 26) + "^2408201X",
			"B4242^" + strings.Repeat("N", 27) + "^2408201X", "B4242^" + strings.Repeat("\u00e9", 26) + "^2408201X", "B4242^" + strings.Repeat("\u00e9", 27) + "^2408201X",
			"B4242^\xff\xff^2408201X", "B4242^\xff^2408201X", "B4242^A\xc3^2408201X", "B4242^\xc3^2408201X", "B4242^\xe2\x82^2408201X", "B4242^\xe2\x82\xac^2408201X",
			"B4242^\u00a0\u00a0^2408201X", "B4242^\u00a0A\u00a0^2408201X", "B4242^AB^2408201\u00a0", "B4242^AB^2408201\u2003^\u2003", "B4242^AB^24082X1X",
			"B4242^AB^24X8201X", "B4242^AB^0000201X", "B4242^AB^0001201X", "B4242^AB^0012201X", "B4242^AB^9999201X", "B4242^AB^0100201X", "B4242^AB^2408201X\n", "\nB4242^AB^2408201X", "B4242^A\nB^2408201X", "B4242^AB^^201", "B4242^AB^^2", "B4242^AB^2408^"}
	case 2:
		return []string{"", "4242=0000201X", "4242=0000201", "4242=0001201X", "4242=0012201X", "4242=9999201X", "4242=0100201X", "4242=2408201X", "4242D2408201X", "4242d2408201X", "4242^2408201X", "4242=2413201X", "4242=2400201X", "4242=6901201X", "4242=6812201X",
			"4242=2408201 ", "4242=2408201  ", "4242=2408201\t", "4242=2408201\u00a0", "4242=2408201\u3000", "4242=2408201\xa0", "4242=2408201\xc2", "4242=2408201 X ",
			"4242=2408201?", "4242=2408201X?", "4242=2408201", "4242=240820", "=2408201X", "42424242424242424242=2408201X", "4242424242424242424=2408201X",
			"4=2408201X", "4242==2408201X", "4242=2408201=", "4242=2408201^", "4242=^^X", "4242=^201X", "4242=2408^X", " 4242=2408201X", "4242 =2408201X",
			"4242=2408201X\n", "4242=24O8201X", "4242=2408201\n", "=^^", "4242=2408201\xe2\x80\x80", "4242=2408201\xe2\x80", "4242=2408201\xe2\x80\x8b"}
	}
	return []string{"", "0142=X", "0142= ", "0142==", "0142= = ", "0142=?", "0142=", "0142X", "014=X", "01=X", "0=X", "=X", "01" + strings.Repeat("4", 19) + "=X",
		"01" + strings.Repeat("4", 20) + "=X", "A142=X", "0142=X=Y", "0142=\u00a0", "0142=\u00a0=\u00a0", "0142=\xff", "0142=X\n", " 0142=X", "0142 =X", "0142=^"}
}

// WrapText packs an arbitrary text with the wire layer of the spec (through a String field).
func WrapText(s TrackSpecGen, text []byte) ([]byte, bool) {
	_, spec, ok := impl.TrackSpecOfTree(s.Tree())
	if !ok {
		return nil, false
	}
	var out []byte
	var err error
	func() {
		defer func() {
			if recover() != nil {
				err = fmt.Errorf("panic")
			}
		}()
		f := field.NewString(spec)
		f.SetValue(string(text))
		out, err = f.Pack()
	}()
	return out, err == nil
}

var mutBytes = []byte{'?', '^', '=', 'D', ' ', '0', '9', 'A', 'Z', 'a', '\t', 0xC2, 0xA0, 0xFF, 0x00, 0x7F, '/', ':', '@', '['}

func MutateTrackWire(r *Rng, wire []byte, n int) [][]byte {
	var out [][]byte
	if len(wire) == 0 {
		return out
	}
	for k := 0; k < n; k++ {
		m := append([]byte{}, wire...)
		pos := r.Intn(len(m))
		switch r.Intn(5) {
		case 0, 1:
			m[pos] = Pick(r, mutBytes)
		case 2:
			m = append(append(append([]byte{}, m[:pos]...), Pick(r, mutBytes)), m[pos:]...)
		case 3:
			m = append(append([]byte{}, m[:pos]...), m[pos+1:]...)
		case 4:
			m = m[:pos]
		}
		out = append(out, m)
	}
	return out
}

func ChannelY(t Tier, r *Rng, emit Emit) {
	// consecutive seeds of the shared splitmix64 are the same stream shifted by one draw: re-key
	r = NewRng(r.U64() ^ 0x59547261636b73)
	unpackLines := func(ss string, wires [][]byte) {
		for _, w := range wires {
			emit(fmt.Sprintf("Y %s unpack %s", ss, H(w)))
			emit(fmt.Sprintf("Y %s repack %s", ss, H(w)))
		}
	}
	reuseLines := func(ss string, s TrackSpecGen, pool [][]byte, n int) {
		if len(pool) == 0 {
			return
		}
		for i := 0; i < n; i++ {
			a, b := Pick(r, pool), Pick(r, pool)
			emit(fmt.Sprintf("Y %s unpack2 %s %s", ss, H(a), H(b)))
		}
		for i := 0; i < n/2+1; i++ {
			v := Pick(r, BoundaryTracks(r, s.Kind))
			emit(fmt.Sprintf("Y %s setunpack %s %s", ss, v.Tree().String(), H(Pick(r, pool))))
		}
	}

	// 1. coherent specs with in-domain values
	for i := 0; i < t.N(240, 12000); i++ {
		kind := 1 + i%3
		s := CoherentTrackSpec(r, kind)
		if i < 3 {
			s = nearSpecs[kind]
		}
		ss := s.String()
		var pool [][]byte
		for k := 0; k < 3; k++ {
			v := InDomainTrack(r, s)
			vs := v.Tree().String()
			emit(fmt.Sprintf("Y %s dom %s", ss, vs))
			emit(fmt.Sprintf("Y %s rt %s", ss, vs))
			line := fmt.Sprintf("Y %s pack %s", ss, vs)
			emit(line)
			emit(fmt.Sprintf("Y %s packobs %s", ss, vs))
			wire, ok := packReal(line)
			if !ok {
				continue
			}
			pool = append(pool, wire)
			withTail := append(append([]byte{}, wire...), r.Bytes(1+r.Intn(3))...)
			unpackLines(ss, [][]byte{wire, withTail})
			if k == 0 {
				unpackLines(ss, MutateTrackWire(r, wire, t.N(6, 14)))
			}
		}
		for _, txt := range []string{"", Pick(r, HandTexts(kind)), Pick(r, HandTexts(kind))} {
			if w, ok := WrapText(s, []byte(txt)); ok {
				pool = append(pool, w)
				unpackLines(ss, [][]byte{w})
				emit(fmt.Sprintf("Y %s cycle %s", ss, H(w)))
			}
		}
		reuseLines(ss, s, pool, 4)
	}

	// 2. regex level and the usual ASCII specs: boundary values, all hand texts, mutations
	for kind := 1; kind <= 3; kind++ {
		raw := TrackSpecGen{Kind: kind, Len: 0, Enc: "binary", Pref: "none", Pad: "nil", Packer: "d"}
		for _, s := range []TrackSpecGen{raw, nearSpecs[kind]} {
			ss := s.String()
			var pool [][]byte
			for _, v := range BoundaryTracks(r, kind) {
				vs := v.Tree().String()
				line := fmt.Sprintf("Y %s pack %s", ss, vs)
				emit(line)
				emit(fmt.Sprintf("Y %s packobs %s", ss, vs))
				emit(fmt.Sprintf("Y %s rt %s", ss, vs))
				if wire, ok := packReal(line); ok {
					pool = append(pool, wire)
					unpackLines(ss, [][]byte{wire})
				}
			}
			for _, txt := range HandTexts(kind) {
				if w, ok := WrapText(s, []byte(txt)); ok {
					pool = append(pool, w)
					unpackLines(ss, [][]byte{w})
					emit(fmt.Sprintf("Y %s cycle %s", ss, H(w)))
					if s.Pref == "none" {
						unpackLines(ss, MutateTrackWire(r, w, t.N(3, 40)))
					}
				}
			}
			for i := 0; i < t.N(60, 4000); i++ {
				v := InDomainTrack(r, s)
				if w, ok := WrapText(s, textOf(v)); ok {
					unpackLines(ss, MutateTrackWire(r, w, 3))
				}
			}
			reuseLines(ss, s, pool, t.N(80, 3000))
		}
	}

	// 3. specs that can not carry track text, the Track2 packer over BCD, the shipped
	// specs/track2.go combination, random (mostly incoherent) combinations
	var odd []TrackSpecGen
	for kind := 1; kind <= 3; kind++ {
		odd = append(odd,
			TrackSpecGen{kind, 40, "bcd", "bcd.2", "nil", "d"}, TrackSpecGen{kind, 40, "lbcd", "ascii.2", "R30", "d"},
			TrackSpecGen{kind, 37, "hexToBytes", "binary.1", "nil", "d"}, TrackSpecGen{kind, 40, "berTag", "ascii.2", "nil", "d"},
			TrackSpecGen{kind, 37, "bcd", "bcd.2", "L30", "t2"}, TrackSpecGen{kind, 37, "ascii", "ascii.2", "L30", "t2"},
			TrackSpecGen{kind, 37, "ascii", "ascii.2", "R20", "t2"}, TrackSpecGen{kind, 37, "binary", "binary.1", "nil", "t2"},
			TrackSpecGen{kind, 5, "ascii", "ascii.2", "nil", "d"}, TrackSpecGen{kind, 30, "ascii", "ascii.F", "nil", "d"},
			TrackSpecGen{kind, 30, "ascii", "ascii.F", "R20", "d"}, TrackSpecGen{kind, 30, "ascii", "hex.F", "nil", "d"})
	}
	for i := 0; i < t.N(40, 3000); i++ {
		odd = append(odd, TrackSpecGen{1 + r.Intn(3), r.Intn(120), Pick(r, EncNames), Pick(r, AllPrefixers()),
			Pick(r, []string{"nil", "none", "L30", "R20", "L20", "R30", "L7e"}), Pick(r, []string{"d", "d", "t2"})})
	}
	for _, s := range odd {
		ss := s.String()
		var pool [][]byte
		for k := 0; k < 3; k++ {
			v := InDomainTrack(r, TrackSpecGen{Kind: s.Kind, Enc: "ascii", Pad: "nil"})
			if k == 2 && s.Kind == 2 { // hex-digit-only text with the 'D' separator, even and odd length
				v.Sep, v.DD = []byte("D"), r.From([]byte("0123456789ABCDEF"), 1+r.Intn(8))
			}
			vs := v.Tree().String()
			line := fmt.Sprintf("Y %s pack %s", ss, vs)
			emit(line)
			emit(fmt.Sprintf("Y %s packobs %s", ss, vs))
			emit(fmt.Sprintf("Y %s rt %s", ss, vs))
			if wire, ok := packReal(line); ok {
				pool = append(pool, wire)
				unpackLines(ss, [][]byte{wire, append(append([]byte{}, wire...), 0x31)})
				unpackLines(ss, MutateTrackWire(r, wire, 3))
			}
		}
		unpackLines(ss, [][]byte{r.Bytes(r.Intn(12)), nil})
		reuseLines(ss, s, pool, 2)
	}
}

// textOf is the track text of a value, written independently of the library
// (used only to build wires for mutation).
func textOf(v TrackValGen) []byte {
	exp, sc := []byte("^"), []byte("^")
	if v.Exp != 0 {
		exp = []byte(fmt.Sprintf("%02d%02d", v.Exp/100%100, v.Exp%100))
	}
	if len(v.SC) > 0 {
		sc = v.SC
	}
	var out []byte
	switch v.Kind {
	case 1:
		out = append(out, v.FC...)
		out = append(out, v.PAN...)
		out = append(out, '^')
		out = append(out, v.Name...)
		out = append(out, '^')
		out = append(out, exp...)
		out = append(out, sc...)
	case 2:
		out = append(out, v.PAN...)
		if len(v.Sep) == 0 {
			out = append(out, '=')
		} else {
			out = append(out, v.Sep...)
		}
		out = append(out, exp...)
		out = append(out, sc...)
	case 3:
		out = append(out, v.FC...)
		out = append(out, v.PAN...)
		out = append(out, '=')
	}
	return append(out, v.DD...)
}

// NearTrackSpec is the spec the library's own tests use for the kind (ASCII, LL / LLL).
func NearTrackSpec(kind int) TrackSpecGen { return nearSpecs[kind] }

func allDigits(b []byte) bool {
	for _, c := range b {
		if c < '0' || c > '9' {
			return false
		}
	}
	return true
}

func trimmedNoQuest(b []byte) bool {
	return len(b) > 0 && !strings.ContainsRune(string(b), '?') && !containsByte(b, '?') && strings.TrimSpace(string(b)) == string(b)
}

func containsByte(b []byte, c byte) bool {
	for _, x := range b {
		if x == c {
			return true
		}
	}
	return false
}

// TrackInDomain: the component clauses of DESIGN §2.3 (Track1/2/3 rows) for a value in tree
// form, written independently of the library and of the Lean predicate (which the `dom`
// lines compare with the generator).
func TrackInDomain(kind int, v *T) bool {
	get := func(i int) []byte { b, _ := impl.UnHex(v.Kids[i].Name); return b }
	expOK := func(s string, optional bool) bool {
		if s == "-" {
			return optional
		}
		var n int
		if _, err := fmt.Sscanf(s, "%d", &n); err != nil {
			return false
		}
		return n/100 >= 1969 && n/100 <= 2068 && n%100 >= 1 && n%100 <= 12
	}
	panOK := func(b []byte) bool { return len(b) >= 1 && len(b) <= 19 && allDigits(b) }
	switch {
	case kind == 1 && v.Name == "v1" && len(v.Kids) == 7:
		fc, name, sc, dd := get(1), get(3), get(5), get(6)
		n := utf8.RuneCount(name)
		return v.Kids[0].Name == "0" && len(fc) == 1 && fc[0] >= 'A' && fc[0] <= 'Z' && panOK(get(2)) &&
			!containsByte(name, '^') && strings.TrimSpace(string(name)) == string(name) && n >= 2 && n <= 26 &&
			expOK(v.Kids[4].Name, true) && (len(sc) == 0 || (len(sc) == 3 && allDigits(sc))) &&
			trimmedNoQuest(dd) && string(dd) != "^"
	case kind == 2 && v.Name == "v2" && len(v.Kids) == 5:
		sep, sc := get(1), get(3)
		return panOK(get(0)) && (len(sep) == 0 || string(sep) == "=" || string(sep) == "D") && expOK(v.Kids[2].Name, false) &&
			len(sc) == 3 && allDigits(sc) && trimmedNoQuest(get(4))
	case kind == 3 && v.Name == "v3" && len(v.Kids) == 3:
		fc, dd := get(0), get(2)
		return len(fc) == 2 && allDigits(fc) && panOK(get(1)) && trimmedNoQuest(dd) && string(dd) != "="
	}
	return false
}
