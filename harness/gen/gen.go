// Package gen produces protocol lines (inputs only) for each channel. Every random
// choice derives from one splitmix64 state seeded by VERIF_SEED, so a run replays exactly.
package gen

import (
	"encoding/hex"
	"fmt"
	"strconv"
	"strings"
)

type Rng struct{ s uint64 }

func NewRng(seed uint64) *Rng { return &Rng{s: seed*0x9E3779B97F4A7C15 + 0x1234567} }

func (r *Rng) U64() uint64 {
	r.s += 0x9E3779B97F4A7C15
	z := r.s
	z = (z ^ (z >> 30)) * 0xBF58476D1CE4E5B9
	z = (z ^ (z >> 27)) * 0x94D049BB133111EB
	return z ^ (z >> 31)
}

func (r *Rng) Intn(n int) int {
	if n <= 0 {
		return 0
	}
	return int(r.U64() % uint64(n))
}

func (r *Rng) Bool() bool { return r.U64()&1 == 1 }

func (r *Rng) Bytes(n int) []byte {
	b := make([]byte, n)
	for i := range b {
		b[i] = byte(r.U64())
	}
	return b
}

func (r *Rng) From(alpha []byte, n int) []byte {
	b := make([]byte, n)
	for i := range b {
		b[i] = alpha[r.Intn(len(alpha))]
	}
	return b
}

func Pick[T any](r *Rng, xs []T) T { return xs[r.Intn(len(xs))] }

func H(b []byte) string {
	if len(b) == 0 {
		return "-"
	}
	return hex.EncodeToString(b)
}

type Emit func(line string)

type Tier struct {
	Thorough bool
}

func (t Tier) N(quick, thorough int) int {
	if t.Thorough {
		return thorough
	}
	return quick
}

var EncNames = []string{"ascii", "ebcdic", "ebcdic1047", "binary", "bcd", "lbcd", "bytesToHex", "hexToBytes", "berTag"}

// alphabet of in-domain source characters per encoder (a representative subset for the
// exhaustive sweeps) and a few out-of-domain ones
func encAlphabet(e string) (in []byte, out []byte) {
	switch e {
	case "ascii", "ebcdic1047":
		return []byte{'0', '9', 'A', 'z', ' ', 0x00, 0x7F, '=', '^'}, []byte{0x80, 0xFF, 0xC2}
	case "ebcdic", "binary", "bytesToHex":
		return []byte{'0', '9', 'A', 'z', ' ', 0x00, 0x7F, 0x80, 0xFF}, nil
	case "bcd", "lbcd":
		return []byte("0123456789"), []byte{'A', ' ', 0x00, 0xFF, '/', ':'}
	case "hexToBytes", "berTag":
		return []byte("0123456789ABCDEFabcdef"), []byte{'G', 'g', ' ', 0x00, '/', ':', '@', '`'}
	}
	return nil, nil
}

func allStrings(alpha []byte, maxLen int, f func([]byte)) {
	var rec func(cur []byte)
	rec = func(cur []byte) {
		f(cur)
		if len(cur) == maxLen {
			return
		}
		for _, c := range alpha {
			rec(append(cur, c))
		}
	}
	rec(nil)
}

var tails = [][]byte{nil, {0x31}, {0xFF, 0x00, 0x4F}}

// ChannelE: value encoders. runImpl is used to obtain encodings so that decode lines
// can be built around real encoder output.
func ChannelE(t Tier, r *Rng, emit Emit, encodeReal func(enc string, in []byte) ([]byte, bool)) {
	for _, e := range EncNames {
		in, out := encAlphabet(e)
		maxLen := t.N(2, 3)
		if len(in) <= 10 {
			maxLen = t.N(3, 4)
		}
		alpha := append(append([]byte{}, in...), out...)
		if t.Thorough && (e == "bcd" || e == "lbcd") {
			alpha = in // keep 10^4; out-of-domain covered below
		}
		allStrings(alpha, maxLen, func(x []byte) {
			emit(fmt.Sprintf("E %s enc %s", e, H(x)))
			y, ok := encodeReal(e, x)
			if !ok {
				return
			}
			units := len(x)
			if e == "hexToBytes" || e == "berTag" {
				units = len(x) // value units are hex digits; decode length counts bytes
				units = len(y)
			}
			if e == "bytesToHex" {
				units = len(x)
			}
			for n := -1; n <= units+2; n++ {
				for _, tl := range tails {
					emit(fmt.Sprintf("E %s dec %d %s", e, n, H(append(append([]byte{}, y...), tl...))))
				}
			}
		})
		if out != nil {
			allStrings(append(append([]byte{}, in[:2]...), out...), 3, func(x []byte) {
				emit(fmt.Sprintf("E %s enc %s", e, H(x)))
			})
		}
		// all 256 byte values, both directions
		for b := 0; b < 256; b++ {
			emit(fmt.Sprintf("E %s enc %s", e, H([]byte{byte(b)})))
			emit(fmt.Sprintf("E %s dec 1 %s", e, H([]byte{byte(b)})))
			emit(fmt.Sprintf("E %s dec 2 %s", e, H([]byte{byte(b), byte(b)})))
			emit(fmt.Sprintf("E %s dec 1 %s", e, H([]byte{byte(b), 0x12})))
			emit(fmt.Sprintf("E %s dec 3 %s", e, H([]byte{0x12, byte(b)})))
		}
		// adversarial lengths
		for _, n := range []string{"-1", "-9223372036854775808", "2147483647", "2147483648", "4294967296", "4611686018427387904", "4611686018427387905", "9223372036854775806", "9223372036854775807"} {
			emit(fmt.Sprintf("E %s dec %s %s", e, n, H([]byte("1234"))))
			emit(fmt.Sprintf("E %s dec %s -", e, n))
		}
		// random in-domain strings up to 2000 units, random decode lengths and tails
		for i := 0; i < t.N(150, 3000); i++ {
			l := r.Intn(12)
			if r.Intn(10) == 0 {
				l = r.Intn(2001)
			}
			x := r.From(in, l)
			if (e == "hexToBytes" || e == "berTag") && r.Intn(8) != 0 {
				x = x[:len(x)/2*2]
			}
			emit(fmt.Sprintf("E %s enc %s", e, H(x)))
			y, ok := encodeReal(e, x)
			if !ok {
				continue
			}
			units := len(x)
			if e == "hexToBytes" || e == "berTag" {
				units = len(y)
			}
			n := units
			switch r.Intn(6) {
			case 0:
				n = units + 1
			case 1:
				n = r.Intn(units + 1)
			}
			emit(fmt.Sprintf("E %s dec %d %s", e, n, H(append(y, r.Bytes(r.Intn(4))...))))
		}
		// random bytes (malformed stream)
		for i := 0; i < t.N(300, 6000); i++ {
			d := r.Bytes(r.Intn(9))
			emit(fmt.Sprintf("E %s dec %d %s", e, r.Intn(12)-1, H(d)))
			emit(fmt.Sprintf("E %s enc %s", e, H(d)))
		}
	}
	// BER tag shapes: all 1- and 2-byte contents, sampled 3-4 bytes
	for a := 0; a < 256; a++ {
		emit(fmt.Sprintf("E berTag dec 0 %s", H([]byte{byte(a)})))
		step := t.N(7, 1)
		for b := 0; b < 256; b += step {
			emit(fmt.Sprintf("E berTag dec 0 %s", H([]byte{byte(a), byte(b)})))
		}
	}
	for i := 0; i < t.N(2000, 60000); i++ {
		first := byte(r.U64())
		if r.Bool() {
			first |= 0x1F
		}
		d := []byte{first}
		for k := r.Intn(4); k > 0; k-- {
			c := byte(r.U64())
			if r.Intn(3) != 0 {
				c |= 0x80
			}
			d = append(d, c)
		}
		emit(fmt.Sprintf("E berTag dec %d %s", r.Intn(3), H(d)))
	}
}

var PrefFams = []string{"ascii", "bcd", "binary", "hex", "ebcdic", "ebcdic1047"}

func AllPrefixers() []string {
	var out []string
	for _, f := range PrefFams {
		out = append(out, f+".F")
		for d := 1; d <= 6; d++ {
			out = append(out, fmt.Sprintf("%s.%d", f, d))
		}
	}
	out = append(out, "ber", "none")
	return out
}

func pow(b, e int) int {
	r := 1
	for ; e > 0; e-- {
		r *= b
	}
	return r
}

func capacity(p string) int {
	parts := strings.Split(p, ".")
	if len(parts) != 2 || parts[1] == "F" {
		return 1 << 40
	}
	d, _ := strconv.Atoi(parts[1])
	switch parts[0] {
	case "binary", "hex":
		return pow(256, d) - 1
	}
	return pow(10, d) - 1
}

func prefWidth(p string) int {
	parts := strings.Split(p, ".")
	if len(parts) != 2 || parts[1] == "F" {
		return 0
	}
	d, _ := strconv.Atoi(parts[1])
	switch parts[0] {
	case "bcd":
		return (d + 1) / 2
	case "hex":
		return 2 * d
	}
	return d
}

// ChannelP: length prefixes.
func ChannelP(t Tier, r *Rng, emit Emit, encodeReal func(p string, maxLen, n int) ([]byte, bool)) {
	boundary := []int{0, 1, 2, 8, 9, 10, 11, 99, 100, 101, 126, 127, 128, 129, 254, 255, 256, 257, 999, 1000, 9999, 10000,
		65534, 65535, 65536, 65537, 99999, 100000, 999999, 1000000, 16777215, 16777216, 1 << 31, 1<<32 - 1, 1 << 32, 1<<32 + 1, 1<<32 + 5,
		1<<40 - 1, 1 << 40, 1<<48 - 1, 1 << 48, 1<<56 + 3, 1<<62 + 1, 1<<63 - 1}
	for _, p := range AllPrefixers() {
		capa := capacity(p)
		var ns []int
		ns = append(ns, boundary...)
		// exhaustive up to 10^6 (2^20 for the byte-based families): ~50 M lines in the thorough
		// tier; the ranges above are covered by the boundary list and the random sample
		lim := t.N(1200, 1000000)
		if strings.HasPrefix(p, "binary") || strings.HasPrefix(p, "hex") || p == "ber" {
			lim = t.N(1200, 1<<20)
		}
		if capa+2 < lim {
			lim = capa + 2
		}
		step := 1
		if t.Thorough && lim > 300000 {
			step = 1 // exhaustive
		}
		for n := 0; n < lim; n += step {
			ns = append(ns, n)
		}
		for _, c := range []int{capa - 1, capa, capa + 1} {
			if c >= 0 {
				ns = append(ns, c)
			}
		}
		for i := 0; i < t.N(50, 2000); i++ {
			ns = append(ns, int(r.U64()%(1<<33+2)))
		}
		for idx, n := range ns {
			maxLens := []int{n}
			if idx < len(boundary)+2000 || idx%97 == 0 {
				maxLens = []int{n, 1<<62 + 7}
				if n < 1<<62 {
					maxLens = append(maxLens, n+1)
				}
				if n > 0 {
					maxLens = append(maxLens, n-1, 0)
				}
			}
			for _, m := range maxLens {
				emit(fmt.Sprintf("P %s enc %d %d", p, m, n))
				if enc, ok := encodeReal(p, m, n); ok {
					for ti, tl := range tails {
						if ti > 0 && idx > len(boundary)+3000 && idx%31 != 0 {
							continue
						}
						emit(fmt.Sprintf("P %s dec %d %s", p, m, H(append(append([]byte{}, enc...), tl...))))
					}
					if n > 0 && (idx < len(boundary)+3000) {
						emit(fmt.Sprintf("P %s dec %d %s", p, n-1, H(enc)))
					}
				}
			}
		}
		// all prefix contents for widths <= 2 bytes; sampled beyond; too-short inputs
		w := prefWidth(p)
		if p == "ber" {
			w = 2
		}
		maxes := []int{1 << 62, 50, 0}
		if w >= 1 {
			for a := 0; a < 256; a++ {
				for _, m := range maxes {
					emit(fmt.Sprintf("P %s dec %d %s", p, m, H([]byte{byte(a)})))
				}
			}
		}
		if w >= 2 {
			stepB := t.N(5, 1)
			for a := 0; a < 256; a++ {
				for b := a % stepB; b < 256; b += stepB {
					emit(fmt.Sprintf("P %s dec %d %s", p, 1<<62, H([]byte{byte(a), byte(b), 0x33})))
					if t.Thorough {
						emit(fmt.Sprintf("P %s dec %d %s", p, 300, H([]byte{byte(a), byte(b)})))
					}
				}
			}
		}
		alpha := []byte("0123456789+- abcdefABCDEF\x00\xf0\xf1\xf9\x60\x4e\x0f\x1f\xff")
		for i := 0; i < t.N(400, 20000); i++ {
			l := w
			switch r.Intn(8) {
			case 0:
				l = r.Intn(w + 1)
			case 1:
				l = w + r.Intn(3)
			}
			var d []byte
			if r.Bool() {
				d = r.From(alpha, l)
			} else {
				d = r.Bytes(l)
			}
			emit(fmt.Sprintf("P %s dec %d %s", p, Pick(r, []int{0, 5, 99, 1 << 20, 1 << 62}), H(d)))
		}
		emit(fmt.Sprintf("P %s dec 10 -", p))
	}
	// BER long forms with 0..127 length bytes
	for k := 0; k <= 127; k++ {
		for variant := 0; variant < 4; variant++ {
			body := make([]byte, k)
			switch variant {
			case 0: // all zero
			case 1:
				if k > 0 {
					body[k-1] = 0x7B
				}
			case 2:
				for i := range body {
					body[i] = 0xFF
				}
			case 3:
				copy(body, r.Bytes(k))
			}
			d := append([]byte{byte(0x80 | k)}, body...)
			for _, m := range []int{0, 200, 1 << 62} {
				emit(fmt.Sprintf("P ber dec %d %s", m, H(d)))
				emit(fmt.Sprintf("P ber dec %d %s", m, H(append(append([]byte{}, d...), 0x01, 0x02))))
				if k > 0 {
					emit(fmt.Sprintf("P ber dec %d %s", m, H(d[:len(d)-1])))
				}
			}
		}
	}
}

// ChannelD: padding.
func ChannelD(t Tier, r *Rng, emit Emit) {
	spare := []byte{0xEE, 0xEE, 0xEE, 0xEE, 0xEE, 0xEE, 0xEE, 0xEE}
	padBytes := []int{}
	for c := 0; c < 128; c++ {
		padBytes = append(padBytes, c)
	}
	for _, kind := range []string{"L", "R"} {
		for _, c := range padBytes {
			if !t.Thorough && c%9 != 0 && c != '0' && c != ' ' && c != 0x7F {
				continue
			}
			alpha := []byte{byte(c), 'a', byte((c + 1) % 128), 0xC3}
			allStrings(alpha, 3, func(v []byte) {
				for n := 0; n <= 6; n++ {
					emit(fmt.Sprintf("D %s %02x pad %d %s %s", kind, c, n, H(v), H(spare)))
				}
				emit(fmt.Sprintf("D %s %02x unpad %s", kind, c, H(v)))
			})
		}
	}
	for _, kind := range []string{"nil", "none"} {
		allStrings([]byte{'0', 'a', ' '}, 3, func(v []byte) {
			for n := 0; n <= 6; n += 3 {
				emit(fmt.Sprintf("D %s 00 pad %d %s %s", kind, n, H(v), H(spare)))
			}
			emit(fmt.Sprintf("D %s 00 unpad %s", kind, H(v)))
		})
	}
	for i := 0; i < t.N(300, 5000); i++ {
		kind := Pick(r, []string{"L", "R"})
		c := byte(r.Intn(128))
		l := r.Intn(20)
		if r.Intn(10) == 0 {
			l = r.Intn(2001)
		}
		v := r.Bytes(l)
		// make edges interesting
		for k := r.Intn(4); k > 0 && len(v) > 0; k-- {
			v[k%len(v)] = c
			v[len(v)-1-(k%len(v))] = c
		}
		n := l + r.Intn(10) - 3
		if n < 0 {
			n = 0
		}
		emit(fmt.Sprintf("D %s %02x pad %d %s %s", kind, c, n, H(v), H(r.Bytes(r.Intn(12)))))
		emit(fmt.Sprintf("D %s %02x unpad %s", kind, c, H(v)))
	}
}

// ChannelB: bitmap bit-set operations and chain unpacking.
func ChannelB(t Tier, r *Rng, emit Emit) {
	for bl := 0; bl <= 16; bl++ { // 0 = default (8)
		eff := bl
		if eff == 0 {
			eff = 8
		}
		maxBit := 4 * eff * 8
		for _, auto := range []string{"1", "0"} {
			// every single index over 4 blocks (+ beyond)
			for n := -1; n <= maxBit+9; n++ {
				ops := fmt.Sprintf("set:%d,len,bytes,isset:%d,isset:%d,isset:%d,pres:%d,isset:1,isset:%d", n, n, n-1, n+1, n, eff*8+1)
				emit(fmt.Sprintf("B ops %d %s %s", bl, auto, ops))
			}
			// all pairs (quick: sampled)
			stepA := t.N(maxBit/6+1, 1)
			for a := 1; a <= maxBit; a += stepA {
				stepB := t.N(maxBit/9+1, 1)
				if t.Thorough && eff > 6 {
					stepB = 3
				}
				for b := 1 + a%stepB; b <= maxBit; b += stepB {
					ops := fmt.Sprintf("set:%d,set:%d,len,bytes,isset:%d,isset:%d,isset:%d,reset,len,bytes,set:%d,bytes", a, b, a, b, (a+b)/2, b)
					emit(fmt.Sprintf("B ops %d %s %s", bl, auto, ops))
				}
			}
			// random small sets
			for i := 0; i < t.N(20, 400); i++ {
				k := 1 + r.Intn(6)
				var ops []string
				var idx []int
				for j := 0; j < k; j++ {
					n := 1 + r.Intn(maxBit)
					idx = append(idx, n)
					ops = append(ops, fmt.Sprintf("set:%d", n))
				}
				ops = append(ops, "len", "bytes")
				for _, n := range idx {
					ops = append(ops, fmt.Sprintf("isset:%d", n), fmt.Sprintf("isset:%d", n+1), fmt.Sprintf("pres:%d", n))
				}
				emit(fmt.Sprintf("B ops %d %s %s", bl, auto, strings.Join(ops, ",")))
			}
		}
	}
	// chain unpacking in binary and hex encodings
	for bl := 1; bl <= 16; bl++ {
		for _, auto := range []string{"1", "0"} {
			for _, ep := range [][2]string{{"binary", "binary.F"}, {"bytesToHex", "hex.F"}, {"binary", "ascii.F"}, {"bytesToHex", "binary.F"}} {
				for i := 0; i < t.N(12, 300); i++ {
					blocks := 1 + r.Intn(4)
					var raw []byte
					for k := 0; k < blocks; k++ {
						blk := r.Bytes(bl)
						if k < blocks-1 {
							blk[0] |= 0x80
						} else if r.Intn(5) != 0 {
							blk[0] &= 0x7F
						}
						raw = append(raw, blk...)
					}
					wire := raw
					if ep[0] == "bytesToHex" {
						s := strings.ToUpper(hex.EncodeToString(raw))
						if r.Intn(4) == 0 {
							s = strings.ToLower(s)
						}
						wire = []byte(s)
					}
					wire = append(append([]byte{}, wire...), r.Bytes(r.Intn(5))...)
					if r.Intn(4) == 0 && len(wire) > 0 {
						wire = wire[:r.Intn(len(wire))]
					}
					emit(fmt.Sprintf("B unpack %s %s %d %s %s", ep[0], ep[1], bl, auto, H(wire)))
				}
				emit(fmt.Sprintf("B unpack %s %s %d %s -", ep[0], ep[1], bl, auto))
			}
		}
	}
}
