package gen

import (
	"fmt"
	"strconv"
	"strings"
)

// Channel G (property C11): Go structs described as trees (syntax in
// lean/Iso8583/Drivers/Marshal.lean), built at run time with reflect.StructOf by
// harness/impl/marshal.go. Covers field kind × Go type × zero / non-zero × keepzero ×
// tag style (iso8583 / index / both / F<n> name) × nesting ≤ 3.

func init() {
	extraChannels["G"] = ChannelG
}

// DocTypes: the Go types each field kind documents.
var DocTypes = map[string][]string{
	"s": {"str", "pstr", "int", "pint", "i64", "pi64", "ls"},
	"n": {"i64", "pi64", "str", "pstr", "ln"},
	"b": {"str", "pstr", "bytes", "pbytes", "lb"},
	"h": {"str", "pstr", "bytes", "pbytes", "lh"},
}

// AllTypes: every Go type of the model (ppstr = **string).
var AllTypes = []string{"str", "int", "i64", "bytes", "pstr", "pint", "pi64", "pbytes", "ls", "ln", "lb", "lh", "ppstr", "sp"}

func IsDocType(kind, ty string) bool {
	for _, d := range DocTypes[kind] {
		if d == ty {
			return true
		}
	}
	return false
}

var boundaryInts = []int64{0, 1, -1, 7, 12, 100, 999999, -42, 9223372036854775807, -9223372036854775808, 2147483648}

type StructGen struct {
	G *FieldGen
	R *Rng
	// Documented: only the documented Go types are used
	Documented bool
	// NoKF4: never use a []byte (by value) struct field
	NoKF4 bool
}

// zeroOf renders the zero value of a Go type name.
func zeroOf(ty string) *T {
	switch ty {
	case "str":
		return N("str", A("-"))
	case "int":
		return N("int", A("0"))
	case "i64":
		return N("i64", A("0"))
	case "bytes":
		return A("nilbytes")
	case "pstr":
		return N("nilptr", N("str", A("-")))
	case "pint":
		return N("nilptr", N("int", A("0")))
	case "pi64":
		return N("nilptr", N("i64", A("0")))
	case "pbytes":
		return N("nilptr", A("nilbytes"))
	case "ppstr":
		return N("nilptr", N("nilptr", N("str", A("-"))))
	case "ls":
		return A("nills")
	case "ln":
		return A("nilln")
	case "lb":
		return A("nillb")
	case "lh":
		return A("nillh")
	case "sp":
		return N("nilsp", N("fd", A("F1"), A("-"), A("-"), N("str", A("-"))))
	}
	return A("?")
}

// valOf renders a (usually non-zero) value of Go type ty carrying text / number / bytes.
func (sg *StructGen) valOf(ty string, text []byte, num int64, raw []byte) *T {
	r := sg.R
	switch ty {
	case "str":
		return N("str", A(H(text)))
	case "int":
		return N("int", A(strconv.FormatInt(num, 10)))
	case "i64":
		return N("i64", A(strconv.FormatInt(num, 10)))
	case "bytes":
		return N("bytes", A(H(raw)))
	case "pstr":
		return N("ptr", N("str", A(H(text))))
	case "pint":
		return N("ptr", N("int", A(strconv.FormatInt(num, 10))))
	case "pi64":
		return N("ptr", N("i64", A(strconv.FormatInt(num, 10))))
	case "pbytes":
		if len(raw) == 0 && r.Bool() {
			return N("ptr", A("nilbytes"))
		}
		return N("ptr", N("bytes", A(H(raw))))
	case "ppstr":
		return N("ptr", N("ptr", N("str", A(H(text)))))
	case "ls":
		return N("ls", A(H(text)))
	case "ln":
		return N("ln", A(strconv.FormatInt(num, 10)))
	case "lb":
		return N("lb", A(H(raw)))
	case "lh":
		return N("lh", A(H(text)))
	case "sp":
		return N("sp", N("fd", A("F1"), A("-"), A("-"), N("str", A(H(text)))))
	}
	return A("?")
}

func unhex(s string) []byte {
	if s == "-" {
		return nil
	}
	out := make([]byte, len(s)/2)
	for i := range out {
		v, _ := strconv.ParseUint(s[2*i:2*i+2], 16, 8)
		out[i] = byte(v)
	}
	return out
}

// PrimGoVal: a Go value of type ty for a primitive field of the given kind whose in-domain
// field value is v (a value tree of gen.Value).
func (sg *StructGen) PrimGoVal(kind, ty string, v *T, zero int) *T {
	r := sg.R
	if zero == 1 {
		return zeroOf(ty)
	}
	var text, raw []byte
	var num int64
	switch kind {
	case "s":
		text = unhex(v.Kids[0].Name)
		raw = text
		num = Pick(r, boundaryInts)
		if r.Bool() {
			num = int64(r.U64())
			if r.Bool() {
				num %= 1000000
			}
		}
	case "n":
		num, _ = strconv.ParseInt(v.Kids[0].Name, 10, 64)
		text = []byte(strconv.FormatInt(num, 10))
		switch r.Intn(24) {
		case 0, 3, 4:
			text = append([]byte("00"), text...)
			if num < 0 {
				text = []byte(strconv.FormatInt(num, 10))
			}
		case 1, 5:
			if num >= 0 {
				text = append([]byte("+"), text...)
			}
		case 2:
			text = []byte("12a")
		}
		raw = text
	case "b":
		raw = unhex(v.Kids[0].Name)
		text = []byte(fmt.Sprintf("%x", raw))
		switch r.Intn(20) {
		case 0, 3, 4, 5:
			text = []byte(strings.ToUpper(string(text)))
		case 1:
			text = append(text, 'a') // odd length
		case 2:
			if len(text) > 0 {
				text[0] = 'g'
			}
		}
		num = int64(len(raw)) + 1
	case "h":
		text = unhex(v.Kids[0].Name) // hex text
		raw = make([]byte, len(text)/2)
		for i := range raw {
			x, _ := strconv.ParseUint(string(text[2*i:2*i+2]), 16, 8)
			raw[i] = byte(x)
		}
		switch r.Intn(20) {
		case 0, 2, 3, 4:
			text = []byte(strings.ToLower(string(text)))
		case 1:
			text = append(text, 'z')
		}
		num = int64(len(raw)) + 1
	}
	if zero == 2 { // pointer to / container of a zero value: not IsZero for pointers
		text, raw, num = nil, nil, 0
	}
	return sg.valOf(ty, text, num, raw)
}

var tagStyles = []string{"iso", "idx", "name", "both", "iso", "idx"}

// hdr picks name and tags for a struct field that addresses `tag` (a message id or a
// composite tag). used = Go names taken so far.
func (sg *StructGen) hdr(i int, tag string, style string, keepzero bool, used map[string]bool, numeric bool) (name, idx, iso string) {
	r := sg.R
	name = fmt.Sprintf("X%d", i)
	opt := ""
	if keepzero {
		opt = ",keepzero"
		if r.Intn(6) == 0 {
			opt = ",omitempty,keepzero"
		}
	} else if r.Intn(12) == 0 {
		opt = ",omitempty"
	}
	switch style {
	case "name":
		n := "F" + tag
		if !used[n] {
			name = n
			if keepzero {
				if r.Bool() {
					iso = ",keepzero"
				} else {
					idx = ",keepzero"
				}
			}
			used[name] = true
			return
		}
		iso = tag + opt
	case "iso":
		iso = tag + opt
	case "idx":
		idx = tag + opt
	case "both": // index wins over iso8583
		idx = tag + opt
		iso = "999" + Pick(r, []string{"", ",keepzero"})
	}
	if numeric && r.Intn(25) == 0 { // strconv.Atoi accepts a sign and leading zeros
		pre := Pick(r, []string{"+", "0", "00"})
		if iso != "" && style != "both" {
			iso = pre + iso
		} else if idx != "" {
			idx = pre + idx
		}
	}
	used[name] = true
	return
}

func fd(name, idx, iso string, v *T) *T {
	return N("fd", A(name), A(H([]byte(idx))), A(H([]byte(iso))), v)
}

// pickType chooses a Go type for a primitive field of the given kind.
func (sg *StructGen) pickType(kind string) string {
	r := sg.R
	for {
		ty := Pick(r, DocTypes[kind])
		if !sg.Documented && r.Intn(14) == 0 {
			ty = Pick(r, AllTypes)
		}
		if sg.NoKF4 && ty == "bytes" {
			continue
		}
		return ty
	}
}

// FieldGoVal builds a Go value for a message field / subfield with spec `spec`.
func (sg *StructGen) FieldGoVal(spec *T, depth int) *T {
	r := sg.R
	if spec.Name == "p" {
		kind := spec.Kids[0].Name
		ty := sg.pickType(kind)
		zero := 0
		switch r.Intn(6) {
		case 0:
			zero = 1
		case 1:
			zero = 2
		}
		v := sg.G.Value(spec, false)
		return sg.PrimGoVal(kind, ty, v, zero)
	}
	// composite
	if !sg.Documented && r.Intn(16) == 0 {
		ty := Pick(r, AllTypes)
		if r.Bool() {
			return zeroOf(ty)
		}
		return sg.valOf(ty, []byte("12"), 12, []byte{0x12})
	}
	subs := spec.Kids[3:]
	st := sg.Struct(subs, "sub", depth+1, false)
	name := "sp"
	if r.Intn(7) == 0 {
		name = "nilsp"
	}
	return N(name, st.Kids...)
}

// Struct builds st(fd…) for the given spec entries (f(id,spec) or sub(tag,spec)).
func (sg *StructGen) Struct(entries []*T, entryName string, depth int, message bool) *T {
	r := sg.R
	st := N("st")
	used := map[string]bool{}
	i := 0
	add := func(tag string, spec *T) {
		style := Pick(r, tagStyles)
		keepzero := r.Intn(3) == 0
		name, idx, iso := sg.hdr(i, tag, style, keepzero, used, message)
		i++
		st.Kids = append(st.Kids, fd(name, idx, iso, sg.FieldGoVal(spec, depth)))
	}
	for _, e := range entries {
		if e.Name != entryName {
			continue
		}
		if r.Intn(5) == 0 {
			continue
		}
		add(e.Kids[0].Name, e.Kids[1])
		if !sg.Documented && r.Intn(20) == 0 { // the same message field twice
			add(e.Kids[0].Name, e.Kids[1])
		}
	}
	if !sg.Documented {
		switch r.Intn(24) {
		case 0: // a field the spec does not define (message: error; composite: ignored)
			st.Kids = append(st.Kids, fd(fmt.Sprintf("X%d", i), "", Pick(r, []string{"250", "7777", "ZZ"}), N("str", A("31"))))
			i++
		case 1: // no tag, no F-name: ignored
			st.Kids = append(st.Kids, fd(fmt.Sprintf("Y%d", i), "", "", N("str", A("31"))))
			i++
		case 2: // non-numeric / negative ids
			st.Kids = append(st.Kids, fd(fmt.Sprintf("X%d", i), Pick(r, []string{"-2", "abc", "2x"}), "", N("str", A("31"))))
			i++
		case 3: // "int" inside the struct type's name matters to String.Marshal of a nil pointer
			st.Kids = append(st.Kids, fd(fmt.Sprintf("Xint%d", i), "", "", N("str", A("-"))))
			i++
		}
	}
	// the order of struct fields must not matter
	for k := len(st.Kids) - 1; k > 0; k-- {
		j := r.Intn(k + 1)
		st.Kids[k], st.Kids[j] = st.Kids[j], st.Kids[k]
	}
	if len(st.Kids) == 0 {
		return A("st()")
	}
	return st
}

// FromValue builds a Go value of a random documented type that carries exactly the
// in-domain field value v (so that Pack succeeds afterwards).
func (sg *StructGen) FromValue(spec *T, v *T) *T {
	r := sg.R
	if spec.Name == "p" {
		kind := spec.Kids[0].Name
		ty := sg.pickType(kind)
		var text, raw []byte
		var num int64
		switch kind {
		case "s":
			text = unhex(v.Kids[0].Name)
			if ty == "int" || ty == "pint" || ty == "i64" || ty == "pi64" {
				n, err := strconv.ParseInt(string(text), 10, 64)
				if err != nil || strconv.FormatInt(n, 10) != string(text) {
					ty = Pick(r, []string{"str", "pstr", "ls"})
				}
				num = n
			}
		case "n":
			num, _ = strconv.ParseInt(v.Kids[0].Name, 10, 64)
			text = []byte(strconv.FormatInt(num, 10))
		case "b":
			raw = unhex(v.Kids[0].Name)
			text = []byte(fmt.Sprintf("%x", raw))
			if r.Bool() {
				text = []byte(strings.ToUpper(string(text)))
			}
		case "h":
			text = unhex(v.Kids[0].Name)
			raw = make([]byte, len(text)/2)
			for i := range raw {
				x, _ := strconv.ParseUint(string(text[2*i:2*i+2]), 16, 8)
				raw[i] = byte(x)
			}
		}
		return sg.valOf(ty, text, num, raw)
	}
	subSpecs := map[string]*T{}
	for _, s := range spec.Kids[3:] {
		subSpecs[s.Kids[0].Name] = s.Kids[1]
	}
	st := sg.StructFromKVs(subSpecs, v.Kids, false)
	return N("sp", kidsOfT(st)...)
}

func kidsOfT(t *T) []*T {
	if t.Name == "st()" {
		return nil
	}
	return t.Kids
}

// StructFromKVs builds st(fd…) holding exactly the given (key, value) pairs.
func (sg *StructGen) StructFromKVs(specs map[string]*T, kvs []*T, message bool) *T {
	r := sg.R
	st := N("st")
	used := map[string]bool{}
	for i, kv := range kvs {
		key := kv.Kids[0].Name
		spec, ok := specs[key]
		if !ok {
			continue
		}
		name, idx, iso := sg.hdr(i, key, Pick(r, tagStyles), r.Intn(3) == 0, used, message)
		st.Kids = append(st.Kids, fd(name, idx, iso, sg.FromValue(spec, kv.Kids[1])))
	}
	if r.Intn(4) == 0 { // a zero field without keepzero is left out
		st.Kids = append(st.Kids, fd(fmt.Sprintf("Z%d", len(kvs)), "", "", N("str", A("-"))))
	}
	if len(st.Kids) == 0 {
		return A("st()")
	}
	return st
}

// MsgStructFromContent builds a struct carrying exactly the content `msg(mti, f(id,v)…)`.
func (sg *StructGen) MsgStructFromContent(spec *T, msg *T) *T {
	specs := map[string]*T{"0": spec.Kids[0]}
	for _, f := range spec.Kids[2:] {
		specs[f.Kids[0].Name] = f.Kids[1]
	}
	var kvs []*T
	if msg.Kids[0].Name != "-" {
		kvs = append(kvs, N("f", A("0"), msg.Kids[0]))
	}
	kvs = append(kvs, msg.Kids[1:]...)
	return sg.StructFromKVs(specs, kvs, true)
}

// MsgStruct builds a struct for a message spec (MTI = id 0 included most of the time).
func (sg *StructGen) MsgStruct(spec *T) *T {
	entries := []*T{}
	if sg.R.Intn(8) != 0 {
		entries = append(entries, N("f", A("0"), spec.Kids[0]))
	}
	entries = append(entries, spec.Kids[2:]...)
	return sg.Struct(entries, "f", 0, true)
}

// matrix spec: one field per kind + a composite, simple encodings
const MatrixSpec = "m(p(s,4,ascii,ascii.F,nil,d),bm(8,binary,binary.F,1)," +
	"f(2,p(s,19,ascii,ascii.2,nil,d)),f(3,p(n,6,ascii,ascii.F,L30,d)),f(4,p(b,8,binary,binary.2,nil,d))," +
	"f(5,p(h,8,binary,binary.2,nil,d)),f(6,c(99,ascii.2,t(2,ascii,nil,str,0,-),sub(01,p(s,5,ascii,ascii.1,nil,d)),sub(02,p(n,4,ascii,ascii.F,L30,d)),sub(03,p(b,4,binary,binary.1,nil,d))))," +
	"f(70,p(s,6,ascii,ascii.F,L20,d)))"

var matrixVals = map[string][][3]string{ // text, number, raw bytes (hex)
	"s": {{"abc", "12", "616263"}, {"007", "-5", "303037"}, {"12", "9223372036854775807", "3132"}, {" x", "-9223372036854775808", "2078"}},
	"n": {{"123", "123", "313233"}, {"0012", "12", "30303132"}, {"-7", "-7", "2d37"}, {"+5", "5", "2b35"}, {"1x", "999999", "3178"}},
	"b": {{"0aff", "3", "0aff"}, {"0AFF", "3", "0aff"}, {"0af", "2", "0a"}, {"zz", "1", "00"}},
	"h": {{"0AFF", "3", "0aff"}, {"0aff", "3", "0aff"}, {"0af", "2", "0a"}, {"zz", "1", "00"}},
}

var matrixIDs = map[string]string{"s": "2", "n": "3", "b": "4", "h": "5"}

// MatrixLines: the exhaustive kind × Go type × value class × keepzero × tag style sweep.
func MatrixLines(emit func(string)) {
	sg := &StructGen{R: NewRng(7)}
	mti := fd("X0", "0", "", N("str", A("30313030")))
	for _, kind := range []string{"s", "n", "b", "h", "c"} {
		id := matrixIDs[kind]
		if kind == "c" {
			id = "6"
		}
		for _, ty := range AllTypes {
			var vals []*T
			vals = append(vals, zeroOf(ty))
			if kind == "c" {
				vals = append(vals, sg.valOf(ty, []byte("12"), 12, []byte{0x12}))
				if ty == "sp" {
					vals = append(vals,
						N("sp", fd("F01", "", "", N("str", A("6162"))), fd("X1", "02", "", N("i64", A("7"))), fd("X2", "", "03,keepzero", A("nilbytes"))),
						N("nilsp", fd("F01", "", "", N("str", A("-"))), fd("X1", "02,keepzero", "", N("i64", A("0")))),
						N("sp", fd("F03", "", "", N("bytes", A("0a0b")))),
						N("sp", fd("X1", "", "03", N("ptr", N("bytes", A("0a0b"))))),
						A("sp()"))
				}
			} else {
				for _, mv := range matrixVals[kind] {
					num, _ := strconv.ParseInt(mv[1], 10, 64)
					vals = append(vals, sg.valOf(ty, []byte(mv[0]), num, unhex(mv[2])))
				}
				vals = append(vals, sg.valOf(ty, nil, 0, nil)) // pointer to zero / empty non-nil slice
			}
			for _, v := range vals {
				for _, kz := range []string{"", ",keepzero"} {
					for _, style := range []string{"iso", "idx", "name"} {
						var f *T
						switch style {
						case "iso":
							f = fd("X1", "", id+kz, v)
						case "idx":
							f = fd("X1", id+kz, "", v)
						default:
							f = fd("F"+id, "", kz, v)
						}
						st := N("st", mti, f)
						for _, op := range []string{"marshal", "rt", "rtw"} {
							emit(fmt.Sprintf("G %s %s %s", MatrixSpec, op, st.String()))
						}
					}
				}
			}
		}
	}
	// presence: unmarshal into a struct with prior values, every subset of {2,3,6} present
	prior := N("st", fd("X0", "0", "", N("str", A("58"))), fd("X1", "2", "", N("str", A("70"))),
		fd("X2", "", "3", N("i64", A("-1"))), fd("F4", "", "", N("ptr", N("bytes", A("ee")))),
		fd("X3", "6", "", N("sp", fd("F01", "", "", N("str", A("71"))), fd("F02", "", "", N("ptr", N("i64", A("9")))))),
		fd("X4", "6", "", N("nilsp", fd("F01", "", "", N("str", A("-"))))),
		fd("X5", "70", "", N("nilptr", N("str", A("-")))), fd("X6", "250", "", N("str", A("72"))))
	contents := []string{
		"msg(s(30313030))", "msg(s(30313030),f(2,s(3132)))", "msg(s(30313030),f(3,n(45)))",
		"msg(s(30313030),f(6,c(kv(01,s(6162)))))", "msg(s(30313030),f(6,c(kv(02,n(5)))))", "msg(s(30313030),f(6,c()))",
		"msg(s(30313030),f(2,s(3132)),f(3,n(45)),f(4,b(0102)),f(6,c(kv(01,s(6162)),kv(02,n(5)))),f(70,s(6162)))",
		"msg(-,f(4,b(-)))",
	}
	for _, c := range contents {
		emit(fmt.Sprintf("G %s unmarshal %s %s", MatrixSpec, c, prior.String()))
	}
}

// ChannelG: the matrix sweep, then random specs × structs.
func ChannelG(t Tier, r *Rng, emit Emit) {
	MatrixLines(func(l string) { emit(l) })
	g := NewFieldGen(r)
	for i := 0; i < t.N(1500, 12000); i++ {
		spec := g.MsgSpec(r.Intn(4))
		ss := spec.String()
		sg := &StructGen{G: g, R: r, Documented: r.Intn(3) == 0, NoKF4: r.Bool()}
		for k := 0; k < 3; k++ {
			st := sg.MsgStruct(spec)
			if k > 0 { // a struct that carries exactly an in-domain message content (Pack succeeds)
				wg := &StructGen{G: g, R: r, Documented: true, NoKF4: r.Intn(4) != 0}
				st = wg.MsgStructFromContent(spec, g.Msg(spec))
			}
			for _, op := range []string{"marshal", "rt", "rtw"} {
				emit(fmt.Sprintf("G %s %s %s", ss, op, st.String()))
			}
			emit(fmt.Sprintf("G %s unmarshal %s %s", ss, g.Msg(spec).String(), st.String()))
		}
	}
}
