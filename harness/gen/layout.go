package gen

import (
	"bytes"
	"fmt"
	"strconv"
)

// Channel R (C03): `R <msgspec> <msg>` and `R f <fieldspec> <value>` — the Lean side
// answers with the bytes of the reference codec (Spec/Layout.lean), the Go side with the
// bytes of the real Pack; `none` = no layout / Pack error.
//
// On top of the stock spec / value generators this channel produces what they never do:
// composites whose fixed-width tags are PADDED (left '0', right ' ', left ' ', right '0'),
// messages with every field present, messages with the MTI only, fixed (non-expanding)
// bitmaps with elements that do not fit, and over-length single-field values.

func init() {
	extraChannels["R"] = ChannelR
}

const (
	letters  = "ABCXYZabcxyz"
	alnum    = "0123456789ABCXYZabcxyz"
	digits19 = "123456789"
	digits09 = "0123456789"
)

// PadTagComp generates a coherent composite with fixed-width padded tags (K5: every tag
// survives pad -> encode -> decode -> unpad; K6: the tag set is strictly ordered by the
// composite's sort function and by StringsByInt). depth > 0 allows a nested one.
func (g *FieldGen) PadTagComp(depth int) *T {
	r := g.R
	tlen := 2 + r.Intn(3)
	var tenc, tpad, sortK string
	var mkTag func() string
	decimal := func(noTrailingZero bool) string {
		l := 1 + r.Intn(tlen)
		b := r.From([]byte(digits09), l)
		b[0] = digits19[r.Intn(9)]
		if noTrailingZero {
			b[l-1] = digits19[r.Intn(9)]
		}
		return string(b)
	}
	word := func() string {
		l := 1 + r.Intn(tlen)
		b := r.From([]byte(alnum), l)
		b[0] = letters[r.Intn(len(letters))]
		return string(b)
	}
	variant := r.Intn(4)
	switch variant {
	case 0: // left '0': canonical decimals (never starting with '0'), of varying length
		tenc, tpad = Pick(r, []string{"ascii", "ebcdic", "bcd"}), "L30"
		sortK = Pick(r, []string{"int", "int", "int", "str"})
		mkTag = func() string { return decimal(false) }
	case 1: // right ' ': words starting with a letter
		tenc, tpad = Pick(r, []string{"ascii", "ebcdic"}), "R20"
		sortK = Pick(r, []string{"str", "str", "int"})
		mkTag = word
	case 2: // left ' '
		tenc, tpad = Pick(r, []string{"ascii", "ebcdic"}), "L20"
		sortK = "str"
		mkTag = word
	default: // right '0': canonical decimals not ending in '0'
		tenc, tpad = Pick(r, []string{"ascii", "ebcdic", "bcd"}), "R30"
		sortK = Pick(r, []string{"int", "str"})
		mkTag = func() string { return decimal(true) }
	}
	g.count("comp tagged-padded " + tpad + " " + tenc)
	n := 1 + r.Intn(4)
	seen := map[string]bool{}
	var tags []string
	for len(tags) < n {
		t := mkTag()
		if !seen[t] {
			seen[t] = true
			tags = append(tags, t)
		}
	}
	skip, pu := "0", "-"
	if r.Intn(4) == 0 {
		skip = "1"
		pu = Pick(r, []string{"ascii.2", "bcd.2", "binary.1", "ber", "ascii.3"})
	}
	prefFam := Pick(r, PrefFams)
	d := 2 + r.Intn(3)
	pref := fmt.Sprintf("%s.%d", prefFam, d)
	length := Pick(r, []int{99, 255, 999, 9999})
	if c := prefCapacity(prefFam, d); length > c {
		length = c
	}
	if r.Intn(6) == 0 {
		pref = "ber"
		length = Pick(r, []int{0, 255, 9999})
	}
	kids := []*T{A(strconv.Itoa(length)), A(pref), N("t", A(strconv.Itoa(tlen)), A(tenc), A(tpad), A(sortK), A(skip), A(pu))}
	for _, t := range tags {
		var f *T
		switch {
		case depth > 0 && r.Intn(5) == 0:
			f = g.PadTagComp(depth - 1)
		case depth > 0 && r.Intn(6) == 0:
			f = g.Comp(depth, false)
		default:
			f = g.Prim(false)
			if r.Intn(3) == 0 && f.Kids[1].Name != "0" {
				// keep a good share of small elements so that whole composites fit their prefix
				if l, _ := strconv.Atoi(f.Kids[1].Name); l > 20 && f.Kids[0].Name != "n" && f.Kids[2].Name != "hexToBytes" {
					f.Kids[1] = A(strconv.Itoa(1 + r.Intn(20)))
				}
			}
		}
		kids = append(kids, N("sub", A(t), f))
	}
	return N("c", kids...)
}

// mtiValue: an MTI value the spec's MTI field packs (as FieldGen.Msg does)
func (g *FieldGen) mtiValue(spec *T) *T {
	if spec.Kids[0].Kids[0].Name == "s" {
		enc := spec.Kids[0].Kids[2].Name
		return N("s", A(H(g.R.From(encAlphabetFor(enc)[:10], 4))))
	}
	return g.Value(spec.Kids[0], false)
}

// MsgWith generates message content: field k of the spec is present iff keep(k, id).
func (g *FieldGen) MsgWith(spec *T, keep func(k int, id string) bool) *T {
	r := g.R
	m := N("msg", g.mtiValue(spec))
	var fs []*T
	for k, f := range spec.Kids[2:] {
		if keep(k, f.Kids[0].Name) {
			fs = append(fs, N("f", A(f.Kids[0].Name), g.Value(f.Kids[1], false)))
		}
	}
	for i := len(fs) - 1; i > 0; i-- { // population order must not matter
		j := r.Intn(i + 1)
		fs[i], fs[j] = fs[j], fs[i]
	}
	m.Kids = append(m.Kids, fs...)
	return m
}

func cloneTree(t *T) *T {
	c := &T{Name: t.Name}
	for _, k := range t.Kids {
		c.Kids = append(c.Kids, cloneTree(k))
	}
	return c
}

// ChannelR: see the head of this file.
func ChannelR(t Tier, r *Rng, emit Emit) {
	boundaryR(emit)
	g := NewFieldGen(r)
	all := func(int, string) bool { return true }
	none := func(int, string) bool { return false }
	for i := 0; i < t.N(1500, 25000); i++ {
		// stock: coherent spec (composites nested up to depth 3), two random contents
		spec := g.MsgSpec(r.Intn(4))
		ss := spec.String()
		for k := 0; k < 2; k++ {
			emit("R " + ss + " " + g.Msg(spec).String())
		}
		// (c) boundary contents: everything present / the MTI only
		if i%3 == 0 {
			emit("R " + ss + " " + g.MsgWith(spec, all).String())
		}
		if i%5 == 0 {
			emit("R " + ss + " " + g.MsgWith(spec, none).String())
		}
		// (a) a composite with padded tags as one of the data elements
		if i%2 == 0 && len(spec.Kids) > 2 {
			ps := cloneTree(g.MsgSpec(r.Intn(2)))
			idx := r.Intn(len(ps.Kids) - 2)
			ps.Kids[2+idx].Kids[1] = g.PadTagComp(1)
			pss := ps.String()
			emit("R " + pss + " " + g.MsgWith(ps, func(k int, _ string) bool { return k == idx || r.Intn(4) != 0 }).String())
			emit("R " + pss + " " + g.MsgWith(ps, func(k int, _ string) bool { return k == idx && r.Intn(3) != 0 }).String())
		}
		// fixed (non-expanding) bitmap over a spec that defines elements beyond the first
		// block: a content using one of them has no layout
		if i%7 == 0 {
			fs := cloneTree(g.MsgSpec(r.Intn(2)))
			fs.Kids[1].Kids[3] = A("0")
			fss := fs.String()
			emit("R " + fss + " " + g.Msg(fs).String())
			emit("R " + fss + " " + g.MsgWith(fs, all).String())
		}
		// (b) single fields; over-length values in about 1/8 of the cases
		f := g.Field(r.Intn(4))
		emit("R f " + f.String() + " " + g.Value(f, r.Intn(8) == 0).String())
		if i%2 == 1 {
			f = g.PadTagComp(2)
		} else {
			f = g.Field(r.Intn(3))
		}
		emit("R f " + f.String() + " " + g.Value(f, r.Intn(8) == 0).String())
	}
}

// boundaryR is the deterministic boundary stream of channel R: announced lengths around
// every digit-count / short-form / byte-count boundary for each prefix family (value
// lengths 0, 1, 9/10, 99/100, 126..129, 255..257, 999/1000, with the declared maximum at
// the value length, one below it, and unbounded), composite bodies of exactly those sizes,
// and message bitmaps whose highest element sits on the last / first data bit of a block.
func boundaryR(emit Emit) {
	lens := []int{0, 1, 9, 10, 99, 100, 126, 127, 128, 129, 255, 256, 257, 999, 1000}
	prefs := []string{"ber", "ascii.1", "ascii.2", "ascii.3", "ascii.4", "bcd.1", "bcd.2", "bcd.3", "bcd.4",
		"binary.1", "binary.2", "hex.1", "hex.2", "ebcdic.2", "ebcdic.3", "ebcdic1047.2", "ebcdic1047.3"}
	val := func(n int) string { return H(bytes.Repeat([]byte{0x41}, n)) }
	for _, p := range prefs {
		for _, n := range lens {
			maxes := []int{n, n - 1, 2000}
			if p == "ber" {
				maxes = []int{0, n, n - 1}
			}
			for _, m := range maxes {
				if m < 0 {
					continue
				}
				emit(fmt.Sprintf("R f p(b,%d,binary,%s,nil,d) b(%s)", m, p, val(n)))
			}
		}
	}
	// composite bodies: prefix of the composite announces the length of its packed subfields
	for _, cp := range []string{"ber", "ascii.3", "binary.1", "binary.2", "hex.1", "bcd.3"} {
		for _, n := range []int{2, 9, 10, 99, 100, 126, 127, 128, 129, 255, 256, 257} {
			cl := 999
			if cp == "ber" {
				cl = 0
			}
			emit(fmt.Sprintf("R f c(%d,%s,t(0,-,nil,str,0,-),sub(1,p(b,300,binary,binary.2,nil,d))) c(kv(1,b(%s)))", cl, cp, val(n-2)))
		}
	}
	// message bitmaps: highest element on the last data bit of a block, the first data bit
	// of the next one, alone or together with a low element
	for _, bl := range []int{1, 2, 3, 8, 16} {
		bits := 8 * bl
		for _, auto := range []string{"1", "0"} {
			for _, id := range []int{2, bits - 1, bits, bits + 2, 2*bits - 1, 2 * bits, 2*bits + 2, 3 * bits, 3*bits + 2} {
				if id < 2 {
					continue
				}
				for _, withLow := range []bool{false, true} {
					spec := fmt.Sprintf("m(p(s,4,ascii,ascii.F,nil,d),bm(%d,binary,binary.F,%s),f(3,p(s,2,ascii,ascii.F,nil,d)),f(%d,p(s,2,ascii,ascii.F,nil,d)))", bl, auto, id)
					if id == 3 {
						spec = fmt.Sprintf("m(p(s,4,ascii,ascii.F,nil,d),bm(%d,binary,binary.F,%s),f(3,p(s,2,ascii,ascii.F,nil,d)))", bl, auto)
					}
					msg := fmt.Sprintf("msg(s(30313030),f(%d,s(4142)))", id)
					if withLow && id != 3 {
						msg = fmt.Sprintf("msg(s(30313030),f(%d,s(4142)),f(3,s(4344)))", id)
					}
					emit("R " + spec + " " + msg)
				}
			}
		}
	}
}
