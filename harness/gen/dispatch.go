package gen

import (
	"verif/harness/impl"
)

func encodeRealE(enc string, in []byte) ([]byte, bool) {
	e, ok := impl.Encoders[enc]
	if !ok {
		return nil, false
	}
	defer func() { recover() }()
	out, err := e.Encode(in)
	if err != nil {
		return nil, false
	}
	return out, true
}

func encodeRealP(p string, maxLen, n int) (res []byte, ok bool) {
	pr := impl.Prefixer(p)
	if pr == nil {
		return nil, false
	}
	defer func() {
		if recover() != nil {
			res, ok = nil, false
		}
	}()
	out, err := pr.EncodeLength(maxLen, n)
	if err != nil {
		return nil, false
	}
	return out, true
}

// Dispatch runs the generator of one channel.
func Dispatch(ch string, t Tier, r *Rng, emit Emit) bool {
	switch ch {
	case "E":
		ChannelE(t, r, emit, encodeRealE)
	case "P":
		ChannelP(t, r, emit, encodeRealP)
	case "D":
		ChannelD(t, r, emit)
	case "B":
		ChannelB(t, r, emit)
	default:
		if f, ok := extraChannels[ch]; ok {
			f(t, r, emit)
			return true
		}
		return false
	}
	return true
}

var extraChannels = map[string]func(Tier, *Rng, Emit){}
